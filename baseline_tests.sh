#!/bin/bash
# Run the pinned suite on /repo's working tree and compare with BASELINE.json's stable_pass list.
out=$(mktemp /dev/shm/junit.XXXXXX.xml)
cd /repo && /venv/bin/python -m pytest -q -p no:cacheprovider --timeout=900 --continue-on-collection-errors --junitxml=$out >/dev/null 2>&1
/venv/bin/python - "$out" <<'PY'
import json, sys
import xml.etree.ElementTree as ET
base = json.load(open('/root/.vp/BASELINE.json'))
stable = set(base['stable_pass'])
passed = set()
for tc in ET.parse(sys.argv[1]).getroot().iter('testcase'):
    if not any(ch.tag in ('failure', 'error', 'skipped') for ch in tc):
        passed.add('%s::%s' % (tc.get('classname'), tc.get('name')))
missing = sorted(stable - passed)
print('stable tests: %d, passing now: %d, missing: %d' % (len(stable), len(stable & passed), len(missing)))
for m in missing[:20]:
    print('  FAIL', m)
sys.exit(1 if missing else 0)
PY
rc=$?
rm -f $out
exit $rc
