#!/bin/bash
# Regenerate the generated Coq tables from /repo's working tree and (re)build the development.
set -e
HERE="$(cd "$(dirname "$0")" && pwd)"
export PYTHONPATH=/repo PYTHONHASHSEED=0
PY=/venv/bin/python
mkdir -p "$HERE/coq/Gen"
$PY "$HERE/translate/consts.py" "$HERE/coq/Gen/GenConsts.v" 2>&1 | grep -v 'conda.cli' || true
cd "$HERE/coq"
[ -f Makefile ] && [ Makefile -nt _CoqProject ] || coq_makefile -f _CoqProject -o Makefile >/dev/null
timeout 3000 make -j16 2>&1 | grep -v 'conda.cli' | grep -v '^COQDEP\|^COQC\|^CoqMakefile' || true
# fail if any target is missing
for f in $(grep '\.v$' _CoqProject); do [ -f "${f}o" ] || { echo "BUILD FAILED: ${f}o missing"; exit 2; }; done
