#!/bin/bash
# Regenerate the generated Coq tables from /repo's working tree and (re)build the development.
# Never fails because of a broken proof file: `make -k` builds what it can; each check then
# requires the .vo files of its own property.
HERE="$(cd "$(dirname "$0")" && pwd)"
export PYTHONPATH=${VERIF_REPO:-/repo} PYTHONHASHSEED=0
PY=/venv/bin/python
mkdir -p "$HERE/coq/Gen" "$HERE/work"
(
  flock 9
  : > "$HERE/work/translate.log"
  for t in "$HERE"/translate/*.py; do
    $PY "$t" "$HERE/coq/Gen" >> "$HERE/work/translate.log" 2>&1 || echo "TRANSLATOR FAILED: $t" >> "$HERE/work/translate.log"
  done
  cd "$HERE/coq"
  { echo "-Q . PV"; ls Gen/*.v Model/*.v Spec/*.v Proofs/*.v Props/*.v 2>/dev/null; } > _CoqProject.new
  if ! cmp -s _CoqProject.new _CoqProject; then mv _CoqProject.new _CoqProject; rm -f Makefile; else rm -f _CoqProject.new; fi
  [ -f Makefile ] || coq_makefile -f _CoqProject -o Makefile >/dev/null
  timeout 3000 make -k -j16 COQC="timeout 900 coqc" 2>&1 | grep -v 'conda.cli' > "$HERE/work/build.log"
) 9> "$HERE/work/.build.lock"
exit 0
