(* Base utilities and the Z-only model of IEEE-754 double multiplication used for capacities. *)
From Coq Require Export List ZArith Bool Lia.
Export ListNotations.
Open Scope Z_scope.

Definition oeqb (a b : option Z) : bool :=
  match a, b with
  | Some x, Some y => x =? y
  | None, None => true
  | _, _ => false
  end.

Definition memZ (x : Z) (l : list Z) : bool := existsb (Z.eqb x) l.

Fixpoint list_eqb {A} (eqb : A -> A -> bool) (a b : list A) : bool :=
  match a, b with
  | [], [] => true
  | x :: a', y :: b' => eqb x y && list_eqb eqb a' b'
  | _, _ => false
  end.

(* lexicographic order on rows, insertion sort: used only for canonical dumps *)
Fixpoint row_leb (a b : list Z) : bool :=
  match a, b with
  | [], _ => true
  | _ :: _, [] => false
  | x :: a', y :: b' => if x <? y then true else if y <? x then false else row_leb a' b'
  end.
Fixpoint insert_row (r : list Z) (l : list (list Z)) : list (list Z) :=
  match l with
  | [] => [r]
  | x :: l' => if row_leb r x then r :: l else x :: insert_row r l'
  end.
Definition sort_rows (l : list (list Z)) : list (list Z) := fold_right insert_row [] l.

Definition dedup (l : list Z) : list Z :=
  fold_right (fun x acc => if memZ x acc then acc else x :: acc) [] l.
(* first-occurrence order, as Python dict / set-building loops do *)
Fixpoint nodup_first (seen : list Z) (l : list Z) : list Z :=
  match l with
  | [] => []
  | x :: l' => if memZ x seen then nodup_first seen l' else x :: nodup_first (x :: seen) l'
  end.

(* ------------------------------------------------------------------ *)
(* IEEE-754 binary64 product of an integer n (|n| < 2^53) and a double m * 2^e (|m| < 2^53),
   rounded to nearest-even once, as CPython's float multiplication and SQLite's REAL arithmetic do.
   Only floor / truncation of the result are observable (comparisons with integers, int()). *)

Definition round_shift (N s : Z) : Z :=
  let q := N / 2 ^ s in
  let r := N mod 2 ^ s in
  let h := 2 ^ (s - 1) in
  if (h <? r) || ((r =? h) && Z.odd q) then q + 1 else q.

(* N >= 0: N * 2^e rounded to 53 significant bits, result as (q, e') with value q * 2^e' *)
Definition round53 (N e : Z) : Z * Z :=
  let b := Z.log2 N + 1 in
  if b <=? 53 then (N, e) else let s := b - 53 in (round_shift N s, e + s).

Definition floor_dy (q e : Z) : Z := if 0 <=? e then q * 2 ^ e else q / 2 ^ (- e).
Definition ceil_dy (q e : Z) : Z := if 0 <=? e then q * 2 ^ e else - ((- q) / 2 ^ (- e)).

Definition fprod_floor (n m e : Z) : Z :=
  let P := n * m in
  if 0 <=? P then let '(q, e') := round53 P e in floor_dy q e'
  else let '(q, e') := round53 (- P) e in - ceil_dy q e'.

(* int(x): truncation toward zero *)
Definition fprod_trunc (n m e : Z) : Z :=
  let P := n * m in
  if 0 <=? P then let '(q, e') := round53 P e in floor_dy q e'
  else let '(q, e') := round53 (- P) e in - floor_dy q e'.
