(* Read paths: GET /resource_providers (filtering) and GET /allocation_candidates, on ALREADY-PARSED
   queries (after the query-string normalisation of placement/util.py and placement/lib.py).
   Each definition names the Python function it mirrors. Python sets / dicts are duplicate-free lists;
   internal integer ids are the external tokens of Tables.v. *)
From PV Require Export Model.Handlers.

(* os_traits.MISC_SHARES_VIA_AGGREGATE: index in the sorted standard trait list (harness asserts it) *)
Definition MISC_SHARES_VIA_AGGREGATE : Z := 372.

(* ================================================================ small list-as-set helpers *)
Definition is_nil {A} (l : list A) : bool := match l with [] => true | _ => false end.
Definition interZ (a b : list Z) : list Z := filter (fun x => memZ x b) a.
Definition diffZ (a b : list Z) : list Z := filter (fun x => negb (memZ x b)) a.
Definition unionZ (a b : list Z) : list Z := a ++ diffZ b a.
Definition dedup_by {A} (eqb : A -> A -> bool) (l : list A) : list A :=
  fold_right (fun x acc => if existsb (eqb x) acc then acc else x :: acc) [] l.
Definition pair_eqb (a b : Z * Z) : bool := (fst a =? fst b) && (snd a =? snd b).
Definition lenZ {A} (l : list A) : Z := Z.of_nat (length l).
Definition subsetZ (a b : list Z) : bool := forallb (fun x => memZ x b) a.
Definition set_eqZ (a b : list Z) : bool := subsetZ a b && subsetZ b a.
(* itertools.product *)
Fixpoint product {A} (ls : list (list A)) : list (list A) :=
  match ls with
  | [] => [[]]
  | l :: r => flat_map (fun x => map (cons x) (product r)) l
  end.

(* ================================================================ parsed queries *)
(* lib.RequestGroup; suffix token 0 is the unsuffixed group ('') *)
Record rgroup := mkGroup {
  g_suffix : Z;
  g_resources : list (Z * Z);        (* (resource class id, amount), query order; -1 = unknown class name *)
  g_required : list (list Z);        (* AND of any-of lists *)
  g_forbidden : list Z;
  g_member_of : list (list Z);       (* AND of any-of aggregate lists *)
  g_forbidden_aggs : list Z;
  g_in_tree : option Z }.
Definition use_same_provider (g : rgroup) : bool := negb (g_suffix g =? 0).

Inductive gpolicy := GPAbsent | GPNone | GPIsolate.
(* lib.RequestWideParams + groups in order of first appearance in the query string *)
Record query := mkQuery {
  qy_groups : list rgroup;
  qy_policy : gpolicy;
  qy_limit : option Z;
  qy_root_required : list Z;
  qy_root_forbidden : list Z;
  qy_same_subtree : list (list Z) }.

Inductive name_filter := NameAbsent | NameEmpty | NameIs (n : Z).
(* filters of GET /resource_providers as built by handlers/resource_provider.py:list_resource_providers *)
Record rp_filters := mkRpFilters {
  f_name : name_filter;
  f_uuid : option Z;
  f_in_tree : option Z;
  f_member_of : list (list Z);
  f_forbidden_aggs : list Z;
  f_required : list (list Z);
  f_forbidden : list Z;
  f_resources : list (Z * Z) }.

(* ================================================================ database views *)
Definition root_of (d : db) (u : Z) : Z := match find_rp d u with Some r => rp_root r | None => u end.
Definition parent_of (d : db) (u : Z) : option Z := match find_rp d u with Some r => rp_parent r | None => None end.
Definition is_root (d : db) (u : Z) : bool := match find_rp d u with Some r => rp_root r =? u | None => false end.
Definition has_trait (d : db) (u t : Z) : bool := existsb (fun x => (fst x =? u) && (snd x =? t)) (rp_traits d).
Definition has_agg (d : db) (u a : Z) : bool := existsb (fun x => (fst x =? u) && (snd x =? a)) (rp_aggs d).

(* research_context.provider_ids_matching_aggregates: one join per any-of list.
   (the short-circuit on lists naming only unknown aggregates is subsumed: nobody is associated with them) *)
Definition provider_ids_matching_aggregates (d : db) (member_of : list (list Z)) : list Z :=
  map rp_uuid (filter (fun r => forallb (fun members => existsb (has_agg d (rp_uuid r)) members) member_of) (rps d)).

(* research_context.provider_ids_matching_required_traits: one join per any-of set *)
Definition provider_ids_matching_required_traits (d : db) (required : list (list Z)) : list Z :=
  map rp_uuid (filter (fun r => forallb (fun any => existsb (has_trait d (rp_uuid r)) any) required) (rps d)).

(* research_context.get_provider_ids_having_any_trait: SELECT resource_provider_id FROM rp_traits WHERE trait IN .. GROUP BY *)
Definition get_provider_ids_having_any_trait (d : db) (ts : list Z) : list Z :=
  nodup_first [] (map fst (filter (fun x => memZ (snd x) ts) (rp_traits d))).

(* research_context._capacity_check_clause: used + amount <= (total - reserved) * allocation_ratio (REAL)
   AND min_unit <= amount AND max_unit >= amount AND amount % step_size = 0 *)
Definition capacity_check_clause (d : db) (i : inv) (amount : Z) : bool :=
  (usage d (i_rp i) (i_rc i) + amount <=? cap_floor i) && (i_min i <=? amount) && (amount <=? i_max i)
  && (amount mod i_step i =? 0).

(* research_context.get_providers_with_resource: (provider, root) pairs *)
Definition get_providers_with_resource (d : db) (rc amount : Z) (tree_root : option Z) : list (Z * Z) :=
  flat_map (fun i =>
    if (i_rc i =? rc) && capacity_check_clause d i amount then
      match find_rp d (i_rp i) with
      | Some r => if match tree_root with Some t => rp_root r =? t | None => true end
                  then [(rp_uuid r, rp_root r)] else []
      | None => []
      end
    else []) (invs d).

(* ================================================================ GET /resource_providers *)
(* query-string schema per microversion (GET_RPS_SCHEMA_x_y) and the version gates of util.normalize_..: false = 400 *)
Definition rp_filters_wf (v : Z) (f : rp_filters) : bool :=
  (is_nil (f_member_of f) && is_nil (f_forbidden_aggs f) || (3 <=? v))
  && (is_nil (f_resources f) || (4 <=? v))
  && (match f_in_tree f with Some _ => 14 <=? v | None => true end)
  && (is_nil (f_required f) && is_nil (f_forbidden f) || (18 <=? v))
  && (is_nil (f_forbidden f) || (22 <=? v))
  && ((lenZ (f_member_of f) <=? 1) || (24 <=? v))
  && (is_nil (f_forbidden_aggs f) || (32 <=? v))
  && (forallb (fun any => lenZ any =? 1) (f_required f) || (39 <=? v))
  && forallb (fun x => 1 <=? snd x) (f_resources f).

(* the chain of `query = query.where(rp.c.id.in_(get_providers_with_resource ...))`; None = ResourceClassNotFound *)
Fixpoint resources_filter (d : db) (res : list (Z * Z)) (l : list rp) : option (list rp) :=
  match res with
  | [] => Some l
  | (rc, amount) :: rest =>
      if negb (rc_exists d rc) then None else
      let ok := map fst (get_providers_with_resource d rc amount None) in
      resources_filter d rest (filter (fun r => memZ (rp_uuid r) ok) l)
  end.

(* every trait and resource class named by the filters exists: the names are translated to ids FIRST
   (required traits, forbidden traits, resource classes), whatever the other filters are *)
Definition names_known (d : db) (f : rp_filters) : bool :=
  forallb (forallb (trait_exists d)) (f_required f) && forallb (trait_exists d) (f_forbidden f)
  && forallb (fun x => rc_exists d (fst x)) (f_resources f).

(* objects/resource_provider.py:_get_all_by_filters_from_db; None = 400 (TraitNotFound / ResourceClassNotFound).
   (the class lookup inside resources_filter can no longer fail) *)
Definition get_all_by_filters (d : db) (f : rp_filters) : option (list Z) :=
  if negb (names_known d f) then None else
  let by_name := match f_name f with NameIs n => filter (fun r => rp_name r =? n) (rps d) | _ => rps d end in   (* `if name:` *)
  let by_uuid := match f_uuid f with Some u => filter (fun r => rp_uuid r =? u) by_name | None => by_name end in
  match (match f_in_tree f with
         | None => Some by_uuid
         | Some t => match find_rp d t with
                     | Some tr => Some (filter (fun r => rp_root r =? rp_root tr) by_uuid)
                     | None => None
                     end
         end) with
  | None => Some []                                            (* unknown in_tree: empty list *)
  | Some l1 =>
      let with_traits := provider_ids_matching_required_traits d (f_required f) in
      if negb (is_nil (f_required f)) && is_nil with_traits then Some [] else
      let l2 := if is_nil (f_required f) then l1 else filter (fun r => memZ (rp_uuid r) with_traits) l1 in
      let bad_traits := if is_nil (f_forbidden f) then [] else get_provider_ids_having_any_trait d (f_forbidden f) in
      let l3 := filter (fun r => negb (memZ (rp_uuid r) bad_traits)) l2 in
      let in_aggs := provider_ids_matching_aggregates d (f_member_of f) in
      if negb (is_nil (f_member_of f)) && is_nil in_aggs then Some [] else
      let l4 := if is_nil (f_member_of f) then l3 else filter (fun r => memZ (rp_uuid r) in_aggs) l3 in
      let bad_aggs := if is_nil (f_forbidden_aggs f) then [] else provider_ids_matching_aggregates d [f_forbidden_aggs f] in
      let l5 := filter (fun r => negb (memZ (rp_uuid r) bad_aggs)) l4 in
      match resources_filter d (f_resources f) l5 with
      | Some l6 => Some (map rp_uuid l6)
      | None => None
      end
  end.

(* handlers/resource_provider.py:list_resource_providers on parsed filters; None = 400 *)
Definition list_rps_result (v : Z) (f : rp_filters) (d : db) : option (list Z) :=
  if negb (rp_filters_wf v f) then None else get_all_by_filters d f.
Definition list_rps (v : Z) (f : rp_filters) (d : db) : list Z :=
  match list_rps_result v f d with Some l => l | None => [] end.

(* ================================================================ GET /allocation_candidates: results *)
(* allocation_candidate.AllocationRequestResource *)
Record rreq := mkRreq { rr_rp : Z; rr_rc : Z; rr_amt : Z }.
(* allocation_candidate.AllocationRequest: anchor root, resource requests, mappings suffix -> providers *)
Record creq := mkCreq { cr_anchor : Z; cr_rrs : list rreq; cr_maps : list (Z * list Z) }.
(* allocation_candidate.ProviderSummary: provider, [(class, capacity, used)], traits, parent, root *)
Record psum := mkPsum { ps_rp : Z; ps_res : list (Z * Z * Z); ps_traits : list Z; ps_parent : option Z; ps_root : Z }.

Inductive cand_result :=
| CErr (st : Z)                      (* 400 (bad query / unknown trait or class), 404 (microversion < 1.10) *)
| CKeyError                          (* 500: KeyError summaries_by_id[rp.id] in _alloc_candidates_multiple_providers *)
| COrderDependent (why : Z)          (* 200 whose content depends on Python set iteration order:
                                        1 = AllocationRequest set de-duplication drops all but one anchor *)
| COk (areqs : list creq) (sums : list psum).

(* pipeline monad: REmpty = ResourceProviderNotFound or "no candidates" ([], []), RBad = 400 *)
Inductive cres (A : Type) := RVal (a : A) | REmpty | RBad | RKeyError.
Arguments RVal {A} a.
Arguments REmpty {A}.
Arguments RBad {A}.
Arguments RKeyError {A}.

(* ================================================================ research_context *)
(* RequestWideSearchContext (immutable part) *)
Record rw_ctx := mkRwCtx {
  rw_has_trees : bool;
  rw_nested_aware : bool;
  rw_anchor_root_ids : option (list Z);      (* None: no anchor filtering *)
  rw_policy : gpolicy;
  rw_same_subtrees : list (list Z) }.
(* the two objects mutated while the groups are processed: the `sharing` set shared by every
   RequestGroupSearchContext, and summaries_by_id (as the roots of the trees summarised so far) *)
Record rw_state := mkRwState { st_sharing : list Z; st_built : list Z }.

(* research_context._has_provider_trees *)
Definition has_provider_trees (d : db) : bool :=
  existsb (fun r => match rp_parent r with Some _ => true | None => false end) (rps d).

(* research_context._get_roots_with_traits *)
Definition get_roots_with_traits (d : db) (required forbidden : list Z) : list Z :=
  map rp_uuid (filter (fun r => match rp_parent r with None => true | Some _ => false end
                                && forallb (has_trait d (rp_uuid r)) required
                                && negb (existsb (has_trait d (rp_uuid r)) forbidden)) (rps d)).

(* RequestWideSearchContext._process_anchor_traits *)
Definition process_anchor_traits (d : db) (q : query) : cres (option (list Z)) :=
  if is_nil (qy_root_required q) && is_nil (qy_root_forbidden q) then RVal None else
  if negb (forallb (trait_exists d) (qy_root_required q) && forallb (trait_exists d) (qy_root_forbidden q)) then RBad else
  match get_roots_with_traits d (qy_root_required q) (qy_root_forbidden q) with
  | [] => REmpty
  | l => RVal (Some l)
  end.

(* RequestWideSearchContext.in_filtered_anchors *)
Definition in_filtered_anchors (rw : rw_ctx) (root : Z) : bool :=
  match rw_anchor_root_ids rw with None => true | Some l => memZ root l end.

(* research_context.get_sharing_providers *)
Definition get_sharing_providers (d : db) : list Z :=
  map rp_uuid (filter (fun r => has_trait d (rp_uuid r) MISC_SHARES_VIA_AGGREGATE) (rps d)).

(* research_context.anchors_for_sharing_providers: (sharing provider, root of a provider in one of its aggregates) *)
Definition anchors_for_sharing_providers (d : db) (sps : list Z) : list (Z * Z) :=
  dedup_by pair_eqb
    (flat_map (fun sp => flat_map (fun a => map (fun x => (sp, root_of d (fst x)))
                                              (filter (fun x => snd x =? a) (rp_aggs d))) (aggs_of d sp)) sps).

(* RequestGroupSearchContext *)
Record rg_ctx := mkRgCtx {
  rg_group : rgroup;
  rg_rps_in_aggs : list Z;
  rg_tree_root : option Z;
  rg_with_resource : list (Z * list (Z * Z)) }.    (* _rps_with_resource, in the order of group.resources *)

Fixpoint rps_with_resource_all (d : db) (tree_root : option Z) (res : list (Z * Z)) : option (list (Z * list (Z * Z))) :=
  match res with
  | [] => Some []
  | (rc, amount) :: rest =>
      match get_providers_with_resource d rc amount tree_root with
      | [] => None
      | l => match rps_with_resource_all d tree_root rest with Some t => Some ((rc, l) :: t) | None => None end
      end
  end.

(* RequestGroupSearchContext.__init__: RBad = ResourceClassNotFound / TraitNotFound, REmpty = ResourceProviderNotFound *)
Definition mk_rg_ctx (d : db) (g : rgroup) : cres rg_ctx :=
  if negb (forallb (fun x => rc_exists d (fst x)) (g_resources g)) then RBad else
  let in_aggs := if is_nil (g_member_of g) then [] else provider_ids_matching_aggregates d (g_member_of g) in
  if negb (is_nil (g_member_of g)) && is_nil in_aggs then REmpty else
  if negb (forallb (forallb (trait_exists d)) (g_required g) && forallb (trait_exists d) (g_forbidden g)) then RBad else
  match (match g_in_tree g with
         | None => Some None
         | Some u => match find_rp d u with Some r => Some (Some (rp_root r)) | None => None end
         end) with
  | None => REmpty
  | Some tree_root =>
      match rps_with_resource_all d tree_root (g_resources g) with
      | None => REmpty
      | Some l => RVal (mkRgCtx g in_aggs tree_root l)
      end
  end.

(* RequestGroupSearchContext.get_rps_with_shared_capacity, first half: `sharing_in_aggs &= self.rps_in_aggs`
   is an IN-PLACE update of the set object shared by all groups *)
Definition narrow_sharing (ctx : rg_ctx) (sharing : list Z) : list Z :=
  if is_nil (rg_rps_in_aggs ctx) then sharing else interZ sharing (rg_rps_in_aggs ctx).
(* second half, on the narrowed set *)
Definition get_rps_with_shared_capacity (sharing : list Z) (with_inv : list (Z * Z)) : list Z :=
  interZ sharing (map fst with_inv).

(* research_context.get_provider_ids_for_traits_and_aggs: (None = no provider can match, Some [] = unfiltered,
   forbidden provider ids) *)
Definition get_provider_ids_for_traits_and_aggs (d : db) (ctx : rg_ctx) : option (list Z) * list Z :=
  let g := rg_group ctx in
  let f1 := if is_nil (g_required g) then Some [] else
            match provider_ids_matching_required_traits d (g_required g) with [] => None | l => Some l end in
  let f2 := match f1 with
            | None => None
            | Some f => if is_nil (g_member_of g) then Some f else
                        match (if is_nil f then rg_rps_in_aggs ctx else interZ f (rg_rps_in_aggs ctx)) with
                        | [] => None | l => Some l end
            end in
  let bad_aggs := if is_nil (g_forbidden_aggs g) then [] else provider_ids_matching_aggregates d [g_forbidden_aggs g] in
  let f3 := match f2 with
            | None => None
            | Some [] => Some []
            | Some f => if is_nil (g_forbidden_aggs g) then Some f else
                        match diffZ f bad_aggs with [] => None | l => Some l end
            end in
  let bad_traits := if is_nil (g_forbidden g) then [] else get_provider_ids_having_any_trait d (g_forbidden g) in
  let f4 := match f3 with
            | None => None
            | Some [] => Some []
            | Some f => if is_nil (g_forbidden g) then Some f else
                        match diffZ f bad_traits with [] => None | l => Some l end
            end in
  match f4 with
  | None => (None, [])
  | Some f => (Some f, unionZ bad_aggs bad_traits)
  end.

(* research_context.get_providers_with_root *)
Definition get_providers_with_root (d : db) (allowed forbidden : list Z) : list (Z * Z) :=
  map (fun r => (rp_uuid r, rp_root r))
      (filter (fun r => (is_nil allowed || memZ (rp_uuid r) allowed) && negb (memZ (rp_uuid r) forbidden)) (rps d)).

(* research_context.get_provider_ids_matching. The `return []` exits inside the loop are subsumed: an empty
   filtered set stays empty under the remaining intersections and the final comprehension *)
Definition get_provider_ids_matching (d : db) (ctx : rg_ctx) : list (Z * Z) :=
  match get_provider_ids_for_traits_and_aggs d ctx with
  | (None, _) => []
  | (Some filtered, forbidden) =>
      match rg_with_resource ctx with
      | [] =>
          (* resourceless group: in_tree is applied here, and an empty `filtered` (no positive trait or
             aggregate filter) keeps every provider that is not forbidden *)
          let provs := get_providers_with_root d filtered forbidden in
          let in_tree := match rg_tree_root ctx with
                         | Some t => filter (fun p => snd p =? t) provs
                         | None => provs
                         end in
          if is_nil filtered then in_tree else filter (fun p => memZ (fst p) filtered) in_tree
      | (_, first) :: rest =>
          let f1 := if is_nil filtered then diffZ (map fst first) forbidden else interZ filtered (map fst first) in
          let f := fold_left (fun acc x => interZ acc (map fst (snd x))) rest f1 in
          filter (fun p => memZ (fst p) f) (snd (last rest (0, first)))
      end
  end.

(* rp_candidates.RPCandidate / RPCandidateList *)
Record rpc := mkRpc { pc_rp : Z; pc_root : Z; pc_rc : Z }.
Definition rpc_eqb (a b : rpc) : bool := (pc_rp a =? pc_rp b) && (pc_root a =? pc_root b) && (pc_rc a =? pc_rc b).
Definition pc_trees (l : list rpc) : list Z := dedup (map pc_root l).
Definition pc_rps (l : list rpc) : list Z := dedup (map pc_rp l).
Definition add_rps (l : list rpc) (ps : list (Z * Z)) (rc : Z) : list rpc :=
  dedup_by rpc_eqb (l ++ map (fun x => mkRpc (fst x) (snd x) rc) ps).
Definition filter_by_tree (l : list rpc) (roots : list Z) : list rpc := filter (fun p => memZ (pc_root p) roots) l.
Definition filter_by_rp (l : list rpc) (tuples : list (Z * Z)) : list rpc :=
  filter (fun p => existsb (pair_eqb (pc_rp p, pc_root p)) tuples) l.
Definition filter_by_rp_or_tree (l : list rpc) (ids : list Z) : list rpc :=
  filter (fun p => memZ (pc_rp p) ids || memZ (pc_root p) ids) l.
Definition filter_by_rp_nor_tree (l : list rpc) (ids : list Z) : list rpc :=
  filter (fun p => negb (memZ (pc_rp p) ids || memZ (pc_root p) ids)) l.
Definition merge_common_trees (self other : list rpc) : list rpc :=
  if is_nil self then other else if is_nil other then self else
  filter_by_tree (dedup_by rpc_eqb (self ++ other)) (interZ (pc_trees self) (pc_trees other)).

(* research_context._get_trees_with_traits. The caller passes forbidden_traits as the dict name -> id, so
   `trait_id IN (<names>)` never matches: every provider is "good" (observed on SQLite). *)
Definition get_trees_with_traits (d : db) (rp_ids : list Z) (required : list (list Z)) : list (Z * Z) :=
  let original := map (fun u => (u, root_of d u)) rp_ids in
  let good := original in
  match required with
  | [] => filter (fun x => memZ (snd x) (map snd good)) original
  | _ => let tree_has (root t : Z) := existsb (fun x => (snd x =? root) && has_trait d (fst x) t) good in
         filter (fun x => forallb (fun any => existsb (tree_has (snd x)) any) required) original
  end.

(* the per-resource-class body of the loop in get_trees_matching_all (before merge_common_trees) *)
Definition trees_for_rc (d : db) (rw : rw_ctx) (ctx : rg_ctx) (bad_aggs sharing : list Z)
           (rc : Z) (with_inv : list (Z * Z)) : list rpc :=
  let g := rg_group ctx in
  let p0 := add_rps [] with_inv rc in
  let sps := get_rps_with_shared_capacity sharing with_inv in
  let p1 := match sps, rg_tree_root ctx with
            | _ :: _, None => add_rps p0 (anchors_for_sharing_providers d sps) rc
            | _, _ => p0
            end in
  let p2 := match rw_anchor_root_ids rw with Some (x :: l) => filter_by_tree p1 (x :: l) | _ => p1 end in
  let p3 := if is_nil (g_member_of g) then p2 else filter_by_rp_or_tree p2 (rg_rps_in_aggs ctx) in
  if is_nil (g_forbidden_aggs g) then p3 else filter_by_rp_nor_tree p3 bad_aggs.

(* the loop of get_trees_matching_all; [] = one of its `return RPCandidateList()` exits *)
Fixpoint trees_loop (d : db) (rw : rw_ctx) (ctx : rg_ctx) (bad_aggs sharing : list Z) (acc : list rpc)
         (res : list (Z * list (Z * Z))) : list rpc :=
  match res with
  | [] => acc
  | (rc, with_inv) :: rest =>
      match trees_for_rc d rw ctx bad_aggs sharing rc with_inv with
      | [] => []
      | p => match merge_common_trees acc p with
             | [] => []
             | acc' => trees_loop d rw ctx bad_aggs sharing acc' rest
             end
      end
  end.

(* research_context.get_trees_matching_all; `sharing` is the set AFTER narrow_sharing *)
Definition get_trees_matching_all (d : db) (rw : rw_ctx) (ctx : rg_ctx) (sharing : list Z) : list rpc :=
  let g := rg_group ctx in
  let bad_aggs := if is_nil (g_forbidden_aggs g) then [] else provider_ids_matching_aggregates d [g_forbidden_aggs g] in
  let provs := trees_loop d rw ctx bad_aggs sharing [] (rg_with_resource ctx) in
  if is_nil provs then [] else
  if (is_nil (g_required g) && is_nil (g_forbidden g)) || negb (is_nil sharing) then provs
  else filter_by_rp provs (get_trees_with_traits d (pc_rps provs) (g_required g)).

(* ================================================================ allocation_candidate: one group *)
(* _build_provider_summaries, as its effect on the set of summarised trees: root_ids may contain
   non-root providers, which select nothing (WHERE root_provider_id IN root_ids) *)
Definition build_provider_summaries (d : db) (built root_ids : list Z) : list Z :=
  unionZ built (filter (is_root d) root_ids).

Definition amount_of (g : rgroup) (rc : Z) : Z :=
  match find (fun x => fst x =? rc) (g_resources g) with Some x => snd x | None => 0 end.

(* _check_traits_for_alloc_request *)
Definition check_traits_for_alloc_request (d : db) (rp_ids : list Z) (required : list (list Z)) (forbidden : list Z) : bool :=
  negb (existsb (fun u => existsb (has_trait d u) forbidden) rp_ids)
  && forallb (fun any => existsb (fun t => existsb (fun u => has_trait d u t) rp_ids) any) required.

(* the body of `for root_id, alloc_dict in tree_dict.items()` *)
Definition alloc_requests_for_tree (d : db) (g : rgroup) (cands : list rpc) (root : Z) : list creq :=
  let here := filter (fun c => pc_root c =? root) cands in
  let rcs := filter (fun rc => existsb (fun c => pc_rc c =? rc) here) (map fst (g_resources g)) in
  let request_groups :=
    map (fun rc => map (fun c => mkRreq (pc_rp c) rc (amount_of g rc))
                       (filter (fun c => pc_rc c =? rc) here)) rcs in
  flat_map (fun combo =>
              if check_traits_for_alloc_request d (map rr_rp combo) (g_required g) (g_forbidden g)
              then [mkCreq root combo [(g_suffix g, dedup (map rr_rp combo))]] else [])
           (product request_groups).

(* _alloc_candidates_multiple_providers. The Python result is a SET of AllocationRequest whose equality
   ignores the anchor; here every anchor is kept (see anchor_ambiguous). *)
Definition alloc_candidates_multiple_providers (d : db) (ctx : rg_ctx) (built : list Z) (cands : list rpc)
  : cres (list creq * list Z) :=
  if is_nil cands then REmpty else
  let root_ids := unionZ (pc_rps cands) (pc_trees cands) in
  let built' := build_provider_summaries d built root_ids in
  if negb (forallb (fun c => memZ (root_of d (pc_rp c)) built') cands) then RKeyError else
  RVal (flat_map (alloc_requests_for_tree d (rg_group ctx) cands) (pc_trees cands), built').

(* _allocation_request_for_provider *)
Definition allocation_request_for_provider (d : db) (g : rgroup) (u : Z) : creq :=
  mkCreq (root_of d u) (map (fun x => mkRreq u (fst x) (snd x)) (g_resources g)) [(g_suffix g, [u])].

(* _alloc_candidates_single_provider *)
Definition alloc_candidates_single_provider (d : db) (rw : rw_ctx) (ctx : rg_ctx) (built : list Z)
           (tuples : list (Z * Z)) : cres (list creq * list Z) :=
  if is_nil tuples then REmpty else
  let g := rg_group ctx in
  let built' := build_provider_summaries d built (dedup (map snd tuples)) in
  RVal (flat_map (fun t =>
          let base := allocation_request_for_provider d g (fst t) in
          (if in_filtered_anchors rw (snd t) then [base] else [])
          ++ (if has_trait d (fst t) MISC_SHARES_VIA_AGGREGATE then
                flat_map (fun a => if (snd a =? snd t) || negb (in_filtered_anchors rw (snd a)) then []
                                   else [mkCreq (snd a) (cr_rrs base) (cr_maps base)])
                         (anchors_for_sharing_providers d [fst t])
              else [])) tuples, built').

(* AllocationCandidates._get_by_one_request, threading the mutable state *)
Definition get_by_one_request (d : db) (rw : rw_ctx) (ctx : rg_ctx) (st : rw_state) : cres (list creq * rw_state) :=
  let g := rg_group ctx in
  if negb (use_same_provider g) && (negb (is_nil (st_sharing st)) || rw_has_trees rw) then
    if negb (is_nil (g_required g)) && is_nil (get_provider_ids_having_any_trait d (concat (g_required g)))
    then REmpty else
    let sharing' := if is_nil (g_resources g) then st_sharing st else narrow_sharing ctx (st_sharing st) in
    match alloc_candidates_multiple_providers d ctx (st_built st) (get_trees_matching_all d rw ctx sharing') with
    | RVal (l, built') => RVal (l, mkRwState sharing' built')
    | REmpty => REmpty | RBad => RBad | RKeyError => RKeyError
    end
  else
    match alloc_candidates_single_provider d rw ctx (st_built st) (get_provider_ids_matching d ctx) with
    | RVal (l, built') => RVal (l, mkRwState (st_sharing st) built')
    | REmpty => REmpty | RBad => RBad | RKeyError => RKeyError
    end.

(* ================================================================ allocation_candidate: merging the groups *)
(* AllocationRequestResource.__eq__ / AllocationRequest.__eq__ (anchor NOT compared) *)
Definition rr_eqb (a b : rreq) : bool := (rr_rp a =? rr_rp b) && (rr_rc a =? rr_rc b) && (rr_amt a =? rr_amt b).
Definition same_rrs (a b : list rreq) : bool :=
  forallb (fun x => existsb (rr_eqb x) b) a && forallb (fun x => existsb (rr_eqb x) a) b.
Definition map_in (m : list (Z * list Z)) (kv : Z * list Z) : bool :=
  existsb (fun kv' => (fst kv =? fst kv') && set_eqZ (snd kv) (snd kv')) m.
Definition same_maps (a b : list (Z * list Z)) : bool := forallb (map_in b) a && forallb (map_in a) b.
Definition same_creq (a b : creq) : bool := same_rrs (cr_rrs a) (cr_rrs b) && same_maps (cr_maps a) (cr_maps b).

(* Hazard 1. _alloc_candidates_multiple_providers returns a set: of several equal AllocationRequests with
   different anchors only the first one iterated survives, so later groups can be merged under that anchor only *)
Definition anchor_ambiguous (l : list creq) : bool :=
  existsb (fun a => existsb (fun b => same_creq a b && negb (cr_anchor a =? cr_anchor b)) l) l.

(* _satisfies_group_policy *)
Definition satisfies_group_policy (policy : gpolicy) (num_granular : Z) (combo : list (rgroup * creq)) : bool :=
  match policy with
  | GPIsolate =>
      lenZ (dedup (flat_map (fun gc => if use_same_provider (fst gc)
                                       then match cr_maps (snd gc) with (_, ps) :: _ => ps | [] => [] end
                                       else []) combo)) =? num_granular
  | _ => true
  end.

(* _get_ancestors_by_one_uuid *)
Fixpoint ancestors (fuel : nat) (d : db) (u : Z) : list Z :=
  u :: match fuel with
       | O => []
       | S f => match parent_of d u with Some p => ancestors f d p | None => [] end
       end.
(* _check_same_subtree *)
Definition check_same_subtree (d : db) (us : list Z) : bool :=
  match us with
  | [_] => true
  | _ => existsb (fun u => forallb (fun w => memZ u (ancestors (length (rps d)) d w)) us) us
  end.
(* _satisfies_same_subtree *)
Definition satisfies_same_subtree (d : db) (ssts : list (list Z)) (combo : list creq) : bool :=
  forallb (fun suffixes =>
             check_same_subtree d
               (dedup (flat_map (fun c => flat_map (fun kv => if memZ (fst kv) suffixes then snd kv else [])
                                                   (cr_maps c)) combo))) ssts.

(* _consolidate_allocation_requests: amounts of the same (provider, class) are summed into the first entry.
   copy_arr_if_needed copies every AllocationRequestResource whose class is requested by several groups
   (a collision implies that), so the `amount +=` never touches an object shared with another combination *)
Fixpoint add_rr (acc : list rreq) (x : rreq) : list rreq :=
  match acc with
  | [] => [x]
  | y :: r => if (rr_rp y =? rr_rp x) && (rr_rc y =? rr_rc x)
              then mkRreq (rr_rp y) (rr_rc y) (rr_amt y + rr_amt x) :: r
              else y :: add_rr r x
  end.
Fixpoint add_map (acc : list (Z * list Z)) (kv : Z * list Z) : list (Z * list Z) :=
  match acc with
  | [] => [kv]
  | y :: r => if fst y =? fst kv then (fst y, unionZ (snd y) (snd kv)) :: r else y :: add_map r kv
  end.
Definition consolidate_allocation_requests (combo : list creq) : creq :=
  mkCreq (match combo with c :: _ => cr_anchor c | [] => -1 end)
         (fold_left add_rr (flat_map cr_rrs combo) [])
         (fold_left add_map (flat_map cr_maps combo) []).

(* RequestWideSearchContext.exceeds_capacity, against the provider summaries (capacity = int(..)) *)
Definition exceeds_capacity (d : db) (c : creq) : bool :=
  existsb (fun x => match find_inv d (rr_rp x) (rr_rc x) with
                    | Some i => (cap_trunc i <? usage d (rr_rp x) (rr_rc x) + rr_amt x) || (i_max i <? rr_amt x)
                    | None => true
                    end) (cr_rrs c).

(* the combinations of _merge_candidates that reach _consolidate_allocation_requests, over all anchors *)
Definition merge_combos (d : db) (rw : rw_ctx) (cands : list (rgroup * list creq)) : list (list creq) :=
  let anchors := dedup (flat_map (fun gl => map cr_anchor (snd gl)) cands) in
  let num_granular := lenZ (filter (fun gl => use_same_provider (fst gl)) cands) in
  flat_map (fun a =>
    let lists := map (fun gl => map (pair (fst gl)) (filter (fun c => cr_anchor c =? a) (snd gl))) cands in
    if existsb is_nil lists then [] else
    map (map snd)
        (filter (fun combo => satisfies_group_policy (rw_policy rw) num_granular combo
                              && satisfies_same_subtree d (rw_same_subtrees rw) (map snd combo))
                (product lists))) anchors.

(* ProviderSummary of one provider: every inventory with capacity int((total - reserved) * ratio) and usage *)
Definition summary_of (d : db) (r : rp) : psum :=
  mkPsum (rp_uuid r)
         (map (fun i => (i_rc i, cap_trunc i, usage d (i_rp i) (i_rc i))) (filter (fun i => i_rp i =? rp_uuid r) (invs d)))
         (traits_of d (rp_uuid r)) (rp_parent r) (rp_root r).

(* _merge_candidates, after the hazard checks: (allocation requests, provider summaries) *)
Definition merge_candidates (d : db) (built : list Z) (combos : list (list creq)) : list creq * list psum :=
  let areqs := dedup_by same_creq
                 (filter (fun c => negb (exceeds_capacity d c)) (map consolidate_allocation_requests combos)) in
  match areqs with
  | [] => ([], [])
  | _ => let tree_uuids := dedup (flat_map (fun c => map (fun x => root_of d (rr_rp x)) (cr_rrs c)) areqs) in
         (areqs, map (summary_of d) (filter (fun r => memZ (rp_root r) built && memZ (rp_root r) tree_uuids) (rps d)))
  end.

(* RequestWideSearchContext.exclude_nested_providers *)
Definition exclude_nested_providers (d : db) (rw : rw_ctx) (x : list creq * list psum) : list creq * list psum :=
  if rw_nested_aware rw || negb (rw_has_trees rw) then x else
  let kept := filter (fun c => let us := dedup (map rr_rp (cr_rrs c)) in
                               lenZ us =? lenZ (dedup (map (root_of d) us))) (fst x) in
  let all_rps := flat_map (fun c => map rr_rp (cr_rrs c)) kept in
  (kept, filter (fun s => memZ (ps_rp s) all_rps) (snd x)).

(* RequestWideSearchContext.limit_results with randomize_allocation_candidates = False, on an abstract
   list: the order in which Python produces the allocation requests is NOT modelled *)
Definition limit_results (d : db) (limit : option Z) (x : list creq * list psum) : list creq * list psum :=
  match limit with
  | Some n =>
      if (0 <? n) && (n <? lenZ (fst x)) then
        let kept := firstn (Z.to_nat n) (fst x) in
        let roots := flat_map (fun c => map (fun r => root_of d (rr_rp r)) (cr_rrs c)) kept in
        (kept, filter (fun s => memZ (ps_root s) roots) (snd x))
      else x
  | None => x
  end.

(* the `for suffix, group in groups.items()` loop of _get_by_requests *)
Fixpoint groups_loop (d : db) (rw : rw_ctx) (st : rw_state) (gs : list rgroup) (acc : list (rgroup * list creq))
  : cres (list (rgroup * list creq) * rw_state) :=
  match gs with
  | [] => RVal (rev acc, st)
  | g :: rest =>
      match mk_rg_ctx d g with
      | RVal ctx =>
          match get_by_one_request d rw ctx st with
          | RVal ([], _) => REmpty
          | RVal (l, st') => groups_loop d rw st' rest ((g, l) :: acc)
          | REmpty => REmpty | RBad => RBad | RKeyError => RKeyError
          end
      | REmpty => REmpty | RBad => RBad | RKeyError => RKeyError
      end
  end.

(* ================================================================ handler *)
(* schemas/allocation_candidate.py GET_SCHEMA_1_x, lib.RequestWideParams.from_request,
   lib.RequestGroup.dict_from_request and the group_policy check of the handler: false = 400 *)
Definition group_wf (v : Z) (g : rgroup) : bool :=
  ((g_suffix g =? 0) || (25 <=? v))
  && (is_nil (g_required g) && is_nil (g_forbidden g) || (17 <=? v))
  && (is_nil (g_forbidden g) || (22 <=? v))
  && (forallb (fun any => lenZ any =? 1) (g_required g) || (39 <=? v))
  && forallb (fun any => negb (is_nil any)) (g_required g)
  && (is_nil (g_member_of g) && is_nil (g_forbidden_aggs g) || (21 <=? v))
  && ((lenZ (g_member_of g) <=? 1) || (24 <=? v))
  && (is_nil (g_forbidden_aggs g) || (32 <=? v))
  && (match g_in_tree g with Some _ => 31 <=? v | None => true end)
  && forallb (fun x => 1 <=? snd x) (g_resources g)
  (* _check_forbidden (from 1.22) *)
  && negb (existsb (fun any => forallb (fun t => memZ t (g_forbidden g)) any) (g_required g)).

Definition query_wf (v : Z) (q : query) : bool :=
  let gs := qy_groups q in
  let suffixes := map g_suffix gs in
  let sst := concat (qy_same_subtree q) in
  negb (is_nil gs)
  && forallb (group_wf v) gs
  && (lenZ (dedup suffixes) =? lenZ suffixes)
  && ((25 <=? v) || memZ 0 suffixes)                                     (* "required": ["resources"] *)
  && (match qy_policy q with GPAbsent => true | _ => 25 <=? v end)
  && (match qy_limit q with Some n => (16 <=? v) && (1 <=? n) | None => true end)
  && (is_nil (qy_root_required q) && is_nil (qy_root_forbidden q) || (35 <=? v))
  && is_nil (interZ (qy_root_required q) (qy_root_forbidden q))
  && (is_nil (qy_same_subtree q) || (36 <=? v))
  && negb (memZ 0 sst)
  && (if 36 <=? v then
        existsb (fun g => negb (is_nil (g_resources g))) gs                (* _check_for_one_resources *)
        && forallb (fun g => negb (is_nil (g_resources g)) || memZ (g_suffix g) sst) gs   (* _check_resourceless_suffix *)
        && subsetZ sst suffixes                                            (* _check_actual_suffix *)
      else forallb (fun g => negb (is_nil (g_resources g))) gs)            (* _check_for_orphans *)
  && (match qy_policy q with
      | GPAbsent => lenZ (filter use_same_provider gs) <=? 1
      | _ => true
      end).

(* _transform_allocation_requests_* / _transform_provider_summaries: what the response shows at version v *)
Definition transform (v : Z) (q : query) (x : list creq * list psum) : cand_result :=
  let requested := flat_map (fun g => map fst (g_resources g)) (qy_groups q) in
  COk (map (fun c => mkCreq (-1) (cr_rrs c) (if 34 <=? v then cr_maps c else [])) (fst x))
      (map (fun s => mkPsum (ps_rp s)
                            (filter (fun r => (27 <=? v) || memZ (fst (fst r)) requested) (ps_res s))
                            (if 17 <=? v then ps_traits s else [])
                            (if 29 <=? v then ps_parent s else None)
                            (if 29 <=? v then ps_root s else -1)) (snd x)).

Definition res_eqb (a b : Z * Z * Z) : bool :=
  (fst (fst a) =? fst (fst b)) && (snd (fst a) =? snd (fst b)) && (snd a =? snd b).
Definition psum_eqb (a b : psum) : bool :=
  (ps_rp a =? ps_rp b)
  && forallb (fun x => existsb (res_eqb x) (ps_res b)) (ps_res a) && forallb (fun x => existsb (res_eqb x) (ps_res a)) (ps_res b)
  && set_eqZ (ps_traits a) (ps_traits b) && oeqb (ps_parent a) (ps_parent b) && (ps_root a =? ps_root b).
Definition set_eq_by {A} (eqb : A -> A -> bool) (a b : list A) : bool :=
  (lenZ a =? lenZ b) && forallb (fun x => existsb (eqb x) b) a && forallb (fun x => existsb (eqb x) a) b.
(* equality of responses as sets *)
Definition result_same (a b : cand_result) : bool :=
  match a, b with
  | COk x s, COk x' s' => set_eq_by same_creq x x' && set_eq_by psum_eqb s s'
  | _, _ => false
  end.

(* the members of a group's candidate list that have an equal twin under another anchor (hazard 1) *)
Definition drop_ambiguous (l : list creq) : list creq :=
  filter (fun a => negb (existsb (fun b => same_creq a b && negb (cr_anchor a =? cr_anchor b)) l)) l.

(* the tail of _get_by_requests after the groups loop *)
Definition finish_requests (d : db) (v : Z) (q : query) (rw : rw_ctx) (built : list Z)
           (cands : list (rgroup * list creq)) : cand_result :=
  let combos := merge_combos d rw cands in
  transform v q (exclude_nested_providers d rw (merge_candidates d built combos)).

(* AllocationCandidates._get_by_requests (without limit_results).
   Hazard 1: when the candidates of the unsuffixed group (the only one that can come out of the SET-valued
   _alloc_candidates_multiple_providers; _alloc_candidates_single_provider returns a list and keeps every
   anchor copy) are anchor-ambiguous and there are several groups, Python keeps ONE
   arbitrary member of every class of equal requests. Every such choice lies between dropping the whole class
   and keeping all of it (all later steps are monotone), so the answer is determined iff these two coincide;
   otherwise COrderDependent 1. keep_all_anchors = true returns the upper bound unconditionally. *)
Definition get_by_requests_gen (keep_all_anchors : bool) (d : db) (v : Z) (q : query) : cand_result :=
  match process_anchor_traits d q with
  | RBad => CErr 400
  | REmpty => COk [] []
  | RKeyError => CKeyError
  | RVal anchors =>
      let rw := mkRwCtx (has_provider_trees d) (29 <=? v) anchors (qy_policy q) (qy_same_subtree q) in
      match groups_loop d rw (mkRwState (get_sharing_providers d) []) (qy_groups q) [] with
      | RBad => CErr 400
      | REmpty => COk [] []
      | RKeyError => CKeyError
      | RVal (cands, st) =>
          let upper := finish_requests d v q rw (st_built st) cands in
          if keep_all_anchors || negb ((2 <=? lenZ cands) && existsb (fun gl => negb (use_same_provider (fst gl)) && anchor_ambiguous (snd gl)) cands)
          then upper else
          let lower := finish_requests d v q rw (st_built st) (map (fun gl => (fst gl, drop_ambiguous (snd gl))) cands) in
          match upper with
          | COrderDependent w => COrderDependent w
          | _ => if result_same lower upper then upper else COrderDependent 1
          end
      end
  end.
Definition get_by_requests := get_by_requests_gen false.

(* handlers/allocation_candidate.py:list_allocation_candidates on a parsed query (limit: see limit_results) *)
Definition candidates_gen (keep_all_anchors : bool) (v : Z) (q : query) (d : db) : cand_result :=
  if v <? 10 then CErr 404 else
  if negb (query_wf v q) then CErr 400 else
  get_by_requests_gen keep_all_anchors d v q.
Definition candidates := candidates_gen false.
Definition candidates_all_anchors := candidates_gen true.

(* ================================================================ comparison with observed responses *)
Definition subset_by {A} (eqb : A -> A -> bool) (a b : list A) : bool := forallb (fun x => existsb (eqb x) b) a.
(* 0 = agree, 1 = disagree;
   the model says "order dependent" and the service answered 200:
   2 = observed = the all-anchors result; 4 = observed is a strict subset of it (candidates lost) *)
Definition cand_check (model upper observed : cand_result) : Z :=
  match model, observed with
  | CErr a, CErr b => if a =? b then 0 else 1
  | CKeyError, CKeyError => 0
  | COrderDependent 1, COk a' s' =>
      match upper with
      | COk a s => if set_eq_by same_creq a a' && set_eq_by psum_eqb s s' then 2
                   else if subset_by same_creq a' a && subset_by psum_eqb s' s then 4 else 1
      | _ => 1
      end
  | COk a s, COk a' s' => if set_eq_by same_creq a a' && set_eq_by psum_eqb s s' then 0 else 1
  | _, _ => 1
  end.
Definition list_check (model : option (list Z)) (observed : option (list Z)) : Z :=
  match model, observed with
  | None, None => 0
  | Some a, Some b => if (lenZ a =? lenZ b) && set_eqZ a b then 0 else 1
  | _, _ => 1
  end.
