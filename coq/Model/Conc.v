(* Requests as explicit state machines whose atomic steps are the top-level database transactions the
   handlers issue (only transactions touching core tables are steps; get-or-create of project / user /
   consumer type names is folded into the following step).  thread-local state = the Python locals.
   run_sched interleaves any number of such machines under an arbitrary schedule. *)
From PV Require Export Model.Handlers.

(* ---------------------------------------------------------------- allocation replacement with the
   retry loop of replace_all(): a failed attempt leaves its partial work in the open transaction *)
Fixpoint cas_rps_w (d : db) (l : list (Z * Z)) : db * option exn :=
  match l with
  | [] => (d, None)
  | (u, g) :: l' => match incr_rp_gen d u g with Ok d1 => cas_rps_w d1 l' | Err e => (d, Some e) end
  end.
Fixpoint cas_conss_w (d : db) (l : list (Z * Z)) : db * option exn :=
  match l with
  | [] => (d, None)
  | (u, g) :: l' => match incr_cons_gen d u g with Ok d1 => cas_conss_w d1 l' | Err e => (d, Some e) end
  end.

(* _set_allocations returning the working state also when it raises *)
Definition set_allocations_w (d : db) (l : list areq) : db * option exn :=
  let cons_ids := map q_cons l in
  let d1 := set_allocs d (filter (fun a => negb (memZ (a_cons a) cons_ids)) (allocs d)) in
  match check_capacity d1 l with
  | Err e => (d1, Some e)
  | Ok _ =>
      let d2 := set_allocs d1 (allocs d1 ++ map (fun a => mkAlloc (q_cons a) (q_rp a) (q_rc a) (q_amt a))
                                              (filter (fun a => negb (q_amt a =? 0)) l)) in
      match cas_rps_w d2 (first_by [] (map (fun a => (q_rp a, q_rpgen a)) l)) with
      | (d3, Some e) => (d3, Some e)
      | (d3, None) =>
          match cas_conss_w d3 (first_by [] (map (fun a => (q_cons a, q_cgen a)) l)) with
          | (d4, Some e) => (d4, Some e)
          | (d4, None) =>
              let with_allocs := map q_cons (filter (fun a => 0 <? q_amt a) l) in
              let to_check := filter (fun c => negb (memZ c with_allocs)) (dedup cons_ids) in
              (delete_consumers_if_no_allocations d4 to_check, None)
          end
      end
  end.

(* reload every provider object from the COMMITTED state (reader.independent) *)
Fixpoint refresh (committed : db) (l : list areq) : option (list areq) :=
  match l with
  | [] => Some []
  | a :: l' =>
      match find_rp committed (q_rp a), refresh committed l' with
      | Some r, Some rest => Some (mkAreq (q_cons a) (q_cgen a) (q_rp a) (rp_gen r) (q_rc a) (q_amt a) :: rest)
      | _, _ => None
      end
  end.

(* replace_all: `fuel` = [placement]allocation_conflict_retry_count *)
Fixpoint replace_all (fuel : nat) (committed w : db) (l : list areq) : result db :=
  match fuel with
  | O => Err ERpConcurrent
  | S f =>
      match set_allocations_w w l with
      | (w', None) => Ok w'
      | (w', Some ERpConcurrent) =>
          match refresh committed l with
          | Some l' => replace_all f committed w' l'
          | None => Err ENotFound
          end
      | (_, Some e) => Err e
      end
  end.
Definition retry_fuel : nat := Z.to_nat alloc_conflict_retry.

(* reshape() with the retrying allocation replacement; `committed` = state at the start of the transaction *)
Definition reshape_txn_c (committed d : db) (ri : list rinv_in) (objs : list areq) : result db :=
  do x <- reshape_interim d ri;
  let '(d1, gens) := x in
  let objs' := map (fun a => match lookup_gen gens (q_rp a) with
                             | Some g => mkAreq (q_cons a) (q_cgen a) (q_rp a) g (q_rc a) (q_amt a)
                             | None => a end) objs in
  do d2 <- replace_all retry_fuel committed d1 objs';
  let gens' := map (fun x => (fst x, if memZ (fst x) (map q_rp objs') then snd x + 1 else snd x)) gens in
  reshape_final d2 ri gens'.

(* ---------------------------------------------------------------- thread states *)
Inductive akind := KPut | KPost | KReshape.
Record actx := mkActx { x_cf : cfg; x_v : Z; x_kind : akind; x_ri : list rinv_in; x_all : list cons_in }.

(* one read transaction of the allocation-object construction phase *)
Inductive witem := WWipe (k : cobj) | WRp (k : cobj) (a : alloc_in).

Inductive tstate :=
| TDone (r : resp)
(* provider writes: read the provider, then one write transaction *)
| TProvRead (r : req)
| TProvWrite (r : req) (g : Z)
(* allocation writes *)
| TRi (x : actx) (todo : list rinv_in)
| TCons (x : actx) (todo : list cons_in) (acc : list cobj)
| TCreate (x : actx) (c : cons_in) (todo : list cons_in) (acc : list cobj)
| TReload (x : actx) (c : cons_in) (todo : list cons_in) (acc : list cobj)
| TObjs (x : actx) (ks : list cobj) (todo : list witem) (objs : list areq)
| TMain (x : actx) (ks : list cobj) (objs : list areq)
| TCleanup (todo : list Z) (r : resp)
(* DELETE /allocations/{c}: read, delete rows, delete consumer *)
| TDelRead (c : Z)
| TDelRows (c : Z) (rows : list alloc)
| TDelCons (c : Z).

Definition aux_names (cf : cfg) (v : Z) (d : db) (c : cons_in) : db :=
  let proj := match ci_proj c with Some p => p | None => incomplete_proj cf end in
  let user := match ci_proj c with Some _ => oz (ci_user c) | None => incomplete_user cf end in
  let d1 := set_users (set_projects d (get_or_create (projects d) proj)) (get_or_create (users d) user) in
  if 38 <=? v then set_ctypes d1 (get_or_create (ctypes d1) (oz (ci_type c))) else d1.
Definition rq_attrs (cf : cfg) (v : Z) (c : cons_in) : Z * Z * option Z :=
  (match ci_proj c with Some p => p | None => incomplete_proj cf end,
   match ci_proj c with Some _ => oz (ci_user c) | None => incomplete_user cf end,
   if 38 <=? v then Some (oz (ci_type c)) else None).

Definition created_uuids (ks : list cobj) : list Z := map co_uuid (filter co_created ks).

Fixpoint work_items (ks : list cobj) (l : list cons_in) : list witem :=
  match ks, l with
  | k :: ks', c :: l' =>
      match ci_allocs c with
      | [] => WWipe k :: work_items ks' l'
      | al => map (WRp k) al ++ work_items ks' l'
      end
  | _, _ => []
  end.

(* after the consumers: construct the allocation objects *)
Definition after_cons (x : actx) (ks : list cobj) : tstate :=
  match work_items ks (x_all x) with
  | [] => TMain x ks []
  | w => TObjs x ks w []
  end.

Definition main_txn (x : actx) (ks : list cobj) (objs : list areq) (d : db) : result db :=
  let d1 := fold_left update_consumer ks d in
  match x_kind x with
  | KReshape => reshape_txn_c d d1 (x_ri x) objs
  | _ => replace_all retry_fuel d d1 objs
  end.
Definition main_err (x : actx) (e : exn) : resp :=
  match x_kind x with KReshape => reshape_err e | _ => alloc_err e end.

(* provider writes as (read, write) pairs *)
Definition prov_target (r : req) : option Z :=
  match r with
  | InvSet _ u _ _ | InvPost _ u _ | InvPut _ u _ _ | InvDelete u _ | InvDeleteAll _ u
  | TraitsSet _ u _ _ | TraitsDelete _ u | AggsSet _ u _ _ => Some u
  | _ => None
  end.
(* checks made between the provider read and the write transaction; None = proceed *)
Definition prov_precheck (r : req) (me : rp) (d : db) : option resp :=
  match r with
  | InvSet v _ g l => if negb (g =? rp_gen me) then Some (err 409 C_CONCURRENT)
                      else if existsb (bad_capacity v) l then Some (err 400 C_DEFAULT) else None
  | InvPost v _ x => if bad_capacity v x then Some (err 400 C_DEFAULT) else None
  | InvPut v _ g x => if negb (g =? rp_gen me) then Some (err 409 C_CONCURRENT)
                      else if bad_capacity v x then Some (err 400 C_DEFAULT) else None
  | TraitsSet _ _ g ts => if negb (g =? rp_gen me) then Some (err 409 C_CONCURRENT)
                          else if negb (forallb (trait_exists d) ts) then Some (err 400 C_DEFAULT) else None
  | AggsSet v _ g _ => if (19 <=? v) && negb (g =? rp_gen me) then Some (err 409 C_CONCURRENT) else None
  | _ => None
  end.
Definition prov_version_gate (r : req) : option resp :=
  match r with
  | InvDeleteAll v _ => if v <? 5 then Some (err 405 C_DEFAULT) else None
  | TraitsSet v _ _ _ | TraitsDelete v _ => if v <? 6 then Some (err 404 C_DEFAULT) else None
  | AggsSet v _ _ _ => if v <? 1 then Some (err 404 C_DEFAULT) else None
  | _ => None
  end.
(* _set_traits with the generation held by the Python object; a replacement that changes nothing
   still verifies the stored generation *)
Definition set_traits_c (d : db) (u g : Z) (want : list Z) : result db :=
  let existing := traits_of d u in
  match filter (fun t => negb (memZ t existing)) want, filter (fun t => negb (memZ t want)) existing with
  | [], [] => match find_rp d u with
              | Some r => if rp_gen r =? g then Ok d else Err ERpConcurrent
              | None => Err ERpConcurrent
              end
  | _, _ => set_traits_txn d u g want
  end.
Definition traits_differ (d : db) (u : Z) (want : list Z) : bool :=
  let existing := traits_of d u in
  match filter (fun t => negb (memZ t existing)) want, filter (fun t => negb (memZ t want)) existing with
  | [], [] => false
  | _, _ => true
  end.
(* the write transaction, with the generation g the provider object holds *)
Definition prov_write (r : req) (g : Z) (d : db) : db * resp :=
  match r with
  | InvSet _ u _ l =>
      match set_inventory d u g l with
      | Ok d' => (d', okg 200 (g + 1))
      | Err ERcNotFound => (d, err 400 C_DEFAULT)
      | Err EInvRcNotFound => (d, err 409 C_DEFAULT)
      | Err EInventoryInUse => (d, err 409 C_INUSE)
      | Err _ => (d, err 409 C_CONCURRENT)
      end
  | InvPost _ u x =>
      match add_inventory d u g x with
      | Ok d' => (d', okg 201 (g + 1))
      | Err ERcNotFound => (d, err 400 C_DEFAULT)
      | Err _ => (d, err 409 C_CONCURRENT)
      end
  | InvPut _ u _ x =>
      match update_inventory d u g x with
      | Ok d' => (d', okg 200 (g + 1))
      | Err ERcNotFound => (d, err 404 C_DEFAULT)
      | Err EInvRcNotFound => (d, err 400 C_DEFAULT)
      | Err _ => (d, err 409 C_CONCURRENT)
      end
  | InvDelete u rc =>
      match delete_inventory d u g rc with
      | Ok d' => (d', ok 204)
      | Err ERcNotFound => (d, err 404 C_DEFAULT)
      | Err ENotFound => (d, err 404 C_DEFAULT)
      | Err _ => (d, err 409 C_CONCURRENT)
      end
  | InvDeleteAll _ u =>
      match set_inventory d u g [] with
      | Ok d' => (d', ok 204)
      | Err EInventoryInUse => (d, err 409 C_INUSE)
      | Err _ => (d, err 409 C_CONCURRENT)
      end
  | TraitsSet _ u _ ts =>
      match set_traits_c d u g ts with
      | Ok d' => (d', okg 200 (if traits_differ d u ts then g + 1 else g))
      | Err _ => (d, err 409 C_CONCURRENT)
      end
  | TraitsDelete _ u =>
      match set_traits_c d u g [] with
      | Ok d' => (d', ok 204)
      | Err _ => (d, err 409 C_CONCURRENT)
      end
  | AggsSet v u _ l =>
      match set_aggregates_txn d u g (dedup l) (19 <=? v) with
      | Ok d' => (d', if 19 <=? v then okg 200 (g + 1) else ok 200)
      | Err _ => (d, err 409 C_CONCURRENT)
      end
  | _ => (d, err 500 C_DEFAULT)
  end.

(* initial thread state of a request *)
Definition tinit (cf : cfg) (r : req) : tstate :=
  match r with
  | AllocPut v c => TCons (mkActx cf v KPut [] [c]) [c] []
  | AllocPost v l => if v <? 13 then TDone (err 404 C_DEFAULT) else TCons (mkActx cf v KPost [] l) l []
  | Reshape v ri al => if v <? 30 then TDone (err 404 C_DEFAULT) else TRi (mkActx cf v KReshape ri al) ri
  | AllocDelete c => TDelRead c
  | _ => match prov_target r with
         | Some _ => match prov_version_gate r with Some e => TDone e | None => TProvRead r end
         | None => TDone (err 500 C_DEFAULT)
         end
  end.

Definition cleanup_or_done (us : list Z) (r : resp) : tstate :=
  match us with [] => TDone r | _ => TCleanup us r end.

(* one transaction of a thread *)
Definition tstep (t : tstate) (d : db) : db * tstate :=
  match t with
  | TDone r => (d, t)
  | TProvRead r =>
      match prov_target r with
      | None => (d, TDone (err 500 C_DEFAULT))
      | Some u =>
          match find_rp d u with
          | None => (d, TDone (err 404 C_DEFAULT))
          | Some me => match prov_precheck r me d with
                       | Some e => (d, TDone e)
                       | None => (d, TProvWrite r (rp_gen me))
                       end
          end
      end
  | TProvWrite r g => let '(d', rs) := prov_write r g d in (d', TDone rs)
  | TRi x todo =>
      match todo with
      | [] => (d, match x_all x with [] => after_cons x [] | l => TCons x l [] end)
      | r :: rest =>
          match find_rp d (ri_rp r) with
          | None => (d, TDone (err 400 C_RP_NOT_FOUND))
          | Some me =>
              if negb (ri_gen r =? rp_gen me) then (d, TDone (err 409 C_CONCURRENT))
              else (d, match rest with
                       | [] => match x_all x with [] => after_cons x [] | l => TCons x l [] end
                       | _ => TRi x rest end)
          end
      end
  | TCons x todo acc =>
      match todo with
      | [] => (d, after_cons x (rev acc))
      | c :: rest =>
          let v := x_v x in
          let d1 := aux_names (x_cf x) v d c in
          let '(proj, user, ty) := rq_attrs (x_cf x) v c in
          match find_cons d (ci_uuid c) with
          | Some k =>
              if (28 <=? v) && negb (oeqb (Some (c_gen k)) (ci_gen c))
              then (d1, cleanup_or_done (created_uuids acc) (err 409 C_CONCURRENT))
              else
                let acc' := mkCobj (c_uuid k) (c_gen k) (c_proj k) (c_user k) (c_type k) false proj user ty :: acc in
                (d1, match rest with [] => after_cons x (rev acc') | _ => TCons x rest acc' end)
          | None =>
              if (28 <=? v) && (match ci_gen c with Some _ => true | None => false end)
              then (d1, cleanup_or_done (created_uuids acc) (err 409 C_CONCURRENT))
              else (d1, TCreate x c rest acc)
          end
      end
  | TCreate x c rest acc =>
      let '(proj, user, ty) := rq_attrs (x_cf x) (x_v x) c in
      match find_cons d (ci_uuid c) with
      | None =>
          let acc' := mkCobj (ci_uuid c) 0 proj user ty true proj user ty :: acc in
          (set_consumers d (consumers d ++ [mkCons (ci_uuid c) proj user ty 0]),
           match rest with [] => after_cons x (rev acc') | _ => TCons x rest acc' end)
      | Some _ => (d, TReload x c rest acc)        (* ConsumerExists: the insert is rolled back *)
      end
  | TReload x c rest acc =>
      let '(proj, user, ty) := rq_attrs (x_cf x) (x_v x) c in
      match find_cons d (ci_uuid c) with
      | None => (d, cleanup_or_done (created_uuids acc) (err 404 C_DEFAULT))
      | Some k =>
          if 28 <=? x_v x then (d, cleanup_or_done (created_uuids acc) (err 409 C_CONCURRENT))
          else
            let acc' := mkCobj (c_uuid k) (c_gen k) (c_proj k) (c_user k) (c_type k) false proj user ty :: acc in
            (d, match rest with [] => after_cons x (rev acc') | _ => TCons x rest acc' end)
      end
  | TObjs x ks todo objs =>
      match todo with
      | [] => (d, TMain x ks objs)
      | w :: rest =>
          let next objs' := match rest with [] => TMain x ks objs' | _ => TObjs x ks rest objs' end in
          match w with
          | WWipe k =>
              (* the rows are re-read, but the Consumer object whose generation was verified is attached *)
              (d, next (objs ++ map (fun a => mkAreq (q_cons a) (co_gen k) (q_rp a) (q_rpgen a) (q_rc a) (q_amt a))
                                    (wipe_list d (co_uuid k))))
          | WRp k a =>
              match find_rp d (ai_rp a) with
              | None => (d, cleanup_or_done (created_uuids ks) (err 400 C_DEFAULT))
              | Some r =>
                  (d, next (objs ++ map (fun y => mkAreq (co_uuid k) (co_gen k) (ai_rp a) (rp_gen r) (fst y) (snd y))
                                        (ai_res a)))
              end
          end
      end
  | TMain x ks objs =>
      match main_txn x ks objs d with
      | Ok d' =>
          (d', cleanup_or_done (created_uuids (empty_created ks (x_all x))) (ok 204))
      | Err e =>
          (d, cleanup_or_done (created_uuids ks) (main_err x e))
      end
  | TCleanup todo r =>
      match todo with
      | [] => (d, TDone r)
      | u :: rest => (delete_consumers_if_no_allocations d [u],
                      match rest with [] => TDone r | _ => TCleanup rest r end)
      end
  | TDelRead c =>
      match wipe_list d c with
      | [] => (d, TDone (err 404 C_DEFAULT))
      | _ => (d, TDelRows c (filter (fun a => (a_cons a =? c) &&
                                match find_rp d (a_rp a) with Some _ => true | None => false end) (allocs d)))
      end
  | TDelRows c rows =>
      (* DELETE FROM allocations WHERE id IN (the rows read before) *)
      (set_allocs d (filter (fun a => negb (existsb (fun b => (a_cons b =? a_cons a) && (a_rp b =? a_rp a) &&
                                                   (a_rc b =? a_rc a) && (a_used b =? a_used a)) rows)) (allocs d)),
       TDelCons c)
  | TDelCons c => (delete_consumers_if_no_allocations d [c], TDone (ok 204))
  end.

Definition tdone (t : tstate) : option resp := match t with TDone r => Some r | _ => None end.

(* ---------------------------------------------------------------- schedules *)
Fixpoint step_thread (i : nat) (ts : list tstate) (d : db) : list tstate * db :=
  match ts, i with
  | [], _ => ([], d)
  | t :: ts', O => let '(d', t') := tstep t d in (t' :: ts', d')
  | t :: ts', S i' => let '(ts'', d') := step_thread i' ts' d in (t :: ts'', d')
  end.
Fixpoint run_sched (s : list nat) (ts : list tstate) (d : db) : list tstate * db :=
  match s with
  | [] => (ts, d)
  | i :: s' => let '(ts', d') := step_thread i ts d in run_sched s' ts' d'
  end.

(* sequential execution of one request through its state machine, on fuel *)
Fixpoint run_thread (fuel : nat) (t : tstate) (d : db) : db * tstate :=
  match fuel with
  | O => (d, t)
  | S f => match t with
           | TDone _ => (d, t)
           | _ => let '(d', t') := tstep t d in run_thread f t' d'
           end
  end.

(* correspondence helper: run a scenario under a schedule; expected = statuses (-1 = not finished) and
   core dump; returns true on agreement. The schedule lists thread indices (Z) *)
Definition sched_result (cf : cfg) (setup : list req) (reqs : list req) (s : list Z) : list Z * list (list (list Z)) :=
  let d0 := run cf db0 setup in
  let '(ts, d) := run_sched (map Z.to_nat s) (map (tinit cf) reqs) d0 in
  (map (fun t => match tdone t with Some r => status r | None => -1 end) ts, dump d).
(* core tables of a dump: everything but projects / users / consumer types (positions 4, 5, 6) *)
Definition core_dump (l : list (list (list Z))) : list (list (list Z)) :=
  match l with
  | a :: b :: c :: e :: _ :: _ :: _ :: rest => a :: b :: c :: e :: rest
  | _ => l
  end.
Definition sched_agrees (cf : cfg) (x : list req * list req * list Z * list Z * list (list (list Z))) : bool :=
  let '(setup, reqs, s, sts, dmp) := x in
  let '(sts', dmp') := sched_result cf setup reqs s in
  list_eqb Z.eqb sts' sts && dump_eqb (core_dump dmp') (core_dump dmp).
