(* Every write request as a state machine whose atomic steps are its top-level database transactions.

   athread = the threads of Model/ConcTree.v (provider create / update / delete + every thread of Model/Conc.v)
           + the single-entity requests on resource classes and traits
           + PUT /resource_providers/{u}/traits with the write transaction of the current code (ATraitsRead, ATraitsLook, ATraitsWrite)
           + PUT /resource_providers/{u}/aggregates with the write transaction of the current code (AAggsRead, AAggsWrite)
           + the allocation writes (PUT / POST /allocations, POST /reshaper) with the request's class cache (ACached).
   ainit routes every request to the faithful thread; the threads of Model/Conc.v for PUT .../traits, PUT
   .../aggregates and for the allocation writes remain reachable as ATree (TTOther _) for comparison (Proofs/C08c.v refutes them where they
   differ from the code).

   Steps.  A step is one top-level transaction, INCLUDING the reader transactions on resource_classes and traits
   (name look-ups through rc_cache / trait_cache, trait_obj.get_all): a scheduler that replays these schedules on
   the application must treat those two tables like the core tables.  The re-read of a wiped consumer's rows is one
   step (TObjs / WWipe) and the cache (re)load it triggers is the next one (ACacheLoad); likewise for
   DELETE /allocations/{c} (ADelRead, ADelLoad).  For schedulers that do NOT treat resource_classes as a core table
   (a slot = any number of transactions touching no core table followed by one that does) use a_run_sched_coarse /
   a_sched_agrees_coarse, where the cache load is part of the slot of the transaction that follows it.

   placement/handlers/resource_class.py, placement/objects/resource_class.py
     POST   /resource_classes           schema (name must be CUSTOM_...; 400), then ONE writer transaction
                                        (_create_in_db: next id = max(id) + 1 read in the same transaction).
     PUT    /resource_classes/{n} 1.7+  look-up by name (rc_cache.all_from_string = reader transaction): found -> 204;
                                        else the writer transaction of create(): 201, ResourceClassExists -> 204.
     PUT    /resource_classes/{n} 1.2-1.6 (rename)  look-up by name (404), id < 10000 -> 400, then the writer
                                        _save(id): the row is fetched BY ID (query.first(); None ->
                                        ResourceClassNotFound -> 404 since cd58161), unique name violated -> 409.
     DELETE /resource_classes/{n}       look-up by name (404), id < 10000 -> 400, then the writer _destroy(id):
                                        counts the inventories with that class ID (409), deletes the row BY ID
                                        (0 rows -> NotFound -> 404).
   placement/handlers/trait.py, placement/objects/trait.py
     PUT    /traits/{n}                 look-up by name: found -> 204; else writer _create_in_db: 201,
                                        duplicate -> TraitExists -> 204.
     DELETE /traits/{n}                 look-up by name (404), not CUSTOM_ -> 400, then the writer _destroy_in_db:
                                        counts the associations OF THE ID it looked up (409) and, since 42072ba,
                                        deletes the row WITH THAT ID (0 rows -> TraitNotFound -> 404); see anote
                                        below for how a trait re-created under the same name is told from the row
                                        that was looked up.
     PUT    /resource_providers/{u}/traits   provider read (404; generation 409), trait look-up by name (reader
                                        transaction of its own; 400), then the
                                        writer _set_traits, which since 6eda2e3 VERIFIES that the traits it is about
                                        to add still exist (TraitNotFound -> 400) before it writes and bumps the
                                        generation.  Conc.set_traits_c / Txn.set_traits_txn do not have that check;
                                        set_traits_chk below adds it, and ainit routes the request to it.
   placement/handlers/aggregate.py, placement/objects/resource_provider.py (_set_aggregates)
     PUT    /resource_providers/{u}/aggregates   provider read (404; from 1.19 generation 409), then the writer
                                        _set_aggregates, which since 09e8fa2 first verifies that the provider row
                                        (BY ID) still exists (NotFound -> 404) at every microversion, then writes and -
                                        from 1.19 - increments the generation (409).  Conc.prov_write has no such
                                        check (below 1.19 it writes for a provider that is gone; from 1.19 it
                                        answers 409 where the code now answers 404): AAggsRead / AAggsWrite.
   placement/attribute_cache.py, placement/handlers/allocation.py (create_allocation_list)
     Resource class names are resolved through a cache that lives as long as the REQUEST (context.rc_cache); a miss
     reloads the whole table.  A write request fills it before its write transaction in exactly one place: a consumer
     whose "allocations" are {} (wipe) has its rows re-read by get_all_by_consumer_id, which translates their class
     ids (string_from_id).  The main transaction of PUT /allocations, POST /allocations and POST /reshaper then
     resolves every class that is in the cache WITHOUT looking at the table; Conc.main_txn / Txn.set_inventory /
     Txn.check_capacity always look at the table.  ACached below carries the cache: its main transaction runs on
     the class table extended by the cached rows that are gone (and restores the table afterwards).  This
     over-approximates the code: whenever the code's transaction commits, the model's commits with the same
     writes (a class in the cache resolves to the same id; the code can in addition fail where a reload inside
     the transaction drops a stale entry that is needed later).
   No proofs here. *)
From PV Require Export Model.ConcTree.

(* _set_traits of the current code: no-op branch (generation check) first, then the existence check on to_add *)
Definition set_traits_chk (d : db) (u g : Z) (want : list Z) : result db :=
  if forallb (trait_exists d) (filter (fun t => negb (memZ t (traits_of d u))) want)
  then set_traits_c d u g want
  else Err ETraitNotFound.

Inductive athread :=
| ATree (t : tthread)
| ACached (snap : option (list (Z * Z))) (t : tstate)   (* allocation writes + the request's class cache *)
| ACacheLoad (t : tstate)                               (* ... about to (re)load the cache: a reader transaction *)
| ADelRead (c : Z)                                      (* DELETE /allocations/{c}: the rows are read ... *)
| ADelLoad (t : tstate)                                 (* ... and their class ids translated: the same cache load *)
| ATraitsRead (u g : Z) (ts : list Z)
| ATraitsLook (u : Z) (ts : list Z) (g : Z)         (* trait_obj.get_all(name_in): its own reader transaction *)
| ATraitsWrite (u : Z) (ts : list Z) (g : Z) (lost : list Z)   (* g = generation held by the provider object;
                                                                   lost: see anote *)
| AAggsRead (v u g : Z) (l : list Z)
| AAggsWrite (v u : Z) (l : list Z) (g : Z) (gone : bool)       (* gone: see anote *)
| ARcCreate (n : Z)
| ARcPutLook (n : Z)
| ARcPutCreate (n : Z)
| ARcRenLook (old new : Z)
| ARcRenSave (id new : Z)                            (* id = what the look-up returned *)
| ARcDelLook (n : Z)
| ARcDestroy (id : Z)
| ATraitPutLook (t : Z)
| ATraitCreate (t : Z)
| ATraitDelLook (t : Z)
| ATraitDestroy (t : Z) (stale : bool).               (* stale: see anote *)

Definition ADone (r : resp) : athread := ATree (TTDone r).

(* checks made before the first transaction: microversion routing and the JSON schema of names *)
Definition ainit (cf : cfg) (r : req) : athread :=
  match r with
  | TraitsSet v u g ts => if v <? 6 then ADone (err 404 C_DEFAULT) else ATraitsRead u g ts
  | AggsSet v u g l => if v <? 1 then ADone (err 404 C_DEFAULT) else AAggsRead v u g l
  | RcCreate v n =>
      if v <? 2 then ADone (err 404 C_DEFAULT) else
      if is_std_rc_name n then ADone (err 400 C_DEFAULT) else ARcCreate n
  | RcPut v n =>
      if v <? 2 then ADone (err 404 C_DEFAULT) else
      if v <? 7 then ADone (err 415 C_DEFAULT) else
      if is_std_rc_name n then ADone (err 400 C_DEFAULT) else ARcPutLook n
  | RcRename v old new =>
      if v <? 2 then ADone (err 404 C_DEFAULT) else
      if 6 <? v then (if is_std_rc_name old then ADone (err 400 C_DEFAULT) else ARcPutLook old) else
      if is_std_rc_name new then ADone (err 400 C_DEFAULT) else ARcRenLook old new
  | RcDelete v n => if v <? 2 then ADone (err 404 C_DEFAULT) else ARcDelLook n
  | TraitPut v t =>
      if v <? 6 then ADone (err 404 C_DEFAULT) else
      if is_std_trait t then ADone (err 400 C_DEFAULT) else ATraitPutLook t
  | TraitDelete v t => if v <? 6 then ADone (err 404 C_DEFAULT) else ATraitDelLook t
  | AllocPut _ _ | AllocPost _ _ | Reshape _ _ _ => ACached None (tinit cf r)
  | AllocDelete c => ADelRead c
  | _ => ATree (ttinit cf r)
  end.

Definition rc_row_exists (d : db) (id : Z) : bool := existsb (fun x => fst x =? id) (rcs d).

(* get_all_by_consumer_id translates the class ids of the rows it has read (string_from_id): an id that is not in
   the cache makes the cache (re)load the whole table - a reader transaction of its own, after the one that read
   the rows (the standard classes are rows of the table too: an empty cache misses them) *)
Definition cache_misses (snap : option (list (Z * Z))) (rows : list areq) : bool :=
  match rows with
  | [] => false
  | _ => match snap with
         | None => true
         | Some s => negb (forallb (fun q => is_std_rc_name (q_rc q) || existsb (fun x => fst x =? q_rc q) s) rows)
         end
  end.
(* cached classes that the table has lost *)
Definition stale_rows (d : db) (snap : option (list (Z * Z))) : list (Z * Z) :=
  match snap with
  | Some s => filter (fun x => negb (rc_row_exists d (fst x))) s
  | None => []
  end.
(* the main transaction with names resolved through the cache *)
Definition main_txn_cached (snap : option (list (Z * Z))) (x : actx) (ks : list cobj) (objs : list areq) (d : db)
  : result db :=
  match main_txn x ks objs (set_rcs d (rcs d ++ stale_rows d snap)) with
  | Ok d' => Ok (set_rcs d' (rcs d))
  | Err e => Err e
  end.

(* one transaction of a thread *)
Definition astep (cf : cfg) (t : athread) (d : db) : athread * db :=
  match t with
  | ATree t0 => let '(t', d') := ttstep cf t0 d in (ATree t', d')
  | ACached snap t0 =>
      match t0 with
      | TObjs _ _ (WWipe k :: _) _ =>
          let '(d', t') := tstep t0 d in
          if cache_misses snap (wipe_list d (co_uuid k)) then (ACacheLoad t', d') else (ACached snap t', d')
      | TMain x ks objs =>
          match main_txn_cached snap x ks objs d with
          | Ok d' => (ACached snap (cleanup_or_done (created_uuids (empty_created ks (x_all x))) (ok 204)), d')
          | Err e => (ACached snap (cleanup_or_done (created_uuids ks) (main_err x e)), d)
          end
      | _ => let '(d', t') := tstep t0 d in (ACached snap t', d')
      end
  | ACacheLoad t0 => (ACached (Some (rcs d)) t0, d)
  | ADelRead c =>
      (* get_all_by_consumer_id: no rows -> 404; else the (empty) cache is loaded to name their classes, and is not
         used again *)
      let '(d', t') := tstep (TDelRead c) d in
      (match tdone t' with Some _ => ATree (TTOther t') | None => ADelLoad t' end, d')
  | ADelLoad t0 => (ATree (TTOther t0), d)
  | ATraitsRead u g ts =>
      match find_rp d u with
      | None => (ADone (err 404 C_DEFAULT), d)
      | Some me =>
          if negb (g =? rp_gen me) then (ADone (err 409 C_CONCURRENT), d) else (ATraitsLook u ts (rp_gen me), d)
      end
  | ATraitsLook u ts g =>
      if negb (forallb (trait_exists d) ts) then (ADone (err 400 C_DEFAULT), d) else (ATraitsWrite u ts g [], d)
  | ATraitsWrite u ts g lost =>
      (* a trait object whose row was deleted after the look-up carries an id that is in no table: it is in to_add
         whatever the provider has, and the existence check of the write transaction misses it *)
      if existsb (fun t => memZ t lost) ts then (ADone (err 400 C_DEFAULT), d) else
      match set_traits_chk d u g ts with
      | Ok d' => (ADone (okg 200 (if traits_differ d u ts then g + 1 else g)), d')
      | Err ETraitNotFound => (ADone (err 400 C_DEFAULT), d)
      | Err _ => (ADone (err 409 C_CONCURRENT), d)
      end
  | AAggsRead v u g l =>
      match find_rp d u with
      | None => (ADone (err 404 C_DEFAULT), d)
      | Some me =>
          if (19 <=? v) && negb (g =? rp_gen me) then (ADone (err 409 C_CONCURRENT), d)
          else (AAggsWrite v u l (rp_gen me) false, d)
      end
  | AAggsWrite v u l g gone =>
      (* _set_aggregates: the provider row that was loaded must still be there *)
      match (if gone then None else find_rp d u) with
      | None => (ADone (err 404 C_DEFAULT), d)
      | Some _ =>
          match set_aggregates_txn d u g (dedup l) (19 <=? v) with
          | Ok d' => (ADone (if 19 <=? v then okg 200 (g + 1) else ok 200), d')
          | Err _ => (ADone (err 409 C_CONCURRENT), d)
          end
      end
  | ARcCreate n =>
      match rc_create d n with
      | Ok d' => (ADone (ok 201), d')
      | Err _ => (ADone (err 409 C_DEFAULT), d)
      end
  | ARcPutLook n =>
      match rc_id_of_name d n with
      | Some _ => (ADone (ok 204), d)
      | None => (ARcPutCreate n, d)
      end
  | ARcPutCreate n =>
      match rc_create d n with
      | Ok d' => (ADone (ok 201), d')
      | Err _ => (ADone (ok 204), d)            (* "Someone just now created the class, so stick with 204" *)
      end
  | ARcRenLook old new =>
      match rc_id_of_name d old with
      | None => (ADone (err 404 C_DEFAULT), d)
      | Some id => if id <? MIN_CUSTOM_RC_ID then (ADone (err 400 C_DEFAULT), d) else (ARcRenSave id new, d)
      end
  | ARcRenSave id new =>
      (* _save: the row is re-read by id and nothing else is re-checked but the unique name *)
      if negb (rc_row_exists d id) then (ADone (err 404 C_DEFAULT), d) else
      if existsb (fun x => (snd x =? new) && negb (fst x =? id)) (rcs d) || is_std_rc_name new
      then (ADone (err 409 C_DEFAULT), d)
      else (ADone (ok 200), set_rcs d (map (fun x => if fst x =? id then (id, new) else x) (rcs d)))
  | ARcDelLook n =>
      match rc_id_of_name d n with
      | None => (ADone (err 404 C_DEFAULT), d)
      | Some id => if id <? MIN_CUSTOM_RC_ID then (ADone (err 400 C_DEFAULT), d) else (ARcDestroy id, d)
      end
  | ARcDestroy id =>
      (* _destroy: re-checks the inventories referring to the id, then deletes the row with that id *)
      if existsb (fun i => i_rc i =? id) (invs d) then (ADone (err 409 C_DEFAULT), d) else
      if negb (rc_row_exists d id) then (ADone (err 404 C_DEFAULT), d) else
      (ADone (ok 204), set_rcs d (filter (fun x => negb (fst x =? id)) (rcs d)))
  | ATraitPutLook t =>
      if trait_exists d t then (ADone (ok 204), d) else (ATraitCreate t, d)
  | ATraitCreate t =>
      match trait_create d t with
      | Ok d' => (ADone (ok 201), d')
      | Err _ => (ADone (ok 204), d)
      end
  | ATraitDelLook t =>
      if negb (trait_exists d t) then (ADone (err 404 C_DEFAULT), d) else
      if is_std_trait t then (ADone (err 400 C_DEFAULT), d) else (ATraitDestroy t false, d)
  | ATraitDestroy t stale =>
      (* _destroy_in_db: counts the associations of the id that was looked up, then deletes the row with that id;
         when that row is gone there is nothing to count and nothing to delete *)
      if stale then (ADone (err 404 C_DEFAULT), d) else
      if existsb (fun x => snd x =? t) (rp_traits d) then (ADone (err 409 C_DEFAULT), d) else
      if negb (memZ t (traits d)) then (ADone (err 404 C_DEFAULT), d) else
      (ADone (ok 204), set_traits d (filter (fun x => negb (x =? t)) (traits d)))
  end.

Definition a_done (t : athread) : option resp :=
  match t with
  | ATree t0 => tt_done t0
  | ACached _ t0 => tdone t0
  | _ => None
  end.

(* ---------------------------------------------------------------- schedules *)
(* Row identities.  The database model keys traits by name and providers by uuid (Model/Tables.v); the code's rows
   have ids, and a trait (provider) deleted and created again is a different row.  Three threads hold such an id
   across transactions and use it without a generation check; what they need to know - "the row I looked up has
   been deleted since" - is noted in their state whenever ANOTHER thread's transaction deletes rows. *)
Definition gone_traits (d d' : db) : list Z := filter (fun t => negb (memZ t (traits d'))) (traits d).
Definition gone_rps (d d' : db) : list Z :=
  filter (fun u => negb (memZ u (map rp_uuid (rps d')))) (map rp_uuid (rps d)).
Definition anote (gt gp : list Z) (t : athread) : athread :=
  match t with
  | ATraitDestroy t0 stale => ATraitDestroy t0 (stale || memZ t0 gt)
  | ATraitsWrite u ts g lost => ATraitsWrite u ts g (lost ++ filter (fun t0 => memZ t0 gt) ts)
  | AAggsWrite v u l g gone => AAggsWrite v u l g (gone || memZ u gp)
  | _ => t
  end.

Fixpoint a_step_raw (cf : cfg) (i : nat) (ts : list athread) (d : db) : list athread * db :=
  match ts, i with
  | [], _ => ([], d)
  | t :: ts', O => let '(t', d') := astep cf t d in (t' :: ts', d')
  | t :: ts', S i' => let '(ts'', d') := a_step_raw cf i' ts' d in (t :: ts'', d')
  end.
Definition a_step_thread (cf : cfg) (i : nat) (ts : list athread) (d : db) : list athread * db :=
  let '(ts', d') := a_step_raw cf i ts d in (map (anote (gone_traits d d') (gone_rps d d')) ts', d').
Fixpoint a_run_sched (cf : cfg) (s : list nat) (ts : list athread) (d : db) : list athread * db :=
  match s with
  | [] => (ts, d)
  | i :: s' => let '(ts', d') := a_step_thread cf i ts d in a_run_sched cf s' ts' d'
  end.

(* The coarser granularity of schedulers for which a transaction that only reads resource_classes is NOT a scheduling
   point: the cache load runs at the beginning of the thread's next slot, together with the transaction that follows.
   (Every such execution is an execution of a_run_sched: the slot is two consecutive entries of the same thread.) *)
Definition loads (t : athread) : bool :=
  match t with ACacheLoad _ | ADelLoad _ => true | _ => false end.
Definition a_step_thread_coarse (cf : cfg) (i : nat) (ts : list athread) (d : db) : list athread * db :=
  match nth_error ts i with
  | Some t => if loads t then let '(ts1, d1) := a_step_thread cf i ts d in a_step_thread cf i ts1 d1
              else a_step_thread cf i ts d
  | None => (ts, d)
  end.
Fixpoint a_run_sched_coarse (cf : cfg) (s : list nat) (ts : list athread) (d : db) : list athread * db :=
  match s with
  | [] => (ts, d)
  | i :: s' => let '(ts', d') := a_step_thread_coarse cf i ts d in a_run_sched_coarse cf s' ts' d'
  end.

Definition a_exec (cf : cfg) (reqs : list req) (s : list nat) (d : db) : list athread * db :=
  a_run_sched cf s (map (ainit cf) reqs) d.

(* sequential execution of one thread, on fuel *)
Fixpoint a_run_thread (cf : cfg) (fuel : nat) (t : athread) (d : db) : athread * db :=
  match fuel with
  | O => (t, d)
  | S f => match a_done t with
           | Some _ => (t, d)
           | None => let '(t', d') := astep cf t d in a_run_thread cf f t' d'
           end
  end.

(* correspondence helper, as ConcTree.tt_sched_result / tt_sched_agrees: the setup runs sequentially from the
   empty database, then the requests run as threads under the schedule; statuses in request order (-1 = not
   finished) *)
Definition a_sched_result (cf : cfg) (setup : list req) (reqs : list req) (s : list Z)
  : list Z * list (list (list Z)) :=
  let d0 := run cf db0 setup in
  let '(ts, d) := a_exec cf reqs (map Z.to_nat s) d0 in
  (map (fun t => match a_done t with Some r => status r | None => -1 end) ts, dump d).
Definition a_sched_agrees (cf : cfg) (x : list req * list req * list Z * list Z * list (list (list Z))) : bool :=
  let '(setup, reqs, s, sts, dmp) := x in
  let '(sts', dmp') := a_sched_result cf setup reqs s in
  list_eqb Z.eqb sts' sts && dump_eqb (core_dump dmp') (core_dump dmp).

(* the same for the coarser granularity *)
Definition a_sched_result_coarse (cf : cfg) (setup : list req) (reqs : list req) (s : list Z)
  : list Z * list (list (list Z)) :=
  let d0 := run cf db0 setup in
  let '(ts, d) := a_run_sched_coarse cf (map Z.to_nat s) (map (ainit cf) reqs) d0 in
  (map (fun t => match a_done t with Some r => status r | None => -1 end) ts, dump d).
Definition a_sched_agrees_coarse (cf : cfg) (x : list req * list req * list Z * list Z * list (list (list Z))) : bool :=
  let '(setup, reqs, s, sts, dmp) := x in
  let '(sts', dmp') := a_sched_result_coarse cf setup reqs s in
  list_eqb Z.eqb sts' sts && dump_eqb (core_dump dmp') (core_dump dmp).

(* ---------------------------------------------------------------- referential integrity as a computation
   (Proofs/C08c.v: ri_b d = true <-> RI d) *)
Definition rp_exb (d : db) (u : Z) : bool := match find_rp d u with Some _ => true | None => false end.
Definition ri_b (d : db) : bool :=
  forallb (fun a => rp_exb d (a_rp a)
                    && (match find_inv d (a_rp a) (a_rc a) with Some _ => true | None => false end)
                    && (match find_cons d (a_cons a) with Some _ => true | None => false end)) (allocs d) &&
  forallb (fun i => rp_exb d (i_rp i) && rc_exists d (i_rc i)) (invs d) &&
  forallb (fun x => rp_exb d (fst x) && trait_exists d (snd x)) (rp_traits d) &&
  forallb (fun x => rp_exb d (fst x) && memZ (snd x) (aggs d)) (rp_aggs d).
