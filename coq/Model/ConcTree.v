(* Provider create / update / delete as state machines whose atomic steps are the top-level database
   transactions of placement/handlers/resource_provider.py, interleaved with every thread of Model/Conc.v.

   POST   /resource_providers        one writer transaction (ResourceProvider._create_in_db)
   PUT    /resource_providers/{u}    reader transaction (get_by_uuid; 404), schema check of the body (400 below 1.14 when
                                     it names a parent), setattr of name and - only if the body has the key - of
                                     parent_provider_uuid on the LOADED object, then save(): writer transaction
                                     _update_in_db, which re-reads the provider's own row (parent, root, id; NotFound ->
                                     404) and its subtree but uses the object's name and parent_provider_uuid.  The answer
                                     reports the generation that was loaded.
   DELETE /resource_providers/{u}    reader transaction (get_by_uuid; 404), then writer transaction _delete
                                     (NotFound there -> 404).
   No proofs here. *)
From PV Require Export Model.Conc.

Inductive tthread :=
| TTDone (r : resp)
| TTCreate (v u name : Z) (parent : option Z)
| TTUpdLoad (v u name : Z) (parent : option (option Z))
| TTUpdSave (v u name : Z) (new_parent : option Z) (g : Z)      (* g = generation held by the loaded object *)
| TTDelLoad (u : Z)
| TTDelete (u : Z)
| TTOther (t : tstate).          (* any thread of Model/Conc.v *)

Definition ttinit (cf : cfg) (r : req) : tthread :=
  match r with
  | RpCreate v u name parent => TTCreate v u name parent
  | RpUpdate v u name parent => TTUpdLoad v u name parent
  | RpDelete u => TTDelLoad u
  | _ => TTOther (tinit cf r)
  end.

(* the error -> answer mappings of h_rp_update / h_rp_delete (Model/Handlers.v), applied to the outcome of the
   writer transaction; d = state before the transaction (a failed transaction is rolled back) *)
Definition rp_update_answer (d : db) (g : Z) (x : result db) : tthread * db :=
  match x with
  | Ok d' => (TTDone (okg 200 g), d')
  | Err EDuplicate => (TTDone (err 409 C_DUPNAME), d)
  | Err _ => (TTDone (err 400 C_DEFAULT), d)
  end.
Definition rp_delete_answer (d : db) (x : result db) : tthread * db :=
  match x with
  | Ok d' => (TTDone (ok 204), d')
  | Err ERpInUse => (TTDone (err 409 C_RP_INUSE), d)
  | Err EHasChildren => (TTDone (err 409 C_CANNOT_DELETE_PARENT), d)
  | Err _ => (TTDone (err 404 C_DEFAULT), d)
  end.

(* one transaction of a thread *)
Definition ttstep (cf : cfg) (t : tthread) (d : db) : tthread * db :=
  match t with
  | TTDone _ => (t, d)
  | TTCreate v u name parent => let '(d', r) := h_rp_create d v u name parent in (TTDone r, d')
  | TTUpdLoad v u name parent =>
      match find_rp d u with
      | None => (TTDone (err 404 C_DEFAULT), d)
      | Some me =>
          if (v <? 14) && (match parent with Some _ => true | None => false end)
          then (TTDone (err 400 C_DEFAULT), d)
          else (TTUpdSave v u name (match parent with Some p => p | None => rp_parent me end) (rp_gen me), d)
      end
  | TTUpdSave v u name new_parent g =>
      (* _update_in_db: provider_ids_from_uuid(self.uuid) re-reads the row; None -> NotFound *)
      match find_rp d u with
      | None => (TTDone (err 404 C_DEFAULT), d)
      | Some me => rp_update_answer d g (rp_update d me name new_parent (37 <=? v))
      end
  | TTDelLoad u =>
      match find_rp d u with
      | None => (TTDone (err 404 C_DEFAULT), d)
      | Some _ => (TTDelete u, d)
      end
  | TTDelete u => rp_delete_answer d (rp_delete d u)
  | TTOther t0 => let '(d', t') := tstep t0 d in (TTOther t', d')
  end.

Definition tt_done (t : tthread) : option resp :=
  match t with
  | TTDone r => Some r
  | TTOther t0 => tdone t0
  | _ => None
  end.

(* ---------------------------------------------------------------- schedules *)
Fixpoint tt_step_thread (cf : cfg) (i : nat) (ts : list tthread) (d : db) : list tthread * db :=
  match ts, i with
  | [], _ => ([], d)
  | t :: ts', O => let '(t', d') := ttstep cf t d in (t' :: ts', d')
  | t :: ts', S i' => let '(ts'', d') := tt_step_thread cf i' ts' d in (t :: ts'', d')
  end.
Fixpoint tt_run_sched (cf : cfg) (s : list nat) (ts : list tthread) (d : db) : list tthread * db :=
  match s with
  | [] => (ts, d)
  | i :: s' => let '(ts', d') := tt_step_thread cf i ts d in tt_run_sched cf s' ts' d'
  end.

Definition tt_exec (cf : cfg) (reqs : list req) (s : list nat) (d : db) : list tthread * db :=
  tt_run_sched cf s (map (ttinit cf) reqs) d.

(* sequential execution of one thread, on fuel *)
Fixpoint tt_run_thread (cf : cfg) (fuel : nat) (t : tthread) (d : db) : tthread * db :=
  match fuel with
  | O => (t, d)
  | S f => match t with
           | TTDone _ => (t, d)
           | _ => let '(t', d') := ttstep cf t d in tt_run_thread cf f t' d'
           end
  end.

(* correspondence helper, as Conc.sched_result / Conc.sched_agrees: the setup runs sequentially from the empty
   database, then the requests run as threads under the schedule; statuses in request order (-1 = not finished) *)
Definition tt_sched_result (cf : cfg) (setup : list req) (reqs : list req) (s : list Z)
  : list Z * list (list (list Z)) :=
  let d0 := run cf db0 setup in
  let '(ts, d) := tt_exec cf reqs (map Z.to_nat s) d0 in
  (map (fun t => match tt_done t with Some r => status r | None => -1 end) ts, dump d).
Definition tt_sched_agrees (cf : cfg) (x : list req * list req * list Z * list Z * list (list (list Z))) : bool :=
  let '(setup, reqs, s, sts, dmp) := x in
  let '(sts', dmp') := tt_sched_result cf setup reqs s in
  list_eqb Z.eqb sts' sts && dump_eqb (core_dump dmp') (core_dump dmp).
