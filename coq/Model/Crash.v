(* A process crash while handling a request: the database keeps exactly the transactions committed so
   far.  Requests are the state machines of Model/Conc.v; the remaining write routes (providers,
   resource classes, traits) perform their changes in one transaction. *)
From PV Require Export Model.Conc.

Inductive cstate :=
| CConc (t : tstate)            (* allocation writes, inventory / trait / aggregate writes *)
| COne (r : req)                (* a request whose changes are made by a single transaction *)
| CFin (rs : resp).

Definition cinit (cf : cfg) (r : req) : cstate :=
  match r with
  | RpCreate _ _ _ _ | RpUpdate _ _ _ _ | RpDelete _ | RcCreate _ _ | RcPut _ _ | RcRename _ _ _ | RcDelete _ _
  | TraitPut _ _ | TraitDelete _ _ => COne r
  | _ => CConc (tinit cf r)
  end.

Definition cstep (cf : cfg) (c : cstate) (d : db) : db * cstate :=
  match c with
  | CConc t => let '(d', t') := tstep t d in (d', CConc t')
  | COne r => let '(d', rs) := step cf d r in (d', CFin rs)
  | CFin rs => (d, c)
  end.

Definition cfinished (c : cstate) : option resp :=
  match c with
  | CFin rs => Some rs
  | CConc (TDone rs) => Some rs
  | _ => None
  end.

(* the database after a crash that lets exactly n transactions of the request commit *)
Fixpoint crash_after (cf : cfg) (n : nat) (c : cstate) (d : db) : db * cstate :=
  match n with
  | O => (d, c)
  | S k => match cfinished c with
           | Some _ => (d, c)
           | None => let '(d', c') := cstep cf c d in crash_after cf k c' d'
           end
  end.

(* everything but consumers and the auxiliary name tables *)
Definition heavy (d : db) : list rp * list inv * list alloc * list (Z * Z) * list Z * list Z * list (Z * Z) * list (Z * Z) :=
  (rps d, invs d, allocs d, rcs d, traits d, aggs d, rp_aggs d, rp_traits d).
