(* Decode layer: JSON request bodies (Model/Json.v documents) -> the parsed requests of Model/Handlers.v.

   The decoders are the inverse of ops_reference.op_http composed with op_coq: they read from a body exactly the
   members the handlers of placement/handlers/{inventory,allocation,reshaper,aggregate,trait,resource_provider,
   resource_class}.py read, and return `None` only for documents the JSON schema of the route rejects anyway
   (with ONE exception, see num_ratio: nan / -inf as allocation_ratio are schema-valid; they are rejected by
   handlers/inventory.py:make_inventory_object with 400 since df933f2, and dec_* = None models that rejection).

   External identifiers are Z tokens in the model; the tokenizers are Section variables (the harness instantiates
   them with the inverses of its naming functions).  NOTE on tok_rc: inventories and allocations carry the resource
   class ID of the state the request is issued in (ops_reference.rcid), RcCreate / RcRename carry the NAME token
   (ops_reference.rc_tok); dec_rc_name only depends on tok_rc, so after the Section closes the caller passes the
   name tokenizer there.

   After `End Decode` every function takes exactly the tokenizers it uses, in the order of the Variables line:
     dec_inv rc j (none) | dec_inv_set, dec_inv_post, dec_rc_name : tok_rc | dec_inv_put rc j (none)
     dec_traits_set : tok_trait | dec_aggs_set : tok_agg v j | dec_allocs_dict, dec_allocs_list : tok_rp tok_rc
     dec_cons, dec_alloc_put : tok_rp tok_rc tok_proj tok_user tok_type v c j
     dec_alloc_post, dec_reshape : tok_rp tok_cons tok_rc tok_proj tok_user tok_type v j
     dec_rp_create, dec_rp_update : tok_rp tok_name v j        (to_req_* take the same tokenizers as their decoder)

   Executable definitions only. *)
From Coq Require Import ZArith List Bool.
From PV Require Import Model.Parse Model.Json Gen.GenConsts Gen.GenSchemas Model.Handlers.
Import ListNotations.
Open Scope Z_scope.

(* ------------------------------------------------------------------ option helpers *)
Definition obind {A B} (x : option A) (f : A -> option B) : option B :=
  match x with Some a => f a | None => None end.
Fixpoint omap {A B} (f : A -> option B) (l : list A) : option (list B) :=
  match l with
  | [] => Some []
  | x :: l' => match f x with
               | Some y => match omap f l' with Some ys => Some (y :: ys) | None => None end
               | None => None
               end
  end.

(* ------------------------------------------------------------------ field names *)
Definition f_total : str := [116; 111; 116; 97; 108].   (* "total" *)
Definition f_reserved : str := [114; 101; 115; 101; 114; 118; 101; 100].   (* "reserved" *)
Definition f_min_unit : str := [109; 105; 110; 95; 117; 110; 105; 116].   (* "min_unit" *)
Definition f_max_unit : str := [109; 97; 120; 95; 117; 110; 105; 116].   (* "max_unit" *)
Definition f_step_size : str := [115; 116; 101; 112; 95; 115; 105; 122; 101].   (* "step_size" *)
Definition f_allocation_ratio : str :=
  [97; 108; 108; 111; 99; 97; 116; 105; 111; 110; 95; 114; 97; 116; 105; 111].   (* "allocation_ratio" *)
Definition f_rpg : str :=
  [114; 101; 115; 111; 117; 114; 99; 101; 95; 112; 114; 111; 118; 105; 100; 101; 114; 95; 103; 101; 110; 101; 114;
   97; 116; 105; 111; 110].   (* "resource_provider_generation" *)
Definition f_inventories : str := [105; 110; 118; 101; 110; 116; 111; 114; 105; 101; 115].   (* "inventories" *)
Definition f_resource_class : str :=
  [114; 101; 115; 111; 117; 114; 99; 101; 95; 99; 108; 97; 115; 115].   (* "resource_class" *)
Definition f_traits : str := [116; 114; 97; 105; 116; 115].   (* "traits" *)
Definition f_aggregates : str := [97; 103; 103; 114; 101; 103; 97; 116; 101; 115].   (* "aggregates" *)
Definition f_allocations : str := [97; 108; 108; 111; 99; 97; 116; 105; 111; 110; 115].   (* "allocations" *)
Definition f_resource_provider : str :=
  [114; 101; 115; 111; 117; 114; 99; 101; 95; 112; 114; 111; 118; 105; 100; 101; 114].   (* "resource_provider" *)
Definition f_uuid : str := [117; 117; 105; 100].   (* "uuid" *)
Definition f_resources : str := [114; 101; 115; 111; 117; 114; 99; 101; 115].   (* "resources" *)
Definition f_project_id : str := [112; 114; 111; 106; 101; 99; 116; 95; 105; 100].   (* "project_id" *)
Definition f_user_id : str := [117; 115; 101; 114; 95; 105; 100].   (* "user_id" *)
Definition f_consumer_generation : str :=
  [99; 111; 110; 115; 117; 109; 101; 114; 95; 103; 101; 110; 101; 114; 97; 116; 105; 111; 110].
  (* "consumer_generation" *)
Definition f_consumer_type : str :=
  [99; 111; 110; 115; 117; 109; 101; 114; 95; 116; 121; 112; 101].   (* "consumer_type" *)
Definition f_name : str := [110; 97; 109; 101].   (* "name" *)
Definition f_parent_provider_uuid : str :=
  [112; 97; 114; 101; 110; 116; 95; 112; 114; 111; 118; 105; 100; 101; 114; 95; 117; 117; 105; 100].
  (* "parent_provider_uuid" *)

(* ------------------------------------------------------------------ total accessors (used to state hypotheses) *)
Definition okeys (j : json) : list str := match j with JObj o => map fst o | _ => [] end.
Definition ovals (j : json) : list json := match j with JObj o => map snd o | _ => [] end.
Definition aitems (j : json) : list json := match j with JArr l => l | _ => [] end.
Definition member (k : str) (j : json) : json :=
  match j with JObj o => match assoc k o with Some x => x | None => JNull end | _ => JNull end.
Definition jstr (j : json) : str := match j with JStr s => s | _ => [] end.

(* what json.loads guarantees: the keys of every object are pairwise distinct *)
Fixpoint sdistinct (l : list str) : bool :=
  match l with [] => true | x :: l' => negb (existsb (str_eqb x) l') && sdistinct l' end.
Fixpoint json_wfb (j : json) : bool :=
  match j with
  | JArr l => forallb json_wfb l
  | JObj o => sdistinct (map fst o) && forallb (fun kv => json_wfb (snd kv)) o
  | _ => true
  end.
(* db/constants.py:SQL_SP_FLOAT_MAX = 3.40282e+38 as the exact integer value of that double; the "maximum" of
   allocation_ratio in schemas/inventory.py.  Tied to the code by the decode stream (a ratio on either side of -max). *)
Definition sp_float_max : Z := 340282000000000014192072600942972764160.
(* |m * 2^e| <= b, exactly *)
Definition flt_abs_le (m e b : Z) : bool :=
  if 0 <=? e then Z.abs m * 2 ^ e <=? b else Z.abs m <=? b * 2 ^ (- e).
(* handlers/inventory.py:make_inventory_object (df933f2, 1d23be2, 7fca050):
   not (-SQL_SP_FLOAT_MAX <= ratio <= SQL_SP_FLOAT_MAX) -> 400.  False for nan, +-inf, and - Python compares an int
   with a float exactly - for integers of any size beyond the bound. *)
Definition ratio_storable (j : json) : bool :=
  match j with
  | JInt z => Z.abs z <=? sp_float_max
  | JFlt m e => flt_abs_le m e sp_float_max
  | JSpec _ => false
  | _ => true
  end.
(* no nan / inf / -inf anywhere (json.loads accepts NaN, Infinity, -Infinity and 1e999), and every member called
   "allocation_ratio" is within +-SQL_SP_FLOAT_MAX.  Only a member of type "number" can hold a non-finite value in a
   schema-valid body, i.e. only allocation_ratio, whose schema has a maximum and no minimum; such a body is schema-valid
   and rejected by make_inventory_object with 400. *)
Fixpoint json_finiteb (j : json) : bool :=
  match j with
  | JSpec _ => false
  | JArr l => forallb json_finiteb l
  | JObj o => forallb (fun kv => json_finiteb (snd kv) &&
                                 (if str_eqb (fst kv) f_allocation_ratio then ratio_storable (snd kv) else true)) o
  | _ => true
  end.

(* every number finite, and nothing more *)
Fixpoint json_nospecb (j : json) : bool :=
  match j with
  | JSpec _ => false
  | JArr l => forallb json_nospecb l
  | JObj o => forallb (fun kv => json_nospecb (snd kv)) o
  | _ => true
  end.

(* the name the harness evaluates: `json_finite j` of Proofs/C15s.v is  body_finite j = true *)
Definition body_finite (j : json) : bool := json_finiteb j.

(* ------------------------------------------------------------------ numbers *)
(* p = m * 2^k with m odd  ->  (m, e + k) *)
Fixpoint strip2 (p : positive) (e : Z) : Z * Z :=
  match p with
  | xO p' => strip2 p' (e + 1)
  | _ => (Zpos p, e)
  end.
(* ops_reference.ratio_me: the value as (odd mantissa, exponent), 0 as (0, 0).  nan / inf have no such pair, and a
   value beyond +-SQL_SP_FLOAT_MAX is refused: None models the 400 of make_inventory_object (ratio_storable above). *)
Definition num_ratio (j : json) : option (Z * Z) :=
  if negb (ratio_storable j) then None else
  match j with
  | JInt 0 => Some (0, 0)
  | JInt (Zpos p) => Some (strip2 p 0)
  | JInt (Zneg p) => let '(m, e) := strip2 p 0 in Some (- m, e)
  | JFlt m e => Some (if m =? 0 then (0, 0) else (m, e))
  | _ => None
  end.
(* a JSON "integer": an int, or a float with integral value (jsonschema accepts 4.0) *)
Definition num_int (j : json) : option Z :=
  match j with
  | JInt z => Some z
  | JFlt m e => if m =? 0 then Some 0 else if 0 <=? e then Some (m * 2 ^ e) else None
  | _ => None
  end.
Definition str_of (j : json) : option str := match j with JStr s => Some s | _ => None end.

(* duplicates removed, first occurrence kept *)
Fixpoint dedupZ (l : list Z) : list Z :=
  match l with
  | [] => []
  | x :: l' => x :: filter (fun y => negb (y =? x)) (dedupZ l')
  end.

(* d[k] = v on an insertion-ordered dict with JSON values *)
Fixpoint jdict_set (k : str) (v : json) (d : list (str * json)) : list (str * json) :=
  match d with
  | [] => [(k, v)]
  | (k', v') :: d' => if str_eqb k k' then (k', v) :: d' else (k', v') :: jdict_set k v d'
  end.

(* ------------------------------------------------------------------ schema selection (version_handler windows) *)
(* handlers/allocation.py set_allocations_for_consumer: 1.0-1.7, 1.8-1.11, 1.12-1.27, 1.28-1.33, 1.34-1.37, 1.38- *)
Definition schema_of_put_alloc (v : Z) : schema :=
  if v <? 8 then S_allocation__ALLOCATION_SCHEMA
  else if v <? 12 then S_allocation__ALLOCATION_SCHEMA_V1_8
  else if v <? 28 then S_allocation__ALLOCATION_SCHEMA_V1_12
  else if v <? 34 then S_allocation__ALLOCATION_SCHEMA_V1_28
  else if v <? 38 then S_allocation__ALLOCATION_SCHEMA_V1_34
  else S_allocation__ALLOCATION_SCHEMA_V1_38.
(* handlers/allocation.py set_allocations (the route exists from 1.13; below that the request is a 404 and the
   schema is never consulted - the 1.13 schema is returned for those versions) *)
Definition schema_of_post_alloc (v : Z) : schema :=
  if v <? 28 then S_allocation__POST_ALLOCATIONS_V1_13
  else if v <? 34 then S_allocation__POST_ALLOCATIONS_V1_28
  else if v <? 38 then S_allocation__POST_ALLOCATIONS_V1_34
  else S_allocation__POST_ALLOCATIONS_V1_38.
(* handlers/reshaper.py reshape (from 1.30) *)
Definition schema_of_reshape (v : Z) : schema :=
  if v <? 34 then S_reshaper__POST_RESHAPER_SCHEMA
  else if v <? 38 then S_reshaper__POST_RESHAPER_SCHEMA_V1_34
  else S_reshaper__POST_RESHAPER_SCHEMA_V1_38.
(* handlers/aggregate.py set_aggregates (from 1.1) *)
Definition schema_of_aggs (v : Z) : schema :=
  if v <? 19 then S_aggregate__PUT_AGGREGATES_SCHEMA_V1_1 else S_aggregate__PUT_AGGREGATES_SCHEMA_V1_19.
(* handlers/resource_provider.py create_resource_provider / update_resource_provider *)
Definition schema_of_rp_create (v : Z) : schema :=
  if v <? 14 then S_resource_provider__POST_RESOURCE_PROVIDER_SCHEMA else S_resource_provider__POST_RP_SCHEMA_V1_14.
Definition schema_of_rp_update (v : Z) : schema :=
  if v <? 14 then S_resource_provider__PUT_RESOURCE_PROVIDER_SCHEMA else S_resource_provider__PUT_RP_SCHEMA_V1_14.

Section Decode.
Variables tok_rp tok_cons tok_agg tok_rc tok_trait tok_name tok_proj tok_user tok_type : str -> Z.

(* ------------------------------------------------------------------ inventories *)
(* handlers/inventory.py: INVENTORY_DEFAULTS updated with the record *)
Definition opt_int (k : str) (o : list (str * json)) (dflt : Z) : option Z :=
  match assoc k o with Some x => num_int x | None => Some dflt end.
Definition opt_ratio (o : list (str * json)) : option (Z * Z) :=
  match assoc f_allocation_ratio o with Some x => num_ratio x | None => Some (default_ratio_m, default_ratio_e) end.
Definition req_int (k : str) (o : list (str * json)) : option Z := obind (assoc k o) num_int.

Definition dec_inv (rc : Z) (j : json) : option inv_in :=
  match j with
  | JObj o =>
      obind (req_int f_total o) (fun total =>
      obind (opt_int f_reserved o default_reserved) (fun reserved =>
      obind (opt_int f_min_unit o default_min_unit) (fun mn =>
      obind (opt_int f_max_unit o default_max_unit) (fun mx =>
      obind (opt_int f_step_size o default_step_size) (fun st =>
      obind (opt_ratio o) (fun r =>
      Some (mkInvIn rc total reserved mn mx st (fst r) (snd r))))))))
  | _ => None
  end.
(* {"CLASS": record, ...} *)
Definition dec_inv_dict (j : json) : option (list inv_in) :=
  match j with
  | JObj o => omap (fun kv => dec_inv (tok_rc (fst kv)) (snd kv)) o
  | _ => None
  end.
(* PUT /resource_providers/{u}/inventories *)
Definition dec_inv_set (j : json) : option (Z * list inv_in) :=
  match j with
  | JObj o =>
      obind (req_int f_rpg o) (fun g =>
      obind (obind (assoc f_inventories o) dec_inv_dict) (fun l => Some (g, l)))
  | _ => None
  end.
(* POST /resource_providers/{u}/inventories *)
Definition dec_inv_post (j : json) : option inv_in :=
  match j with
  | JObj o => obind (obind (assoc f_resource_class o) str_of) (fun s => dec_inv (tok_rc s) j)
  | _ => None
  end.
(* PUT /resource_providers/{u}/inventories/{rc} *)
Definition dec_inv_put (rc : Z) (j : json) : option (Z * inv_in) :=
  match j with
  | JObj o => obind (req_int f_rpg o) (fun g => obind (dec_inv rc j) (fun x => Some (g, x)))
  | _ => None
  end.

(* ------------------------------------------------------------------ traits / aggregates *)
Definition dec_strs (tok : str -> Z) (j : json) : option (list Z) :=
  match j with
  | JArr l => omap (fun x => match x with JStr s => Some (tok s) | _ => None end) l
  | _ => None
  end.
(* the schema has no uniqueItems, but the handler acts on the de-duplicated names:
   trait_obj.get_all(context, filters={'name_in': traits}) returns each named trait once and set_traits works on that
   set (handlers/trait.py:update_traits_for_resource_provider) *)
Definition dec_traits_set (j : json) : option (Z * list Z) :=
  match j with
  | JObj o =>
      obind (req_int f_rpg o) (fun g =>
      obind (obind (assoc f_traits o) (dec_strs tok_trait)) (fun ts => Some (g, dedupZ ts)))
  | _ => None
  end.
(* a bare array below 1.19; {"resource_provider_generation": g, "aggregates": [...]} from 1.19 *)
Definition dec_aggs_set (v : Z) (j : json) : option (option Z * list Z) :=
  if v <? 19 then obind (dec_strs tok_agg j) (fun l => Some (None, l))
  else match j with
       | JObj o =>
           obind (req_int f_rpg o) (fun g =>
           obind (obind (assoc f_aggregates o) (dec_strs tok_agg)) (fun l => Some (Some g, l)))
       | _ => None
       end.

(* ------------------------------------------------------------------ allocations *)
(* {"CLASS": amount, ...} *)
Definition dec_resources (j : json) : option (list (Z * Z)) :=
  match j with
  | JObj o => omap (fun kv => obind (num_int (snd kv)) (fun a => Some (tok_rc (fst kv), a))) o
  | _ => None
  end.
(* [(provider uuid, resources object)] *)
Definition dec_pairs (ps : list (str * json)) : option (list alloc_in) :=
  omap (fun kv => obind (dec_resources (snd kv)) (fun r => Some (mkAllocIn (tok_rp (fst kv)) r))) ps.
(* the 1.12+ form {uuid: {"resources": {...}}, ...} *)
Definition dict_pairs (j : json) : option (list (str * json)) :=
  match j with
  | JObj o => omap (fun kv => match snd kv with
                              | JObj ao => obind (assoc f_resources ao) (fun r => Some (fst kv, r))
                              | _ => None
                              end) o
  | _ => None
  end.
Definition dec_allocs_dict (j : json) : option (list alloc_in) := obind (dict_pairs j) dec_pairs.
(* the 1.0-1.11 form [{"resource_provider": {"uuid": u}, "resources": {...}}, ...]; the handler turns it into a dict
   (allocations_dict[uuid] = {'resources': ...}): a repeated uuid keeps its first position and its last resources *)
Fixpoint list_pairs (l : list json) (acc : list (str * json)) : option (list (str * json)) :=
  match l with
  | [] => Some acc
  | x :: l' =>
      match x with
      | JObj xo =>
          match assoc f_resource_provider xo, assoc f_resources xo with
          | Some (JObj ro), Some r =>
              match assoc f_uuid ro with
              | Some (JStr u) => list_pairs l' (jdict_set u r acc)
              | _ => None
              end
          | _, _ => None
          end
      | _ => None
      end
  end.
Definition dec_allocs_list (j : json) : option (list alloc_in) :=
  match j with
  | JArr l => obind (list_pairs l []) dec_pairs
  | _ => None
  end.

(* the body of PUT /allocations/{c} at minor version v, and one entry of POST /allocations (v >= 12 there):
   project_id / user_id from 1.8, consumer_generation from 1.28 (null -> None), consumer_type from 1.38 *)
Definition dec_cons (v : Z) (c : Z) (j : json) : option cons_in :=
  match j with
  | JObj o =>
      obind (obind (assoc f_allocations o) (if v <? 12 then dec_allocs_list else dec_allocs_dict)) (fun al =>
      obind (if 8 <=? v then obind (obind (assoc f_project_id o) str_of) (fun s => Some (Some (tok_proj s)))
             else Some None) (fun proj =>
      obind (if 8 <=? v then obind (obind (assoc f_user_id o) str_of) (fun s => Some (Some (tok_user s)))
             else Some None) (fun user =>
      obind (if 28 <=? v then
               match assoc f_consumer_generation o with
               | Some JNull => Some None
               | Some x => obind (num_int x) (fun g => Some (Some g))
               | None => None
               end
             else Some None) (fun gen =>
      obind (if 38 <=? v then obind (obind (assoc f_consumer_type o) str_of) (fun s => Some (Some (tok_type s)))
             else Some None) (fun ty =>
      Some (mkConsIn c al proj user gen ty))))))
  | _ => None
  end.
Definition dec_alloc_put (v c : Z) (j : json) : option cons_in := dec_cons v c j.
(* {consumer uuid: entry, ...}; the entries have the 1.12+ form at every version (ops_reference: alloc_body(max(v, 12))) *)
Definition dec_alloc_post (v : Z) (j : json) : option (list cons_in) :=
  match j with
  | JObj o => omap (fun kv => dec_cons (Z.max v 12) (tok_cons (fst kv)) (snd kv)) o
  | _ => None
  end.

(* ------------------------------------------------------------------ reshaper *)
Definition dec_rinvs (j : json) : option (list rinv_in) :=
  match j with
  | JObj o => omap (fun kv => obind (dec_inv_set (snd kv))
                                (fun gl => Some (mkRinvIn (tok_rp (fst kv)) (fst gl) (snd gl)))) o
  | _ => None
  end.
Definition dec_reshape (v : Z) (j : json) : option (list rinv_in * list cons_in) :=
  match j with
  | JObj o =>
      obind (obind (assoc f_inventories o) dec_rinvs) (fun ri =>
      obind (obind (assoc f_allocations o) (dec_alloc_post v)) (fun al => Some (ri, al)))
  | _ => None
  end.

(* ------------------------------------------------------------------ providers / classes *)
(* parent_provider_uuid: absent or null -> None.  Only bodies that carry "uuid" are modelled.  The parent is decoded
   at every version (below 1.14 the schema rejects the member; the model answers 400 on Some _ there). *)
Definition dec_rp_create (v : Z) (j : json) : option (Z * Z * option Z) :=
  match j with
  | JObj o =>
      obind (obind (assoc f_uuid o) str_of) (fun u =>
      obind (obind (assoc f_name o) str_of) (fun n =>
      obind (match assoc f_parent_provider_uuid o with
             | None | Some JNull => Some None
             | Some (JStr p) => Some (Some (tok_rp p))
             | _ => None
             end) (fun p => Some (tok_rp u, tok_name n, p))))
  | _ => None
  end.
(* parent: absent -> None, null -> Some None, uuid -> Some (Some _) *)
Definition dec_rp_update (v : Z) (j : json) : option (Z * option (option Z)) :=
  match j with
  | JObj o =>
      obind (obind (assoc f_name o) str_of) (fun n =>
      obind (match assoc f_parent_provider_uuid o with
             | None => Some None
             | Some JNull => Some (Some None)
             | Some (JStr p) => Some (Some (Some (tok_rp p)))
             | _ => None
             end) (fun p => Some (tok_name n, p)))
  | _ => None
  end.
(* POST /resource_classes, PUT /resource_classes/{old}: tok_rc is the NAME tokenizer here (see the header) *)
Definition dec_rc_name (j : json) : option Z :=
  match j with
  | JObj o => obind (obind (assoc f_name o) str_of) (fun s => Some (tok_rc s))
  | _ => None
  end.

(* ------------------------------------------------------------------ requests *)
Definition to_req_inv_set (v u : Z) (j : json) : option req :=
  obind (dec_inv_set j) (fun gl => Some (InvSet v u (fst gl) (snd gl))).
Definition to_req_inv_post (v u : Z) (j : json) : option req :=
  obind (dec_inv_post j) (fun x => Some (InvPost v u x)).
Definition to_req_inv_put (v u rc : Z) (j : json) : option req :=
  obind (dec_inv_put rc j) (fun gx => Some (InvPut v u (fst gx) (snd gx))).
Definition to_req_traits_set (v u : Z) (j : json) : option req :=
  obind (dec_traits_set j) (fun gl => Some (TraitsSet v u (fst gl) (snd gl))).
(* below 1.19 the body carries no generation: gdflt is what the caller prints there *)
Definition to_req_aggs_set (v u gdflt : Z) (j : json) : option req :=
  obind (dec_aggs_set v j) (fun gl => Some (AggsSet v u (match fst gl with Some g => g | None => gdflt end) (snd gl))).
Definition to_req_alloc_put (v c : Z) (j : json) : option req :=
  obind (dec_alloc_put v c j) (fun k => Some (AllocPut v k)).
Definition to_req_alloc_post (v : Z) (j : json) : option req :=
  obind (dec_alloc_post v j) (fun l => Some (AllocPost v l)).
Definition to_req_reshape (v : Z) (j : json) : option req :=
  obind (dec_reshape v j) (fun p => Some (Reshape v (fst p) (snd p))).
Definition to_req_rp_create (v : Z) (j : json) : option req :=
  obind (dec_rp_create v j) (fun t => Some (RpCreate v (fst (fst t)) (snd (fst t)) (snd t))).
Definition to_req_rp_update (v u : Z) (j : json) : option req :=
  obind (dec_rp_update v j) (fun t => Some (RpUpdate v u (fst t) (snd t))).
Definition to_req_rc_create (v : Z) (j : json) : option req :=
  obind (dec_rc_name j) (fun n => Some (RcCreate v n)).
Definition to_req_rc_rename (v old : Z) (j : json) : option req :=
  obind (dec_rc_name j) (fun n => Some (RcRename v old n)).

End Decode.

(* ------------------------------------------------------------------ provider uuids / resources objects named by a
   PUT /allocations body at version v (used to state the injectivity hypotheses narrowly) *)
Definition alloc_entries (v : Z) (j : json) : list json :=
  if v <? 12 then aitems (member f_allocations j) else ovals (member f_allocations j).
Definition alloc_rps (v : Z) (j : json) : list str :=
  if v <? 12 then map (fun a => jstr (member f_uuid (member f_resource_provider a))) (aitems (member f_allocations j))
  else okeys (member f_allocations j).
Definition alloc_ress (v : Z) (j : json) : list json := map (member f_resources) (alloc_entries v j).

(* ------------------------------------------------------------------ boolean equality of requests *)
Definition opt_eqb {A} (e : A -> A -> bool) (a b : option A) : bool :=
  match a, b with Some x, Some y => e x y | None, None => true | _, _ => false end.
(* list_eqb : Model/Base.v *)
Definition zz_eqb (a b : Z * Z) : bool := (fst a =? fst b) && (snd a =? snd b).
Definition inv_in_eqb (a b : inv_in) : bool :=
  (ii_rc a =? ii_rc b) && (ii_total a =? ii_total b) && (ii_reserved a =? ii_reserved b) && (ii_min a =? ii_min b) &&
  (ii_max a =? ii_max b) && (ii_step a =? ii_step b) && (ii_rm a =? ii_rm b) && (ii_re a =? ii_re b).
Definition alloc_in_eqb (a b : alloc_in) : bool := (ai_rp a =? ai_rp b) && list_eqb zz_eqb (ai_res a) (ai_res b).
Definition cons_in_eqb (a b : cons_in) : bool :=
  (ci_uuid a =? ci_uuid b) && list_eqb alloc_in_eqb (ci_allocs a) (ci_allocs b) && opt_eqb Z.eqb (ci_proj a) (ci_proj b) &&
  opt_eqb Z.eqb (ci_user a) (ci_user b) && opt_eqb Z.eqb (ci_gen a) (ci_gen b) && opt_eqb Z.eqb (ci_type a) (ci_type b).
Definition rinv_in_eqb (a b : rinv_in) : bool :=
  (ri_rp a =? ri_rp b) && (ri_gen a =? ri_gen b) && list_eqb inv_in_eqb (ri_invs a) (ri_invs b).
Definition req_eqb (a b : req) : bool :=
  match a, b with
  | RpCreate v u n p, RpCreate v' u' n' p' => (v =? v') && (u =? u') && (n =? n') && opt_eqb Z.eqb p p'
  | RpUpdate v u n p, RpUpdate v' u' n' p' => (v =? v') && (u =? u') && (n =? n') && opt_eqb (opt_eqb Z.eqb) p p'
  | RpDelete u, RpDelete u' => u =? u'
  | InvSet v u g l, InvSet v' u' g' l' => (v =? v') && (u =? u') && (g =? g') && list_eqb inv_in_eqb l l'
  | InvPost v u x, InvPost v' u' x' => (v =? v') && (u =? u') && inv_in_eqb x x'
  | InvPut v u g x, InvPut v' u' g' x' => (v =? v') && (u =? u') && (g =? g') && inv_in_eqb x x'
  | InvDelete u rc, InvDelete u' rc' => (u =? u') && (rc =? rc')
  | InvDeleteAll v u, InvDeleteAll v' u' => (v =? v') && (u =? u')
  | TraitsSet v u g l, TraitsSet v' u' g' l' => (v =? v') && (u =? u') && (g =? g') && list_eqb Z.eqb l l'
  | TraitsDelete v u, TraitsDelete v' u' => (v =? v') && (u =? u')
  | AggsSet v u g l, AggsSet v' u' g' l' => (v =? v') && (u =? u') && (g =? g') && list_eqb Z.eqb l l'
  | AllocPut v c, AllocPut v' c' => (v =? v') && cons_in_eqb c c'
  | AllocPost v l, AllocPost v' l' => (v =? v') && list_eqb cons_in_eqb l l'
  | AllocDelete c, AllocDelete c' => c =? c'
  | Reshape v ri al, Reshape v' ri' al' => (v =? v') && list_eqb rinv_in_eqb ri ri' && list_eqb cons_in_eqb al al'
  | RcCreate v n, RcCreate v' n' => (v =? v') && (n =? n')
  | RcPut v n, RcPut v' n' => (v =? v') && (n =? n')
  | RcRename v o n, RcRename v' o' n' => (v =? v') && (o =? o') && (n =? n')
  | RcDelete v n, RcDelete v' n' => (v =? v') && (n =? n')
  | TraitPut v t, TraitPut v' t' => (v =? v') && (t =? t')
  | TraitDelete v t, TraitDelete v' t' => (v =? v') && (t =? t')
  | _, _ => false
  end.
