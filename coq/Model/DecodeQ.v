(* Decode layer for GET /resource_providers: the query string, as the ordered list of its DECODED (key, value) pairs
   (req.GET of webob: a MultiDict over urllib's parse_qsl(keep_blank_values=True); percent-decoding and the UTF-8
   check are webob's and are not modelled - an undecodable query string is a 400 of util.validate_query_params),
   to the parsed filters `rp_filters` of Model/Candidates.v.

   It follows handlers/resource_provider.py:list_resource_providers statement by statement:
     schema by microversion (Spec/Fields.v:schema_of_get_rps);
     util.validate_query_params(req, schema) = jsonschema.validate(dict(req.GET), schema);
     'member_of' in req.GET -> util.normalize_member_of_qs_params(req)      (reads req.GET.getall('member_of'));
     'required'  in req.GET -> util.normalize_traits_qs_params(req)         (reads req.GET.getall('required'));
     uuid, name, in_tree, resources -> req.GET[attr], resources through util.normalize_resources_qs_param;
   and the way objects/resource_provider.py:_get_all_by_filters_from_db reads the dict (`if name:` / `if uuid:` /
   `if in_tree:` - an empty string is "no filter").

   webob facts (established by experiment, webob.Request.blank('/x?a=1&b=x&a=2&a=3').GET, webob 1.8 GetDict):
     - req.GET.getall(k)  : EVERY value of k, in query-string order            ['1', '2', '3']
     - req.GET[k]         : the LAST value of k (KeyError when absent)         '3'
     - k in req.GET       : some pair has that key
     - req.GET.getone(k)  : the value when there is exactly one, KeyError otherwise (not used by this handler)
     - dict(req.GET)      : one value per key, the LAST one; keys in order of first appearance
                            {'a': '3', 'b': 'x'}   (dict() walks keys() - with repeats - and stores req.GET[key])
   So the JSON schema only ever sees the last value of a repeated parameter; the member_of / required normalizers see
   all of them, and uuid / name / in_tree / resources read the same (last) value the schema saw.

   External names are Z tokens in the model; the tokenizers are Section variables (finite lookup tables inverting
   the harness's naming functions; `tok_table` below builds one).  An unknown trait / class / provider name is NOT an
   error of this layer: the tokenizer gives it a token naming nothing and Candidates.list_rps_result answers 400 (or
   the empty list) itself.

   After `End DecodeQ`: listing_filters, decode_listing : tok_rp tok_agg tok_trait tok_rc tok_name v kv.
   Executable definitions only. *)
From Coq Require Import ZArith List Bool.
From PV Require Import Model.Candidates Model.Parse Model.Json Gen.GenSchemas Spec.Fields.
Import ListNotations.
Open Scope Z_scope.

(* ------------------------------------------------------------------ parameter names *)
Definition qk_name : str := [110; 97; 109; 101].                               (* "name" *)
Definition qk_uuid : str := [117; 117; 105; 100].                              (* "uuid" *)
Definition qk_in_tree : str := [105; 110; 95; 116; 114; 101; 101].             (* "in_tree" *)
Definition qk_member_of : str := [109; 101; 109; 98; 101; 114; 95; 111; 102].  (* "member_of" *)
Definition qk_required : str := [114; 101; 113; 117; 105; 114; 101; 100].      (* "required" *)
Definition qk_resources : str := [114; 101; 115; 111; 117; 114; 99; 101; 115]. (* "resources" *)

(* ------------------------------------------------------------------ webob.multidict.MultiDict *)
Definition qs := list (str * str).

(* k in req.GET *)
Definition has_key (k : str) (kv : qs) : bool := existsb (fun p => str_eqb k (fst p)) kv.
(* req.GET.getall(k) *)
Definition getall (k : str) (kv : qs) : list str := map snd (filter (fun p => str_eqb k (fst p)) kv).
(* the last value of k, if any *)
Fixpoint get_last (k : str) (kv : qs) : option str :=
  match kv with
  | [] => None
  | (k', x) :: r => match get_last k r with
                    | Some y => Some y
                    | None => if str_eqb k k' then Some x else None
                    end
  end.
(* req.GET[k] *)
Definition getitem (k : str) (kv : qs) : R str :=
  match get_last k kv with Some x => Ret x | None => Raise KeyError end.
(* req.GET.getone(k) *)
Definition getone (k : str) (kv : qs) : R str :=
  match getall k kv with [x] => Ret x | _ => Raise KeyError end.

(* d[k] = x on an insertion-ordered dict *)
Fixpoint jset (k : str) (x : json) (d : list (str * json)) : list (str * json) :=
  match d with
  | [] => [(k, x)]
  | (k', y) :: d' => if str_eqb k k' then (k', x) :: d' else (k', y) :: jset k x d'
  end.
(* dict(req.GET): `for k in req.GET.keys(): d[k] = req.GET[k]`; storing each pair's own value in query-string order
   leaves the same dict (the last store of a key is that of its last value) *)
Definition qitems (kv : qs) : list (str * json) :=
  fold_left (fun d p => jset (fst p) (JStr (snd p)) d) kv [].
Definition qdict (kv : qs) : json := JObj (qitems kv).

(* a finite lookup table as a tokenizer (names outside the table get `dflt`) *)
Definition tok_table (tbl : list (str * Z)) (dflt : Z) (s : str) : Z :=
  match find (fun p => str_eqb s (fst p)) tbl with Some p => snd p | None => dflt end.

Section DecodeQ.
Variables tok_rp tok_agg tok_trait tok_rc tok_name : str -> Z.

(* `if attr in req.GET: value = req.GET[attr]` *)
Definition opt_item (k : str) (kv : qs) : R (option str) :=
  if has_key k kv then bind (getitem k kv) (fun x => Ret (Some x)) else Ret None.

(* `if uuid:` / `if in_tree:` of _get_all_by_filters_from_db: None and '' are both "no filter" *)
Definition truthy_tok (tok : str -> Z) (o : option str) : option Z :=
  match o with
  | Some (c :: r) => Some (tok (c :: r))
  | _ => None
  end.
Definition name_of (o : option str) : name_filter :=
  match o with
  | None => NameAbsent
  | Some [] => NameEmpty
  | Some n => NameIs (tok_name n)
  end.

(* the `filters` dict of list_resource_providers, as _get_all_by_filters_from_db reads it, in the handler's order of
   evaluation *)
Definition listing_filters (v : Z) (kv : qs) : R rp_filters :=
  bind (if has_key qk_member_of kv then normalize_member_of_qs_params v (getall qk_member_of kv)
        else Ret ([], [])) (fun mo =>
  bind (if has_key qk_required kv then normalize_traits_qs_params v (getall qk_required kv)
        else Ret ([], [])) (fun rq =>
  bind (opt_item qk_uuid kv) (fun uuid =>
  bind (opt_item qk_name kv) (fun name =>
  bind (opt_item qk_in_tree kv) (fun in_tree =>
  bind (if has_key qk_resources kv then bind (getitem qk_resources kv) normalize_resources_qs_param
        else Ret []) (fun res =>
  Ret (mkRpFilters (name_of name) (truthy_tok tok_rp uuid) (truthy_tok tok_rp in_tree)
                   (map (map tok_agg) (fst mo)) (map tok_agg (snd mo))
                   (map (map tok_trait) (fst rq)) (map tok_trait (snd rq))
                   (map (fun p => (tok_rc (fst p), snd p)) res)))))))).

(* P400: the schema or a normalizer rejects; PEscape: any other exception would leave the handler *)
Definition decode_listing (v : Z) (kv : qs) : PRes rp_filters :=
  if validate (schema_of_get_rps v) (qdict kv) then to_pres (listing_filters v kv) else P400.

End DecodeQ.

(* ------------------------------------------------------------------ comparing decoded filters *)
(* The decoder returns Python sets sorted by NAME (Parse.mkset) and the any-of lists of `required` in query-string
   order; another rendering of the same query (the harness's query_coq sorts by TOKEN and keeps the order of its own
   abstract query) can differ in the order inside a set and in the order of the ANDed lists - never in the answer of
   the listing (Proofs/C13q.v:filters_same_result).  `resources` is an insertion-ordered dict: compared as a list. *)
Definition same_set (a b : list Z) : bool := (lenZ a =? lenZ b) && set_eqZ a b.
Definition same_sets (a b : list (list Z)) : bool :=
  (lenZ a =? lenZ b) && forallb (fun x => existsb (same_set x) b) a && forallb (fun y => existsb (same_set y) a) b.
Definition name_eqb (a b : name_filter) : bool :=
  match a, b with
  | NameAbsent, NameAbsent | NameEmpty, NameEmpty => true
  | NameIs x, NameIs y => x =? y
  | _, _ => false
  end.
Definition filters_same (a b : rp_filters) : bool :=
  name_eqb (f_name a) (f_name b) && oeqb (f_uuid a) (f_uuid b) && oeqb (f_in_tree a) (f_in_tree b)
  && same_sets (f_member_of a) (f_member_of b) && same_set (f_forbidden_aggs a) (f_forbidden_aggs b)
  && same_sets (f_required a) (f_required b) && same_set (f_forbidden a) (f_forbidden b)
  && Parse.list_eqb (fun x y => (fst x =? fst y) && (snd x =? snd y)) (f_resources a) (f_resources b).
Definition decoded_same (a b : PRes rp_filters) : bool := pres_eqb filters_same a b.
