(* Decode layer for GET /allocation_candidates: the query string, as the ordered list of its decoded (key, value)
   pairs (Model/DecodeQ.v:qs, webob's req.GET), to the parsed `query` of Model/Candidates.v.

   It is the front half of handlers/allocation_candidate.py:list_allocation_candidates, statement by statement:
     get_schema = _get_schema(want_version)                 Spec/Fields.v:schema_of_get_candidates
     util.validate_query_params(req, get_schema)            validate .. (qdict kv): the schema sees the LAST value of a
                                                            repeated parameter
     rqparams = lib.RequestWideParams.from_request(req)     Parse.rwp_from_request on req.GET.getall of limit,
                                                            group_policy, root_required, same_subtree (limit and
                                                            group_policy use the FIRST value)
     groups = lib.RequestGroup.dict_from_request(req, rqparams)
         _parse_request_items: `for key, val in req.GET.items()`, the key matched against _QS_KEY_PATTERN(_1_33)
             (Parse.qs_key_match: Python's "$" also matches before one final newline, so the key "resources1\n" is the
             group "1"), the group created at the first key of its suffix (dict order = order of first appearance),
             resources / in_tree from THIS pair's value (a later pair of the same key overwrites),
             required / member_of from req.GET.getall('required' + suffix) / getall('member_of' + suffix)
             (the name is rebuilt from the suffix: for the key "required1\n" the values of "required1" are read);
         from 1.36 _check_for_one_resources, _check_resourceless_suffix, _check_actual_suffix, before that
             _check_for_orphans; from 1.22 _check_forbidden;
     `if not rqparams.group_policy:` more than one group with use_same_provider -> 400.
   Every `raise webob.exc.HTTPBadRequest` is P400; anything else that would leave the handler is PEscape (there is
   none: Proofs/C03q.v).  The handler is only reached from 1.10 (microversion.version_handler('1.10'): 404 below,
   Candidates.candidates_gen); the decoder is defined at every v and uses GET_SCHEMA_1_10 below 1.16.

   Two stages: `decode_candidates_s` keeps the names (strings) of the code - suffixes, traits, aggregates, classes,
   uuids -, `tok_query` replaces them by the Z tokens of the model.  The structural checks of lib.py compare STRINGS;
   Candidates.query_wf compares tokens, hence the injectivity hypotheses of Proofs/C03q.v.

   After `End DecodeQC`: tok_group, tok_query, decode_candidates : tok_rp tok_agg tok_trait tok_rc tok_suffix ...
   Executable definitions only. *)
From Coq Require Import ZArith List Bool.
From PV Require Import Model.Candidates Model.Parse Model.Json Gen.GenSchemas Spec.Fields Model.DecodeQ.
Import ListNotations.
Open Scope Z_scope.

Definition qk_limit : str := [108; 105; 109; 105; 116].                                              (* "limit" *)
Definition qk_group_policy : str := [103; 114; 111; 117; 112; 95; 112; 111; 108; 105; 99; 121].      (* "group_policy" *)
Definition qk_root_required : str := [114; 111; 111; 116; 95; 114; 101; 113; 117; 105; 114; 101; 100]. (* "root_required" *)
Definition qk_same_subtree : str := [115; 97; 109; 101; 95; 115; 117; 98; 116; 114; 101; 101].       (* "same_subtree" *)
Definition s_isolate : str := [105; 115; 111; 108; 97; 116; 101].                                    (* "isolate" *)

(* ------------------------------------------------------------------ lib.RequestGroup, with the names of the code *)
Record sgroup := mkSGroup {
  sg_suffix : str;                       (* '' = the unsuffixed group: use_same_provider = bool(suffix) *)
  sg_resources : list (str * Z);         (* insertion-ordered dict *)
  sg_required : list (list str);         (* list of sets *)
  sg_forbidden : list str;
  sg_member_of : list (list str);
  sg_forbidden_aggs : list str;
  sg_in_tree : option str }.
Definition sg_new (suf : str) : sgroup := mkSGroup suf [] [] [] [] [] None.
Definition set_resources (r : list (str * Z)) (g : sgroup) : sgroup :=
  mkSGroup (sg_suffix g) r (sg_required g) (sg_forbidden g) (sg_member_of g) (sg_forbidden_aggs g) (sg_in_tree g).
Definition set_traits (rf : list (list str) * list str) (g : sgroup) : sgroup :=
  mkSGroup (sg_suffix g) (sg_resources g) (fst rf) (snd rf) (sg_member_of g) (sg_forbidden_aggs g) (sg_in_tree g).
Definition set_member_of (mf : list (list str) * list str) (g : sgroup) : sgroup :=
  mkSGroup (sg_suffix g) (sg_resources g) (sg_required g) (sg_forbidden g) (fst mf) (snd mf) (sg_in_tree g).
Definition set_in_tree (t : str) (g : sgroup) : sgroup :=
  mkSGroup (sg_suffix g) (sg_resources g) (sg_required g) (sg_forbidden g) (sg_member_of g) (sg_forbidden_aggs g) (Some t).

(* `if suffix not in ret: ret[suffix] = RequestGroup(..)` then an attribute of ret[suffix] is assigned *)
Fixpoint sg_update (suf : str) (f : sgroup -> sgroup) (d : list sgroup) : list sgroup :=
  match d with
  | [] => [f (sg_new suf)]
  | g :: d' => if str_eqb suf (sg_suffix g) then f g :: d' else g :: sg_update suf f d'
  end.

(* one turn of the loop of _parse_request_items; `all` is the whole req.GET *)
Definition item_step (v : Z) (all : qs) (p : str * str) (d : list sgroup) : R (list sgroup) :=
  match qs_key_match (33 <=? v) (fst p) with
  | None => Ret d
  | Some (i, suf) =>
      if i =? 0 then
        bind (normalize_resources_qs_param (snd p)) (fun r => Ret (sg_update suf (set_resources r) d))
      else if i =? 1 then
        bind (normalize_traits_qs_params v (getall (qk_required ++ suf) all)) (fun rf =>
        Ret (sg_update suf (set_traits rf) d))
      else if i =? 2 then
        bind (normalize_member_of_qs_params v (getall (qk_member_of ++ suf) all)) (fun mf =>
        Ret (sg_update suf (set_member_of mf) d))
      else
        bind (normalize_in_tree_qs_params (snd p)) (fun t => Ret (sg_update suf (set_in_tree t) d))
  end.
Fixpoint items_loop (v : Z) (all : qs) (l : qs) (d : list sgroup) : R (list sgroup) :=
  match l with
  | [] => Ret d
  | p :: r => bind (item_step v all p d) (items_loop v all r)
  end.
Definition parse_request_items (v : Z) (kv : qs) : R (list sgroup) := items_loop v kv kv [].

Definition has_resources (g : sgroup) : bool := nonempty (sg_resources g).
Definition raise400 (b : bool) : R unit := if b then Raise HTTPBadRequest else Ret tt.

(* the structural checks of dict_from_request; sst = rqparams.same_subtrees *)
Definition check_groups (v : Z) (sst : list (list str)) (gs : list sgroup) : R unit :=
  if 36 <=? v then
    let resourceless := map sg_suffix (filter (fun g => negb (has_resources g)) gs) in
    let subtree := concat sst in                                     (* set().union( *same_subtrees): membership only *)
    bind (raise400 (Nat.eqb (length resourceless) (length gs))) (fun _ =>            (* _check_for_one_resources *)
    bind (raise400 (existsb (fun s => negb (set_mem s subtree)) resourceless)) (fun _ => (* _check_resourceless_suffix *)
    raise400 (existsb (fun s => negb (set_mem s (map sg_suffix gs))) subtree)))      (* _check_actual_suffix *)
  else                                                                               (* _check_for_orphans *)
    bind (raise400 (existsb (fun g => nonempty (sg_required g) && negb (has_resources g)) gs)) (fun _ =>
    bind (raise400 (existsb (fun g => negb (has_resources g)
                                      && (nonempty (sg_member_of g) || nonempty (sg_forbidden_aggs g))) gs)) (fun _ =>
    bind (raise400 (negb (forallb has_resources gs))) (fun _ =>
    raise400 (is_nil gs)))).

(* _check_forbidden: an any-of set all of whose traits are forbidden in the same group *)
Definition group_conflict (g : sgroup) : bool :=
  existsb (fun any => forallb (fun t => set_mem t (sg_forbidden g)) any) (sg_required g).
Definition check_forbidden (v : Z) (gs : list sgroup) : R unit :=
  if 22 <=? v then raise400 (existsb group_conflict gs) else Ret tt.

(* the handler: `if not rqparams.group_policy:` (None or '') and more than one group with use_same_provider *)
Definition policy_given (gp : option str) : bool := match gp with Some (_ :: _) => true | _ => false end.
Definition check_policy (gp : option str) (gs : list sgroup) : R unit :=
  if policy_given gp then Ret tt
  else raise400 (1 <? Z.of_nat (length (filter (fun g => nonempty (sg_suffix g)) gs))).

Record squery := mkSQuery { sq_groups : list sgroup; sq_rwp : RWP }.

Definition candidates_query (v : Z) (kv : qs) : R squery :=
  bind (rwp_from_request (getall qk_limit kv) (getall qk_group_policy kv) (getall qk_root_required kv)
                         (getall qk_same_subtree kv)) (fun rwp =>
  let '(_, gp, _, sst) := rwp in
  bind (parse_request_items v kv) (fun gs =>
  bind (check_groups v sst gs) (fun _ =>
  bind (check_forbidden v gs) (fun _ =>
  bind (check_policy gp gs) (fun _ =>
  Ret (mkSQuery gs rwp)))))).

Definition decode_candidates_s (v : Z) (kv : qs) : PRes squery :=
  if validate (schema_of_get_candidates v) (qdict kv) then to_pres (candidates_query v kv) else P400.

(* the names that occur in a decoded query (for the tokenizer hypotheses) *)
Definition sq_suffixes (q : squery) : list str := map sg_suffix (sq_groups q).
Definition sq_traits (q : squery) : list str :=
  flat_map (fun g => concat (sg_required g) ++ sg_forbidden g) (sq_groups q)
  ++ match sq_rwp q with (_, _, Some (rq, fb), _) => rq ++ fb | _ => [] end.

Definition pres_map {A B} (f : A -> B) (r : PRes A) : PRes B :=
  match r with POk a => POk (f a) | P400 => P400 | PEscape => PEscape end.

Section DecodeQC.
Variables tok_rp tok_agg tok_trait tok_rc tok_suffix : str -> Z.

Definition tok_group (g : sgroup) : rgroup :=
  mkGroup (tok_suffix (sg_suffix g))
          (map (fun p => (tok_rc (fst p), snd p)) (sg_resources g))
          (map (map tok_trait) (sg_required g)) (map tok_trait (sg_forbidden g))
          (map (map tok_agg) (sg_member_of g)) (map tok_agg (sg_forbidden_aggs g))
          (option_map tok_rp (sg_in_tree g)).

(* rqparams.group_policy is the FIRST value of the parameter (the schema checked the last one): '' counts as absent
   (`if not rqparams.group_policy`), only 'isolate' isolates (`group_policy == 'isolate'` in _satisfies_group_policy) *)
Definition tok_policy (gp : option str) : gpolicy :=
  match gp with
  | Some (c :: r) => if str_eqb (c :: r) s_isolate then GPIsolate else GPNone
  | _ => GPAbsent
  end.

Definition tok_query (q : squery) : query :=
  let '(limit, gp, root, sst) := sq_rwp q in
  mkQuery (map tok_group (sq_groups q)) (tok_policy gp) limit
          (match root with Some (rq, _) => map tok_trait rq | None => [] end)
          (match root with Some (_, fb) => map tok_trait fb | None => [] end)
          (map (map tok_suffix) sst).

Definition decode_candidates (v : Z) (kv : qs) : PRes query := pres_map tok_query (decode_candidates_s v kv).
End DecodeQC.
