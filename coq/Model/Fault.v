(* _set_allocations (placement/objects/allocation.py) at the granularity of its SQL statements, with the
   Python objects' generations as explicit state, under oslo.db's wrap_db_retry: a deadlock reported at
   statement k aborts the attempt and the whole function body is run again in the SAME open transaction
   (the decorator sits inside the caller's transaction).  rb = the database has rolled the transaction
   back on its own (MySQL deadlock victim) / has not (lock wait timeout). *)
From PV Require Export Model.Conc.

Inductive stmt :=
| SDel (c : Z)                  (* DELETE FROM allocations WHERE consumer_id = c *)
| SCheck                        (* the capacity query + the Python loop *)
| SIns (a : areq)               (* INSERT INTO allocations *)
| SCasRp (u : Z)                (* UPDATE resource_providers SET generation = g + 1 WHERE id = u AND generation = g *)
| SCasCons (c : Z)              (* UPDATE consumers SET generation ... *)
| SStray.                       (* SELECT / DELETE consumers left without allocations *)

(* working database + the generation each provider / consumer OBJECT currently holds *)
Record pst := mkPst { p_db : db; p_rpg : list (Z * Z); p_cg : list (Z * Z) }.

Definition lookup (l : list (Z * Z)) (k : Z) : Z :=
  match find (fun x => fst x =? k) l with Some x => snd x | None => -1 end.
Definition bump (l : list (Z * Z)) (k : Z) : list (Z * Z) :=
  map (fun x => if fst x =? k then (fst x, snd x + 1) else x) l.

Definition stmts_of (l : list areq) : list stmt :=
  map SDel (dedup (map q_cons l)) ++ [SCheck] ++
  map SIns (filter (fun a => negb (q_amt a =? 0)) l) ++
  map SCasRp (map fst (first_by [] (map (fun a => (q_rp a, q_rpgen a)) l))) ++
  map SCasCons (map fst (first_by [] (map (fun a => (q_cons a, q_cgen a)) l))) ++ [SStray].

Definition init_pst (d : db) (l : list areq) : pst :=
  mkPst d (first_by [] (map (fun a => (q_rp a, q_rpgen a)) l)) (first_by [] (map (fun a => (q_cons a, q_cgen a)) l)).

Definition exec_stmt (l : list areq) (s : stmt) (p : pst) : result pst :=
  let d := p_db p in
  match s with
  | SDel c => Ok (mkPst (set_allocs d (filter (fun a => negb (a_cons a =? c)) (allocs d))) (p_rpg p) (p_cg p))
  | SCheck => match check_capacity d l with Ok _ => Ok p | Err e => Err e end
  | SIns a => Ok (mkPst (set_allocs d (allocs d ++ [mkAlloc (q_cons a) (q_rp a) (q_rc a) (q_amt a)])) (p_rpg p) (p_cg p))
  | SCasRp u => match incr_rp_gen d u (lookup (p_rpg p) u) with
                | Ok d' => Ok (mkPst d' (bump (p_rpg p) u) (p_cg p))
                | Err e => Err e end
  | SCasCons c => match incr_cons_gen d c (lookup (p_cg p) c) with
                  | Ok d' => Ok (mkPst d' (p_rpg p) (bump (p_cg p) c))
                  | Err e => Err e end
  | SStray =>
      let with_allocs := map q_cons (filter (fun a => 0 <? q_amt a) l) in
      let to_check := filter (fun c => negb (memZ c with_allocs)) (dedup (map q_cons l)) in
      Ok (mkPst (delete_consumers_if_no_allocations d to_check) (p_rpg p) (p_cg p))
  end.

Fixpoint run_stmts (l : list areq) (ss : list stmt) (p : pst) : result pst :=
  match ss with
  | [] => Ok p
  | s :: ss' => match exec_stmt l s p with Ok p' => run_stmts l ss' p' | Err e => Err e end
  end.

(* the body without faults *)
Definition set_allocations_s (d : db) (l : list areq) : result db :=
  match run_stmts l (stmts_of l) (init_pst d l) with Ok p => Ok (p_db p) | Err e => Err e end.

(* one deadlock reported at statement k of the first attempt; the retry runs the whole body again *)
Definition set_allocations_deadlock (rb : bool) (committed d : db) (l : list areq) (k : nat) : result db :=
  let ss := stmts_of l in
  if (length ss <=? k)%nat then set_allocations_s d l else
  match run_stmts l (firstn k ss) (init_pst d l) with
  | Err e => Err e                                  (* the attempt failed by itself before reaching statement k *)
  | Ok p =>
      let p' := if rb then mkPst committed (p_rpg p) (p_cg p) else p in
      match run_stmts l ss p' with Ok q => Ok (p_db q) | Err e => Err e end
  end.

(* index of the first compare-and-swap statement *)
Definition first_cas (l : list areq) : nat :=
  length (map SDel (dedup (map q_cons l)) ++ [SCheck] ++ map SIns (filter (fun a => negb (q_amt a =? 0)) l)).

(* ---------------------------------------------------------------- retried top-level transactions
   (_trait_sync, _resource_classes_sync, _set_aggregates: wrap_db_retry OUTSIDE the writer scope): every
   attempt is its own transaction, a faulting attempt is rolled back as a whole *)
Fixpoint retry_top (retries : nat) (faults : list bool) (f : db -> result db) (d : db) : option (result db) :=
  match faults with
  | [] => Some (f d)
  | false :: _ => Some (f d)
  | true :: rest => match retries with
                    | O => None                       (* retries exhausted: the error propagates, d unchanged *)
                    | S r => retry_top r rest f d
                    end
  end.

(* ---------------------------------------------------------------- a non-retryable database error in one
   transaction of a request (Model/Conc.v state machines): the transaction is rolled back, the handler's
   `except Exception` clean-up removes the consumers the request created, the client gets 500 *)
Definition tstep_fail (t : tstate) (d : db) : db * tstate :=
  match t with
  | TDone r => (d, t)
  | TProvRead _ | TProvWrite _ _ | TRi _ _ | TDelRead _ | TDelRows _ _ => (d, TDone (err 500 C_DEFAULT))
  | TCons _ _ acc | TCreate _ _ _ acc | TReload _ _ _ acc => (d, cleanup_or_done (created_uuids acc) (err 500 C_DEFAULT))
  | TObjs _ ks _ _ | TMain _ ks _ => (d, cleanup_or_done (created_uuids ks) (err 500 C_DEFAULT))
  (* a failing clean-up transaction is logged and skipped: the consumer stays; the response is unchanged *)
  | TCleanup todo r => (d, match todo with _ :: (_ :: _ as rest) => TCleanup rest r | _ => TDone r end)
  | TDelCons _ => (d, TDone (err 500 C_DEFAULT))
  end.

(* run a request to completion with a fault in its j-th transaction (no fault if it finishes earlier) *)
Fixpoint run_faulty (fuel : nat) (j : nat) (t : tstate) (d : db) : db * tstate :=
  match fuel with
  | O => (d, t)
  | S f =>
      match t with
      | TDone _ => (d, t)
      | _ => match j with
             | O => let '(d', t') := tstep_fail t d in run_thread f t' d'
             | S j' => let '(d', t') := tstep t d in run_faulty f j' t' d'
             end
      end
  end.
