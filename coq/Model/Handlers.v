(* HTTP handlers of placement/handlers/*.py (write routes) on already-parsed, schema-valid requests.
   step : cfg -> db -> req -> db * resp is the sequential semantics of one request. *)
From PV Require Export Model.Txn.

Record cfg := mkCfg { incomplete_proj : Z; incomplete_user : Z }.

Record resp := mkResp { status : Z; code : Z; rgen : Z }.
(* error codes (placement/errors.py); 0 = no error body *)
Definition C_NONE := 0.
Definition C_CONCURRENT := 1.
Definition C_INUSE := 2.
Definition C_DUPNAME := 3.
Definition C_RP_INUSE := 4.
Definition C_CANNOT_DELETE_PARENT := 5.
Definition C_RP_NOT_FOUND := 6.
Definition C_DEFAULT := 7.
Definition ok (s : Z) : resp := mkResp s C_NONE (-1).
Definition okg (s g : Z) : resp := mkResp s C_NONE g.
Definition err (s c : Z) : resp := mkResp s c (-1).

Record alloc_in := mkAllocIn { ai_rp : Z; ai_res : list (Z * Z) }.       (* provider, [(class, amount)] *)
Record cons_in := mkConsIn { ci_uuid : Z; ci_allocs : list alloc_in; ci_proj : option Z; ci_user : option Z;
                             ci_gen : option Z; ci_type : option Z }.
Record rinv_in := mkRinvIn { ri_rp : Z; ri_gen : Z; ri_invs : list inv_in }.

Inductive req :=
| RpCreate (v u name : Z) (parent : option Z)
| RpUpdate (v u name : Z) (parent : option (option Z))
| RpDelete (u : Z)
| InvSet (v u g : Z) (l : list inv_in)
| InvPost (v u : Z) (x : inv_in)
| InvPut (v u g : Z) (x : inv_in)
| InvDelete (u rc : Z)
| InvDeleteAll (v u : Z)
| TraitsSet (v u g : Z) (ts : list Z)
| TraitsDelete (v u : Z)
| AggsSet (v u g : Z) (l : list Z)
| AllocPut (v : Z) (c : cons_in)
| AllocPost (v : Z) (l : list cons_in)
| AllocDelete (c : Z)
| Reshape (v : Z) (ri : list rinv_in) (al : list cons_in)
| RcCreate (v n : Z)
| RcPut (v n : Z)
| RcRename (v old new : Z)
| RcDelete (v n : Z)
| TraitPut (v t : Z)
| TraitDelete (v t : Z).

(* _validate_inventory_capacity on Inventory.capacity = int((total - reserved) * ratio) *)
Definition bad_capacity (v : Z) (x : inv_in) : bool :=
  let c := fprod_trunc (ii_total x - ii_reserved x) (ii_rm x) (ii_re x) in
  if 26 <=? v then c <? 0 else c <=? 0.

(* ---------------------------------------------------------------- providers *)
Definition h_rp_create (d : db) (v u name : Z) (parent : option Z) : db * resp :=
  if (v <? 14) && (match parent with Some _ => true | None => false end) then (d, err 400 C_DEFAULT) else
  match rp_create d u name parent with
  | Ok d' => (d', if 20 <=? v then okg 200 0 else ok 201)
  | Err EDuplicate => (d, err 409 C_DUPNAME)
  | Err _ => (d, err 400 C_DEFAULT)
  end.

Definition h_rp_update (d : db) (v u name : Z) (parent : option (option Z)) : db * resp :=
  match find_rp d u with
  | None => (d, err 404 C_DEFAULT)
  | Some me =>
      if (v <? 14) && (match parent with Some _ => true | None => false end) then (d, err 400 C_DEFAULT) else
      let new_parent := match parent with Some p => p | None => rp_parent me end in
      match rp_update d me name new_parent (37 <=? v) with
      | Ok d' => (d', okg 200 (rp_gen me))
      | Err EDuplicate => (d, err 409 C_DUPNAME)
      | Err _ => (d, err 400 C_DEFAULT)
      end
  end.

Definition h_rp_delete (d : db) (u : Z) : db * resp :=
  match find_rp d u with
  | None => (d, err 404 C_DEFAULT)
  | Some _ =>
      match rp_delete d u with
      | Ok d' => (d', ok 204)
      | Err ERpInUse => (d, err 409 C_RP_INUSE)
      | Err EHasChildren => (d, err 409 C_CANNOT_DELETE_PARENT)
      | Err _ => (d, err 404 C_DEFAULT)
      end
  end.

(* ---------------------------------------------------------------- inventories *)
Definition h_inv_set (d : db) (v u g : Z) (l : list inv_in) : db * resp :=
  match find_rp d u with
  | None => (d, err 404 C_DEFAULT)
  | Some me =>
      if negb (g =? rp_gen me) then (d, err 409 C_CONCURRENT) else
      if existsb (bad_capacity v) l then (d, err 400 C_DEFAULT) else
      match set_inventory d u (rp_gen me) l with
      | Ok d' => (d', okg 200 (rp_gen me + 1))
      | Err ERcNotFound => (d, err 400 C_DEFAULT)
      | Err EInvRcNotFound => (d, err 409 C_DEFAULT)
      | Err EInventoryInUse => (d, err 409 C_INUSE)
      | Err _ => (d, err 409 C_CONCURRENT)
      end
  end.

Definition h_inv_post (d : db) (v u : Z) (x : inv_in) : db * resp :=
  match find_rp d u with
  | None => (d, err 404 C_DEFAULT)
  | Some me =>
      if bad_capacity v x then (d, err 400 C_DEFAULT) else
      match add_inventory d u (rp_gen me) x with
      | Ok d' => (d', okg 201 (rp_gen me + 1))
      | Err ERcNotFound => (d, err 400 C_DEFAULT)
      | Err _ => (d, err 409 C_CONCURRENT)
      end
  end.

Definition h_inv_put (d : db) (v u g : Z) (x : inv_in) : db * resp :=
  match find_rp d u with
  | None => (d, err 404 C_DEFAULT)
  | Some me =>
      if negb (g =? rp_gen me) then (d, err 409 C_CONCURRENT) else
      if bad_capacity v x then (d, err 400 C_DEFAULT) else
      match update_inventory d u (rp_gen me) x with
      | Ok d' => (d', okg 200 (rp_gen me + 1))
      | Err ERcNotFound => (d, err 404 C_DEFAULT)
      | Err EInvRcNotFound => (d, err 400 C_DEFAULT)
      | Err _ => (d, err 409 C_CONCURRENT)
      end
  end.

Definition h_inv_delete (d : db) (u rc : Z) : db * resp :=
  match find_rp d u with
  | None => (d, err 404 C_DEFAULT)
  | Some me =>
      match delete_inventory d u (rp_gen me) rc with
      | Ok d' => (d', ok 204)
      | Err ERcNotFound => (d, err 404 C_DEFAULT)
      | Err ENotFound => (d, err 404 C_DEFAULT)
      | Err _ => (d, err 409 C_CONCURRENT)
      end
  end.

Definition h_inv_delete_all (d : db) (v u : Z) : db * resp :=
  if v <? 5 then (d, err 405 C_DEFAULT) else
  match find_rp d u with
  | None => (d, err 404 C_DEFAULT)
  | Some me =>
      match set_inventory d u (rp_gen me) [] with
      | Ok d' => (d', ok 204)
      | Err EInventoryInUse => (d, err 409 C_INUSE)
      | Err _ => (d, err 409 C_CONCURRENT)
      end
  end.

(* ---------------------------------------------------------------- traits / aggregates *)
Definition h_traits_set (d : db) (v u g : Z) (ts : list Z) : db * resp :=
  if v <? 6 then (d, err 404 C_DEFAULT) else
  match find_rp d u with
  | None => (d, err 404 C_DEFAULT)
  | Some me =>
      if negb (g =? rp_gen me) then (d, err 409 C_CONCURRENT) else
      if negb (forallb (trait_exists d) ts) then (d, err 400 C_DEFAULT) else
      match set_traits_txn d u (rp_gen me) ts with
      | Ok d' => (d', okg 200 (match find_rp d' u with Some r => rp_gen r | None => -1 end))
      | Err _ => (d, err 409 C_CONCURRENT)
      end
  end.

Definition h_traits_delete (d : db) (v u : Z) : db * resp :=
  if v <? 6 then (d, err 404 C_DEFAULT) else
  match find_rp d u with
  | None => (d, err 404 C_DEFAULT)
  | Some me =>
      match set_traits_txn d u (rp_gen me) [] with
      | Ok d' => (d', ok 204)
      | Err _ => (d, err 409 C_CONCURRENT)
      end
  end.

Definition h_aggs_set (d : db) (v u g : Z) (l : list Z) : db * resp :=
  if v <? 1 then (d, err 404 C_DEFAULT) else
  match find_rp d u with
  | None => (d, err 404 C_DEFAULT)
  | Some me =>
      if (19 <=? v) && negb (g =? rp_gen me) then (d, err 409 C_CONCURRENT) else
      match set_aggregates_txn d u (rp_gen me) (dedup l) (19 <=? v) with
      | Ok d' => (d', if 19 <=? v then okg 200 (rp_gen me + 1) else ok 200)
      | Err _ => (d, err 409 C_CONCURRENT)
      end
  end.

(* ---------------------------------------------------------------- consumers *)
Definition get_or_create (l : list Z) (x : Z) : list Z := if memZ x l then l else l ++ [x].

(* the Consumer object held by the handler + the attributes requested (RequestAttr) *)
Record cobj := mkCobj { co_uuid : Z; co_gen : Z; co_proj : Z; co_user : Z; co_type : option Z;
                        co_created : bool; rq_proj : Z; rq_user : Z; rq_type : option Z }.

(* util.ensure_consumer: get-or-create project, user, (type), consumer; None = 409 generation conflict *)
Definition ensure_consumer (cf : cfg) (v : Z) (d : db) (c : cons_in) : db * option cobj :=
  let proj := match ci_proj c with Some p => p | None => incomplete_proj cf end in
  let user := match ci_proj c with Some _ => oz (ci_user c) | None => incomplete_user cf end in
  let d1 := set_users (set_projects d (get_or_create (projects d) proj)) (get_or_create (users d) user) in
  let with_type (d : db) : db * option Z :=
      if 38 <=? v then (set_ctypes d (get_or_create (ctypes d) (oz (ci_type c))), Some (oz (ci_type c)))
      else (d, None) in
  match find_cons d1 (ci_uuid c) with
  | Some k =>
      if (28 <=? v) && negb (oeqb (Some (c_gen k)) (ci_gen c)) then (d1, None) else
      let '(d2, ty) := with_type d1 in
      (d2, Some (mkCobj (c_uuid k) (c_gen k) (c_proj k) (c_user k) (c_type k) false proj user ty))
  | None =>
      if (28 <=? v) && (match ci_gen c with Some _ => true | None => false end) then (d1, None) else
      let '(d2, ty) := with_type d1 in
      (set_consumers d2 (consumers d2 ++ [mkCons (ci_uuid c) proj user ty 0]),
       Some (mkCobj (ci_uuid c) 0 proj user ty true proj user ty))
  end.

(* util.update_consumers, one consumer *)
Definition update_consumer (d : db) (k : cobj) : db :=
  let differs := negb (rq_proj k =? co_proj k) || negb (rq_user k =? co_user k) in
  let ty_differs := match rq_type k with Some t => negb (oeqb (Some t) (co_type k)) | None => false end in
  if differs || ty_differs then
    consumer_update d (co_uuid k) (co_gen k)
      (if differs then rq_proj k else co_proj k) (if differs then rq_user k else co_user k)
      (if ty_differs then rq_type k else co_type k)
  else d.

(* delete_consumers: Consumer.delete() of every consumer the request created *)
Definition delete_created (d : db) (ks : list cobj) : db :=
  let us := map co_uuid (filter co_created ks) in
  set_consumers d (filter (fun c => negb (memZ (c_uuid c) us)) (consumers d)).

(* get_all_by_consumer_id with used := 0: rows joined with provider and consumer *)
Definition wipe_list (d : db) (c : Z) : list areq :=
  match find_cons d c with
  | None => []
  | Some k =>
      flat_map (fun a => if a_cons a =? c then
                           match find_rp d (a_rp a) with
                           | Some r => [mkAreq c (c_gen k) (a_rp a) (rp_gen r) (a_rc a) 0]
                           | None => []
                           end
                         else []) (allocs d)
  end.

(* _resource_providers_by_uuid + _new_allocations; None = 400 unknown provider *)
Fixpoint new_allocs (d : db) (k : cobj) (l : list alloc_in) : option (list areq) :=
  match l with
  | [] => Some []
  | a :: l' =>
      match find_rp d (ai_rp a), new_allocs d k l' with
      | Some r, Some rest =>
          Some (map (fun x => mkAreq (co_uuid k) (co_gen k) (ai_rp a) (rp_gen r) (fst x) (snd x)) (ai_res a) ++ rest)
      | _, _ => None
      end
  end.

Definition alloc_objs (d : db) (k : cobj) (l : list alloc_in) : option (list areq) :=
  match l with
  | [] => Some (wipe_list d (co_uuid k))
  | _ => new_allocs d k l
  end.

Definition alloc_err (e : exn) : resp :=
  match e with
  | ENotFound | ERcNotFound | EInvRcNotFound | ETraitNotFound => err 400 C_DEFAULT
  | EInvalidInventory | EInventoryInUse | EBadCapacity => err 409 C_DEFAULT
  | EConcurrent | ERpConcurrent => err 409 C_CONCURRENT
  | _ => err 500 C_DEFAULT
  end.

(* consumers the request created although it allocates nothing to them *)
Fixpoint empty_created (ks : list cobj) (l : list cons_in) : list cobj :=
  match ks, l with
  | k :: ks', c :: l' =>
      match ci_allocs c with
      | [] => k :: empty_created ks' l'
      | _ => empty_created ks' l'
      end
  | _, _ => []
  end.

(* _set_allocations_for_consumer *)
Definition h_alloc_put (cf : cfg) (d : db) (v : Z) (c : cons_in) : db * resp :=
  match ensure_consumer cf v d c with
  | (d1, None) => (d1, err 409 C_CONCURRENT)
  | (d1, Some k) =>
      match alloc_objs d1 k (ci_allocs c) with
      | None => (delete_created d1 [k], err 400 C_DEFAULT)
      | Some objs =>
          match set_allocations (update_consumer d1 k) objs with
          | Ok d2 => (delete_created d2 (empty_created [k] [c]), ok 204)
          | Err e => (delete_created d1 [k], alloc_err e)
          end
      end
  end.

(* inspect_consumers: None = conflict (created consumers already removed) *)
Fixpoint inspect_consumers (cf : cfg) (v : Z) (d : db) (acc : list cobj) (l : list cons_in)
  : db * option (list cobj) :=
  match l with
  | [] => (d, Some (rev acc))
  | c :: l' =>
      match ensure_consumer cf v d c with
      | (d1, None) => (delete_created d1 acc, None)
      | (d1, Some k) => inspect_consumers cf v d1 (k :: acc) l'
      end
  end.

(* create_allocation_list *)
Fixpoint alloc_list (d : db) (ks : list cobj) (l : list cons_in) : option (list areq) :=
  match ks, l with
  | k :: ks', c :: l' =>
      match alloc_objs d k (ci_allocs c), alloc_list d ks' l' with
      | Some a, Some b => Some (a ++ b)
      | _, _ => None
      end
  | _, _ => Some []
  end.

(* set_allocations (POST /allocations) *)
Definition h_alloc_post (cf : cfg) (d : db) (v : Z) (l : list cons_in) : db * resp :=
  if v <? 13 then (d, err 404 C_DEFAULT) else
  match inspect_consumers cf v d [] l with
  | (d1, None) => (d1, err 409 C_CONCURRENT)
  | (d1, Some ks) =>
      match alloc_list d1 ks l with
      | None => (delete_created d1 ks, err 400 C_DEFAULT)
      | Some objs =>
          match set_allocations (fold_left update_consumer ks d1) objs with
          | Ok d2 => (delete_created d2 (empty_created ks l), ok 204)
          | Err e => (delete_created d1 ks, alloc_err e)
          end
      end
  end.

(* delete_allocations *)
Definition h_alloc_delete (d : db) (c : Z) : db * resp :=
  match wipe_list d c with
  | [] => (d, err 404 C_DEFAULT)
  | _ =>
      let d1 := set_allocs d (filter (fun a => negb ((a_cons a =? c) &&
                   match find_rp d (a_rp a) with Some _ => true | None => false end)) (allocs d)) in
      (delete_consumers_if_no_allocations d1 [c], ok 204)
  end.

(* ---------------------------------------------------------------- reshaper *)
Definition inv_to_in (i : inv) : inv_in :=
  mkInvIn (i_rc i) (i_total i) (i_reserved i) (i_min i) (i_max i) (i_step i) (i_rm i) (i_re i).

(* interim inventory: the existing records overridden by the new ones, then the remaining new ones *)
Definition interim_inv (d : db) (u : Z) (new : list inv_in) : list inv_in :=
  let existing := map inv_to_in (filter (fun i => i_rp i =? u) (invs d)) in
  let find_new rc := find (fun x => ii_rc x =? rc) new in
  map (fun e => match find_new (ii_rc e) with Some n => n | None => e end) existing
  ++ filter (fun n => negb (memZ (ii_rc n) (map ii_rc existing))) new.

(* first loop of reshape(): returns the provider objects' generations afterwards *)
Fixpoint reshape_interim (d : db) (l : list rinv_in) : result (db * list (Z * Z)) :=
  match l with
  | [] => Ok (d, [])
  | r :: l' =>
      match ri_invs r with
      | [] => do x <- reshape_interim d l'; Ok (fst x, (ri_rp r, ri_gen r) :: snd x)
      | _ => do d1 <- set_inventory d (ri_rp r) (ri_gen r) (interim_inv d (ri_rp r) (ri_invs r));
             do x <- reshape_interim d1 l'; Ok (fst x, (ri_rp r, ri_gen r + 1) :: snd x)
      end
  end.

Fixpoint reshape_final (d : db) (l : list rinv_in) (gens : list (Z * Z)) : result db :=
  match l, gens with
  | r :: l', (_, g) :: gens' => do d1 <- set_inventory d (ri_rp r) g (ri_invs r); reshape_final d1 l' gens'
  | _, _ => Ok d
  end.

Definition lookup_gen (gens : list (Z * Z)) (u : Z) : option Z :=
  match find (fun x => fst x =? u) gens with Some x => Some (snd x) | None => None end.

(* objects/reshaper.py: reshape *)
Definition reshape_txn (d : db) (ri : list rinv_in) (objs : list areq) : result db :=
  do x <- reshape_interim d ri;
  let '(d1, gens) := x in
  let objs' := map (fun a => match lookup_gen gens (q_rp a) with
                             | Some g => mkAreq (q_cons a) (q_cgen a) (q_rp a) g (q_rc a) (q_amt a)
                             | None => a end) objs in
  do d2 <- set_allocations d1 objs';
  (* increment_generation also bumps the shared Python provider object *)
  let gens' := map (fun x => (fst x, if memZ (fst x) (map q_rp objs') then snd x + 1 else snd x)) gens in
  reshape_final d2 ri gens'.

(* early checks of the handler: provider exists (400) and generation matches (409) *)
Fixpoint reshape_precheck (d : db) (ri : list rinv_in) : option resp :=
  match ri with
  | [] => None
  | r :: l =>
      match find_rp d (ri_rp r) with
      | None => Some (err 400 C_RP_NOT_FOUND)
      | Some me => if negb (ri_gen r =? rp_gen me) then Some (err 409 C_CONCURRENT) else reshape_precheck d l
      end
  end.

Definition reshape_err (e : exn) : resp :=
  match e with
  | EConcurrent | ERpConcurrent => err 409 C_CONCURRENT
  | ENotFound | ERcNotFound | EInvRcNotFound | ETraitNotFound => err 400 C_DEFAULT
  | EInventoryInUse => err 409 C_INUSE
  | EInvalidInventory | EBadCapacity => err 409 C_DEFAULT
  | _ => err 500 C_DEFAULT
  end.

Definition h_reshape (cf : cfg) (d : db) (v : Z) (ri : list rinv_in) (al : list cons_in) : db * resp :=
  if v <? 30 then (d, err 404 C_DEFAULT) else
  match reshape_precheck d ri with
  | Some r => (d, r)
  | None =>
      match inspect_consumers cf v d [] al with
      | (d1, None) => (d1, err 409 C_CONCURRENT)
      | (d1, Some ks) =>
          match alloc_list d1 ks al with
          | None => (delete_created d1 ks, err 400 C_DEFAULT)
          | Some objs =>
              match reshape_txn (fold_left update_consumer ks d1) ri objs with
              | Ok d2 => (delete_created d2 (empty_created ks al), ok 204)
              | Err e => (delete_created d1 ks, reshape_err e)
              end
          end
      end
  end.

(* ---------------------------------------------------------------- resource classes / traits *)
Definition h_rc_create (d : db) (v n : Z) : db * resp :=
  if v <? 2 then (d, err 404 C_DEFAULT) else
  if is_std_rc_name n then (d, err 400 C_DEFAULT) else      (* schema: name must match ^CUSTOM_ *)
  match rc_create d n with
  | Ok d' => (d', ok 201)
  | Err _ => (d, err 409 C_DEFAULT)
  end.
Definition h_rc_put (d : db) (v n : Z) : db * resp :=
  if v <? 2 then (d, err 404 C_DEFAULT) else
  if v <? 7 then (d, err 415 C_DEFAULT) else     (* 1.2 - 1.6: PUT is the rename operation, which wants a JSON body *)
  if is_std_rc_name n then (d, err 400 C_DEFAULT) else
  match rc_id_of_name d n with
  | Some _ => (d, ok 204)
  | None => match rc_create d n with Ok d' => (d', ok 201) | Err _ => (d, ok 204) end
  end.
Definition h_rc_rename (d : db) (v old new : Z) : db * resp :=
  if v <? 2 then (d, err 404 C_DEFAULT) else
  if 6 <? v then h_rc_put d v old else       (* from 1.7 the body is ignored *)
  if is_std_rc_name new then (d, err 400 C_DEFAULT) else
  match rc_rename d old new with
  | Ok d' => (d', ok 200)
  | Err ERcNotFound => (d, err 404 C_DEFAULT)
  | Err ERcStandard => (d, err 400 C_DEFAULT)
  | Err _ => (d, err 409 C_DEFAULT)
  end.
Definition h_rc_delete (d : db) (v n : Z) : db * resp :=
  if v <? 2 then (d, err 404 C_DEFAULT) else
  match rc_destroy d n with
  | Ok d' => (d', ok 204)
  | Err ERcNotFound => (d, err 404 C_DEFAULT)
  | Err ERcStandard => (d, err 400 C_DEFAULT)
  | Err _ => (d, err 409 C_DEFAULT)
  end.
Definition h_trait_put (d : db) (v t : Z) : db * resp :=
  if v <? 6 then (d, err 404 C_DEFAULT) else
  if is_std_trait t then (d, err 400 C_DEFAULT) else         (* schema: ^CUSTOM_ *)
  match trait_create d t with
  | Ok d' => (d', ok 201)
  | Err _ => (d, ok 204)
  end.
Definition h_trait_delete (d : db) (v t : Z) : db * resp :=
  if v <? 6 then (d, err 404 C_DEFAULT) else
  match trait_destroy d t with
  | Ok d' => (d', ok 204)
  | Err ETraitNotFound => (d, err 404 C_DEFAULT)
  | Err ETraitStandard => (d, err 400 C_DEFAULT)
  | Err _ => (d, err 409 C_DEFAULT)
  end.

(* ---------------------------------------------------------------- dispatcher *)
Definition step (cf : cfg) (d : db) (r : req) : db * resp :=
  match r with
  | RpCreate v u name parent => h_rp_create d v u name parent
  | RpUpdate v u name parent => h_rp_update d v u name parent
  | RpDelete u => h_rp_delete d u
  | InvSet v u g l => h_inv_set d v u g l
  | InvPost v u x => h_inv_post d v u x
  | InvPut v u g x => h_inv_put d v u g x
  | InvDelete u rc => h_inv_delete d u rc
  | InvDeleteAll v u => h_inv_delete_all d v u
  | TraitsSet v u g ts => h_traits_set d v u g ts
  | TraitsDelete v u => h_traits_delete d v u
  | AggsSet v u g l => h_aggs_set d v u g l
  | AllocPut v c => h_alloc_put cf d v c
  | AllocPost v l => h_alloc_post cf d v l
  | AllocDelete c => h_alloc_delete d c
  | Reshape v ri al => h_reshape cf d v ri al
  | RcCreate v n => h_rc_create d v n
  | RcPut v n => h_rc_put d v n
  | RcRename v old new => h_rc_rename d v old new
  | RcDelete v n => h_rc_delete d v n
  | TraitPut v t => h_trait_put d v t
  | TraitDelete v t => h_trait_delete d v t
  end.

Fixpoint run (cf : cfg) (d : db) (l : list req) : db :=
  match l with
  | [] => d
  | r :: l' => run cf (fst (step cf d r)) l'
  end.

(* correspondence helper: run a history against expected (status, code, generation, dump);
   returns the index of the first step whose observation differs, or -1 *)
Fixpoint check_history (cf : cfg) (d : db) (i : Z)
         (l : list (req * (Z * Z * Z) * list (list (list Z)))) : Z :=
  match l with
  | [] => -1
  | (r, (s, c, g), dmp) :: l' =>
      let '(d', rs) := step cf d r in
      if (status rs =? s) && ((c <? 0) || (code rs =? c)) && ((g <? -1) || (rgen rs =? g))
         && dump_eqb (dump d') dmp
      then check_history cf d' (i + 1) l' else i
  end.
