(* JSON documents and the JSON-schema subset used by placement/schemas/*.py.

   `validate s j` models  jsonschema.validate(j, s, format_checker=jsonschema.FormatChecker())  of
   placement/util.py:extract_json / validate_query_params for the seventeen keywords that occur in the schema
   files (translate/schemas.py fails on any other keyword): type, properties, patternProperties,
   additionalProperties (false only), required, minProperties, minLength, maxLength, minimum, maximum, pattern,
   format (uuid only = oslo is_uuid_like, registered by placement/util.py), items (one schema), minItems, enum
   (strings), uniqueItems, anyOf.  The schemas of the code are regenerated into Gen/GenSchemas.v on every build;
   the validator itself is tied to python-jsonschema by the schema stream of the C15 check (generated and mutated
   documents against every schema, real validator vs this function).

   A document is what json.loads returns: objects are dicts (unique keys; json.loads keeps the LAST of repeated
   keys - parsing text is not modelled), numbers are Python ints or floats.  A finite float is m * 2^e; JSpec is
   nan (0), inf (1), -inf (-1), which json.loads accepts as NaN / Infinity / -Infinity or produces from 1e999.
   Draft 2020-12 semantics of python-jsonschema 4.x: a float with integral value IS an "integer"; booleans are
   neither integers nor numbers; every keyword other than type / enum / anyOf applies only to instances of the type it
   speaks about and ignores the others. *)
From Coq Require Import ZArith List Bool.
From PV Require Import Model.Regex Model.Parse.
Import ListNotations.
Open Scope Z_scope.

Inductive json :=
| JNull
| JBool (b : bool)
| JInt (z : Z)
| JFlt (m e : Z)
| JSpec (k : Z)
| JStr (s : str)
| JArr (l : list json)
| JObj (l : list (str * json)).

(* ------------------------------------------------------------------ patterns (re.search) *)
(* an item matches a run of characters of one class; a pattern is a list of alternatives (translate/schemas.py
   expands optional groups and top-level "|" into alternatives) *)
Inductive jitem := IOne (r : list (Z * Z)) | IPlus (r : list (Z * Z)) | IStar (r : list (Z * Z))
                 | IRep (n : nat) (r : list (Z * Z)) | IRange (lo hi : nat) (r : list (Z * Z)).
Record jalt := mkAlt { ja_start : bool; ja_items : list jitem; ja_end : endk }.
Definition jpat := list jalt.

(* zero or more characters of the class, then k *)
Fixpoint mstar (r : list (Z * Z)) (k : list Z -> bool) (s : list Z) : bool :=
  k s || match s with [] => false | c :: s' => in_class r c && mstar r k s' end.
(* between 0 and n characters of the class, then k *)
Fixpoint mupto (n : nat) (r : list (Z * Z)) (k : list Z -> bool) (s : list Z) : bool :=
  k s || match n with
         | O => false
         | S n' => match s with [] => false | c :: s' => in_class r c && mupto n' r k s' end
         end.
Fixpoint jitems (l : list jitem) (e : endk) (s : list Z) : bool :=
  match l with
  | [] => end_ok e s
  | IOne r :: l' => match s with [] => false | c :: s' => in_class r c && jitems l' e s' end
  | IPlus r :: l' => mplus r (jitems l' e) s
  | IStar r :: l' => mstar r (jitems l' e) s
  | IRep n r :: l' => mrep n r (jitems l' e) s
  | IRange lo hi r :: l' => mrep lo r (mupto (hi - lo) r (jitems l' e)) s
  end.
Fixpoint jsearch (l : list jitem) (e : endk) (s : list Z) : bool :=
  jitems l e s || match s with [] => false | _ :: s' => jsearch l e s' end.
Definition jalt_match (a : jalt) (s : list Z) : bool :=
  if ja_start a then jitems (ja_items a) (ja_end a) s else jsearch (ja_items a) (ja_end a) s.
Definition jpmatch (p : jpat) (s : list Z) : bool := existsb (fun a => jalt_match a s) p.

(* ------------------------------------------------------------------ schemas *)
Inductive jtype := TObject | TString | TInteger | TNumber | TArray | TNull | TBoolean.

Inductive schema :=
| Sch (kws : list kw)
with kw :=
| KType (ts : list jtype)
| KProps (ps : list (str * schema))
| KPatProps (ps : list (jpat * schema))
| KNoAdditional
| KRequired (l : list str)
| KMinProps (n : Z)
| KMinLen (n : Z)
| KMaxLen (n : Z)
| KMin (z : Z)
| KMax (z : Z)
| KPattern (p : jpat)
| KFormatUuid
| KItems (s : schema)
| KMinItems (n : Z)
| KEnum (l : list str)
| KUnique
| KAnyOf (l : list schema).

(* ------------------------------------------------------------------ instances *)
Definition is_integral (j : json) : bool :=
  match j with
  | JInt _ => true
  | JFlt m e => (m =? 0) || (0 <=? e)          (* m odd: m * 2^e is an integer iff e >= 0 *)
  | _ => false
  end.
Definition has_type (t : jtype) (j : json) : bool :=
  match t, j with
  | TObject, JObj _ | TString, JStr _ | TArray, JArr _ | TNull, JNull | TBoolean, JBool _ => true
  | TInteger, _ => is_integral j
  | TNumber, JInt _ | TNumber, JFlt _ _ | TNumber, JSpec _ => true
  | _, _ => false
  end.

(* x < bound for a number x and an integer bound: Some true / Some false, None when x is not a number.
   nan compares false with everything, as in Python *)
Definition num_lt (j : json) (b : Z) : option bool :=
  match j with
  | JInt z => Some (z <? b)
  | JFlt m e => Some (if 0 <=? e then m * 2 ^ e <? b else m <? b * 2 ^ (- e))
  | JSpec k => Some (k <? 0)
  | _ => None
  end.
Definition num_gt (j : json) (b : Z) : option bool :=
  match j with
  | JInt z => Some (b <? z)
  | JFlt m e => Some (if 0 <=? e then b <? m * 2 ^ e else b * 2 ^ (- e) <? m)
  | JSpec k => Some (0 <? k)
  | _ => None
  end.

Fixpoint assoc (k : str) (l : list (str * json)) : option json :=
  match l with
  | [] => None
  | (k', v) :: l' => if str_eqb k k' then Some v else assoc k l'
  end.
Fixpoint sassoc (k : str) (l : list (str * schema)) : option schema :=
  match l with
  | [] => None
  | (k', v) :: l' => if str_eqb k k' then Some v else sassoc k l'
  end.

(* Python equality of JSON values as uniqueItems sees it (1 == 1.0, True is not 1 for jsonschema's `unbool`) *)
Fixpoint json_eqb (fuel : nat) (a b : json) : bool :=
  match fuel with
  | O => false
  | S f =>
    match a, b with
    | JNull, JNull => true
    | JBool x, JBool y => Bool.eqb x y
    | JStr x, JStr y => str_eqb x y
    | JSpec x, JSpec y => negb (x =? 0) && (x =? y)
    | JArr x, JArr y =>
        (fix go (x y : list json) : bool :=
           match x, y with
           | [], [] => true
           | p :: x', q :: y' => json_eqb f p q && go x' y'
           | _, _ => false
           end) x y
    | JObj x, JObj y =>
        (Nat.eqb (length x) (length y)) &&
        forallb (fun kv => match assoc (fst kv) y with Some w => json_eqb f (snd kv) w | None => false end) x
    | (JInt _ | JFlt _ _), (JInt _ | JFlt _ _) =>
        match a, b with
        | JInt x, JInt y => x =? y
        | JInt x, JFlt m e | JFlt m e, JInt x => if 0 <=? e then x =? m * 2 ^ e else false
        | JFlt m e, JFlt m' e' => (m =? m') && ((m =? 0) || (e =? e'))
        | _, _ => false
        end
    | _, _ => false
    end
  end.
Fixpoint uniqueb (fuel : nat) (l : list json) : bool :=
  match l with
  | [] => true
  | x :: l' => negb (existsb (json_eqb fuel x) l') && uniqueb fuel l'
  end.

(* ------------------------------------------------------------------ validation *)
(* the schemas that apply to the property k of an object: the one under "properties" and every matching
   "patternProperties" entry; when none applies the property is "additional" *)
Definition prop_schemas (kws : list kw) (k : str) : list schema :=
  flat_map (fun w => match w with
                     | KProps ps => match sassoc k ps with Some s => [s] | None => [] end
                     | KPatProps ps => map snd (filter (fun ps => jpmatch (fst ps) k) ps)
                     | _ => []
                     end) kws.
Definition no_additional (kws : list kw) : bool :=
  existsb (fun w => match w with KNoAdditional => true | _ => false end) kws.

Fixpoint jdepth (j : json) : nat :=
  match j with
  | JArr l => S (fold_right (fun x n => Nat.max (jdepth x) n) O l)
  | JObj l => S (fold_right (fun kv n => Nat.max (jdepth (snd kv)) n) O l)
  | _ => 1%nat
  end.

(* fuel bounds the nesting of schema and document together; `validate` supplies enough *)
Fixpoint valid (fuel : nat) (s : schema) (j : json) {struct fuel} : bool :=
  match fuel with
  | O => false
  | S f =>
    let '(Sch kws) := s in
    forallb (fun w =>
      match w with
      | KType ts => existsb (fun t => has_type t j) ts
      | KProps _ | KPatProps _ | KNoAdditional => true        (* handled together below *)
      | KRequired l => match j with JObj o => forallb (fun k => match assoc k o with Some _ => true | None => false end) l
                                  | _ => true end
      | KMinProps n => match j with JObj o => n <=? Z.of_nat (length o) | _ => true end
      | KMinLen n => match j with JStr x => n <=? Z.of_nat (length x) | _ => true end
      | KMaxLen n => match j with JStr x => Z.of_nat (length x) <=? n | _ => true end
      | KMin z => match j with JBool _ => true | _ => match num_lt j z with Some true => false | _ => true end end
      | KMax z => match j with JBool _ => true | _ => match num_gt j z with Some true => false | _ => true end end
      | KPattern p => match j with JStr x => jpmatch p x | _ => true end
      | KFormatUuid => match j with JStr x => is_uuid_like x | _ => true end
      | KItems s' => match j with JArr l => forallb (valid f s') l | _ => true end
      | KMinItems n => match j with JArr l => n <=? Z.of_nat (length l) | _ => true end
      | KEnum l => match j with JStr x => existsb (str_eqb x) l | _ => false end
      | KUnique => match j with JArr l => uniqueb (jdepth j) l | _ => true end
      | KAnyOf l => existsb (fun s' => valid f s' j) l
      end) kws &&
    match j with
    | JObj o =>
        forallb (fun kv =>
          match prop_schemas kws (fst kv) with
          | [] => negb (no_additional kws)
          | ss => forallb (fun s' => valid f s' (snd kv)) ss
          end) o
    | _ => true
    end
  end.

Fixpoint sdepth (fuel : nat) (s : schema) : nat :=
  match fuel with
  | O => O
  | S f =>
    let '(Sch kws) := s in
    S (fold_right (fun w n =>
         Nat.max n
           match w with
           | KProps ps => fold_right (fun p m => Nat.max (sdepth f (snd p)) m) O ps
           | KPatProps ps => fold_right (fun p m => Nat.max (sdepth f (snd p)) m) O ps
           | KItems s' => sdepth f s'
           | KAnyOf l => fold_right (fun s' m => Nat.max (sdepth f s') m) O l
           | _ => O
           end) O kws)
  end.

(* every recursive call descends in the schema, so the schema's depth is enough fuel; schemas of the code are at
   most 8 levels deep (checked for the generated ones by Gen/GenSchemas.v: schemas_fuel_ok) *)
Definition FUEL : nat := 16.
Definition validate (s : schema) (j : json) : bool := valid FUEL s j.
