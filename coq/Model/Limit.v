(* RequestWideSearchContext.limit_results (placement/objects/research_context.py): the limit and the
   randomisation are applied to the complete list of allocation requests, and the provider summaries are
   pruned to the trees of the requests kept.  `sample` and `shuffle` stand for random.sample / random.shuffle. *)
From Coq Require Import ZArith List Bool Lia Permutation.
Import ListNotations.
Open Scope Z_scope.

Definition mem (x : Z) (l : list Z) : bool := existsb (Z.eqb x) l.

Section Limit.
  Variable A : Type.                       (* an allocation request *)
  Variable provs_of : A -> list (Z * Z).   (* the (provider, root provider) pairs it names *)
  Variable sample : list A -> nat -> list A.
  Variable shuffle : list A -> list A.

  (* a provider summary is (provider, root provider, payload) *)
  Definition summary := (Z * Z * Z)%type.
  Definition s_prov (s : summary) : Z := fst (fst s).
  Definition s_root (s : summary) : Z := snd (fst s).

  Definition roots_of (l : list A) : list Z := flat_map (fun a => map snd (provs_of a)) l.

  Definition limit_results (randomize : bool) (limit : option nat) (ars : list A) (sums : list summary)
    : list A * list summary :=
    match limit with
    | Some n =>
        if (0 <? n)%nat && (n <? length ars)%nat then
          let kept := if randomize then sample ars n else firstn n ars in
          (kept, filter (fun s => mem (s_root s) (roots_of kept)) sums)
        else (if randomize then shuffle ars else ars, sums)
    | None => (if randomize then shuffle ars else ars, sums)
    end.

  (* the summaries cover a list of requests: every provider named has its summary *)
  Definition covers (sums : list summary) (l : list A) : Prop :=
    forall a p r, In a l -> In (p, r) (provs_of a) -> exists s, In s sums /\ s_prov s = p /\ s_root s = r.
End Limit.
