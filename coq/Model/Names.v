(* Start-up synchronisation of the standard resource classes and traits
   (placement/objects/resource_class.py:_resource_classes_sync, placement/objects/trait.py:_trait_sync).
   A resource class row is (id, name); the standard class number i has name token i; custom names have
   tokens >= 1000.  A trait table is a list of name tokens; standard traits are the members of `std`. *)
From Coq Require Import ZArith List Bool Lia.
From PV Require Import Gen.GenConsts.
Import ListNotations.
Open Scope Z_scope.

Definition is_std_rc (n : Z) (name : Z) : bool := (0 <=? name) && (name <? n).
Fixpoint zseq (n : nat) (from : Z) : list Z := match n with O => [] | S k => from :: zseq k (from + 1) end.

(* INSERT of the batch fails as a whole on any primary-key or unique-name collision (DBDuplicateEntry is
   swallowed: "some other process sync'd") *)
Definition rc_collides (tbl : list (Z * Z)) (rows : list (Z * Z)) : bool :=
  existsb (fun r => existsb (fun x => (fst x =? fst r) || (snd x =? snd r)) tbl) rows.
Definition rc_sync (n : Z) (tbl : list (Z * Z)) : list (Z * Z) :=
  let db_std := filter (fun r => is_std_rc n (snd r)) tbl in
  let missing := filter (fun i => negb (existsb (fun r => snd r =? i) db_std)) (zseq (Z.to_nat n) 0) in
  let rows := map (fun i => (i, i)) missing in
  if rc_collides tbl rows then tbl else tbl ++ rows.

Definition memz (x : Z) (l : list Z) : bool := existsb (Z.eqb x) l.
Definition trait_sync (std : list Z) (tbl : list Z) : list Z :=
  tbl ++ filter (fun t => negb (memz t tbl)) std.

(* a well-formed class table: standard names sit at their own index, other ids are >= the custom floor,
   ids and names are unique *)
Definition rc_wf (n : Z) (tbl : list (Z * Z)) : Prop :=
  NoDup (map fst tbl) /\ NoDup (map snd tbl) /\
  forall r, In r tbl -> (is_std_rc n (snd r) = true -> fst r = snd r) /\
                        (is_std_rc n (snd r) = false -> MIN_CUSTOM_RC_ID <= fst r).
