(* Query-string value parsers of placement/util.py and placement/lib.py (C15).

   A string is the list of its Unicode code points (Python: [ord(c) for c in s]).  Lone surrogates
   (U+D800..U+DFFF) are outside the domain: webob decodes the query string as UTF-8 and an undecodable
   query string is rejected before any of these functions run (util.validate_query_params).

   Python semantics are modelled with an explicit exception result: every builtin that can raise says
   what it raises (int() -> ValueError, tuple unpacking -> ValueError, l[0] -> IndexError, assert ->
   AssertionError) and `try_except` catches exactly the class named in the source.  A parser "escapes"
   when it ends in an exception that is not webob.exc.HTTPBadRequest.

   Python builtins as modelled, and where the model is a restriction:
   - str.split(sep) only for a one-character separator (the code uses ',' and ':').
   - str.strip() / str.isspace(): the 29 code points for which CPython 3.12 (Unicode 15.0.0) answers
     isspace() (harness/parse.py compares the table with the running interpreter over all code points).
   - int(s): surrounding whitespace (ASCII \t\n\v\f\r and space; the non-ASCII isspace() code points;
     NOT U+001C..U+001F, which CPython keeps as they are for int()), one optional sign, decimal digits
     of ANY Unicode Nd block (68 blocks of Unicode 15.0.0, the table is compared with the interpreter),
     single underscores between digits, and ValueError above sys.get_int_max_str_digits() = 4300
     digits (the default; a deployment that changes PYTHONINTMAXSTRDIGITS changes that constant).
   - oslo_utils.uuidutils.is_uuid_like(val) = (str(uuid.UUID(val)).replace('-','') ==
     val.replace('urn:','').replace('uuid:','').strip('{}').replace('-','').lower()), False on
     TypeError/ValueError/AttributeError.  Modelled as: that normal form before lower() has 32
     characters, all ASCII hexadecimal.  Equivalent because no code point other than [0-9A-Fa-f]
     lowercases into [0-9a-f] (checked over all code points by the harness) and int(h, 16) of 32 ASCII
     hex digits prints back as h.lower(); compared with the real function on every generated string.
   - microversions: want_version.matches((1, n)) is `n <= minor` for the minor version of a 1.x request
     (0 <= minor <= 39 is ensured by the microversion middleware). *)
From Coq Require Import ZArith List Bool Lia.
From PV Require Import Gen.GenConsts.
Import ListNotations.
Open Scope Z_scope.

Definition str := list Z.

(* ------------------------------------------------------------------ exceptions *)
Inductive exn := HTTPBadRequest | ValueError | IndexError | KeyError | AssertionError | TypeError.
Inductive R (A : Type) := Ret (a : A) | Raise (e : exn).
Arguments Ret {A} a.
Arguments Raise {A} e.

Definition exn_eqb (a b : exn) : bool :=
  match a, b with
  | HTTPBadRequest, HTTPBadRequest | ValueError, ValueError | IndexError, IndexError
  | KeyError, KeyError | AssertionError, AssertionError | TypeError, TypeError => true
  | _, _ => false
  end.

Definition bind {A B} (x : R A) (f : A -> R B) : R B :=
  match x with Ret a => f a | Raise e => Raise e end.

(* try: body / except E: handler *)
Definition try_except {A} (body : R A) (E : exn) (handler : R A) : R A :=
  match body with
  | Raise e => if exn_eqb e E then handler else Raise e
  | r => r
  end.

Inductive PRes (A : Type) := POk (a : A) | P400 | PEscape.
Arguments POk {A} a.
Arguments P400 {A}.
Arguments PEscape {A}.

Definition to_pres {A} (r : R A) : PRes A :=
  match r with
  | Ret a => POk a
  | Raise HTTPBadRequest => P400
  | Raise _ => PEscape
  end.

(* ------------------------------------------------------------------ Python str builtins *)
Definition is_nil {A} (l : list A) : bool := match l with [] => true | _ => false end.
Definition nonempty {A} (l : list A) : bool := negb (is_nil l).

Fixpoint str_eqb (a b : str) : bool :=
  match a, b with
  | [], [] => true
  | x :: a', y :: b' => (x =? y) && str_eqb a' b'
  | _, _ => false
  end.

(* s.startswith(p) *)
Fixpoint starts_with (p s : str) : bool :=
  match p, s with
  | [], _ => true
  | x :: p', y :: s' => (x =? y) && starts_with p' s'
  | _ :: _, [] => false
  end.

(* c in s *)
Definition contains_char (c : Z) (s : str) : bool := existsb (Z.eqb c) s.

(* s.split(chr(c)) *)
Fixpoint split_char (c : Z) (s : str) : list str :=
  match s with
  | [] => [[]]
  | x :: s' =>
    if x =? c then [] :: split_char c s'
    else match split_char c s' with
         | p :: ps => (x :: p) :: ps
         | [] => [[x]]
         end
  end.

(* chr(c).join(l) *)
Fixpoint join_char (c : Z) (l : list str) : str :=
  match l with
  | [] => []
  | [p] => p
  | p :: ps => p ++ c :: join_char c ps
  end.

(* str.isspace() of one character; the set str.strip() removes *)
Definition is_space (c : Z) : bool :=
  ((9 <=? c) && (c <=? 13)) || ((28 <=? c) && (c <=? 32)) || (c =? 133) || (c =? 160) || (c =? 5760)
  || ((8192 <=? c) && (c <=? 8202)) || (c =? 8232) || (c =? 8233) || (c =? 8239) || (c =? 8287)
  || (c =? 12288).

Fixpoint drop_while (f : Z -> bool) (s : str) : str :=
  match s with
  | [] => []
  | c :: r => if f c then drop_while f r else s
  end.

Definition lstrip_by (f : Z -> bool) (s : str) : str := drop_while f s.
Definition rstrip_by (f : Z -> bool) (s : str) : str := rev (drop_while f (rev s)).
Definition strip_by (f : Z -> bool) (s : str) : str := rstrip_by f (lstrip_by f s).

(* s.strip() *)
Definition strip (s : str) : str := strip_by is_space s.
(* s.lstrip(chr(c)) *)
Definition lstrip_char (c : Z) (s : str) : str := lstrip_by (Z.eqb c) s.
(* s.strip(chars) *)
Definition strip_chars (cs : list Z) (s : str) : str := strip_by (fun c => existsb (Z.eqb c) cs) s.

(* s.replace(sub, '') for a non-empty sub: leftmost non-overlapping occurrences, no rescan *)
Fixpoint remove_sub_aux (sub : str) (skip : nat) (s : str) : str :=
  match s with
  | [] => []
  | c :: r =>
    match skip with
    | S k => remove_sub_aux sub k r
    | O => if starts_with sub s then remove_sub_aux sub (length sub - 1) r
           else c :: remove_sub_aux sub 0 r
    end
  end.
Definition remove_sub (sub s : str) : str := remove_sub_aux sub 0 s.

(* ------------------------------------------------------------------ int(s) *)
(* code points of the digit zero of every Nd block (Unicode 15.0.0); each block is ten consecutive
   code points in value order *)
Definition nd_zeros : list Z :=
  [48; 1632; 1776; 1984; 2406; 2534; 2662; 2790; 2918; 3046; 3174; 3302; 3430; 3558; 3664; 3792; 3872;
   4160; 4240; 6112; 6160; 6470; 6608; 6784; 6800; 6992; 7088; 7232; 7248; 42528; 43216; 43264; 43472;
   43504; 43600; 44016; 65296; 66720; 68912; 69734; 69872; 69942; 70096; 70384; 70736; 70864; 71248;
   71360; 71472; 71904; 72016; 72784; 73040; 73120; 73552; 92768; 92864; 93008; 120782; 120792; 120802;
   120812; 120822; 123200; 123632; 124144; 125264; 130032].

Definition digit_val (c : Z) : option Z :=
  match find (fun z => (z <=? c) && (c <=? z + 9)) nd_zeros with
  | Some z => Some (c - z)
  | None => None
  end.

(* whitespace int() skips at both ends *)
Definition int_space (c : Z) : bool :=
  ((9 <=? c) && (c <=? 13)) || (c =? 32) || ((128 <=? c) && is_space c).

Definition INT_MAX_STR_DIGITS : Z := 4300.

(* digits and single underscores; `us` = a digit must come next (start of the number or after '_').
   -> value, number of digits, unread rest *)
Fixpoint scan_digits (us : bool) (acc cnt : Z) (s : str) : option (Z * Z * str) :=
  match s with
  | [] => if us then None else Some (acc, cnt, [])
  | c :: r =>
    match digit_val c with
    | Some d => scan_digits false (acc * 10 + d) (cnt + 1) r
    | None =>
      if us then None
      else if c =? 95 then scan_digits true acc cnt r
      else Some (acc, cnt, s)
    end
  end.

Definition int_of (s : str) : R Z :=
  let s1 := drop_while int_space s in
  let '(neg, s2) := match s1 with
                    | 43 :: r => (false, r)
                    | 45 :: r => (true, r)
                    | _ => (false, s1)
                    end in
  match scan_digits true 0 0 s2 with
  | None => Raise ValueError
  | Some (v, cnt, rest) =>
    if INT_MAX_STR_DIGITS <? cnt then Raise ValueError
    else if nonempty (drop_while int_space rest) then Raise ValueError
    else Ret (if neg then - v else v)
  end.

(* ------------------------------------------------------------------ Python sets of strings *)
(* a set is represented by its sorted duplicate-free list (Python compares str by code point) *)
Fixpoint str_cmp (a b : str) : comparison :=
  match a, b with
  | [], [] => Eq
  | [], _ :: _ => Lt
  | _ :: _, [] => Gt
  | x :: a', y :: b' => match x ?= y with Eq => str_cmp a' b' | c => c end
  end.

Fixpoint set_insert (x : str) (l : list str) : list str :=
  match l with
  | [] => [x]
  | y :: l' => match str_cmp x y with
               | Lt => x :: l
               | Eq => l
               | Gt => y :: set_insert x l'
               end
  end.
Definition mkset (l : list str) : list str := fold_right set_insert [] l.
(* a | b, b already a set *)
Definition set_union (a b : list str) : list str := fold_right set_insert b a.
Definition set_mem (x : str) (l : list str) : bool := existsb (str_eqb x) l.

(* d[k] = v on an insertion-ordered dict *)
Fixpoint dict_set (k : str) (v : Z) (d : list (str * Z)) : list (str * Z) :=
  match d with
  | [] => [(k, v)]
  | (k', v') :: d' => if str_eqb k k' then (k', v) :: d' else (k', v') :: dict_set k v d'
  end.

(* a, b = l *)
Definition unpack2 {A} (l : list A) : R (A * A) :=
  match l with
  | [a; b] => Ret (a, b)
  | _ => Raise ValueError
  end.
(* l[0] *)
Definition index0 {A} (l : list A) : R A :=
  match l with
  | x :: _ => Ret x
  | [] => Raise IndexError
  end.
(* assert b *)
Definition py_assert (b : bool) : R unit := if b then Ret tt else Raise AssertionError.

Fixpoint mapM {A B} (f : A -> R B) (l : list A) : R (list B) :=
  match l with
  | [] => Ret []
  | x :: l' => bind (f x) (fun y => bind (mapM f l') (fun ys => Ret (y :: ys)))
  end.

(* ------------------------------------------------------------------ uuidutils.is_uuid_like *)
Definition s_urn : str := [117; 114; 110; 58].          (* "urn:" *)
Definition s_uuid : str := [117; 117; 105; 100; 58].    (* "uuid:" *)
Definition is_hex (c : Z) : bool :=
  ((48 <=? c) && (c <=? 57)) || ((65 <=? c) && (c <=? 70)) || ((97 <=? c) && (c <=? 102)).
(* val.replace('urn:', '').replace('uuid:', '').strip('{}').replace('-', '') *)
Definition uuid_normal (val : str) : str :=
  filter (fun c => negb (c =? 45)) (strip_chars [123; 125] (remove_sub s_uuid (remove_sub s_urn val))).
Definition is_uuid_like (val : str) : bool :=
  let h := uuid_normal val in (Z.of_nat (length h) =? 32) && forallb is_hex h.

(* ------------------------------------------------------------------ util.normalize_resources_qs_param *)
Definition resources_step (rt : str) (result : list (str * Z)) : R (list (str * Z)) :=
  bind (try_except (unpack2 (split_char 58 rt)) ValueError (Raise HTTPBadRequest)) (fun na =>
  let '(rc_name, amount) := na in
  bind (try_except (int_of amount) ValueError (Raise HTTPBadRequest)) (fun amount =>
  if amount <? 1 then Raise HTTPBadRequest
  else if MAX_INT <? amount then Raise HTTPBadRequest
  else Ret (dict_set rc_name amount result))).

Fixpoint resources_loop (rts : list str) (result : list (str * Z)) : R (list (str * Z)) :=
  match rts with
  | [] => Ret result
  | rt :: rest => bind (resources_step rt result) (resources_loop rest)
  end.

Definition normalize_resources_qs_param (qs : str) : R (list (str * Z)) :=
  if is_nil (strip qs) then Raise HTTPBadRequest
  else resources_loop (split_char 44 qs) [].

(* ------------------------------------------------------------------ util.normalize_traits_qs_param *)
Definition s_in : str := [105; 110; 58].          (* "in:" *)
Definition s_nin : str := [33; 105; 110; 58].     (* "!in:" *)
Definition s_bang : str := [33].

(* -> (required: list of sets, forbidden: set) *)
Definition normalize_traits_qs_param (val : str) (allow_forbidden allow_any_traits : bool)
  : R (list (list str) * list str) :=
  if starts_with s_in val then
    if negb allow_any_traits then Raise HTTPBadRequest
    else
      let any_traits := mkset (map strip (split_char 44 (skipn 3 val))) in
      if negb (forallb nonempty any_traits) then Raise HTTPBadRequest
      else if existsb (starts_with s_bang) any_traits then Raise HTTPBadRequest
      else Ret ([any_traits], [])
  else
    let all_traits := map strip (split_char 44 val) in
    let forbidden_traits := mkset (map (lstrip_char 33) (filter (starts_with s_bang) all_traits)) in
    if negb (forallb nonempty (forbidden_traits ++ all_traits)) then Raise HTTPBadRequest
    else
      let required_traits :=
        map (fun t => [t]) (filter (fun t => negb (starts_with s_bang t)) all_traits) in
      if nonempty forbidden_traits && negb allow_forbidden then Raise HTTPBadRequest
      else Ret (required_traits, forbidden_traits).

(* util.normalize_traits_qs_param_to_legacy_value -> set of names, forbidden ones prefixed with '!' *)
Definition normalize_traits_qs_param_to_legacy_value (val : str) (allow_forbidden : bool) : R (list str) :=
  bind (normalize_traits_qs_param val allow_forbidden false) (fun rf =>
  let '(required, forbidden) := rf in
  bind (mapM (fun any_traits =>
              bind (py_assert (Nat.eqb (length any_traits) 1)) (fun _ => index0 any_traits)) required)
       (fun singles => Ret (set_union (map (fun t => 33 :: t) forbidden) (mkset singles)))).

(* util.normalize_traits_qs_params(req, suffix): `values` = req.GET.getall('required' + suffix) *)
Fixpoint traits_params_loop (af aa : bool) (values : list str) (req : list (list str)) (forb : list str)
  : R (list (list str) * list str) :=
  match values with
  | [] => Ret (req, forb)
  | v :: rest =>
    bind (normalize_traits_qs_param v af aa) (fun rf =>
    traits_params_loop af aa rest (req ++ fst rf) (set_union (snd rf) forb))
  end.

(* l[-1:] *)
Definition last_slice {A} (l : list A) : list A :=
  match rev l with [] => [] | x :: _ => [x] end.

Definition normalize_traits_qs_params (minor : Z) (values : list str) : R (list (list str) * list str) :=
  let allow_forbidden := 22 <=? minor in
  let allow_any_traits := 39 <=? minor in
  let values := if allow_any_traits then values else last_slice values in
  traits_params_loop allow_forbidden allow_any_traits values [] [].

(* ------------------------------------------------------------------ util.normalize_member_of_qs_param(s) *)
(* -> (required set, forbidden set) *)
Definition normalize_member_of_qs_param (value : str) : R (list str * list str) :=
  if contains_char 44 value && negb (starts_with s_in value || starts_with s_nin value)
  then Raise HTTPBadRequest
  else
    let '(required, forbidden) :=
      if starts_with s_nin value then ([], mkset (split_char 44 (skipn 4 value)))
      else if starts_with s_bang value then ([], mkset [skipn 1 value])
      else if starts_with s_in value then (mkset (split_char 44 (skipn 3 value)), [])
      else (mkset [value], []) in
    if forallb is_uuid_like (set_union required forbidden) then Ret (required, forbidden)
    else Raise HTTPBadRequest.

Fixpoint member_of_loop (allow_forbidden : bool) (values : list str) (req : list (list str)) (forb : list str)
  : R (list (list str) * list str) :=
  match values with
  | [] => Ret (req, forb)
  | v :: rest =>
    bind (normalize_member_of_qs_param v) (fun rf =>
    let '(required, forbidden) := rf in
    let req' := if nonempty required then req ++ [required] else req in
    if nonempty forbidden then
      if negb allow_forbidden then Raise HTTPBadRequest
      else member_of_loop allow_forbidden rest req' (set_union forbidden forb)
    else member_of_loop allow_forbidden rest req' forb)
  end.

(* `values` = req.GET.getall('member_of' + suffix) *)
Definition normalize_member_of_qs_params (minor : Z) (values : list str) : R (list (list str) * list str) :=
  let multi_member_of := 24 <=? minor in
  let allow_forbidden := 32 <=? minor in
  if negb multi_member_of && (1 <? Z.of_nat (length values)) then Raise HTTPBadRequest
  else member_of_loop allow_forbidden values [] [].

(* ------------------------------------------------------------------ util.normalize_in_tree_qs_params *)
Definition normalize_in_tree_qs_params (value : str) : R str :=
  let ret := strip value in
  if is_uuid_like ret then Ret ret else Raise HTTPBadRequest.

(* ------------------------------------------------------------------ lib.RequestWideParams.from_request *)
(* limit = req.GET.getall('limit') *)
Definition rwp_limit (limit : list str) : R (option Z) :=
  if nonempty limit then
    try_except
      (bind (index0 limit) (fun l0 =>
       bind (int_of l0) (fun n =>
       if n <? 1 then Raise ValueError else Ret (Some n))))
      ValueError (Raise HTTPBadRequest)
  else Ret None.

Definition rwp_group_policy (gp : list str) : R (option str) :=
  if nonempty gp then bind (index0 gp) (fun g => Ret (Some g)) else Ret None.

(* lib._fix_one_forbidden on the legacy set *)
Definition fix_one_forbidden (traits : list str) : list str * list str * list str :=
  let forbidden := filter (starts_with s_bang) traits in
  let required := filter (fun t => negb (set_mem t forbidden)) traits in
  let forbidden := mkset (map (lstrip_char 33) forbidden) in
  let conflicts := filter (fun t => set_mem t required) forbidden in
  (required, forbidden, conflicts).

(* -> None when the parameter is absent, else (anchor_required_traits, anchor_forbidden_traits) *)
Definition rwp_root_required (rr : list str) : R (option (list str * list str)) :=
  if nonempty rr then
    if 1 <? Z.of_nat (length rr) then Raise HTTPBadRequest
    else
      bind (index0 rr) (fun r0 =>
      bind (normalize_traits_qs_param_to_legacy_value r0 true) (fun legacy =>
      let '(required, forbidden, conflicts) := fix_one_forbidden legacy in
      if nonempty conflicts then Raise HTTPBadRequest
      else Ret (Some (required, forbidden))))
  else Ret None.

Fixpoint rwp_same_subtree (ss : list str) : R (list (list str)) :=
  match ss with
  | [] => Ret []
  | val :: rest =>
    let suffixes := mkset (map strip (split_char 44 val)) in
    if set_mem [] suffixes then Raise HTTPBadRequest
    else bind (rwp_same_subtree rest) (fun l => Ret (suffixes :: l))
  end.

Definition RWP := (option Z * option str * option (list str * list str) * list (list str))%type.

(* the arguments are req.GET.getall of 'limit', 'group_policy', 'root_required', 'same_subtree' *)
Definition rwp_from_request (limit gp rr ss : list str) : R RWP :=
  bind (rwp_limit limit) (fun l =>
  bind (rwp_group_policy gp) (fun g =>
  bind (rwp_root_required rr) (fun a =>
  bind (rwp_same_subtree ss) (fun t =>
  Ret (l, g, a, t))))).

(* ------------------------------------------------------------------ lib._QS_KEY_PATTERN(_1_33).match(key) *)
(* ^(resources|required|member_of|in_tree)(GROUP)?$  with GROUP = [1-9][0-9]*  resp. [a-zA-Z0-9_-]{1,64};
   "$" also matches just before a final newline.  -> (index of the prefix, suffix or '') *)
Definition qs_prefixes : list str :=
  [[114; 101; 115; 111; 117; 114; 99; 101; 115];      (* resources *)
   [114; 101; 113; 117; 105; 114; 101; 100];          (* required *)
   [109; 101; 109; 98; 101; 114; 95; 111; 102];       (* member_of *)
   [105; 110; 95; 116; 114; 101; 101]].               (* in_tree *)

Definition at_end (s : str) : bool :=
  match s with [] => true | [10] => true | _ => false end.
Fixpoint span (f : Z -> bool) (s : str) : str * str :=
  match s with
  | [] => ([], [])
  | c :: r => if f c then let '(a, b) := span f r in (c :: a, b) else ([], s)
  end.
Definition is_ascii_digit (c : Z) : bool := (48 <=? c) && (c <=? 57).
Definition is_suffix_char (c : Z) : bool :=
  is_ascii_digit c || ((65 <=? c) && (c <=? 90)) || ((97 <=? c) && (c <=? 122)) || (c =? 95) || (c =? 45).

Definition suffix_numeric (rest : str) : option str :=
  if at_end rest then Some []
  else match rest with
       | c :: r =>
         if (49 <=? c) && (c <=? 57) then
           let '(ds, tl) := span is_ascii_digit r in
           if at_end tl then Some (c :: ds) else None
         else None
       | [] => Some []
       end.
Definition suffix_verbose (rest : str) : option str :=
  let '(cs, tl) := span is_suffix_char rest in
  if at_end tl && (Z.of_nat (length cs) <=? 64) then Some cs else None.

Fixpoint key_match_from (verbose : bool) (i : Z) (ps : list str) (key : str) : option (Z * str) :=
  match ps with
  | [] => None
  | p :: ps' =>
    if starts_with p key then
      match (if verbose then suffix_verbose else suffix_numeric) (skipn (length p) key) with
      | Some suf => Some (i, suf)
      | None => key_match_from verbose (i + 1) ps' key
      end
    else key_match_from verbose (i + 1) ps' key
  end.
Definition qs_key_match (verbose : bool) (key : str) : option (Z * str) :=
  key_match_from verbose 0 qs_prefixes key.

(* ------------------------------------------------------------------ comparison with observed results *)
Fixpoint list_eqb {A} (eqb : A -> A -> bool) (a b : list A) : bool :=
  match a, b with
  | [], [] => true
  | x :: a', y :: b' => eqb x y && list_eqb eqb a' b'
  | _, _ => false
  end.
Definition pair_eqb {A B} (ea : A -> A -> bool) (eb : B -> B -> bool) (a b : A * B) : bool :=
  ea (fst a) (fst b) && eb (snd a) (snd b).
Definition opt_eqb {A} (eqb : A -> A -> bool) (a b : option A) : bool :=
  match a, b with
  | Some x, Some y => eqb x y
  | None, None => true
  | _, _ => false
  end.
Definition pres_eqb {A} (eqb : A -> A -> bool) (a b : PRes A) : bool :=
  match a, b with
  | POk x, POk y => eqb x y
  | P400, P400 => true
  | PEscape, PEscape => true
  | _, _ => false
  end.
Definition strs_eqb := list_eqb str_eqb.
Definition sets_eqb := list_eqb strs_eqb.
Definition rwp_eqb : RWP -> RWP -> bool :=
  pair_eqb (pair_eqb (pair_eqb (opt_eqb Z.eqb) (opt_eqb str_eqb)) (opt_eqb (pair_eqb strs_eqb strs_eqb)))
           sets_eqb.
