(* READ handlers of placement/handlers/{resource_provider,inventory,usage,allocation,trait,aggregate,
   resource_class}.py and the object-layer queries behind them, as total functions of the database.

   A view is (HTTP status, header scalars, rows).  Rows are the members of the JSON objects /
   lists of the body flattened to integers and sorted (JSON objects are unordered; the two JSON
   arrays involved, "traits" and "aggregates", are returned in storage order, which the model does
   not keep, so they are compared as sorted lists too).  Identifiers are the tokens of Tables.v
   (surrogate ids resolved): the joins with projects / users / consumer_types / resource_classes /
   traits that only translate a surrogate id into its external name are therefore the identity
   here; every join with a table of Tables.v is written out.  Not modelled: key order, links,
   Last-Modified / Cache-Control headers, error bodies, the `name=startswith:` filter of GET /traits
   (names are opaque tokens here; text exists only in Regex.v). *)
From PV Require Export Model.Handlers.
From PV Require Import Model.Names.

Record rview := mkView { rv_status : Z; rv_hdr : list Z; rv_rows : list (list Z) }.
Definition v_404 : rview := mkView 404 [] [].
Definition v_400 : rview := mkView 400 [] [].

Inductive query :=
| QRp (u : Z)                                   (* GET /resource_providers/{u} *)
| QInvs (u : Z)                                 (* GET /resource_providers/{u}/inventories *)
| QInv (u rc : Z)                               (* GET /resource_providers/{u}/inventories/{rc}; -1 = unknown name *)
| QRpUsages (u : Z)                             (* GET /resource_providers/{u}/usages *)
| QRpAllocs (u : Z)                             (* GET /resource_providers/{u}/allocations *)
| QRpTraits (u : Z)                             (* GET /resource_providers/{u}/traits *)
| QRpAggs (u : Z)                               (* GET /resource_providers/{u}/aggregates *)
| QConsAllocs (c : Z)                           (* GET /allocations/{c} *)
| QUsages (p : Z) (user : option Z) (ct : option Z)
                                                (* GET /usages?project_id=p[&user_id][&consumer_type] *)
| QTraits (names : option (list Z)) (assoc : option bool)
                                                (* GET /traits[?name=in:T1,T2,..][&associated=true|false] *)
| QTrait (t : Z)                                (* GET /traits/{t} (trait NAME token) *)
| QClasses                                      (* GET /resource_classes *)
| QClass (n : Z).                               (* GET /resource_classes/{n} (class NAME token, not the id) *)
(* consumer_type tokens in queries and payloads: CT_ALL = "all", CT_UNKNOWN = "unknown"
   (also the name reported for a consumer without a type), t >= 0 = a consumer type name *)
Definition CT_ALL : Z := -2.
Definition CT_UNKNOWN : Z := -1.
(* pseudo resource class of the "consumer_count" member of a 1.38 usages group *)
Definition RC_COUNT : Z := -1.

(* ---------------------------------------------------------------- rows *)
Definition rows_eqb (a b : list Z) : bool := list_eqb Z.eqb a b.
(* drop adjacent duplicates (applied to sorted lists: SQL GROUP BY / Python dict keys) *)
Fixpoint uniq_adj (l : list (list Z)) : list (list Z) :=
  match l with
  | [] => []
  | x :: l' => match l' with
               | [] => [x]
               | y :: _ => if rows_eqb x y then uniq_adj l' else x :: uniq_adj l'
               end
  end.

(* ---------------------------------------------------------------- providers *)
(* ResourceProvider.get_by_uuid -> _get_provider_by_uuid:
   rp JOIN root ON rp.root_provider_id = root.id LEFT JOIN parent ON rp.parent_provider_id = parent.id *)
Definition get_rp (d : db) (u : Z) : option rp :=
  match find_rp d u with
  | Some r => match find_rp d (rp_root r) with Some _ => Some r | None => None end
  | None => None
  end.
Definition parent_uuid (d : db) (r : rp) : option Z :=
  match rp_parent r with
  | Some p => match find_rp d p with Some _ => Some p | None => None end
  | None => None
  end.

(* get_resource_provider / _serialize_provider *)
Definition v_rp (d : db) (v u : Z) : rview :=
  match get_rp d u with
  | None => v_404
  | Some r => mkView 200 ([rp_name r; rp_gen r] ++
                          (if 14 <=? v then [oz (parent_uuid d r); rp_root r] else [])) []
  end.

(* ---------------------------------------------------------------- inventories *)
Definition inv_fields (i : inv) : list Z :=
  [i_total i; i_reserved i; i_min i; i_max i; i_step i; i_rm i; i_re i].
Definition inv_row (i : inv) : list Z := i_rc i :: inv_fields i.
(* inventory.get_all_by_resource_provider: SELECT .. FROM inventories WHERE resource_provider_id = rp.id *)
Definition invs_of_rp (d : db) (u : Z) : list inv := filter (fun i => i_rp i =? u) (invs d).

(* get_inventories / _serialize_inventories *)
Definition v_invs (d : db) (u : Z) : rview :=
  match get_rp d u with
  | None => v_404
  | Some r => mkView 200 [rp_gen r] (sort_rows (map inv_row (invs_of_rp d u)))
  end.

(* get_inventory: inv_obj.find on the provider's list; _serialize_inventory adds
   resource_provider_generation only `if generation:` (absent for generation 0; -1 here) *)
Definition v_inv (d : db) (u rc : Z) : rview :=
  match get_rp d u with
  | None => v_404
  | Some r =>
      match find (fun i => i_rc i =? rc) (invs_of_rp d u) with
      | None => v_404
      | Some i => mkView 200 ((if rp_gen r =? 0 then -1 else rp_gen r) :: inv_fields i) []
      end
  end.

(* ---------------------------------------------------------------- provider usages *)
(* usage._get_all_by_resource_provider_uuid:
   inventories JOIN resource_providers LEFT JOIN allocations ON (same provider, same class)
   WHERE rp.uuid = u GROUP BY inventories.resource_class_id; COALESCE(SUM(used), 0) *)
Definition v_rp_usages (d : db) (u : Z) : rview :=
  match get_rp d u with
  | None => v_404
  | Some r => mkView 200 [rp_gen r]
                (sort_rows (map (fun i => [i_rc i; usage d u (i_rc i)]) (invs_of_rp d u)))
  end.

(* ---------------------------------------------------------------- allocations of a provider *)
(* allocation._get_allocations_by_provider_id:
   allocations JOIN consumers ON consumer_id = uuid JOIN projects JOIN users WHERE resource_provider_id = rp.id *)
Definition rp_alloc_rows (d : db) (v u : Z) : list (list Z) :=
  flat_map (fun a => if a_rp a =? u then
                       match find_cons d (a_cons a) with
                       | Some k => [[a_cons a; a_rc a; a_used a] ++ (if 28 <=? v then [c_gen k] else [])]
                       | None => []
                       end
                     else []) (allocs d).
(* list_for_resource_provider / _serialize_allocations_for_resource_provider *)
Definition v_rp_allocs (d : db) (v u : Z) : rview :=
  match get_rp d u with
  | None => v_404
  | Some r => mkView 200 [rp_gen r] (sort_rows (rp_alloc_rows d v u))
  end.

(* ---------------------------------------------------------------- traits / aggregates of a provider *)
(* list_traits_for_resource_provider; trait.get_traits_by_provider_id *)
Definition v_rp_traits (d : db) (v u : Z) : rview :=
  if v <? 6 then v_404 else
  match get_rp d u with
  | None => v_404
  | Some r => mkView 200 [rp_gen r] (sort_rows (map (fun t => [t]) (traits_of d u)))
  end.

(* get_aggregates; _get_aggregates_by_provider_id: placement_aggregates JOIN resource_provider_aggregates *)
Definition v_rp_aggs (d : db) (v u : Z) : rview :=
  if v <? 1 then v_404 else
  match get_rp d u with
  | None => v_404
  | Some r => mkView 200 (if 19 <=? v then [rp_gen r] else [])
                (sort_rows (map (fun a => [a]) (filter (fun a => memZ a (aggs d)) (aggs_of d u))))
  end.

(* ---------------------------------------------------------------- allocations of a consumer *)
(* allocation._get_allocations_by_consumer_uuid:
   allocations JOIN resource_providers JOIN consumers JOIN projects JOIN users WHERE consumer_id = c *)
Definition cons_alloc_rows (d : db) (c : Z) : list (list Z) :=
  flat_map (fun a => if a_cons a =? c then
                       match find_rp d (a_rp a), find_cons d c with
                       | Some r, Some _ => [[a_rp a; rp_gen r; a_rc a; a_used a]]
                       | _, _ => []
                       end
                     else []) (allocs d).
(* list_for_consumer / _serialize_allocations_for_consumer: never 404; consumer attributes only
   `if allocations and want_version.matches((1, 12))` *)
Definition v_cons_allocs (d : db) (v c : Z) : rview :=
  let rows := cons_alloc_rows d c in
  let hdr := match rows, find_cons d c with
             | _ :: _, Some k =>
                 if 12 <=? v then [c_proj k; c_user k] ++ (if 28 <=? v then [c_gen k] else []) ++
                                  (if 38 <=? v then [oz (c_type k)] else [])
                 else []
             | _, _ => []
             end in
  mkView 200 hdr (sort_rows rows).

(* ---------------------------------------------------------------- total usages *)
(* one row of allocations JOIN consumers (JOIN projects / users, LEFT JOIN consumer_types) *)
Record jrow := mkJ { j_key : Z; j_cons : Z; j_rc : Z; j_used : Z }.

Definition j_sum (J : list jrow) (k rc : Z) : Z :=
  fold_right (fun j acc => if (j_key j =? k) && (j_rc j =? rc) then j_used j + acc else acc) 0 J.
(* COUNT(DISTINCT allocations.consumer_id) of a group *)
Definition j_count (J : list jrow) (k : Z) : Z :=
  Z.of_nat (length (dedup (map j_cons (filter (fun j => j_key j =? k) J)))).
(* GROUP BY (group key, resource class) with SUM(used), plus the consumer_count of every group *)
Definition group_rows (with_count : bool) (J : list jrow) : list (list Z) :=
  uniq_adj (sort_rows (map (fun j => [j_key j; j_rc j; j_sum J (j_key j) (j_rc j)]) J ++
                       (if with_count then map (fun j => [j_key j; RC_COUNT; j_count J (j_key j)]) J else []))).

(* the joined and filtered rows; keep = filter on the consumer's type, key = how the handler groups
   (both functions of the consumer's type, None = NULL consumer_type_id) *)
Definition usage_join (d : db) (p : Z) (user : option Z) (keep : option Z -> bool) (key : option Z -> Z)
  : list jrow :=
  flat_map (fun a => match find_cons d (a_cons a) with
                     | Some k =>
                         if (c_proj k =? p) && (match user with Some w => c_user k =? w | None => true end)
                            && keep (c_type k)
                         then [mkJ (key (c_type k)) (a_cons a) (a_rc a) (a_used a)] else []
                     | None => []
                     end) (allocs d).

Definition is_untyped (t : option Z) : bool := match t with None => true | Some _ => false end.

(* get_total_usages; usage._get_all_by_project_user / _get_by_consumer_type *)
Definition v_usages (d : db) (v p : Z) (user : option Z) (ct : option Z) : rview :=
  if v <? 9 then v_404 else
  if v <? 38 then
    match ct with
    | Some _ => v_400                                          (* additionalProperties: False *)
    | None => mkView 200 [] (map (@tl Z) (group_rows false (usage_join d p user (fun _ => true) (fun _ => 0))))
    end
  else
    match ct with
    | None => mkView 200 [] (group_rows true (usage_join d p user (fun _ => true) oz))
    | Some t =>
        if t =? CT_ALL then mkView 200 [] (group_rows true (usage_join d p user (fun _ => true) (fun _ => CT_ALL)))
        else if t =? CT_UNKNOWN then
          mkView 200 [] (group_rows true (usage_join d p user is_untyped (fun _ => CT_UNKNOWN)))
        else mkView 200 [] (group_rows true (usage_join d p user (fun ty => oeqb ty (Some t)) (fun _ => t)))
    end.

(* ---------------------------------------------------------------- traits *)
(* the rows of the `traits` table: the standard traits (os_traits, inserted by _trait_sync at start-up
   and never deleted: tokens 0 .. n_std_traits - 1) and the custom rows *)
Definition trait_rows (d : db) : list Z := zseq (Z.to_nat n_std_traits) 0 ++ traits d.

(* traits JOIN resource_provider_traits ON traits.id = resource_provider_traits.trait_id: one row per
   association record of the trait *)
Definition trait_join (d : db) (l : list Z) : list Z :=
  flat_map (fun t => flat_map (fun x => if snd x =? t then [t] else []) (rp_traits d)) l.

(* trait.get_all(filters) -> _get_all_filtered_from_db (no filter: the per-request cache, loaded by
   SELECT .. FROM traits):
     query(Trait) [.filter(Trait.name.in_(names))]
     associated=true :  .join(ResourceProviderTrait, ..).distinct()
     associated=false:  .outerjoin(ResourceProviderTrait, ..).filter(ResourceProviderTrait.trait_id == NULL) *)
Definition traits_listed (d : db) (names : option (list Z)) (assoc : option bool) : list Z :=
  let cand := match names with
              | Some ns => filter (fun t => memZ t ns) (trait_rows d)
              | None => trait_rows d
              end in
  match assoc with
  | None => cand
  | Some true => dedup (trait_join d cand)
  | Some false => filter (fun t => negb (existsb (fun x => snd x =? t) (rp_traits d))) cand
  end.

(* list_traits / _serialize_traits: {"traits": [names]} *)
Definition v_traits (d : db) (v : Z) (names : option (list Z)) (assoc : option bool) : rview :=
  if v <? 6 then v_404 else
  mkView 200 [] (sort_rows (map (fun t => [t]) (traits_listed d names assoc))).

(* get_trait: Trait.get_by_name -> trait_cache.all_from_string; 204 without a body *)
Definition v_trait (d : db) (v t : Z) : rview :=
  if v <? 6 then v_404 else
  if memZ t (trait_rows d) then mkView 204 [] [] else v_404.

(* ---------------------------------------------------------------- resource classes *)
(* the rows (id, name) of the `resource_classes` table: standard class i has id i and name token i
   (_resource_classes_sync), then the custom rows *)
Definition rc_rows (d : db) : list (Z * Z) := map (fun i => (i, i)) (zseq (Z.to_nat n_std_rc) 0) ++ rcs d.

(* list_resource_classes: resource_class.get_all -> rc_cache.get_all(): {"resource_classes": [{"name": ..}]} *)
Definition v_classes (d : db) (v : Z) : rview :=
  if v <? 2 then v_404 else mkView 200 [] (sort_rows (map (fun x => [snd x]) (rc_rows d))).

(* get_resource_class: ResourceClass.get_by_name -> rc_cache.all_from_string; {"name": ..} *)
Definition v_class (d : db) (v n : Z) : rview :=
  if v <? 2 then v_404 else
  match find (fun x => snd x =? n) (rc_rows d) with
  | Some x => mkView 200 [snd x] []
  | None => v_404
  end.

(* ---------------------------------------------------------------- dispatcher *)
Definition view (q : query) (v : Z) (d : db) : rview :=
  match q with
  | QRp u => v_rp d v u
  | QInvs u => v_invs d u
  | QInv u rc => v_inv d u rc
  | QRpUsages u => v_rp_usages d u
  | QRpAllocs u => v_rp_allocs d v u
  | QRpTraits u => v_rp_traits d v u
  | QRpAggs u => v_rp_aggs d v u
  | QConsAllocs c => v_cons_allocs d v c
  | QUsages p user ct => v_usages d v p user ct
  | QTraits names assoc => v_traits d v names assoc
  | QTrait t => v_trait d v t
  | QClasses => v_classes d v
  | QClass n => v_class d v n
  end.

(* ---------------------------------------------------------------- correspondence helper *)
Definition view_eqb (a b : rview) : bool :=
  (rv_status a =? rv_status b) && rows_eqb (rv_hdr a) (rv_hdr b) &&
  list_eqb rows_eqb (rv_rows a) (rv_rows b).

(* harness/reads.py prints long listings of name tokens as runs (lo, hi) of consecutive tokens *)
Definition rng_rows (l : list (Z * Z)) : list (list Z) :=
  flat_map (fun x => map (fun t => [t]) (zseq (Z.to_nat (snd x - fst x + 1)) (fst x))) l.

(* expected reads after every request of a history: returns (step index, read index) of every
   disagreement *)
Fixpoint check_reads_at (d : db) (i j : Z) (l : list (query * Z * rview)) : list (Z * Z) :=
  match l with
  | [] => []
  | (q, v, e) :: l' =>
      (if view_eqb (view q v d) e then [] else [(i, j)]) ++ check_reads_at d i (j + 1) l'
  end.
Fixpoint check_reads (cf : cfg) (d : db) (i : Z) (l : list (req * list (query * Z * rview))) : list (Z * Z) :=
  match l with
  | [] => []
  | (r, reads) :: l' =>
      let d' := fst (step cf d r) in
      check_reads_at d' i 0 reads ++ check_reads cf d' (i + 1) l'
  end.
