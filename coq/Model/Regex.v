(* The subset of Python `re` used by the name patterns of placement/schemas/common.py, with re.search
   semantics: a pattern is an optional ^, a sequence of character classes each taken once, one-or-more
   times (greedy, backtracking) or exactly n times, and an optional end anchor.  "$" matches at the end
   of the string AND just before a trailing newline; "\Z" only at the very end. Strings are lists of
   code points. *)
From Coq Require Import ZArith List Bool.
Import ListNotations.
Open Scope Z_scope.

Inductive endk := EndDollar | EndZ | EndNone.
Inductive item := One (r : list (Z * Z)) | Plus (r : list (Z * Z)) | Rep (n : nat) (r : list (Z * Z)).
Record pat := mkPat { p_start : bool; p_items : list item; p_end : endk }.

Definition in_class (r : list (Z * Z)) (c : Z) : bool := existsb (fun x => (fst x <=? c) && (c <=? snd x)) r.

Definition end_ok (e : endk) (s : list Z) : bool :=
  match e, s with
  | _, [] => true
  | EndDollar, [10] => true
  | EndNone, _ => true
  | _, _ => false
  end.

(* one or more characters of the class, then the continuation k on the rest *)
Fixpoint mplus (r : list (Z * Z)) (k : list Z -> bool) (s : list Z) : bool :=
  match s with
  | [] => false
  | c :: s' => in_class r c && (k s' || mplus r k s')
  end.
Fixpoint mrep (n : nat) (r : list (Z * Z)) (k : list Z -> bool) (s : list Z) : bool :=
  match n with
  | O => k s
  | S n' => match s with [] => false | c :: s' => in_class r c && mrep n' r k s' end
  end.
Fixpoint mitems (l : list item) (e : endk) (s : list Z) : bool :=
  match l with
  | [] => end_ok e s
  | One r :: l' => match s with [] => false | c :: s' => in_class r c && mitems l' e s' end
  | Plus r :: l' => mplus r (mitems l' e) s
  | Rep n r :: l' => mrep n r (mitems l' e) s
  end.
(* re.search: unanchored patterns may match at any position *)
Fixpoint msearch (l : list item) (e : endk) (s : list Z) : bool :=
  mitems l e s || match s with [] => false | _ :: s' => msearch l e s' end.
Definition pmatch (p : pat) (s : list Z) : bool :=
  if p_start p then mitems (p_items p) (p_end p) s else msearch (p_items p) (p_end p) s.

(* a JSON-schema string with pattern and maxLength *)
Definition name_accepted (p : pat) (maxlen : Z) (s : list Z) : bool :=
  pmatch p s && (Z.of_nat (length s) <=? maxlen).
