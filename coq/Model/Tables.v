(* Tables of the placement database, keyed by external identifiers (uuid / name tokens).
   One record per SQLAlchemy model of placement/db/sqlalchemy/models.py; surrogate ids are
   resolved to the external identifier they denote (the harness canonicalises dumps the same way). *)
From PV Require Export Model.Base.

Record rp := mkRp { rp_uuid : Z; rp_name : Z; rp_gen : Z; rp_parent : option Z; rp_root : Z }.
Record inv := mkInv { i_rp : Z; i_rc : Z; i_total : Z; i_reserved : Z; i_min : Z; i_max : Z;
                      i_step : Z; i_rm : Z; i_re : Z }.     (* allocation_ratio = i_rm * 2^i_re *)
Record alloc := mkAlloc { a_cons : Z; a_rp : Z; a_rc : Z; a_used : Z }.
Record consumer := mkCons { c_uuid : Z; c_proj : Z; c_user : Z; c_type : option Z; c_gen : Z }.

Record db := mkDb {
  rps : list rp;
  invs : list inv;
  allocs : list alloc;
  consumers : list consumer;
  projects : list Z;          (* external ids *)
  users : list Z;
  ctypes : list Z;            (* consumer type names *)
  rcs : list (Z * Z);         (* custom resource classes: (id, name token) *)
  traits : list Z;            (* custom traits (name tokens >= CUSTOM_TRAIT_BASE) *)
  aggs : list Z;              (* placement_aggregates.uuid *)
  rp_aggs : list (Z * Z);     (* (provider uuid, aggregate uuid) *)
  rp_traits : list (Z * Z)    (* (provider uuid, trait token) *)
}.

Definition db0 : db := mkDb [] [] [] [] [] [] [] [] [] [] [] [].

(* setters *)
Definition set_rps (d : db) x := mkDb x (invs d) (allocs d) (consumers d) (projects d) (users d) (ctypes d) (rcs d) (traits d) (aggs d) (rp_aggs d) (rp_traits d).
Definition set_invs (d : db) x := mkDb (rps d) x (allocs d) (consumers d) (projects d) (users d) (ctypes d) (rcs d) (traits d) (aggs d) (rp_aggs d) (rp_traits d).
Definition set_allocs (d : db) x := mkDb (rps d) (invs d) x (consumers d) (projects d) (users d) (ctypes d) (rcs d) (traits d) (aggs d) (rp_aggs d) (rp_traits d).
Definition set_consumers (d : db) x := mkDb (rps d) (invs d) (allocs d) x (projects d) (users d) (ctypes d) (rcs d) (traits d) (aggs d) (rp_aggs d) (rp_traits d).
Definition set_projects (d : db) x := mkDb (rps d) (invs d) (allocs d) (consumers d) x (users d) (ctypes d) (rcs d) (traits d) (aggs d) (rp_aggs d) (rp_traits d).
Definition set_users (d : db) x := mkDb (rps d) (invs d) (allocs d) (consumers d) (projects d) x (ctypes d) (rcs d) (traits d) (aggs d) (rp_aggs d) (rp_traits d).
Definition set_ctypes (d : db) x := mkDb (rps d) (invs d) (allocs d) (consumers d) (projects d) (users d) x (rcs d) (traits d) (aggs d) (rp_aggs d) (rp_traits d).
Definition set_rcs (d : db) x := mkDb (rps d) (invs d) (allocs d) (consumers d) (projects d) (users d) (ctypes d) x (traits d) (aggs d) (rp_aggs d) (rp_traits d).
Definition set_traits (d : db) x := mkDb (rps d) (invs d) (allocs d) (consumers d) (projects d) (users d) (ctypes d) (rcs d) x (aggs d) (rp_aggs d) (rp_traits d).
Definition set_aggs (d : db) x := mkDb (rps d) (invs d) (allocs d) (consumers d) (projects d) (users d) (ctypes d) (rcs d) (traits d) x (rp_aggs d) (rp_traits d).
Definition set_rp_aggs (d : db) x := mkDb (rps d) (invs d) (allocs d) (consumers d) (projects d) (users d) (ctypes d) (rcs d) (traits d) (aggs d) x (rp_traits d).
Definition set_rp_traits (d : db) x := mkDb (rps d) (invs d) (allocs d) (consumers d) (projects d) (users d) (ctypes d) (rcs d) (traits d) (aggs d) (rp_aggs d) x.

(* lookups *)
Fixpoint find_rp_l (l : list rp) (u : Z) : option rp :=
  match l with
  | [] => None
  | r :: l' => if rp_uuid r =? u then Some r else find_rp_l l' u
  end.
Definition find_rp (d : db) (u : Z) : option rp := find_rp_l (rps d) u.

Fixpoint find_inv_l (l : list inv) (u rc : Z) : option inv :=
  match l with
  | [] => None
  | i :: l' => if (i_rp i =? u) && (i_rc i =? rc) then Some i else find_inv_l l' u rc
  end.
Definition find_inv (d : db) (u rc : Z) : option inv := find_inv_l (invs d) u rc.

Fixpoint find_cons_l (l : list consumer) (u : Z) : option consumer :=
  match l with
  | [] => None
  | c :: l' => if c_uuid c =? u then Some c else find_cons_l l' u
  end.
Definition find_cons (d : db) (u : Z) : option consumer := find_cons_l (consumers d) u.

(* SUM(used) ... WHERE resource_provider_id = u AND resource_class_id = rc *)
Fixpoint usage_l (l : list alloc) (u rc : Z) : Z :=
  match l with
  | [] => 0
  | a :: l' => if (a_rp a =? u) && (a_rc a =? rc) then a_used a + usage_l l' u rc else usage_l l' u rc
  end.
Definition usage (d : db) (u rc : Z) : Z := usage_l (allocs d) u rc.

(* capacity as the code computes it: (total - reserved) * allocation_ratio, one double rounding *)
Definition cap_floor (i : inv) : Z := fprod_floor (i_total i - i_reserved i) (i_rm i) (i_re i).
Definition cap_trunc (i : inv) : Z := fprod_trunc (i_total i - i_reserved i) (i_rm i) (i_re i).

(* canonical dump: every table as sorted rows of integers; None is -1 *)
Definition oz (o : option Z) : Z := match o with Some x => x | None => -1 end.
Definition dump (d : db) : list (list (list Z)) :=
  [ sort_rows (map (fun r => [rp_uuid r; rp_name r; rp_gen r; oz (rp_parent r); rp_root r]) (rps d));
    sort_rows (map (fun i => [i_rp i; i_rc i; i_total i; i_reserved i; i_min i; i_max i; i_step i; i_rm i; i_re i]) (invs d));
    sort_rows (map (fun a => [a_cons a; a_rp a; a_rc a; a_used a]) (allocs d));
    sort_rows (map (fun c => [c_uuid c; c_proj c; c_user c; oz (c_type c); c_gen c]) (consumers d));
    sort_rows (map (fun x => [x]) (projects d));
    sort_rows (map (fun x => [x]) (users d));
    sort_rows (map (fun x => [x]) (ctypes d));
    sort_rows (map (fun x => [fst x; snd x]) (rcs d));
    sort_rows (map (fun x => [x]) (traits d));
    sort_rows (map (fun x => [x]) (aggs d));
    sort_rows (map (fun x => [fst x; snd x]) (rp_aggs d));
    sort_rows (map (fun x => [fst x; snd x]) (rp_traits d)) ].

Definition dump_eqb (a b : list (list (list Z))) : bool :=
  list_eqb (list_eqb (list_eqb Z.eqb)) a b.
