(* Object-layer transactions of placement/objects/*.py as functions on the database.
   Each definition follows the statements of the Python function named in its comment. *)
From PV Require Export Model.Tables Gen.GenConsts.

Inductive exn :=
| ENotFound            (* exception.NotFound (generic) *)
| ERcNotFound          (* ResourceClassNotFound <: NotFound *)
| EInvRcNotFound       (* InventoryWithResourceClassNotFound <: NotFound *)
| EInvalidInventory    (* InvalidInventory, InvalidAllocationCapacityExceeded, ...ConstraintsViolated *)
| EInventoryInUse      (* InventoryInUse <: InvalidInventory *)
| EConcurrent          (* ConcurrentUpdateDetected (consumer) *)
| ERpConcurrent        (* ResourceProviderConcurrentUpdateDetected <: ConcurrentUpdateDetected *)
| EDuplicate           (* oslo_db DBDuplicateEntry *)
| EObjAction           (* ObjectActionError *)
| EHasChildren         (* CannotDeleteParentResourceProvider *)
| ERpInUse             (* ResourceProviderInUse *)
| EBadCapacity         (* InvalidInventoryCapacity(ReservedCanBeTotal) *)
| ERcInUse | ERcStandard | ERcExists
| ETraitNotFound | ETraitInUse | ETraitStandard.

Inductive result (A : Type) := Ok (a : A) | Err (e : exn).
Arguments Ok {A} a.
Arguments Err {A} e.
Definition bind {A B} (r : result A) (f : A -> result B) : result B :=
  match r with Ok a => f a | Err e => Err e end.
Notation "'do' x <- r ; k" := (bind r (fun x => k)) (at level 200, x name, r at level 100, k at level 200).

(* ---------------------------------------------------------------- names *)
Definition rc_exists (d : db) (rc : Z) : bool :=
  ((0 <=? rc) && (rc <? n_std_rc)) || existsb (fun x => fst x =? rc) (rcs d).
Definition is_std_trait (t : Z) : bool := (0 <=? t) && (t <? n_std_traits).
Definition trait_exists (d : db) (t : Z) : bool := is_std_trait t || memZ t (traits d).

(* resource classes: standard class i has name token i; custom names have tokens >= 1000 *)
Definition is_std_rc_name (n : Z) : bool := (0 <=? n) && (n <? n_std_rc).
Definition rc_id_of_name (d : db) (n : Z) : option Z :=
  if is_std_rc_name n then Some n
  else match find (fun x => snd x =? n) (rcs d) with Some x => Some (fst x) | None => None end.
(* ResourceClass._get_next_id: max(id) + 1, never below MIN_CUSTOM_RESOURCE_CLASS_ID *)
Definition next_rc_id (d : db) : Z :=
  let m := fold_right Z.max (n_std_rc - 1) (map fst (rcs d)) in
  if m <? MIN_CUSTOM_RC_ID then MIN_CUSTOM_RC_ID else m + 1.
(* ResourceClass.create *)
Definition rc_create (d : db) (n : Z) : result db :=
  match rc_id_of_name d n with
  | Some _ => Err ERcExists
  | None => Ok (set_rcs d (rcs d ++ [(next_rc_id d, n)]))
  end.
(* ResourceClass.destroy *)
Definition rc_destroy (d : db) (n : Z) : result db :=
  match rc_id_of_name d n with
  | None => Err ERcNotFound
  | Some id =>
      if id <? MIN_CUSTOM_RC_ID then Err ERcStandard else
      if existsb (fun i => i_rc i =? id) (invs d) then Err ERcInUse else
      Ok (set_rcs d (filter (fun x => negb (fst x =? id)) (rcs d)))
  end.
(* ResourceClass.save (rename, microversions 1.2 - 1.6) *)
Definition rc_rename (d : db) (old new : Z) : result db :=
  match rc_id_of_name d old with
  | None => Err ERcNotFound
  | Some id =>
      if id <? MIN_CUSTOM_RC_ID then Err ERcStandard else
      if existsb (fun x => (snd x =? new) && negb (fst x =? id)) (rcs d) || is_std_rc_name new then Err ERcExists else
      Ok (set_rcs d (map (fun x => if fst x =? id then (id, new) else x) (rcs d)))
  end.
(* Trait.create / Trait.destroy *)
Definition trait_create (d : db) (t : Z) : result db :=
  if trait_exists d t then Err EDuplicate else Ok (set_traits d (traits d ++ [t])).
Definition trait_destroy (d : db) (t : Z) : result db :=
  if negb (trait_exists d t) then Err ETraitNotFound else
  if is_std_trait t then Err ETraitStandard else
  if existsb (fun x => snd x =? t) (rp_traits d) then Err ETraitInUse else
  Ok (set_traits d (filter (fun x => negb (x =? t)) (traits d))).

(* ---------------------------------------------------------------- generations *)
(* ResourceProvider.increment_generation: UPDATE .. SET generation=g+1 WHERE uuid=u AND generation=g; rowcount must be 1 *)
Fixpoint cas_rp_l (l : list rp) (u g : Z) : option (list rp) :=
  match l with
  | [] => None
  | r :: l' =>
      if rp_uuid r =? u then
        if rp_gen r =? g then Some (mkRp (rp_uuid r) (rp_name r) (g + 1) (rp_parent r) (rp_root r) :: l') else None
      else match cas_rp_l l' u g with Some l'' => Some (r :: l'') | None => None end
  end.
Definition incr_rp_gen (d : db) (u g : Z) : result db :=
  match cas_rp_l (rps d) u g with Some l => Ok (set_rps d l) | None => Err ERpConcurrent end.

Fixpoint cas_cons_l (l : list consumer) (u g : Z) : option (list consumer) :=
  match l with
  | [] => None
  | c :: l' =>
      if c_uuid c =? u then
        if c_gen c =? g then Some (mkCons (c_uuid c) (c_proj c) (c_user c) (c_type c) (g + 1) :: l') else None
      else match cas_cons_l l' u g with Some l'' => Some (c :: l'') | None => None end
  end.
Definition incr_cons_gen (d : db) (u g : Z) : result db :=
  match cas_cons_l (consumers d) u g with Some l => Ok (set_consumers d l) | None => Err EConcurrent end.

(* ---------------------------------------------------------------- inventories *)
Record inv_in := mkInvIn { ii_rc : Z; ii_total : Z; ii_reserved : Z; ii_min : Z; ii_max : Z;
                           ii_step : Z; ii_rm : Z; ii_re : Z }.
Definition to_inv (u : Z) (x : inv_in) : inv :=
  mkInv u (ii_rc x) (ii_total x) (ii_reserved x) (ii_min x) (ii_max x) (ii_step x) (ii_rm x) (ii_re x).

Definition rcs_of (u : Z) (d : db) : list Z := map i_rc (filter (fun i => i_rp i =? u) (invs d)).
Definition has_alloc_on (d : db) (u rc : Z) : bool :=
  existsb (fun a => (a_rp a =? u) && (a_rc a =? rc)) (allocs d).

(* _delete_inventory_from_provider: InventoryInUse if any class to delete has allocations *)
Definition delete_inventory_from_provider (d : db) (u : Z) (to_del : list Z) : result db :=
  if existsb (has_alloc_on d u) to_del then Err EInventoryInUse
  else Ok (set_invs d (filter (fun i => negb ((i_rp i =? u) && memZ (i_rc i) to_del)) (invs d))).

Definition add_inventory_to_provider (d : db) (u : Z) (l : list inv_in) : db :=
  set_invs d (invs d ++ map (to_inv u) l).

Fixpoint replace_inv (l : list inv) (n : inv) : list inv :=
  match l with
  | [] => []
  | i :: l' => if (i_rp i =? i_rp n) && (i_rc i =? i_rc n) then n :: l' else i :: replace_inv l' n
  end.
(* _update_inventory_for_provider: UPDATE per class, rowcount 0 -> InventoryWithResourceClassNotFound *)
Fixpoint update_inventory_for_provider (d : db) (u : Z) (l : list inv_in) : result db :=
  match l with
  | [] => Ok d
  | x :: l' =>
      match find_inv d u (ii_rc x) with
      | None => Err EInvRcNotFound
      | Some _ => update_inventory_for_provider (set_invs d (replace_inv (invs d) (to_inv u x))) u l'
      end
  end.

(* _set_inventory *)
Definition set_inventory (d : db) (u g : Z) (l : list inv_in) : result db :=
  if negb (forallb (fun x => rc_exists d (ii_rc x)) l) then Err ERcNotFound else
  let existing := rcs_of u d in
  let these := map ii_rc l in
  let to_add := filter (fun x => negb (memZ (ii_rc x) existing)) l in
  let to_del := filter (fun rc => negb (memZ rc these)) existing in
  let to_upd := filter (fun x => memZ (ii_rc x) existing) l in
  do d1 <- delete_inventory_from_provider d u to_del;
  let d2 := add_inventory_to_provider d1 u to_add in
  do d3 <- update_inventory_for_provider d2 u to_upd;
  incr_rp_gen d3 u g.

(* _add_inventory *)
Definition add_inventory (d : db) (u g : Z) (x : inv_in) : result db :=
  if negb (rc_exists d (ii_rc x)) then Err ERcNotFound else
  match find_inv d u (ii_rc x) with
  | Some _ => Err EDuplicate
  | None => incr_rp_gen (add_inventory_to_provider d u [x]) u g
  end.

(* _update_inventory *)
Definition update_inventory (d : db) (u g : Z) (x : inv_in) : result db :=
  if negb (rc_exists d (ii_rc x)) then Err ERcNotFound else
  do d1 <- update_inventory_for_provider d u [x];
  incr_rp_gen d1 u g.

(* _delete_inventory *)
Definition delete_inventory (d : db) (u g rc : Z) : result db :=
  if negb (rc_exists d rc) then Err ERcNotFound else
  do d1 <- delete_inventory_from_provider d u [rc];
  match find_inv d u rc with
  | None => Err ENotFound
  | Some _ => incr_rp_gen d1 u g
  end.

(* ---------------------------------------------------------------- traits / aggregates *)
Definition traits_of (d : db) (u : Z) : list Z := map snd (filter (fun x => fst x =? u) (rp_traits d)).
(* _set_traits: early return (no generation change) when nothing to add or delete *)
Definition set_traits_txn (d : db) (u g : Z) (want : list Z) : result db :=
  let existing := traits_of d u in
  let to_add := filter (fun t => negb (memZ t existing)) want in
  let to_del := filter (fun t => negb (memZ t want)) existing in
  match to_add, to_del with
  | [], [] => Ok d
  | _, _ =>
      let kept := filter (fun x => negb ((fst x =? u) && memZ (snd x) to_del)) (rp_traits d) in
      incr_rp_gen (set_rp_traits d (kept ++ map (fun t => (u, t)) to_add)) u g
  end.

Definition aggs_of (d : db) (u : Z) : list Z := map snd (filter (fun x => fst x =? u) (rp_aggs d)).
(* _set_aggregates *)
Definition set_aggregates_txn (d : db) (u g : Z) (want : list Z) (incr : bool) : result db :=
  let existing := aggs_of d u in
  let to_add := filter (fun a => negb (memZ a existing)) want in
  let new_aggs := filter (fun a => negb (memZ a (aggs d))) to_add in
  let kept := filter (fun x => negb ((fst x =? u) && negb (memZ (snd x) want))) (rp_aggs d) in
  let d1 := set_rp_aggs (set_aggs d (aggs d ++ new_aggs)) (kept ++ map (fun a => (u, a)) to_add) in
  if incr then incr_rp_gen d1 u g else Ok d1.

(* ---------------------------------------------------------------- providers *)
Definition name_taken (d : db) (name : Z) (except : Z) : bool :=
  existsb (fun r => (rp_name r =? name) && negb (rp_uuid r =? except)) (rps d).

(* ResourceProvider._create_in_db *)
Definition rp_create (d : db) (u name : Z) (parent : option Z) : result db :=
  do root <- match parent with
             | None => Ok u
             | Some p => if p =? u then Err EObjAction
                         else match find_rp d p with None => Err EObjAction | Some pr => Ok (rp_root pr) end
             end;
  if existsb (fun r => (rp_uuid r =? u) || (rp_name r =? name)) (rps d) then Err EDuplicate
  else Ok (set_rps d (rps d ++ [mkRp u name 0 parent root])).

(* get_subtree: providers of the same tree reachable from u through parent links (DFS on fuel) *)
Fixpoint subtree (fuel : nat) (l : list rp) (root u : Z) : list Z :=
  match fuel with
  | O => [u]
  | S f =>
      u :: flat_map (fun c => subtree f l root (rp_uuid c))
             (filter (fun c => (rp_root c =? root) && oeqb (rp_parent c) (Some u)) l)
  end.

Definition set_roots (l : list rp) (sub : list Z) (root : Z) : list rp :=
  map (fun r => if memZ (rp_uuid r) sub then mkRp (rp_uuid r) (rp_name r) (rp_gen r) (rp_parent r) root else r) l.

(* ResourceProvider._update_in_db; new_parent is the object's parent_provider_uuid after the handler's setattr *)
Definition rp_update (d : db) (me : rp) (name : Z) (new_parent : option Z) (allow_reparent : bool) : result db :=
  let u := rp_uuid me in
  do upd <-
    match new_parent with
    | Some p =>
        match find_rp d p with
        | None => Err EObjAction
        | Some pr =>
            if match rp_parent me with Some q => negb (q =? p) && negb allow_reparent | None => false end
            then Err EObjAction
            else
              let sub := subtree (length (rps d)) (rps d) (rp_root me) u in
              if memZ p sub then Err EObjAction
              else Ok (Some (Some p, rp_root pr, sub))
        end
    | None =>
        match rp_parent me with
        | Some _ => if negb allow_reparent then Err EObjAction
                    else Ok (Some (None, u, subtree (length (rps d)) (rps d) (rp_root me) u))
        | None => Ok None
        end
    end;
  if name_taken d name u then Err EDuplicate else
  let l1 := match upd with
            | Some (par, root, sub) =>
                set_roots (map (fun r => if rp_uuid r =? u
                                         then mkRp u (rp_name r) (rp_gen r) par (rp_root r) else r) (rps d)) sub root
            | None => rps d
            end in
  Ok (set_rps d (map (fun r => if rp_uuid r =? u then mkRp u name (rp_gen r) (rp_parent r) (rp_root r) else r) l1)).

(* ResourceProvider._delete *)
Definition rp_delete (d : db) (u : Z) : result db :=
  if existsb (fun r => oeqb (rp_parent r) (Some u)) (rps d) then Err EHasChildren else
  if existsb (fun a => a_rp a =? u) (allocs d) then Err ERpInUse else
  match find_rp d u with
  | None => Err ENotFound
  | Some _ =>
      Ok (set_rp_traits (set_rp_aggs (set_invs (set_rps d (filter (fun r => negb (rp_uuid r =? u)) (rps d)))
            (filter (fun i => negb (i_rp i =? u)) (invs d)))
            (filter (fun x => negb (fst x =? u)) (rp_aggs d)))
            (filter (fun x => negb (fst x =? u)) (rp_traits d)))
  end.

(* ---------------------------------------------------------------- allocations *)
(* An Allocation object as built by the handlers: consumer (uuid, generation held by the Python
   object), provider (uuid, generation held by the Python object), class, amount (0 = remove). *)
Record areq := mkAreq { q_cons : Z; q_cgen : Z; q_rp : Z; q_rpgen : Z; q_rc : Z; q_amt : Z }.

(* the running per-(provider, class) sum of _check_capacity_exceeded *)
Fixpoint sum_prefix (seen : list areq) (u rc : Z) : Z :=
  match seen with
  | [] => 0
  | a :: l => (if (q_rp a =? u) && (q_rc a =? rc) then q_amt a else 0) + sum_prefix l u rc
  end.

(* the loop of _check_capacity_exceeded; seen = entries already processed (most recent first) *)
Fixpoint check_loop (d : db) (seen : list areq) (l : list areq) : result unit :=
  match l with
  | [] => Ok tt
  | a :: l' =>
      let seen' := a :: seen in
      if q_amt a =? 0 then check_loop d seen' l' else
      match find_inv d (q_rp a) (q_rc a) with
      | None => Err EInvalidInventory
      | Some i =>
          if (q_amt a <? i_min i) || (i_max i <? q_amt a) || negb (q_amt a mod i_step i =? 0)
          then Err EInvalidInventory
          else
            let used := usage d (q_rp a) (q_rc a) in
            if (cap_floor i <? used + q_amt a) || (cap_floor i <? used + sum_prefix seen' (q_rp a) (q_rc a))
            then Err EInvalidInventory
            else check_loop d seen' l'
      end
  end.

(* _check_capacity_exceeded *)
Definition check_capacity (d : db) (l : list areq) : result unit :=
  if negb (forallb (fun a => rc_exists d (q_rc a)) l) then Err ERcNotFound else
  let rc_ids := map q_rc l in
  (* providers without any inventory row among the requested classes *)
  if existsb (fun a => negb (existsb (fun i => (i_rp i =? q_rp a) && memZ (i_rc i) rc_ids) (invs d))) l
  then Err EInvalidInventory
  else check_loop d [] l.

(* delete_consumers_if_no_allocations *)
Definition delete_consumers_if_no_allocations (d : db) (cs : list Z) : db :=
  set_consumers d (filter (fun c => negb (memZ (c_uuid c) cs && negb (existsb (fun a => a_cons a =? c_uuid c) (allocs d))))
                          (consumers d)).

Fixpoint cas_rps (d : db) (l : list (Z * Z)) : result db :=
  match l with
  | [] => Ok d
  | (u, g) :: l' => do d1 <- incr_rp_gen d u g; cas_rps d1 l'
  end.
Fixpoint cas_conss (d : db) (l : list (Z * Z)) : result db :=
  match l with
  | [] => Ok d
  | (u, g) :: l' => do d1 <- incr_cons_gen d u g; cas_conss d1 l'
  end.

(* first Python object seen per key, with the generation it holds *)
Fixpoint first_by (seen : list Z) (l : list (Z * Z)) : list (Z * Z) :=
  match l with
  | [] => []
  | (k, g) :: l' => if memZ k seen then first_by seen l' else (k, g) :: first_by (k :: seen) l'
  end.

(* _set_allocations *)
Definition set_allocations (d : db) (l : list areq) : result db :=
  let cons_ids := map q_cons l in
  let d1 := set_allocs d (filter (fun a => negb (memZ (a_cons a) cons_ids)) (allocs d)) in
  do _ <- check_capacity d1 l;
  let d2 := set_allocs d1 (allocs d1 ++ map (fun a => mkAlloc (q_cons a) (q_rp a) (q_rc a) (q_amt a))
                                          (filter (fun a => negb (q_amt a =? 0)) l)) in
  do d3 <- cas_rps d2 (first_by [] (map (fun a => (q_rp a, q_rpgen a)) l));
  do d4 <- cas_conss d3 (first_by [] (map (fun a => (q_cons a, q_cgen a)) l));
  let with_allocs := map q_cons (filter (fun a => 0 <? q_amt a) l) in
  let to_check := filter (fun c => negb (memZ c with_allocs)) (dedup cons_ids) in
  Ok (delete_consumers_if_no_allocations d4 to_check).

(* Consumer.update: UPDATE consumers SET project, user, type WHERE uuid AND generation = g *)
Definition consumer_update (d : db) (c g proj user : Z) (ty : option Z) : db :=
  set_consumers d (map (fun x => if (c_uuid x =? c) && (c_gen x =? g)
                                 then mkCons c proj user ty (c_gen x) else x) (consumers d)).
