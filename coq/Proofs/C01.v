From PV Require Import Proofs.Defs.

(* ================================================================ basics *)
Lemma memZ_In x l : memZ x l = true <-> In x l.
Proof.
  unfold memZ. rewrite existsb_exists. split.
  - intros [y [Hy E]]. apply Z.eqb_eq in E. subst. exact Hy.
  - intros H. exists x. split; [exact H|apply Z.eqb_refl].
Qed.

Lemma memZ_false x l : memZ x l = false <-> ~ In x l.
Proof. rewrite <- memZ_In. destruct (memZ x l); intuition congruence. Qed.

Lemma nodupb_map_inj {A} (f : A -> Z) l x y :
  nodupb (map f l) = true -> In x l -> In y l -> f x = f y -> x = y.
Proof.
  induction l as [|a l IH]; cbn [map nodupb]; intros H Hx Hy E; [contradiction|].
  apply andb_true_iff in H. destruct H as [H1 H2].
  apply negb_true_iff in H1. apply memZ_false in H1.
  destruct Hx as [Hx|Hx], Hy as [Hy|Hy].
  - congruence.
  - exfalso. apply H1. subst a. rewrite E. apply in_map. exact Hy.
  - exfalso. apply H1. subst a. rewrite <- E. apply in_map. exact Hx.
  - apply IH; assumption.
Qed.

(* ================================================================ frames *)
Definition same_ia (d d' : db) : Prop := invs d' = invs d /\ allocs d' = allocs d.

Lemma same_ia_refl d : same_ia d d.
Proof. split; reflexivity. Qed.
Lemma same_ia_trans a b c : same_ia a b -> same_ia b c -> same_ia a c.
Proof. intros [H1 H2] [H3 H4]. split; congruence. Qed.

Lemma incr_rp_gen_frame d u g d' : incr_rp_gen d u g = Ok d' -> same_ia d d'.
Proof. unfold incr_rp_gen. destruct (cas_rp_l (rps d) u g); intros [= <-]. split; reflexivity. Qed.

Lemma incr_cons_gen_frame d u g d' : incr_cons_gen d u g = Ok d' -> same_ia d d'.
Proof. unfold incr_cons_gen. destruct (cas_cons_l (consumers d) u g); intros [= <-]. split; reflexivity. Qed.

Lemma cas_rps_frame l : forall d d', cas_rps d l = Ok d' -> same_ia d d'.
Proof.
  induction l as [|[u g] l IH]; intros d d'; cbn [cas_rps].
  - intros [= <-]. apply same_ia_refl.
  - unfold bind. destruct (incr_rp_gen d u g) eqn:E; [|discriminate]. intros H.
    eapply same_ia_trans; [eapply incr_rp_gen_frame; exact E|apply IH; exact H].
Qed.

Lemma cas_conss_frame l : forall d d', cas_conss d l = Ok d' -> same_ia d d'.
Proof.
  induction l as [|[u g] l IH]; intros d d'; cbn [cas_conss].
  - intros [= <-]. apply same_ia_refl.
  - unfold bind. destruct (incr_cons_gen d u g) eqn:E; [|discriminate]. intros H.
    eapply same_ia_trans; [eapply incr_cons_gen_frame; exact E|apply IH; exact H].
Qed.

Lemma dcina_frame d cs : same_ia d (delete_consumers_if_no_allocations d cs).
Proof. split; reflexivity. Qed.

Lemma update_consumer_frame d k : same_ia d (update_consumer d k).
Proof. unfold update_consumer. destruct (_ || _); split; reflexivity. Qed.

Lemma fold_update_consumer_frame ks : forall d, same_ia d (fold_left update_consumer ks d).
Proof.
  induction ks as [|k ks IH]; intros d; cbn [fold_left]; [apply same_ia_refl|].
  eapply same_ia_trans; [apply update_consumer_frame|apply IH].
Qed.

Lemma delete_created_frame d ks : same_ia d (delete_created d ks).
Proof. split; reflexivity. Qed.

Lemma ensure_consumer_frame cf v d c d1 o : ensure_consumer cf v d c = (d1, o) -> same_ia d d1.
Proof.
  unfold ensure_consumer. destruct (38 <=? v); intros H;
  repeat match type of H with context [match ?x with _ => _ end] => destruct x end;
  inversion H; split; reflexivity.
Qed.

Lemma inspect_consumers_frame cf v l : forall d acc d1 o,
  inspect_consumers cf v d acc l = (d1, o) -> same_ia d d1.
Proof.
  induction l as [|c l IH]; intros d acc d1 o; cbn [inspect_consumers].
  - intros [= <- _]. apply same_ia_refl.
  - destruct (ensure_consumer cf v d c) as [d2 [k|]] eqn:E; apply ensure_consumer_frame in E.
    + intros H. eapply same_ia_trans; [exact E|eapply IH; exact H].
    + intros [= <- _]. eapply same_ia_trans; [exact E|apply delete_created_frame].
Qed.

Lemma inspect_consumers_len cf v l : forall d acc d1 ks,
  inspect_consumers cf v d acc l = (d1, Some ks) -> length ks = (length acc + length l)%nat.
Proof.
  induction l as [|c l IH]; intros d acc d1 ks; cbn [inspect_consumers].
  - intros [= _ <-]. rewrite rev_length. cbn. lia.
  - destruct (ensure_consumer cf v d c) as [d2 [k|]]; [|discriminate].
    intros H. apply IH in H. cbn [length] in *. lia.
Qed.

(* ================================================================ usage / sums *)
Lemma usage_l_app l1 l2 u rc : usage_l (l1 ++ l2) u rc = usage_l l1 u rc + usage_l l2 u rc.
Proof. induction l1 as [|a l1 IH]; cbn [app usage_l]; [lia|]. destruct (_ && _); lia. Qed.

Definition mk_alloc (a : areq) : alloc := mkAlloc (q_cons a) (q_rp a) (q_rc a) (q_amt a).

Lemma usage_l_new l u rc :
  usage_l (map mk_alloc (filter (fun a => negb (q_amt a =? 0)) l)) u rc = sum_prefix l u rc.
Proof.
  induction l as [|a l IH]; cbn [filter map usage_l sum_prefix]; [reflexivity|].
  destruct (q_amt a =? 0) eqn:E0; cbn [negb map usage_l mk_alloc a_rp a_rc a_used].
  - apply Z.eqb_eq in E0. rewrite E0, IH. destruct (_ && _); lia.
  - rewrite IH. destruct (_ && _); lia.
Qed.

Lemma usage_l_filter_le p l u rc :
  (forall a, In a l -> 0 < a_used a) -> usage_l (filter p l) u rc <= usage_l l u rc.
Proof.
  induction l as [|a l IH]; intros H; cbn [filter usage_l]; [lia|].
  assert (0 < a_used a) by (apply H; left; reflexivity).
  assert (usage_l (filter p l) u rc <= usage_l l u rc) by (apply IH; intros; apply H; right; assumption).
  destruct (p a); cbn [usage_l]; destruct (_ && _); lia.
Qed.

Lemma usage_l_nonneg l u rc : (forall a, In a l -> 0 < a_used a) -> 0 <= usage_l l u rc.
Proof.
  induction l as [|a l IH]; intros H; cbn [usage_l]; [lia|].
  assert (0 < a_used a) by (apply H; left; reflexivity).
  assert (0 <= usage_l l u rc) by (apply IH; intros; apply H; right; assumption).
  destruct (_ && _); lia.
Qed.

(* ================================================================ the capacity loop *)
Definition nonneg (l : list areq) : Prop := forall a, In a l -> 0 <= q_amt a.
Definition posat (u rc : Z) (a : areq) : bool := (q_rp a =? u) && (q_rc a =? rc) && (0 <? q_amt a).

Lemma check_loop_tail d seen a l : check_loop d seen (a :: l) = Ok tt -> check_loop d (a :: seen) l = Ok tt.
Proof.
  cbn [check_loop]. destruct (q_amt a =? 0); [auto|].
  destruct (find_inv d (q_rp a) (q_rc a)); [|discriminate].
  destruct (_ || _ || _); [discriminate|]. destruct (_ || _); [discriminate|auto].
Qed.

Lemma check_loop_units d : forall l seen, check_loop d seen l = Ok tt ->
  forall a, In a l -> q_amt a <> 0 ->
    exists i, find_inv d (q_rp a) (q_rc a) = Some i /\
              i_min i <= q_amt a <= i_max i /\ q_amt a mod i_step i = 0.
Proof.
  induction l as [|b l IH]; intros seen Hc a Hin Hnz; [destruct Hin|].
  destruct Hin as [->|Hin].
  - cbn [check_loop] in Hc. destruct (q_amt a =? 0) eqn:E0; [apply Z.eqb_eq in E0; contradiction|].
    destruct (find_inv d (q_rp a) (q_rc a)) as [i|]; [|discriminate].
    destruct ((q_amt a <? i_min i) || (i_max i <? q_amt a) || negb (q_amt a mod i_step i =? 0)) eqn:E; [discriminate|].
    apply orb_false_iff in E. destruct E as [E E3]. apply orb_false_iff in E. destruct E as [E1 E2].
    apply Z.ltb_ge in E1. apply Z.ltb_ge in E2. apply negb_false_iff in E3. apply Z.eqb_eq in E3.
    exists i. repeat split; assumption.
  - apply (IH (b :: seen)); [apply check_loop_tail; exact Hc|exact Hin|exact Hnz].
Qed.

Lemma sum_prefix_zero u rc l : nonneg l -> existsb (posat u rc) l = false -> sum_prefix l u rc = 0.
Proof.
  induction l as [|a l IH]; intros Hnn Ex; cbn [sum_prefix]; [reflexivity|].
  cbn [existsb] in Ex. apply orb_false_iff in Ex. destruct Ex as [E1 E2].
  rewrite IH; [|intros x Hx; apply Hnn; right; exact Hx|exact E2].
  assert (0 <= q_amt a) by (apply Hnn; left; reflexivity).
  unfold posat in E1. destruct ((q_rp a =? u) && (q_rc a =? rc)); [|reflexivity].
  cbn [andb] in E1. apply Z.ltb_ge in E1. lia.
Qed.

Lemma check_loop_bound d u rc : forall l seen, nonneg l -> check_loop d seen l = Ok tt ->
  existsb (posat u rc) l = true ->
  exists i, find_inv d u rc = Some i /\
            usage d u rc + sum_prefix seen u rc + sum_prefix l u rc <= cap_floor i.
Proof.
  induction l as [|a l IH]; intros seen Hnn Hc Ex; [discriminate|].
  assert (Hnn' : nonneg l) by (intros x Hx; apply Hnn; right; exact Hx).
  destruct (existsb (posat u rc) l) eqn:Ex'.
  - destruct (IH (a :: seen) Hnn' (check_loop_tail _ _ _ _ Hc) eq_refl) as [i [Hi Hb]].
    exists i. split; [exact Hi|]. cbn [sum_prefix] in *. lia.
  - cbn [existsb] in Ex. rewrite Ex', orb_false_r in Ex. unfold posat in Ex.
    apply andb_true_iff in Ex. destruct Ex as [Ex Hpos]. apply andb_true_iff in Ex. destruct Ex as [Eu Erc].
    apply Z.ltb_lt in Hpos.
    cbn [sum_prefix]. rewrite (sum_prefix_zero u rc l Hnn' Ex').
    cbn [check_loop] in Hc. destruct (q_amt a =? 0) eqn:E0; [apply Z.eqb_eq in E0; lia|].
    rewrite Eu, Erc. cbn [andb].
    apply Z.eqb_eq in Eu. apply Z.eqb_eq in Erc. subst u rc.
    destruct (find_inv d (q_rp a) (q_rc a)) as [i|]; [|discriminate].
    destruct (_ || _ || _); [discriminate|].
    destruct ((cap_floor i <? usage d (q_rp a) (q_rc a) + q_amt a)
              || (cap_floor i <? usage d (q_rp a) (q_rc a) + sum_prefix (a :: seen) (q_rp a) (q_rc a))) eqn:Ec; [discriminate|].
    apply orb_false_iff in Ec. destruct Ec as [_ Ec]. apply Z.ltb_ge in Ec.
    cbn [sum_prefix] in Ec. rewrite !Z.eqb_refl in Ec. cbn [andb] in Ec.
    exists i. split; [reflexivity|]. lia.
Qed.

(* ================================================================ set_allocations *)
Definition purge (d : db) (l : list areq) : db :=
  set_allocs d (filter (fun a => negb (memZ (a_cons a) (map q_cons l))) (allocs d)).

Lemma set_allocations_inv d l d' : set_allocations d l = Ok d' ->
  check_loop (purge d l) [] l = Ok tt /\ invs d' = invs d /\
  allocs d' = allocs (purge d l) ++ map mk_alloc (filter (fun a => negb (q_amt a =? 0)) l).
Proof.
  unfold set_allocations. fold (purge d l). unfold bind.
  destruct (check_capacity (purge d l) l) as [[]|] eqn:Hc; [|discriminate].
  match goal with |- context [cas_rps ?x ?y] => destruct (cas_rps x y) as [d3|] eqn:E1; [|discriminate] end.
  match goal with |- context [cas_conss ?x ?y] => destruct (cas_conss x y) as [d4|] eqn:E2; [|discriminate] end.
  intros [= <-]. apply cas_rps_frame in E1. apply cas_conss_frame in E2.
  destruct E1 as [I1 A1], E2 as [I2 A2].
  split; [|split].
  - unfold check_capacity in Hc. destruct (negb _); [discriminate|]. destruct (existsb _ l); [discriminate|exact Hc].
  - cbn [delete_consumers_if_no_allocations set_consumers invs]. rewrite I2, I1. reflexivity.
  - cbn [delete_consumers_if_no_allocations set_consumers allocs]. rewrite A2, A1. reflexivity.
Qed.

Lemma set_allocations_usage d l d' u rc : set_allocations d l = Ok d' ->
  usage d' u rc = usage (purge d l) u rc + sum_prefix l u rc.
Proof.
  intros H. apply set_allocations_inv in H. destruct H as [_ [_ HA]].
  unfold usage. rewrite HA, usage_l_app, usage_l_new. reflexivity.
Qed.

Lemma find_inv_same d d' u rc : invs d' = invs d -> find_inv d' u rc = find_inv d u rc.
Proof. unfold find_inv. intros ->. reflexivity. Qed.
Lemma usage_same d d' u rc : allocs d' = allocs d -> usage d' u rc = usage d u rc.
Proof. unfold usage. intros ->. reflexivity. Qed.

(* accepted entries respect the inventory they were checked against *)
Lemma set_allocations_ok d l d' a : set_allocations d l = Ok d' -> nonneg l -> In a l -> 0 < q_amt a ->
  exists i, find_inv d (q_rp a) (q_rc a) = Some i /\
            i_min i <= q_amt a <= i_max i /\ q_amt a mod i_step i = 0 /\
            usage d' (q_rp a) (q_rc a) <= cap_floor i.
Proof.
  intros H Hnn Hin Hpos.
  rewrite (set_allocations_usage _ _ _ _ _ H).
  apply set_allocations_inv in H. destruct H as [Hc _].
  destruct (check_loop_units _ _ _ Hc a Hin ltac:(lia)) as [i [Hi [Hm Hs]]].
  destruct (check_loop_bound (purge d l) (q_rp a) (q_rc a) l [] Hnn Hc) as [i' [Hi' Hb]].
  { apply existsb_exists. exists a. split; [exact Hin|]. unfold posat.
    rewrite !Z.eqb_refl. cbn [andb]. apply Z.ltb_lt. exact Hpos. }
  rewrite Hi in Hi'. injection Hi' as <-.
  exists i. split; [exact Hi|]. split; [exact Hm|]. split; [exact Hs|].
  cbn [sum_prefix] in Hb. lia.
Qed.

Lemma set_allocations_pos d l d' : allocs_pos d -> nonneg l -> set_allocations d l = Ok d' -> allocs_pos d'.
Proof.
  intros Hp Hnn H. apply set_allocations_inv in H. destruct H as [_ [_ HA]].
  intros a Ha. rewrite HA in Ha. apply in_app_or in Ha. destruct Ha as [Ha|Ha].
  - cbn [purge set_allocs allocs] in Ha. apply filter_In in Ha. apply Hp. tauto.
  - apply in_map_iff in Ha. destruct Ha as [q [<- Hq]]. apply filter_In in Hq. destruct Hq as [Hq Hnz].
    apply negb_true_iff in Hnz. apply Z.eqb_neq in Hnz. specialize (Hnn q Hq). cbn. lia.
Qed.

Lemma set_allocations_over d l d' u rc : allocs_pos d -> nonneg l -> set_allocations d l = Ok d' ->
  overcommitted d' u rc -> overcommitted d u rc /\ usage d' u rc <= usage d u rc.
Proof.
  intros Hp Hnn H [i [Hi Hov]].
  pose proof (set_allocations_inv _ _ _ H) as [_ [HI _]].
  rewrite (find_inv_same _ _ _ _ HI) in Hi.
  destruct (existsb (posat u rc) l) eqn:Ex.
  - exfalso. apply existsb_exists in Ex. destruct Ex as [a [Hin Ha]]. unfold posat in Ha.
    apply andb_true_iff in Ha. destruct Ha as [Ha Hpos]. apply andb_true_iff in Ha. destruct Ha as [Eu Erc].
    apply Z.eqb_eq in Eu. apply Z.eqb_eq in Erc. apply Z.ltb_lt in Hpos. subst u rc.
    destruct (set_allocations_ok _ _ _ a H Hnn Hin Hpos) as [i' [Hi' [_ [_ Hb]]]].
    rewrite Hi in Hi'. injection Hi' as <-. lia.
  - assert (Hle : usage d' u rc <= usage d u rc).
    { rewrite (set_allocations_usage _ _ _ _ _ H), (sum_prefix_zero u rc l Hnn Ex).
      unfold usage, purge. cbn [set_allocs allocs].
      pose proof (usage_l_filter_le (fun a => negb (memZ (a_cons a) (map q_cons l))) (allocs d) u rc Hp). lia. }
    split; [|exact Hle]. exists i. split; [exact Hi|lia].
Qed.
(* ================================================================ areq lists built by the handlers *)
Lemma wipe_list_zero d c q : In q (wipe_list d c) -> q_amt q = 0.
Proof.
  unfold wipe_list. destruct (find_cons d c); [|contradiction]. intros H.
  apply in_flat_map in H. destruct H as [a [_ H]].
  destruct (a_cons a =? c); [|contradiction]. destruct (find_rp d (a_rp a)); [|contradiction].
  destruct H as [<-|[]]. reflexivity.
Qed.

Lemma new_allocs_amt d k : forall l objs, forallb alloc_in_wf l = true -> new_allocs d k l = Some objs ->
  forall q, In q objs -> 1 <= q_amt q.
Proof.
  induction l as [|a l IH]; intros objs Hwf; cbn [new_allocs].
  - intros [= <-] q [].
  - cbn [forallb] in Hwf. apply andb_true_iff in Hwf. destruct Hwf as [Ha Hl].
    destruct (find_rp d (ai_rp a)) as [r|]; [|discriminate].
    destruct (new_allocs d k l) as [rest|]; [|discriminate].
    intros [= <-] q Hq. apply in_app_or in Hq. destruct Hq as [Hq|Hq].
    + apply in_map_iff in Hq. destruct Hq as [x [<- Hx]]. cbn [q_amt].
      unfold alloc_in_wf in Ha. apply andb_true_iff in Ha. destruct Ha as [Ha _].
      apply andb_true_iff in Ha. destruct Ha as [Ha _].
      rewrite forallb_forall in Ha. apply Ha in Hx. apply Z.leb_le in Hx. exact Hx.
    + eapply IH; eauto.
Qed.

Lemma new_allocs_placed d k : forall l objs, new_allocs d k l = Some objs ->
  forall a rc amt, In a l -> In (rc, amt) (ai_res a) ->
  exists q, In q objs /\ q_rp q = ai_rp a /\ q_rc q = rc /\ q_amt q = amt.
Proof.
  induction l as [|b l IH]; intros objs; cbn [new_allocs].
  - intros _ a rc amt [].
  - destruct (find_rp d (ai_rp b)) as [r|]; [|discriminate].
    destruct (new_allocs d k l) as [rest|]; [|discriminate].
    intros [= <-] a rc amt [->|Hin] Hx.
    + eexists. split; [apply in_or_app; left; apply in_map; exact Hx|]. cbn. auto.
    + destruct (IH rest eq_refl a rc amt Hin Hx) as [q [Hq H]].
      exists q. split; [apply in_or_app; right; exact Hq|exact H].
Qed.

Lemma alloc_objs_nonneg d k l objs : forallb alloc_in_wf l = true -> alloc_objs d k l = Some objs -> nonneg objs.
Proof.
  intros Hwf H q Hq. destruct l as [|a l].
  - cbn in H. injection H as <-. apply wipe_list_zero in Hq. lia.
  - change (new_allocs d k (a :: l) = Some objs) in H.
    pose proof (new_allocs_amt _ _ _ _ Hwf H q Hq). lia.
Qed.

Lemma alloc_objs_placed d k l objs : alloc_objs d k l = Some objs ->
  forall a rc amt, In a l -> In (rc, amt) (ai_res a) ->
  exists q, In q objs /\ q_rp q = ai_rp a /\ q_rc q = rc /\ q_amt q = amt.
Proof.
  intros H a rc amt Hin. destruct l as [|b l]; [destruct Hin|].
  change (new_allocs d k (b :: l) = Some objs) in H. eapply new_allocs_placed; eauto.
Qed.

Lemma alloc_list_nonneg d : forall ks l objs, forallb cons_in_wf l = true -> alloc_list d ks l = Some objs -> nonneg objs.
Proof.
  induction ks as [|k ks IH]; intros l objs Hwf; cbn [alloc_list].
  - intros [= <-] q [].
  - destruct l as [|c l]; [intros [= <-] q []|].
    cbn [forallb] in Hwf. apply andb_true_iff in Hwf. destruct Hwf as [Hc Hl].
    destruct (alloc_objs d k (ci_allocs c)) as [a|] eqn:Ea; [|discriminate].
    destruct (alloc_list d ks l) as [b|] eqn:Eb; [|discriminate].
    intros [= <-] q Hq. apply in_app_or in Hq. destruct Hq as [Hq|Hq].
    + unfold cons_in_wf in Hc. apply andb_true_iff in Hc. destruct Hc as [Hc _].
      eapply alloc_objs_nonneg; eauto.
    + eapply IH; eauto.
Qed.

Definition has_entry (objs : list areq) (u rc amt : Z) : Prop :=
  exists q, In q objs /\ q_rp q = u /\ q_rc q = rc /\ q_amt q = amt.

Lemma alloc_list_placed d : forall ks l objs, length ks = length l -> alloc_list d ks l = Some objs ->
  forall u rc amt, placed_in l u rc amt -> has_entry objs u rc amt.
Proof.
  induction ks as [|k ks IH]; intros l objs Hlen; destruct l as [|c l]; try discriminate; cbn [alloc_list].
  - intros _ u rc amt [c [a [[] _]]].
  - destruct (alloc_objs d k (ci_allocs c)) as [a|] eqn:Ea; [|discriminate].
    destruct (alloc_list d ks l) as [b|] eqn:Eb; [|discriminate].
    intros [= <-] u rc amt [c0 [a0 [Hc0 [Ha0 [Hu Hx]]]]]. destruct Hc0 as [<-|Hc0].
    + destruct (alloc_objs_placed _ _ _ _ Ea a0 rc amt Ha0 Hx) as [q [Hq [H1 H2]]].
      exists q. split; [apply in_or_app; left; exact Hq|]. split; [congruence|exact H2].
    + cbn [length] in Hlen. injection Hlen as Hlen.
      destruct (IH l b Hlen Eb u rc amt) as [q [Hq H]].
      { exists c0, a0. auto. }
      exists q. split; [apply in_or_app; right; exact Hq|exact H].
Qed.

Lemma placed_in_pos l u rc amt : forallb cons_in_wf l = true -> placed_in l u rc amt -> 0 < amt.
Proof.
  intros Hwf [c [a [Hc [Ha [_ Hx]]]]].
  rewrite forallb_forall in Hwf. apply Hwf in Hc. unfold cons_in_wf in Hc.
  apply andb_true_iff in Hc. destruct Hc as [Hc _]. rewrite forallb_forall in Hc. apply Hc in Ha.
  unfold alloc_in_wf in Ha. apply andb_true_iff in Ha. destruct Ha as [Ha _].
  apply andb_true_iff in Ha. destruct Ha as [Ha _].
  rewrite forallb_forall in Ha. apply Ha in Hx. cbn [snd] in Hx. apply Z.leb_le in Hx. lia.
Qed.

(* ================================================================ allocation writes, abstractly *)
Definition alloc_write (d d' : db) (P : Z -> Z -> Z -> Prop) : Prop :=
  exists dA objs d2, same_ia d dA /\ set_allocations dA objs = Ok d2 /\ same_ia d2 d' /\ nonneg objs /\
                     forall u rc amt, P u rc amt -> has_entry objs u rc amt.

Lemma alloc_write_accepted d d' P u rc amt : alloc_write d d' P -> P u rc amt -> 0 < amt ->
  exists i, find_inv d' u rc = Some i /\ i_min i <= amt <= i_max i /\ amt mod i_step i = 0 /\
            usage d' u rc <= cap_floor i.
Proof.
  intros [dA [objs [d2 [_ [Hs [[I2 A2] [Hnn HP]]]]]]] Hp Hpos.
  destruct (HP u rc amt Hp) as [q [Hq [<- [<- <-]]]].
  destruct (set_allocations_ok _ _ _ q Hs Hnn Hq Hpos) as [i [Hi H]].
  apply set_allocations_inv in Hs. destruct Hs as [_ [I1 _]].
  exists i. rewrite (find_inv_same _ _ _ _ I2), (find_inv_same _ _ _ _ I1), (usage_same _ _ _ _ A2).
  split; [exact Hi|exact H].
Qed.

Lemma allocs_pos_same d d' : allocs d' = allocs d -> allocs_pos d -> allocs_pos d'.
Proof. unfold allocs_pos. intros ->. auto. Qed.

Lemma over_same d d' u rc : same_ia d d' -> overcommitted d' u rc ->
  overcommitted d u rc /\ usage d' u rc <= usage d u rc.
Proof.
  intros [I A] [i [Hi Ho]]. rewrite (find_inv_same _ _ _ _ I) in Hi. rewrite (usage_same _ _ _ _ A) in *.
  split; [exists i; auto|lia].
Qed.

Lemma alloc_write_pos d d' P : alloc_write d d' P -> allocs_pos d -> allocs_pos d'.
Proof.
  intros [dA [objs [d2 [[_ A0] [Hs [[_ A2] [Hnn _]]]]]]] Hp.
  apply (allocs_pos_same d2 d' A2). eapply set_allocations_pos; [|exact Hnn|exact Hs].
  apply (allocs_pos_same d dA A0 Hp).
Qed.

Lemma alloc_write_over d d' P u rc : alloc_write d d' P -> allocs_pos d -> overcommitted d' u rc ->
  overcommitted d u rc /\ usage d' u rc <= usage d u rc.
Proof.
  intros [dA [objs [d2 [H0 [Hs [H2 [Hnn _]]]]]]] Hp Ho.
  destruct (over_same _ _ _ _ H2 Ho) as [Ho2 Hu2].
  destruct (set_allocations_over dA objs d2 u rc (allocs_pos_same d dA (proj2 H0) Hp) Hnn Hs Ho2) as [HoA HuA].
  destruct (over_same _ _ _ _ H0 HoA) as [Ho0 Hu0].
  split; [exact Ho0|lia].
Qed.

Lemma alloc_err_status e : 400 <= status (alloc_err e).
Proof. destruct e; cbn; lia. Qed.

Lemma h_alloc_put_cases cf d v c d' rs : h_alloc_put cf d v c = (d', rs) -> cons_in_wf c = true ->
  (same_ia d d' /\ 400 <= status rs) \/ alloc_write d d' (placed_in [c]).
Proof.
  unfold h_alloc_put. intros H Hwf.
  destruct (ensure_consumer cf v d c) as [d1 [k|]] eqn:E; apply ensure_consumer_frame in E.
  - destruct (alloc_objs d1 k (ci_allocs c)) as [objs|] eqn:Eo.
    + destruct (set_allocations (update_consumer d1 k) objs) as [d2|e] eqn:Es; injection H as <- <-.
      * right. exists (update_consumer d1 k), objs, d2.
        split; [eapply same_ia_trans; [exact E|apply update_consumer_frame]|].
        split; [exact Es|]. split; [apply delete_created_frame|].
        unfold cons_in_wf in Hwf. apply andb_true_iff in Hwf. destruct Hwf as [Hwf _].
        split; [eapply alloc_objs_nonneg; eauto|].
        intros u rc amt [c0 [a [[<-|[]] [Ha [Hu Hx]]]]].
        destruct (alloc_objs_placed _ _ _ _ Eo a rc amt Ha Hx) as [q [Hq [H1 H2]]].
        exists q. split; [exact Hq|]. split; [congruence|exact H2].
      * left. split; [eapply same_ia_trans; [exact E|apply delete_created_frame]|apply alloc_err_status].
    + injection H as <- <-. left. split; [eapply same_ia_trans; [exact E|apply delete_created_frame]|cbn; lia].
  - injection H as <- <-. left. split; [exact E|cbn; lia].
Qed.

Lemma h_alloc_post_cases cf d v l d' rs : h_alloc_post cf d v l = (d', rs) -> cons_list_wf l = true ->
  (same_ia d d' /\ 400 <= status rs) \/ alloc_write d d' (placed_in l).
Proof.
  unfold h_alloc_post. intros H Hwf.
  destruct (v <? 13); [injection H as <- <-; left; split; [apply same_ia_refl|cbn; lia]|].
  destruct (inspect_consumers cf v d [] l) as [d1 [ks|]] eqn:E.
  - pose proof (inspect_consumers_len _ _ _ _ _ _ _ E) as Hlen. cbn [length] in Hlen.
    apply inspect_consumers_frame in E.
    destruct (alloc_list d1 ks l) as [objs|] eqn:Eo.
    + destruct (set_allocations (fold_left update_consumer ks d1) objs) as [d2|e] eqn:Es; injection H as <- <-.
      * right. exists (fold_left update_consumer ks d1), objs, d2.
        split; [eapply same_ia_trans; [exact E|apply fold_update_consumer_frame]|].
        split; [exact Es|]. split; [apply delete_created_frame|].
        unfold cons_list_wf in Hwf. apply andb_true_iff in Hwf. destruct Hwf as [Hwf _].
        split; [eapply alloc_list_nonneg; eauto|].
        eapply alloc_list_placed; eauto.
      * left. split; [eapply same_ia_trans; [exact E|apply delete_created_frame]|apply alloc_err_status].
    + injection H as <- <-. left. split; [eapply same_ia_trans; [exact E|apply delete_created_frame]|cbn; lia].
  - apply inspect_consumers_frame in E. injection H as <- <-. left. split; [exact E|cbn; lia].
Qed.

(* ================================================================ inventory rows: first matches *)
Lemma key_false a b u rc : u <> a \/ rc <> b -> (a =? u) && (b =? rc) = false.
Proof. intros H. apply andb_false_iff. destruct H; [left|right]; apply Z.eqb_neq; congruence. Qed.

Lemma find_inv_l_in l u rc i : find_inv_l l u rc = Some i -> In i l /\ i_rp i = u /\ i_rc i = rc.
Proof.
  induction l as [|j l IH]; cbn [find_inv_l]; [discriminate|].
  destruct ((i_rp j =? u) && (i_rc j =? rc)) eqn:E.
  - intros [= <-]. apply andb_true_iff in E. destruct E as [E1 E2].
    apply Z.eqb_eq in E1. apply Z.eqb_eq in E2. split; [left; reflexivity|auto].
  - intros H. apply IH in H. destruct H as [H1 H2]. split; [right; exact H1|exact H2].
Qed.

Lemma find_inv_l_app l1 l2 u rc :
  find_inv_l (l1 ++ l2) u rc = match find_inv_l l1 u rc with Some i => Some i | None => find_inv_l l2 u rc end.
Proof. induction l1 as [|j l1 IH]; cbn [app find_inv_l]; [reflexivity|]. destruct (_ && _); [reflexivity|exact IH]. Qed.

Lemma find_inv_l_filter p l u rc :
  (forall i, In i l -> i_rp i = u -> i_rc i = rc -> p i = true) ->
  find_inv_l (filter p l) u rc = find_inv_l l u rc.
Proof.
  induction l as [|j l IH]; intros H; cbn [filter find_inv_l]; [reflexivity|].
  assert (IH' : find_inv_l (filter p l) u rc = find_inv_l l u rc) by (apply IH; intros; apply H; auto; right; assumption).
  destruct ((i_rp j =? u) && (i_rc j =? rc)) eqn:E.
  - apply andb_true_iff in E. destruct E as [E1 E2]. apply Z.eqb_eq in E1. apply Z.eqb_eq in E2.
    rewrite (H j (or_introl eq_refl) E1 E2). cbn [find_inv_l]. rewrite E1, E2, !Z.eqb_refl. reflexivity.
  - destruct (p j); [cbn [find_inv_l]; rewrite E|]; exact IH'.
Qed.

Lemma find_inv_l_map_other u l u' rc : u' <> u -> find_inv_l (map (to_inv u) l) u' rc = None.
Proof.
  intros Hne. induction l as [|x l IH]; cbn [map find_inv_l]; [reflexivity|].
  cbn [to_inv i_rp i_rc]. rewrite key_false; [exact IH|left; exact Hne].
Qed.

Lemma find_inv_l_map_none u l rc : ~ In rc (map ii_rc l) -> find_inv_l (map (to_inv u) l) u rc = None.
Proof.
  induction l as [|x l IH]; cbn [map find_inv_l]; intros H; [reflexivity|].
  cbn [to_inv i_rp i_rc]. rewrite key_false; [apply IH; intros H'; apply H; right; exact H'|].
  right. intros ->. apply H. left. reflexivity.
Qed.

Lemma find_inv_l_map_hit u l x :
  In x l -> (forall y, In y l -> ii_rc y = ii_rc x -> y = x) ->
  find_inv_l (map (to_inv u) l) u (ii_rc x) = Some (to_inv u x).
Proof.
  induction l as [|y l IH]; intros Hin Hu; [destruct Hin|].
  cbn [map find_inv_l]. cbn [to_inv i_rp i_rc]. rewrite Z.eqb_refl. cbn [andb].
  destruct (ii_rc y =? ii_rc x) eqn:E.
  - apply Z.eqb_eq in E. rewrite (Hu y (or_introl eq_refl) E). reflexivity.
  - destruct Hin as [->|Hin]; [rewrite Z.eqb_refl in E; discriminate|].
    apply IH; [exact Hin|intros z Hz; apply Hu; right; exact Hz].
Qed.

Lemma replace_inv_other l n u rc : u <> i_rp n \/ rc <> i_rc n ->
  find_inv_l (replace_inv l n) u rc = find_inv_l l u rc.
Proof.
  intros Hne. induction l as [|i l IH]; cbn [replace_inv find_inv_l]; [reflexivity|].
  destruct ((i_rp i =? i_rp n) && (i_rc i =? i_rc n)) eqn:E; cbn [find_inv_l].
  - apply andb_true_iff in E. destruct E as [E1 E2]. apply Z.eqb_eq in E1. apply Z.eqb_eq in E2.
    rewrite (key_false (i_rp n) (i_rc n) u rc Hne). rewrite E1, E2, (key_false (i_rp n) (i_rc n) u rc Hne). reflexivity.
  - rewrite IH. reflexivity.
Qed.

Lemma replace_inv_same l n : find_inv_l l (i_rp n) (i_rc n) <> None ->
  find_inv_l (replace_inv l n) (i_rp n) (i_rc n) = Some n.
Proof.
  induction l as [|i l IH]; cbn [replace_inv find_inv_l]; [congruence|].
  destruct ((i_rp i =? i_rp n) && (i_rc i =? i_rc n)) eqn:E; cbn [find_inv_l].
  - intros _. rewrite !Z.eqb_refl. reflexivity.
  - rewrite E. exact IH.
Qed.

Lemma rcs_of_find d u rc i : find_inv d u rc = Some i -> In rc (rcs_of u d).
Proof.
  unfold find_inv, rcs_of. intros H. apply find_inv_l_in in H. destruct H as [Hin [Hu Hrc]].
  apply in_map_iff. exists i. split; [exact Hrc|]. apply filter_In. split; [exact Hin|apply Z.eqb_eq; exact Hu].
Qed.

(* ================================================================ inventory transactions *)
Lemma upd_frame u : forall l d d', update_inventory_for_provider d u l = Ok d' ->
  allocs d' = allocs d /\
  forall u' rc, u' <> u \/ ~ In rc (map ii_rc l) -> find_inv d' u' rc = find_inv d u' rc.
Proof.
  induction l as [|x l IH]; intros d d'; cbn [update_inventory_for_provider].
  - intros [= <-]. auto.
  - destruct (find_inv d u (ii_rc x)); [|discriminate]. intros H. apply IH in H. destruct H as [HA HF].
    split; [rewrite HA; reflexivity|]. intros u' rc Hne. rewrite HF.
    + unfold find_inv. cbn [set_invs invs]. apply replace_inv_other. cbn [to_inv i_rp i_rc].
      destruct Hne as [Hne|Hne]; [left; exact Hne|right; intros ->; apply Hne; left; reflexivity].
    + destruct Hne as [Hne|Hne]; [left; exact Hne|right; intros H'; apply Hne; right; exact H'].
Qed.

Lemma upd_hit u x : forall l d d',
  (forall y, In y l -> ii_rc y = ii_rc x -> y = x) ->
  In x l \/ find_inv d u (ii_rc x) = Some (to_inv u x) ->
  update_inventory_for_provider d u l = Ok d' -> find_inv d' u (ii_rc x) = Some (to_inv u x).
Proof.
  induction l as [|y l IH]; intros d d' Hu Hor; cbn [update_inventory_for_provider].
  - intros [= <-]. destruct Hor as [[]|H]; exact H.
  - destruct (find_inv d u (ii_rc y)) as [i0|] eqn:Ey; [|discriminate]. intros H.
    eapply IH; [intros z Hz; apply Hu; right; exact Hz| |exact H].
    destruct (Z.eq_dec (ii_rc y) (ii_rc x)) as [E|E].
    + right. rewrite (Hu y (or_introl eq_refl) E) in *. unfold find_inv. cbn [set_invs invs].
      apply (replace_inv_same (invs d) (to_inv u x)). cbn [to_inv i_rp i_rc].
      unfold find_inv in Ey. rewrite Ey. discriminate.
    + destruct Hor as [[->|Hin]|Hf]; [congruence|left; exact Hin|right].
      unfold find_inv. cbn [set_invs invs]. rewrite replace_inv_other; [exact Hf|].
      cbn [to_inv i_rp i_rc]. right. congruence.
Qed.

Definition si_add d u (l : list inv_in) := filter (fun x => negb (memZ (ii_rc x) (rcs_of u d))) l.
Definition si_del d u (l : list inv_in) := filter (fun rc => negb (memZ rc (map ii_rc l))) (rcs_of u d).
Definition si_upd d u (l : list inv_in) := filter (fun x => memZ (ii_rc x) (rcs_of u d)) l.

Lemma set_inventory_inv d u g l d' : set_inventory d u g l = Ok d' ->
  exists d1 d3, delete_inventory_from_provider d u (si_del d u l) = Ok d1 /\
                update_inventory_for_provider (add_inventory_to_provider d1 u (si_add d u l)) u (si_upd d u l) = Ok d3 /\
                same_ia d3 d'.
Proof.
  unfold set_inventory. destruct (negb _); [discriminate|].
  fold (si_add d u l) (si_del d u l) (si_upd d u l). unfold bind.
  destruct (delete_inventory_from_provider d u (si_del d u l)) as [d1|]; [|discriminate].
  destruct (update_inventory_for_provider _ u (si_upd d u l)) as [d3|] eqn:E3; [|discriminate].
  intros H. exists d1, d3. split; [reflexivity|]. split; [exact E3|]. eapply incr_rp_gen_frame; exact H.
Qed.

Lemma del_inv_frame d u td d1 : delete_inventory_from_provider d u td = Ok d1 ->
  allocs d1 = allocs d /\
  forall u' rc, u' <> u \/ ~ In rc td -> find_inv d1 u' rc = find_inv d u' rc.
Proof.
  unfold delete_inventory_from_provider. destruct (existsb _ td); [discriminate|]. intros [= <-].
  split; [reflexivity|]. intros u' rc Hne. unfold find_inv. cbn [set_invs invs].
  apply find_inv_l_filter. intros i _ Hu Hrc. apply negb_true_iff. apply andb_false_iff.
  destruct Hne as [Hne|Hne]; [left; apply Z.eqb_neq; congruence|right; apply memZ_false; congruence].
Qed.

Lemma set_inventory_allocs d u g l d' : set_inventory d u g l = Ok d' -> allocs d' = allocs d.
Proof.
  intros H. apply set_inventory_inv in H. destruct H as [d1 [d3 [H1 [H3 [_ HA]]]]].
  apply del_inv_frame in H1. apply upd_frame in H3. destruct H1 as [A1 _], H3 as [A3 _].
  rewrite HA, A3. cbn [add_inventory_to_provider set_invs allocs]. exact A1.
Qed.

Lemma set_inventory_other d u g l d' u' rc : set_inventory d u g l = Ok d' -> u' <> u ->
  find_inv d' u' rc = find_inv d u' rc.
Proof.
  intros H Hne. apply set_inventory_inv in H. destruct H as [d1 [d3 [H1 [H3 [HI _]]]]].
  apply del_inv_frame in H1. apply upd_frame in H3. destruct H1 as [_ F1], H3 as [_ F3].
  rewrite (find_inv_same _ _ _ _ HI), F3 by (left; exact Hne).
  unfold find_inv at 1. cbn [add_inventory_to_provider set_invs invs].
  rewrite find_inv_l_app, find_inv_l_map_other by exact Hne.
  fold (find_inv d1 u' rc). rewrite F1 by (left; exact Hne). destruct (find_inv d u' rc); reflexivity.
Qed.

Lemma set_inventory_need d u g l d' rc i : set_inventory d u g l = Ok d' ->
  find_inv d u rc = Some i -> has_alloc_on d u rc = true -> In rc (map ii_rc l).
Proof.
  intros H Hi Ha. apply set_inventory_inv in H. destruct H as [d1 [d3 [H1 _]]].
  destruct (memZ rc (map ii_rc l)) eqn:M; [apply memZ_In; exact M|exfalso].
  unfold delete_inventory_from_provider in H1.
  assert (E : existsb (has_alloc_on d u) (si_del d u l) = true).
  { apply existsb_exists. exists rc. split; [|exact Ha]. unfold si_del. apply filter_In.
    split; [eapply rcs_of_find; exact Hi|rewrite M; reflexivity]. }
  rewrite E in H1. discriminate.
Qed.

Lemma set_inventory_new d u g l d' x : set_inventory d u g l = Ok d' ->
  In x l -> (forall y, In y l -> ii_rc y = ii_rc x -> y = x) ->
  find_inv d' u (ii_rc x) = Some (to_inv u x).
Proof.
  intros H Hin Hu. apply set_inventory_inv in H. destruct H as [d1 [d3 [H1 [H3 [HI _]]]]].
  rewrite (find_inv_same _ _ _ _ HI).
  eapply upd_hit; [| |exact H3].
  - intros y Hy. apply Hu. unfold si_upd in Hy. apply filter_In in Hy. tauto.
  - destruct (memZ (ii_rc x) (rcs_of u d)) eqn:M.
    + left. unfold si_upd. apply filter_In. auto.
    + right. apply del_inv_frame in H1. destruct H1 as [_ F1].
      unfold find_inv. cbn [add_inventory_to_provider set_invs invs]. rewrite find_inv_l_app.
      fold (find_inv d1 u (ii_rc x)). rewrite F1.
      2:{ right. unfold si_del. intros H'. apply filter_In in H'. destruct H' as [_ H'].
          apply negb_true_iff in H'. apply memZ_false in H'. apply H'. apply in_map. exact Hin. }
      destruct (find_inv d u (ii_rc x)) as [i|] eqn:Ei.
      { apply rcs_of_find in Ei. apply memZ_In in Ei. congruence. }
      apply find_inv_l_map_hit.
      * unfold si_add. apply filter_In. rewrite M. auto.
      * intros y Hy. apply Hu. unfold si_add in Hy. apply filter_In in Hy. tauto.
Qed.

(* ================================================================ reshaper *)
Lemma find_new_spec (new : list inv_in) x : In x new -> nodupb (map ii_rc new) = true ->
  find (fun y => ii_rc y =? ii_rc x) new = Some x.
Proof.
  intros Hin Hnd. destruct (find (fun y => ii_rc y =? ii_rc x) new) as [n|] eqn:E.
  - apply find_some in E. destruct E as [Hn E]. apply Z.eqb_eq in E.
    rewrite (nodupb_map_inj ii_rc new n x Hnd Hn Hin E). reflexivity.
  - pose proof (find_none _ _ E x Hin) as H. cbn in H. rewrite Z.eqb_refl in H. discriminate.
Qed.

Lemma interim_uniq d u new x : In x new -> nodupb (map ii_rc new) = true ->
  forall y, In y (interim_inv d u new) -> ii_rc y = ii_rc x -> y = x.
Proof.
  intros Hin Hnd y Hy E. unfold interim_inv in Hy. cbv zeta in Hy.
  apply in_app_or in Hy. destruct Hy as [Hy|Hy].
  - apply in_map_iff in Hy. destruct Hy as [e [He _]].
    destruct (find (fun x0 => ii_rc x0 =? ii_rc e) new) as [n|] eqn:Ef.
    + subst y. apply find_some in Ef. destruct Ef as [Hn _].
      apply (nodupb_map_inj ii_rc new n x Hnd Hn Hin E).
    + subst y. pose proof (find_none _ _ Ef x Hin) as H. cbn in H. rewrite E, Z.eqb_refl in H. discriminate.
  - apply filter_In in Hy. destruct Hy as [Hy _]. apply (nodupb_map_inj ii_rc new y x Hnd Hy Hin E).
Qed.

Lemma interim_in d u new x : In x new -> nodupb (map ii_rc new) = true -> In x (interim_inv d u new).
Proof.
  intros Hin Hnd. unfold interim_inv. cbv zeta. apply in_or_app.
  destruct (memZ (ii_rc x) (map ii_rc (map inv_to_in (filter (fun i => i_rp i =? u) (invs d))))) eqn:M.
  - left. apply memZ_In in M. apply in_map_iff in M. destruct M as [e [He Hine]].
    apply in_map_iff. exists e. split; [|exact Hine]. rewrite He, (find_new_spec new x Hin Hnd). reflexivity.
  - right. apply filter_In. split; [exact Hin|rewrite M; reflexivity].
Qed.

Lemma nodupb_notin (l : list Z) x : nodupb (x :: l) = true -> ~ In x l /\ nodupb l = true.
Proof.
  cbn [nodupb]. intros H. apply andb_true_iff in H. destruct H as [H1 H2].
  apply negb_true_iff in H1. apply memZ_false in H1. auto.
Qed.

Lemma reshape_interim_props : forall l d d' gens, reshape_interim d l = Ok (d', gens) ->
  allocs d' = allocs d /\ length gens = length l /\
  (forall u rc, ~ In u (map ri_rp l) -> find_inv d' u rc = find_inv d u rc).
Proof.
  induction l as [|r l IH]; intros d d' gens; cbn [reshape_interim].
  - intros [= <- <-]. auto.
  - destruct (ri_invs r) eqn:Er; rewrite <- ?Er; unfold bind.
    + destruct (reshape_interim d l) as [[d2 g2]|] eqn:E; [|discriminate]. intros [= <- <-]. cbn [fst snd].
      apply IH in E. destruct E as [A [L F]]. split; [exact A|]. split; [cbn [length]; congruence|].
      intros u rc Hn. apply F. intros H. apply Hn. right. exact H.
    + destruct (set_inventory d (ri_rp r) (ri_gen r) (interim_inv d (ri_rp r) (ri_invs r))) as [d1|] eqn:Es; [|discriminate].
      destruct (reshape_interim d1 l) as [[d2 g2]|] eqn:E; [|discriminate]. intros [= <- <-]. cbn [fst snd].
      apply IH in E. destruct E as [A [L F]].
      split; [rewrite A; eapply set_inventory_allocs; exact Es|]. split; [cbn [length]; congruence|].
      intros u rc Hn. rewrite F by (intros H; apply Hn; right; exact H).
      eapply set_inventory_other; [exact Es|]. intros ->. apply Hn. left. reflexivity.
Qed.

Lemma reshape_interim_hit : forall l d d' gens r x, reshape_interim d l = Ok (d', gens) ->
  nodupb (map ri_rp l) = true -> In r l -> In x (ri_invs r) -> nodupb (map ii_rc (ri_invs r)) = true ->
  find_inv d' (ri_rp r) (ii_rc x) = Some (to_inv (ri_rp r) x).
Proof.
  induction l as [|r0 l IH]; intros d d' gens r x H Hnd Hr Hx Hndx; [destruct Hr|].
  cbn [map] in Hnd. apply nodupb_notin in Hnd. destruct Hnd as [Hni Hnd].
  cbn [reshape_interim] in H. destruct Hr as [->|Hr].
  - destruct (ri_invs r) eqn:Er; [destruct Hx|]. rewrite <- Er in *. unfold bind in H.
    destruct (set_inventory d (ri_rp r) (ri_gen r) (interim_inv d (ri_rp r) (ri_invs r))) as [d1|] eqn:Es; [|discriminate].
    destruct (reshape_interim d1 l) as [[d2 g2]|] eqn:E; [|discriminate]. injection H as <- <-. cbn [fst].
    apply reshape_interim_props in E. destruct E as [_ [_ F]]. rewrite F by exact Hni.
    eapply set_inventory_new; [exact Es|apply interim_in; assumption|apply interim_uniq; assumption].
  - assert (Hne : ri_rp r <> ri_rp r0) by (intros E; apply Hni; rewrite <- E; apply in_map; exact Hr).
    destruct (ri_invs r0) eqn:Er0; rewrite <- ?Er0 in H; unfold bind in H.
    + destruct (reshape_interim d l) as [[d2 g2]|] eqn:E; [|discriminate]. injection H as <- <-. cbn [fst].
      eapply IH; eauto.
    + destruct (set_inventory d (ri_rp r0) (ri_gen r0) _) as [d1|] eqn:Es; [|discriminate].
      destruct (reshape_interim d1 l) as [[d2 g2]|] eqn:E; [|discriminate]. injection H as <- <-. cbn [fst].
      eapply IH; eauto.
Qed.

Lemma reshape_final_props : forall l gens d d', reshape_final d l gens = Ok d' ->
  allocs d' = allocs d /\ (forall u rc, ~ In u (map ri_rp l) -> find_inv d' u rc = find_inv d u rc).
Proof.
  induction l as [|r l IH]; intros gens d d'; cbn [reshape_final].
  - intros [= <-]. auto.
  - destruct gens as [|[u0 g] gens]; [intros [= <-]; auto|]. unfold bind.
    destruct (set_inventory d (ri_rp r) g (ri_invs r)) as [d1|] eqn:Es; [|discriminate]. intros H.
    apply IH in H. destruct H as [A F]. split; [rewrite A; eapply set_inventory_allocs; exact Es|].
    intros u rc Hn. rewrite F by (intros H; apply Hn; right; exact H).
    eapply set_inventory_other; [exact Es|]. intros ->. apply Hn. left. reflexivity.
Qed.

Lemma has_alloc_on_same d d' u rc : allocs d' = allocs d -> has_alloc_on d' u rc = has_alloc_on d u rc.
Proof. unfold has_alloc_on. intros ->. reflexivity. Qed.

Lemma reshape_final_hit : forall l gens d d' r rc i, length gens = length l ->
  nodupb (map ri_rp l) = true -> In r l -> nodupb (map ii_rc (ri_invs r)) = true ->
  has_alloc_on d (ri_rp r) rc = true -> find_inv d (ri_rp r) rc = Some i ->
  reshape_final d l gens = Ok d' ->
  exists x, In x (ri_invs r) /\ ii_rc x = rc /\ find_inv d' (ri_rp r) rc = Some (to_inv (ri_rp r) x).
Proof.
  induction l as [|r0 l IH]; intros gens d d' r rc i Hlen Hnd Hr Hndx Ha Hi H; [destruct Hr|].
  destruct gens as [|[u0 g] gens]; [discriminate|]. cbn [length] in Hlen. injection Hlen as Hlen.
  cbn [map] in Hnd. apply nodupb_notin in Hnd. destruct Hnd as [Hni Hnd].
  cbn [reshape_final] in H. unfold bind in H.
  destruct (set_inventory d (ri_rp r0) g (ri_invs r0)) as [d1|] eqn:Es; [|discriminate].
  destruct Hr as [->|Hr].
  - pose proof (set_inventory_need _ _ _ _ _ _ _ Es Hi Ha) as Hin.
    apply in_map_iff in Hin. destruct Hin as [x [Hx Hinx]]. exists x. split; [exact Hinx|]. split; [exact Hx|].
    apply reshape_final_props in H. destruct H as [_ F]. rewrite F by exact Hni. subst rc.
    eapply set_inventory_new; [exact Es|exact Hinx|].
    intros y Hy E. apply (nodupb_map_inj ii_rc (ri_invs r) y x Hndx Hy Hinx E).
  - assert (Hne : ri_rp r <> ri_rp r0) by (intros E; apply Hni; rewrite <- E; apply in_map; exact Hr).
    eapply (IH gens d1 d' r rc i); try eassumption.
    + rewrite (has_alloc_on_same d d1); [exact Ha|eapply set_inventory_allocs; exact Es].
    + rewrite (set_inventory_other _ _ _ _ _ _ _ Es Hne). exact Hi.
Qed.

Definition regen (gens : list (Z * Z)) (a : areq) : areq :=
  match lookup_gen gens (q_rp a) with
  | Some g => mkAreq (q_cons a) (q_cgen a) (q_rp a) g (q_rc a) (q_amt a)
  | None => a
  end.

Lemma regen_fields gens a :
  q_rp (regen gens a) = q_rp a /\ q_rc (regen gens a) = q_rc a /\ q_amt (regen gens a) = q_amt a.
Proof. unfold regen. destruct (lookup_gen gens (q_rp a)); cbn; auto. Qed.

Lemma reshape_txn_inv d ri objs d2 : reshape_txn d ri objs = Ok d2 ->
  exists dB gens dC gens', reshape_interim d ri = Ok (dB, gens) /\
    set_allocations dB (map (regen gens) objs) = Ok dC /\
    reshape_final dC ri gens' = Ok d2 /\ length gens' = length gens.
Proof.
  unfold reshape_txn, bind. destruct (reshape_interim d ri) as [[dB gens]|] eqn:E; [|discriminate].
  fold (regen gens). destruct (set_allocations dB (map (regen gens) objs)) as [dC|] eqn:Es; [|discriminate].
  intros H. exists dB, gens, dC. eexists. split; [reflexivity|]. split; [exact Es|]. split; [exact H|].
  apply map_length.
Qed.

Definition reshape_write (d d' : db) (ri : list rinv_in) (P : Z -> Z -> Z -> Prop) : Prop :=
  exists dA objs d2, same_ia d dA /\ reshape_txn dA ri objs = Ok d2 /\ same_ia d2 d' /\ nonneg objs /\
                     forall u rc amt, P u rc amt -> has_entry objs u rc amt.

Lemma nonneg_regen gens objs : nonneg objs -> nonneg (map (regen gens) objs).
Proof.
  intros H q Hq. apply in_map_iff in Hq. destruct Hq as [q0 [<- Hq0]].
  destruct (regen_fields gens q0) as [_ [_ ->]]. apply H. exact Hq0.
Qed.

Lemma reshape_write_pos d d' ri P : reshape_write d d' ri P -> allocs_pos d -> allocs_pos d'.
Proof.
  intros [dA [objs [d2 [[_ A0] [Ht [[_ A2] [Hnn _]]]]]]] Hp.
  apply reshape_txn_inv in Ht. destruct Ht as [dB [gens [dC [gens' [Hi [Hs [Hf _]]]]]]].
  apply reshape_interim_props in Hi. destruct Hi as [AB _].
  apply reshape_final_props in Hf. destruct Hf as [AF _].
  apply (allocs_pos_same d2 d' A2). apply (allocs_pos_same dC d2 AF).
  eapply set_allocations_pos; [|apply nonneg_regen; exact Hnn|exact Hs].
  apply (allocs_pos_same dA dB AB). apply (allocs_pos_same d dA A0 Hp).
Qed.

Lemma reshape_write_over d d' ri P u rc : reshape_write d d' ri P -> allocs_pos d ->
  ~ In u (map ri_rp ri) -> overcommitted d' u rc ->
  overcommitted d u rc /\ usage d' u rc <= usage d u rc.
Proof.
  intros [dA [objs [d2 [H0 [Ht [H2 [Hnn _]]]]]]] Hp Hni Ho.
  apply reshape_txn_inv in Ht. destruct Ht as [dB [gens [dC [gens' [Hi [Hs [Hf _]]]]]]].
  apply reshape_interim_props in Hi. destruct Hi as [AB [_ FB]].
  apply reshape_final_props in Hf. destruct Hf as [AF FF].
  destruct (over_same _ _ _ _ H2 Ho) as [[i [Hi2 Hc2]] Hu2].
  rewrite (FF u rc Hni) in Hi2. rewrite (usage_same _ _ _ _ AF) in *.
  assert (HoC : overcommitted dC u rc) by (exists i; auto).
  destruct (set_allocations_over dB _ dC u rc
              (allocs_pos_same dA dB AB (allocs_pos_same d dA (proj2 H0) Hp)) (nonneg_regen gens objs Hnn) Hs HoC)
    as [[j [Hj Hcj]] HuB].
  rewrite (FB u rc Hni) in Hj. rewrite (usage_same _ _ _ _ AB) in *.
  assert (HoA : overcommitted dA u rc) by (exists j; auto).
  destruct (over_same _ _ _ _ H0 HoA) as [Ho0 Hu0].
  split; [exact Ho0|lia].
Qed.

Definition ri_wf (ri : list rinv_in) : Prop :=
  forallb (fun r => inv_list_wf (ri_invs r)) ri = true /\ nodupb (map ri_rp ri) = true.

Lemma reshape_write_accepted d d' ri P u rc amt : reshape_write d d' ri P -> ri_wf ri ->
  P u rc amt -> 0 < amt ->
  exists i, find_inv d' u rc = Some i /\ i_min i <= amt <= i_max i /\ amt mod i_step i = 0 /\
            usage d' u rc <= cap_floor i.
Proof.
  intros [dA [objs [d2 [_ [Ht [[I2 A2] [Hnn HP]]]]]]] [Hwf Hnd] Hp Hpos.
  apply reshape_txn_inv in Ht. destruct Ht as [dB [gens [dC [gens' [Hi [Hs [Hf Hlen]]]]]]].
  pose proof (reshape_interim_props _ _ _ _ Hi) as [AB [LB FB]].
  pose proof (reshape_final_props _ _ _ _ Hf) as [AF FF].
  destruct (HP u rc amt Hp) as [q0 [Hq0 [Eu [Erc Eamt]]]].
  destruct (regen_fields gens q0) as [Ru [Rrc Ramt]].
  set (q := regen gens q0) in *.
  assert (Hq : In q (map (regen gens) objs)) by (apply in_map; exact Hq0).
  assert (Hposq : 0 < q_amt q) by lia.
  destruct (set_allocations_ok _ _ _ q Hs (nonneg_regen gens objs Hnn) Hq Hposq) as [i [HiB [Hm [Hst Hub]]]].
  rewrite Ru, Rrc, Ramt, Eu, Erc, Eamt in *.
  pose proof (set_allocations_inv _ _ _ Hs) as [_ [IC AC]].
  exists i. rewrite (find_inv_same _ _ _ _ I2), (usage_same _ _ _ _ A2), (usage_same _ _ _ _ AF).
  split; [|auto].
  destruct (memZ u (map ri_rp ri)) eqn:M.
  - apply memZ_In in M. apply in_map_iff in M. destruct M as [r [Hru Hr]].
    assert (Hndx : nodupb (map ii_rc (ri_invs r)) = true).
    { rewrite forallb_forall in Hwf. apply Hwf in Hr. unfold inv_list_wf in Hr.
      apply andb_true_iff in Hr. tauto. }
    assert (Ha : has_alloc_on dC u rc = true).
    { unfold has_alloc_on. rewrite AC. apply existsb_exists. exists (mk_alloc q). split.
      - apply in_or_app. right. apply in_map. apply filter_In. split; [exact Hq|].
        apply negb_true_iff. apply Z.eqb_neq. lia.
      - cbn [mk_alloc a_rp a_rc]. rewrite Ru, Rrc, !Z.eqb_refl. reflexivity. }
    assert (HiC : find_inv dC u rc = Some i) by (rewrite (find_inv_same _ _ _ _ IC); exact HiB).
    rewrite <- Hru in Ha, HiC, HiB |- *.
    destruct (reshape_final_hit ri gens' dC d2 r rc i ltac:(congruence) Hnd Hr Hndx Ha HiC Hf) as [x [Hx [Hxrc Hfx]]].
    rewrite <- Hxrc in HiB, Hfx |- *. rewrite Hfx.
    rewrite (reshape_interim_hit _ _ _ _ r x Hi Hnd Hr Hx Hndx) in HiB. exact HiB.
  - apply memZ_false in M. rewrite (FF u rc M), (find_inv_same _ _ _ _ IC). exact HiB.
Qed.

Lemma reshape_err_status e : 400 <= status (reshape_err e).
Proof. destruct e; cbn; lia. Qed.

Lemma h_reshape_cases cf d v ri al d' rs : h_reshape cf d v ri al = (d', rs) -> cons_list_wf al = true ->
  (same_ia d d' /\ 400 <= status rs) \/ (reshape_write d d' ri (placed_in al) /\ is_success rs).
Proof.
  unfold h_reshape. intros H Hwf.
  destruct (v <? 30); [injection H as <- <-; left; split; [apply same_ia_refl|cbn; lia]|].
  destruct (reshape_precheck d ri) as [r0|] eqn:Ep.
  { injection H as <- <-. left. split; [apply same_ia_refl|].
    clear - Ep. induction ri as [|r l IH]; cbn [reshape_precheck] in Ep; [discriminate|].
    destruct (find_rp d (ri_rp r)); [|injection Ep as <-; cbn; lia].
    destruct (negb _); [injection Ep as <-; cbn; lia|apply IH; exact Ep]. }
  destruct (inspect_consumers cf v d [] al) as [d1 [ks|]] eqn:E.
  - pose proof (inspect_consumers_len _ _ _ _ _ _ _ E) as Hlen. cbn [length] in Hlen.
    apply inspect_consumers_frame in E.
    destruct (alloc_list d1 ks al) as [objs|] eqn:Eo.
    + destruct (reshape_txn (fold_left update_consumer ks d1) ri objs) as [d2|e] eqn:Es; injection H as <- <-.
      * right. split; [|unfold is_success; cbn; lia]. exists (fold_left update_consumer ks d1), objs, d2.
        split; [eapply same_ia_trans; [exact E|apply fold_update_consumer_frame]|].
        split; [exact Es|]. split; [apply delete_created_frame|].
        unfold cons_list_wf in Hwf. apply andb_true_iff in Hwf. destruct Hwf as [Hwf _].
        split; [eapply alloc_list_nonneg; eauto|].
        eapply alloc_list_placed; eauto.
      * left. split; [eapply same_ia_trans; [exact E|apply delete_created_frame]|apply reshape_err_status].
    + injection H as <- <-. left. split; [eapply same_ia_trans; [exact E|apply delete_created_frame]|cbn; lia].
  - apply inspect_consumers_frame in E. injection H as <- <-. left. split; [exact E|cbn; lia].
Qed.

(* ================================================================ the other handlers *)
Ltac break_all H :=
  repeat match type of H with context [match ?x with _ => _ end] => destruct x eqn:? end.

Ltac txn_frame H :=
  break_all H; try discriminate;
  first [ injection H as <-; split; reflexivity
        | apply incr_rp_gen_frame in H; destruct H as [?I ?A]; split; [rewrite I|rewrite A]; reflexivity ].

Lemma rp_create_frame d u n p d' : rp_create d u n p = Ok d' -> same_ia d d'.
Proof. unfold rp_create, bind. intros H. txn_frame H. Qed.
Lemma rp_update_frame d me n np ar d' : rp_update d me n np ar = Ok d' -> same_ia d d'.
Proof. unfold rp_update, bind. intros H. txn_frame H. Qed.
Lemma set_traits_txn_frame d u g w d' : set_traits_txn d u g w = Ok d' -> same_ia d d'.
Proof. unfold set_traits_txn. intros H. txn_frame H. Qed.
Lemma set_aggregates_txn_frame d u g w b d' : set_aggregates_txn d u g w b = Ok d' -> same_ia d d'.
Proof. unfold set_aggregates_txn. intros H. txn_frame H. Qed.
Lemma rc_create_frame d n d' : rc_create d n = Ok d' -> same_ia d d'.
Proof. unfold rc_create. intros H. txn_frame H. Qed.
Lemma rc_destroy_frame d n d' : rc_destroy d n = Ok d' -> same_ia d d'.
Proof. unfold rc_destroy. intros H. txn_frame H. Qed.
Lemma rc_rename_frame d o n d' : rc_rename d o n = Ok d' -> same_ia d d'.
Proof. unfold rc_rename. intros H. txn_frame H. Qed.
Lemma trait_create_frame d t d' : trait_create d t = Ok d' -> same_ia d d'.
Proof. unfold trait_create. intros H. txn_frame H. Qed.
Lemma trait_destroy_frame d t d' : trait_destroy d t = Ok d' -> same_ia d d'.
Proof. unfold trait_destroy. intros H. txn_frame H. Qed.

Create HintDb frames.
#[local] Hint Resolve same_ia_refl rp_create_frame rp_update_frame set_traits_txn_frame set_aggregates_txn_frame
  rc_create_frame rc_destroy_frame rc_rename_frame trait_create_frame trait_destroy_frame : frames.

Ltac handler_frame H := break_all H; injection H as <- <-; eauto with frames.

Lemma h_rp_create_frame d v u n p d' rs : h_rp_create d v u n p = (d', rs) -> same_ia d d'.
Proof. unfold h_rp_create. intros H. handler_frame H. Qed.
Lemma h_rp_update_frame d v u n p d' rs : h_rp_update d v u n p = (d', rs) -> same_ia d d'.
Proof. unfold h_rp_update. intros H. handler_frame H. Qed.
Lemma h_traits_set_frame d v u g ts d' rs : h_traits_set d v u g ts = (d', rs) -> same_ia d d'.
Proof. unfold h_traits_set. intros H. handler_frame H. Qed.
Lemma h_traits_delete_frame d v u d' rs : h_traits_delete d v u = (d', rs) -> same_ia d d'.
Proof. unfold h_traits_delete. intros H. handler_frame H. Qed.
Lemma h_aggs_set_frame d v u g l d' rs : h_aggs_set d v u g l = (d', rs) -> same_ia d d'.
Proof. unfold h_aggs_set. intros H. handler_frame H. Qed.
Lemma h_rc_create_frame d v n d' rs : h_rc_create d v n = (d', rs) -> same_ia d d'.
Proof. unfold h_rc_create. intros H. handler_frame H. Qed.
Lemma h_rc_put_frame d v n d' rs : h_rc_put d v n = (d', rs) -> same_ia d d'.
Proof. unfold h_rc_put. intros H. handler_frame H. Qed.
Lemma h_rc_rename_frame d v o n d' rs : h_rc_rename d v o n = (d', rs) -> same_ia d d'.
Proof. unfold h_rc_rename, h_rc_put. intros H. handler_frame H. Qed.
Lemma h_rc_delete_frame d v n d' rs : h_rc_delete d v n = (d', rs) -> same_ia d d'.
Proof. unfold h_rc_delete. intros H. handler_frame H. Qed.
Lemma h_trait_put_frame d v t d' rs : h_trait_put d v t = (d', rs) -> same_ia d d'.
Proof. unfold h_trait_put. intros H. handler_frame H. Qed.
Lemma h_trait_delete_frame d v t d' rs : h_trait_delete d v t = (d', rs) -> same_ia d d'.
Proof. unfold h_trait_delete. intros H. handler_frame H. Qed.

(* inventory handlers: only the rows of the target provider change *)
Definition inv_frame (u : Z) (d d' : db) : Prop :=
  allocs d' = allocs d /\ forall u' rc, u' <> u -> find_inv d' u' rc = find_inv d u' rc.

Lemma set_inventory_frame d u g l d' : set_inventory d u g l = Ok d' -> inv_frame u d d'.
Proof.
  intros H. split; [eapply set_inventory_allocs; exact H|].
  intros u' rc Hne. eapply set_inventory_other; eauto.
Qed.

Lemma add_inventory_frame d u g x d' : add_inventory d u g x = Ok d' -> inv_frame u d d'.
Proof.
  unfold add_inventory. destruct (negb _); [discriminate|]. destruct (find_inv d u (ii_rc x)); [discriminate|].
  intros H. apply incr_rp_gen_frame in H. destruct H as [I A].
  split; [rewrite A; reflexivity|]. intros u' rc Hne. rewrite (find_inv_same _ _ _ _ I).
  unfold find_inv. cbn [add_inventory_to_provider set_invs invs].
  rewrite find_inv_l_app, find_inv_l_map_other by exact Hne. destruct (find_inv_l (invs d) u' rc); reflexivity.
Qed.

Lemma update_inventory_frame d u g x d' : update_inventory d u g x = Ok d' -> inv_frame u d d'.
Proof.
  unfold update_inventory, bind. destruct (negb _); [discriminate|].
  destruct (update_inventory_for_provider d u [x]) as [d1|] eqn:E; [|discriminate].
  intros H. apply incr_rp_gen_frame in H. destruct H as [I A]. apply upd_frame in E. destruct E as [A1 F1].
  split; [congruence|]. intros u' rc Hne. rewrite (find_inv_same _ _ _ _ I). apply F1. left. exact Hne.
Qed.

Lemma delete_inventory_frame d u g rc0 d' : delete_inventory d u g rc0 = Ok d' -> inv_frame u d d'.
Proof.
  unfold delete_inventory, bind. destruct (negb _); [discriminate|].
  destruct (delete_inventory_from_provider d u [rc0]) as [d1|] eqn:E; [|discriminate].
  destruct (find_inv d u rc0); [|discriminate].
  intros H. apply incr_rp_gen_frame in H. destruct H as [I A]. apply del_inv_frame in E. destruct E as [A1 F1].
  split; [congruence|]. intros u' rc Hne. rewrite (find_inv_same _ _ _ _ I). apply F1. left. exact Hne.
Qed.

Ltac inv_handler H lem :=
  break_all H; injection H as <- <-; try (left; apply same_ia_refl);
  right; split; [eapply lem; eassumption|unfold is_success; cbn; lia].

Lemma h_inv_set_cases d v u g l d' rs : h_inv_set d v u g l = (d', rs) ->
  same_ia d d' \/ (inv_frame u d d' /\ is_success rs).
Proof. unfold h_inv_set. intros H. inv_handler H set_inventory_frame. Qed.
Lemma h_inv_post_cases d v u x d' rs : h_inv_post d v u x = (d', rs) ->
  same_ia d d' \/ (inv_frame u d d' /\ is_success rs).
Proof. unfold h_inv_post. intros H. inv_handler H add_inventory_frame. Qed.
Lemma h_inv_put_cases d v u g x d' rs : h_inv_put d v u g x = (d', rs) ->
  same_ia d d' \/ (inv_frame u d d' /\ is_success rs).
Proof. unfold h_inv_put. intros H. inv_handler H update_inventory_frame. Qed.
Lemma h_inv_delete_cases d u rc d' rs : h_inv_delete d u rc = (d', rs) ->
  same_ia d d' \/ (inv_frame u d d' /\ is_success rs).
Proof. unfold h_inv_delete. intros H. inv_handler H delete_inventory_frame. Qed.
Lemma h_inv_delete_all_cases d v u d' rs : h_inv_delete_all d v u = (d', rs) ->
  same_ia d d' \/ (inv_frame u d d' /\ is_success rs).
Proof. unfold h_inv_delete_all. intros H. inv_handler H set_inventory_frame. Qed.

Lemma find_inv_l_filter_rp l u rc : find_inv_l (filter (fun i => negb (i_rp i =? u)) l) u rc = None.
Proof.
  destruct (find_inv_l _ u rc) as [i|] eqn:E; [|reflexivity]. exfalso.
  apply find_inv_l_in in E. destruct E as [Hin [Hu _]]. apply filter_In in Hin. destruct Hin as [_ Hin].
  apply negb_true_iff in Hin. apply Z.eqb_neq in Hin. contradiction.
Qed.

Lemma h_rp_delete_cases d u d' rs : h_rp_delete d u = (d', rs) ->
  same_ia d d' \/ (inv_frame u d d' /\ forall rc, find_inv d' u rc = None).
Proof.
  unfold h_rp_delete. intros H. destruct (find_rp d u); [|injection H as <- <-; left; apply same_ia_refl].
  destruct (rp_delete d u) as [d1|e] eqn:E.
  - injection H as <- <-. right. unfold rp_delete in E.
    destruct (existsb _ (rps d)); [discriminate|]. destruct (existsb _ (allocs d)); [discriminate|].
    destruct (find_rp d u); [|discriminate]. injection E as <-.
    split; [split; [reflexivity|]|].
    + intros u' rc Hne. unfold find_inv. cbn. apply find_inv_l_filter. intros i _ Hu _.
      apply negb_true_iff. apply Z.eqb_neq. congruence.
    + intros rc. unfold find_inv. cbn. apply find_inv_l_filter_rp.
  - left. destruct e; injection H as <- <-; apply same_ia_refl.
Qed.

Lemma h_alloc_delete_cases d c d' rs : h_alloc_delete d c = (d', rs) ->
  invs d' = invs d /\ exists p, allocs d' = filter p (allocs d) \/ allocs d' = allocs d.
Proof.
  unfold h_alloc_delete. intros H. destruct (wipe_list d c); injection H as <- <-.
  - split; [reflexivity|]. exists (fun _ => true). right. reflexivity.
  - split; [reflexivity|]. eexists. left. reflexivity.
Qed.

(* ================================================================ classification of a step *)
Inductive step_class (d d' : db) (r : req) (rs : resp) : Prop :=
| sc_same : same_ia d d' -> step_class d d' r rs
| sc_inv u0 : inv_frame u0 d d' ->
              (is_success rs /\ inv_change r u0) \/ (forall rc, find_inv d' u0 rc = None) ->
              step_class d d' r rs
| sc_shrink p : invs d' = invs d -> allocs d' = filter p (allocs d) -> step_class d d' r rs
| sc_write : alloc_write d d' (placed r) -> step_class d d' r rs
| sc_reshape ri : reshape_write d d' ri (placed r) -> is_success rs -> ri_wf ri ->
                  (forall u, inv_change r u <-> In u (map ri_rp ri)) -> step_class d d' r rs.

Lemma step_cases cf d r d' rs : req_wf r = true -> step cf d r = (d', rs) -> step_class d d' r rs.
Proof.
  intros Hwf Hs. destruct r; cbn [step] in Hs; cbn [req_wf] in Hwf.
  - apply sc_same. eapply h_rp_create_frame; eauto.
  - apply sc_same. eapply h_rp_update_frame; eauto.
  - destruct (h_rp_delete_cases _ _ _ _ Hs) as [H|[H1 H2]]; [apply sc_same; exact H|].
    eapply sc_inv; [exact H1|right; exact H2].
  - destruct (h_inv_set_cases _ _ _ _ _ _ _ Hs) as [H|[H1 H2]]; [apply sc_same; exact H|].
    eapply sc_inv; [exact H1|left; split; [exact H2|reflexivity]].
  - destruct (h_inv_post_cases _ _ _ _ _ _ Hs) as [H|[H1 H2]]; [apply sc_same; exact H|].
    eapply sc_inv; [exact H1|left; split; [exact H2|reflexivity]].
  - destruct (h_inv_put_cases _ _ _ _ _ _ _ Hs) as [H|[H1 H2]]; [apply sc_same; exact H|].
    eapply sc_inv; [exact H1|left; split; [exact H2|reflexivity]].
  - destruct (h_inv_delete_cases _ _ _ _ _ Hs) as [H|[H1 H2]]; [apply sc_same; exact H|].
    eapply sc_inv; [exact H1|left; split; [exact H2|reflexivity]].
  - destruct (h_inv_delete_all_cases _ _ _ _ _ Hs) as [H|[H1 H2]]; [apply sc_same; exact H|].
    eapply sc_inv; [exact H1|left; split; [exact H2|reflexivity]].
  - apply sc_same. eapply h_traits_set_frame; eauto.
  - apply sc_same. eapply h_traits_delete_frame; eauto.
  - apply sc_same. eapply h_aggs_set_frame; eauto.
  - destruct (h_alloc_put_cases _ _ _ _ _ _ Hs Hwf) as [[H _]|H]; [apply sc_same; exact H|apply sc_write; exact H].
  - destruct (h_alloc_post_cases _ _ _ _ _ _ Hs Hwf) as [[H _]|H]; [apply sc_same; exact H|apply sc_write; exact H].
  - destruct (h_alloc_delete_cases _ _ _ _ Hs) as [HI [p [HA|HA]]].
    + eapply sc_shrink; eauto.
    + apply sc_same. split; assumption.
  - apply andb_true_iff in Hwf. destruct Hwf as [Hwf Hal]. apply andb_true_iff in Hwf. destruct Hwf as [Hri Hnd].
    destruct (h_reshape_cases _ _ _ _ _ _ _ Hs Hal) as [[H _]|[H Hsu]]; [apply sc_same; exact H|].
    eapply sc_reshape; [exact H|exact Hsu|split; assumption|]. intros u. cbn [inv_change]. tauto.
  - apply sc_same. eapply h_rc_create_frame; eauto.
  - apply sc_same. eapply h_rc_put_frame; eauto.
  - apply sc_same. eapply h_rc_rename_frame; eauto.
  - apply sc_same. eapply h_rc_delete_frame; eauto.
  - apply sc_same. eapply h_trait_put_frame; eauto.
  - apply sc_same. eapply h_trait_delete_frame; eauto.
Qed.

(* ================================================================ the theorems *)
Lemma c01_accepted_write :
  forall cf d r d' rs u rc amt,
    req_wf r = true -> step cf d r = (d', rs) -> is_success rs -> placed r u rc amt ->
    exists i, find_inv d' u rc = Some i /\
              i_min i <= amt <= i_max i /\ amt mod i_step i = 0 /\
              usage d' u rc <= cap_floor i.
Proof.
  intros cf d r d' rs u rc amt Hwf Hs Hsu Hpl. unfold is_success in Hsu.
  destruct r; cbn [placed] in Hpl; try contradiction; cbn [step] in Hs; cbn [req_wf] in Hwf.
  - destruct (h_alloc_put_cases _ _ _ _ _ _ Hs Hwf) as [[_ H]|H]; [lia|].
    eapply alloc_write_accepted; [exact H|exact Hpl|].
    eapply placed_in_pos; [|exact Hpl]. cbn [forallb]. rewrite Hwf. reflexivity.
  - destruct (h_alloc_post_cases _ _ _ _ _ _ Hs Hwf) as [[_ H]|H]; [lia|].
    eapply alloc_write_accepted; [exact H|exact Hpl|].
    eapply placed_in_pos; [|exact Hpl]. unfold cons_list_wf in Hwf. apply andb_true_iff in Hwf. tauto.
  - apply andb_true_iff in Hwf. destruct Hwf as [Hwf Hal]. apply andb_true_iff in Hwf. destruct Hwf as [Hri Hnd].
    destruct (h_reshape_cases _ _ _ _ _ _ _ Hs Hal) as [[_ H]|[H _]]; [lia|].
    eapply reshape_write_accepted; [exact H|split; assumption|exact Hpl|].
    eapply placed_in_pos; [|exact Hpl]. unfold cons_list_wf in Hal. apply andb_true_iff in Hal. tauto.
Qed.

Lemma c01_overcommit_origin :
  forall cf d r d' rs u rc,
    allocs_pos d -> req_wf r = true -> step cf d r = (d', rs) -> overcommitted d' u rc ->
    (inv_change r u /\ is_success rs) \/ (overcommitted d u rc /\ usage d' u rc <= usage d u rc).
Proof.
  intros cf d r d' rs u rc Hp Hwf Hs Ho.
  destruct (step_cases cf d r d' rs Hwf Hs) as [H|u0 [A F] H|p HI HA|H|ri H Hsu Hriwf Hiff].
  - right. eapply over_same; eauto.
  - destruct (Z.eq_dec u u0) as [->|Hne].
    + destruct H as [[H1 H2]|H]; [left; auto|].
      destruct Ho as [i [Hi _]]. rewrite H in Hi. discriminate.
    + right. destruct Ho as [i [Hi Hc]]. rewrite (F u rc Hne) in Hi. rewrite (usage_same _ _ _ _ A) in *.
      split; [exists i; auto|lia].
  - right. destruct Ho as [i [Hi Hc]]. rewrite (find_inv_same _ _ _ _ HI) in Hi.
    assert (usage d' u rc <= usage d u rc) by (unfold usage; rewrite HA; apply usage_l_filter_le; exact Hp).
    split; [exists i; split; [exact Hi|lia]|assumption].
  - right. eapply alloc_write_over; eauto.
  - destruct (memZ u (map ri_rp ri)) eqn:M.
    + left. apply memZ_In in M. split; [apply Hiff; exact M|exact Hsu].
    + right. apply memZ_false in M. eapply reshape_write_over; eauto.
Qed.

Lemma step_allocs_pos cf d r d' rs : allocs_pos d -> req_wf r = true -> step cf d r = (d', rs) -> allocs_pos d'.
Proof.
  intros Hp Hwf Hs.
  destruct (step_cases cf d r d' rs Hwf Hs) as [[_ A]|u0 [A F] H|p HI HA|H|ri H Hsu Hriwf Hiff].
  - eapply allocs_pos_same; eauto.
  - eapply allocs_pos_same; eauto.
  - intros a Ha. rewrite HA in Ha. apply filter_In in Ha. apply Hp. tauto.
  - eapply alloc_write_pos; eauto.
  - eapply reshape_write_pos; eauto.
Qed.

Lemma run_allocs_pos cf : forall l d, allocs_pos d -> reqs_wf l -> allocs_pos (run cf d l).
Proof.
  induction l as [|r l IH]; intros d Hp Hwf; cbn [run]; [exact Hp|].
  inversion Hwf as [|? ? Hr Hl]; subst. apply IH; [|exact Hl].
  destruct (step cf d r) as [d' rs] eqn:Es. cbn [fst]. eapply step_allocs_pos; eauto.
Qed.

Lemma c01_allocs_pos_reachable : forall cf d, reachable cf d -> allocs_pos d.
Proof.
  intros cf d [l [Hwf ->]]. apply run_allocs_pos; [|exact Hwf]. intros a [].
Qed.

Lemma run_app cf : forall l1 l2 d, run cf d (l1 ++ l2) = run cf (run cf d l1) l2.
Proof. induction l1 as [|r l1 IH]; intros l2 d; cbn [app run]; [reflexivity|apply IH]. Qed.

Lemma c01_history :
  forall cf l r u rc, reqs_wf (l ++ [r]) -> ~ inv_change r u ->
    overcommitted (run cf db0 (l ++ [r])) u rc ->
    overcommitted (run cf db0 l) u rc /\ usage (run cf db0 (l ++ [r])) u rc <= usage (run cf db0 l) u rc.
Proof.
  intros cf l r u rc Hwf Hni Ho. rewrite run_app in *. cbn [run] in *.
  unfold reqs_wf in Hwf. apply Forall_app in Hwf. destruct Hwf as [Hl Hr].
  inversion Hr as [|? ? Hr1 _]; subst.
  destruct (step cf (run cf db0 l) r) as [d' rs] eqn:Es. cbn [fst] in *.
  assert (Hp : allocs_pos (run cf db0 l)) by (apply (c01_allocs_pos_reachable cf); exists l; auto).
  destruct (c01_overcommit_origin cf _ r d' rs u rc Hp Hr1 Es Ho) as [[H _]|H]; [contradiction|exact H].
Qed.
