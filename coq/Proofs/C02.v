(* C02 - what an allocation candidate is made of: providers exist, amounts add up to the request, every
   group is placed in full, the candidate is claimable. Part 1: for the declarative specification
   (spec_candidates / valid); part 2: for the code model (candidates). *)
From PV Require Import Spec.CandSpec Proofs.C03.

(* ================================================================ statements: vocabulary *)
(* every provider a candidate names: in its allocations and in its mappings *)
Definition creq_providers (c : creq) : list Z := map rr_rp (cr_rrs c) ++ flat_map snd (cr_maps c).
(* total amount of class rc in a list of resource requests / placements / requested resources *)
Fixpoint total_rc (rc : Z) (l : list rreq) : Z :=
  match l with [] => 0 | x :: r => (if rr_rc x =? rc then rr_amt x else 0) + total_rc rc r end.
Fixpoint total_res (rc : Z) (l : list (Z * Z)) : Z :=
  match l with [] => 0 | x :: r => (if fst x =? rc then snd x else 0) + total_res rc r end.
(* the resources requested by the whole query: the unsuffixed group, then the suffixed groups *)
Definition requested (q : query) : list (Z * Z) := un_resources q ++ flat_map g_resources (suffixed_groups q).
Definition rr_keys (l : list rreq) : list (Z * Z) := map (fun x => (rr_rp x, rr_rc x)) l.
(* amounts of the query are not negative (the query-string normalisation demands >= 1) *)
Definition amounts_nonneg (q : query) : Prop :=
  forall g, In g (qy_groups q) -> forall x, In x (g_resources g) -> 0 <= snd x.

(* ================================================================ list facts *)
Lemma find_rp_exists d p : In p (map rp_uuid (rps d)) -> exists r, find_rp d p = Some r.
Proof.
  unfold find_rp. induction (rps d) as [|x l IH]; cbn [map In find_rp_l]; [intros []|].
  intros [E|H]; [rewrite E, Z.eqb_refl; eauto|]. destruct (rp_uuid x =? p); eauto.
Qed.
Lemma Forall2_length {A B} (R : A -> B -> Prop) l l' : Forall2 R l l' -> length l = length l'.
Proof. induction 1; cbn [length]; congruence. Qed.
Lemma Forall2_combine {A B} (R : A -> B -> Prop) l l' : Forall2 R l l' -> forall a b, In (a, b) (combine l l') -> R a b.
Proof.
  induction 1; cbn [combine In]; [intros ? ? []|]. intros a b [E|Hin]; [injection E as <- <-; assumption|auto].
Qed.
Lemma Forall2_In_l {A B} (R : A -> B -> Prop) l l' a : Forall2 R l l' -> In a l -> exists b, In (a, b) (combine l l') /\ R a b.
Proof.
  induction 1; cbn [combine In]; [intros []|]. intros [<-|Hin]; [eauto|].
  destruct (IHForall2 Hin) as [b [Hb HR]]. eauto.
Qed.
Lemma Forall2_In_r {A B} (R : A -> B -> Prop) l l' b : Forall2 R l l' -> In b l' -> exists a, In (a, b) (combine l l') /\ R a b.
Proof.
  induction 1; cbn [combine In]; [intros []|]. intros [<-|Hin]; [eauto|].
  destruct (IHForall2 Hin) as [a [Ha HR]]. eauto.
Qed.
Lemma dedup_In x l : In x (dedup l) <-> In x l.
Proof.
  unfold dedup. induction l as [|y l IH]; cbn [fold_right In]; [tauto|].
  destruct (memZ y (fold_right _ [] l)) eqn:E.
  - rewrite IH. split; [tauto|]. intros [<-|H]; [|assumption]. apply IH.
    unfold memZ in E. apply existsb_exists in E. destruct E as [z [Hz E]]. apply Z.eqb_eq in E. subst. assumption.
  - cbn [In]. rewrite IH. tauto.
Qed.

(* ================================================================ summing placements *)
Definition pl_key (x : Z * Z * Z) : Z * Z := fst x.
Lemma sum_into_keys acc x k :
  In k (rr_keys (sum_into acc x)) <-> In k (rr_keys acc) \/ k = pl_key x.
Proof.
  destruct x as [[p rc] a]. unfold pl_key, rr_keys. cbn [fst].
  induction acc as [|y r IH]; cbn [sum_into map In fst snd].
  - cbn [rr_rp rr_rc]. intuition congruence.
  - destruct ((rr_rp y =? p) && (rr_rc y =? rc)) eqn:E; cbn [map In rr_rp rr_rc].
    + apply andb_true_iff in E. destruct E as [E1 E2]. apply Z.eqb_eq in E1, E2. subst. intuition congruence.
    + rewrite IH. tauto.
Qed.
Lemma sum_into_nodup acc x : NoDup (rr_keys acc) -> NoDup (rr_keys (sum_into acc x)).
Proof.
  destruct x as [[p rc] a]. induction acc as [|y r IH]; cbn [sum_into rr_keys map fst snd]; intro H.
  - constructor; [intros []|constructor].
  - inversion H as [|? ? Hy Hr]; subst. destruct ((rr_rp y =? p) && (rr_rc y =? rc)) eqn:E; cbn [map rr_rp rr_rc].
    + constructor; assumption.
    + constructor; [|apply IH; assumption]. change (~ In (rr_rp y, rr_rc y) (rr_keys (sum_into r (p, rc, a)))).
      intro Hin. apply sum_into_keys in Hin. destruct Hin as [Hin|Hk]; [contradiction|].
      unfold pl_key in Hk. cbn [fst] in Hk. injection Hk as E1 E2. rewrite E1, E2, !Z.eqb_refl in E. discriminate.
Qed.
Lemma sum_into_total acc x rc :
  total_rc rc (sum_into acc x) = total_rc rc acc + (if snd (fst x) =? rc then snd x else 0).
Proof.
  destruct x as [[p c] a]. cbn [fst snd]. induction acc as [|y r IH]; cbn [sum_into total_rc fst snd].
  - cbn [rr_rc rr_amt]. lia.
  - destruct ((rr_rp y =? p) && (rr_rc y =? c)) eqn:E; cbn [total_rc rr_rc rr_amt].
    + apply andb_true_iff in E. destruct E as [_ E2]. apply Z.eqb_eq in E2. subst c.
      destruct (rr_rc y =? rc); lia.
    + rewrite IH. lia.
Qed.

Fixpoint total_pl (rc : Z) (l : list (Z * Z * Z)) : Z :=
  match l with [] => 0 | x :: r => (if snd (fst x) =? rc then snd x else 0) + total_pl rc r end.
Lemma fold_sum_total l : forall acc rc, total_rc rc (fold_left sum_into l acc) = total_rc rc acc + total_pl rc l.
Proof.
  induction l as [|x l IH]; intros acc rc; cbn [fold_left total_pl]; [lia|].
  rewrite IH, sum_into_total. lia.
Qed.
Lemma fold_sum_nodup l : forall acc, NoDup (rr_keys acc) -> NoDup (rr_keys (fold_left sum_into l acc)).
Proof. induction l as [|x l IH]; intros acc H; cbn [fold_left]; [assumption|]. apply IH, sum_into_nodup, H. Qed.
Lemma fold_sum_keys l : forall acc k, In k (rr_keys (fold_left sum_into l acc)) <-> In k (rr_keys acc) \/ In k (map pl_key l).
Proof.
  induction l as [|x l IH]; intros acc k; cbn [fold_left map In]; [tauto|].
  rewrite IH, sum_into_keys. intuition.
Qed.

(* amounts only grow when further non-negative placements are summed in *)
Definition nonneg_rr (l : list rreq) : Prop := forall x, In x l -> 0 <= rr_amt x.
Lemma sum_into_nonneg acc x : nonneg_rr acc -> 0 <= snd x -> nonneg_rr (sum_into acc x).
Proof.
  destruct x as [[p rc] a]. cbn [snd]. unfold nonneg_rr. induction acc as [|y r IH]; cbn [sum_into fst snd]; intros H Ha z.
  - intros [<-|[]]. cbn [rr_amt]. assumption.
  - destruct ((rr_rp y =? p) && (rr_rc y =? rc)); cbn [In].
    + intros [<-|Hz]; [cbn [rr_amt]; specialize (H y (or_introl eq_refl)); lia|apply H; right; assumption].
    + intros [<-|Hz]; [apply H; left; reflexivity|]. apply IH; [intros w Hw; apply H; right; assumption|assumption|assumption].
Qed.
Lemma sum_into_keeps acc x y : nonneg_rr acc -> 0 <= snd x -> In y acc ->
  exists y', In y' (sum_into acc x) /\ rr_rp y' = rr_rp y /\ rr_rc y' = rr_rc y /\ rr_amt y <= rr_amt y'.
Proof.
  destruct x as [[p rc] a]. cbn [snd]. induction acc as [|z r IH]; cbn [sum_into fst snd In]; intros H Ha; [intros []|].
  destruct ((rr_rp z =? p) && (rr_rc z =? rc)) eqn:E.
  - intros [->|Hy].
    + eexists. split; [left; reflexivity|]. cbn [rr_rp rr_rc rr_amt]. repeat split; lia.
    + exists y. split; [right; assumption|]. repeat split; lia.
  - intros [->|Hy].
    + exists y. split; [left; reflexivity|]. repeat split; lia.
    + destruct IH as [y' [Hy' Hrest]]; [intros w Hw; apply H; right; assumption|assumption|assumption|].
      exists y'. split; [right; assumption|assumption].
Qed.
Lemma sum_into_has acc p rc a : nonneg_rr acc -> 0 <= a ->
  exists y, In y (sum_into acc (p, rc, a)) /\ rr_rp y = p /\ rr_rc y = rc /\ a <= rr_amt y.
Proof.
  induction acc as [|z r IH]; cbn [sum_into fst snd]; intros H Ha.
  - eexists. split; [left; reflexivity|]. cbn [rr_rp rr_rc rr_amt]. repeat split; lia.
  - destruct ((rr_rp z =? p) && (rr_rc z =? rc)) eqn:E.
    + apply andb_true_iff in E. destruct E as [E1 E2]. apply Z.eqb_eq in E1, E2.
      eexists. split; [left; reflexivity|]. cbn [rr_rp rr_rc rr_amt]. specialize (H z (or_introl eq_refl)).
      repeat split; lia.
    + destruct IH as [y [Hy Hrest]]; [intros w Hw; apply H; right; assumption|assumption|].
      exists y. split; [right; assumption|assumption].
Qed.
Lemma fold_sum_keeps l : forall acc y, nonneg_rr acc -> (forall x, In x l -> 0 <= snd x) -> In y acc ->
  exists y', In y' (fold_left sum_into l acc) /\ rr_rp y' = rr_rp y /\ rr_rc y' = rr_rc y /\ rr_amt y <= rr_amt y'.
Proof.
  induction l as [|x l IH]; intros acc y H Hl Hy; cbn [fold_left].
  - exists y. repeat split; try assumption; lia.
  - destruct (sum_into_keeps acc x y H (Hl x (or_introl eq_refl)) Hy) as [y1 [H1 [E1 [E2 L1]]]].
    destruct (IH (sum_into acc x) y1) as [y2 [H2 [E3 [E4 L2]]]];
      [apply sum_into_nonneg; [assumption|apply Hl; left; reflexivity] | intros w Hw; apply Hl; right; assumption | assumption|].
    exists y2. repeat split; try congruence; try assumption; lia.
Qed.
Lemma fold_sum_has l : forall acc p rc a, nonneg_rr acc -> (forall x, In x l -> 0 <= snd x) -> In (p, rc, a) l ->
  exists y, In y (fold_left sum_into l acc) /\ rr_rp y = p /\ rr_rc y = rc /\ a <= rr_amt y.
Proof.
  induction l as [|x l IH]; intros acc p rc a H Hl; cbn [fold_left In]; [intros []|].
  assert (Hn : nonneg_rr (sum_into acc x)) by (apply sum_into_nonneg; [assumption|apply Hl; left; reflexivity]).
  assert (Hl' : forall w, In w l -> 0 <= snd w) by (intros w Hw; apply Hl; right; assumption).
  intros [->|Hin]; [|apply IH; assumption].
  destruct (sum_into_has acc p rc a H (Hl _ (or_introl eq_refl))) as [y [Hy [E1 [E2 L]]]].
  destruct (fold_sum_keeps l _ y Hn Hl' Hy) as [y' [Hy' [E3 [E4 L']]]].
  exists y'. repeat split; try congruence; try assumption; lia.
Qed.

(* ================================================================ part 1: the specification *)
Lemma unsuffixed_in q g : unsuffixed_group q = Some g -> In g (qy_groups q).
Proof. unfold unsuffixed_group. intro H. apply find_some in H. tauto. Qed.
Lemma suffixed_in q g : In g (suffixed_groups q) -> In g (qy_groups q).
Proof. unfold suffixed_groups. rewrite filter_In. tauto. Qed.

Section Spec.
  Variables (v : Z) (q : query) (d : db) (a : assignment).
  Hypothesis Ha : admissible v q d a.

  Let Hsu : Forall2 (fun p g => usable d (as_anchor a) p /\ suffixed_ok d g p = true) (as_suff a) (suffixed_groups q).
  Proof. destruct Ha as [_ [_ [H _]]]. exact H. Qed.
  Let Hun : Forall2 (fun p (x : Z * Z) => usable d (as_anchor a) p) (as_un a) (un_resources q).
  Proof.
    destruct Ha as [_ [H _]]. unfold un_resources. destruct (unsuffixed_group q) as [g|].
    - eapply Forall2_impl; [|exact H]. cbv beta. tauto.
    - rewrite H. constructor.
  Qed.

  Lemma asg_usable p : In p (as_un a) \/ In p (as_suff a) -> usable d (as_anchor a) p.
  Proof.
    intros [H|H].
    - destruct (Forall2_In_l _ _ _ _ Hun H) as [x [_ Hx]]. exact Hx.
    - destruct (Forall2_In_l _ _ _ _ Hsu H) as [g [_ [Hx _]]]. exact Hx.
  Qed.

  Lemma placements_provider x : In x (placements q a) -> In (fst (fst x)) (as_un a) \/ In (fst (fst x)) (as_suff a).
  Proof.
    unfold placements. rewrite in_app_iff, in_map_iff, in_flat_map. intros [[px [<- H]]|[pg [H Hx]]].
    - left. cbn [fst]. destruct px as [p y]. apply in_combine_l in H. assumption.
    - right. apply in_map_iff in Hx. destruct Hx as [y [<- _]]. cbn [fst]. destruct pg as [p g].
      apply in_combine_l in H. assumption.
  Qed.

  Lemma creq_of_providers p : In p (creq_providers (creq_of q a)) -> In p (as_un a) \/ In p (as_suff a).
  Proof.
    unfold creq_providers, creq_of. cbn [cr_rrs cr_maps]. rewrite in_app_iff. intros [H|H].
    - apply in_map_iff in H. destruct H as [y [<- Hy]].
      assert (Hk : In (rr_rp y, rr_rc y) (rr_keys (summed q a))) by (unfold rr_keys; apply in_map_iff; eauto).
      unfold summed in Hk. apply fold_sum_keys in Hk. destruct Hk as [[]|Hk].
      apply in_map_iff in Hk. destruct Hk as [x [E Hx]]. apply placements_provider in Hx.
      unfold pl_key in E. rewrite E in Hx. exact Hx.
    - apply in_flat_map in H. destruct H as [kv [Hkv Hp]]. apply in_app_iff in Hkv. destruct Hkv as [Hkv|Hkv].
      + destruct (unsuffixed_group q); [|destruct Hkv]. destruct Hkv as [<-|[]]. cbn [snd] in Hp.
        left. apply dedup_In. assumption.
      + apply in_map_iff in Hkv. destruct Hkv as [pg [<- Hpg]]. cbn [snd] in Hp. destruct Hp as [<-|[]].
        right. destruct pg as [p' g]. apply in_combine_l in Hpg. assumption.
  Qed.

  (* every provider named by the candidate exists *)
  Lemma providers_exist_asg p : In p (creq_providers (creq_of q a)) -> exists r, find_rp d p = Some r.
  Proof. intro H. apply creq_of_providers, asg_usable in H. destruct H as [H _]. apply find_rp_exists, H. Qed.

  (* amounts *)
  Lemma total_pl_app rc l l' : total_pl rc (l ++ l') = total_pl rc l + total_pl rc l'.
  Proof. induction l as [|x l IH]; cbn [app total_pl]; [lia|]. rewrite IH. lia. Qed.
  Lemma total_res_app rc l l' : total_res rc (l ++ l') = total_res rc l + total_res rc l'.
  Proof. induction l as [|x l IH]; cbn [app total_res]; [lia|]. rewrite IH. lia. Qed.
  Lemma total_pl_un rc : forall (ps : list Z) (res : list (Z * Z)), length ps = length res ->
    total_pl rc (map (fun px : Z * (Z * Z) => (fst px, fst (snd px), snd (snd px))) (combine ps res)) = total_res rc res.
  Proof.
    induction ps as [|p ps IH]; intros [|x res] E; cbn [length] in E; try discriminate; cbn [combine map total_pl total_res fst snd];
      [reflexivity|]. rewrite IH; [reflexivity|lia].
  Qed.
  Lemma total_pl_group rc p : forall res : list (Z * Z),
    total_pl rc (map (fun x => (p, fst x, snd x)) res) = total_res rc res.
  Proof. induction res as [|x res IH]; cbn [map total_pl total_res fst snd]; [reflexivity|]. rewrite IH. reflexivity. Qed.
  Lemma total_pl_suff rc : forall (ps : list Z) (gs : list rgroup), length ps = length gs ->
    total_pl rc (flat_map (fun pg : Z * rgroup => map (fun x => (fst pg, fst x, snd x)) (g_resources (snd pg))) (combine ps gs))
    = total_res rc (flat_map g_resources gs).
  Proof.
    induction ps as [|p ps IH]; intros [|g gs] E; cbn [length] in E; try discriminate; cbn [combine flat_map fst snd];
      [reflexivity|]. rewrite total_pl_app, total_res_app, total_pl_group, IH; [reflexivity|lia].
  Qed.

  Lemma amounts_asg rc : total_rc rc (cr_rrs (creq_of q a)) = total_res rc (requested q).
  Proof.
    unfold creq_of, summed, requested. cbn [cr_rrs]. rewrite fold_sum_total. cbn [total_rc].
    unfold placements. rewrite total_pl_app, total_res_app, total_pl_un, total_pl_suff; [lia| |].
    - apply (Forall2_length _ _ _ Hsu).
    - apply (Forall2_length _ _ _ Hun).
  Qed.
  Lemma keys_nodup_asg : NoDup (rr_keys (cr_rrs (creq_of q a))).
  Proof. unfold creq_of, summed. cbn [cr_rrs]. apply fold_sum_nodup. constructor. Qed.

  (* groups in full *)
  Hypothesis Hpos : amounts_nonneg q.
  Lemma placements_nonneg x : In x (placements q a) -> 0 <= snd x.
  Proof.
    unfold placements. rewrite in_app_iff, in_map_iff, in_flat_map. intros [[px [<- H]]|[pg [H Hx]]].
    - cbn [snd]. destruct px as [p y]. apply in_combine_r in H. cbn [snd]. unfold un_resources in H.
      destruct (unsuffixed_group q) as [g|] eqn:E; [|destruct H]. apply (Hpos g (unsuffixed_in q g E) y H).
    - apply in_map_iff in Hx. destruct Hx as [y [<- Hy]]. cbn [snd]. destruct pg as [p g]. apply in_combine_r in H.
      cbn [snd] in Hy. apply (Hpos g (suffixed_in q g H) y Hy).
  Qed.
  Lemma placed_in_full p rc amount : In (p, rc, amount) (placements q a) ->
    exists x, In x (cr_rrs (creq_of q a)) /\ rr_rp x = p /\ rr_rc x = rc /\ amount <= rr_amt x.
  Proof.
    intro H. unfold creq_of, summed. cbn [cr_rrs]. apply fold_sum_has; [intros ? []|apply placements_nonneg|assumption].
  Qed.

  Lemma suffixed_in_full g : In g (suffixed_groups q) ->
    exists p, In (g_suffix g, [p]) (cr_maps (creq_of q a)) /\
              forall rc amount, In (rc, amount) (g_resources g) ->
                exists x, In x (cr_rrs (creq_of q a)) /\ rr_rp x = p /\ rr_rc x = rc /\ amount <= rr_amt x.
  Proof.
    intro Hg. destruct (Forall2_In_r _ _ _ _ Hsu Hg) as [p [Hpg _]]. exists p. split.
    - unfold creq_of. cbn [cr_maps]. apply in_app_iff. right. apply in_map_iff. exists (p, g). auto.
    - intros rc amount Hr. apply placed_in_full. unfold placements. apply in_app_iff. right.
      apply in_flat_map. exists (p, g). split; [assumption|]. cbn [fst snd]. apply in_map_iff. exists (rc, amount). auto.
  Qed.
  Lemma unsuffixed_in_full g : unsuffixed_group q = Some g ->
    exists ps, In (0, ps) (cr_maps (creq_of q a)) /\
               forall rc amount, In (rc, amount) (g_resources g) ->
                 exists p x, In p ps /\ In x (cr_rrs (creq_of q a)) /\ rr_rp x = p /\ rr_rc x = rc /\ amount <= rr_amt x.
  Proof.
    intro Hg. exists (dedup (as_un a)). split.
    - unfold creq_of. cbn [cr_maps]. rewrite Hg. apply in_app_iff. left. left. reflexivity.
    - intros rc amount Hr. assert (Hr' : In (rc, amount) (un_resources q)) by (unfold un_resources; rewrite Hg; exact Hr).
      destruct (Forall2_In_r _ _ _ _ Hun Hr') as [p [Hpx _]]. exists p.
      destruct (placed_in_full p rc amount) as [x Hx].
      + unfold placements. apply in_app_iff. left. apply in_map_iff. exists (p, (rc, amount)). auto.
      + exists x. split; [apply dedup_In; apply in_combine_l in Hpx; assumption|exact Hx].
  Qed.
End Spec.

(* ---------------------------------------------------------------- theorems about spec_candidates *)
Theorem c02_providers_exist_spec : forall v q d c, In c (spec_candidates v q d) ->
  forall p, In p (creq_providers c) -> exists r, find_rp d p = Some r.
Proof.
  intros v q d c H p Hp. apply spec_candidates_correct in H. destruct H as [a [Ha ->]].
  eapply providers_exist_asg; eassumption.
Qed.

Theorem c02_amounts_spec : forall v q d c, In c (spec_candidates v q d) ->
  (forall rc, total_rc rc (cr_rrs c) = total_res rc (requested q)) /\ NoDup (rr_keys (cr_rrs c)).
Proof.
  intros v q d c H. apply spec_candidates_correct in H. destruct H as [a [Ha ->]]. split.
  - intro rc. eapply amounts_asg; eassumption.
  - apply keys_nodup_asg.
Qed.

Theorem c02_groups_in_full_spec : forall v q d c, amounts_nonneg q -> In c (spec_candidates v q d) ->
  (forall g, In g (suffixed_groups q) ->
     exists p, In (g_suffix g, [p]) (cr_maps c) /\
               forall rc amount, In (rc, amount) (g_resources g) ->
                 exists x, In x (cr_rrs c) /\ rr_rp x = p /\ rr_rc x = rc /\ amount <= rr_amt x) /\
  (forall g, unsuffixed_group q = Some g ->
     exists ps, In (0, ps) (cr_maps c) /\
                forall rc amount, In (rc, amount) (g_resources g) ->
                  exists p x, In p ps /\ In x (cr_rrs c) /\ rr_rp x = p /\ rr_rc x = rc /\ amount <= rr_amt x).
Proof.
  intros v q d c Hpos H. apply spec_candidates_correct in H. destruct H as [a [Ha ->]]. split.
  - intros g Hg. eapply suffixed_in_full; eassumption.
  - intros g Hg. eapply unsuffixed_in_full; eassumption.
Qed.

(* ================================================================ claimable (partial): the capacity check of the write path *)
(* well-formedness of the inventories table: unique (provider, class), existing class, step_size >= 1
   (unique constraint + JSON schema of the inventory routes; part of the C04/C08 invariants) *)
Definition invs_wf (d : db) : Prop :=
  NoDup (map (fun i => (i_rp i, i_rc i)) (invs d)) /\
  forall i, In i (invs d) -> rc_exists d (i_rc i) = true /\ 1 <= i_step i.
(* what is actually needed (step_size is not: amount mod 0 = amount in Coq, so two amounts with
   `amount mod 0 = 0` are both 0); RI + inv_keys_nodup of Proofs/Defs.v give it for reachable states *)
Definition invs_wf0 (d : db) : Prop :=
  NoDup (map (fun i => (i_rp i, i_rc i)) (invs d)) /\
  forall i, In i (invs d) -> rc_exists d (i_rc i) = true.
Lemma invs_wf_weaken d : invs_wf d -> invs_wf0 d.
Proof. intros [H1 H2]. split; [assumption|]. intros i Hi. apply (H2 i Hi). Qed.

Lemma find_inv_l_unique l i : NoDup (map (fun i => (i_rp i, i_rc i)) l) -> In i l -> find_inv_l l (i_rp i) (i_rc i) = Some i.
Proof.
  induction l as [|x l IH]; cbn [map find_inv_l In]; [intros _ []|]. intros Hnd [->|Hin].
  - rewrite !Z.eqb_refl. reflexivity.
  - inversion Hnd as [|? ? Hx Hnd']; subst. destruct ((i_rp x =? i_rp i) && (i_rc x =? i_rc i)) eqn:E; [|auto].
    apply andb_true_iff in E. destruct E as [E1 E2]. apply Z.eqb_eq in E1, E2. exfalso. apply Hx.
    rewrite E1, E2. apply (in_map (fun i => (i_rp i, i_rc i))). assumption.
Qed.
Lemma find_inv_l_Some' l u rc i : find_inv_l l u rc = Some i -> In i l /\ i_rp i = u /\ i_rc i = rc.
Proof.
  induction l as [|x l IH]; cbn [find_inv_l In]; [discriminate|].
  destruct ((i_rp x =? u) && (i_rc x =? rc)) eqn:E.
  - intros [= <-]. apply andb_true_iff in E. destruct E as [E1 E2]. apply Z.eqb_eq in E1, E2. auto.
  - intro H. destruct (IH H) as [? [? ?]]. auto.
Qed.

(* what has_room says about the inventory record the write path will look up *)
Definition slot_fits (d : db) (k : Z * Z) (amount : Z) : Prop :=
  match find_inv d (fst k) (snd k) with
  | Some i => i_min i <= amount /\ amount mod i_step i = 0 /\ 0 <= amount
  | None => False
  end.
Lemma has_room_fits d p rc amount : invs_wf0 d -> 0 <= amount -> has_room d p rc amount = true -> slot_fits d (p, rc) amount.
Proof.
  intros [Hnd _] Hpos H. apply has_room_spec in H. destruct H as [i [Hi [E1 [E2 [_ [[Hmin _] Hstep]]]]]].
  unfold slot_fits, find_inv. cbn [fst snd]. rewrite <- E1, <- E2, (find_inv_l_unique _ i Hnd Hi). auto.
Qed.
Lemma slot_fits_add d k x y : slot_fits d k x -> slot_fits d k y -> slot_fits d k (x + y).
Proof.
  unfold slot_fits. destruct (find_inv d (fst k) (snd k)) as [i|]; [|tauto].
  intros [H1 [H2 H3]] [H4 [H5 H6]]. repeat split; [lia| |lia].
  destruct (Z.eq_dec (i_step i) 0) as [E|Hs].
  - rewrite E, Zmod_0_r in *. lia.
  - rewrite (Z.add_mod x y (i_step i)) by assumption. rewrite H2, H5. cbn [Z.add]. apply Z.mod_0_l. assumption.
Qed.

Lemma sum_into_fits d acc x :
  (forall y, In y acc -> slot_fits d (rr_rp y, rr_rc y) (rr_amt y)) -> slot_fits d (pl_key x) (snd x) ->
  forall y, In y (sum_into acc x) -> slot_fits d (rr_rp y, rr_rc y) (rr_amt y).
Proof.
  destruct x as [[p rc] a]. unfold pl_key. cbn [fst snd].
  induction acc as [|z r IH]; cbn [sum_into fst snd]; intros H Hx y.
  - intros [<-|[]]. exact Hx.
  - destruct ((rr_rp z =? p) && (rr_rc z =? rc)) eqn:E; cbn [In].
    + apply andb_true_iff in E. destruct E as [E1 E2]. apply Z.eqb_eq in E1, E2. subst p rc.
      intros [<-|Hy]; [|apply H; right; assumption]. cbn [rr_rp rr_rc rr_amt].
      apply slot_fits_add; [apply H; left; reflexivity|assumption].
    + intros [<-|Hy]; [apply H; left; reflexivity|]. apply IH; [intros w Hw; apply H; right; assumption|assumption|assumption].
Qed.
Lemma fold_sum_fits d l : forall acc,
  (forall y, In y acc -> slot_fits d (rr_rp y, rr_rc y) (rr_amt y)) ->
  (forall x, In x l -> slot_fits d (pl_key x) (snd x)) ->
  forall y, In y (fold_left sum_into l acc) -> slot_fits d (rr_rp y, rr_rc y) (rr_amt y).
Proof.
  induction l as [|x l IH]; intros acc Ha Hl; cbn [fold_left]; [assumption|].
  apply IH; [|intros w Hw; apply Hl; right; assumption].
  apply sum_into_fits; [assumption|apply Hl; left; reflexivity].
Qed.

(* every entry of an admissible assignment's candidate passes the per-record tests of _check_capacity_exceeded *)
Lemma asg_entry_claimable v q d a : invs_wf0 d -> amounts_nonneg q -> admissible v q d a ->
  forall x, In x (cr_rrs (creq_of q a)) ->
  exists i, find_inv d (rr_rp x) (rr_rc x) = Some i /\
            i_min i <= rr_amt x <= i_max i /\ rr_amt x mod i_step i = 0 /\
            usage d (rr_rp x) (rr_rc x) + rr_amt x <= cap_floor i.
Proof.
  intros Hwf Hpos Ha x Hx.
  assert (Hfit : slot_fits d (rr_rp x, rr_rc x) (rr_amt x)).
  { unfold creq_of, summed in Hx. cbn [cr_rrs] in Hx. revert x Hx. apply fold_sum_fits; [intros ? []|].
    intros pl Hpl. assert (Hnn : 0 <= snd pl) by (eapply placements_nonneg; eassumption).
    destruct Ha as [_ [Hun [Hsu _]]]. unfold placements in Hpl. apply in_app_iff in Hpl. destruct Hpl as [Hpl|Hpl].
    - apply in_map_iff in Hpl. destruct Hpl as [[p [rc amount]] [<- Hin]]. unfold pl_key. cbn [fst snd] in *.
      unfold un_resources in Hin. destruct (unsuffixed_group q) as [g|]; [|apply in_combine_r in Hin; destruct Hin].
      destruct (Forall2_combine _ _ _ Hun _ _ Hin) as [_ Hok]. unfold un_slot_ok in Hok. cbn [fst snd] in Hok.
      rewrite !andb_true_iff in Hok. apply has_room_fits; tauto.
    - apply in_flat_map in Hpl. destruct Hpl as [[p g] [Hin Hpl]]. apply in_map_iff in Hpl.
      destruct Hpl as [[rc amount] [<- Hr]]. unfold pl_key. cbn [fst snd] in *.
      destruct (Forall2_combine _ _ _ Hsu _ _ Hin) as [_ Hok]. unfold suffixed_ok in Hok.
      rewrite !andb_true_iff, forallb_forall in Hok. apply has_room_fits; [assumption|assumption|].
      apply (proj1 (proj1 (proj1 (proj1 (proj1 Hok)))) (rc, amount) Hr). }
  destruct Ha as [_ [_ [_ Hok]]]. unfold asg_ok in Hok. rewrite !andb_true_iff in Hok.
  destruct Hok as [[_ Hcap] _]. rewrite forallb_forall in Hcap. specialize (Hcap x Hx).
  unfold slot_fits in Hfit. cbn [fst snd] in Hfit.
  destruct (find_inv d (rr_rp x) (rr_rc x)) as [i|]; [|discriminate]. exists i. split; [reflexivity|].
  apply andb_true_iff in Hcap. destruct Hcap as [H1 H2]. apply Z.leb_le in H1, H2. lia.
Qed.

(* the loop of _check_capacity_exceeded on allocation objects with pairwise distinct (provider, class) *)
Definition areq_key (a : areq) : Z * Z := (q_rp a, q_rc a).
Lemma sum_prefix_notin seen u rc : ~ In (u, rc) (map areq_key seen) -> sum_prefix seen u rc = 0.
Proof.
  induction seen as [|a l IH]; cbn [sum_prefix map In]; [reflexivity|]. intro H.
  destruct ((q_rp a =? u) && (q_rc a =? rc)) eqn:E.
  - apply andb_true_iff in E. destruct E as [E1 E2]. apply Z.eqb_eq in E1, E2. exfalso. apply H. left.
    unfold areq_key. congruence.
  - rewrite IH; [lia|tauto].
Qed.
Lemma check_loop_ok d : forall l seen,
  NoDup (map areq_key l) -> (forall a, In a l -> ~ In (areq_key a) (map areq_key seen)) ->
  (forall a, In a l -> exists i, find_inv d (q_rp a) (q_rc a) = Some i /\
                                 i_min i <= q_amt a <= i_max i /\ q_amt a mod i_step i = 0 /\
                                 usage d (q_rp a) (q_rc a) + q_amt a <= cap_floor i) ->
  check_loop d seen l = Ok tt.
Proof.
  induction l as [|a l IH]; intros seen Hnd Hseen Hl; cbn [check_loop]; [reflexivity|].
  inversion Hnd as [|? ? Ha Hnd']; subst.
  assert (Hrec : check_loop d (a :: seen) l = Ok tt).
  { apply IH; [assumption| |intros b Hb; apply Hl; right; assumption].
    intros b Hb. cbn [map In]. intros [E|Hin]; [apply Ha; rewrite E; apply in_map; assumption|].
    apply (Hseen b (or_intror Hb) Hin). }
  destruct (q_amt a =? 0); [assumption|].
  destruct (Hl a (or_introl eq_refl)) as [i [-> [[Hmin Hmax] [Hstep Hcap]]]].
  assert (E1 : (q_amt a <? i_min i) = false) by (apply Z.ltb_ge; lia).
  assert (E2 : (i_max i <? q_amt a) = false) by (apply Z.ltb_ge; lia).
  assert (E3 : (q_amt a mod i_step i =? 0) = true) by (apply Z.eqb_eq; assumption).
  rewrite E1, E2, E3. cbn [orb negb].
  assert (Hsp : sum_prefix (a :: seen) (q_rp a) (q_rc a) = q_amt a).
  { cbn [sum_prefix]. rewrite !Z.eqb_refl. cbn [andb]. rewrite sum_prefix_notin; [lia|].
    apply (Hseen a (or_introl eq_refl)). }
  rewrite Hsp.
  assert (E4 : (cap_floor i <? usage d (q_rp a) (q_rc a) + q_amt a) = false) by (apply Z.ltb_ge; lia).
  rewrite E4. cbn [orb]. assumption.
Qed.

(* PARTIAL claimability, for the candidates of the specification: any list of allocation objects that puts
   the candidate's entries (each once) passes Allocation._check_capacity_exceeded (Txn.check_capacity) on d.
   MISSING for `h_alloc_put ... = 204`: the consumer creation (ensure_consumer), the provider / consumer
   generation compare-and-swap of _set_allocations, and that removing the fresh consumer's (non-existent)
   allocations leaves the usage unchanged. *)
Theorem c02_claimable_partial0 : forall v q d c l,
  invs_wf0 d -> amounts_nonneg q -> In c (spec_candidates v q d) ->
  NoDup (map areq_key l) ->
  (forall a, In a l -> exists x, In x (cr_rrs c) /\ q_rp a = rr_rp x /\ q_rc a = rr_rc x /\ q_amt a = rr_amt x) ->
  check_capacity d l = Ok tt.
Proof.
  intros v q d c l Hwf Hpos Hc Hnd Hl. apply spec_candidates_correct in Hc. destruct Hc as [a [Ha ->]].
  assert (Hent : forall b, In b l -> exists i, find_inv d (q_rp b) (q_rc b) = Some i /\
                   i_min i <= q_amt b <= i_max i /\ q_amt b mod i_step i = 0 /\
                   usage d (q_rp b) (q_rc b) + q_amt b <= cap_floor i).
  { intros b Hb. destruct (Hl b Hb) as [x [Hx [E1 [E2 E3]]]]. rewrite E1, E2, E3.
    eapply asg_entry_claimable; eassumption. }
  unfold check_capacity.
  assert (H1 : forallb (fun b => rc_exists d (q_rc b)) l = true).
  { apply forallb_forall. intros b Hb. destruct (Hent b Hb) as [i [F _]]. apply find_inv_l_Some' in F.
    destruct F as [Hi [_ <-]]. apply (proj2 Hwf i Hi). }
  rewrite H1. cbn [negb].
  assert (H2 : existsb (fun b => negb (existsb (fun i => (i_rp i =? q_rp b) && memZ (i_rc i) (map q_rc l)) (invs d))) l = false).
  { destruct (existsb _ l) eqn:E; [|reflexivity]. exfalso. apply existsb_exists in E. destruct E as [b [Hb E]].
    apply negb_true_iff in E. destruct (Hent b Hb) as [i [F _]]. apply find_inv_l_Some' in F. destruct F as [Hi [E1 E2]].
    assert (existsb (fun i => (i_rp i =? q_rp b) && memZ (i_rc i) (map q_rc l)) (invs d) = true); [|congruence].
    apply existsb_exists. exists i. split; [assumption|]. rewrite E1, Z.eqb_refl, E2. cbn [andb].
    apply memZ_refl_in. apply in_map. assumption. }
  rewrite H2. apply check_loop_ok; [assumption|intros ? ? []|assumption].
Qed.

Theorem c02_claimable_partial : forall v q d c l,
  invs_wf d -> amounts_nonneg q -> In c (spec_candidates v q d) ->
  NoDup (map areq_key l) ->
  (forall a, In a l -> exists x, In x (cr_rrs c) /\ q_rp a = rr_rp x /\ q_rc a = rr_rc x /\ q_amt a = rr_amt x) ->
  check_capacity d l = Ok tt.
Proof. intros v q d c l H. apply c02_claimable_partial0. apply invs_wf_weaken. assumption. Qed.
