(* C02 - claimability in full: a candidate of the specification, sent as the allocations of a NEW consumer
   (consumer_generation null, microversion >= 1.28) to PUT /allocations/{consumer} on the same database, is
   answered 204 by the model of the write path (Model/Handlers.v:h_alloc_put). *)
From PV Require Import Spec.CandSpec Proofs.Defs Proofs.C13 Proofs.C03 Proofs.C02.
From PV Require Proofs.C04 Proofs.C08 Proofs.C09 Proofs.Reach.

(* ================================================================ the request built from a candidate *)
Definition providers_of (c : creq) : list Z := dedup (map rr_rp (cr_rrs c)).
(* the candidate's entries on provider p, as the "resources" object of that provider *)
Definition alloc_in_of (c : creq) (p : Z) : alloc_in :=
  mkAllocIn p (map (fun x => (rr_rc x, rr_amt x)) (filter (fun x => rr_rp x =? p) (cr_rrs c))).
(* PUT /allocations/{k}: the candidate's allocations grouped by provider, consumer_generation null *)
Definition cons_in_of (c : creq) (k proj user ty : Z) : cons_in :=
  mkConsIn k (map (alloc_in_of c) (providers_of c)) (Some proj) (Some user) None (Some ty).

(* the Allocation objects _new_allocations builds from it *)
Definition objs_of (d : db) (c : creq) (k : Z) (ps : list Z) : list areq :=
  flat_map (fun p => match find_rp d p with
                     | Some r => map (fun x => mkAreq k 0 p (rp_gen r) (rr_rc x) (rr_amt x))
                                     (filter (fun x => rr_rp x =? p) (cr_rrs c))
                     | None => []
                     end) ps.

(* ================================================================ list facts *)
Lemma NoDup_dedup l : NoDup (dedup l).
Proof.
  unfold dedup. induction l as [|x l IH]; cbn [fold_right]; [constructor|].
  destruct (memZ x (fold_right _ [] l)) eqn:E; [assumption|]. constructor; [|assumption].
  intro H. apply memZ_In in H. congruence.
Qed.
Lemma filter_all {A} (P : A -> bool) l : (forall x, In x l -> P x = true) -> filter P l = l.
Proof.
  induction l as [|x l IH]; intro H; cbn [filter]; [reflexivity|].
  rewrite (H x (or_introl eq_refl)), IH; [reflexivity|]. intros y Hy. apply H. right. assumption.
Qed.
Lemma NoDup_app_intro {A} (a b : list A) : NoDup a -> NoDup b -> (forall x, In x a -> ~ In x b) -> NoDup (a ++ b).
Proof.
  induction a as [|x a IH]; intros Ha Hb Hd; cbn [app]; [assumption|].
  inversion Ha as [|? ? Hx Ha']; subst. constructor.
  - intro H. apply in_app_iff in H. destruct H as [H|H]; [contradiction|]. apply (Hd x (or_introl eq_refl) H).
  - apply IH; [assumption|assumption|]. intros y Hy. apply Hd. right. assumption.
Qed.
Lemma NoDup_flat_map {A B} (f : A -> list B) l :
  NoDup l -> (forall a, In a l -> NoDup (f a)) ->
  (forall a b x, In a l -> In b l -> a <> b -> In x (f a) -> ~ In x (f b)) -> NoDup (flat_map f l).
Proof.
  induction l as [|a l IH]; intros Hnd Hf Hdis; cbn [flat_map]; [constructor|].
  inversion Hnd as [|? ? Ha Hnd']; subst. apply NoDup_app_intro.
  - apply Hf. left. reflexivity.
  - apply IH; [assumption|intros; apply Hf; right; assumption|].
    intros a0 b x H1 H2. apply Hdis; right; assumption.
  - intros x Hx H. apply in_flat_map in H. destruct H as [b [Hb Hxb]].
    assert (Hne : a <> b) by (intro E; subst b; contradiction).
    exact (Hdis a b x (or_introl eq_refl) (or_intror Hb) Hne Hx Hxb).
Qed.
Lemma map_flat_map {A B C} (h : B -> C) (f : A -> list B) l : map h (flat_map f l) = flat_map (fun a => map h (f a)) l.
Proof. induction l as [|a l IH]; cbn [flat_map map]; [reflexivity|]. rewrite map_app, IH. reflexivity. Qed.

(* ================================================================ the allocation objects *)
Section Objs.
  Variables (d : db) (c : creq) (k : Z).
  Hypothesis Hkeys : NoDup (rr_keys (cr_rrs c)).

  Lemma objs_of_In ps a : In a (objs_of d c k ps) ->
    q_cons a = k /\ q_cgen a = 0 /\
    (exists r, find_rp d (q_rp a) = Some r /\ q_rpgen a = rp_gen r) /\
    exists x, In x (cr_rrs c) /\ q_rp a = rr_rp x /\ q_rc a = rr_rc x /\ q_amt a = rr_amt x.
  Proof.
    unfold objs_of. rewrite in_flat_map. intros [p [_ H]]. destruct (find_rp d p) as [r|] eqn:F; [|destruct H].
    apply in_map_iff in H. destruct H as [x [<- Hx]]. apply filter_In in Hx. destruct Hx as [Hx E].
    apply Z.eqb_eq in E. cbn [q_cons q_cgen q_rp q_rpgen q_rc q_amt]. repeat split; eauto.
  Qed.

  Lemma filter_keys_nodup p : NoDup (map (fun x => (p, rr_rc x)) (filter (fun x => rr_rp x =? p) (cr_rrs c))).
  Proof.
    unfold rr_keys in Hkeys. induction (cr_rrs c) as [|x l IH]; cbn [filter map]; [constructor|].
    cbn [map] in Hkeys. inversion Hkeys as [|? ? Hx Hl]; subst.
    destruct (rr_rp x =? p) eqn:E; [|apply IH; assumption]. cbn [map]. constructor; [|apply IH; assumption].
    intro H. apply in_map_iff in H. destruct H as [y [Ey Hy]]. apply filter_In in Hy. destruct Hy as [Hy Ep].
    apply Z.eqb_eq in E, Ep. apply Hx. apply in_map_iff. exists y. split; [|assumption]. injection Ey as Ey. congruence.
  Qed.

  Lemma objs_of_nodup ps : NoDup ps -> NoDup (map areq_key (objs_of d c k ps)).
  Proof.
    intro Hps. unfold objs_of. rewrite map_flat_map. apply NoDup_flat_map; [assumption| |].
    - intros p _. destruct (find_rp d p); [|constructor]. rewrite map_map. exact (filter_keys_nodup p).
    - intros p p' key _ _ Hne H1 H2. destruct (find_rp d p); [|destruct H1]. destruct (find_rp d p'); [|destruct H2].
      apply in_map_iff in H1. destruct H1 as [a1 [<- H1]]. apply in_map_iff in H1. destruct H1 as [x1 [<- _]].
      apply in_map_iff in H2. destruct H2 as [a2 [E2 H2]]. apply in_map_iff in H2. destruct H2 as [x2 [<- _]].
      unfold areq_key in E2. cbn [q_rp q_rc] in E2. injection E2 as E _. auto.
  Qed.

  (* _new_allocations finds every provider *)
  Lemma new_allocs_objs d1 kobj : co_uuid kobj = k -> co_gen kobj = 0 -> rps d1 = rps d -> forall ps,
    (forall p, In p ps -> exists r, find_rp d p = Some r) ->
    new_allocs d1 kobj (map (alloc_in_of c) ps) = Some (objs_of d c k ps).
  Proof.
    intros Ek Eg Er. induction ps as [|p ps IH]; intro H; cbn [map new_allocs objs_of flat_map]; [reflexivity|].
    destruct (H p (or_introl eq_refl)) as [r F]. unfold find_rp in *. rewrite Er. cbn [alloc_in_of ai_rp ai_res]. rewrite F.
    fold (find_rp d). rewrite IH by (intros p' Hp'; apply H; right; assumption). f_equal. unfold objs_of. f_equal.
    rewrite map_map, Ek, Eg. reflexivity.
  Qed.
End Objs.

(* ================================================================ the write transaction *)
(* _check_capacity_exceeded only reads inventories, allocations and resource classes *)
Lemma check_loop_ext d d' : invs d' = invs d -> allocs d' = allocs d ->
  forall l seen, check_loop d' seen l = check_loop d seen l.
Proof.
  intros Hi Ha. induction l as [|a l IH]; intro seen; cbn [check_loop]; [reflexivity|].
  unfold find_inv, usage. rewrite Hi, Ha, !IH. reflexivity.
Qed.
Lemma check_capacity_ext d d' l : invs d' = invs d -> allocs d' = allocs d -> rcs d' = rcs d ->
  check_capacity d' l = check_capacity d l.
Proof.
  intros Hi Ha Hr. unfold check_capacity, rc_exists. rewrite Hi, Hr, (check_loop_ext d d' Hi Ha). reflexivity.
Qed.

(* the provider generation compare-and-swap succeeds on generations just read *)
Lemma cas_rp_l_ok l u r : find_rp_l l u = Some r ->
  exists l', cas_rp_l l u (rp_gen r) = Some l' /\ forall w, w <> u -> find_rp_l l' w = find_rp_l l w.
Proof.
  induction l as [|x l IH]; cbn [find_rp_l cas_rp_l]; [discriminate|].
  destruct (rp_uuid x =? u) eqn:E.
  - intros [= <-]. rewrite Z.eqb_refl. eexists. split; [reflexivity|]. intros w Hw. cbn [find_rp_l rp_uuid].
    apply Z.eqb_eq in E. rewrite E. destruct (u =? w) eqn:E'; [apply Z.eqb_eq in E'; congruence|reflexivity].
  - intro F. destruct (IH F) as [l' [-> Hl']]. eexists. split; [reflexivity|]. intros w Hw. cbn [find_rp_l].
    rewrite (Hl' w Hw). reflexivity.
Qed.
Lemma cas_rps_ok : forall l d, NoDup (map fst l) ->
  (forall u g, In (u, g) l -> exists r, find_rp d u = Some r /\ rp_gen r = g) ->
  exists d', cas_rps d l = Ok d' /\ consumers d' = consumers d.
Proof.
  induction l as [|[u g] l IH]; intros d Hnd H; cbn [cas_rps]; [eexists; split; reflexivity|].
  cbn [map fst] in Hnd. inversion Hnd as [|? ? Hu Hnd']; subst.
  destruct (H u g (or_introl eq_refl)) as [r [F <-]]. unfold find_rp in F.
  destruct (cas_rp_l_ok _ _ _ F) as [l' [E Hl']]. unfold incr_rp_gen. rewrite E. cbn [bind].
  destruct (IH (set_rps d l') Hnd') as [d' [Ed' Ec]].
  - intros w g' Hin. destruct (H w g' (or_intror Hin)) as [r' [F' Eg]]. exists r'. split; [|assumption].
    unfold find_rp. cbn [rps set_rps]. rewrite Hl'; [exact F'|]. intro Ew. subst w. apply Hu.
    apply (in_map fst) in Hin. exact Hin.
  - exists d'. split; [exact Ed'|]. rewrite Ec. reflexivity.
Qed.

Lemma first_by_sub : forall l seen p, In p (first_by seen l) -> In p l /\ ~ In (fst p) seen.
Proof.
  induction l as [|[k0 g] l IH]; intros seen p; cbn [first_by]; [intros []|].
  destruct (memZ k0 seen) eqn:E.
  - intro H. destruct (IH _ _ H). split; [right|]; assumption.
  - intros [<-|H]; [split; [left; reflexivity|cbn [fst]; intro Hin; apply memZ_In in Hin; congruence]|].
    destruct (IH _ _ H) as [H1 H2]. split; [right; assumption|]. intro Hin. apply H2. right. assumption.
Qed.
Lemma first_by_nodup : forall l seen, NoDup (map fst (first_by seen l)).
Proof.
  induction l as [|[k0 g] l IH]; intro seen; cbn [first_by]; [constructor|].
  destruct (memZ k0 seen); [apply IH|]. cbn [map fst]. constructor; [|apply IH].
  intro H. apply in_map_iff in H. destruct H as [p [E Hp]]. apply first_by_sub in Hp. destruct Hp as [_ Hp].
  apply Hp. left. symmetry. exact E.
Qed.
Lemma first_by_all_seen : forall l seen, (forall p, In p l -> In (fst p) seen) -> first_by seen l = [].
Proof.
  induction l as [|[k0 g] l IH]; intros seen H; cbn [first_by]; [reflexivity|].
  assert (E : memZ k0 seen = true) by (apply memZ_In; apply (H (k0, g)); left; reflexivity).
  rewrite E. apply IH. intros p Hp. apply H. right. assumption.
Qed.

(* the consumer generation compare-and-swap on the row just inserted *)
Lemma cas_cons_l_new l row : (forall x, In x l -> c_uuid x <> c_uuid row) -> c_gen row = 0 ->
  exists l', cas_cons_l (l ++ [row]) (c_uuid row) 0 = Some l'.
Proof.
  intros H Hg. induction l as [|x l IH]; cbn [app cas_cons_l].
  - rewrite Z.eqb_refl, Hg. cbn. eexists. reflexivity.
  - destruct (c_uuid x =? c_uuid row) eqn:E; [apply Z.eqb_eq in E; exfalso; apply (H x (or_introl eq_refl) E)|].
    destruct IH as [l' ->]; [intros y Hy; apply H; right; assumption|]. eexists. reflexivity.
Qed.

(* ================================================================ PUT /allocations for a new consumer *)
Section Claim.
  Variables (cf : cfg) (d : db) (c : creq) (k proj user ty v : Z).
  Hypothesis Hv : 28 <= v.
  Hypothesis Hnew : find_cons d k = None.
  Hypothesis Hnoalloc : forall a, In a (allocs d) -> a_cons a <> k.
  Hypothesis Hkeys : NoDup (rr_keys (cr_rrs c)).
  Hypothesis Hprov : forall p, In p (map rr_rp (cr_rrs c)) -> exists r, find_rp d p = Some r.
  Hypothesis Hcap : forall l, NoDup (map areq_key l) ->
    (forall a, In a l -> exists x, In x (cr_rrs c) /\ q_rp a = rr_rp x /\ q_rc a = rr_rc x /\ q_amt a = rr_amt x) ->
    check_capacity d l = Ok tt.

  Lemma ensure_new : exists d1 kobj,
    ensure_consumer cf v d (cons_in_of c k proj user ty) = (d1, Some kobj) /\
    co_uuid kobj = k /\ co_gen kobj = 0 /\ update_consumer d1 kobj = d1 /\
    rps d1 = rps d /\ invs d1 = invs d /\ allocs d1 = allocs d /\ rcs d1 = rcs d /\
    exists row, consumers d1 = consumers d ++ [row] /\ c_uuid row = k /\ c_gen row = 0.
  Proof.
    unfold ensure_consumer, cons_in_of. cbn [ci_proj ci_user ci_uuid ci_gen ci_type oz].
    unfold find_cons in *. cbn [consumers set_users set_projects]. rewrite Hnew. rewrite andb_false_r.
    destruct (38 <=? v); eexists; eexists; (split; [reflexivity|]);
      cbn [co_uuid co_gen rps invs allocs rcs consumers set_consumers set_ctypes set_users set_projects];
      (repeat split; try reflexivity);
      try (unfold update_consumer; cbn [rq_proj co_proj rq_user co_user rq_type co_type oeqb]; rewrite !Z.eqb_refl; reflexivity);
      eexists; (split; [reflexivity|split; reflexivity]).
  Qed.

  Lemma wipe_list_none d1 : allocs d1 = allocs d -> wipe_list d1 k = [].
  Proof.
    intro Ea. unfold wipe_list. destruct (find_cons d1 k) as [k0|]; [|reflexivity]. rewrite Ea.
    induction (allocs d) as [|a al IH] in Hnoalloc |- *; cbn [flat_map]; [reflexivity|].
    destruct (a_cons a =? k) eqn:E; [apply Z.eqb_eq in E; exfalso; apply (Hnoalloc a (or_introl eq_refl) E)|].
    cbn [app]. apply IH. intros b Hb. apply Hnoalloc. right. assumption.
  Qed.

  Theorem alloc_put_204 : status (snd (step cf d (AllocPut v (cons_in_of c k proj user ty)))) = 204.
  Proof.
    cbn [step]. unfold h_alloc_put.
    destruct ensure_new as [d1 [kobj [-> [Ek [Eg [Eupd [Er [Ei [Ea [Erc [row [Ecs [Eru Erg]]]]]]]]]]]]].
    set (ps := providers_of c). set (objs := objs_of d c k ps).
    assert (Hps : forall p, In p ps -> exists r, find_rp d p = Some r).
    { intros p Hp. apply Hprov. unfold ps, providers_of in Hp. apply (proj1 (dedup_In _ _)) in Hp. assumption. }
    assert (Hobjs : alloc_objs d1 kobj (ci_allocs (cons_in_of c k proj user ty)) = Some objs).
    { unfold alloc_objs, cons_in_of. cbn [ci_allocs]. fold ps. unfold objs. destruct ps as [|p0 ps'] eqn:Eps; cbn [map].
      - rewrite Ek, (wipe_list_none d1 Ea). reflexivity.
      - change (alloc_in_of c p0 :: map (alloc_in_of c) ps') with (map (alloc_in_of c) (p0 :: ps')).
        apply new_allocs_objs; assumption. }
    rewrite Hobjs, Eupd.
    assert (Hin : forall a, In a objs -> q_cons a = k /\ q_cgen a = 0 /\
              (exists r, find_rp d (q_rp a) = Some r /\ q_rpgen a = rp_gen r) /\
              exists x, In x (cr_rrs c) /\ q_rp a = rr_rp x /\ q_rc a = rr_rc x /\ q_amt a = rr_amt x)
      by (intros a Ha; eapply objs_of_In; exact Ha).
    assert (Hnd : NoDup (map areq_key objs)) by (apply objs_of_nodup; [assumption|apply NoDup_dedup]).
    (* _set_allocations *)
    assert (Hset : exists d2, set_allocations d1 objs = Ok d2).
    { unfold set_allocations.
      assert (Hkeep : filter (fun a => negb (memZ (a_cons a) (map q_cons objs))) (allocs d1) = allocs d1).
      { apply filter_all. intros a Ha. apply negb_true_iff. destruct (memZ _ _) eqn:M; [|reflexivity]. exfalso.
        apply memZ_In in M. apply in_map_iff in M. destruct M as [o [Eo Ho]]. destruct (Hin o Ho) as [Ec _].
        rewrite Ea in Ha. apply (Hnoalloc a Ha). congruence. }
      rewrite Hkeep.
      assert (Hd1 : set_allocs d1 (allocs d1) = d1) by (destruct d1; reflexivity). rewrite Hd1.
      rewrite (check_capacity_ext d d1 objs Ei Ea Erc), (Hcap objs Hnd); [|intros a Ha; apply (Hin a Ha)]. cbn [bind].
      set (d2 := set_allocs d1 _).
      destruct (cas_rps_ok (first_by [] (map (fun a => (q_rp a, q_rpgen a)) objs)) d2 (first_by_nodup _ _)) as [d3 [E3 Ec3]].
      { intros u g Hug. apply first_by_sub in Hug. destruct Hug as [Hug _]. apply in_map_iff in Hug.
        destruct Hug as [a [[= <- <-] Ha]]. destruct (Hin a Ha) as [_ [_ [[r [F Eg']] _]]]. exists r. split; [|auto].
        unfold find_rp, d2. cbn [rps set_allocs]. rewrite Er. exact F. }
      rewrite E3. cbn [bind].
      assert (Hcons3 : consumers d3 = consumers d ++ [row]) by (rewrite Ec3; unfold d2; cbn [consumers set_allocs]; exact Ecs).
      assert (Hfb : first_by [] (map (fun a => (q_cons a, q_cgen a)) objs) = [] \/
                    first_by [] (map (fun a => (q_cons a, q_cgen a)) objs) = [(k, 0)]).
      { destruct objs as [|a0 objs'] eqn:Eo; [left; reflexivity|right]. cbn [map first_by memZ existsb].
        destruct (Hin a0 (or_introl eq_refl)) as [-> [-> _]]. f_equal. apply first_by_all_seen.
        intros pr Hpr. apply in_map_iff in Hpr. destruct Hpr as [a [<- Ha]]. cbn [fst].
        destruct (Hin a (or_intror Ha)) as [-> _]. left. reflexivity. }
      assert (Hcc : exists d4, cas_conss d3 (first_by [] (map (fun a => (q_cons a, q_cgen a)) objs)) = Ok d4).
      { destruct Hfb as [->| ->]; cbn [cas_conss]; [eexists; reflexivity|].
        unfold incr_cons_gen. rewrite Hcons3. rewrite <- Eru.
        destruct (cas_cons_l_new (consumers d) row) as [l' ->]; [|assumption|cbn [bind]; eexists; reflexivity].
        intros x Hx. rewrite Eru. unfold find_cons in Hnew. clear - Hnew Hx.
        induction (consumers d) as [|y l IH]; [destruct Hx|]. cbn [find_cons_l] in Hnew.
        destruct (c_uuid y =? k) eqn:E; [discriminate|]. destruct Hx as [<-|Hx]; [apply Z.eqb_neq; assumption|auto]. }
      destruct Hcc as [d4 ->]. cbn [bind]. eexists. reflexivity. }
    destruct Hset as [d2 ->]. reflexivity.
  Qed.
End Claim.

(* ================================================================ theorems *)
Lemma ri_no_allocs_of_new d k : RI d -> find_cons d k = None -> forall a, In a (allocs d) -> a_cons a <> k.
Proof.
  intros [Hal _] Hnew a Ha E. destruct (Hal a Ha) as [_ [_ [kk Hk]]]. rewrite E in Hk. congruence.
Qed.
Lemma invs_wf0_of d : RI d -> inv_keys_nodup d -> invs_wf0 d.
Proof.
  intros [_ [Hi _]] Hk. split; [exact Hk|]. intros i Hin. apply (Hi i Hin).
Qed.

(* A candidate of the specification, claimed for a new consumer k on the same database, is accepted. *)
Theorem c02_claimable : forall cf v q d c k proj user ty v',
  RI d -> inv_keys_nodup d -> amounts_nonneg q ->
  In c (spec_candidates v q d) -> 28 <= v' -> find_cons d k = None ->
  status (snd (step cf d (AllocPut v' (cons_in_of c k proj user ty)))) = 204.
Proof.
  intros cf v q d c k proj user ty v' Hri Hkn Hpos Hc Hv Hnew.
  apply alloc_put_204; try assumption.
  - apply ri_no_allocs_of_new; assumption.
  - apply (c02_amounts_spec v q d c Hc).
  - intros p Hp. apply (c02_providers_exist_spec v q d c Hc). unfold creq_providers. apply in_app_iff. left. assumption.
  - intros l Hnd Hl. eapply c02_claimable_partial0; try eassumption. apply invs_wf0_of; assumption.
Qed.

(* for every reachable state *)
Corollary c02_claimable_reachable : forall cf l v q c k proj user ty v',
  reqs_wf l -> amounts_nonneg q ->
  In c (spec_candidates v q (run cf db0 l)) -> 28 <= v' -> find_cons (run cf db0 l) k = None ->
  status (snd (step cf (run cf db0 l) (AllocPut v' (cons_in_of c k proj user ty)))) = 204.
Proof.
  intros cf l v q c k proj user ty v' Hwf Hpos Hc Hv Hnew.
  eapply c02_claimable; try eassumption.
  - apply C08.run_RI; [apply Reach.ri_db0|assumption].
  - apply (C04.c04_inv_keys_reachable cf). exists l. auto.
Qed.

(* ---------------------------------------------------------------- the request is a legal one (req_wf) *)
Definition amounts_pos (q : query) : Prop :=
  forall g, In g (qy_groups q) -> forall x, In x (g_resources g) -> 1 <= snd x.
Lemma amounts_pos_nonneg q : amounts_pos q -> amounts_nonneg q.
Proof. intros H g Hg x Hx. specialize (H g Hg x Hx). lia. Qed.

Lemma sum_into_pos acc x : (forall y, In y acc -> 1 <= rr_amt y) -> 1 <= snd x ->
  forall y, In y (sum_into acc x) -> 1 <= rr_amt y.
Proof.
  destruct x as [[p rc] a]. cbn [snd]. induction acc as [|z r IH]; cbn [sum_into fst snd]; intros H Ha y.
  - intros [<-|[]]. cbn [rr_amt]. assumption.
  - destruct ((rr_rp z =? p) && (rr_rc z =? rc)); cbn [In].
    + intros [<-|Hy]; [cbn [rr_amt]; specialize (H z (or_introl eq_refl)); lia|apply H; right; assumption].
    + intros [<-|Hy]; [apply H; left; reflexivity|]. apply IH; [intros w Hw; apply H; right; assumption|assumption|assumption].
Qed.
Lemma fold_sum_pos l : forall acc, (forall y, In y acc -> 1 <= rr_amt y) -> (forall x, In x l -> 1 <= snd x) ->
  forall y, In y (fold_left sum_into l acc) -> 1 <= rr_amt y.
Proof.
  induction l as [|x l IH]; intros acc Ha Hl; cbn [fold_left]; [assumption|].
  apply IH; [|intros w Hw; apply Hl; right; assumption].
  apply sum_into_pos; [assumption|apply Hl; left; reflexivity].
Qed.

Lemma NoDup_nodupb l : NoDup l -> nodupb l = true.
Proof.
  induction 1 as [|x l Hx _ IH]; cbn [nodupb]; [reflexivity|]. rewrite IH, andb_true_r. apply negb_true_iff.
  destruct (memZ x l) eqn:E; [apply memZ_In in E; contradiction|reflexivity].
Qed.

Theorem c02_claim_request_wf : forall v q d c k proj user ty v',
  amounts_pos q -> In c (spec_candidates v q d) ->
  req_wf (AllocPut v' (cons_in_of c k proj user ty)) = true.
Proof.
  intros v q d c k proj user ty v' Hpos Hc. pose proof (c02_amounts_spec v q d c Hc) as [_ Hkeys].
  apply spec_candidates_correct in Hc. destruct Hc as [a [Ha ->]].
  assert (Hamt : forall x, In x (cr_rrs (creq_of q a)) -> 1 <= rr_amt x).
  { unfold creq_of, summed. cbn [cr_rrs]. apply fold_sum_pos; [intros ? []|].
    intros pl Hpl. unfold placements in Hpl. apply in_app_iff in Hpl. destruct Hpl as [Hpl|Hpl].
    - apply in_map_iff in Hpl. destruct Hpl as [[p y] [<- Hin]]. cbn [snd]. apply in_combine_r in Hin.
      unfold un_resources in Hin. destruct (unsuffixed_group q) as [g|] eqn:E; [|destruct Hin].
      apply (Hpos g (unsuffixed_in q g E) y Hin).
    - apply in_flat_map in Hpl. destruct Hpl as [[p g] [Hin Hpl]]. apply in_map_iff in Hpl.
      destruct Hpl as [y [<- Hy]]. cbn [snd]. apply in_combine_r in Hin. apply (Hpos g (suffixed_in q g Hin) y Hy). }
  cbn [req_wf]. unfold cons_in_wf, cons_in_of. cbn [ci_allocs]. apply andb_true_iff. split.
  - apply forallb_forall. intros al Hal. apply in_map_iff in Hal. destruct Hal as [p [<- Hp]].
    unfold alloc_in_wf, alloc_in_of. cbn [ai_res]. rewrite !andb_true_iff. repeat split.
    + apply forallb_forall. intros y Hy. apply in_map_iff in Hy. destruct Hy as [x [<- Hx]]. apply filter_In in Hx.
      cbn [snd]. apply Z.leb_le. apply Hamt. tauto.
    + apply NoDup_nodupb. rewrite map_map. cbn [fst].
      assert (Hn := filter_keys_nodup (creq_of q a) Hkeys p).
      clear - Hn. induction (filter _ _) as [|x l IH]; cbn [map] in *; [constructor|].
      inversion Hn as [|? ? Hx Hl]; subst. constructor; [|apply IH; assumption].
      intro H. apply Hx. apply in_map_iff in H. destruct H as [y [E Hy]]. apply in_map_iff. exists y. split; [congruence|assumption].
    + apply negb_true_iff. unfold providers_of in Hp. apply (proj1 (dedup_In _ _)) in Hp. apply in_map_iff in Hp.
      destruct Hp as [x [E Hx]].
      assert (Hf : In x (filter (fun y => rr_rp y =? p) (cr_rrs (creq_of q a)))) by (apply filter_In; split; [assumption|apply Z.eqb_eq; assumption]).
      destruct (filter _ _); [destruct Hf|reflexivity].
  - rewrite map_map. cbn [ai_rp alloc_in_of]. rewrite map_id. apply NoDup_nodupb. apply NoDup_dedup.
Qed.
