(* C02, part 2 - the CODE MODEL (Model/Candidates.v:candidates): every provider named by a returned
   candidate exists, and has a provider summary carrying the capacity / usage derived from the database. *)
From PV Require Import Spec.CandSpec Proofs.C13 Proofs.C03 Proofs.C02.

(* database hypotheses: unique uuids; the root column of every provider names a root provider *)
Definition rps_wf (d : db) : Prop :=
  NoDup (map rp_uuid (rps d)) /\ forall r, In r (rps d) -> is_root d (rp_root r) = true.

Definition ex (d : db) (p : Z) : Prop := In p (map rp_uuid (rps d)).
(* (provider, root) pairs as the queries return them *)
Definition pair_ok (d : db) (pr : Z * Z) : Prop :=
  ex d (fst pr) /\ snd pr = root_of d (fst pr) /\ is_root d (snd pr) = true.
(* the invariant of every AllocationRequest built by the pipeline, relative to summaries_by_id *)
Definition creq_inv (d : db) (built : list Z) (c : creq) : Prop :=
  (forall x, In x (cr_rrs c) -> ex d (rr_rp x) /\ In (root_of d (rr_rp x)) built) /\
  (forall kv, In kv (cr_maps c) -> forall p, In p (snd kv) -> ex d p).

Lemma creq_inv_mono d b b' c : incl b b' -> creq_inv d b c -> creq_inv d b' c.
Proof. intros Hi [H1 H2]. split; [|assumption]. intros x Hx. destruct (H1 x Hx). auto. Qed.

Lemma unionZ_In x a b : In x (unionZ a b) <-> In x a \/ In x b.
Proof.
  unfold unionZ, diffZ. rewrite in_app_iff, filter_In. split; [tauto|].
  intros [H|H]; [tauto|]. destruct (memZ x a) eqn:E; [apply memZ_In in E; tauto|]. right. split; [assumption|].
  reflexivity.
Qed.
Lemma interZ_In x a b : In x (interZ a b) <-> In x a /\ In x b.
Proof. unfold interZ. rewrite filter_In, memZ_In. tauto. Qed.

Section Model.
  Variable d : db.
  Hypothesis Hwf : rps_wf d.

  Lemma root_of_row r : In r (rps d) -> root_of d (rp_uuid r) = rp_root r.
  Proof.
    intro H. unfold root_of. assert (F : find_rp d (rp_uuid r) = Some r) by (apply find_rp_iff; [apply Hwf|auto]).
    rewrite F. reflexivity.
  Qed.
  Lemma row_pair_ok r : In r (rps d) -> pair_ok d (rp_uuid r, rp_root r).
  Proof.
    intro H. unfold pair_ok, ex. cbn [fst snd]. split; [apply in_map; assumption|].
    split; [symmetry; apply root_of_row; assumption|apply Hwf; assumption].
  Qed.

  (* ---------------------------------------------------------------- the queries *)
  Lemma gpwr_ok rc amount t pr : In pr (get_providers_with_resource d rc amount t) -> pair_ok d pr.
  Proof.
    unfold get_providers_with_resource. rewrite in_flat_map. intros [i [_ H]].
    destruct (_ && _); [|destruct H]. destruct (find_rp d (i_rp i)) as [r|] eqn:F; [|destruct H].
    apply find_rp_l_Some in F. destruct F as [Hr _].
    destruct (match t with Some t0 => rp_root r =? t0 | None => true end); [|destruct H].
    destruct H as [<-|[]]. apply row_pair_ok. assumption.
  Qed.
  Lemma with_root_ok al fo pr : In pr (get_providers_with_root d al fo) -> pair_ok d pr.
  Proof.
    unfold get_providers_with_root. rewrite in_map_iff. intros [r [<- H]]. apply filter_In in H.
    apply row_pair_ok. tauto.
  Qed.

  Definition ctx_ok (ctx : rg_ctx) : Prop :=
    forall rcl, In rcl (rg_with_resource ctx) -> forall pr, In pr (snd rcl) -> pair_ok d pr.

  Lemma with_resource_all_ok t res l : rps_with_resource_all d t res = Some l ->
    forall rcl, In rcl l -> forall pr, In pr (snd rcl) -> pair_ok d pr.
  Proof.
    revert l. induction res as [|[rc amount] res IH]; intros l; cbn [rps_with_resource_all].
    - intros [= <-] ? [].
    - destruct (get_providers_with_resource d rc amount t) as [|p0 ps] eqn:E; [discriminate|].
      destruct (rps_with_resource_all d t res) as [t'|]; [|discriminate]. intros [= <-] rcl [<-|Hin] pr Hpr.
      + cbn [snd] in Hpr. rewrite <- E in Hpr. eapply gpwr_ok; eassumption.
      + eapply IH; [reflexivity|eassumption|assumption].
  Qed.
  Lemma mk_rg_ctx_ok g ctx : mk_rg_ctx d g = RVal ctx -> ctx_ok ctx /\ rg_group ctx = g.
  Proof.
    unfold mk_rg_ctx. destruct (negb (forallb _ (g_resources g))); [discriminate|].
    destruct (_ && _); [discriminate|]. destruct (negb _); [discriminate|].
    destruct (match g_in_tree g with None => Some None | Some u => _ end) as [t|]; [|discriminate].
    destruct (rps_with_resource_all d t (g_resources g)) as [l|] eqn:E; [|discriminate].
    intros [= <-]. split; [|reflexivity]. unfold ctx_ok. cbn [rg_with_resource]. eapply with_resource_all_ok; eassumption.
  Qed.

  Lemma last_cases {A} (l : list A) dflt : (l = [] /\ last l dflt = dflt) \/ In (last l dflt) l.
  Proof.
    induction l as [|x l IH]; [left; auto|]. right. cbn [last]. destruct l as [|y l']; [left; reflexivity|].
    destruct IH as [[E _]|H]; [discriminate|]. right. exact H.
  Qed.

  Lemma matching_ok ctx pr : ctx_ok ctx -> In pr (get_provider_ids_matching d ctx) -> pair_ok d pr.
  Proof.
    intro Hc. unfold get_provider_ids_matching.
    destruct (get_provider_ids_for_traits_and_aggs d ctx) as [[filtered|] forb]; [|intros []].
    destruct (rg_with_resource ctx) as [|[rc first] rest] eqn:E.
    - set (provs := get_providers_with_root d filtered forb).
      assert (Hp : forall x, In x (match rg_tree_root ctx with Some t => filter (fun p => snd p =? t) provs | None => provs end)
                             -> pair_ok d x).
      { intros x Hx. destruct (rg_tree_root ctx); [apply filter_In in Hx; destruct Hx as [Hx _]|];
          eapply with_root_ok; exact Hx. }
      destruct (is_nil filtered); [apply Hp|]. intro H. apply filter_In in H. apply Hp. tauto.
    - intro H. apply filter_In in H. destruct H as [H _]. unfold ctx_ok in Hc. rewrite E in Hc.
      destruct (last_cases rest (0, first)) as [[_ El]|Hl].
      + rewrite El in H. cbn [snd] in H. apply (Hc (rc, first) (or_introl eq_refl) pr H).
      + apply (Hc _ (or_intror Hl) pr H).
  Qed.

  (* ---------------------------------------------------------------- _alloc_candidates_single_provider *)
  Lemma built_root built ids t : In t ids -> is_root d t = true -> In t (build_provider_summaries d built ids).
  Proof. intros H1 H2. unfold build_provider_summaries. apply unionZ_In. right. apply filter_In. auto. Qed.
  Lemma built_incl built ids : incl built (build_provider_summaries d built ids).
  Proof. intros x Hx. unfold build_provider_summaries. apply unionZ_In. auto. Qed.

  Lemma single_ok rw ctx built tuples l built' :
    (forall pr, In pr tuples -> pair_ok d pr) ->
    alloc_candidates_single_provider d rw ctx built tuples = RVal (l, built') ->
    incl built built' /\ forall c, In c l -> creq_inv d built' c.
  Proof.
    intro Ht. unfold alloc_candidates_single_provider. destruct (is_nil tuples); [discriminate|].
    intros [= <- <-]. split; [apply built_incl|]. intros c Hc. apply in_flat_map in Hc. destruct Hc as [t [Hin Hc]].
    destruct (Ht t Hin) as [Hex [Hroot Hisr]].
    assert (Hbase : forall anchor, creq_inv d (build_provider_summaries d built (dedup (map snd tuples)))
              (mkCreq anchor (cr_rrs (allocation_request_for_provider d (rg_group ctx) (fst t)))
                             (cr_maps (allocation_request_for_provider d (rg_group ctx) (fst t))))).
    { intro anchor. unfold allocation_request_for_provider, creq_inv. cbn [cr_rrs cr_maps]. split.
      - intros x Hx. apply in_map_iff in Hx. destruct Hx as [y [<- _]]. cbn [rr_rp]. split; [assumption|].
        rewrite <- Hroot. apply built_root; [|assumption]. apply dedup_In. apply in_map. assumption.
      - intros kv [<-|[]] p [<-|[]]. assumption. }
    apply in_app_iff in Hc. destruct Hc as [Hc|Hc].
    - destruct (in_filtered_anchors rw (snd t)); [|destruct Hc]. destruct Hc as [<-|[]].
      specialize (Hbase (root_of d (fst t))). exact Hbase.
    - destruct (has_trait d (fst t) MISC_SHARES_VIA_AGGREGATE); [|destruct Hc].
      apply in_flat_map in Hc. destruct Hc as [an [_ Hc]]. destruct (_ || _); [destruct Hc|].
      destruct Hc as [<-|[]]. apply Hbase.
  Qed.

  (* ---------------------------------------------------------------- the multiple-providers path *)
  Definition rpc_ex (c : rpc) : Prop := ex d (pc_rp c).

  Lemma add_rps_ex l ps rc : (forall c, In c l -> rpc_ex c) -> (forall pr, In pr ps -> ex d (fst pr)) ->
    forall c, In c (add_rps l ps rc) -> rpc_ex c.
  Proof.
    intros Hl Hp c Hc. unfold add_rps in Hc. apply dedup_by_In in Hc. apply in_app_iff in Hc.
    destruct Hc as [Hc|Hc]; [auto|]. apply in_map_iff in Hc. destruct Hc as [pr [<- Hpr]]. unfold rpc_ex. cbn [pc_rp]. auto.
  Qed.
  Lemma anchors_fst sps pr : In pr (anchors_for_sharing_providers d sps) -> In (fst pr) sps.
  Proof.
    unfold anchors_for_sharing_providers. intro H. apply dedup_by_In in H. apply in_flat_map in H.
    destruct H as [sp [Hsp H]]. apply in_flat_map in H. destruct H as [a [_ H]]. apply in_map_iff in H.
    destruct H as [x [<- _]]. exact Hsp.
  Qed.
  Lemma trees_for_rc_ex rw ctx bad sharing rc with_inv :
    (forall pr, In pr with_inv -> pair_ok d pr) ->
    forall c, In c (trees_for_rc d rw ctx bad sharing rc with_inv) -> rpc_ex c.
  Proof.
    intros Hw c. unfold trees_for_rc.
    set (p0 := add_rps [] with_inv rc).
    assert (H0 : forall c, In c p0 -> rpc_ex c).
    { apply add_rps_ex; [intros ? []|]. intros pr Hpr. apply (Hw pr Hpr). }
    set (sps := get_rps_with_shared_capacity sharing with_inv).
    set (p1 := match sps, rg_tree_root ctx with
               | _ :: _, None => add_rps p0 (anchors_for_sharing_providers d sps) rc
               | _, _ => p0 end).
    assert (H1 : forall c, In c p1 -> rpc_ex c).
    { unfold p1. destruct sps as [|s0 ss] eqn:Es; [assumption|]. destruct (rg_tree_root ctx); [assumption|].
      apply add_rps_ex; [assumption|]. intros pr Hpr. apply anchors_fst in Hpr. rewrite <- Es in Hpr.
      unfold sps, get_rps_with_shared_capacity in Hpr. apply interZ_In in Hpr. destruct Hpr as [_ Hpr].
      apply in_map_iff in Hpr. destruct Hpr as [pr' [<- Hpr']]. apply (Hw pr' Hpr'). }
    set (p2 := match rw_anchor_root_ids rw with Some (x :: l) => filter_by_tree p1 (x :: l) | _ => p1 end).
    assert (H2 : forall c, In c p2 -> rpc_ex c).
    { unfold p2. destruct (rw_anchor_root_ids rw) as [[|x l]|]; try assumption. intros c0 Hc0.
      apply filter_In in Hc0. apply H1. tauto. }
    set (p3 := if is_nil (g_member_of (rg_group ctx)) then p2 else filter_by_rp_or_tree p2 (rg_rps_in_aggs ctx)).
    assert (H3 : forall c, In c p3 -> rpc_ex c).
    { unfold p3. destruct (is_nil _); [assumption|]. intros c0 Hc0. apply filter_In in Hc0. apply H2. tauto. }
    destruct (is_nil (g_forbidden_aggs (rg_group ctx))); [apply H3|]. intro Hc. apply filter_In in Hc. apply H3. tauto.
  Qed.
  Lemma merge_ex self other : (forall c, In c self -> rpc_ex c) -> (forall c, In c other -> rpc_ex c) ->
    forall c, In c (merge_common_trees self other) -> rpc_ex c.
  Proof.
    intros Hs Ho c. unfold merge_common_trees. destruct (is_nil self); [apply Ho|]. destruct (is_nil other); [apply Hs|].
    intro H. apply filter_In in H. destruct H as [H _]. apply dedup_by_In in H. apply in_app_iff in H. destruct H; auto.
  Qed.
  Lemma trees_loop_ex rw ctx bad sharing : forall res acc,
    (forall rcl, In rcl res -> forall pr, In pr (snd rcl) -> pair_ok d pr) ->
    (forall c, In c acc -> rpc_ex c) ->
    forall c, In c (trees_loop d rw ctx bad sharing acc res) -> rpc_ex c.
  Proof.
    induction res as [|[rc with_inv] rest IH]; intros acc Hres Hacc c; cbn [trees_loop]; [apply Hacc|].
    destruct (trees_for_rc d rw ctx bad sharing rc with_inv) as [|p0 ps] eqn:E; [intros []|].
    destruct (merge_common_trees acc (p0 :: ps)) as [|m0 ms] eqn:Em; [intros []|].
    apply IH; [intros rcl Hr; apply Hres; right; assumption|].
    intros c0 Hc0. rewrite <- Em in Hc0. revert c0 Hc0. apply merge_ex; [assumption|].
    intros c1 Hc1. rewrite <- E in Hc1. revert c1 Hc1. apply trees_for_rc_ex.
    intros pr Hpr. apply (Hres (rc, with_inv) (or_introl eq_refl) pr Hpr).
  Qed.
  Lemma trees_matching_ex rw ctx sharing : ctx_ok ctx ->
    forall c, In c (get_trees_matching_all d rw ctx sharing) -> rpc_ex c.
  Proof.
    intros Hc c. unfold get_trees_matching_all.
    set (provs := trees_loop d rw ctx _ sharing [] (rg_with_resource ctx)).
    assert (Hp : forall c, In c provs -> rpc_ex c) by (apply trees_loop_ex; [exact Hc|intros ? []]).
    destruct (is_nil provs); [intros []|]. destruct (_ || _); [apply Hp|]. intro H. apply filter_In in H. apply Hp. tauto.
  Qed.

  Lemma multi_ok ctx built cands l built' :
    (forall c, In c cands -> rpc_ex c) ->
    alloc_candidates_multiple_providers d ctx built cands = RVal (l, built') ->
    incl built built' /\ forall c, In c l -> creq_inv d built' c.
  Proof.
    intro Hex. unfold alloc_candidates_multiple_providers. destruct (is_nil cands); [discriminate|].
    destruct (negb (forallb _ cands)) eqn:E; [discriminate|]. apply negb_false_iff in E. rewrite forallb_forall in E.
    intros [= <- <-]. split; [apply built_incl|]. intros c Hc. apply in_flat_map in Hc. destruct Hc as [root [_ Hc]].
    unfold alloc_requests_for_tree in Hc. apply in_flat_map in Hc. destruct Hc as [combo [Hcombo Hc]].
    destruct (check_traits_for_alloc_request d _ _ _); [|destruct Hc]. destruct Hc as [<-|[]].
    assert (Hrr : forall x, In x combo -> exists c0, In c0 cands /\ rr_rp x = pc_rp c0).
    { intros x Hx. apply in_product in Hcombo.
      assert (Hg : forall ls, Forall2 (fun (y : rreq) (s0 : list rreq) => In y s0) combo ls ->
                   exists s0, In s0 ls /\ In x s0).
      { clear - Hx. intros ls F. induction F as [|y s0 l0 ss Hy _ IH]; [destruct Hx|].
        destruct Hx as [<-|Hx]; [exists s0; split; [left; reflexivity|assumption]|].
        destruct (IH Hx) as [s1 [H1 H2]]. exists s1. split; [right; assumption|assumption]. }
      destruct (Hg _ Hcombo) as [s0 [Hs0 Hxs]]. apply in_map_iff in Hs0. destruct Hs0 as [rc [<- _]].
      apply in_map_iff in Hxs. destruct Hxs as [c0 [<- Hc0]]. apply filter_In in Hc0. destruct Hc0 as [Hc0 _].
      apply filter_In in Hc0. destruct Hc0 as [Hc0 _]. exists c0. split; [assumption|reflexivity]. }
    unfold creq_inv. cbn [cr_rrs cr_maps]. split.
    - intros x Hx. destruct (Hrr x Hx) as [c0 [Hc0 ->]]. split; [apply Hex; assumption|].
      apply memZ_In. apply E. assumption.
    - intros kv [<-|[]] p Hp. cbn [snd] in Hp. apply (proj1 (dedup_In _ _)) in Hp. apply in_map_iff in Hp.
      destruct Hp as [x [<- Hx]]. destruct (Hrr x Hx) as [c0 [Hc0 ->]]. apply Hex. assumption.
  Qed.

  (* ---------------------------------------------------------------- one group, all groups *)
  Lemma one_request_ok rw ctx st l st' : ctx_ok ctx ->
    get_by_one_request d rw ctx st = RVal (l, st') ->
    incl (st_built st) (st_built st') /\ forall c, In c l -> creq_inv d (st_built st') c.
  Proof.
    intros Hc. unfold get_by_one_request. destruct (_ && _).
    - destruct (_ && _); [discriminate|].
      destruct (alloc_candidates_multiple_providers d ctx (st_built st) _) as [[l0 b0]| | |] eqn:E; try discriminate.
      intros [= <- <-]. cbn [st_built]. eapply multi_ok; [|exact E]. apply trees_matching_ex. assumption.
    - destruct (alloc_candidates_single_provider d rw ctx (st_built st) _) as [[l0 b0]| | |] eqn:E; try discriminate.
      intros [= <- <-]. cbn [st_built]. eapply single_ok; [|exact E]. intros pr Hpr. eapply matching_ok; eassumption.
  Qed.

  Definition cands_inv (built : list Z) (cands : list (rgroup * list creq)) : Prop :=
    forall gl, In gl cands -> forall c, In c (snd gl) -> creq_inv d built c.

  Lemma groups_loop_ok rw : forall gs st acc cands st',
    cands_inv (st_built st) acc ->
    groups_loop d rw st gs acc = RVal (cands, st') -> cands_inv (st_built st') cands.
  Proof.
    induction gs as [|g gs IH]; intros st acc cands st' Hacc; cbn [groups_loop].
    - intros [= <- <-]. intros gl Hgl. apply in_rev in Hgl. apply Hacc. assumption.
    - destruct (mk_rg_ctx d g) as [ctx| | |] eqn:Ec; try discriminate.
      destruct (mk_rg_ctx_ok g ctx Ec) as [Hctx _].
      destruct (get_by_one_request d rw ctx st) as [[l st1]| | |] eqn:E1; try discriminate.
      destruct (one_request_ok rw ctx st l st1 Hctx E1) as [Hincl Hl].
      destruct l as [|c0 l0]; [discriminate|]. apply IH.
      intros gl [<-|Hgl] c Hc; [apply Hl; exact Hc|].
      eapply creq_inv_mono; [exact Hincl|]. apply (Hacc gl Hgl c Hc).
  Qed.

  (* ---------------------------------------------------------------- merging *)
  Lemma Forall2_In_some {A} (x : A) l : forall ls, In x l -> Forall2 (fun y (s0 : list A) => In y s0) l ls ->
    exists s0, In s0 ls /\ In x s0.
  Proof.
    intros ls Hx F. induction F as [|y s0 l0 ss Hy _ IH]; [destruct Hx|].
    destruct Hx as [<-|Hx]; [exists s0; split; [left; reflexivity|assumption]|].
    destruct (IH Hx) as [s1 [H1 H2]]. exists s1. split; [right; assumption|assumption].
  Qed.

  Lemma merge_combos_in rw cands combo c : In combo (merge_combos d rw cands) -> In c combo ->
    exists gl, In gl cands /\ In c (snd gl).
  Proof.
    unfold merge_combos. intros H Hc. apply in_flat_map in H. destruct H as [a [_ H]].
    destruct (existsb is_nil _); [destruct H|]. apply in_map_iff in H. destruct H as [combo' [<- H]].
    apply filter_In in H. destruct H as [H _]. apply in_product in H. apply in_map_iff in Hc.
    destruct Hc as [gc [<- Hgc]]. destruct (Forall2_In_some gc combo' _ Hgc H) as [s0 [Hs0 Hin]].
    apply in_map_iff in Hs0. destruct Hs0 as [gl [<- Hgl]]. apply in_map_iff in Hin. destruct Hin as [c1 [<- Hc1]].
    apply filter_In in Hc1. exists gl. cbn [snd]. tauto.
  Qed.

  Lemma add_rr_rp acc x y : In y (add_rr acc x) -> (exists z, In z acc /\ rr_rp y = rr_rp z) \/ rr_rp y = rr_rp x.
  Proof.
    induction acc as [|z r IH]; cbn [add_rr]; [intros [E|[]]; right; rewrite E; reflexivity|].
    destruct (_ && _); cbn [In].
    - intros [E|H]; left; [exists z; rewrite <- E; cbn [rr_rp]; auto|exists y; auto].
    - intros [E|H]; [left; exists y; rewrite E; auto|].
      destruct (IH H) as [[w [Hw E]]|E]; [left; exists w; auto|auto].
  Qed.
  Lemma fold_add_rr_rp l : forall acc y, In y (fold_left add_rr l acc) -> exists z, In z (acc ++ l) /\ rr_rp y = rr_rp z.
  Proof.
    induction l as [|x l IH]; intros acc y; cbn [fold_left].
    - intro H. exists y. rewrite app_nil_r. auto.
    - intro H. destruct (IH _ _ H) as [z [Hz E]]. apply in_app_iff in Hz. destruct Hz as [Hz|Hz].
      + destruct (add_rr_rp _ _ _ Hz) as [[w [Hw E']]|E'].
        * exists w. split; [apply in_app_iff; auto|congruence].
        * exists x. split; [apply in_app_iff; right; left; reflexivity|congruence].
      + exists z. split; [apply in_app_iff; right; right; assumption|assumption].
  Qed.
  Lemma add_map_in acc kv kv' p : In kv' (add_map acc kv) -> In p (snd kv') ->
    (exists k, In k acc /\ In p (snd k)) \/ In p (snd kv).
  Proof.
    induction acc as [|z r IH]; cbn [add_map]; [intros [E|[]] Hp; right; rewrite E; assumption|].
    destruct (fst z =? fst kv); cbn [In].
    - intros [E|H] Hp.
      + rewrite <- E in Hp. cbn [snd] in Hp. apply unionZ_In in Hp. destruct Hp; [left; exists z; auto|auto].
      + left. exists kv'. auto.
    - intros [E|H] Hp; [left; exists kv'; rewrite E; auto|].
      destruct (IH H Hp) as [[k [Hk Hpk]]|E]; [left; exists k; auto|auto].
  Qed.
  Lemma fold_add_map_in l : forall acc kv' p, In kv' (fold_left add_map l acc) -> In p (snd kv') ->
    exists k, In k (acc ++ l) /\ In p (snd k).
  Proof.
    induction l as [|x l IH]; intros acc kv' p; cbn [fold_left].
    - intros H Hp. exists kv'. rewrite app_nil_r. auto.
    - intros H Hp. destruct (IH _ _ _ H Hp) as [k [Hk Hpk]]. apply in_app_iff in Hk. destruct Hk as [Hk|Hk].
      + destruct (add_map_in _ _ _ _ Hk Hpk) as [[w [Hw Hpw]]|E].
        * exists w. split; [apply in_app_iff; auto|assumption].
        * exists x. split; [apply in_app_iff; right; left; reflexivity|assumption].
      + exists k. split; [apply in_app_iff; right; right; assumption|assumption].
  Qed.

  Lemma consolidate_inv built combo : (forall c, In c combo -> creq_inv d built c) ->
    creq_inv d built (consolidate_allocation_requests combo).
  Proof.
    intro H. unfold consolidate_allocation_requests, creq_inv. cbn [cr_rrs cr_maps]. split.
    - intros x Hx. apply fold_add_rr_rp in Hx. destruct Hx as [z [Hz ->]]. cbn [app] in Hz.
      apply in_flat_map in Hz. destruct Hz as [c [Hc Hz]]. apply (proj1 (H c Hc) z Hz).
    - intros kv Hkv p Hp. destruct (fold_add_map_in _ _ _ _ Hkv Hp) as [k [Hk Hpk]]. cbn [app] in Hk.
      apply in_flat_map in Hk. destruct Hk as [c [Hc Hk]]. apply (proj2 (H c Hc) k Hk p Hpk).
  Qed.

  (* _merge_candidates: the requests keep the invariant, and every provider supplying resources has its summary *)
  Lemma merge_candidates_ok rw built cands areqs sums :
    cands_inv built cands ->
    merge_candidates d built (merge_combos d rw cands) = (areqs, sums) ->
    (forall c, In c areqs -> creq_inv d built c) /\
    (forall c x, In c areqs -> In x (cr_rrs c) ->
       exists r, In r (rps d) /\ rp_uuid r = rr_rp x /\ In (summary_of d r) sums).
  Proof.
    intros Hinv. unfold merge_candidates.
    remember (dedup_by same_creq (filter (fun c => negb (exceeds_capacity d c))
                (map consolidate_allocation_requests (merge_combos d rw cands)))) as l eqn:El.
    assert (Hl : forall c, In c l -> creq_inv d built c).
    { intros c Hc. rewrite El in Hc. apply dedup_by_In in Hc. apply filter_In in Hc. destruct Hc as [Hc _].
      apply in_map_iff in Hc. destruct Hc as [combo [<- Hcombo]]. apply consolidate_inv.
      intros c0 Hc0. destruct (merge_combos_in _ _ _ _ Hcombo Hc0) as [gl [Hgl Hin]]. apply (Hinv gl Hgl c0 Hin). }
    clear El. destruct l as [|c0 l0]; [intros [= <- <-]; split; [intros ? []|intros ? ? []]|].
    cbv zeta. intros [= <- <-]. split; [exact Hl|]. intros c x Hc Hx. destruct (proj1 (Hl c Hc) x Hx) as [Hex Hb].
    unfold ex in Hex. apply in_map_iff in Hex. destruct Hex as [r [Er Hr]]. exists r. repeat split; try assumption.
    apply in_map. apply filter_In. split; [assumption|].
    assert (Eroot : rp_root r = root_of d (rr_rp x)) by (rewrite <- Er; symmetry; apply root_of_row; assumption).
    rewrite Eroot. apply andb_true_iff. split; apply memZ_In; [assumption|].
    apply (proj2 (dedup_In _ _)).
    assert (Ht : In (root_of d (rr_rp x))
                    (flat_map (fun c => map (fun x => root_of d (rr_rp x)) (cr_rrs c)) (c0 :: l0))).
    { apply in_flat_map. exists c. split; [assumption|]. apply in_map_iff. exists x. auto. }
    exact Ht.
  Qed.

  Lemma exclude_nested_ok rw areqs sums areqs' sums' :
    exclude_nested_providers d rw (areqs, sums) = (areqs', sums') ->
    incl areqs' areqs /\
    (forall c x r, In c areqs' -> In x (cr_rrs c) -> rp_uuid r = rr_rp x -> In (summary_of d r) sums ->
       In (summary_of d r) sums').
  Proof.
    unfold exclude_nested_providers. destruct (_ || _).
    - intros [= <- <-]. split; [apply incl_refl|auto].
    - cbn [fst snd]. intros [= <- <-]. split; [intros c Hc; apply filter_In in Hc; tauto|].
      intros c x r Hc Hx Er Hs. apply filter_In. split; [assumption|]. apply memZ_In. cbn [summary_of ps_rp].
      rewrite Er. apply in_flat_map. exists c. split; [assumption|]. apply in_map. assumption.
  Qed.
End Model.

(* ================================================================ theorems about the code model *)
(* what _transform_provider_summaries shows of a summary at version v *)
Definition psum_view (v : Z) (q : query) (s : psum) : psum :=
  let requested := flat_map (fun g => map fst (g_resources g)) (qy_groups q) in
  mkPsum (ps_rp s) (filter (fun r => (27 <=? v) || memZ (fst (fst r)) requested) (ps_res s))
         (if 17 <=? v then ps_traits s else []) (if 29 <=? v then ps_parent s else None)
         (if 29 <=? v then ps_root s else -1).

Lemma candidates_gen_COk k v q d a s : candidates_gen k v q d = COk a s ->
  (a = [] /\ s = []) \/
  exists rw st cands,
    groups_loop d rw (mkRwState (get_sharing_providers d) []) (qy_groups q) [] = RVal (cands, st) /\
    finish_requests d v q rw (st_built st) cands = COk a s.
Proof.
  unfold candidates_gen. destruct (v <? 10); [discriminate|]. destruct (negb (query_wf v q)); [discriminate|].
  unfold get_by_requests_gen. destruct (process_anchor_traits d q) as [anchors| | |]; try discriminate.
  2:{ intros [= <- <-]. left. auto. }
  set (rw := mkRwCtx _ _ _ _ _).
  destruct (groups_loop d rw _ (qy_groups q) []) as [[cands st]| | |] eqn:E; try discriminate.
  2:{ intros [= <- <-]. left. auto. }
  intro H. right. exists rw, st, cands. split; [exact E|].
  destruct (k || negb _); [exact H|].
  destruct (finish_requests d v q rw (st_built st) cands) as [| | |ua us] eqn:Eu; try discriminate.
  destruct (result_same _ _); [exact H|discriminate].
Qed.

Lemma finish_COk d v q rw built cands a s : rps_wf d -> cands_inv d built cands ->
  finish_requests d v q rw built cands = COk a s ->
  forall c, In c a ->
    (forall p, In p (creq_providers c) -> ex d p) /\
    (forall x, In x (cr_rrs c) ->
       exists r, In r (rps d) /\ rp_uuid r = rr_rp x /\ In (psum_view v q (summary_of d r)) s).
Proof.
  intros Hwf Hinv. unfold finish_requests, transform.
  destruct (merge_candidates d built (merge_combos d rw cands)) as [ar su] eqn:Em.
  destruct (exclude_nested_providers d rw (ar, su)) as [ar' su'] eqn:Ee. cbn [fst snd].
  intros [= <- <-] c Hc. apply in_map_iff in Hc. destruct Hc as [c1 [<- Hc1]].
  destruct (merge_candidates_ok d Hwf rw built cands ar su Hinv Em) as [Hi Hs].
  destruct (exclude_nested_ok d rw ar su ar' su' Ee) as [Hincl Hkeep].
  assert (Hc1' : In c1 ar) by (apply Hincl; assumption). destruct (Hi c1 Hc1') as [Hrr Hmaps]. split.
  - intros p Hp. unfold creq_providers in Hp. cbn [cr_rrs cr_maps] in Hp. apply in_app_iff in Hp. destruct Hp as [Hp|Hp].
    + apply in_map_iff in Hp. destruct Hp as [x [<- Hx]]. apply (Hrr x Hx).
    + destruct (34 <=? v); [|destruct Hp]. apply in_flat_map in Hp. destruct Hp as [kv [Hkv Hp]]. apply (Hmaps kv Hkv p Hp).
  - cbn [cr_rrs]. intros x Hx. destruct (Hs c1 x Hc1' Hx) as [r [Hr [Er Hin]]]. exists r. repeat split; try assumption.
    change (In (psum_view v q (summary_of d r)) (map (psum_view v q) su')). apply in_map.
    eapply Hkeep; eassumption.
Qed.

Lemma groups_loop_start d : cands_inv d [] [].
Proof. intros gl []. Qed.

(* every provider named by a candidate of the model (allocations and mappings) exists *)
Theorem c02_providers_exist : forall k v q d a s, rps_wf d ->
  candidates_gen k v q d = COk a s ->
  forall c, In c a -> forall p, In p (creq_providers c) -> exists r, find_rp d p = Some r.
Proof.
  intros k v q d a s Hwf H c Hc p Hp. apply candidates_gen_COk in H. destruct H as [[-> _]|[rw [st [cands [Hg Hf]]]]]; [destruct Hc|].
  assert (Hinv : cands_inv d (st_built st) cands).
  { eapply groups_loop_ok; [exact Hwf| |exact Hg]. cbn [st_built]. apply groups_loop_start. }
  destruct (finish_COk d v q rw _ cands a s Hwf Hinv Hf c Hc) as [H1 _]. apply find_rp_exists. apply H1. assumption.
Qed.

(* every provider that supplies resources to a candidate has a provider summary, and it is the summary
   derived from d (summary_of: capacity int((total - reserved) * ratio), SUM(used)) as shown at version v *)
Theorem c02_summaries : forall k v q d a s, rps_wf d ->
  candidates_gen k v q d = COk a s ->
  forall c x, In c a -> In x (cr_rrs c) ->
    exists r, find_rp d (rr_rp x) = Some r /\ In (psum_view v q (summary_of d r)) s.
Proof.
  intros k v q d a s Hwf H c x Hc Hx. apply candidates_gen_COk in H. destruct H as [[-> _]|[rw [st [cands [Hg Hf]]]]]; [destruct Hc|].
  assert (Hinv : cands_inv d (st_built st) cands).
  { eapply groups_loop_ok; [exact Hwf| |exact Hg]. cbn [st_built]. apply groups_loop_start. }
  destruct (finish_COk d v q rw _ cands a s Hwf Hinv Hf c Hc) as [_ H2]. destruct (H2 x Hx) as [r [Hr [Er Hin]]].
  exists r. split; [|assumption]. apply find_rp_iff; [apply Hwf|auto].
Qed.
