(* C02 - claimability for the candidates of the CODE MODEL: whatever GET /allocation_candidates returns (Model/Candidates.v,
   sharing providers included), sent as the allocations of a new consumer to PUT /allocations/{consumer} on the same
   database, is answered 204 by the model of the write path. Composition of the soundness of the search
   (Proofs/C03w.v: every returned candidate is, up to same_creq, one of the specification) with the claimability of the
   specification's candidates (Proofs/C02c.v).
   The request is built from the returned candidate itself (cons_in_of c ..): the three facts the write path needs - the
   (provider, class) keys of the candidate are distinct, its providers exist, the capacity check accepts any list of
   allocations drawn from its entries - do not depend on the order of the entries, so nothing has to be transported
   along same_creq but membership of the entries. *)
From PV Require Import Spec.CandSpec Proofs.Defs Proofs.C13 Proofs.C03 Proofs.C02 Proofs.C02m Proofs.C02c Proofs.C03s Proofs.C03p
                       Proofs.C03u Proofs.C03w.
From PV Require Proofs.C01 Proofs.C04 Proofs.C08 Proofs.C09 Proofs.Reach.

(* ================================================================ the allocations of a returned candidate *)
Lemma fold_add_rr_nodup l : NoDup (rr_keys (fold_left add_rr l [])).
Proof.
  assert (E : l = map to_rr (map (fun y => (rr_rp y, rr_rc y, rr_amt y)) l)).
  { rewrite map_map. rewrite <- (map_id l) at 1. apply map_ext. intros [p rc amt]. reflexivity. }
  rewrite E, fold_add_rr_sum_into. apply fold_sum_nodup. constructor.
Qed.

(* every returned candidate is the view of a consolidated combination *)
Lemma code_cand_shape v q d a s c : candidates v q d = COk a s -> In c a ->
  exists combo, cr_rrs c = cr_rrs (consolidate_allocation_requests combo).
Proof.
  intros Hcand Hc. destruct (candidates_inv v q d a s Hcand) as [_ [->|[anchors [cands [st [_ [_ Hfin]]]]]]]; [destruct Hc|].
  unfold finish_requests, transform in Hfin. injection Hfin as <- _. apply in_map_iff in Hc. destruct Hc as [c1 [<- Hc1]].
  cbn [cr_rrs].
  set (rw := mkRwCtx _ _ _ _ _) in Hc1. set (mc := merge_candidates d (st_built st) (merge_combos d rw cands)) in Hc1.
  assert (Hin : In c1 (fst mc)).
  { unfold exclude_nested_providers in Hc1. destruct (rw_nested_aware rw || negb (rw_has_trees rw)); [exact Hc1|].
    cbn [fst] in Hc1. apply filter_In in Hc1. tauto. }
  unfold mc, merge_candidates in Hin. set (l := dedup_by same_creq _) in Hin.
  assert (Hin' : In c1 l) by (destruct l; [destruct Hin|exact Hin]).
  unfold l in Hin'. apply dedup_by_In in Hin'. apply filter_In in Hin'. destruct Hin' as [Hin' _].
  apply in_map_iff in Hin'. destruct Hin' as [combo [<- _]]. exists combo. reflexivity.
Qed.
Lemma code_cand_keys_nodup v q d a s c : candidates v q d = COk a s -> In c a -> NoDup (rr_keys (cr_rrs c)).
Proof.
  intros Hcand Hc. destruct (code_cand_shape v q d a s c Hcand Hc) as [combo ->].
  unfold consolidate_allocation_requests. cbn [cr_rrs]. apply fold_add_rr_nodup.
Qed.

(* ================================================================ the claim *)
Theorem c02_code_claimable : forall cf v q d a s c k proj user ty v',
  RI d -> inv_keys_nodup d -> rps_wf d -> parentless_root d -> cap_ok d -> un_rcs_nodup q ->
  candidates v q d = COk a s -> In c a -> 28 <= v' -> find_cons d k = None ->
  status (snd (step cf d (AllocPut v' (cons_in_of c k proj user ty)))) = 204.
Proof.
  intros cf v q d a s c k proj user ty v' Hri Hkn Hwf Hpr Hcap Hrcs Hcand Hc Hv Hnew.
  destruct (candidates_inv v q d a s Hcand) as [Hqwf _].
  pose proof (amounts_pos_nonneg q (query_wf_amounts_pos v q Hqwf)) as Hpos.
  (* the candidate is one of the specification, up to the order of its entries *)
  destruct (c03_sound_gen v q d a s Hwf Hpr Hcap (RI_aggs_wf d Hri) Hrcs Hcand c Hc) as [c' [Hc' Hsame]].
  apply in_map_iff in Hc'. destruct Hc' as [c'' [<- Hc'']].
  assert (Hin : forall x, In x (cr_rrs c) -> In x (cr_rrs c'')).
  { intros x Hx. unfold same_creq in Hsame. apply andb_true_iff in Hsame. destruct Hsame as [Hs _].
    apply (same_rrs_In _ _ Hs) in Hx. exact Hx. }
  apply alloc_put_204; try assumption.
  - apply ri_no_allocs_of_new; assumption.
  - apply (code_cand_keys_nodup v q d a s c Hcand Hc).
  - intros p Hp. apply (c02_providers_exist false v q d a s Hwf Hcand c Hc). unfold creq_providers. apply in_app_iff. left. exact Hp.
  - intros l Hnd Hl. apply (c02_claimable_partial0 v q d c'' l (invs_wf0_of d Hri Hkn) Hpos Hc'' Hnd).
    intros b Hb. destruct (Hl b Hb) as [x [Hx Hrest]]. exists x. split; [apply Hin; exact Hx|exact Hrest].
Qed.

(* in every state reached by well-formed requests: no hypothesis on the database is left *)
Theorem c02_code_claimable_reachable : forall cf l v q a s c k proj user ty v',
  reqs_wf l -> un_rcs_nodup q ->
  candidates v q (run cf db0 l) = COk a s -> In c a -> 28 <= v' -> find_cons (run cf db0 l) k = None ->
  status (snd (step cf (run cf db0 l) (AllocPut v' (cons_in_of c k proj user ty)))) = 204.
Proof.
  intros cf l v q a s c k proj user ty v' Hl Hrcs Hcand Hc Hv Hnew. pose proof (C09.c09_invariant cf l) as HF.
  eapply c02_code_claimable; try eassumption.
  - apply C08.run_RI; [apply Reach.ri_db0|exact Hl].
  - apply (C04.c04_inv_keys_reachable cf). exists l. auto.
  - apply Forest_rps_wf. exact HF.
  - apply Forest_parentless_root. exact HF.
  - apply usage_nonneg_cap_ok. apply allocs_pos_usage_nonneg. apply (C01.c01_allocs_pos_reachable cf). exists l. auto.
Qed.

(* the same, for the predicate `reachable` *)
Corollary c02_code_claimable_reach : forall cf d v q a s c k proj user ty v',
  reachable cf d -> un_rcs_nodup q ->
  candidates v q d = COk a s -> In c a -> 28 <= v' -> find_cons d k = None ->
  status (snd (step cf d (AllocPut v' (cons_in_of c k proj user ty)))) = 204.
Proof.
  intros cf d v q a s c k proj user ty v' [l [Hl ->]]. apply c02_code_claimable_reachable. exact Hl.
Qed.

(* ---------------------------------------------------------------- the claim is a legal request (req_wf) *)
Lemma claim_request_wf_gen c k proj user ty v' :
  NoDup (rr_keys (cr_rrs c)) -> (forall x, In x (cr_rrs c) -> 1 <= rr_amt x) ->
  req_wf (AllocPut v' (cons_in_of c k proj user ty)) = true.
Proof.
  intros Hkeys Hamt. cbn [req_wf]. unfold cons_in_wf, cons_in_of. cbn [ci_allocs]. apply andb_true_iff. split.
  - apply forallb_forall. intros al Hal. apply in_map_iff in Hal. destruct Hal as [p [<- Hp]].
    unfold alloc_in_wf, alloc_in_of. cbn [ai_res]. rewrite !andb_true_iff. repeat split.
    + apply forallb_forall. intros y Hy. apply in_map_iff in Hy. destruct Hy as [x [<- Hx]]. apply filter_In in Hx.
      cbn [snd]. apply Z.leb_le. apply Hamt. tauto.
    + apply NoDup_nodupb. rewrite map_map. cbn [fst].
      assert (Hn := filter_keys_nodup c Hkeys p).
      clear - Hn. induction (filter _ _) as [|x l IH]; cbn [map] in *; [constructor|].
      inversion Hn as [|? ? Hx Hl]; subst. constructor; [|apply IH; assumption].
      intro H. apply Hx. apply in_map_iff in H. destruct H as [y [E Hy]]. apply in_map_iff. exists y. split; [congruence|assumption].
    + apply negb_true_iff. unfold providers_of in Hp. apply (proj1 (dedup_In _ _)) in Hp. apply in_map_iff in Hp.
      destruct Hp as [x [E Hx]].
      assert (Hf : In x (filter (fun y => rr_rp y =? p) (cr_rrs c))) by (apply filter_In; split; [assumption|apply Z.eqb_eq; assumption]).
      destruct (filter _ _); [destruct Hf|reflexivity].
  - rewrite map_map. cbn [ai_rp alloc_in_of]. rewrite map_id. apply NoDup_nodupb. apply NoDup_dedup.
Qed.

Theorem c02_code_claim_request_wf : forall v q d a s c k proj user ty v',
  rps_wf d -> parentless_root d -> cap_ok d -> aggs_wf d -> un_rcs_nodup q ->
  candidates v q d = COk a s -> In c a ->
  req_wf (AllocPut v' (cons_in_of c k proj user ty)) = true.
Proof.
  intros v q d a s c k proj user ty v' Hwf Hpr Hcap Hag Hrcs Hcand Hc.
  destruct (candidates_inv v q d a s Hcand) as [Hqwf _]. pose proof (query_wf_amounts_pos v q Hqwf) as Hpos.
  destruct (c03_sound_gen v q d a s Hwf Hpr Hcap Hag Hrcs Hcand c Hc) as [c' [Hc' Hsame]].
  apply in_map_iff in Hc'. destruct Hc' as [c'' [<- Hc'']].
  apply claim_request_wf_gen; [apply (code_cand_keys_nodup v q d a s c Hcand Hc)|].
  intros x Hx. unfold same_creq in Hsame. apply andb_true_iff in Hsame. destruct Hsame as [Hs _].
  apply (same_rrs_In _ _ Hs) in Hx. cbn [creq_view cr_rrs] in Hx.
  apply spec_candidates_correct in Hc''. destruct Hc'' as [asg [_ ->]]. apply (summed_pos q asg Hpos x Hx).
Qed.

(* hence the state after the claim is again a reachable state *)
Corollary c02_code_claim_reachable_after : forall cf l v q a s c k proj user ty v',
  reqs_wf l -> un_rcs_nodup q -> candidates v q (run cf db0 l) = COk a s -> In c a ->
  reqs_wf (l ++ [AllocPut v' (cons_in_of c k proj user ty)]).
Proof.
  intros cf l v q a s c k proj user ty v' Hl Hrcs Hcand Hc. unfold reqs_wf. apply Forall_app. split; [exact Hl|].
  constructor; [|constructor]. pose proof (C09.c09_invariant cf l) as HF.
  eapply c02_code_claim_request_wf; try eassumption.
  - apply Forest_rps_wf. exact HF.
  - apply Forest_parentless_root. exact HF.
  - apply usage_nonneg_cap_ok. apply allocs_pos_usage_nonneg. apply (C01.c01_allocs_pos_reachable cf). exists l. auto.
  - apply (reachable_aggs_wf cf). exists l. auto.
Qed.

(* ================================================================ non-vacuity: a candidate with a sharing provider, claimed *)
(* the reachable table and query of Proofs/C03w.v (sharing providers 3 and 5): the first returned candidate
   {3: DISK_GB 2 (sharing provider, serving both groups), 4: VCPU 1} is claimed for the new consumer 100 at 1.39:
   204, and the usage of the sharing provider and of the child provider goes from 0 to the claimed amounts *)
Definition sh_claim : req :=
  AllocPut 39 (cons_in_of (mkCreq (-1) [mkRreq 3 2 2; mkRreq 4 0 1] [(1, [3]); (0, [4; 3])]) 100 1 1 1).
Example c02_code_claimable_nonvacuous :
  reachable (mkCfg 0 0) sh_db /\ un_rcs_nodup sh_query /\
  (exists a s, candidates 39 sh_query sh_db = COk a s /\
               In (mkCreq (-1) [mkRreq 3 2 2; mkRreq 4 0 1] [(1, [3]); (0, [4; 3])]) a) /\
  find_cons sh_db 100 = None /\
  status (snd (step (mkCfg 0 0) sh_db sh_claim)) = 204 /\
  (usage sh_db 3 2, usage sh_db 4 0) = (0, 0) /\
  (let d' := fst (step (mkCfg 0 0) sh_db sh_claim) in (usage d' 3 2, usage d' 4 0)) = (2, 1).
Proof.
  destruct c03_sound_nonvacuous as [Hr [_ [_ [_ [_ [Hq [_ [Hc _]]]]]]]].
  split; [exact Hr|]. split; [exact Hq|]. split.
  { exists [mkCreq (-1) [mkRreq 3 2 2; mkRreq 4 0 1] [(1, [3]); (0, [4; 3])];
            mkCreq (-1) [mkRreq 5 2 1; mkRreq 4 0 1; mkRreq 3 2 1] [(1, [5]); (0, [4; 3])]].
    exists (match candidates 39 sh_query sh_db with COk _ s => s | _ => [] end).
    split; [exact Hc|]. left. reflexivity. }
  split; [timeout 120 vm_compute; reflexivity|]. split; [|split]; timeout 120 vm_compute; reflexivity.
Qed.
(* the same through the theorem *)
Example c02_code_claimable_instance : status (snd (step (mkCfg 0 0) sh_db sh_claim)) = 204.
Proof.
  destruct c02_code_claimable_nonvacuous as [Hr [Hq [[a [s [Hc Hin]]] [Hnew _]]]].
  exact (c02_code_claimable_reach (mkCfg 0 0) sh_db 39 sh_query a s _ 100 1 1 1 39 Hr Hq Hc Hin ltac:(lia) Hnew).
Qed.

(* ================================================================ caps_nonneg is not an invariant (cap_ok is) *)
(* PUT /resource_providers/1/inventories {VCPU: total 1, reserved 2, allocation_ratio 0.5} at 1.39 is accepted:
   int((1 - 2) * 0.5) = int(-0.5) = 0 is not < 0 (the test of _validate_inventory_capacity from 1.26). The stored
   inventory has a negative real capacity: caps_nonneg fails in a reachable state. The theorems for reachable states
   use cap_ok instead, which follows from non-negative usage. *)
Definition ng_ops : list req := [RpCreate 39 1 1 None; InvSet 39 1 0 [mkInvIn 0 1 2 1 1 1 1 (-1)]].
Example c02s_caps_nonneg_not_invariant :
  reqs_wf ng_ops /\ ~ caps_nonneg (run (mkCfg 0 0) db0 ng_ops) /\ cap_ok (run (mkCfg 0 0) db0 ng_ops) /\
  map (fun i => (i_total i, i_reserved i, cap_trunc i, cap_floor i)) (invs (run (mkCfg 0 0) db0 ng_ops)) = [(1, 2, 0, -1)].
Proof.
  assert (Hl : reqs_wf ng_ops) by (unfold reqs_wf, ng_ops; repeat constructor).
  split; [exact Hl|]. split; [|split].
  - intro H. assert (Hin : In (mkInv 1 0 1 2 1 1 1 1 (-1)) (invs (run (mkCfg 0 0) db0 ng_ops))) by (timeout 120 vm_compute; left; reflexivity).
    specialize (H _ Hin). cbn [i_total i_reserved i_rm] in H. lia.
  - apply usage_nonneg_cap_ok. apply allocs_pos_usage_nonneg. apply (C01.c01_allocs_pos_reachable (mkCfg 0 0)). exists ng_ops. auto.
  - timeout 120 vm_compute. reflexivity.
Qed.

Print Assumptions c02_code_claimable.
Print Assumptions c02_code_claimable_reachable.
Print Assumptions c02_code_claimable_reach.
Print Assumptions c02_code_claim_request_wf.
Print Assumptions c02_code_claim_reachable_after.
Print Assumptions c02_code_claimable_nonvacuous.
Print Assumptions c02_code_claimable_instance.
Print Assumptions c02s_caps_nonneg_not_invariant.
