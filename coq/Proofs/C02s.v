(* C02 - claimability for the candidates of the CODE MODEL: whatever GET /allocation_candidates returns (Model/Candidates.v,
   sharing providers included), sent as the allocations of a new consumer to PUT /allocations/{consumer} on the same
   database, is answered 204 by the model of the write path. Composition of the soundness of the search
   (Proofs/C03w.v: every returned candidate is, up to same_creq, one of the specification) with the claimability of the
   specification's candidates (Proofs/C02c.v).
   The request is built from the returned candidate itself (cons_in_of c ..): the three facts the write path needs - the
   (provider, class) keys of the candidate are distinct, its providers exist, the capacity check accepts any list of
   allocations drawn from its entries - do not depend on the order of the entries, so nothing has to be transported
   along same_creq but membership of the entries. *)
From PV Require Import Spec.CandSpec Proofs.Defs Proofs.C13 Proofs.C03 Proofs.C02 Proofs.C02m Proofs.C02c Proofs.C03s Proofs.C03p
                       Proofs.C03u Proofs.C03w.
From PV Require Proofs.C01 Proofs.C04 Proofs.C08 Proofs.C09 Proofs.Reach.

(* ================================================================ the allocations of a returned candidate *)
Lemma fold_add_rr_nodup l : NoDup (rr_keys (fold_left add_rr l [])).
Proof.
  assert (E : l = map to_rr (map (fun y => (rr_rp y, rr_rc y, rr_amt y)) l)).
  { rewrite map_map. rewrite <- (map_id l) at 1. apply map_ext. intros [p rc amt]. reflexivity. }
  rewrite E, fold_add_rr_sum_into. apply fold_sum_nodup. constructor.
Qed.

(* every returned candidate is the view of a consolidated combination *)
Lemma code_cand_shape v q d a s c : candidates v q d = COk a s -> In c a ->
  exists combo, cr_rrs c = cr_rrs (consolidate_allocation_requests combo).
Proof.
  intros Hcand Hc. destruct (candidates_inv v q d a s Hcand) as [_ [->|[anchors [cands [st [_ [_ Hfin]]]]]]]; [destruct Hc|].
  unfold finish_requests, transform in Hfin. injection Hfin as <- _. apply in_map_iff in Hc. destruct Hc as [c1 [<- Hc1]].
  cbn [cr_rrs].
  set (rw := mkRwCtx _ _ _ _ _) in Hc1. set (mc := merge_candidates d (st_built st) (merge_combos d rw cands)) in Hc1.
  assert (Hin : In c1 (fst mc)).
  { unfold exclude_nested_providers in Hc1. destruct (rw_nested_aware rw || negb (rw_has_trees rw)); [exact Hc1|].
    cbn [fst] in Hc1. apply filter_In in Hc1. tauto. }
  unfold mc, merge_candidates in Hin. set (l := dedup_by same_creq _) in Hin.
  assert (Hin' : In c1 l) by (destruct l; [destruct Hin|exact Hin]).
  unfold l in Hin'. apply dedup_by_In in Hin'. apply filter_In in Hin'. destruct Hin' as [Hin' _].
  apply in_map_iff in Hin'. destruct Hin' as [combo [<- _]]. exists combo. reflexivity.
Qed.
Lemma code_cand_keys_nodup v q d a s c : candidates v q d = COk a s -> In c a -> NoDup (rr_keys (cr_rrs c)).
Proof.
  intros Hcand Hc. destruct (code_cand_shape v q d a s c Hcand Hc) as [combo ->].
  unfold consolidate_allocation_requests. cbn [cr_rrs]. apply fold_add_rr_nodup.
Qed.

(* ================================================================ the claim *)
Theorem c02_code_claimable : forall cf v q d a s c k proj user ty v',
  RI d -> inv_keys_nodup d -> rps_wf d -> parentless_root d -> cap_ok d -> un_rcs_nodup q ->
  candidates v q d = COk a s -> In c a -> 28 <= v' -> find_cons d k = None ->
  status (snd (step cf d (AllocPut v' (cons_in_of c k proj user ty)))) = 204.
Proof.
  intros cf v q d a s c k proj user ty v' Hri Hkn Hwf Hpr Hcap Hrcs Hcand Hc Hv Hnew.
  destruct (candidates_inv v q d a s Hcand) as [Hqwf _].
  pose proof (amounts_pos_nonneg q (query_wf_amounts_pos v q Hqwf)) as Hpos.
  (* the candidate is one of the specification, up to the order of its entries *)
  destruct (c03_sound_gen v q d a s Hwf Hpr Hcap (RI_aggs_wf d Hri) Hrcs Hcand c Hc) as [c' [Hc' Hsame]].
  apply in_map_iff in Hc'. destruct Hc' as [c'' [<- Hc'']].
  assert (Hin : forall x, In x (cr_rrs c) -> In x (cr_rrs c'')).
  { intros x Hx. unfold same_creq in Hsame. apply andb_true_iff in Hsame. destruct Hsame as [Hs _].
    apply (same_rrs_In _ _ Hs) in Hx. exact Hx. }
  apply alloc_put_204; try assumption.
  - apply ri_no_allocs_of_new; assumption.
  - apply (code_cand_keys_nodup v q d a s c Hcand Hc).
  - intros p Hp. apply (c02_providers_exist false v q d a s Hwf Hcand c Hc). unfold creq_providers. apply in_app_iff. left. exact Hp.
  - intros l Hnd Hl. apply (c02_claimable_partial0 v q d c'' l (invs_wf0_of d Hri Hkn) Hpos Hc'' Hnd).
    intros b Hb. destruct (Hl b Hb) as [x [Hx Hrest]]. exists x. split; [apply Hin; exact Hx|exact Hrest].
Qed.

(* in every state reached by well-formed requests: no hypothesis on the database is left *)
Theorem c02_code_claimable_reachable : forall cf l v q a s c k proj user ty v',
  reqs_wf l -> un_rcs_nodup q ->
  candidates v q (run cf db0 l) = COk a s -> In c a -> 28 <= v' -> find_cons (run cf db0 l) k = None ->
  status (snd (step cf (run cf db0 l) (AllocPut v' (cons_in_of c k proj user ty)))) = 204.
Proof.
  intros cf l v q a s c k proj user ty v' Hl Hrcs Hcand Hc Hv Hnew. pose proof (C09.c09_invariant cf l) as HF.
  eapply c02_code_claimable; try eassumption.
  - apply C08.run_RI; [apply Reach.ri_db0|exact Hl].
  - apply (C04.c04_inv_keys_reachable cf). exists l. auto.
  - apply Forest_rps_wf. exact HF.
  - apply Forest_parentless_root. exact HF.
  - apply usage_nonneg_cap_ok. apply allocs_pos_usage_nonneg. apply (C01.c01_allocs_pos_reachable cf). exists l. auto.
Qed.

(* the same, for the predicate `reachable` *)
Corollary c02_code_claimable_reach : forall cf d v q a s c k proj user ty v',
  reachable cf d -> un_rcs_nodup q ->
  candidates v q d = COk a s -> In c a -> 28 <= v' -> find_cons d k = None ->
  status (snd (step cf d (AllocPut v' (cons_in_of c k proj user ty)))) = 204.
Proof.
  intros cf d v q a s c k proj user ty v' [l [Hl ->]]. apply c02_code_claimable_reachable. exact Hl.
Qed.

(* ---------------------------------------------------------------- the claim is a legal request (req_wf) *)
Lemma claim_request_wf_gen c k proj user ty v' :
  NoDup (rr_keys (cr_rrs c)) -> (forall x, In x (cr_rrs c) -> 1 <= rr_amt x) ->
  req_wf (AllocPut v' (cons_in_of c k proj user ty)) = true.
Proof.
  intros Hkeys Hamt. cbn [req_wf]. unfold cons_in_wf, cons_in_of. cbn [ci_allocs]. apply andb_true_iff. split.
  - apply forallb_forall. intros al Hal. apply in_map_iff in Hal. destruct Hal as [p [<- Hp]].
    unfold alloc_in_wf, alloc_in_of. cbn [ai_res]. rewrite !andb_true_iff. repeat split.
    + apply forallb_forall. intros y Hy. apply in_map_iff in Hy. destruct Hy as [x [<- Hx]]. apply filter_In in Hx.
      cbn [snd]. apply Z.leb_le. apply Hamt. tauto.
    + apply NoDup_nodupb. rewrite map_map. cbn [fst].
      assert (Hn := filter_keys_nodup c Hkeys p).
      clear - Hn. induction (filter _ _) as [|x l IH]; cbn [map] in *; [constructor|].
      inversion Hn as [|? ? Hx Hl]; subst. constructor; [|apply IH; assumption].
      intro H. apply Hx. apply in_map_iff in H. destruct H as [y [E Hy]]. apply in_map_iff. exists y. split; [congruence|assumption].
    + apply negb_true_iff. unfold providers_of in Hp. apply (proj1 (dedup_In _ _)) in Hp. apply in_map_iff in Hp.
      destruct Hp as [x [E Hx]].
      assert (Hf : In x (filter (fun y => rr_rp y =? p) (cr_rrs c))) by (apply filter_In; split; [assumption|apply Z.eqb_eq; assumption]).
      destruct (filter _ _); [destruct Hf|reflexivity].
  - rewrite map_map. cbn [ai_rp alloc_in_of]. rewrite map_id. apply NoDup_nodupb. apply NoDup_dedup.
Qed.

Theorem c02_code_claim_request_wf : forall v q d a s c k proj user ty v',
  rps_wf d -> parentless_root d -> cap_ok d -> aggs_wf d -> un_rcs_nodup q ->
  candidates v q d = COk a s -> In c a ->
  req_wf (AllocPut v' (cons_in_of c k proj user ty)) = true.
Proof.
  intros v q d a s c k proj user ty v' Hwf Hpr Hcap Hag Hrcs Hcand Hc.
  destruct (candidates_inv v q d a s Hcand) as [Hqwf _]. pose proof (query_wf_amounts_pos v q Hqwf) as Hpos.
  destruct (c03_sound_gen v q d a s Hwf Hpr Hcap Hag Hrcs Hcand c Hc) as [c' [Hc' Hsame]].
  apply in_map_iff in Hc'. destruct Hc' as [c'' [<- Hc'']].
  apply claim_request_wf_gen; [apply (code_cand_keys_nodup v q d a s c Hcand Hc)|].
  intros x Hx. unfold same_creq in Hsame. apply andb_true_iff in Hsame. destruct Hsame as [Hs _].
  apply (same_rrs_In _ _ Hs) in Hx. cbn [creq_view cr_rrs] in Hx.
  apply spec_candidates_correct in Hc''. destruct Hc'' as [asg [_ ->]]. apply (summed_pos q asg Hpos x Hx).
Qed.

(* hence the state after the claim is again a reachable state *)
Corollary c02_code_claim_reachable_after : forall cf l v q a s c k proj user ty v',
  reqs_wf l -> un_rcs_nodup q -> candidates v q (run cf db0 l) = COk a s -> In c a ->
  reqs_wf (l ++ [AllocPut v' (cons_in_of c k proj user ty)]).
Proof.
  intros cf l v q a s c k proj user ty v' Hl Hrcs Hcand Hc. unfold reqs_wf. apply Forall_app. split; [exact Hl|].
  constructor; [|constructor]. pose proof (C09.c09_invariant cf l) as HF.
  eapply c02_code_claim_request_wf; try eassumption.
  - apply Forest_rps_wf. exact HF.
  - apply Forest_parentless_root. exact HF.
  - apply usage_nonneg_cap_ok. apply allocs_pos_usage_nonneg. apply (C01.c01_allocs_pos_reachable cf). exists l. auto.
  - apply (reachable_aggs_wf cf). exists l. auto.
Qed.

(* ================================================================ every microversion *)
(* What PUT /allocations/{k} of a client of microversion v' carries (Model/Decode.v:dec_cons): the allocations (the list
   form below 1.12 and the dict form from 1.12 decode to the same parsed allocations), project_id / user_id from 1.8
   (before: the configured "incomplete" project and user), consumer_generation from 1.28 - null for a new consumer - and
   consumer_type from 1.38.  h_alloc_put reads the version in two places only (ensure_consumer): the generation check
   from 1.28 and the consumer type from 1.38; for a NEW consumer and a null / absent generation neither can fail. *)
Definition claim_in (c : creq) (k : Z) (op ou oty : option Z) : cons_in :=
  mkConsIn k (map (alloc_in_of c) (providers_of c)) op ou None oty.
(* the request of a client of microversion v' *)
Definition cons_in_at (v' : Z) (c : creq) (k proj user ty : Z) : cons_in :=
  claim_in c k (if 8 <=? v' then Some proj else None) (if 8 <=? v' then Some user else None)
           (if 38 <=? v' then Some ty else None).
Lemma cons_in_of_claim_in c k proj user ty : cons_in_of c k proj user ty = claim_in c k (Some proj) (Some user) (Some ty).
Proof. reflexivity. Qed.

Section ClaimAny.
  Variables (cf : cfg) (d : db) (c : creq) (k v : Z) (op ou oty : option Z).
  Hypothesis Hnew : find_cons d k = None.
  Hypothesis Hnoalloc : forall a, In a (allocs d) -> a_cons a <> k.
  Hypothesis Hkeys : NoDup (rr_keys (cr_rrs c)).
  Hypothesis Hprov : forall p, In p (map rr_rp (cr_rrs c)) -> exists r, find_rp d p = Some r.
  Hypothesis Hcap : forall l, NoDup (map areq_key l) ->
    (forall a, In a l -> exists x, In x (cr_rrs c) /\ q_rp a = rr_rp x /\ q_rc a = rr_rc x /\ q_amt a = rr_amt x) ->
    check_capacity d l = Ok tt.

  Lemma ensure_new_any : exists d1 kobj,
    ensure_consumer cf v d (claim_in c k op ou oty) = (d1, Some kobj) /\
    co_uuid kobj = k /\ co_gen kobj = 0 /\ update_consumer d1 kobj = d1 /\
    rps d1 = rps d /\ invs d1 = invs d /\ allocs d1 = allocs d /\ rcs d1 = rcs d /\
    exists row, consumers d1 = consumers d ++ [row] /\ c_uuid row = k /\ c_gen row = 0.
  Proof.
    unfold ensure_consumer, claim_in. cbn [ci_proj ci_user ci_uuid ci_gen ci_type].
    unfold find_cons in *. cbn [consumers set_users set_projects]. rewrite Hnew. rewrite andb_false_r.
    destruct (38 <=? v); eexists; eexists; (split; [reflexivity|]);
      cbn [co_uuid co_gen rps invs allocs rcs consumers set_consumers set_ctypes set_users set_projects];
      (repeat split; try reflexivity);
      try (unfold update_consumer; cbn [rq_proj co_proj rq_user co_user rq_type co_type oeqb]; rewrite !Z.eqb_refl;
           try (destruct oty; cbn [oz oeqb]; rewrite ?Z.eqb_refl); reflexivity);
      eexists; (split; [reflexivity|split; reflexivity]).
  Qed.

  Theorem alloc_put_204_any : status (snd (step cf d (AllocPut v (claim_in c k op ou oty)))) = 204.
  Proof.
    cbn [step]. unfold h_alloc_put.
    destruct ensure_new_any as [d1 [kobj [-> [Ek [Eg [Eupd [Er [Ei [Ea [Erc [row [Ecs [Eru Erg]]]]]]]]]]]]].
    set (ps := providers_of c). set (objs := objs_of d c k ps).
    assert (Hps : forall p, In p ps -> exists r, find_rp d p = Some r).
    { intros p Hp. apply Hprov. unfold ps, providers_of in Hp. apply (proj1 (dedup_In _ _)) in Hp. assumption. }
    assert (Hobjs : alloc_objs d1 kobj (ci_allocs (claim_in c k op ou oty)) = Some objs).
    { unfold alloc_objs, claim_in. cbn [ci_allocs]. fold ps. unfold objs. destruct ps as [|p0 ps'] eqn:Eps; cbn [map].
      - rewrite Ek, (wipe_list_none d k Hnoalloc d1 Ea). reflexivity.
      - change (alloc_in_of c p0 :: map (alloc_in_of c) ps') with (map (alloc_in_of c) (p0 :: ps')).
        apply new_allocs_objs; assumption. }
    rewrite Hobjs, Eupd.
    assert (Hin : forall a, In a objs -> q_cons a = k /\ q_cgen a = 0 /\
              (exists r, find_rp d (q_rp a) = Some r /\ q_rpgen a = rp_gen r) /\
              exists x, In x (cr_rrs c) /\ q_rp a = rr_rp x /\ q_rc a = rr_rc x /\ q_amt a = rr_amt x)
      by (intros a Ha; eapply objs_of_In; exact Ha).
    assert (Hnd : NoDup (map areq_key objs)) by (apply objs_of_nodup; [assumption|apply NoDup_dedup]).
    assert (Hset : exists d2, set_allocations d1 objs = Ok d2).
    { unfold set_allocations.
      assert (Hkeep : filter (fun a => negb (memZ (a_cons a) (map q_cons objs))) (allocs d1) = allocs d1).
      { apply filter_all. intros a Ha. apply negb_true_iff. destruct (memZ _ _) eqn:M; [|reflexivity]. exfalso.
        apply memZ_In in M. apply in_map_iff in M. destruct M as [o [Eo Ho]]. destruct (Hin o Ho) as [Ec _].
        rewrite Ea in Ha. apply (Hnoalloc a Ha). congruence. }
      rewrite Hkeep.
      assert (Hd1 : set_allocs d1 (allocs d1) = d1) by (destruct d1; reflexivity). rewrite Hd1.
      rewrite (check_capacity_ext d d1 objs Ei Ea Erc), (Hcap objs Hnd); [|intros a Ha; apply (Hin a Ha)]. cbn [bind].
      set (d2 := set_allocs d1 _).
      destruct (cas_rps_ok (first_by [] (map (fun a => (q_rp a, q_rpgen a)) objs)) d2 (first_by_nodup _ _)) as [d3 [E3 Ec3]].
      { intros u g Hug. apply first_by_sub in Hug. destruct Hug as [Hug _]. apply in_map_iff in Hug.
        destruct Hug as [a [[= <- <-] Ha]]. destruct (Hin a Ha) as [_ [_ [[r [F Eg']] _]]]. exists r. split; [|auto].
        unfold find_rp, d2. cbn [rps set_allocs]. rewrite Er. exact F. }
      rewrite E3. cbn [bind].
      assert (Hcons3 : consumers d3 = consumers d ++ [row]) by (rewrite Ec3; unfold d2; cbn [consumers set_allocs]; exact Ecs).
      assert (Hfb : first_by [] (map (fun a => (q_cons a, q_cgen a)) objs) = [] \/
                    first_by [] (map (fun a => (q_cons a, q_cgen a)) objs) = [(k, 0)]).
      { destruct objs as [|a0 objs'] eqn:Eo; [left; reflexivity|right]. cbn [map first_by memZ existsb].
        destruct (Hin a0 (or_introl eq_refl)) as [-> [-> _]]. f_equal. apply first_by_all_seen.
        intros pr Hpr. apply in_map_iff in Hpr. destruct Hpr as [a [<- Ha]]. cbn [fst].
        destruct (Hin a (or_intror Ha)) as [-> _]. left. reflexivity. }
      assert (Hcc : exists d4, cas_conss d3 (first_by [] (map (fun a => (q_cons a, q_cgen a)) objs)) = Ok d4).
      { destruct Hfb as [->| ->]; cbn [cas_conss]; [eexists; reflexivity|].
        unfold incr_cons_gen. rewrite Hcons3. rewrite <- Eru.
        destruct (cas_cons_l_new (consumers d) row) as [l' ->]; [|assumption|cbn [bind]; eexists; reflexivity].
        intros x Hx. rewrite Eru. unfold find_cons in Hnew. clear - Hnew Hx.
        induction (consumers d) as [|y l IH]; [destruct Hx|]. cbn [find_cons_l] in Hnew.
        destruct (c_uuid y =? k) eqn:E; [discriminate|]. destruct Hx as [<-|Hx]; [apply Z.eqb_neq; assumption|auto]. }
      destruct Hcc as [d4 ->]. cbn [bind]. eexists. reflexivity. }
    destruct Hset as [d2 ->]. reflexivity.
  Qed.
End ClaimAny.

(* a returned candidate, claimed by a client of ANY microversion v' with the members that version's body carries *)
Theorem c02_code_claimable_all_versions : forall cf v q d a s c k op ou oty v',
  RI d -> inv_keys_nodup d -> rps_wf d -> parentless_root d -> cap_ok d -> un_rcs_nodup q ->
  candidates v q d = COk a s -> In c a -> find_cons d k = None ->
  status (snd (step cf d (AllocPut v' (claim_in c k op ou oty)))) = 204.
Proof.
  intros cf v q d a s c k op ou oty v' Hri Hkn Hwf Hpr Hcap Hrcs Hcand Hc Hnew.
  destruct (candidates_inv v q d a s Hcand) as [Hqwf _].
  pose proof (amounts_pos_nonneg q (query_wf_amounts_pos v q Hqwf)) as Hpos.
  destruct (c03_sound_gen v q d a s Hwf Hpr Hcap (RI_aggs_wf d Hri) Hrcs Hcand c Hc) as [c' [Hc' Hsame]].
  apply in_map_iff in Hc'. destruct Hc' as [c'' [<- Hc'']].
  assert (Hin : forall x, In x (cr_rrs c) -> In x (cr_rrs c'')).
  { intros x Hx. unfold same_creq in Hsame. apply andb_true_iff in Hsame. destruct Hsame as [Hs _].
    apply (same_rrs_In _ _ Hs) in Hx. exact Hx. }
  apply alloc_put_204_any; try assumption.
  - apply ri_no_allocs_of_new; assumption.
  - apply (code_cand_keys_nodup v q d a s c Hcand Hc).
  - intros p Hp. apply (c02_providers_exist false v q d a s Hwf Hcand c Hc). unfold creq_providers. apply in_app_iff. left. exact Hp.
  - intros l Hnd Hl. apply (c02_claimable_partial0 v q d c'' l (invs_wf0_of d Hri Hkn) Hpos Hc'' Hnd).
    intros b Hb. destruct (Hl b Hb) as [x [Hx Hrest]]. exists x. split; [apply Hin; exact Hx|exact Hrest].
Qed.

Theorem c02_code_claimable_reachable_all_versions : forall cf l v q a s c k proj user ty v',
  reqs_wf l -> un_rcs_nodup q ->
  candidates v q (run cf db0 l) = COk a s -> In c a -> find_cons (run cf db0 l) k = None ->
  status (snd (step cf (run cf db0 l) (AllocPut v' (cons_in_at v' c k proj user ty)))) = 204 /\
  status (snd (step cf (run cf db0 l) (AllocPut v' (cons_in_of c k proj user ty)))) = 204 /\
  req_wf (AllocPut v' (cons_in_at v' c k proj user ty)) = true.
Proof.
  intros cf l v q a s c k proj user ty v' Hl Hrcs Hcand Hc Hnew. pose proof (C09.c09_invariant cf l) as HF.
  assert (Hri : RI (run cf db0 l)) by (apply C08.run_RI; [apply Reach.ri_db0|exact Hl]).
  assert (Hkn : inv_keys_nodup (run cf db0 l)) by (apply (C04.c04_inv_keys_reachable cf); exists l; auto).
  assert (Hcap : cap_ok (run cf db0 l)).
  { apply usage_nonneg_cap_ok. apply allocs_pos_usage_nonneg. apply (C01.c01_allocs_pos_reachable cf). exists l. auto. }
  split; [|split].
  - unfold cons_in_at. eapply c02_code_claimable_all_versions; try eassumption;
      [apply Forest_rps_wf; exact HF|apply Forest_parentless_root; exact HF].
  - rewrite cons_in_of_claim_in. eapply c02_code_claimable_all_versions; try eassumption;
      [apply Forest_rps_wf; exact HF|apply Forest_parentless_root; exact HF].
  - pose proof (c02_code_claim_request_wf v q (run cf db0 l) a s c k proj user ty v' (Forest_rps_wf _ HF)
                  (Forest_parentless_root _ HF) Hcap (RI_aggs_wf _ Hri) Hrcs Hcand Hc) as H. exact H.
Qed.

(* the only version-dependent refusal: from 1.28 a NON-null consumer_generation for a consumer that does not exist is a
   generation conflict (409); below 1.28 the member does not exist and the same parsed request is accepted *)
Example c02_claim_generation_conflict :
  let c := mkCreq (-1) [mkRreq 3 2 2; mkRreq 4 0 1] [(1, [3]); (0, [4; 3])] in
  let rq := mkConsIn 100 (map (alloc_in_of c) (providers_of c)) (Some 1) (Some 1) (Some 0) None in
  map (fun v' => status (snd (step (mkCfg 0 0) sh_db (AllocPut v' rq)))) [27; 28; 39] = [204; 409; 409] /\
  map (fun v' => status (snd (step (mkCfg 0 0) sh_db (AllocPut v' (cons_in_at v' c 100 1 1 1))))) [0; 7; 8; 11; 12; 27; 28; 37; 38; 39]
    = [204; 204; 204; 204; 204; 204; 204; 204; 204; 204].
Proof. split; timeout 120 vm_compute; reflexivity. Qed.

(* ================================================================ non-vacuity: a candidate with a sharing provider, claimed *)
(* the reachable table and query of Proofs/C03w.v (sharing providers 3 and 5): the first returned candidate
   {3: DISK_GB 2 (sharing provider, serving both groups), 4: VCPU 1} is claimed for the new consumer 100 at 1.39:
   204, and the usage of the sharing provider and of the child provider goes from 0 to the claimed amounts *)
Definition sh_claim : req :=
  AllocPut 39 (cons_in_of (mkCreq (-1) [mkRreq 3 2 2; mkRreq 4 0 1] [(1, [3]); (0, [4; 3])]) 100 1 1 1).
Example c02_code_claimable_nonvacuous :
  reachable (mkCfg 0 0) sh_db /\ un_rcs_nodup sh_query /\
  (exists a s, candidates 39 sh_query sh_db = COk a s /\
               In (mkCreq (-1) [mkRreq 3 2 2; mkRreq 4 0 1] [(1, [3]); (0, [4; 3])]) a) /\
  find_cons sh_db 100 = None /\
  status (snd (step (mkCfg 0 0) sh_db sh_claim)) = 204 /\
  (usage sh_db 3 2, usage sh_db 4 0) = (0, 0) /\
  (let d' := fst (step (mkCfg 0 0) sh_db sh_claim) in (usage d' 3 2, usage d' 4 0)) = (2, 1).
Proof.
  destruct c03_sound_nonvacuous as [Hr [_ [_ [_ [_ [Hq [_ [Hc _]]]]]]]].
  split; [exact Hr|]. split; [exact Hq|]. split.
  { exists [mkCreq (-1) [mkRreq 3 2 2; mkRreq 4 0 1] [(1, [3]); (0, [4; 3])];
            mkCreq (-1) [mkRreq 5 2 1; mkRreq 4 0 1; mkRreq 3 2 1] [(1, [5]); (0, [4; 3])]].
    exists (match candidates 39 sh_query sh_db with COk _ s => s | _ => [] end).
    split; [exact Hc|]. left. reflexivity. }
  split; [timeout 120 vm_compute; reflexivity|]. split; [|split]; timeout 120 vm_compute; reflexivity.
Qed.
(* the same through the theorem *)
Example c02_code_claimable_instance : status (snd (step (mkCfg 0 0) sh_db sh_claim)) = 204.
Proof.
  destruct c02_code_claimable_nonvacuous as [Hr [Hq [[a [s [Hc Hin]]] [Hnew _]]]].
  exact (c02_code_claimable_reach (mkCfg 0 0) sh_db 39 sh_query a s _ 100 1 1 1 39 Hr Hq Hc Hin ltac:(lia) Hnew).
Qed.

(* ================================================================ caps_nonneg is not an invariant (cap_ok is) *)
(* PUT /resource_providers/1/inventories {VCPU: total 1, reserved 2, allocation_ratio 0.5} at 1.39 is accepted:
   int((1 - 2) * 0.5) = int(-0.5) = 0 is not < 0 (the test of _validate_inventory_capacity from 1.26). The stored
   inventory has a negative real capacity: caps_nonneg fails in a reachable state. The theorems for reachable states
   use cap_ok instead, which follows from non-negative usage. *)
Definition ng_ops : list req := [RpCreate 39 1 1 None; InvSet 39 1 0 [mkInvIn 0 1 2 1 1 1 1 (-1)]].
Example c02s_caps_nonneg_not_invariant :
  reqs_wf ng_ops /\ ~ caps_nonneg (run (mkCfg 0 0) db0 ng_ops) /\ cap_ok (run (mkCfg 0 0) db0 ng_ops) /\
  map (fun i => (i_total i, i_reserved i, cap_trunc i, cap_floor i)) (invs (run (mkCfg 0 0) db0 ng_ops)) = [(1, 2, 0, -1)].
Proof.
  assert (Hl : reqs_wf ng_ops) by (unfold reqs_wf, ng_ops; repeat constructor).
  split; [exact Hl|]. split; [|split].
  - intro H. assert (Hin : In (mkInv 1 0 1 2 1 1 1 1 (-1)) (invs (run (mkCfg 0 0) db0 ng_ops))) by (timeout 120 vm_compute; left; reflexivity).
    specialize (H _ Hin). cbn [i_total i_reserved i_rm] in H. lia.
  - apply usage_nonneg_cap_ok. apply allocs_pos_usage_nonneg. apply (C01.c01_allocs_pos_reachable (mkCfg 0 0)). exists ng_ops. auto.
  - timeout 120 vm_compute. reflexivity.
Qed.

Print Assumptions c02_code_claimable.
Print Assumptions c02_code_claimable_reachable.
Print Assumptions c02_code_claimable_reach.
Print Assumptions c02_code_claim_request_wf.
Print Assumptions c02_code_claim_reachable_after.
Print Assumptions c02_code_claimable_all_versions.
Print Assumptions c02_code_claimable_reachable_all_versions.
Print Assumptions c02_claim_generation_conflict.
Print Assumptions c02_code_claimable_nonvacuous.
Print Assumptions c02_code_claimable_instance.
Print Assumptions c02s_caps_nonneg_not_invariant.
