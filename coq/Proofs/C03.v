(* C03 - the brute-force specification of GET /allocation_candidates enumerates exactly the valid
   combinations (soundness; completeness up to same_creq). *)
From PV Require Import Spec.CandSpec.

(* ================================================================ list facts *)
Lemma in_product {A} (ls : list (list A)) : forall l, In l (product ls) <-> Forall2 (fun x s => In x s) l ls.
Proof.
  induction ls as [|s r IH]; intro l; cbn [product].
  - split.
    + intros [<-|[]]. constructor.
    + intro H. inversion H. left. reflexivity.
  - rewrite in_flat_map. split.
    + intros [x [Hx H]]. apply in_map_iff in H. destruct H as [t [<- Ht]]. constructor; [assumption|].
      apply IH. assumption.
    + intro H. inversion H as [|x s' t r' Hx Ht]; subst. exists x. split; [assumption|].
      apply in_map. apply IH. assumption.
Qed.

Lemma Forall2_map_r {A B C} (R : A -> C -> Prop) (f : B -> C) l : forall xs,
  Forall2 R l (map f xs) <-> Forall2 (fun a b => R a (f b)) l xs.
Proof.
  induction l as [|a l IH]; intros [|x xs]; cbn [map]; split; intro H; inversion H; subst; constructor;
    try assumption; apply IH; assumption.
Qed.

Lemma Forall2_impl {A B} (R S : A -> B -> Prop) l l' : (forall a b, R a b -> S a b) -> Forall2 R l l' -> Forall2 S l l'.
Proof. intros H F. induction F; constructor; auto. Qed.

Lemma dedup_by_In {A} (eqb : A -> A -> bool) l x : In x (dedup_by eqb l) -> In x l.
Proof.
  unfold dedup_by. induction l as [|y l IH]; cbn [fold_right]; [auto|].
  destruct (existsb (eqb y) _); cbn [In]; intuition.
Qed.
Lemma dedup_by_complete {A} (eqb : A -> A -> bool) l x :
  In x l -> exists y, In y (dedup_by eqb l) /\ (y = x \/ eqb x y = true).
Proof.
  unfold dedup_by. induction l as [|z l IH]; cbn [fold_right In]; [intros []|].
  intros [->|Hin].
  - destruct (existsb (eqb x) (fold_right _ [] l)) eqn:E.
    + apply existsb_exists in E. destruct E as [y [Hy E]]. exists y. auto.
    + exists x. split; [left; reflexivity|left; reflexivity].
  - destruct (IH Hin) as [y [Hy Hor]]. exists y. split; [|assumption].
    destruct (existsb (eqb z) _); [assumption|right; assumption].
Qed.

(* ================================================================ same_creq is reflexive *)
Lemma memZ_refl_in x l : In x l -> memZ x l = true.
Proof.
  intro H. unfold memZ. apply existsb_exists. exists x. split; [assumption|apply Z.eqb_refl].
Qed.
Lemma set_eqZ_refl l : set_eqZ l l = true.
Proof.
  unfold set_eqZ, subsetZ. assert (forallb (fun x => memZ x l) l = true).
  { apply forallb_forall. intros. apply memZ_refl_in. assumption. }
  rewrite H. reflexivity.
Qed.
Lemma rr_eqb_refl r : rr_eqb r r = true.
Proof. unfold rr_eqb. rewrite !Z.eqb_refl. reflexivity. Qed.
Lemma same_creq_refl c : same_creq c c = true.
Proof.
  unfold same_creq, same_rrs, same_maps.
  assert (H1 : forallb (fun x => existsb (rr_eqb x) (cr_rrs c)) (cr_rrs c) = true).
  { apply forallb_forall. intros x Hx. apply existsb_exists. exists x. split; [assumption|apply rr_eqb_refl]. }
  assert (H2 : forallb (map_in (cr_maps c)) (cr_maps c) = true).
  { apply forallb_forall. intros x Hx. unfold map_in. apply existsb_exists. exists x. split; [assumption|].
    rewrite Z.eqb_refl, set_eqZ_refl. reflexivity. }
  rewrite H1, H2. reflexivity.
Qed.

(* ================================================================ the enumerator *)
Lemma avail_list_In d R p : In p (avail_list d R) <-> usable d R p.
Proof. unfold avail_list, usable. rewrite filter_In. tauto. Qed.

Lemma all_assignments_In q d a :
  In a (all_assignments q d) <->
  In (as_anchor a) (tree_roots d) /\
  match unsuffixed_group q with
  | Some g => Forall2 (fun p x => usable d (as_anchor a) p /\ un_slot_ok d g (as_anchor a) x p = true)
                      (as_un a) (g_resources g)
  | None => as_un a = []
  end /\
  Forall2 (fun p g => usable d (as_anchor a) p /\ suffixed_ok d g p = true) (as_suff a) (suffixed_groups q).
Proof.
  unfold all_assignments. rewrite in_flat_map. split.
  - intros [R [HR H]]. apply in_flat_map in H. destruct H as [un [Hun H]]. apply in_map_iff in H.
    destruct H as [su [<- Hsu]]. cbn [as_anchor as_un as_suff]. split; [assumption|]. split.
    + destruct (unsuffixed_group q) as [g|].
      * apply in_product in Hun.
        apply (proj1 (Forall2_map_r _ (fun x => filter (un_slot_ok d g R x) (avail_list d R)) _ _)) in Hun.
        eapply Forall2_impl; [|exact Hun].
        cbv beta. intros p x Hp. apply filter_In in Hp. destruct Hp as [Hp Hok]. apply avail_list_In in Hp. auto.
      * cbn [product] in Hun. destruct Hun as [<-|[]]. reflexivity.
    + apply in_product in Hsu.
      apply (proj1 (Forall2_map_r _ (fun g => filter (suffixed_ok d g) (avail_list d R)) _ _)) in Hsu.
      eapply Forall2_impl; [|exact Hsu].
      cbv beta. intros p g Hp. apply filter_In in Hp. destruct Hp as [Hp Hok]. apply avail_list_In in Hp. auto.
  - destruct a as [R un su]. cbn [as_anchor as_un as_suff]. intros [HR [Hun Hsu]]. exists R. split; [assumption|].
    apply in_flat_map. exists un. split.
    + destruct (unsuffixed_group q) as [g|].
      * apply in_product.
        apply (proj2 (Forall2_map_r _ (fun x => filter (un_slot_ok d g R x) (avail_list d R)) _ _)).
        eapply Forall2_impl; [|exact Hun].
        cbv beta. intros p x [Hp Hok]. apply filter_In. split; [apply avail_list_In|]; assumption.
      * subst un. left. reflexivity.
    + apply in_map. apply in_product.
      apply (proj2 (Forall2_map_r _ (fun g => filter (suffixed_ok d g) (avail_list d R)) _ _)).
      eapply Forall2_impl; [|exact Hsu].
      cbv beta. intros p g [Hp Hok]. apply filter_In. split; [apply avail_list_In|]; assumption.
Qed.

Lemma admissible_iff v q d a :
  admissible v q d a <-> In a (filter (asg_ok v q d) (all_assignments q d)).
Proof. unfold admissible. rewrite filter_In, all_assignments_In. tauto. Qed.

(* ================================================================ theorems *)
(* soundness: everything the enumerator returns is a valid combination *)
Theorem spec_candidates_correct : forall v q d c, In c (spec_candidates v q d) -> valid v q d c.
Proof.
  intros v q d c H. unfold spec_candidates in H. apply dedup_by_In in H. apply in_map_iff in H.
  destruct H as [a [<- Ha]]. exists a. split; [apply admissible_iff; assumption|reflexivity].
Qed.

(* completeness: every valid combination is returned, up to the equality of allocation requests
   (same allocations as a set, same mappings) *)
Theorem spec_candidates_complete : forall v q d c,
  valid v q d c -> exists c', In c' (spec_candidates v q d) /\ same_creq c c' = true.
Proof.
  intros v q d c [a [Ha ->]]. apply admissible_iff in Ha.
  destruct (dedup_by_complete same_creq (map (creq_of q) (filter (asg_ok v q d) (all_assignments q d))) (creq_of q a))
    as [y [Hy Hor]]; [apply in_map; assumption|].
  exists y. split; [exact Hy|]. destruct Hor as [->|H]; [apply same_creq_refl|assumption].
Qed.

(* the enumerator returns no two equal allocation requests *)
Lemma dedup_by_nodup {A} (eqb : A -> A -> bool) l x y l1 l2 l3 :
  dedup_by eqb l = l1 ++ x :: l2 ++ y :: l3 -> eqb x y = false.
Proof.
  unfold dedup_by. revert l1. induction l as [|z l IH]; intro l1; cbn [fold_right].
  - intro H. destruct l1; discriminate.
  - destruct (existsb (eqb z) (fold_right _ [] l)) eqn:E; [apply IH|].
    destruct l1 as [|w l1]; cbn [app].
    + intros [= -> H]. destruct (eqb x y) eqn:Exy; [|reflexivity].
      assert (existsb (eqb x) (l2 ++ y :: l3) = true).
      { apply existsb_exists. exists y. split; [apply in_or_app; right; left; reflexivity|assumption]. }
      rewrite <- H in H0. congruence.
    + intros [= -> H]. apply (IH l1). assumption.
Qed.
Theorem spec_candidates_distinct : forall v q d x y l1 l2 l3,
  spec_candidates v q d = l1 ++ x :: l2 ++ y :: l3 -> same_creq x y = false.
Proof. intros v q d x y l1 l2 l3 H. eapply dedup_by_nodup. exact H. Qed.

(* ================================================================ the slot conditions, read as propositions *)
From PV Require Import Proofs.C13.

Lemma has_room_spec d u rc amount :
  has_room d u rc amount = true <->
  exists i, In i (invs d) /\ i_rp i = u /\ i_rc i = rc /\
            usage d u rc + amount <= cap_floor i /\ i_min i <= amount <= i_max i /\ amount mod i_step i = 0.
Proof.
  unfold has_room. rewrite existsb_exists. split.
  - intros [i [Hi H]]. rewrite !andb_true_iff in H. destruct H as [[[[[H1 H2] H3] H4] H5] H6].
    exists i. rewrite Z.eqb_eq in H1, H2, H6. rewrite Z.leb_le in H3, H4, H5. repeat split; assumption.
  - intros [i [Hi [H1 [H2 [H3 [[H4 H5] H6]]]]]]. exists i. split; [assumption|].
    rewrite !andb_true_iff, !Z.eqb_eq, !Z.leb_le. repeat split; assumption.
Qed.

Lemma negb_has_some_trait d p ts :
  negb (has_some_trait d p ts) = true <-> forall t, In t ts -> has_trait d p t = false.
Proof.
  rewrite negb_true_iff. split.
  - intros H t Ht. destruct (has_trait d p t) eqn:E; [|reflexivity].
    assert (has_some_trait d p ts = true) by (apply has_some_trait_spec; eauto). congruence.
  - intro H. destruct (has_some_trait d p ts) eqn:E; [|reflexivity].
    apply has_some_trait_spec in E. destruct E as [t [Ht E]]. rewrite (H t Ht) in E. discriminate.
Qed.
Lemma negb_in_some_agg d p ags :
  negb (in_some_agg d p ags) = true <-> forall a, In a ags -> has_agg d p a = false.
Proof.
  rewrite negb_true_iff. split.
  - intros H a Ha. destruct (has_agg d p a) eqn:E; [|reflexivity].
    assert (in_some_agg d p ags = true) by (apply in_some_agg_spec; eauto). congruence.
  - intro H. destruct (in_some_agg d p ags) eqn:E; [|reflexivity].
    apply in_some_agg_spec in E. destruct E as [a [Ha E]]. rewrite (H a Ha) in E. discriminate.
Qed.

(* a suffixed group on provider p *)
Lemma suffixed_ok_spec d g p :
  suffixed_ok d g p = true <->
  (forall rc amount, In (rc, amount) (g_resources g) -> has_room d p rc amount = true) /\
  (forall any, In any (g_required g) -> exists t, In t any /\ has_trait d p t = true) /\
  (forall t, In t (g_forbidden g) -> has_trait d p t = false) /\
  (forall ags, In ags (g_member_of g) -> exists a, In a ags /\ has_agg d p a = true) /\
  (forall a, In a (g_forbidden_aggs g) -> has_agg d p a = false) /\
  in_tree_ok d g p = true.
Proof.
  unfold suffixed_ok. rewrite !andb_true_iff, !forallb_forall, negb_has_some_trait, negb_in_some_agg.
  split.
  - intros [[[[[H1 H2] H3] H4] H5] H6]. repeat split; try assumption.
    + intros rc amount Hin. apply (H1 (rc, amount) Hin).
    + intros any Hin. apply has_some_trait_spec. auto.
    + intros ags Hin. apply in_some_agg_spec. auto.
  - intros [H1 [H2 [H3 [H4 [H5 H6]]]]]. repeat split; try assumption.
    + intros [rc amount] Hin. apply H1. assumption.
    + intros any Hin. apply has_some_trait_spec. auto.
    + intros ags Hin. apply in_some_agg_spec. auto.
Qed.

(* one resource of the unsuffixed group on provider p, under the anchor R *)
Lemma un_slot_ok_spec d g R rc amount p :
  un_slot_ok d g R (rc, amount) p = true <->
  has_room d p rc amount = true /\
  (forall t, In t (g_forbidden g) -> has_trait d p t = false) /\
  ((forall ags, In ags (g_member_of g) -> exists a, In a ags /\ has_agg d p a = true) \/
   (root_of d p = R /\ forall ags, In ags (g_member_of g) -> exists a, In a ags /\ has_agg d R a = true)) /\
  (forall a, In a (g_forbidden_aggs g) -> has_agg d p a = false /\ (root_of d p = R -> has_agg d R a = false)) /\
  in_tree_ok d g p = true.
Proof.
  unfold un_slot_ok, member_of_via_root, agg_via_root. cbn [fst snd].
  rewrite !andb_true_iff, negb_has_some_trait, orb_true_iff, andb_true_iff, !forallb_forall, Z.eqb_eq.
  rewrite negb_true_iff, orb_false_iff.
  assert (Hm : forall u, (forall x, In x (g_member_of g) -> in_some_agg d u x = true) <->
                         (forall ags, In ags (g_member_of g) -> exists a, In a ags /\ has_agg d u a = true)).
  { intro u. split; intros H x Hx; apply in_some_agg_spec; auto. }
  rewrite !Hm.
  assert (Hf : in_some_agg d p (g_forbidden_aggs g) = false /\
               (root_of d p =? R) && in_some_agg d R (g_forbidden_aggs g) = false <->
               forall a, In a (g_forbidden_aggs g) -> has_agg d p a = false /\ (root_of d p = R -> has_agg d R a = false)).
  { rewrite <- (negb_true_iff (in_some_agg d p _)), negb_in_some_agg. split.
    - intros [H1 H2] a Ha. split; [auto|]. intro E. apply Z.eqb_eq in E. rewrite E in H2. cbn [andb] in H2.
      rewrite <- negb_true_iff, negb_in_some_agg in H2. auto.
    - intro H. split; [intros a Ha; apply H; assumption|].
      destruct (root_of d p =? R) eqn:E; [|reflexivity]. cbn [andb]. apply Z.eqb_eq in E.
      rewrite <- negb_true_iff, negb_in_some_agg. intros a Ha. apply H; assumption. }
  rewrite <- Hf. tauto.
Qed.
