(* C03 - the fragment WITHOUT the sharing / set-valued path (queries made of suffixed groups only, no provider
   carries MISC_SHARES_VIA_AGGREGATE): COMPLETENESS of the code model w.r.t. the declarative specification -
   every candidate of spec_candidates is returned by the model (up to same_creq) - and, with the soundness
   theorem of Proofs/C03s.v, exactness (mutual inclusion; spec_check = 0).

   The ideal statement (the hypotheses of c03_suffixed_only_sound only) is FALSE for arbitrary databases:
   rps_wf and parentless_root do not say that the root of a tree has no parent, and the code selects the
   anchors of root_required / root_forbidden among the PARENTLESS providers (_get_roots_with_traits:
   `parent_provider_id IS NULL`) whereas the specification takes the providers with root = self.
   The witness (c03_complete_needs_roots_parentless) is NOT a reachable database (Forest of Proofs/Defs.v,
   preserved by every request, excludes it: Forest_roots_parentless), so this is a gap in the hypotheses, not a
   finding about the code. The hypothesis added is exactly that: when the query filters the anchors, roots are
   parentless. *)
From PV Require Import Spec.CandSpec Proofs.Defs Proofs.C13 Proofs.C03 Proofs.C02 Proofs.C02m Proofs.C03e Proofs.C03s.

(* ================================================================ the extra hypothesis *)
(* the root of a tree has no parent (the converse of parentless_root) *)
Definition roots_parentless (d : db) : Prop :=
  forall r, In r (rps d) -> rp_root r = rp_uuid r -> rp_parent r = None.
(* needed only when the query filters the anchors by traits *)
Definition anchors_hyp (q : query) (d : db) : Prop :=
  is_nil (qy_root_required q) && is_nil (qy_root_forbidden q) = true \/ roots_parentless d.

(* every reachable database satisfies it: it follows from the Forest invariant *)
Lemma chain_top_parentless l u top : chain l u top -> exists r, find_rp_l l top = Some r /\ rp_parent r = None.
Proof. induction 1 as [u r F P|u r p top F P _ IH]; [exists r; auto|exact IH]. Qed.
Lemma Forest_roots_parentless d : Forest d -> roots_parentless d.
Proof.
  intros [Hnd HF] r Hr Er. destruct (chain_top_parentless _ _ _ (HF r Hr)) as [r' [F P]].
  rewrite Er in F. rewrite (find_rp_l_In _ _ Hnd Hr) in F. injection F as <-. exact P.
Qed.

(* ================================================================ list facts *)
Lemma existsb_false_all {A} (f : A -> bool) l : (forall x, In x l -> f x = false) -> existsb f l = false.
Proof.
  intro H. destruct (existsb f l) eqn:E; [|reflexivity]. apply existsb_exists in E. destruct E as [x [Hx E]].
  rewrite (H x Hx) in E. discriminate.
Qed.
Lemma nodupZ_NoDup l : nodupZ l = true -> NoDup l.
Proof.
  induction l as [|x l IH]; cbn [nodupZ]; [constructor|]. intro H. apply andb_true_iff in H. destruct H as [H1 H2].
  constructor; [|apply IH; exact H2]. intro Hin. apply memZ_In in Hin. rewrite Hin in H1. discriminate.
Qed.
Lemma dedup_cons x l : dedup (x :: l) = if memZ x (dedup l) then dedup l else x :: dedup l.
Proof. reflexivity. Qed.
Lemma dedup_NoDup_length l : NoDup l -> length (dedup l) = length l.
Proof.
  induction 1 as [|x l Hx _ IH]; [reflexivity|]. rewrite dedup_cons.
  destruct (memZ x (dedup l)) eqn:E; [|cbn [length]; rewrite IH; reflexivity].
  exfalso. apply Hx. apply (dedup_In x l). apply memZ_In. exact E.
Qed.
Lemma seteq_length (l l' : list Z) : NoDup l -> NoDup l' -> incl l l' -> incl l' l -> length l = length l'.
Proof.
  intros H1 H2 I1 I2. pose proof (NoDup_incl_length H1 I1). pose proof (NoDup_incl_length H2 I2). lia.
Qed.
Lemma Forall2_impl_In {A B} (R S : A -> B -> Prop) l l' :
  (forall a b, In a l -> In b l' -> R a b -> S a b) -> Forall2 R l l' -> Forall2 S l l'.
Proof.
  intros H F. induction F as [|a b l l' HR F IH]; constructor.
  - apply H; [left; reflexivity|left; reflexivity|exact HR].
  - apply IH. intros a' b' Ha Hb. apply H; right; assumption.
Qed.
Lemma Forall2_map_l {A B C} (R : C -> B -> Prop) (f : A -> C) l : forall l',
  Forall2 (fun a b => R (f a) b) l l' -> Forall2 R (map f l) l'.
Proof. induction l as [|a l IH]; intros l' H; inversion H; subst; cbn [map]; constructor; auto. Qed.

Lemma same_creq_sym a b : same_creq a b = same_creq b a.
Proof.
  unfold same_creq, same_rrs, same_maps.
  rewrite (andb_comm (forallb (fun x => existsb (rr_eqb x) (cr_rrs b)) (cr_rrs a))).
  rewrite (andb_comm (forallb (map_in (cr_maps b)) (cr_maps a))). reflexivity.
Qed.

(* the same_subtree test of the code and of the specification coincide *)
Lemma subtree_same_conv d us : subtree_ok d us = true -> check_same_subtree d us = true.
Proof.
  unfold check_same_subtree, subtree_ok, ancestor_or_self. destruct us as [|u [|w us']]; try (intro H; exact H).
  reflexivity.
Qed.

(* ================================================================ the anchors (root_required / root_forbidden) *)
Lemma anchor_complete d q R : anchors_hyp q d -> In R (tree_roots d) ->
  forallb (has_trait d R) (qy_root_required q) = true ->
  negb (existsb (has_trait d R) (qy_root_forbidden q)) = true ->
  match process_anchor_traits d q with
  | RVal anchors => forall b1 b2 p s, in_filtered_anchors (mkRwCtx b1 b2 anchors p s) R = true
  | REmpty => False
  | _ => True
  end.
Proof.
  intros Hah HR H1 H2. unfold process_anchor_traits.
  destruct (is_nil (qy_root_required q) && is_nil (qy_root_forbidden q)) eqn:En; [intros; reflexivity|].
  destruct Hah as [Hah|Hrp]; [congruence|].
  destruct (negb (forallb (trait_exists d) (qy_root_required q) && forallb (trait_exists d) (qy_root_forbidden q))); [exact I|].
  assert (Hin : In R (get_roots_with_traits d (qy_root_required q) (qy_root_forbidden q))).
  { unfold tree_roots in HR. apply in_map_iff in HR. destruct HR as [r [<- Hr]]. apply filter_In in Hr.
    destruct Hr as [Hr Er]. apply Z.eqb_eq in Er. unfold get_roots_with_traits. apply in_map. apply filter_In.
    split; [exact Hr|]. rewrite (Hrp r Hr Er), H1, H2. reflexivity. }
  destruct (get_roots_with_traits d (qy_root_required q) (qy_root_forbidden q)) as [|z zs]; [destruct Hin|].
  intros. unfold in_filtered_anchors. cbn [rw_anchor_root_ids]. apply memZ_In. exact Hin.
Qed.

(* ================================================================ one suffixed group *)
Section FragmentC.
  Variable d : db.
  Hypothesis Hwf : rps_wf d.
  Hypothesis Hns : no_sharing d.
  Let Hnd : NoDup (map rp_uuid (rps d)) := proj1 Hwf.

  (* without sharing providers, the providers usable under the anchor R are the providers of the tree R *)
  Lemma usable_root R p : usable d R p -> ex d p /\ root_of d p = R.
  Proof.
    intros [Hex Hav]. split; [exact Hex|]. unfold avail, shares_with_tree in Hav.
    rewrite (no_sharing_trait d p Hns Hex) in Hav. cbn [andb] in Hav. rewrite orb_false_r in Hav.
    apply Z.eqb_eq. exact Hav.
  Qed.

  Lemma rwra_some t res : (forall x, In x res -> get_providers_with_resource d (fst x) (snd x) t <> []) ->
    rps_with_resource_all d t res <> None.
  Proof.
    induction res as [|[rc amount] res IH]; intro H; cbn [rps_with_resource_all]; [discriminate|].
    pose proof (H (rc, amount) (or_introl eq_refl)) as H0. cbn [fst snd] in H0.
    destruct (get_providers_with_resource d rc amount t) as [|p0 l0]; [contradiction|].
    destruct (rps_with_resource_all d t res) eqn:E; [discriminate|]. exfalso. apply IH; [|reflexivity].
    intros x Hx. apply H. right. exact Hx.
  Qed.

  (* a provider acceptable for the group exists: the search context of the group is built *)
  Lemma mk_rg_ctx_not_empty g p : ex d p -> suffixed_ok d g p = true -> mk_rg_ctx d g <> REmpty.
  Proof.
    intros Hex Hok. pose proof Hex as Hex'. apply (ex_find d) in Hex'. destruct Hex' as [r F].
    pose proof (find_rp_l_Some _ _ _ F) as [Hr Eu].
    apply suffixed_ok_spec in Hok. destruct Hok as [Hroom [_ [_ [Hmem [_ Htree]]]]].
    unfold mk_rg_ctx. destruct (negb (forallb _ (g_resources g))); [discriminate|].
    destruct (negb (is_nil (g_member_of g)) &&
              is_nil (if is_nil (g_member_of g) then [] else provider_ids_matching_aggregates d (g_member_of g))) eqn:Em.
    { exfalso. apply andb_true_iff in Em. destruct Em as [Em1 Em2]. apply negb_true_iff in Em1. rewrite Em1 in Em2.
      assert (Hin : In p (provider_ids_matching_aggregates d (g_member_of g))).
      { apply matching_aggregates_In. exists r. split; [exact Hr|]. split; [exact Eu|].
        apply forallb_forall. intros ags Ha. apply in_some_agg_spec. apply Hmem. exact Ha. }
      destruct (provider_ids_matching_aggregates d (g_member_of g)); [destruct Hin|discriminate]. }
    destruct (negb (forallb (forallb (trait_exists d)) (g_required g) && forallb (trait_exists d) (g_forbidden g))); [discriminate|].
    assert (Ht : exists t, (match g_in_tree g with
                            | None => Some None
                            | Some u => match find_rp d u with Some r0 => Some (Some (rp_root r0)) | None => None end
                            end) = Some t /\ match t with Some t0 => rp_root r = t0 | None => True end).
    { unfold in_tree_ok in Htree. destruct (g_in_tree g) as [u|]; [|exists None; split; [reflexivity|exact I]].
      destruct (find_rp d u) as [tr|]; [|discriminate]. exists (Some (rp_root tr)). split; [reflexivity|].
      apply Z.eqb_eq in Htree. unfold root_of in Htree. rewrite F in Htree. exact Htree. }
    destruct Ht as [t [-> Ht]].
    destruct (rps_with_resource_all d t (g_resources g)) eqn:E; [discriminate|]. exfalso.
    apply (rwra_some t (g_resources g)); [|exact E]. intros [rc amount] Hx. cbn [fst snd].
    assert (Hin : In (p, rp_root r) (get_providers_with_resource d rc amount t)).
    { apply (gpwr_In d). exists r. repeat split; try assumption. apply Hroom. exact Hx. }
    intro E0. rewrite E0 in Hin. destruct Hin.
  Qed.

  (* the allocation request of the group on an acceptable provider under an accepted anchor is produced *)
  Lemma one_group_complete rw g ctx st p : use_same_provider g = true -> mk_rg_ctx d g = RVal ctx ->
    ex d p -> suffixed_ok d g p = true -> in_filtered_anchors rw (root_of d p) = true ->
    match get_by_one_request d rw ctx st with
    | RVal (l, _) => In (group_creq d g p) l
    | REmpty => False
    | _ => True
    end.
  Proof.
    intros Hg Hctx Hex Hok Hfa. destruct (mk_rg_ctx_ok d Hwf g ctx Hctx) as [_ Eg].
    assert (Ht : In (p, root_of d p) (get_provider_ids_matching d ctx)).
    { apply (matching_char d Hnd g ctx Hctx). cbn [fst snd]. auto. }
    unfold get_by_one_request. rewrite Eg, Hg. cbn [negb andb]. unfold alloc_candidates_single_provider.
    destruct (get_provider_ids_matching d ctx) as [|t0 ts] eqn:Et; [destruct Ht|]. cbn [is_nil]. rewrite <- Et in Ht |- *.
    apply in_flat_map. exists (p, root_of d p). split; [exact Ht|]. cbn [fst snd]. rewrite Hfa.
    apply in_app_iff. left. left. unfold allocation_request_for_provider, group_creq. rewrite Eg. reflexivity.
  Qed.

  (* the groups loop: given one acceptable provider per group, it does not give up, and the list of every
     group contains the allocation request of the group on its provider *)
  Lemma groups_loop_complete rw : forall ps gs, 
    Forall2 (fun p g => use_same_provider g = true /\ ex d p /\ suffixed_ok d g p = true /\
                        in_filtered_anchors rw (root_of d p) = true) ps gs ->
    forall st acc,
    match groups_loop d rw st gs acc with
    | RVal (cands, _) => exists l2, cands = rev acc ++ l2 /\
        Forall2 (fun pg gl => snd pg = fst gl /\ In (group_creq d (snd pg) (fst pg)) (snd gl)) (combine ps gs) l2
    | REmpty => False
    | _ => True
    end.
  Proof.
    induction 1 as [|p g ps gs [Hg [Hex [Hok Hfa]]] HF IH]; intros st acc; cbn [groups_loop combine].
    - exists []. rewrite app_nil_r. split; [reflexivity|constructor].
    - pose proof (mk_rg_ctx_not_empty g p Hex Hok) as Hne.
      destruct (mk_rg_ctx d g) as [ctx| | |] eqn:Ec; try exact I; [|apply Hne; reflexivity].
      pose proof (one_group_complete rw g ctx st p Hg Ec Hex Hok Hfa) as H1.
      destruct (get_by_one_request d rw ctx st) as [[l st1]| | |]; try exact I; [|exact H1].
      destruct l as [|c0 l0] eqn:El; [destruct H1|]. rewrite <- El in *.
      specialize (IH st1 ((g, l) :: acc)).
      destruct (groups_loop d rw st1 gs ((g, l) :: acc)) as [[cands st2]| | |]; try exact I; [|exact IH].
      destruct IH as [l2 [-> HF2]]. exists ((g, l) :: l2). split; [cbn [rev]; rewrite <- app_assoc; reflexivity|].
      constructor; [|exact HF2]. cbn [fst snd]. split; [reflexivity|exact H1].
  Qed.
End FragmentC.

(* ================================================================ the merge *)
(* a combination of one member per group, all under the anchor a, passing the two tests, is merged *)
Lemma merge_combos_intro d rw cands combo' a : cands <> [] ->
  Forall2 (fun gc gl => fst gc = fst gl /\ In (snd gc) (snd gl) /\ cr_anchor (snd gc) = a) combo' cands ->
  satisfies_group_policy (rw_policy rw) (lenZ (filter (fun gl => use_same_provider (fst gl)) cands)) combo' = true ->
  satisfies_same_subtree d (rw_same_subtrees rw) (map snd combo') = true ->
  In (map snd combo') (merge_combos d rw cands).
Proof.
  intros Hne HF Hp Hs. unfold merge_combos. cbv zeta. apply in_flat_map. exists a. split.
  - apply (proj2 (dedup_In _ _)). destruct HF as [|gc gl combo cands' [E [Hin Ha]] _]; [contradiction Hne; reflexivity|].
    cbn [flat_map]. apply in_app_iff. left. apply in_map_iff. exists (snd gc). auto.
  - set (lists := map (fun gl : rgroup * list creq => map (pair (fst gl)) (filter (fun c => cr_anchor c =? a) (snd gl))) cands).
    assert (Hprod : In combo' (product lists)).
    { apply in_product. unfold lists. apply Forall2_map_r. eapply Forall2_impl; [|exact HF]. cbv beta.
      intros gc gl [E [Hin Ha]]. apply in_map_iff. exists (snd gc). split; [rewrite <- E; destruct gc; reflexivity|].
      apply filter_In. split; [exact Hin|]. apply Z.eqb_eq. exact Ha. }
    assert (Hnil : existsb is_nil lists = false).
    { apply existsb_false_all. intros l Hl. apply in_product in Hprod.
      destruct (Forall2_In_r _ _ _ _ Hprod Hl) as [x [_ Hx]]. destruct l; [destruct Hx|reflexivity]. }
    rewrite Hnil. apply in_map. apply filter_In. split; [exact Hprod|]. rewrite Hp, Hs. reflexivity.
Qed.

(* a merged combination within capacity survives the de-duplication, up to same_creq *)
Lemma merge_candidates_complete d built combos combo :
  In combo combos -> exceeds_capacity d (consolidate_allocation_requests combo) = false ->
  exists y, In y (fst (merge_candidates d built combos)) /\ same_creq (consolidate_allocation_requests combo) y = true.
Proof.
  intros Hin Hx. unfold merge_candidates.
  set (l := filter (fun c => negb (exceeds_capacity d c)) (map consolidate_allocation_requests combos)).
  assert (Hl : In (consolidate_allocation_requests combo) l).
  { apply filter_In. split; [apply in_map; exact Hin|rewrite Hx; reflexivity]. }
  destruct (dedup_by_complete same_creq l _ Hl) as [y [Hy Hor]]. exists y. split.
  - destruct (dedup_by same_creq l); [destruct Hy|exact Hy].
  - destruct Hor as [->|H]; [apply same_creq_refl|exact H].
Qed.

(* the providers named by two equal allocation requests *)
Lemma same_rrs_providers a b : same_rrs a b = true -> incl (dedup (map rr_rp a)) (dedup (map rr_rp b)).
Proof.
  unfold same_rrs. intros H u Hu. apply andb_true_iff in H. destruct H as [H _]. rewrite forallb_forall in H.
  apply (proj2 (dedup_In _ _)). apply (proj1 (dedup_In _ _)) in Hu. apply in_map_iff in Hu. destruct Hu as [x [<- Hx]].
  specialize (H x Hx). apply existsb_exists in H. destruct H as [y [Hy E]]. unfold rr_eqb in E.
  rewrite !andb_true_iff in E. destruct E as [[E _] _]. apply Z.eqb_eq in E. rewrite E. apply in_map. exact Hy.
Qed.

(* the "one provider per tree" filter of exclude_nested_providers depends on the set of providers only *)
Lemma nested_test_same d a b : same_rrs a b = true ->
  NoDup (map (root_of d) (dedup (map rr_rp a))) ->
  lenZ (dedup (map rr_rp b)) = lenZ (dedup (map (root_of d) (dedup (map rr_rp b)))).
Proof.
  intros H Hn. pose proof (same_rrs_providers a b H) as I1.
  assert (H' : same_rrs b a = true) by (unfold same_rrs in *; rewrite andb_comm; exact H).
  pose proof (same_rrs_providers b a H') as I2.
  set (ua := dedup (map rr_rp a)) in *. set (ub := dedup (map rr_rp b)) in *.
  assert (L1 : length ub = length ua) by (apply seteq_length; try apply NoDup_dedup'; assumption).
  assert (L2 : length (dedup (map (root_of d) ub)) = length (dedup (map (root_of d) ua))).
  { apply seteq_length; try apply NoDup_dedup'; intros x Hx; apply (proj2 (dedup_In _ _)); apply (proj1 (dedup_In _ _)) in Hx;
      apply in_map_iff in Hx; destruct Hx as [u [<- Hu]]; apply in_map; auto. }
  unfold lenZ. rewrite L1, L2, (dedup_NoDup_length _ Hn), map_length. reflexivity.
Qed.

(* ================================================================ the theorem *)
Lemma candidates_inv' v q d a s : candidates v q d = COk a s ->
  query_wf v q = true /\
  match process_anchor_traits d q with
  | RVal anchors =>
      match groups_loop d (mkRwCtx (has_provider_trees d) (29 <=? v) anchors (qy_policy q) (qy_same_subtree q))
                        (mkRwState (get_sharing_providers d) []) (qy_groups q) [] with
      | RVal (cands, st) =>
          finish_requests d v q (mkRwCtx (has_provider_trees d) (29 <=? v) anchors (qy_policy q) (qy_same_subtree q))
                          (st_built st) cands = COk a s
      | REmpty => a = []
      | _ => False
      end
  | REmpty => a = []
  | _ => False
  end.
Proof.
  unfold candidates, candidates_gen. destruct (v <? 10); [discriminate|].
  destruct (query_wf v q); [|discriminate]. cbn [negb]. intro H. split; [reflexivity|].
  unfold get_by_requests_gen in H. destruct (process_anchor_traits d q) as [anchors| | |]; try discriminate.
  2:{ injection H as <- _. reflexivity. }
  destruct (groups_loop d _ _ (qy_groups q) []) as [[cands st]| | |] eqn:E; try discriminate.
  2:{ injection H as <- _. reflexivity. }
  cbn [orb] in H. destruct (negb _); [exact H|].
  destruct (finish_requests d v q _ (st_built st) cands) as [| | |ua us] eqn:Eu; try discriminate.
  destruct (result_same _ _); [exact H|discriminate].
Qed.

Lemma first_mapping_pairs d : forall ps gs, (forall g, In g gs -> use_same_provider g = true) -> length ps = length gs ->
  flat_map first_mapping (map (fun pg : Z * rgroup => (snd pg, group_creq d (snd pg) (fst pg))) (combine ps gs)) = ps.
Proof.
  induction ps as [|p ps IH]; intros [|g gs] Hall Hlen; cbn [length] in Hlen; try discriminate; [reflexivity|].
  cbn [combine map flat_map]. rewrite IH; [|intros g' Hg'; apply Hall; right; exact Hg'|lia].
  unfold first_mapping. cbn [fst snd group_creq cr_maps]. rewrite (Hall g (or_introl eq_refl)). reflexivity.
Qed.

(* COMPLETENESS on the fragment: every candidate of the specification is returned by the code model.
   Hypotheses: those of c03_suffixed_only_sound, plus anchors_hyp (when root_required / root_forbidden is used,
   the roots of the trees are parentless providers - true of every reachable database). *)
Theorem c03_suffixed_only_complete : forall v q d a s,
  rps_wf d -> no_sharing d -> parentless_root d -> caps_nonneg d ->
  (forall g, In g (qy_groups q) -> use_same_provider g = true) ->
  anchors_hyp q d ->
  candidates v q d = COk a s ->
  forall c', In c' (map (creq_view v) (spec_candidates v q d)) -> exists c, In c a /\ same_creq c c' = true.
Proof.
  intros v q d a s Hwf Hns Hpr Hcap Hsuf Hah Hcand c' Hc'.
  apply in_map_iff in Hc'. destruct Hc' as [s0 [<- Hs0]]. apply spec_candidates_correct in Hs0.
  destruct Hs0 as [asg0 [Hadm ->]].
  destruct (candidates_inv' v q d a s Hcand) as [Hqwf Hinv].
  set (gs := qy_groups q) in *.
  (* the query: no unsuffixed group, distinct suffixes, at least one group *)
  assert (Hsg : suffixed_groups q = gs) by (unfold suffixed_groups; apply filter_all'; exact Hsuf).
  assert (Hun : unsuffixed_group q = None).
  { unfold unsuffixed_group. apply find_none_all. intros g Hg. specialize (Hsuf g Hg). unfold use_same_provider in Hsuf.
    apply negb_true_iff in Hsuf. exact Hsuf. }
  assert (Hsfx : NoDup (map g_suffix gs)).
  { apply dedup_length_nodup. apply lenZ_eq. apply (query_wf_facts v q Hqwf). }
  assert (Hgne : gs <> []) by apply (proj1 (query_wf_facts v q Hqwf)).
  (* the admissible assignment *)
  destruct asg0 as [R un ps]. unfold admissible in Hadm. cbn [as_anchor as_un as_suff] in Hadm. rewrite Hun, Hsg in Hadm.
  destruct Hadm as [HR [-> [HFp Hok]]].
  unfold asg_ok in Hok. cbn [as_anchor as_un as_suff] in Hok. rewrite Hun, Hsg in Hok.
  rewrite !andb_true_iff in Hok. destruct Hok as [[[[[[Hreq Hforb] _] Hpol] Hsst] Hcapok] Hnest].
  assert (Hlen : length ps = length gs) by (eapply Forall2_length; exact HFp).
  (* the anchor is accepted *)
  pose proof (anchor_complete d q R Hah HR Hreq Hforb) as Hanch. revert Hinv Hanch.
  destruct (process_anchor_traits d q) as [anchors| | |]; intros Hinv Hanch; try contradiction.
  set (rw := mkRwCtx (has_provider_trees d) (29 <=? v) anchors (qy_policy q) (qy_same_subtree q)) in *.
  assert (HFp' : Forall2 (fun p g => use_same_provider g = true /\ ex d p /\ suffixed_ok d g p = true /\
                                     in_filtered_anchors rw (root_of d p) = true) ps gs).
  { eapply Forall2_impl_In; [|exact HFp]. cbv beta. intros p g _ Hg [Hu Hok].
    destruct (usable_root d Hns R p Hu) as [Hex Er]. rewrite Er. repeat split; auto. apply Hanch. }
  assert (Hroot : forall p, In p ps -> root_of d p = R).
  { intros p Hp. destruct (Forall2_In_l _ _ _ _ HFp Hp) as [g [_ [Hu _]]]. apply (usable_root d Hns R p Hu). }
  (* the per-group lists *)
  pose proof (groups_loop_complete d Hwf rw ps gs HFp' (mkRwState (get_sharing_providers d) []) []) as Hloop.
  revert Hinv Hloop.
  destruct (groups_loop d rw (mkRwState (get_sharing_providers d) []) gs []) as [[cands st]| | |]; intros Hinv Hloop;
    try contradiction.
  destruct Hloop as [l2 [Ec HF2]]. cbn [rev app] in Ec. subst l2.
  set (L := combine ps gs) in *.
  set (combo' := map (fun pg : Z * rgroup => (snd pg, group_creq d (snd pg) (fst pg))) L).
  assert (Esnd : map snd combo' = asg_creqs d ps gs).
  { unfold combo', asg_creqs. rewrite map_map. reflexivity. }
  assert (HLroot : forall pg, In pg L -> root_of d (fst pg) = R).
  { intros [p g] H. apply in_combine_l in H. apply Hroot. exact H. }
  assert (HFc : Forall2 (fun gc gl => fst gc = fst gl /\ In (snd gc) (snd gl) /\ cr_anchor (snd gc) = R) combo' cands).
  { unfold combo'. apply Forall2_map_l. eapply Forall2_impl_In; [|exact HF2]. cbv beta. intros pg gl Hpg _ [E Hin].
    cbn [fst snd group_creq cr_anchor]. repeat split; [exact E|exact Hin|apply HLroot; exact Hpg]. }
  assert (Hcl : length cands = length gs).
  { rewrite <- (Forall2_length _ _ _ HF2). unfold L. rewrite combine_length, Hlen. apply Nat.min_id. }
  assert (Hcne : cands <> []).
  { intro E. apply Hgne. apply length_zero_iff_nil. rewrite <- Hcl, E. reflexivity. }
  assert (Hfilt : filter (fun gl : rgroup * list creq => use_same_provider (fst gl)) cands = cands).
  { apply filter_all'. intros gl Hgl. destruct (Forall2_In_r _ _ _ _ HF2 Hgl) as [[p g] [Hc [E _]]]. rewrite <- E.
    cbn [snd]. apply Hsuf. apply in_combine_l in Hc. apply in_combine_r in Hc. exact Hc. }
  (* group_policy *)
  assert (Hp : satisfies_group_policy (rw_policy rw) (lenZ (filter (fun gl : rgroup * list creq => use_same_provider (fst gl)) cands))
                                      combo' = true).
  { cbn [rw_policy rw]. rewrite Hfilt. destruct (qy_policy q); try reflexivity. cbn [satisfies_group_policy].
    change (lenZ (dedup (flat_map first_mapping combo')) =? lenZ cands = true). unfold combo', L.
    rewrite (first_mapping_pairs d ps gs Hsuf Hlen). apply Z.eqb_eq. unfold lenZ.
    rewrite (dedup_NoDup_length ps (nodupZ_NoDup ps Hpol)), Hcl, Hlen. reflexivity. }
  (* same_subtree *)
  assert (Hs : satisfies_same_subtree d (rw_same_subtrees rw) (map snd combo') = true).
  { cbn [rw_same_subtrees rw]. rewrite Esnd. unfold satisfies_same_subtree, asg_creqs. apply forallb_forall.
    intros sfx Hin. rewrite subtree_lists. apply subtree_same_conv. rewrite forallb_forall in Hsst. exact (Hsst sfx Hin). }
  pose proof (merge_combos_intro d rw cands combo' R Hcne HFc Hp Hs) as Hmc. rewrite Esnd in Hmc.
  (* the consolidated request is the candidate of the assignment, and is within capacity *)
  destruct (consolidate_asg d q R ps Hun) as [Err Emaps]; [rewrite Hsg; exact Hsfx|rewrite Hsg; exact Hlen|].
  rewrite Hsg in Err, Emaps.
  set (c1 := consolidate_allocation_requests (asg_creqs d ps gs)) in *.
  set (asg := mkAsg R [] ps) in *.
  assert (Hexc : exceeds_capacity d c1 = false).
  { unfold exceeds_capacity. rewrite Err. apply existsb_false_all. intros x Hx.
    change (cr_rrs (creq_of q asg)) with (summed q asg) in Hx. rewrite forallb_forall in Hcapok. specialize (Hcapok x Hx).
    destruct (find_inv d (rr_rp x) (rr_rc x)) as [i|] eqn:Fi; [|discriminate].
    apply andb_true_iff in Hcapok. destruct Hcapok as [C1 C2]. apply Z.leb_le in C1, C2.
    apply find_inv_l_Some' in Fi. destruct Fi as [Hi _]. rewrite (cap_trunc_floor i (Hcap i Hi)).
    apply orb_false_iff. split; apply Z.ltb_ge; lia. }
  destruct (merge_candidates_complete d (st_built st) _ _ Hmc Hexc) as [y [Hy Hsame]]. fold c1 in Hsame.
  (* it survives exclude_nested_providers and is shown *)
  unfold finish_requests, transform in Hinv. injection Hinv as <- _.
  set (mc := merge_candidates d (st_built st) (merge_combos d rw cands)) in *.
  assert (Hkept : In y (fst (exclude_nested_providers d rw mc))).
  { unfold exclude_nested_providers. cbn [rw_nested_aware rw_has_trees rw].
    destruct ((29 <=? v) || negb (has_provider_trees d)) eqn:E; [exact Hy|]. cbn [fst]. apply filter_In. split; [exact Hy|].
    apply Z.eqb_eq. apply orb_false_iff in E. destruct E as [Ev _]. rewrite Ev in Hnest. cbn [orb] in Hnest.
    apply (nested_test_same d (cr_rrs c1)).
    - unfold same_creq in Hsame. apply andb_true_iff in Hsame. exact (proj1 Hsame).
    - rewrite Err. apply nodupZ_NoDup. exact Hnest. }
  exists (creq_view v y). split.
  - change (In (creq_view v y) (map (creq_view v) (fst (exclude_nested_providers d rw mc)))). apply in_map. exact Hkept.
  - apply same_creq_view. rewrite same_creq_sym. unfold same_creq in *. rewrite <- Err, <- Emaps. exact Hsame.
Qed.

(* EXACTNESS on the fragment: the candidates of the code model and of the specification are the same, up to
   same_creq (mutual inclusion) *)
Theorem c03_suffixed_only_exact : forall v q d a s,
  rps_wf d -> no_sharing d -> parentless_root d -> caps_nonneg d ->
  (forall g, In g (qy_groups q) -> use_same_provider g = true) ->
  anchors_hyp q d ->
  candidates v q d = COk a s ->
  (forall c, In c a -> exists c', In c' (map (creq_view v) (spec_candidates v q d)) /\ same_creq c c' = true) /\
  (forall c', In c' (map (creq_view v) (spec_candidates v q d)) -> exists c, In c a /\ same_creq c c' = true).
Proof.
  intros v q d a s Hwf Hns Hpr Hcap Hsuf Hah Hcand. split.
  - exact (c03_suffixed_only_sound v q d a s Hwf Hns Hpr Hcap Hsuf Hcand).
  - exact (c03_suffixed_only_complete v q d a s Hwf Hns Hpr Hcap Hsuf Hah Hcand).
Qed.

(* the same, as the three-way comparison used by the harness: the verdict is 0 ("same candidates") *)
Theorem c03_suffixed_only_spec_check : forall v q d a s,
  rps_wf d -> no_sharing d -> parentless_root d -> caps_nonneg d ->
  (forall g, In g (qy_groups q) -> use_same_provider g = true) ->
  anchors_hyp q d ->
  candidates v q d = COk a s ->
  spec_check v (candidates v q d) (spec_candidates v q d) = 0.
Proof.
  intros v q d a s Hwf Hns Hpr Hcap Hsuf Hah Hcand.
  destruct (c03_suffixed_only_exact v q d a s Hwf Hns Hpr Hcap Hsuf Hah Hcand) as [H1 H2].
  rewrite Hcand. unfold spec_check, subset_by.
  assert (E1 : forallb (fun x => existsb (same_creq x) (map (creq_view v) (spec_candidates v q d))) a = true).
  { apply forallb_forall. intros c Hc. apply existsb_exists. destruct (H1 c Hc) as [c' [Hc' E]]. exists c'. auto. }
  assert (E2 : forallb (fun x => existsb (same_creq x) a) (map (creq_view v) (spec_candidates v q d)) = true).
  { apply forallb_forall. intros c' Hc'. apply existsb_exists. destruct (H2 c' Hc') as [c [Hc E]]. exists c.
    split; [exact Hc|]. rewrite same_creq_sym. exact E. }
  rewrite E1, E2. reflexivity.
Qed.

(* ================================================================ the hypotheses, as one executable test *)
Definition fragment_db_b (d : db) : bool :=
  nodupZ (map rp_uuid (rps d)) && forallb (fun r => is_root d (rp_root r)) (rps d)
  && is_nil (get_sharing_providers d)
  && forallb (fun r => match rp_parent r with
                       | None => rp_root r =? rp_uuid r
                       | Some _ => negb (rp_root r =? rp_uuid r)
                       end) (rps d)
  && forallb (fun i => 0 <=? (i_total i - i_reserved i) * i_rm i) (invs d).
Lemma fragment_db_b_ok d : fragment_db_b d = true ->
  rps_wf d /\ no_sharing d /\ parentless_root d /\ roots_parentless d /\ caps_nonneg d.
Proof.
  unfold fragment_db_b. rewrite !andb_true_iff, !forallb_forall. intros [[[[H1 H2] H3] H4] H5].
  split; [split; [apply nodupZ_NoDup; exact H1|exact H2]|]. split.
  { unfold no_sharing. destruct (get_sharing_providers d); [reflexivity|discriminate]. }
  split. { intros r Hr Ep. specialize (H4 r Hr). rewrite Ep in H4. apply Z.eqb_eq. exact H4. }
  split. { intros r Hr Er. specialize (H4 r Hr). destruct (rp_parent r); [|reflexivity].
           apply Z.eqb_eq in Er. rewrite Er in H4. discriminate. }
  intros i Hi. apply Z.leb_le. exact (H5 i Hi).
Qed.

(* ================================================================ why anchors_hyp is needed *)
(* One provider 1 with VCPU (class 0) total 8, recorded as its own root (root = 1) AND with a parent pointer
   (parent = 1); query: resources1=VCPU:1 & root_required=!T (T a standard trait nobody has), at 1.39.
   Every hypothesis of the soundness theorem holds; the specification offers {1: VCPU 1} (1 is the root of its
   tree and does not have T), the code model answers with no candidate: _get_roots_with_traits
   (process_anchor_traits) looks for the anchors among the providers with parent IS NULL and finds none.
   The database is not a Forest (unreachable): this bounds the hypotheses, it is not a defect of the code. *)
Definition np_db : db := mkDb [mkRp 1 1 0 (Some 1) 1] [mkInv 1 0 8 0 1 8 1 1 0] [] [] [] [] [] [] [] [] [] [].
Definition np_query : query := mkQuery [mkGroup 1 [(0, 1)] [] [] [] [] None] GPAbsent None [] [6] [].
Theorem c03_complete_needs_roots_parentless :
  exists v q d,
    rps_wf d /\ no_sharing d /\ parentless_root d /\ caps_nonneg d /\
    (forall g, In g (qy_groups q) -> use_same_provider g = true) /\
    ~ Forest d /\
    candidates v q d = COk [] [] /\
    map (creq_view v) (spec_candidates v q d) = [mkCreq (-1) [mkRreq 1 0 1] [(1, [1])]].
Proof.
  exists 39, np_query, np_db. split; [|split; [|split; [|split; [|split; [|split; [|split]]]]]].
  - split.
    + apply nodupZ_NoDup. timeout 120 vm_compute. reflexivity.
    + intros r [<-|[]]. timeout 120 vm_compute. reflexivity.
  - timeout 120 vm_compute. reflexivity.
  - intros r [<-|[]]. cbn [rp_parent]. discriminate.
  - intros i [<-|[]]. timeout 120 vm_compute. discriminate.
  - intros g [<-|[]]. timeout 120 vm_compute. reflexivity.
  - intro HF. pose proof (Forest_roots_parentless _ HF _ (or_introl eq_refl) eq_refl) as H. discriminate H.
  - timeout 120 vm_compute. reflexivity.
  - timeout 120 vm_compute. reflexivity.
Qed.

(* ================================================================ non-vacuity *)
(* two trees 1 -> {2 -> 3, 4} and 5 -> 6 with VCPU (0) and MEMORY_MB (1) inventories, traits and an aggregate;
   three suffixed groups (one of them resourceless with a required trait), group_policy=isolate,
   root_required, same_subtree, at 1.39: every hypothesis holds and the model returns candidates *)
Definition nv_ops : list req :=
  [RpCreate 39 1 1 None; RpCreate 39 2 2 (Some 1); RpCreate 39 3 3 (Some 2); RpCreate 39 4 4 (Some 1);
   RpCreate 39 5 5 None; RpCreate 39 6 6 (Some 5);
   InvSet 39 2 0 [mkInvIn 0 8 0 1 4 1 1 0; mkInvIn 1 100 0 1 100 1 1 0];
   InvSet 39 3 0 [mkInvIn 0 8 0 1 8 1 1 0];
   InvSet 39 4 0 [mkInvIn 0 2 0 1 2 1 1 0; mkInvIn 1 50 0 1 50 1 1 0];
   InvSet 39 5 0 [mkInvIn 0 8 0 1 8 1 1 0];
   InvSet 39 6 0 [mkInvIn 0 3 0 1 8 1 1 0; mkInvIn 1 50 0 1 50 1 1 0];
   TraitsSet 39 1 0 [5]; TraitsSet 39 3 1 [7]; TraitsSet 39 6 1 [7];
   AggsSet 39 2 1 [1]; AggsSet 39 6 2 [1]].
Definition nv_db : db := run (mkCfg 0 0) db0 nv_ops.
Definition nv_groups : list rgroup :=
  [mkGroup 1 [(0, 2); (1, 5)] [] [] [] [] None; mkGroup 2 [(0, 2)] [] [] [] [] None; mkGroup 3 [] [[7]] [] [] [] None].
Definition nv_query (pol : gpolicy) : query := mkQuery nv_groups pol None [5] [] [[2; 3]].
Example c03_suffixed_only_nonvacuous :
  rps_wf nv_db /\ no_sharing nv_db /\ parentless_root nv_db /\ caps_nonneg nv_db /\
  forall pol, pol = GPNone \/ pol = GPIsolate ->
    (forall g, In g (qy_groups (nv_query pol)) -> use_same_provider g = true) /\
    anchors_hyp (nv_query pol) nv_db /\
    exists a s, candidates 39 (nv_query pol) nv_db = COk a s /\
                lenZ a = (match pol with GPNone => 4 | _ => 1 end) /\
                lenZ (spec_candidates 39 (nv_query pol) nv_db) = lenZ a.
Proof.
  assert (Hb : fragment_db_b nv_db = true) by (timeout 120 vm_compute; reflexivity).
  destruct (fragment_db_b_ok nv_db Hb) as [H1 [H2 [H3 [H4 H5]]]].
  split; [exact H1|]. split; [exact H2|]. split; [exact H3|]. split; [exact H5|].
  intros pol Hpol. split.
  { intros g Hg. cbn [nv_query qy_groups nv_groups] in Hg.
    repeat (destruct Hg as [<-|Hg]; [timeout 120 vm_compute; reflexivity|]). destruct Hg. }
  split; [right; exact H4|].
  destruct Hpol as [->| ->]; timeout 120 vm_compute; eexists; eexists; (split; [reflexivity|split; reflexivity]).
Qed.

(* ================================================================ the model always answers on the fragment *)
(* neither the KeyError of the multiple-provider path nor an order-dependent answer can occur: the answer is an
   error status or a candidate list - and then, by c03_suffixed_only_exact, the list of the specification *)
Lemma mk_rg_ctx_no_keyerror d g : mk_rg_ctx d g <> RKeyError.
Proof.
  unfold mk_rg_ctx. destruct (negb (forallb _ (g_resources g))); [discriminate|].
  destruct (_ && _); [discriminate|]. destruct (negb _); [discriminate|].
  destruct (match g_in_tree g with None => Some None | Some u => _ end) as [t|]; [|discriminate].
  destruct (rps_with_resource_all d t (g_resources g)); discriminate.
Qed.
Lemma anchor_traits_no_keyerror d q : process_anchor_traits d q <> RKeyError.
Proof.
  unfold process_anchor_traits. destruct (_ && _); [discriminate|]. destruct (negb _); [discriminate|].
  destruct (get_roots_with_traits d _ _); discriminate.
Qed.
Lemma groups_loop_no_keyerror d rw : rps_wf d -> forall gs st acc,
  (forall g, In g gs -> use_same_provider g = true) -> groups_loop d rw st gs acc <> RKeyError.
Proof.
  intros Hwf. induction gs as [|g gs IH]; intros st acc Hall; cbn [groups_loop]; [discriminate|].
  pose proof (mk_rg_ctx_no_keyerror d g) as Hk.
  destruct (mk_rg_ctx d g) as [ctx| | |] eqn:Ec; try discriminate; [|contradiction].
  assert (H1 : get_by_one_request d rw ctx st <> RKeyError).
  { destruct (mk_rg_ctx_ok d Hwf g ctx Ec) as [_ Eg]. unfold get_by_one_request.
    rewrite Eg, (Hall g (or_introl eq_refl)). cbn [negb andb]. unfold alloc_candidates_single_provider.
    destruct (is_nil (get_provider_ids_matching d ctx)); discriminate. }
  destruct (get_by_one_request d rw ctx st) as [[l st1]| | |]; try discriminate; [|contradiction].
  destruct l as [|c0 l0]; [discriminate|]. apply IH. intros g' Hg'. apply Hall. right. exact Hg'.
Qed.

Theorem c03_suffixed_only_answers : forall v q d,
  rps_wf d -> no_sharing d ->
  (forall g, In g (qy_groups q) -> use_same_provider g = true) ->
  (exists e, candidates v q d = CErr e) \/ (exists a s, candidates v q d = COk a s).
Proof.
  intros v q d Hwf Hns Hsuf. unfold candidates, candidates_gen. destruct (v <? 10); [left; eauto|].
  destruct (negb (query_wf v q)); [left; eauto|]. unfold get_by_requests_gen.
  pose proof (anchor_traits_no_keyerror d q) as Ha.
  destruct (process_anchor_traits d q) as [anchors| | |]; [|right; eauto|left; eauto|contradiction].
  set (rw := mkRwCtx (has_provider_trees d) (29 <=? v) anchors (qy_policy q) (qy_same_subtree q)).
  pose proof (groups_loop_no_keyerror d rw Hwf (qy_groups q) (mkRwState (get_sharing_providers d) []) [] Hsuf) as Hk.
  destruct (groups_loop d rw (mkRwState (get_sharing_providers d) []) (qy_groups q) []) as [[cands st]| | |] eqn:El;
    [|right; eauto|left; eauto|contradiction].
  destruct (groups_loop_sound d Hwf Hns rw (qy_groups q) _ [] cands st Hsuf El) as [l2 [Ec HF]].
  cbn [rev app] in Ec. subst l2.
  assert (Hex : existsb (fun gl : rgroup * list creq => negb (use_same_provider (fst gl)) && anchor_ambiguous (snd gl)) cands = false).
  { apply existsb_false_all. intros gl Hgl. destruct (Forall2_In_l _ _ _ _ HF Hgl) as [g [Hg [E _]]].
    apply in_combine_r in Hg. rewrite E, (Hsuf g Hg). reflexivity. }
  rewrite Hex, andb_false_r. cbn [negb orb]. unfold finish_requests, transform. right. eauto.
Qed.

(* on the fragment the verdict of the three-way comparison is never 5 ("they differ") nor 6 ("no list") unless
   the model answers with an error status *)
Theorem c03_suffixed_only_verdict : forall v q d,
  rps_wf d -> no_sharing d -> parentless_root d -> caps_nonneg d ->
  (forall g, In g (qy_groups q) -> use_same_provider g = true) ->
  anchors_hyp q d ->
  (exists e, candidates v q d = CErr e) \/ spec_check v (candidates v q d) (spec_candidates v q d) = 0.
Proof.
  intros v q d Hwf Hns Hpr Hcap Hsuf Hah. destruct (c03_suffixed_only_answers v q d Hwf Hns Hsuf) as [H|[a [s H]]].
  - left. exact H.
  - right. exact (c03_suffixed_only_spec_check v q d a s Hwf Hns Hpr Hcap Hsuf Hah H).
Qed.

Print Assumptions Forest_roots_parentless.
Print Assumptions c03_suffixed_only_complete.
Print Assumptions c03_suffixed_only_exact.
Print Assumptions c03_suffixed_only_spec_check.
Print Assumptions fragment_db_b_ok.
Print Assumptions c03_complete_needs_roots_parentless.
Print Assumptions c03_suffixed_only_nonvacuous.
Print Assumptions c03_suffixed_only_answers.
Print Assumptions c03_suffixed_only_verdict.
