(* C03 - towards "model = specification" for queries made of suffixed groups only: the per-group step.
   For a request group handled by get_provider_ids_matching (every suffixed group; the unsuffixed one when
   there is neither nesting nor sharing), the (provider, root) pairs the code model finds are EXACTLY the
   existing providers that satisfy the declarative slot condition suffixed_ok of Spec/CandSpec.v. *)
From PV Require Import Spec.CandSpec Proofs.C13 Proofs.C03 Proofs.C02 Proofs.C02m.

Section PerGroup.
  Variable d : db.
  Hypothesis Hnd : NoDup (map rp_uuid (rps d)).

  (* ---------------------------------------------------------------- get_providers_with_resource *)
  Lemma gpwr_In rc amount t p root :
    In (p, root) (get_providers_with_resource d rc amount t) <->
    exists r, find_rp d p = Some r /\ root = rp_root r /\ has_room d p rc amount = true /\
              match t with Some t0 => rp_root r = t0 | None => True end.
  Proof.
    unfold get_providers_with_resource. rewrite in_flat_map. split.
    - intros [i [Hi H]]. destruct ((i_rc i =? rc) && capacity_check_clause d i amount) eqn:C; [|destruct H].
      destruct (find_rp d (i_rp i)) as [r|] eqn:F; [|destruct H].
      destruct (match t with Some t0 => rp_root r =? t0 | None => true end) eqn:T; [|destruct H].
      destruct H as [[= <- <-]|[]]. pose proof (find_rp_l_Some _ _ _ F) as [Hr Eu].
      exists r. rewrite Eu. repeat split; try assumption.
      + apply has_room_spec. apply andb_true_iff in C. destruct C as [C1 C2]. apply Z.eqb_eq in C1.
        unfold capacity_check_clause in C2. rewrite !andb_true_iff, !Z.leb_le, Z.eqb_eq in C2.
        exists i. rewrite C1 in C2. repeat split; try tauto.
      + destruct t; [apply Z.eqb_eq; assumption|exact I].
    - intros [r [F [-> [Hroom Ht]]]]. apply has_room_spec in Hroom.
      destruct Hroom as [i [Hi [E1 [E2 [H1 [[H2 H3] H4]]]]]]. exists i. split; [assumption|].
      assert (C : (i_rc i =? rc) && capacity_check_clause d i amount = true).
      { unfold capacity_check_clause. rewrite E1, E2, !andb_true_iff, !Z.leb_le, !Z.eqb_eq. repeat split; assumption. }
      rewrite C, E1, F.
      assert (T : match t with Some t0 => rp_root r =? t0 | None => true end = true)
        by (destruct t; [apply Z.eqb_eq; assumption|reflexivity]).
      rewrite T. pose proof (find_rp_l_Some _ _ _ F) as [_ Eu]. rewrite Eu. left. reflexivity.
  Qed.

  Lemma rwra_map t res l : rps_with_resource_all d t res = Some l ->
    l = map (fun x => (fst x, get_providers_with_resource d (fst x) (snd x) t)) res.
  Proof.
    revert l. induction res as [|[rc amount] res IH]; intro l; cbn [rps_with_resource_all map fst snd].
    - intros [= <-]. reflexivity.
    - destruct (get_providers_with_resource d rc amount t) as [|p0 ps] eqn:E; [discriminate|].
      destruct (rps_with_resource_all d t res) as [t'|]; [|discriminate]. intros [= <-]. f_equal. apply IH. reflexivity.
  Qed.

  (* ---------------------------------------------------------------- the search context of a group *)
  Variables (g : rgroup) (ctx : rg_ctx).
  Hypothesis Hctx : mk_rg_ctx d g = RVal ctx.

  Lemma ctx_fields :
    rg_group ctx = g /\
    rg_rps_in_aggs ctx = (if is_nil (g_member_of g) then [] else provider_ids_matching_aggregates d (g_member_of g)) /\
    (match g_in_tree g with
     | None => rg_tree_root ctx = None
     | Some u => exists tr, find_rp d u = Some tr /\ rg_tree_root ctx = Some (rp_root tr)
     end) /\
    rg_with_resource ctx = map (fun x => (fst x, get_providers_with_resource d (fst x) (snd x) (rg_tree_root ctx))) (g_resources g).
  Proof.
    revert Hctx. unfold mk_rg_ctx. destruct (negb (forallb _ (g_resources g))); [discriminate|].
    destruct (_ && _); [discriminate|]. destruct (negb _); [discriminate|].
    destruct (g_in_tree g) as [u|].
    - destruct (find_rp d u) as [tr|] eqn:F; [|discriminate].
      destruct (rps_with_resource_all d (Some (rp_root tr)) (g_resources g)) as [l|] eqn:E; [|discriminate].
      intros [= <-]. cbn [rg_group rg_rps_in_aggs rg_tree_root rg_with_resource]. repeat split; eauto using rwra_map.
    - destruct (rps_with_resource_all d None (g_resources g)) as [l|] eqn:E; [|discriminate].
      intros [= <-]. cbn [rg_group rg_rps_in_aggs rg_tree_root rg_with_resource]. repeat split; eauto using rwra_map.
  Qed.

  (* the provider lies in the tree asked for by in_tree *)
  Lemma tree_root_ok p r : find_rp d p = Some r ->
    (match rg_tree_root ctx with Some t0 => rp_root r = t0 | None => True end) <-> in_tree_ok d g p = true.
  Proof.
    intro F. destruct ctx_fields as [_ [_ [Ht _]]]. unfold in_tree_ok, root_of. rewrite F.
    destruct (g_in_tree g) as [u|].
    - destruct Ht as [tr [Fu ->]]. rewrite Fu, Z.eqb_eq. tauto.
    - rewrite Ht. tauto.
  Qed.

  (* ---------------------------------------------------------------- get_provider_ids_for_traits_and_aggs *)
  (* the trait / aggregate part of the slot condition *)
  Definition filters_ok (p : Z) : bool :=
    forallb (has_some_trait d p) (g_required g) && forallb (in_some_agg d p) (g_member_of g)
    && negb (in_some_agg d p (g_forbidden_aggs g)) && negb (has_some_trait d p (g_forbidden g)).

  Let bad_aggs := if is_nil (g_forbidden_aggs g) then [] else provider_ids_matching_aggregates d [g_forbidden_aggs g].
  Let bad_traits := if is_nil (g_forbidden g) then [] else get_provider_ids_having_any_trait d (g_forbidden g).

  Lemma in_some_agg_nil p : in_some_agg d p [] = false.
  Proof.
    unfold in_some_agg. destruct (existsb _ (rp_aggs d)) eqn:E; [|reflexivity]. apply existsb_exists in E.
    destruct E as [x [_ E]]. rewrite andb_false_r in E. discriminate.
  Qed.
  Lemma has_some_trait_nil p : has_some_trait d p [] = false.
  Proof.
    unfold has_some_trait. destruct (existsb _ (rp_traits d)) eqn:E; [|reflexivity]. apply existsb_exists in E.
    destruct E as [x [_ E]]. rewrite andb_false_r in E. discriminate.
  Qed.
  Lemma bad_aggs_In p : ex d p -> (In p bad_aggs <-> in_some_agg d p (g_forbidden_aggs g) = true).
  Proof.
    intro Hex. unfold bad_aggs. destruct (g_forbidden_aggs g) as [|a0 l0] eqn:E; cbn [is_nil].
    - rewrite in_some_agg_nil. cbn [In]. split; [tauto|discriminate].
    - rewrite matching_aggregates_In. cbn [forallb]. rewrite andb_true_r. split; [intros [r [_ [_ H]]]; exact H|].
      intro H. unfold ex in Hex. apply in_map_iff in Hex. destruct Hex as [r [E' Hr]]. exists r. auto.
  Qed.
  Lemma bad_traits_In p : In p bad_traits <-> has_some_trait d p (g_forbidden g) = true.
  Proof.
    unfold bad_traits. destruct (g_forbidden g) as [|a0 l0] eqn:E; cbn [is_nil].
    - rewrite has_some_trait_nil. cbn [In]. split; [tauto|discriminate].
    - apply having_any_trait_In.
  Qed.
  Lemma diffZ_In x a b : In x (diffZ a b) <-> In x a /\ ~ In x b.
  Proof.
    unfold diffZ. rewrite filter_In, negb_true_iff. split; intros [H1 H2]; (split; [assumption|]).
    - intro H. apply memZ_In in H. congruence.
    - destruct (memZ x b) eqn:E; [apply memZ_In in E; contradiction|reflexivity].
  Qed.

  (* invariant of the filtered set through the stages: None = nobody can match; Some [] = no positive
     filter was applied; otherwise exactly the existing providers satisfying Q *)
  Definition stage_inv (Q : Z -> bool) (s : option (list Z)) : Prop :=
    match s with
    | None => forall p, ex d p -> Q p = false
    | Some [] => True
    | Some f => forall p, In p f <-> ex d p /\ Q p = true
    end.
  Definition neg_stage (skip : bool) (bad : list Z) (s : option (list Z)) : option (list Z) :=
    match s with
    | None => None
    | Some [] => Some []
    | Some f => if skip then Some f else match diffZ f bad with [] => None | l => Some l end
    end.
  Lemma neg_stage_inv Q B skip bad s :
    (forall p, ex d p -> (In p bad <-> B p = true)) -> (skip = true -> forall p, B p = false) ->
    stage_inv Q s -> stage_inv (fun p => Q p && negb (B p)) (neg_stage skip bad s).
  Proof.
    intros Hbad Hskip. destruct s as [[|x0 xs]|]; cbn [neg_stage stage_inv].
    - trivial.
    - intro H. destruct skip.
      + intro p. rewrite H, (Hskip eq_refl p), andb_true_r. tauto.
      + destruct (diffZ (x0 :: xs) bad) as [|y0 ys] eqn:E.
        * intros p Hp. destruct (Q p) eqn:Eq; [|reflexivity]. cbn [andb]. apply negb_false_iff.
          assert (Hin : In p (x0 :: xs)) by (apply H; auto).
          destruct (B p) eqn:Eb; [reflexivity|]. exfalso.
          assert (In p (diffZ (x0 :: xs) bad)).
          { apply diffZ_In. split; [assumption|]. intro Hb. apply (Hbad p Hp) in Hb. congruence. }
          rewrite E in H0. destruct H0.
        * intro p. rewrite <- E, diffZ_In, H, andb_true_iff, negb_true_iff. split.
          -- intros [[Hex Hq] Hn]. repeat split; try assumption. destruct (B p) eqn:Eb; [|reflexivity].
             exfalso. apply Hn. apply (Hbad p Hex). assumption.
          -- intros [Hex [Hq Hb]]. repeat split; try assumption. intro Hin. apply (Hbad p Hex) in Hin. congruence.
    - intros H p Hp. rewrite (H p Hp). reflexivity.
  Qed.
  Lemma neg_stage_nil skip bad s : neg_stage skip bad s = Some [] -> s = Some [].
  Proof.
    destruct s as [[|x0 xs]|]; cbn [neg_stage]; try discriminate; [reflexivity|].
    destruct skip; [discriminate|]. destruct (diffZ _ _); discriminate.
  Qed.

  Definition pos_ok (p : Z) : bool :=
    forallb (has_some_trait d p) (g_required g) && forallb (in_some_agg d p) (g_member_of g).

  Lemma traits_and_aggs_char :
    let res := get_provider_ids_for_traits_and_aggs d ctx in
    stage_inv filters_ok (fst res) /\
    (fst res = Some [] -> g_required g = [] /\ g_member_of g = []) /\
    (fst res <> None -> forall p, ex d p -> (In p (snd res) <-> (in_some_agg d p (g_forbidden_aggs g) || has_some_trait d p (g_forbidden g)) = true)).
  Proof.
    destruct ctx_fields as [Eg [Eaggs _]]. unfold get_provider_ids_for_traits_and_aggs. rewrite Eg, Eaggs.
    fold bad_aggs. fold bad_traits.
    (* stage 1: required traits *)
    set (f1 := if is_nil (g_required g) then Some [] else
               match provider_ids_matching_required_traits d (g_required g) with [] => None | l => Some l end).
    assert (H1 : stage_inv (fun p => forallb (has_some_trait d p) (g_required g)) f1 /\ (f1 = Some [] -> g_required g = [])).
    { unfold f1. destruct (g_required g) as [|a0 l0] eqn:E; cbn [is_nil]; [split; [exact I|reflexivity]|]. rewrite <- E.
      destruct (provider_ids_matching_required_traits d (g_required g)) as [|x0 xs] eqn:Em; (split; [|discriminate]).
      - intros p Hp. destruct (forallb _ (g_required g)) eqn:F; [|reflexivity]. exfalso.
        assert (In p (provider_ids_matching_required_traits d (g_required g))).
        { apply matching_traits_In. unfold ex in Hp. apply in_map_iff in Hp. destruct Hp as [r [Er Hr]]. exists r. auto. }
        rewrite Em in H. destruct H.
      - intro p. rewrite <- Em, matching_traits_In. unfold ex. rewrite in_map_iff. split.
        + intros [r [Hr [Er H]]]. split; [exists r; auto|assumption].
        + intros [[r [Er Hr]] H]. exists r. auto. }
    destruct H1 as [H1 N1].
    (* stage 2: member_of *)
    set (in_aggs := if is_nil (g_member_of g) then [] else provider_ids_matching_aggregates d (g_member_of g)).
    set (f2 := match f1 with
               | None => None
               | Some f => if is_nil (g_member_of g) then Some f else
                           match (if is_nil f then in_aggs else interZ f in_aggs) with [] => None | l => Some l end
               end).
    assert (Hagg : forall p, In p (provider_ids_matching_aggregates d (g_member_of g)) <->
                             ex d p /\ forallb (in_some_agg d p) (g_member_of g) = true).
    { intro p. rewrite matching_aggregates_In. unfold ex. rewrite in_map_iff. split.
      - intros [r [Hr [Er H]]]. split; [exists r; auto|assumption].
      - intros [[r [Er Hr]] H]. exists r. auto. }
    assert (H2 : stage_inv pos_ok f2 /\ (f2 = Some [] -> g_required g = [] /\ g_member_of g = [])).
    { unfold f2, pos_ok, in_aggs. destruct (g_member_of g) as [|m0 ms] eqn:Em; cbn [is_nil].
      - destruct f1 as [[|x0 xs]|]; cbn [stage_inv] in *.
        + split; [exact I|]. intros _. split; [apply N1; reflexivity|reflexivity].
        + split; [|discriminate]. intro p. rewrite H1. cbn [forallb]. rewrite andb_true_r. tauto.
        + split; [|discriminate]. intros p Hp. rewrite (H1 p Hp). reflexivity.
      - rewrite <- Em in *. destruct f1 as [[|x0 xs]|]; cbn [stage_inv is_nil] in *.
        + rewrite (N1 eq_refl). cbn [forallb andb].
          destruct (provider_ids_matching_aggregates d (g_member_of g)) as [|y0 ys] eqn:E; (split; [|try discriminate]).
          * intros p Hp. destruct (forallb _ (g_member_of g)) eqn:F; [|reflexivity]. exfalso.
            apply (proj2 (Hagg p) (conj Hp F)).
          * exact Hagg.
        + destruct (interZ (x0 :: xs) (provider_ids_matching_aggregates d (g_member_of g))) as [|y0 ys] eqn:E;
            (split; [|try discriminate]).
          * intros p Hp. apply andb_false_iff. destruct (forallb (has_some_trait d p) (g_required g)) eqn:F1; [right|left; reflexivity].
            destruct (forallb _ (g_member_of g)) eqn:F2; [|reflexivity]. exfalso.
            assert (In p (interZ (x0 :: xs) (provider_ids_matching_aggregates d (g_member_of g)))).
            { apply interZ_In. split; [apply H1; auto|apply Hagg; auto]. }
            rewrite E in H. destruct H.
          * intro p. rewrite <- E, interZ_In, H1, Hagg, andb_true_iff. tauto.
        + split; [|discriminate]. intros p Hp. rewrite (H1 p Hp). reflexivity. }
    destruct H2 as [H2 N2].
    (* stages 3 and 4: forbidden aggregates, forbidden traits *)
    set (f3 := neg_stage (is_nil (g_forbidden_aggs g)) bad_aggs f2).
    set (f4 := neg_stage (is_nil (g_forbidden g)) bad_traits f3).
    assert (H3 : stage_inv (fun p => pos_ok p && negb (in_some_agg d p (g_forbidden_aggs g))) f3).
    { apply neg_stage_inv; [apply bad_aggs_In| |assumption]. intros E p. destruct (g_forbidden_aggs g); [apply in_some_agg_nil|discriminate]. }
    assert (H4 : stage_inv filters_ok f4).
    { assert (H4' : stage_inv (fun p => (pos_ok p && negb (in_some_agg d p (g_forbidden_aggs g))) && negb (has_some_trait d p (g_forbidden g))) f4).
      { apply neg_stage_inv; [intros p _; apply bad_traits_In| |assumption].
        intros E p. destruct (g_forbidden g); [apply has_some_trait_nil|discriminate]. }
      exact H4'. }
    (* the code's nested matches are these stages *)
    assert (Ecode : forall X (k1 : X) (k2 : list Z -> X),
       match f4 with None => k1 | Some f => k2 f end =
       match (match (match f2 with
                     | None => None
                     | Some [] => Some []
                     | Some f => if is_nil (g_forbidden_aggs g) then Some f else
                                 match diffZ f bad_aggs with [] => None | l => Some l end
                     end) with
              | None => None
              | Some [] => Some []
              | Some f => if is_nil (g_forbidden g) then Some f else
                          match diffZ f bad_traits with [] => None | l => Some l end
              end) with None => k1 | Some f => k2 f end) by reflexivity.
    fold in_aggs. fold f1. fold f2.
    change (let res := match f4 with None => (None, []) | Some f => (Some f, unionZ bad_aggs bad_traits) end in
            stage_inv filters_ok (fst res) /\
            (fst res = Some [] -> g_required g = [] /\ g_member_of g = []) /\
            (fst res <> None -> forall p, ex d p -> (In p (snd res) <-> (in_some_agg d p (g_forbidden_aggs g) || has_some_trait d p (g_forbidden g)) = true))).
    cbv zeta. destruct f4 as [f|] eqn:E4; cbn [fst snd].
    - split; [exact H4|]. split.
      + intros [= ->]. apply N2. unfold f4 in E4. apply neg_stage_nil in E4. unfold f3 in E4. apply neg_stage_nil in E4. exact E4.
      + intros _ p Hp. rewrite unionZ_In, orb_true_iff, (bad_aggs_In p Hp), bad_traits_In. tauto.
    - split; [exact H4|]. split; [discriminate|]. intro H. contradiction.
  Qed.

  (* ---------------------------------------------------------------- get_provider_ids_matching *)
  Lemma root_row r : In r (rps d) -> root_of d (rp_uuid r) = rp_root r.
  Proof.
    intro H. unfold root_of. assert (F : find_rp d (rp_uuid r) = Some r) by (apply find_rp_iff; auto).
    rewrite F. reflexivity.
  Qed.
  Lemma ex_find p : ex d p <-> exists r, find_rp d p = Some r.
  Proof.
    unfold ex. split.
    - apply find_rp_exists.
    - intros [r F]. apply find_rp_l_Some in F. destruct F as [Hr <-]. apply in_map. assumption.
  Qed.
  Lemma ids_In rc amount p :
    In p (map fst (get_providers_with_resource d rc amount (rg_tree_root ctx))) <->
    ex d p /\ has_room d p rc amount = true /\ in_tree_ok d g p = true.
  Proof.
    rewrite in_map_iff. split.
    - intros [[p' root] [E H]]. cbn [fst] in E. subst p'. apply gpwr_In in H. destruct H as [r [F [_ [Hroom Ht]]]].
      split; [apply ex_find; eauto|]. split; [assumption|]. apply (tree_root_ok p r F). assumption.
    - intros [Hex [Hroom Ht]]. apply ex_find in Hex. destruct Hex as [r F]. exists (p, rp_root r). split; [reflexivity|].
      apply gpwr_In. exists r. repeat split; try assumption. apply (tree_root_ok p r F). assumption.
  Qed.
  Lemma fold_inter_In (l : list (Z * list (Z * Z))) : forall f p,
    In p (fold_left (fun acc x => interZ acc (map fst (snd x))) l f) <->
    In p f /\ forall x, In x l -> In p (map fst (snd x)).
  Proof.
    induction l as [|y l IH]; intros f p; cbn [fold_left In]; [intuition|].
    rewrite IH, interZ_In. split.
    - intros [[H1 H2] H3]. split; [assumption|]. intros x [<-|Hx]; auto.
    - intros [H1 H2]. repeat split; auto.
  Qed.

  Definition room_all (p : Z) : bool := forallb (fun x => has_room d p (fst x) (snd x)) (g_resources g).
  Lemma suffixed_ok_split p : suffixed_ok d g p = room_all p && filters_ok p && in_tree_ok d g p.
  Proof.
    unfold suffixed_ok, room_all, filters_ok.
    destruct (forallb (fun x => has_room d p (fst x) (snd x)) (g_resources g)), (forallb (has_some_trait d p) (g_required g)),
      (has_some_trait d p (g_forbidden g)), (forallb (in_some_agg d p) (g_member_of g)), (in_some_agg d p (g_forbidden_aggs g)),
      (in_tree_ok d g p); reflexivity.
  Qed.

  Theorem matching_char pr :
    In pr (get_provider_ids_matching d ctx) <->
    ex d (fst pr) /\ snd pr = root_of d (fst pr) /\ suffixed_ok d g (fst pr) = true.
  Proof.
    destruct pr as [p root]. cbn [fst snd]. rewrite suffixed_ok_split.
    pose proof traits_and_aggs_char as Hc. cbv zeta in Hc.
    destruct ctx_fields as [_ [_ [_ Ewr]]].
    unfold get_provider_ids_matching. destruct (get_provider_ids_for_traits_and_aggs d ctx) as [fo forb].
    cbn [fst snd] in Hc. destruct Hc as [Hinv [Hnil Hforb]].
    destruct fo as [filtered|].
    2:{ cbn [stage_inv] in Hinv. split; [intros []|]. intros [Hex [_ H]]. rewrite (Hinv p Hex), andb_false_r in H. discriminate. }
    assert (Hforb' : forall q0, ex d q0 -> (In q0 forb <-> (in_some_agg d q0 (g_forbidden_aggs g) || has_some_trait d q0 (g_forbidden g)) = true))
      by (apply Hforb; discriminate).
    (* membership in the filtered set, or "unfiltered and not forbidden" *)
    assert (Hsel : forall q0, ex d q0 ->
              ((if is_nil filtered then negb (memZ q0 forb) else memZ q0 filtered) = true <-> filters_ok q0 = true)).
    { intros q0 Hq. destruct filtered as [|x0 xs] eqn:Ef; cbn [is_nil].
      - destruct (Hnil eq_refl) as [Er Em]. unfold filters_ok. rewrite Er, Em. cbn [forallb andb].
        rewrite negb_true_iff, andb_true_iff, !negb_true_iff. split.
        + intro H. assert (Hn : ~ In q0 forb) by (intro Hi; apply memZ_In in Hi; congruence).
          rewrite (Hforb' q0 Hq) in Hn. destruct (in_some_agg d q0 _), (has_some_trait d q0 _); cbn in Hn; auto; exfalso; auto.
        + intros [H1 H2]. destruct (memZ q0 forb) eqn:M; [|reflexivity]. apply memZ_In in M. apply (Hforb' q0 Hq) in M.
          rewrite H1, H2 in M. discriminate.
      - cbn [stage_inv] in Hinv. rewrite memZ_In, Hinv. tauto. }
    rewrite Ewr. destruct (g_resources g) as [|[rc1 a1] rest] eqn:Eres; cbn [map fst snd].
    - (* resourceless group *)
      assert (Hroom : room_all p = true) by (unfold room_all; rewrite Eres; reflexivity). rewrite Hroom. cbn [andb].
      set (provs := get_providers_with_root d filtered forb).
      assert (Hprovs : forall q0 rt, In (q0, rt) provs <->
                ex d q0 /\ rt = root_of d q0 /\ (is_nil filtered || memZ q0 filtered) && negb (memZ q0 forb) = true).
      { intros q0 rt. unfold provs, get_providers_with_root. rewrite in_map_iff. split.
        - intros [r [[= <- <-] H]]. apply filter_In in H. destruct H as [Hr H]. split; [apply in_map; assumption|].
          split; [symmetry; apply root_row; assumption|assumption].
        - intros [Hex [-> H]]. apply ex_find in Hex. destruct Hex as [r F]. pose proof (find_rp_l_Some _ _ _ F) as [Hr Eu].
          exists r. split; [|apply filter_In; rewrite Eu; auto]. unfold root_of. rewrite F, Eu. reflexivity. }
      assert (Htree : forall q0 rt, ex d q0 -> rt = root_of d q0 ->
                ((match rg_tree_root ctx with Some t => rt =? t | None => true end) = true <-> in_tree_ok d g q0 = true)).
      { intros q0 rt Hq ->. apply ex_find in Hq. destruct Hq as [r F]. rewrite <- (tree_root_ok q0 r F).
        unfold root_of. rewrite F. destruct (rg_tree_root ctx); [apply Z.eqb_eq|tauto]. }
      assert (Hit : forall x, In x (match rg_tree_root ctx with Some t => filter (fun p0 => snd p0 =? t) provs | None => provs end)
                              <-> In x provs /\ (match rg_tree_root ctx with Some t => snd x =? t | None => true end) = true).
      { intro x. destruct (rg_tree_root ctx); [apply filter_In|tauto]. }
      assert (Hgoal : In (p, root) provs /\ (match rg_tree_root ctx with Some t => root =? t | None => true end) = true
                      /\ (is_nil filtered = true \/ memZ p filtered = true)
                      <-> ex d p /\ root = root_of d p /\ filters_ok p && in_tree_ok d g p = true).
      { rewrite Hprovs. split.
        - intros [[Hex [Er Hs]] [Ht Hf]]. split; [assumption|]. split; [assumption|].
          apply andb_true_iff. split; [|apply (Htree p root Hex Er); assumption].
          apply (Hsel p Hex). apply andb_true_iff in Hs. destruct Hs as [Hs1 Hs2].
          destruct (is_nil filtered); [assumption|]. destruct Hf as [Hf|Hf]; [discriminate|assumption].
        - intros [Hex [Er H]]. apply andb_true_iff in H. destruct H as [Hf Ht]. apply (Hsel p Hex) in Hf.
          assert (Hnf : negb (memZ p forb) = true).
          { destruct (is_nil filtered) eqn:En; [assumption|]. apply negb_true_iff. destruct (memZ p forb) eqn:M; [|reflexivity].
            apply memZ_In in M. apply (Hforb' p Hex) in M. apply (Hsel p Hex) in Hf. unfold filters_ok in Hf.
            rewrite !andb_true_iff, !negb_true_iff in Hf. destruct Hf as [[[_ _] H1] H2]. rewrite H1, H2 in M. discriminate. }
          repeat split; try assumption.
          + apply andb_true_iff. split; [|assumption]. destruct (is_nil filtered); [reflexivity|assumption].
          + apply (Htree p root Hex Er). assumption.
          + destruct (is_nil filtered); [left; reflexivity|right; assumption]. }
      rewrite <- Hgoal. destruct (is_nil filtered) eqn:En.
      + rewrite Hit. cbn [snd]. intuition.
      + rewrite filter_In, Hit. cbn [fst snd]. intuition discriminate.
    - (* at least one resource *)
      set (L := fun x : Z * Z => (fst x, get_providers_with_resource d (fst x) (snd x) (rg_tree_root ctx))).
      set (first := get_providers_with_resource d rc1 a1 (rg_tree_root ctx)).
      set (f1 := if is_nil filtered then diffZ (map fst first) forb else interZ filtered (map fst first)).
      assert (Hf1 : forall q0, In q0 f1 <-> ex d q0 /\ has_room d q0 rc1 a1 = true /\ in_tree_ok d g q0 = true /\ filters_ok q0 = true).
      { intro q0. unfold f1, first. destruct (is_nil filtered) eqn:En.
        - rewrite diffZ_In, ids_In. split.
          + intros [[Hex [H1 H2]] Hn]. repeat split; try assumption. pose proof (Hsel q0 Hex) as Hs. cbv iota in Hs.
            apply Hs. apply negb_true_iff. destruct (memZ q0 forb) eqn:M; [apply memZ_In in M; contradiction|reflexivity].
          + intros [Hex [H1 [H2 H3]]]. split; [auto|]. pose proof (Hsel q0 Hex) as Hs. cbv iota in Hs. apply Hs in H3.
            apply negb_true_iff in H3. intro Hi. apply memZ_In in Hi. congruence.
        - rewrite interZ_In, ids_In. split.
          + intros [Hm [Hex [H1 H2]]]. repeat split; try assumption. pose proof (Hsel q0 Hex) as Hs. cbv iota in Hs.
            apply Hs. apply memZ_In. assumption.
          + intros [Hex [H1 [H2 H3]]]. split; [|auto]. pose proof (Hsel q0 Hex) as Hs. cbv iota in Hs. apply Hs in H3.
            apply memZ_In. assumption. }
      rewrite filter_In, memZ_In, fold_inter_In, Hf1. cbn [fst].
      assert (Hrest : (forall x, In x (map L rest) -> In p (map fst (snd x))) <->
                      (forall y, In y rest -> ex d p /\ has_room d p (fst y) (snd y) = true /\ in_tree_ok d g p = true)).
      { split.
        - intros H y Hy. apply ids_In. apply (H (L y)). apply in_map. assumption.
        - intros H x Hx. apply in_map_iff in Hx. destruct Hx as [y [<- Hy]]. unfold L. cbn [snd]. apply ids_In. auto. }
      rewrite Hrest.
      assert (Hroom : room_all p = true <-> has_room d p rc1 a1 = true /\ forall y, In y rest -> has_room d p (fst y) (snd y) = true).
      { unfold room_all. rewrite Eres. cbn [forallb fst snd]. rewrite andb_true_iff, forallb_forall. tauto. }
      (* the list the pairs are finally taken from: the last resource's *)
      assert (Hlast : exists y, In y ((rc1, a1) :: rest) /\
                        snd (last (map L rest) (0, first)) = get_providers_with_resource d (fst y) (snd y) (rg_tree_root ctx)).
      { destruct (last_cases (map L rest) (0, first)) as [[_ ->]|H].
        - exists (rc1, a1). split; [left; reflexivity|reflexivity].
        - apply in_map_iff in H. destruct H as [y [<- Hy]]. exists y. split; [right; assumption|reflexivity]. }
      destruct Hlast as [y [Hy ->]]. rewrite gpwr_In. split.
      + intros [[r [F [-> [_ _]]]] [[Hex [H1 [H2 H3]]] H4]]. split; [assumption|]. split; [unfold root_of; rewrite F; reflexivity|].
        rewrite !andb_true_iff. repeat split; try assumption. apply Hroom. split; [assumption|]. intros z Hz. apply (H4 z Hz).
      + intros [Hex [-> H]]. rewrite !andb_true_iff in H. destruct H as [[Hr Hf] Ht]. apply Hroom in Hr. destruct Hr as [Hr1 Hr2].
        pose proof Hex as Hex'. apply ex_find in Hex'. destruct Hex' as [r F]. split.
        * exists r. split; [assumption|]. split; [unfold root_of; rewrite F; reflexivity|]. split.
          -- destruct Hy as [<-|Hy]; [assumption|apply Hr2; assumption].
          -- apply (tree_root_ok p r F). assumption.
        * split; [auto|]. intros z Hz. auto.
  Qed.
End PerGroup.
