From PV Require Import Spec.CandSpec Proofs.C13 Proofs.C03 Proofs.C02.
From Coq Require Import Permutation.

(* ================================================================ amounts per (provider, class) key *)
Definition keyb (k : Z * Z) (p rc : Z) : bool := (p =? fst k) && (rc =? snd k).
Lemma keyb_true k p rc : keyb k p rc = true <-> (p, rc) = k.
Proof.
  destruct k as [kp kc]. unfold keyb. cbn [fst snd]. rewrite andb_true_iff, !Z.eqb_eq. split.
  - intros [-> ->]. reflexivity.
  - intro E. injection E as -> ->. split; reflexivity.
Qed.
Lemma keyb_false k p rc : keyb k p rc = false <-> (p, rc) <> k.
Proof. rewrite <- keyb_true. destruct (keyb k p rc); split; congruence. Qed.

Fixpoint amt_key (k : Z * Z) (l : list rreq) : Z :=
  match l with
  | [] => 0
  | y :: r => (if keyb k (rr_rp y) (rr_rc y) then rr_amt y else 0) + amt_key k r
  end.
Fixpoint pl_amt (k : Z * Z) (l : list (Z * Z * Z)) : Z :=
  match l with
  | [] => 0
  | x :: r => (if keyb k (fst (fst x)) (snd (fst x)) then snd x else 0) + pl_amt k r
  end.

Lemma sum_into_amt k acc x :
  amt_key k (sum_into acc x) = amt_key k acc + (if keyb k (fst (fst x)) (snd (fst x)) then snd x else 0).
Proof.
  destruct x as [[p rc] a]. cbn [fst snd]. induction acc as [|y r IH]; cbn [sum_into fst snd].
  - cbn [amt_key rr_rp rr_rc rr_amt]. lia.
  - destruct ((rr_rp y =? p) && (rr_rc y =? rc)) eqn:E; cbn [amt_key rr_rp rr_rc rr_amt].
    + apply andb_true_iff in E. destruct E as [E1 E2]. apply Z.eqb_eq in E1, E2. subst p rc.
      destruct (keyb k (rr_rp y) (rr_rc y)); lia.
    + rewrite IH. lia.
Qed.

Lemma fold_sum_amt k l : forall acc, amt_key k (fold_left sum_into l acc) = amt_key k acc + pl_amt k l.
Proof.
  induction l as [|x l IH]; intro acc; cbn [fold_left pl_amt]; [lia|].
  rewrite IH, sum_into_amt. lia.
Qed.

Lemma pl_amt_perm k l1 l2 : Permutation l1 l2 -> pl_amt k l1 = pl_amt k l2.
Proof. induction 1; cbn [pl_amt]; lia. Qed.

Lemma amt_key_absent k l : ~ In k (rr_keys l) -> amt_key k l = 0.
Proof.
  unfold rr_keys. induction l as [|y r IH]; cbn [map In amt_key]; intro H; [reflexivity|].
  rewrite IH by tauto.
  destruct (keyb k (rr_rp y) (rr_rc y)) eqn:E; [|reflexivity].
  apply keyb_true in E. tauto.
Qed.

Lemma rreq_ext x y : rr_rp x = rr_rp y -> rr_rc x = rr_rc y -> rr_amt x = rr_amt y -> x = y.
Proof. destruct x as [p1 c1 a1], y as [p2 c2 a2]. cbn [rr_rp rr_rc rr_amt]. intros -> -> ->. reflexivity. Qed.

(* a list with pairwise different keys is characterised by its keys and their amounts *)
Lemma In_nodup_keys l : NoDup (rr_keys l) ->
  forall y, In y l <-> In (rr_rp y, rr_rc y) (rr_keys l) /\ rr_amt y = amt_key (rr_rp y, rr_rc y) l.
Proof.
  induction l as [|z r IH]; intros Hn y.
  - cbn [rr_keys map In]. tauto.
  - change (rr_keys (z :: r)) with ((rr_rp z, rr_rc z) :: rr_keys r) in *.
    inversion Hn as [|? ? Hz Hr]; subst. specialize (IH Hr y). cbn [In amt_key].
    destruct (keyb (rr_rp y, rr_rc y) (rr_rp z) (rr_rc z)) eqn:E.
    + apply keyb_true in E. split.
      * intros [->|Hy].
        -- split; [left; reflexivity|]. rewrite amt_key_absent by assumption. lia.
        -- exfalso. apply Hz. rewrite E. apply IH. assumption.
      * intros [_ Ha]. left. rewrite amt_key_absent in Ha by (rewrite <- E; assumption).
        injection E as E1 E2. apply rreq_ext; [assumption|assumption|lia].
    + apply keyb_false in E. split.
      * intros [->|Hy]; [congruence|]. apply IH in Hy. destruct Hy as [H1 H2]. split; [right; assumption|lia].
      * intros [[Hk|Hk] Ha]; [congruence|]. right. apply IH. split; [assumption|lia].
Qed.

(* summing placements into (provider, class) keys does not depend on the order of the placements *)
Lemma fold_sum_into_perm_In (l1 l2 : list (Z * Z * Z)) : Permutation l1 l2 ->
  forall y, In y (fold_left sum_into l1 []) <-> In y (fold_left sum_into l2 []).
Proof.
  assert (Hnil : NoDup (rr_keys [])) by constructor.
  assert (Hone : forall l l', Permutation l l' ->
            forall y, In y (fold_left sum_into l []) -> In y (fold_left sum_into l' [])).
  { intros l l' Hp y Hy.
    apply (In_nodup_keys _ (fold_sum_nodup l [] Hnil)) in Hy. destruct Hy as [Hk Ha].
    apply (In_nodup_keys _ (fold_sum_nodup l' [] Hnil)). split.
    - apply fold_sum_keys in Hk. apply fold_sum_keys. destruct Hk as [Hk|Hk]; [left; assumption|right].
      eapply Permutation_in; [apply Permutation_map; exact Hp|assumption].
    - rewrite Ha, !fold_sum_amt. rewrite (pl_amt_perm _ _ _ Hp). reflexivity. }
  intros Hp y. split; apply Hone; [assumption|apply Permutation_sym; assumption].
Qed.

(* ================================================================ the comparison functions *)
Lemma same_rrs_of_In (a b : list rreq) : (forall y, In y a <-> In y b) -> same_rrs a b = true.
Proof.
  intro H. unfold same_rrs. apply andb_true_iff. split; apply forallb_forall; intros x Hx;
    apply existsb_exists; exists x; (split; [apply H; assumption|apply rr_eqb_refl]).
Qed.

Lemma map_in_self (m : list (Z * list Z)) kv : In kv m -> map_in m kv = true.
Proof.
  intro H. unfold map_in. apply existsb_exists. exists kv. split; [assumption|].
  rewrite Z.eqb_refl, set_eqZ_refl. reflexivity.
Qed.

Lemma same_maps_of_In (a b : list (Z * list Z)) : (forall kv, In kv a <-> In kv b) -> same_maps a b = true.
Proof.
  intro H. unfold same_maps. apply andb_true_iff. split; apply forallb_forall; intros x Hx;
    apply map_in_self; apply H; assumption.
Qed.

Lemma subsetZ_iff a b : subsetZ a b = true <-> (forall x, In x a -> In x b).
Proof.
  unfold subsetZ. rewrite forallb_forall. split; intros H x Hx.
  - apply memZ_In. apply H. assumption.
  - apply memZ_In. apply H. assumption.
Qed.
Lemma set_eqZ_iff a b : set_eqZ a b = true <-> (forall x, In x a <-> In x b).
Proof.
  unfold set_eqZ. rewrite andb_true_iff, !subsetZ_iff. split.
  - intros [H1 H2] x. split; [apply H1|apply H2].
  - intro H. split; intros x Hx; apply H; assumption.
Qed.

(* a single mapping whose provider list is replaced by a list with the same elements *)
Lemma map_in_seteq (m : list (Z * list Z)) k l l' : (forall x, In x l <-> In x l') -> In (k, l') m -> map_in m (k, l) = true.
Proof.
  intros H Hin. unfold map_in. apply existsb_exists. exists (k, l'). split; [assumption|].
  cbn [fst snd]. rewrite Z.eqb_refl. cbn [andb]. apply set_eqZ_iff. assumption.
Qed.

(* the rr_eqb twin of an element is the element itself *)
Lemma rr_eqb_eq x y : rr_eqb x y = true -> x = y.
Proof.
  unfold rr_eqb. rewrite !andb_true_iff, !Z.eqb_eq. intros [[H1 H2] H3]. apply rreq_ext; assumption.
Qed.
Lemma same_rrs_In a b : same_rrs a b = true -> forall y, In y a <-> In y b.
Proof.
  unfold same_rrs. rewrite andb_true_iff, !forallb_forall. intros [H1 H2] y. split; intro Hy.
  - apply H1 in Hy. apply existsb_exists in Hy. destruct Hy as [z [Hz E]]. apply rr_eqb_eq in E. subst. assumption.
  - apply H2 in Hy. apply existsb_exists in Hy. destruct Hy as [z [Hz E]]. apply rr_eqb_eq in E. subst. assumption.
Qed.

Lemma same_rrs_trans a b c : same_rrs a b = true -> same_rrs b c = true -> same_rrs a c = true.
Proof.
  intros H1 H2. apply same_rrs_of_In. intro y.
  rewrite (same_rrs_In _ _ H1 y). apply (same_rrs_In _ _ H2 y).
Qed.

Lemma map_in_step (b c : list (Z * list Z)) kv :
  map_in b kv = true -> forallb (map_in c) b = true -> map_in c kv = true.
Proof.
  unfold map_in at 1. intros H Hbc. apply existsb_exists in H. destruct H as [kv' [Hin E]].
  apply andb_true_iff in E. destruct E as [E1 E2]. apply Z.eqb_eq in E1.
  rewrite forallb_forall in Hbc. specialize (Hbc kv' Hin). unfold map_in in Hbc |- *.
  apply existsb_exists in Hbc. destruct Hbc as [kv'' [Hin' E']].
  apply andb_true_iff in E'. destruct E' as [E1' E2']. apply Z.eqb_eq in E1'.
  apply existsb_exists. exists kv''. split; [assumption|].
  apply andb_true_iff. split; [apply Z.eqb_eq; congruence|].
  apply set_eqZ_iff. intro x.
  rewrite (proj1 (set_eqZ_iff _ _) E2 x). apply (proj1 (set_eqZ_iff _ _) E2' x).
Qed.

Lemma same_maps_trans a b c : same_maps a b = true -> same_maps b c = true -> same_maps a c = true.
Proof.
  unfold same_maps. rewrite !andb_true_iff. intros [Hab Hba] [Hbc Hcb]. split; apply forallb_forall; intros kv Hkv.
  - rewrite forallb_forall in Hab. apply (map_in_step b c); [apply Hab; assumption|assumption].
  - rewrite forallb_forall in Hcb. apply (map_in_step b a); [apply Hcb; assumption|assumption].
Qed.

Lemma same_creq_trans a b c : same_creq a b = true -> same_creq b c = true -> same_creq a c = true.
Proof.
  unfold same_creq. rewrite !andb_true_iff. intros [H1 H2] [H3 H4]. split.
  - eapply same_rrs_trans; eassumption.
  - eapply same_maps_trans; eassumption.
Qed.

Print Assumptions fold_sum_into_perm_In.
Print Assumptions same_rrs_of_In.
Print Assumptions same_maps_of_In.
Print Assumptions map_in_seteq.
Print Assumptions same_creq_trans.
Print Assumptions rr_eqb_eq.
Print Assumptions same_rrs_In.
