(* C03q: from the query string of GET /allocation_candidates to the parsed query of the candidate model.

   The candidate theorems (C03_*, C02_*, C20) ASSUME  query_wf v q = true  about the parsed query.  Here that
   hypothesis is DERIVED for every query string the handler accepts (Model/DecodeQC.v:decode_candidates), from
     - the query schemas regenerated from placement/schemas/allocation_candidate.py (Gen/GenSchemas.v) through
       Spec/Fields.v:schema_of_get_candidates: which parameter (and which suffix syntax) exists at which microversion,
     - the version gates of the value parsers (Model/Parse.v, Proofs/C15p.v), and
     - the structural checks of lib.RequestGroup.dict_from_request and of the handler.
   The code compares NAMES (suffixes, traits), query_wf compares tokens: the theorem needs the tokenizers to be
   injective on the names that occur, and '' to be the suffix with token 0 (c03q_tokenizers_needed_refuted shows that
   it is false otherwise).

   No theorem looks at the text of a generated schema: the schemas enter through boolean facts evaluated by vm_compute
   (which exact keys, which key patterns, whether a pattern can start with a given character). *)
From Coq Require Import ZArith List Bool Lia.
From PV Require Import Model.Candidates Model.Parse Model.Json Model.Regex Gen.GenConsts Gen.GenSchemas Spec.Fields
                       Model.DecodeQ Model.DecodeQC.
From PV Require Import Proofs.C15p Proofs.C15s Proofs.C13q.
Import ListNotations.
Open Scope Z_scope.

(* ================================================================== 1. exceptions *)
Lemma raise400_only400 b : only400 (raise400 b).
Proof. destruct b; simpl; auto. Qed.

Lemma item_step_only400 v all p d : only400 (item_step v all p d).
Proof.
  unfold item_step. destruct (qs_key_match (33 <=? v) (fst p)) as [[i suf] |]; [| exact I].
  repeat break_if.
  - apply bind_only400. apply only400_no_escape, resources_no_escape. intros; exact I.
  - apply bind_only400. apply only400_no_escape, traits_params_no_escape. intros; exact I.
  - apply bind_only400. apply only400_no_escape, member_of_params_no_escape. intros; exact I.
  - apply bind_only400. apply only400_no_escape, in_tree_no_escape. intros; exact I.
Qed.
Lemma items_loop_only400 v all l : forall d, only400 (items_loop v all l d).
Proof.
  induction l as [| p l IH]; intro d; simpl. exact I.
  apply bind_only400. apply item_step_only400. intros d' _. apply IH.
Qed.
Lemma check_groups_only400 v sst gs : only400 (check_groups v sst gs).
Proof.
  unfold check_groups. break_if; repeat (apply bind_only400; [apply raise400_only400 | intros _ _]);
    apply raise400_only400.
Qed.
Lemma check_forbidden_only400 v gs : only400 (check_forbidden v gs).
Proof. unfold check_forbidden. break_if. apply raise400_only400. exact I. Qed.
Lemma check_policy_only400 gp gs : only400 (check_policy gp gs).
Proof. unfold check_policy. break_if. exact I. apply raise400_only400. Qed.

Lemma candidates_query_only400 v kv : only400 (candidates_query v kv).
Proof.
  unfold candidates_query. apply bind_only400. apply only400_no_escape, rwp_no_escape.
  intros [[[l gp] root] sst] _.
  apply bind_only400. apply items_loop_only400. intros gs _.
  apply bind_only400. apply check_groups_only400. intros _ _.
  apply bind_only400. apply check_forbidden_only400. intros _ _.
  apply bind_only400. apply check_policy_only400. intros _ _. exact I.
Qed.

(* whatever the query string and the version, the only exception that leaves the front half of the handler is
   HTTPBadRequest *)
Theorem c03q_never_escapes_s : forall v kv, decode_candidates_s v kv <> PEscape.
Proof.
  intros v kv. unfold decode_candidates_s. destruct (validate (schema_of_get_candidates v) (qdict kv)); [| discriminate].
  apply only400_no_escape. apply candidates_query_only400.
Qed.
Theorem c03q_never_escapes : forall tok_rp tok_agg tok_trait tok_rc tok_suffix v kv,
  decode_candidates tok_rp tok_agg tok_trait tok_rc tok_suffix v kv <> PEscape.
Proof.
  intros. unfold decode_candidates. pose proof (c03q_never_escapes_s v kv) as H.
  destruct (decode_candidates_s v kv); simpl; try discriminate. congruence.
Qed.

(* ================================================================== 2. what the schemas say about a key *)
(* the exact member names and the key patterns of an object schema *)
Definition prop_keys (kws : list kw) : list str :=
  flat_map (fun w => match w with KProps ps => map fst ps | _ => [] end) kws.
Definition pat_alts (kws : list kw) : list jalt :=
  flat_map (fun w => match w with KPatProps ps => flat_map fst ps | _ => [] end) kws.

Lemma sassoc_key k ps s : sassoc k ps = Some s -> In k (map fst ps).
Proof.
  induction ps as [| [k' x] ps IH]; simpl; intro H; [discriminate |].
  destruct (str_eqb k k') eqn:E; auto. apply str_eqb_eq in E. auto.
Qed.
(* with additionalProperties: false an accepted key is one of the names or matches one of the patterns *)
Lemma accepted_cases kws k : no_additional kws = true -> key_accepted (Sch kws) k = true ->
  In k (prop_keys kws) \/ existsb (fun a => jalt_match a k) (pat_alts kws) = true.
Proof.
  intros Hna H. unfold key_accepted, kws_of in H. destruct (prop_schemas kws k) as [| s0 ss] eqn:E.
  { rewrite Hna in H. discriminate. }
  clear H. assert (In s0 (prop_schemas kws k)) as Hin by (rewrite E; left; reflexivity). clear E.
  unfold prop_schemas in Hin. apply in_flat_map in Hin. destruct Hin as [w [Hw Hs]].
  destruct w; try (destruct Hs; fail).
  - left. destruct (sassoc k ps) eqn:A; [| destruct Hs]. unfold prop_keys. apply in_flat_map.
    exists (KProps ps). split; auto. eapply sassoc_key; eauto.
  - right. apply in_map_iff in Hs. destruct Hs as [p [_ Hp]]. apply filter_In in Hp. destruct Hp as [Hp Hm].
    unfold jpmatch in Hm. apply existsb_exists in Hm. destruct Hm as [a [Ha Hma]].
    apply existsb_exists. exists a. split; auto. unfold pat_alts. apply in_flat_map.
    exists (KPatProps ps). split; auto. apply in_flat_map. exists p. auto.
Qed.

(* an anchored alternative whose first item is one character of a class not containing c cannot match c :: s *)
Definition alt_rejects_first (c : Z) (a : jalt) : bool :=
  ja_start a && match ja_items a with IOne r :: _ => negb (in_class r c) | _ => false end.
Lemma alt_rejects_first_ok c a s : alt_rejects_first c a = true -> jalt_match a (c :: s) = false.
Proof.
  unfold alt_rejects_first, jalt_match. intro H. apply andb_true_iff in H. destruct H as [Hs Hi]. rewrite Hs.
  destruct (ja_items a) as [| [r | r | r | n r | lo hi r] l]; try discriminate.
  simpl. apply negb_true_iff in Hi. rewrite Hi. reflexivity.
Qed.
Lemma alts_reject_first c alts s :
  forallb (alt_rejects_first c) alts = true -> existsb (fun a => jalt_match a (c :: s)) alts = false.
Proof.
  intro H. rewrite forallb_forall in H. destruct (existsb _ alts) eqn:E; auto.
  apply existsb_exists in E. destruct E as [a [Ha Hm]]. rewrite (alt_rejects_first_ok _ _ _ (H a Ha)) in Hm. discriminate.
Qed.

Ltac split_versions H :=
  unfold schema_of_get_candidates in H;
  repeat match type of H with
         | context [if ?a <=? ?b then _ else _] => destruct (Z.leb_spec a b)
         end.
Ltac cgate :=
  let H := fresh "H" in intro H; split_versions H; try lia; vm_compute in H; discriminate.

(* the request-wide parameters: exact names *)
Lemma cgate_limit v : key_accepted (schema_of_get_candidates v) qk_limit = true -> 16 <= v.
Proof. cgate. Qed.
Lemma cgate_group_policy v : key_accepted (schema_of_get_candidates v) qk_group_policy = true -> 25 <= v.
Proof. cgate. Qed.
Lemma cgate_root_required v : key_accepted (schema_of_get_candidates v) qk_root_required = true -> 35 <= v.
Proof. cgate. Qed.
Lemma cgate_same_subtree v : key_accepted (schema_of_get_candidates v) qk_same_subtree = true -> 36 <= v.
Proof. cgate. Qed.

(* "required": ["resources"] before 1.25 *)
Lemma resources_required v : v < 25 -> k_required qk_resources (kws_of (schema_of_get_candidates v)) = true.
Proof.
  intro Hv. unfold schema_of_get_candidates.
  repeat match goal with |- context [if ?a <=? ?b then _ else _] => destruct (Z.leb_spec a b) end;
    try lia; vm_compute; reflexivity.
Qed.

(* the group keys.  Before 1.25 the schemas only have exact names: no suffix, required from 1.17, member_of from
   1.21, no in_tree *)
Lemma key_gates_lt25 v k i suf : v < 25 ->
  key_accepted (schema_of_get_candidates v) k = true -> qs_key_match false k = Some (i, suf) ->
  suf = [] /\ (i = 1 -> 17 <= v) /\ (i = 2 -> 21 <= v) /\ i <> 3.
Proof.
  intros Hv H M. split_versions H; try lia;
    (apply accepted_cases in H; [| vm_compute; reflexivity]; destruct H as [H | H];
     [ vm_compute in H;
       repeat match type of H with _ \/ _ => destruct H as [H | H] end; try (destruct H; fail);
       subst k; vm_compute in M; inversion M; subst; repeat split; intros; try lia; try discriminate
     | vm_compute in H; discriminate ]).
Qed.

(* from 1.25 to 1.30 no accepted key starts like in_tree *)
Lemma key_gate_in_tree v rest : 25 <= v < 31 -> key_accepted (schema_of_get_candidates v) (105 :: rest) = true -> False.
Proof.
  intros Hv H. split_versions H; try lia.
  apply accepted_cases in H; [| vm_compute; reflexivity]. destruct H as [H | H].
  - vm_compute in H. repeat match type of H with _ \/ _ => destruct H as [H | H] end; try (destruct H; fail); discriminate.
  - rewrite alts_reject_first in H. discriminate. vm_compute. reflexivity.
Qed.

Lemma key_gates v k i suf :
  key_accepted (schema_of_get_candidates v) k = true -> qs_key_match (33 <=? v) k = Some (i, suf) ->
  (suf = [] \/ 25 <= v) /\ (i = 1 -> 17 <= v) /\ (i = 2 -> 21 <= v) /\ (i = 3 -> 31 <= v).
Proof.
  intros H M. destruct (Z_lt_le_dec v 25) as [L | L].
  - assert ((33 <=? v) = false) as E by (apply Z.leb_gt; lia). rewrite E in M.
    destruct (key_gates_lt25 v k i suf L H M) as (A & B & C & D). repeat split; auto. intro; contradiction.
  - repeat split; try (right; exact L); try (intros; lia). intros ->.
    destruct (Z_lt_le_dec v 31) as [L31 | L31]; auto. exfalso.
    apply qs_key_match_spec in M. destruct M as [p (N & _ & K & _)]. simpl in N. inversion N; subst p.
    destruct K as [-> | ->]; simpl in H; eapply key_gate_in_tree; eauto; lia.
Qed.

(* ================================================================== 3. the value parsers: what C15p does not state *)
(* every any-of set of an accepted `required` is non-empty *)
Lemma traits_params_loop_nonempty : forall af aa values req forb req' forb',
  traits_params_loop af aa values req forb = Ret (req', forb') ->
  Forall (fun s : list str => s <> []) req -> Forall (fun s : list str => s <> []) req'.
Proof.
  induction values as [| x values IH]; intros req forb req' forb'; simpl.
  - intro H. inversion H; subst. auto.
  - destruct (normalize_traits_qs_param x af aa) as [[r f] |] eqn:N; [| discriminate]. cbn [Parse.bind fst snd].
    intros H Hr. destruct (traits_accepted_wf _ _ _ _ _ N) as (_ & _ & Hne & _).
    eapply IH. exact H. apply Forall_app. split; auto.
    eapply Forall_impl; [| exact Hne]. intros s [Hs _]. exact Hs.
Qed.
Lemma traits_params_nonempty minor values req forb :
  normalize_traits_qs_params minor values = Ret (req, forb) -> Forall (fun s : list str => s <> []) req.
Proof. unfold normalize_traits_qs_params. intro H. eapply traits_params_loop_nonempty; eauto. Qed.

(* ================================================================== 4. the request groups *)
Lemma NoDup_app_one {A} (l : list A) x : NoDup l -> ~ In x l -> NoDup (l ++ [x]).
Proof.
  induction l as [| y l IH]; simpl; intros Hd Hx.
  - constructor; [intros [] | constructor].
  - inversion Hd; subst. constructor.
    + intro Hin. apply in_app_or in Hin. destruct Hin as [Hin | [-> | []]]; auto.
    + apply IH; auto.
Qed.

Section Groups.
Variable v : Z.

(* what the schemas and the value parsers guarantee about one group (names, no tokens) *)
Definition sg_ok (g : sgroup) : Prop :=
  (sg_suffix g = [] \/ 25 <= v) /\
  ((sg_required g = [] /\ sg_forbidden g = []) \/ 17 <= v) /\
  (sg_forbidden g = [] \/ 22 <= v) /\
  (Forall (fun s => length s = 1%nat) (sg_required g) \/ 39 <= v) /\
  Forall (fun s : list str => s <> []) (sg_required g) /\
  ((sg_member_of g = [] /\ sg_forbidden_aggs g = []) \/ 21 <= v) /\
  ((length (sg_member_of g) <= 1)%nat \/ 24 <= v) /\
  (sg_forbidden_aggs g = [] \/ 32 <= v) /\
  (sg_in_tree g = None \/ 31 <= v) /\
  (forall k a, In (k, a) (sg_resources g) -> 1 <= a).

Lemma sg_new_ok suf : (suf = [] \/ 25 <= v) -> sg_ok (sg_new suf).
Proof.
  intro H. unfold sg_ok, sg_new. simpl. repeat split; auto.
  intros k a [].
Qed.

(* the insertion-ordered dict of groups *)
Lemma sg_update_suffixes suf f d : (forall g, sg_suffix (f g) = sg_suffix g) ->
  map sg_suffix (sg_update suf f d) =
  if existsb (str_eqb suf) (map sg_suffix d) then map sg_suffix d else map sg_suffix d ++ [suf].
Proof.
  intro Hf. induction d as [| g d IH]; simpl.
  - rewrite Hf. reflexivity.
  - destruct (str_eqb suf (sg_suffix g)) eqn:E; simpl.
    + rewrite Hf. reflexivity.
    + rewrite IH. destruct (existsb (str_eqb suf) (map sg_suffix d)); reflexivity.
Qed.
Lemma sg_update_Forall (P : sgroup -> Prop) suf f d :
  Forall P d -> (forall g, P g -> sg_suffix g = suf -> P (f g)) -> P (f (sg_new suf)) -> Forall P (sg_update suf f d).
Proof.
  intros Hd Hf Hn. induction d as [| g d IH]; simpl.
  - constructor; auto.
  - inversion Hd; subst. destruct (str_eqb suf (sg_suffix g)) eqn:E.
    + constructor; auto. apply Hf; auto. apply str_eqb_eq in E. auto.
    + constructor; auto.
Qed.
Lemma sg_update_NoDup suf f d : (forall g, sg_suffix (f g) = sg_suffix g) ->
  NoDup (map sg_suffix d) -> NoDup (map sg_suffix (sg_update suf f d)).
Proof.
  intros Hf Hd. rewrite sg_update_suffixes by exact Hf.
  destruct (existsb (str_eqb suf) (map sg_suffix d)) eqn:E; auto.
  apply NoDup_app_one; auto. intro Hin.
  assert (existsb (str_eqb suf) (map sg_suffix d) = true).
  { apply existsb_exists. exists suf. split; auto. apply str_eqb_refl. }
  congruence.
Qed.
End Groups.

Section Loop.
Variables (v : Z) (kv : qs).
Hypothesis V : validate (schema_of_get_candidates v) (qdict kv) = true.

Lemma accepted_key p : In p kv -> key_accepted (schema_of_get_candidates v) (fst p) = true.
Proof. intro H. eapply validate_key_accepted; eauto. apply has_key_In. apply in_map. exact H. Qed.
Lemma accepted_has_key k : has_key k kv = true -> key_accepted (schema_of_get_candidates v) k = true.
Proof. intro H. eapply validate_key_accepted; eauto. Qed.

Lemma set_resources_ok g r : sg_ok v g -> (forall k a, In (k, a) r -> 1 <= a) -> sg_ok v (set_resources r g).
Proof. intros (A & B & C & D & E & F & G & H & I & J) Hr. unfold sg_ok. simpl. repeat split; auto. Qed.
Lemma set_traits_ok g req forb : sg_ok v g ->
  ((req = [] /\ forb = []) \/ 17 <= v) -> (forb = [] \/ 22 <= v) ->
  (Forall (fun s => length s = 1%nat) req \/ 39 <= v) -> Forall (fun s : list str => s <> []) req ->
  sg_ok v (set_traits (req, forb) g).
Proof. intros (A & B & C & D & E & F & G & H & I & J) B' C' D' E'. unfold sg_ok. simpl. repeat split; auto. Qed.
Lemma set_member_of_ok g mo fa : sg_ok v g ->
  ((mo = [] /\ fa = []) \/ 21 <= v) -> ((length mo <= 1)%nat \/ 24 <= v) -> (fa = [] \/ 32 <= v) ->
  sg_ok v (set_member_of (mo, fa) g).
Proof. intros (A & B & C & D & E & F & G & H & I & J) F' G' H'. unfold sg_ok. simpl. repeat split; auto. Qed.
Lemma set_in_tree_ok g t : sg_ok v g -> 31 <= v -> sg_ok v (set_in_tree t g).
Proof. intros (A & B & C & D & E & F & G & H & I & J) I'. unfold sg_ok. simpl. repeat split; auto. Qed.

Definition inv (d : list sgroup) : Prop := Forall (sg_ok v) d /\ NoDup (map sg_suffix d).

Lemma sg_update_inv suf f d : inv d -> (suf = [] \/ 25 <= v) ->
  (forall g, sg_suffix (f g) = sg_suffix g) -> (forall g, sg_ok v g -> sg_ok v (f g)) -> inv (sg_update suf f d).
Proof.
  intros [Hok Hnd] Hs Hf Hg. split.
  - apply sg_update_Forall; auto. apply Hg. apply sg_new_ok. exact Hs.
  - apply sg_update_NoDup; auto.
Qed.
Lemma sg_update_has suf f d : (forall g, sg_suffix (f g) = sg_suffix g) -> In suf (map sg_suffix (sg_update suf f d)).
Proof.
  intro Hf. rewrite sg_update_suffixes by exact Hf. destruct (existsb (str_eqb suf) (map sg_suffix d)) eqn:E.
  - apply existsb_exists in E. destruct E as [x [Hx E]]. apply str_eqb_eq in E. subst. exact Hx.
  - apply in_or_app. right. left. reflexivity.
Qed.
Lemma sg_update_incl suf f d : (forall g, sg_suffix (f g) = sg_suffix g) ->
  incl (map sg_suffix d) (map sg_suffix (sg_update suf f d)).
Proof.
  intros Hf x Hx. rewrite sg_update_suffixes by exact Hf. destruct (existsb (str_eqb suf) (map sg_suffix d)); auto.
  apply in_or_app. auto.
Qed.

(* one turn of the loop keeps the invariant, keeps the groups, and leaves a group for the suffix of its key *)
Lemma item_step_inv all p d d' : In p kv -> inv d -> item_step v all p d = Ret d' ->
  inv d' /\ incl (map sg_suffix d) (map sg_suffix d') /\
  (forall i suf, qs_key_match (33 <=? v) (fst p) = Some (i, suf) -> In suf (map sg_suffix d')).
Proof.
  intros Hp Hinv. unfold item_step. destruct (qs_key_match (33 <=? v) (fst p)) as [[i suf] |] eqn:M.
  2:{ intro H. inversion H; subst. split; auto. split. apply incl_refl. intros; discriminate. }
  destruct (key_gates v _ _ _ (accepted_key p Hp) M) as (G25 & G17 & G21 & G31).
  assert (forall f, (forall g, sg_suffix (f g) = sg_suffix g) -> (forall g, sg_ok v g -> sg_ok v (f g)) ->
          inv (sg_update suf f d) /\ incl (map sg_suffix d) (map sg_suffix (sg_update suf f d)) /\
          (forall i0 suf0, Some (i, suf) = Some (i0, suf0) -> In suf0 (map sg_suffix (sg_update suf f d)))) as Fin.
  { intros f Hf Hg. split. apply sg_update_inv; auto. split. apply sg_update_incl; auto.
    intros i0 suf0 E. inversion E; subst. apply sg_update_has; auto. }
  destruct (i =? 0) eqn:E0; [| destruct (i =? 1) eqn:E1; [| destruct (i =? 2) eqn:E2]].
  - destruct (normalize_resources_qs_param (snd p)) as [r |] eqn:N; [| discriminate]. cbn [Parse.bind].
    intro H. inversion H; subst d'. apply Fin. reflexivity.
    intros g Hg. apply set_resources_ok; auto. destruct (resources_accepted_wf _ _ N) as (_ & _ & Hw).
    intros k a Hin. destruct (Hw k a Hin). lia.
  - apply Z.eqb_eq in E1. destruct (normalize_traits_qs_params v (getall (qk_required ++ suf) all)) as [[req forb] |] eqn:N;
      [| discriminate]. cbn [Parse.bind].
    intro H. inversion H; subst d'. apply Fin. reflexivity.
    intros g Hg. destruct (traits_params_accepted_wf _ _ _ _ N) as (H22 & H39).
    apply set_traits_ok; auto.
    + destruct forb as [| x forb]; [left; reflexivity | right; apply H22; discriminate].
    + destruct (Z_lt_le_dec v 39); auto.
    + eapply traits_params_nonempty; eauto.
  - apply Z.eqb_eq in E2. destruct (normalize_member_of_qs_params v (getall (qk_member_of ++ suf) all)) as [[mo fa] |] eqn:N;
      [| discriminate]. cbn [Parse.bind].
    intro H. inversion H; subst d'. apply Fin. reflexivity.
    intros g Hg. pose proof (member_of_params_len _ _ _ _ N) as Hl.
    destruct (member_of_params_accepted_wf _ _ _ _ N) as (_ & _ & H32 & H24).
    apply set_member_of_ok; auto.
    + destruct (le_lt_dec (length (getall (qk_member_of ++ suf) all)) 1); [left; lia | right; auto].
    + destruct fa as [| x fa]; [left; reflexivity | right; apply H32; discriminate].
  - assert (i = 3) as ->.
    { apply qs_key_match_spec in M. destruct M as [_ (_ & R & _)]. apply Z.eqb_neq in E0, E1, E2. lia. }
    destruct (normalize_in_tree_qs_params (snd p)) as [t |] eqn:N; [| discriminate]. cbn [Parse.bind].
    intro H. inversion H; subst d'. apply Fin. reflexivity.
    intros g Hg. apply set_in_tree_ok; auto.
Qed.

Lemma items_loop_inv all : forall l d d', incl l kv -> inv d -> items_loop v all l d = Ret d' ->
  inv d' /\ incl (map sg_suffix d) (map sg_suffix d') /\
  (forall p i suf, In p l -> qs_key_match (33 <=? v) (fst p) = Some (i, suf) -> In suf (map sg_suffix d')).
Proof.
  induction l as [| p l IH]; intros d d' Hl Hinv; simpl.
  - intro H. inversion H; subst. split; auto. split. apply incl_refl. intros p i suf [].
  - destruct (item_step v all p d) as [d1 |] eqn:S; [| discriminate]. cbn [Parse.bind]. intro H.
    destruct (item_step_inv all p d d1 (Hl p (or_introl eq_refl)) Hinv S) as (I1 & C1 & K1).
    destruct (IH d1 d' (fun x Hx => Hl x (or_intror Hx)) I1 H) as (I2 & C2 & K2).
    split; auto. split. eapply incl_tran; eauto.
    intros q i suf [<- | Hq] M. apply C2. eapply K1; eauto. eapply K2; eauto.
Qed.

(* _parse_request_items: every group is well formed for the version, suffixes are distinct, and every matching
   key of the query string has its group *)
Lemma parse_request_items_ok gs : parse_request_items v kv = Ret gs ->
  Forall (sg_ok v) gs /\ NoDup (map sg_suffix gs) /\
  (forall p i suf, In p kv -> qs_key_match (33 <=? v) (fst p) = Some (i, suf) -> In suf (map sg_suffix gs)).
Proof.
  unfold parse_request_items. intro H.
  destruct (items_loop_inv kv kv [] gs (incl_refl _) (conj (Forall_nil _) (NoDup_nil _)) H) as ([A B] & _ & C). auto.
Qed.
End Loop.

(* ================================================================== 5. the structural checks *)
Lemma raise400_ret b u : raise400 b = Ret u -> b = false.
Proof. destruct b; simpl; intro H; [discriminate | reflexivity]. Qed.
Lemma set_mem_In x l : set_mem x l = true <-> In x l.
Proof.
  unfold set_mem. rewrite existsb_exists. split.
  - intros [y [Hy E]]. apply str_eqb_eq in E. subst. exact Hy.
  - intro H. exists x. split; auto. apply str_eqb_refl.
Qed.
Lemma forallb_false_ex {A} (f : A -> bool) l : forallb f l = false -> exists x, In x l /\ f x = false.
Proof.
  induction l as [| y l IH]; simpl; intro H; [discriminate |].
  destruct (f y) eqn:E; [| eauto]. destruct (IH H) as [x [Hx Fx]]. eauto.
Qed.
Lemma existsb_false_all {A} (f : A -> bool) l : existsb f l = false -> forall x, In x l -> f x = false.
Proof.
  intros H x Hx. destruct (f x) eqn:E; auto.
  assert (existsb f l = true) by (apply existsb_exists; eauto). congruence.
Qed.
Lemma filter_all {A} (f : A -> bool) l : forallb f l = true -> filter f l = l.
Proof.
  induction l as [| y l IH]; simpl; auto. intro H. apply andb_true_iff in H. destruct H as [H1 H2].
  rewrite H1, (IH H2). reflexivity.
Qed.

Lemma check_groups_ok v sst gs u : check_groups v sst gs = Ret u ->
  if 36 <=? v then
    (exists g, In g gs /\ has_resources g = true) /\
    (forall g, In g gs -> has_resources g = false -> In (sg_suffix g) (concat sst)) /\
    (forall s, In s (concat sst) -> In s (map sg_suffix gs))
  else gs <> [] /\ forall g, In g gs -> has_resources g = true.
Proof.
  unfold check_groups. destruct (36 <=? v).
  - destruct (raise400 (Nat.eqb _ _)) as [u1 |] eqn:C1; [| discriminate]. cbn [Parse.bind].
    destruct (raise400 (existsb _ (map sg_suffix _))) as [u2 |] eqn:C2; [| discriminate]. cbn [Parse.bind].
    intro C3. apply raise400_ret in C1, C2, C3. split; [| split].
    + destruct (forallb (fun g => negb (has_resources g)) gs) eqn:F.
      * rewrite (filter_all _ _ F), map_length, Nat.eqb_refl in C1. discriminate.
      * apply forallb_false_ex in F. destruct F as [g [Hg F]]. exists g. split; auto.
        apply negb_false_iff in F. exact F.
    + intros g Hg Hr. pose proof (existsb_false_all _ _ C2 (sg_suffix g)) as X.
      apply set_mem_In. apply negb_false_iff. apply X. apply in_map. apply filter_In. split; auto.
      rewrite Hr. reflexivity.
    + intros s Hs. pose proof (existsb_false_all _ _ C3 s Hs) as X. apply negb_false_iff in X.
      apply set_mem_In. exact X.
  - destruct (raise400 (existsb _ gs)) as [u1 |]; [| discriminate]. cbn [Parse.bind].
    destruct (raise400 (existsb _ gs)) as [u2 |]; [| discriminate]. cbn [Parse.bind].
    destruct (raise400 (negb (forallb has_resources gs))) as [u3 |] eqn:C3; [| discriminate]. cbn [Parse.bind].
    intro C4. apply raise400_ret in C3, C4. split.
    + destruct gs; [discriminate | discriminate].
    + apply negb_false_iff in C3. rewrite forallb_forall in C3. exact C3.
Qed.

(* _check_forbidden is only run from 1.22, but no group conflicts before either: nothing is forbidden there *)
Lemma check_forbidden_ok v gs u : check_forbidden v gs = Ret u -> Forall (sg_ok v) gs ->
  forall g, In g gs -> group_conflict g = false.
Proof.
  unfold check_forbidden. intros H Hok g Hg. destruct (22 <=? v) eqn:E.
  - apply raise400_ret in H. eapply existsb_false_all; eauto.
  - apply Z.leb_gt in E. rewrite Forall_forall in Hok. destruct (Hok g Hg) as (_ & _ & C & _ & Ne & _).
    destruct C as [C | C]; [| lia]. unfold group_conflict. rewrite C.
    destruct (existsb _ (sg_required g)) eqn:X; auto. apply existsb_exists in X. destruct X as [any [Ha Hf]].
    rewrite Forall_forall in Ne. specialize (Ne any Ha). destruct any; [congruence | discriminate].
Qed.

Lemma check_policy_ok gp gs u : check_policy gp gs = Ret u -> policy_given gp = false ->
  (length (filter (fun g => nonempty (sg_suffix g)) gs) <= 1)%nat.
Proof.
  unfold check_policy. intros H E. rewrite E in H. apply raise400_ret in H. apply Z.ltb_ge in H. lia.
Qed.

(* ================================================================== 6. from names to tokens *)
Lemma is_nil_map {A B} (f : A -> B) l : Candidates.is_nil (map f l) = Candidates.is_nil l.
Proof. destruct l; reflexivity. Qed.
Lemma dedup_NoDup l : NoDup l -> dedup l = l.
Proof.
  unfold dedup. induction l as [| x l IH]; simpl; auto. intro H. inversion H; subst. rewrite (IH H3).
  destruct (memZ x l) eqn:E; auto. apply C15s.memZ_In in E. contradiction.
Qed.
Lemma NoDup_map_inj (tok : str -> Z) l : NoDup l -> tok_inj_on tok l -> NoDup (map tok l).
Proof.
  induction l as [| x l IH]; simpl; intros Hd Hi. constructor.
  inversion Hd; subst. constructor.
  - intro Hin. apply in_map_iff in Hin. destruct Hin as [y [E Hy]].
    assert (y = x) by (apply Hi; simpl; auto). subst. contradiction.
  - apply IH; auto. eapply tok_inj_on_incl; [| exact Hi]. intros a Ha. simpl. auto.
Qed.
Lemma memZ_map_inj (tok : str -> Z) l t names :
  tok_inj_on tok names -> In t names -> incl l names -> memZ (tok t) (map tok l) = true -> In t l.
Proof.
  intros Hi Ht Hl H. apply C15s.memZ_In in H. apply in_map_iff in H. destruct H as [y [E Hy]].
  assert (y = t) by (apply Hi; auto). subst. exact Hy.
Qed.
Lemma memZ_map_in (tok : str -> Z) l t : In t l -> memZ (tok t) (map tok l) = true.
Proof. intro H. apply C15s.memZ_In. apply in_map. exact H. Qed.
Lemma filter_map_length {A B} (f : A -> B) (P : B -> bool) (Q : A -> bool) l :
  (forall x, P (f x) = true -> Q x = true) -> (length (filter P (map f l)) <= length (filter Q l))%nat.
Proof.
  intro H. induction l as [| x l IH]; simpl; auto.
  destruct (P (f x)) eqn:E.
  - rewrite (H x E). simpl. lia.
  - destruct (Q x); simpl; lia.
Qed.

Lemma filter_none {A} (P : A -> bool) l : (forall x, In x l -> P x = false) -> filter P l = [].
Proof.
  induction l as [| y l IH]; simpl; auto. intro H. rewrite (H y (or_introl eq_refl)). apply IH. auto.
Qed.
Lemma interZ_disjoint (tok : str -> Z) rq fb :
  tok_inj_on tok (rq ++ fb) -> (forall x, In x fb -> set_mem x rq = false) ->
  interZ (map tok rq) (map tok fb) = [].
Proof.
  intros Hi Hd. unfold interZ. apply filter_none. intros x Hx. apply in_map_iff in Hx. destruct Hx as [t [<- Ht]].
  destruct (memZ (tok t) (map tok fb)) eqn:M; auto. exfalso.
  apply (memZ_map_inj tok fb t (rq ++ fb)) in M; auto.
  - specialize (Hd t M). assert (set_mem t rq = true) by (apply set_mem_In; exact Ht). congruence.
  - apply in_or_app. auto.
  - intros a Ha. apply in_or_app. auto.
Qed.

Section Tokens.
Variables tok_rp tok_agg tok_trait tok_rc tok_suffix : str -> Z.
Notation tgroup := (tok_group tok_rp tok_agg tok_trait tok_rc tok_suffix).
Notation tquery := (tok_query tok_rp tok_agg tok_trait tok_rc tok_suffix).
Hypothesis T0 : tok_suffix [] = 0.

(* one group: the version gates carry over; the conflict check needs distinct tokens for the traits of the group *)
Lemma tok_group_wf v g : sg_ok v g -> group_conflict g = false ->
  tok_inj_on tok_trait (concat (sg_required g) ++ sg_forbidden g) -> group_wf v (tgroup g) = true.
Proof.
  intros (A & B & C & D & E & F & G & H & I & J) Hc Hi. unfold group_wf, tok_group.
  cbn [g_suffix g_resources g_required g_forbidden g_member_of g_forbidden_aggs g_in_tree].
  repeat (apply andb_true_iff; split).
  - destruct A as [-> | A]; [rewrite T0; reflexivity | apply leb_r; exact A].
  - destruct B as [[-> ->] | B]; [reflexivity | apply leb_r; exact B].
  - destruct C as [-> | C]; [reflexivity | apply leb_r; exact C].
  - destruct D as [D | D]; [| apply leb_r; exact D]. apply orb_true_iff. left.
    apply forallb_forall. intros any Hin. apply in_map_iff in Hin. destruct Hin as [s [<- Hs]].
    rewrite Forall_forall in D. unfold lenZ. rewrite map_length, (D s Hs). reflexivity.
  - apply forallb_forall. intros any Hin. apply in_map_iff in Hin. destruct Hin as [s [<- Hs]].
    rewrite Forall_forall in E. specialize (E s Hs). destruct s; [congruence | reflexivity].
  - destruct F as [[-> ->] | F]; [reflexivity | apply leb_r; exact F].
  - destruct G as [G | G]; [| apply leb_r; exact G]. apply orb_true_iff. left.
    unfold lenZ. rewrite map_length. apply Z.leb_le. lia.
  - destruct H as [-> | H]; [reflexivity | apply leb_r; exact H].
  - destruct I as [-> | I]; [reflexivity |]. destruct (sg_in_tree g); simpl; auto. apply Z.leb_le. exact I.
  - apply forallb_forall. intros x Hin. apply in_map_iff in Hin. destruct Hin as [[k a] [<- Hp]]. simpl.
    apply Z.leb_le. eapply J; eauto.
  - apply negb_true_iff. destruct (existsb _ (map (map tok_trait) (sg_required g))) eqn:X; auto. exfalso.
    apply existsb_exists in X. destruct X as [any [Hin Hall]]. apply in_map_iff in Hin. destruct Hin as [s [<- Hs]].
    assert (forallb (fun t => set_mem t (sg_forbidden g)) s = true) as Hconf.
    { apply forallb_forall. intros t Ht. apply set_mem_In. rewrite forallb_forall in Hall.
      eapply memZ_map_inj; [exact Hi | | | apply Hall; apply in_map; exact Ht].
      - apply in_or_app. left. apply in_concat. eauto.
      - intros a Ha. apply in_or_app. auto. }
    unfold group_conflict in Hc. eapply existsb_false_all in Hc; [| exact Hs]. congruence.
Qed.
End Tokens.

Lemma getall_nonempty_has_key k kv : getall k kv <> [] -> has_key k kv = true.
Proof. intro H. destruct (has_key k kv) eqn:E; auto. rewrite (getall_has_key _ _ E) in H. congruence. Qed.

(* before 1.25 the schema requires `resources`, so the unsuffixed group exists *)
Lemma unsuffixed_group_lt25 v kv gs : v < 25 ->
  validate (schema_of_get_candidates v) (qdict kv) = true -> parse_request_items v kv = Ret gs ->
  In [] (map sg_suffix gs).
Proof.
  intros Hv V P. destruct (parse_request_items_ok v kv V gs P) as (_ & _ & Hkeys).
  pose proof (resources_required v Hv) as Hr. pose proof (validate_valid _ _ V) as Hval.
  destruct (schema_of_get_candidates v) as [kws]. unfold FUEL in Hval. simpl in Hr.
  destruct (k_required_valid _ _ _ _ Hr Hval) as [x Hx]. rewrite qdict_assoc in Hx.
  destruct (get_last qk_resources kv) as [val |] eqn:G; [| discriminate].
  assert (has_key qk_resources kv = true) as Hk by (apply get_last_has_key; eauto).
  apply has_key_In in Hk. apply in_map_iff in Hk. destruct Hk as [p [Ep Hp]].
  apply (Hkeys p 0 [] Hp). rewrite Ep. destruct (33 <=? v); reflexivity.
Qed.

(* an accepted query string: the schema validated dict(req.GET) and the rest of the front half returned *)
Lemma decode_s_inv v kv sq : decode_candidates_s v kv = POk sq ->
  validate (schema_of_get_candidates v) (qdict kv) = true /\ candidates_query v kv = Ret sq.
Proof.
  unfold decode_candidates_s. destruct (validate (schema_of_get_candidates v) (qdict kv)); [| discriminate].
  intro H. apply to_pres_ok in H. auto.
Qed.

Ltac split_and := repeat match goal with |- (_ && _) = true => apply andb_true_iff; split end.

Section Main.
Variables tok_rp tok_agg tok_trait tok_rc tok_suffix : str -> Z.
Notation tgroup := (tok_group tok_rp tok_agg tok_trait tok_rc tok_suffix).
Notation tquery := (tok_query tok_rp tok_agg tok_trait tok_rc tok_suffix).
Notation decode := (decode_candidates tok_rp tok_agg tok_trait tok_rc tok_suffix).

Lemma tgroup_suffixes gs : map g_suffix (map tgroup gs) = map tok_suffix (map sg_suffix gs).
Proof. rewrite !map_map. reflexivity. Qed.

(* 2. the hypothesis of the candidate theorems, derived: an accepted query string decodes to a query that is well
      formed at its version, PROVIDED the tokenizers keep apart the names the code keeps apart: '' is the suffix with
      token 0, distinct suffixes of the query have distinct tokens, and so have distinct trait names of the query *)
Theorem c03q_accepted_wf_s : forall v kv sq,
  decode_candidates_s v kv = POk sq ->
  tok_suffix [] = 0 -> tok_inj_on tok_suffix ([] :: sq_suffixes sq) -> tok_inj_on tok_trait (sq_traits sq) ->
  query_wf v (tquery sq) = true.
Proof.
  intros v kv sq H T0 Is It. apply decode_s_inv in H. destruct H as [V H]. unfold candidates_query in H.
  destruct (rwp_from_request _ _ _ _) as [[[[l gp] root] sst] |] eqn:RW; [| discriminate]. cbn [Parse.bind] in H.
  cbv beta iota in H.
  destruct (parse_request_items v kv) as [gs |] eqn:P; [| discriminate]. cbn [Parse.bind] in H.
  destruct (check_groups v sst gs) as [u1 |] eqn:CG; [| discriminate]. cbn [Parse.bind] in H.
  destruct (check_forbidden v gs) as [u2 |] eqn:CF; [| discriminate]. cbn [Parse.bind] in H.
  destruct (check_policy gp gs) as [u3 |] eqn:CP; [| discriminate]. cbn [Parse.bind] in H.
  inversion H; subst sq. clear H.
  unfold sq_suffixes, sq_traits in *. cbn [sq_groups sq_rwp] in *.
  destruct (parse_request_items_ok v kv V gs P) as (Hok & Hnd & Hkeys).
  pose proof (check_groups_ok _ _ _ _ CG) as HG.
  pose proof (check_forbidden_ok _ _ _ CF Hok) as HF.
  destruct (rwp_accepted_wf _ _ _ _ _ _ _ _ RW) as (Rl & _ & Rg & Rr & _ & Rt & Rs).
  assert (forall k lo, (key_accepted (schema_of_get_candidates v) k = true -> lo <= v) -> getall k kv <> [] -> lo <= v)
    as Gate.
  { intros k lo G Hne. apply G. eapply accepted_has_key; eauto. apply getall_nonempty_has_key. exact Hne. }
  assert (sst <> [] -> 36 <= v) as S36.
  { intro Hne. apply (Gate qk_same_subtree 36 (cgate_same_subtree v)). intro E. rewrite E in Rt.
    destruct sst; [congruence | discriminate]. }
  assert (gs <> []) as Hne.
  { destruct (36 <=? v).
    - destruct HG as ([g [Hg _]] & _). intro E. subst. destruct Hg.
    - destruct HG; auto. }
  assert (forall s, In s (concat sst) -> In s (map sg_suffix gs)) as Sub.
  { intros s Hs. destruct (36 <=? v) eqn:E.
    - destruct HG as (_ & _ & HG3). auto.
    - apply Z.leb_gt in E. destruct sst as [| s0 sst']; [destruct Hs |]. assert (36 <= v) by (apply S36; discriminate). lia. }
  unfold query_wf. cbv beta iota zeta delta [tok_query sq_rwp sq_groups qy_groups qy_policy qy_limit qy_root_required
                                              qy_root_forbidden qy_same_subtree].
  rewrite tgroup_suffixes, <- concat_map.
  split_and.
  - (* at least one group *)
    rewrite is_nil_map. destruct gs; [congruence | reflexivity].
  - (* every group *)
    apply forallb_forall. intros x Hx. apply in_map_iff in Hx. destruct Hx as [g [<- Hg]].
    rewrite Forall_forall in Hok. apply tok_group_wf; auto.
    eapply tok_inj_on_incl; [| exact It]. intros t Ht. apply in_or_app. left. apply in_flat_map. eauto.
  - (* distinct suffixes *)
    rewrite dedup_NoDup. apply Z.eqb_refl. apply NoDup_map_inj; auto.
    eapply tok_inj_on_incl; [| exact Is]. intros a Ha. simpl. auto.
  - (* the unsuffixed group before 1.25 *)
    destruct (Z.leb_spec 25 v) as [L | L]; [reflexivity |]. simpl. rewrite <- T0. apply memZ_map_in.
    eapply unsuffixed_group_lt25; eauto.
  - (* group_policy from 1.25 *)
    destruct gp as [[| c r] |]; try reflexivity.
    assert (25 <= v) as G.
    { apply (Gate qk_group_policy 25 (cgate_group_policy v)). intro E. rewrite E in Rg. discriminate. }
    apply Z.leb_le in G. unfold tok_policy. destruct (str_eqb (c :: r) s_isolate); exact G.
  - (* limit from 1.16, positive *)
    destruct l as [n |]; [| reflexivity]. destruct (Rl n eq_refl) as (Hn & l0 & rest & E & _).
    apply andb_true_iff. split; apply Z.leb_le; auto.
    apply (Gate qk_limit 16 (cgate_limit v)). rewrite E. discriminate.
  - (* root_required from 1.35 *)
    destruct root as [[rq fb] |]; [| reflexivity]. apply leb_r.
    apply (Gate qk_root_required 35 (cgate_root_required v)). destruct (Rr rq fb eq_refl) as [Hl _].
    intro E. rewrite E in Hl. discriminate.
  - (* root_required: required and forbidden disjoint *)
    destruct root as [[rq fb] |]; [| reflexivity]. destruct (Rr rq fb eq_refl) as [_ Hd].
    rewrite (interZ_disjoint tok_trait rq fb); [reflexivity | | exact Hd].
    eapply tok_inj_on_incl; [| exact It]. intros a Ha. apply in_or_app. right. exact Ha.
  - (* same_subtree from 1.36 *)
    destruct sst as [| s0 sst']; [reflexivity |]. apply leb_r. apply S36. discriminate.
  - (* the unsuffixed group is never named by same_subtree *)
    apply negb_true_iff. destruct (memZ 0 (map tok_suffix (concat sst))) eqn:M; auto. exfalso.
    apply C15s.memZ_In in M. apply in_map_iff in M. destruct M as [s [E Hs]].
    assert (s = []) as ->.
    { apply Is; simpl; auto. rewrite T0. exact E. }
    apply in_concat in Hs. destruct Hs as [set [Hset Hin]]. rewrite Forall_forall in Rs.
    destruct (Rs set Hset) as [_ Hno]. contradiction.
  - (* resources / resourceless groups *)
    destruct (36 <=? v).
    + destruct HG as ([g0 [Hg0 Hr0]] & HG2 & HG3). split_and.
      * apply existsb_exists. exists (tgroup g0). split. apply in_map; auto.
        unfold tok_group. cbn [g_resources]. rewrite is_nil_map. unfold has_resources in Hr0.
        destruct (sg_resources g0); [discriminate | reflexivity].
      * apply forallb_forall. intros x Hx. apply in_map_iff in Hx. destruct Hx as [g [<- Hg]].
        unfold tok_group. cbn [g_resources g_suffix]. rewrite is_nil_map.
        destruct (sg_resources g) eqn:Er; [| reflexivity]. simpl. apply memZ_map_in. apply HG2; auto.
        unfold has_resources. rewrite Er. reflexivity.
      * unfold subsetZ. apply forallb_forall. intros x Hx. apply in_map_iff in Hx. destruct Hx as [s [<- Hs]].
        apply memZ_map_in. auto.
    + destruct HG as [_ HG]. apply forallb_forall. intros x Hx. apply in_map_iff in Hx. destruct Hx as [g [<- Hg]].
      unfold tok_group. cbn [g_resources]. rewrite is_nil_map. specialize (HG g Hg). unfold has_resources in HG.
      destruct (sg_resources g); [discriminate | reflexivity].
  - (* group_policy required with more than one granular group *)
    assert (policy_given gp = false ->
            lenZ (filter use_same_provider (map tgroup gs)) <=? 1 = true) as Pol.
    { intro E. pose proof (check_policy_ok _ _ _ CP E) as Hc. apply Z.leb_le. unfold lenZ.
      pose proof (filter_map_length tgroup use_same_provider (fun g => nonempty (sg_suffix g)) gs) as Hf.
      assert (forall x, use_same_provider (tgroup x) = true -> nonempty (sg_suffix x) = true) as Hx.
      { intros x. unfold use_same_provider, tok_group. cbn [g_suffix]. destruct (sg_suffix x); [| reflexivity].
        rewrite T0. discriminate. }
      specialize (Hf Hx). lia. }
    destruct gp as [[| c r] |]; unfold tok_policy; try (apply Pol; reflexivity).
    destruct (str_eqb (c :: r) s_isolate); reflexivity.
Qed.
End Main.

(* every accepted decoding is the token rendering of an accepted string-level decoding *)
Lemma decode_candidates_ok_inv : forall tok_rp tok_agg tok_trait tok_rc tok_suffix v kv q,
  decode_candidates tok_rp tok_agg tok_trait tok_rc tok_suffix v kv = POk q ->
  exists sq, decode_candidates_s v kv = POk sq /\ q = tok_query tok_rp tok_agg tok_trait tok_rc tok_suffix sq.
Proof.
  intros until q. unfold decode_candidates. destruct (decode_candidates_s v kv) as [sq | |]; simpl; intro H; try discriminate.
  inversion H. eauto.
Qed.

(* the statement asked for: with tokenizers that are injective (everywhere) and give '' the token 0 *)
Theorem c03q_accepted_wf : forall tok_rp tok_agg tok_trait tok_rc tok_suffix v kv q,
  0 <= v <= 39 ->
  tok_suffix [] = 0 -> (forall a b, tok_suffix a = tok_suffix b -> a = b) -> (forall a b, tok_trait a = tok_trait b -> a = b) ->
  decode_candidates tok_rp tok_agg tok_trait tok_rc tok_suffix v kv = POk q -> query_wf v q = true.
Proof.
  intros until q. intros _ T0 Is It H. apply decode_candidates_ok_inv in H. destruct H as [sq [D ->]].
  eapply c03q_accepted_wf_s; [exact D | exact T0 | |]; intros a b _ _; auto.
Qed.

(* the handler model: from 1.10 an accepted query string passes the well-formedness test of Candidates.candidates *)
Theorem c03q_candidates_wf_passes : forall tok_rp tok_agg tok_trait tok_rc tok_suffix v kv q d,
  10 <= v <= 39 ->
  tok_suffix [] = 0 -> (forall a b, tok_suffix a = tok_suffix b -> a = b) -> (forall a b, tok_trait a = tok_trait b -> a = b) ->
  decode_candidates tok_rp tok_agg tok_trait tok_rc tok_suffix v kv = POk q ->
  candidates v q d = get_by_requests d v q.
Proof.
  intros until d. intros Hv T0 Is It H. unfold candidates, candidates_gen.
  destruct (Z.ltb_spec v 10); [lia |]. erewrite c03q_accepted_wf; eauto. lia.
Qed.

(* 400 exactly when the schema rejects dict(req.GET) or the rest of the front half raises HTTPBadRequest: a value
   parser (limit, root_required, same_subtree, and the resources / required / member_of / in_tree keys), a structural check of
   dict_from_request, or the group_policy requirement of the handler *)
Theorem c03q_rejected_iff_s : forall v kv,
  decode_candidates_s v kv = P400 <->
  validate (schema_of_get_candidates v) (qdict kv) = false \/ candidates_query v kv = Raise HTTPBadRequest.
Proof.
  intros v kv. unfold decode_candidates_s. destruct (validate (schema_of_get_candidates v) (qdict kv)).
  - rewrite to_pres_400. split; [auto | intros [H | H]; [discriminate | exact H]].
  - split; auto.
Qed.

(* ================================================================== 3. non-vacuity, and what the hypotheses are for *)
From Coq Require Import String Ascii.
Module ExC.
Definition RP (n : string) : str := st (String.append "00000000-0000-0000-0000-abcdef00000"%string n).
Definition AG (n : string) : str := st (String.append "00000000-0000-0002-0000-abcdef00000"%string n).
Definition tok_rp := tok_table [(RP "2", 1); (RP "3", 2); (RP "4", 3)] (-2).
Definition tok_agg := tok_table [(AG "2", 1); (AG "3", 2); (AG "4", 3); (AG "5", 4)] (-2).
Definition tok_trait := tok_table [(st "HW_CPU_X86_AVX", 178); (st "STORAGE_DISK_SSD", 376); (st "CUSTOM_T1", 100001);
                                   (st "MISC_SHARES_VIA_AGGREGATE", 372)] (-2).
Definition tok_rc := tok_table [(st "VCPU", 0); (st "MEMORY_MB", 1); (st "DISK_GB", 2)] (-1).
Definition tok_suffix := tok_table [([], 0); (st "1", 1); (st "2", 2); (st "_A", 101); (st "_B", 102)] (-2).
Definition dec := decode_candidates tok_rp tok_agg tok_trait tok_rc tok_suffix.
Definition cat (l : list str) : str := List.concat l.

Definition q_full : qs :=
  [(st "resources", st "VCPU:2,MEMORY_MB:512");
   (st "required", st "HW_CPU_X86_AVX,!CUSTOM_T1");
   (st "required", st "in:STORAGE_DISK_SSD,MISC_SHARES_VIA_AGGREGATE");
   (st "member_of", cat [st "in:"; AG "2"; st ","; AG "3"]); (st "member_of", cat [st "!"; AG "4"]);
   (st "in_tree", RP "3");
   (st "resources1", st "DISK_GB:10"); (st "required1", st "STORAGE_DISK_SSD"); (st "member_of1", AG "2");
   (st "required_A", st "CUSTOM_T1"); (st "in_tree_A", RP "2");
   (st "group_policy", st "isolate");
   (st "root_required", st "MISC_SHARES_VIA_AGGREGATE,!CUSTOM_T1");
   (st "same_subtree", st "_A,1");
   (st "limit", st "5")].

(* an unsuffixed group, a numeric and a string suffix (the latter resourceless, named by same_subtree), member_of with
   in: and a forbidden aggregate, required with a forbidden trait and an in: list, in_tree, group_policy,
   root_required, same_subtree, limit - at 1.39.  The real handler passes get_by_requests exactly these groups, in this
   order, and these request-wide parameters. *)
Example ex_full_1_39 :
  dec 39 q_full =
  POk (mkQuery [mkGroup 0 [(0, 2); (1, 512)] [[178]; [372; 376]] [100001] [[1; 2]] [3] (Some 2);
                mkGroup 1 [(2, 10)] [[376]] [] [[1]] [] None;
                mkGroup 101 [] [[100001]] [] [] [] (Some 1)]
               GPIsolate (Some 5) [372] [100001] [[1; 101]]).
Proof. vm_compute. reflexivity. Qed.
(* the tokenizers of the example are injective on the names of that query: it is well formed, by the theorem *)
Example ex_full_wf : exists sq, decode_candidates_s 39 q_full = POk sq /\
  query_wf 39 (tok_query tok_rp tok_agg tok_trait tok_rc tok_suffix sq) = true.
Proof.
  destruct (decode_candidates_s 39 q_full) as [sq | |] eqn:D; [| vm_compute in D; discriminate ..].
  exists sq. split; [reflexivity |]. eapply c03q_accepted_wf_s; [exact D | reflexivity | |];
    vm_compute in D; inversion D; subst sq; intros a b Ha Hb;
    vm_compute in Ha; vm_compute in Hb;
    repeat match type of Ha with _ \/ _ => destruct Ha as [Ha | Ha] end; try (destruct Ha; fail); subst a;
    repeat match type of Hb with _ \/ _ => destruct Hb as [Hb | Hb] end; try (destruct Hb; fail); subst b;
    intro E; try reflexivity; vm_compute in E; discriminate.
Qed.
Example ex_full_1_38 : dec 38 q_full = P400.
Proof. vm_compute. reflexivity. Qed.

Definition nl (s : str) : str := s ++ [10].
Definition one := mkGroup 0 [(0, 1)] [] [] [] [] None.
Definition grp (s : Z) := mkGroup s [(0, 1)] [] [] [] [] None.
Definition x64 : str := repeat 120 64.
(* suffix syntax by version: granular groups from 1.25 (numeric), any [a-zA-Z0-9_-]{1,64} from 1.33 *)
Example ex_suffixes :
  dec 24 [(st "resources", st "VCPU:1"); (st "resources1", st "VCPU:1")] = P400
  /\ dec 25 [(st "resources", st "VCPU:1"); (st "resources1", st "VCPU:1")] = POk (mkQuery [one; grp 1] GPAbsent None [] [] [])
  /\ dec 32 [(st "resources01", st "VCPU:1")] = P400
  /\ dec 32 [(st "resources_A", st "VCPU:1")] = P400
  /\ dec 33 [(st "resources_A", st "VCPU:1")] = POk (mkQuery [grp 101] GPAbsent None [] [] [])
  /\ dec 33 [(st "resources" ++ x64, st "VCPU:1")] = POk (mkQuery [grp (-2)] GPAbsent None [] [] [])
  /\ dec 33 [(st "resources" ++ x64 ++ [120], st "VCPU:1")] = P400.
Proof. vm_compute. repeat split; reflexivity. Qed.
(* Python's "$": a key with one trailing newline is the same group - both for the schema (from 1.25, where keys are
   patterns) and for lib.py; but `required1\n` makes lib.py read the values of `required1` *)
Example ex_newline :
  dec 25 [(nl (st "resources1"), st "VCPU:1")] = POk (mkQuery [grp 1] GPAbsent None [] [] [])
  /\ dec 24 [(nl (st "resources"), st "VCPU:1")] = P400
  /\ dec 25 [(nl (st "resources"), st "VCPU:1")] = POk (mkQuery [one] GPAbsent None [] [] [])
  /\ dec 25 [(st "resources1", st "VCPU:1"); (nl (st "required1"), st "HW_CPU_X86_AVX"); (st "required1", st "CUSTOM_T1")]
     = POk (mkQuery [mkGroup 1 [(0, 1)] [[100001]] [] [] [] None] GPAbsent None [] [] [])
  /\ dec 25 [(st "resources1", st "VCPU:1"); (nl (st "required1"), st "HW_CPU_X86_AVX")]
     = POk (mkQuery [grp 1] GPAbsent None [] [] []).
Proof. vm_compute. repeat split; reflexivity. Qed.
(* repeated parameters: the schema checks the LAST limit / group_policy, the code uses the FIRST; resources: the last *)
Example ex_first_last :
  dec 16 [(st "resources", st "VCPU:1"); (st "limit", st "7"); (st "limit", st "3")] = POk (mkQuery [one] GPAbsent (Some 7) [] [] [])
  /\ dec 16 [(st "resources", st "VCPU:1"); (st "limit", st "0"); (st "limit", st "3")] = P400
  /\ dec 16 [(st "resources", st "VCPU:1"); (st "limit", st "3"); (st "limit", st "0")] = P400
  /\ dec 25 [(st "resources1", st "VCPU:1"); (st "resources2", st "VCPU:1")] = P400
  /\ dec 25 [(st "resources1", st "VCPU:1"); (st "resources2", st "VCPU:1"); (st "group_policy", st ""); (st "group_policy", st "none")] = P400
  /\ dec 25 [(st "resources1", st "VCPU:1"); (st "resources2", st "VCPU:1"); (st "group_policy", st "bogus"); (st "group_policy", st "none")]
     = POk (mkQuery [grp 1; grp 2] GPNone None [] [] [])
  /\ dec 10 [(st "resources", st "VCPU:1"); (st "resources", st "DISK_GB:3")]
     = POk (mkQuery [mkGroup 0 [(2, 3)] [] [] [] [] None] GPAbsent None [] [] []).
Proof. vm_compute. repeat split; reflexivity. Qed.
(* the structural checks: orphans before 1.36, resourceless groups named by same_subtree from 1.36, conflicts from 1.22 *)
Example ex_structure :
  dec 25 [(st "limit", st "3")] = P400
  /\ dec 25 [(st "required", st "HW_CPU_X86_AVX")] = P400
  /\ dec 36 [(st "required1", st "HW_CPU_X86_AVX"); (st "resources", st "VCPU:1")] = P400
  /\ dec 36 [(st "required1", st "HW_CPU_X86_AVX"); (st "resources", st "VCPU:1"); (st "same_subtree", st "1")]
     = POk (mkQuery [mkGroup 1 [] [[178]] [] [] [] None; one] GPAbsent None [] [] [[1]])
  /\ dec 36 [(st "resources", st "VCPU:1"); (st "same_subtree", st "2")] = P400
  /\ dec 39 [(st "resources", st "VCPU:1"); (st "required", st "CUSTOM_T1,!CUSTOM_T1")] = P400
  /\ dec 21 [(st "resources", st "VCPU:1"); (st "required", st "CUSTOM_T1,!CUSTOM_T1")] = P400.
Proof. vm_compute. repeat split; reflexivity. Qed.

(* what the tokenizer hypotheses are for.  tok_table gives every name outside its table the SAME token: two unknown
   traits, one required and one forbidden, look like a conflict to query_wf (the code accepts the query string and
   answers 400 later, for the unknown trait); two unknown suffixes look like one group twice *)
Example ex_unknown_traits_collide :
  exists q, dec 39 [(st "resources", st "VCPU:1"); (st "required", st "CUSTOM_X,!CUSTOM_Y")] = POk q /\ query_wf 39 q = false.
Proof. eexists. split. vm_compute. reflexivity. vm_compute. reflexivity. Qed.
Example ex_unknown_suffixes_collide :
  exists q, dec 39 [(st "resources_X", st "VCPU:1"); (st "resources_Y", st "VCPU:1"); (st "group_policy", st "none")] = POk q
            /\ query_wf 39 q = false.
Proof. eexists. split. vm_compute. reflexivity. vm_compute. reflexivity. Qed.
Example ex_unsuffixed_not_zero :
  exists q, decode_candidates tok_rp tok_agg tok_trait tok_rc (tok_table [] 7) 10 [(st "resources", st "VCPU:1")] = POk q
            /\ query_wf 10 q = false.
Proof. eexists. split. vm_compute. reflexivity. vm_compute. reflexivity. Qed.
End ExC.

(* the statement without tokenizer hypotheses is FALSE: a finding about the tokenizers a harness may use, not about the
   code *)
Theorem c03q_tokenizers_needed_refuted :
  ~ (forall tok_rp tok_agg tok_trait tok_rc tok_suffix v kv q, 0 <= v <= 39 ->
       decode_candidates tok_rp tok_agg tok_trait tok_rc tok_suffix v kv = POk q -> query_wf v q = true).
Proof.
  intro H. destruct ExC.ex_unknown_traits_collide as [q [D W]].
  assert (0 <= 39 <= 39) as R by lia. unfold ExC.dec in D. pose proof (H _ _ _ _ _ _ _ _ R D) as X. congruence.
Qed.

Print Assumptions c03q_never_escapes_s.
Print Assumptions c03q_never_escapes.
Print Assumptions key_gates.
Print Assumptions parse_request_items_ok.
Print Assumptions c03q_accepted_wf_s.
Print Assumptions c03q_accepted_wf.
Print Assumptions c03q_candidates_wf_passes.
Print Assumptions c03q_rejected_iff_s.
Print Assumptions c03q_tokenizers_needed_refuted.
Print Assumptions ExC.ex_full_1_39.
Print Assumptions ExC.ex_full_wf.
Print Assumptions decode_candidates_ok_inv.
Print Assumptions ExC.ex_suffixes.
Print Assumptions ExC.ex_newline.
Print Assumptions ExC.ex_first_last.
Print Assumptions ExC.ex_structure.
Print Assumptions ExC.ex_unknown_traits_collide.
Print Assumptions ExC.ex_unknown_suffixes_collide.
Print Assumptions ExC.ex_unsuffixed_not_zero.
