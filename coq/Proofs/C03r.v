(* C03 - refutation witnesses: two concrete reachable databases and queries on which the faithful model of
   GET /allocation_candidates does NOT return the candidates of the declarative specification.
   Both are replayed on the real application by spec/c03_witnesses.json (harness op tuples + HTTP query). *)
From PV Require Import Spec.CandSpec.

Definition cf0 := mkCfg 0 0.

(* ---------------------------------------------------------------- anchor de-duplication (known finding)
   cn1, cn2 (VCPU) and the sharing provider ss (DISK_GB, MISC_SHARES_VIA_AGGREGATE) in one aggregate;
   GET /allocation_candidates?resources=DISK_GB:1&resources1=VCPU:1 at 1.39 *)
Definition ad_ops : list req :=
  [RpCreate 39 1 1 None; RpCreate 39 2 2 None; RpCreate 39 3 3 None;
   InvSet 39 1 0 [mkInvIn 0 8 0 1 2147483647 1 1 0]; InvSet 39 2 0 [mkInvIn 0 8 0 1 2147483647 1 1 0];
   InvSet 39 3 0 [mkInvIn 2 100 0 1 2147483647 1 1 0];
   TraitsSet 39 3 1 [372];
   AggsSet 39 1 1 [1]; AggsSet 39 2 1 [1]; AggsSet 39 3 2 [1]].
Definition ad_query : query :=
  mkQuery [mkGroup 0 [(2, 1)] [] [] [] [] None; mkGroup 1 [(0, 1)] [] [] [] [] None] GPAbsent None [] [] [].
(* what the real application answered (PYTHONHASHSEED=0): only the cn2 candidate *)
Definition ad_observed : cand_result :=
  COk [mkCreq (-1) [mkRreq 2 0 1; mkRreq 3 2 1] [(0, [3]); (1, [2])]]
      [mkPsum 2 [(0, 8, 0)] [] None 2; mkPsum 3 [(2, 100, 0)] [372] None 3].

(* The model does not determine the answer (whichever anchor survives in the per-group SET, a candidate is
   lost); the specification has both candidates {ss + cn1} and {ss + cn2}; with every anchor kept the model
   would agree with the specification; the answer observed on the real application is a STRICT subset. *)
Theorem c03_refuted_anchor_dedup :
  exists v q d,
    d = run cf0 db0 ad_ops /\
    candidates v q d = COrderDependent 1 /\
    lenZ (spec_candidates v q d) = 2 /\
    spec_check v (candidates_all_anchors v q d) (spec_candidates v q d) = 0 /\
    cand_check (candidates v q d) (candidates_all_anchors v q d) ad_observed = 4 /\
    spec_check v ad_observed (spec_candidates v q d) = 5.
Proof.
  exists 39, ad_query, (run cf0 db0 ad_ops). repeat split; vm_compute; reflexivity.
Qed.

(* ---------------------------------------------------------------- in_tree pins the anchor tree
   cn (VCPU) and the sharing provider ss (DISK_GB) in one aggregate;
   GET /allocation_candidates?resources=DISK_GB:1&in_tree=<ss>&resources1=VCPU:1 at 1.39:
   ss is in the requested tree and shares with cn, yet {ss: DISK_GB, cn: VCPU} is not offered, because with
   in_tree the unsuffixed group is only ever anchored at the tree of in_tree. *)
Definition it_ops : list req :=
  [RpCreate 39 1 1 None; RpCreate 39 2 2 None;
   InvSet 39 1 0 [mkInvIn 0 8 0 1 2147483647 1 1 0]; InvSet 39 2 0 [mkInvIn 2 100 0 1 2147483647 1 1 0];
   TraitsSet 39 2 1 [372];
   AggsSet 39 1 1 [1]; AggsSet 39 2 2 [1]].
Definition it_query : query :=
  mkQuery [mkGroup 0 [(2, 1)] [] [] [] [] (Some 2); mkGroup 1 [(0, 1)] [] [] [] [] None] GPAbsent None [] [] [].

Theorem c03_refuted_in_tree_pin :
  exists v q d,
    d = run cf0 db0 it_ops /\
    candidates v q d = COk [] [] /\
    spec_candidates v q d = [mkCreq (-1) [mkRreq 2 2 1; mkRreq 1 0 1] [(0, [2]); (1, [1])]] /\
    spec_check v (candidates v q d) (spec_candidates v q d) = 5.
Proof.
  exists 39, it_query, (run cf0 db0 it_ops). repeat split; vm_compute; reflexivity.
Qed.
