(* C03 - the fragment WITHOUT the sharing / set-valued path: queries made of suffixed groups only, over a
   database in which no provider carries MISC_SHARES_VIA_AGGREGATE. Soundness of the code model w.r.t. the
   declarative specification: every candidate the model returns is a candidate of spec_candidates. *)
From PV Require Import Spec.CandSpec Proofs.C13 Proofs.C03 Proofs.C02 Proofs.C02m Proofs.C03e.

(* ================================================================ hypotheses on the database *)
Definition no_sharing (d : db) : Prop := get_sharing_providers d = [].
(* a provider without parent is the root of its own tree (Forest of Proofs/Defs.v implies it) *)
Definition parentless_root (d : db) : Prop := forall r, In r (rps d) -> rp_parent r = None -> rp_root r = rp_uuid r.
(* capacities are not negative: int(x) and floor(x) coincide (the inventory handlers reject the rest) *)
Definition caps_nonneg (d : db) : Prop := forall i, In i (invs d) -> 0 <= (i_total i - i_reserved i) * i_rm i.

Lemma cap_trunc_floor i : 0 <= (i_total i - i_reserved i) * i_rm i -> cap_trunc i = cap_floor i.
Proof.
  intro H. unfold cap_trunc, cap_floor, fprod_trunc, fprod_floor. apply Z.leb_le in H. rewrite H. reflexivity.
Qed.

Lemma no_sharing_trait d p : no_sharing d -> ex d p -> has_trait d p MISC_SHARES_VIA_AGGREGATE = false.
Proof.
  unfold no_sharing, get_sharing_providers, ex. intros H Hp. apply in_map_iff in Hp. destruct Hp as [r [<- Hr]].
  destruct (has_trait d (rp_uuid r) MISC_SHARES_VIA_AGGREGATE) eqn:E; [|reflexivity]. exfalso.
  assert (Hin : In (rp_uuid r) (map rp_uuid (filter (fun r0 => has_trait d (rp_uuid r0) MISC_SHARES_VIA_AGGREGATE) (rps d)))).
  { apply in_map. apply filter_In. auto. }
  rewrite H in Hin. destruct Hin.
Qed.

(* ================================================================ one suffixed group *)
(* the AllocationRequest of group g on provider p *)
Definition group_creq (d : db) (g : rgroup) (p : Z) : creq :=
  mkCreq (root_of d p) (map (fun x => mkRreq p (fst x) (snd x)) (g_resources g)) [(g_suffix g, [p])].
Definition group_cand (d : db) (rw : rw_ctx) (g : rgroup) (c : creq) : Prop :=
  exists p, ex d p /\ suffixed_ok d g p = true /\ in_filtered_anchors rw (root_of d p) = true /\ c = group_creq d g p.

Section Fragment.
  Variable d : db.
  Hypothesis Hwf : rps_wf d.
  Hypothesis Hns : no_sharing d.
  Let Hnd : NoDup (map rp_uuid (rps d)) := proj1 Hwf.

  Lemma one_group_sound rw g ctx st l st' : use_same_provider g = true ->
    mk_rg_ctx d g = RVal ctx -> get_by_one_request d rw ctx st = RVal (l, st') ->
    forall c, In c l -> group_cand d rw g c.
  Proof.
    intros Hg Hctx. destruct (mk_rg_ctx_ok d Hwf g ctx Hctx) as [_ Eg]. unfold get_by_one_request. rewrite Eg, Hg.
    cbn [negb andb]. unfold alloc_candidates_single_provider. destruct (is_nil _); [discriminate|].
    intros [= <- _] c Hc. apply in_flat_map in Hc. destruct Hc as [[p root] [Ht Hc]].
    apply (matching_char d Hnd g ctx Hctx) in Ht. cbn [fst snd] in *. destruct Ht as [Hex [Eroot Hok]].
    rewrite (no_sharing_trait d p Hns Hex), app_nil_r in Hc. rewrite Eg in Hc.
    destruct (in_filtered_anchors rw root) eqn:Ea; [|destruct Hc]. destruct Hc as [<-|[]].
    exists p. rewrite <- Eroot. repeat split; try assumption.
  Qed.

  (* the groups loop: one list per group, in order *)
  Lemma groups_loop_sound rw : forall gs st acc cands st',
    (forall g, In g gs -> use_same_provider g = true) ->
    groups_loop d rw st gs acc = RVal (cands, st') ->
    exists l2, cands = rev acc ++ l2 /\
               Forall2 (fun gl g => fst gl = g /\ forall c, In c (snd gl) -> group_cand d rw g c) l2 gs.
  Proof.
    induction gs as [|g gs IH]; intros st acc cands st' Hall; cbn [groups_loop].
    - intros [= <- _]. exists []. rewrite app_nil_r. split; [reflexivity|constructor].
    - destruct (mk_rg_ctx d g) as [ctx| | |] eqn:Ec; try discriminate.
      destruct (get_by_one_request d rw ctx st) as [[l st1]| | |] eqn:E1; try discriminate.
      destruct l as [|c0 l0] eqn:El; [discriminate|]. rewrite <- El in *. intro H.
      destruct (IH st1 ((g, l) :: acc) cands st' (fun g' Hg' => Hall g' (or_intror Hg')) H) as [l2 [-> HF]].
      exists ((g, l) :: l2). split; [cbn [rev]; rewrite <- app_assoc; reflexivity|]. constructor; [|assumption].
      cbn [fst snd]. split; [reflexivity|]. eapply one_group_sound; try eassumption. apply Hall. left. reflexivity.
  Qed.

  (* ---------------------------------------------------------------- list facts *)
  Lemma dedup_length_le l : (length (dedup l) <= length l)%nat.
  Proof.
    unfold dedup. induction l as [|x l IH]; cbn [fold_right length]; [lia|].
    destruct (memZ x _); cbn [length]; lia.
  Qed.
  Lemma dedup_length_nodup l : length (dedup l) = length l -> NoDup l.
  Proof.
    induction l as [|x l IH]; [constructor|]. intro H.
    assert (Hd : dedup (x :: l) = if memZ x (dedup l) then dedup l else x :: dedup l) by reflexivity.
    rewrite Hd in H. pose proof (dedup_length_le l) as Hle. destruct (memZ x (dedup l)) eqn:E; cbn [length] in H; [lia|].
    constructor; [|apply IH; lia]. intro Hin. apply (proj2 (dedup_In x l)) in Hin. apply memZ_In in Hin. congruence.
  Qed.
  Lemma NoDup_nodupZ l : NoDup l -> nodupZ l = true.
  Proof.
    induction 1 as [|x l Hx _ IH]; cbn [nodupZ]; [reflexivity|]. rewrite IH, andb_true_r. apply negb_true_iff.
    destruct (memZ x l) eqn:E; [apply memZ_In in E; contradiction|reflexivity].
  Qed.
  Lemma Forall2_compose {A B C} (R : A -> B -> Prop) (S : B -> C -> Prop) l1 l2 l3 :
    Forall2 R l1 l2 -> Forall2 S l2 l3 -> Forall2 (fun a c => exists b, R a b /\ S b c) l1 l3.
  Proof.
    intro H. revert l3. induction H; intros l3 H2; inversion H2; subst; constructor; eauto.
  Qed.
  Lemma filter_all' {A} (P : A -> bool) l : (forall x, In x l -> P x = true) -> filter P l = l.
  Proof.
    induction l as [|x l IH]; intro H; cbn [filter]; [reflexivity|].
    rewrite (H x (or_introl eq_refl)), IH; [reflexivity|]. intros y Hy. apply H. right. assumption.
  Qed.
  Lemma find_none_all {A} (P : A -> bool) l : (forall x, In x l -> P x = false) -> find P l = None.
  Proof.
    induction l as [|x l IH]; intro H; cbn [find]; [reflexivity|].
    rewrite (H x (or_introl eq_refl)). apply IH. intros y Hy. apply H. right. assumption.
  Qed.

  (* ---------------------------------------------------------------- consolidation = summing placements *)
  Definition to_rr (x : Z * Z * Z) : rreq := mkRreq (fst (fst x)) (snd (fst x)) (snd x).
  Lemma add_rr_sum_into acc x : add_rr acc (to_rr x) = sum_into acc x.
  Proof.
    destruct x as [[p rc] a]. unfold to_rr. cbn [fst snd]. induction acc as [|y r IH]; cbn [add_rr sum_into fst snd rr_rp rr_rc rr_amt];
      [reflexivity|]. destruct (_ && _); [reflexivity|]. rewrite IH. reflexivity.
  Qed.
  Lemma fold_add_rr_sum_into l : forall acc, fold_left add_rr (map to_rr l) acc = fold_left sum_into l acc.
  Proof. induction l as [|x l IH]; intro acc; cbn [map fold_left]; [reflexivity|]. rewrite add_rr_sum_into. apply IH. Qed.

  Lemma add_map_new acc kv : ~ In (fst kv) (map fst acc) -> add_map acc kv = acc ++ [kv].
  Proof.
    induction acc as [|y r IH]; cbn [add_map map In app]; [reflexivity|]. intro H.
    destruct (fst y =? fst kv) eqn:E; [apply Z.eqb_eq in E; exfalso; apply H; left; assumption|].
    rewrite IH; [reflexivity|]. intro Hin. apply H. right. assumption.
  Qed.
  Lemma fold_add_map_new l : forall acc, NoDup (map fst (acc ++ l)) -> fold_left add_map l acc = acc ++ l.
  Proof.
    induction l as [|x l IH]; intros acc H; cbn [fold_left]; [rewrite app_nil_r; reflexivity|].
    rewrite add_map_new.
    - rewrite IH; rewrite <- app_assoc; [reflexivity|exact H].
    - rewrite map_app in H. cbn [map] in H. apply NoDup_remove_2 in H. intro Hin. apply H. apply in_app_iff. left. assumption.
  Qed.

  (* ---------------------------------------------------------------- one combination of the merge *)
  Definition asg_creqs (ps : list Z) (gs : list rgroup) : list creq :=
    map (fun pg => group_creq d (snd pg) (fst pg)) (combine ps gs).

  Lemma combo_shape rw a : forall combo gs,
    Forall2 (fun c g => group_cand d rw g c /\ cr_anchor c = a) combo gs ->
    exists ps, combo = asg_creqs ps gs /\
      Forall2 (fun p g => ex d p /\ suffixed_ok d g p = true /\ in_filtered_anchors rw (root_of d p) = true /\ root_of d p = a) ps gs.
  Proof.
    intros combo gs H. induction H as [|c g combo gs [[p [Hex [Hok [Hfa ->]]]] Ha] _ [ps [-> HF]]].
    - exists []. split; [reflexivity|constructor].
    - exists (p :: ps). split; [reflexivity|]. constructor; [|assumption]. cbn [group_creq cr_anchor] in Ha. auto.
  Qed.

  Lemma rrs_of_pairs (L : list (Z * rgroup)) :
    flat_map cr_rrs (map (fun pg => group_creq d (snd pg) (fst pg)) L) =
    map to_rr (flat_map (fun pg => map (fun x => (fst pg, fst x, snd x)) (g_resources (snd pg))) L).
  Proof.
    induction L as [|pg L IH]; cbn [map flat_map]; [reflexivity|]. rewrite map_app, IH. f_equal.
    cbn [group_creq cr_rrs]. rewrite map_map. reflexivity.
  Qed.
  Lemma maps_of_pairs (L : list (Z * rgroup)) :
    flat_map cr_maps (map (fun pg => group_creq d (snd pg) (fst pg)) L) = map (fun pg => (g_suffix (snd pg), [fst pg])) L.
  Proof. induction L as [|pg L IH]; cbn [map flat_map]; [reflexivity|]. rewrite IH. reflexivity. Qed.
  Lemma combine_snd {A B} : forall (l : list A) (l' : list B), length l = length l' -> map snd (combine l l') = l'.
  Proof.
    induction l as [|x l IH]; intros [|y l'] E; cbn [length] in E; try discriminate; cbn [combine map snd]; [reflexivity|].
    rewrite IH; [reflexivity|lia].
  Qed.

  Lemma consolidate_asg q a ps : unsuffixed_group q = None -> NoDup (map g_suffix (suffixed_groups q)) ->
    length ps = length (suffixed_groups q) ->
    cr_rrs (consolidate_allocation_requests (asg_creqs ps (suffixed_groups q))) = cr_rrs (creq_of q (mkAsg a [] ps)) /\
    cr_maps (consolidate_allocation_requests (asg_creqs ps (suffixed_groups q))) = cr_maps (creq_of q (mkAsg a [] ps)).
  Proof.
    intros Hun Hsuf Hlen. unfold consolidate_allocation_requests, creq_of, summed, placements, un_resources, asg_creqs.
    cbn [cr_rrs cr_maps as_un as_suff]. rewrite Hun. cbn [combine map app]. split.
    - rewrite rrs_of_pairs. apply fold_add_rr_sum_into.
    - rewrite maps_of_pairs. rewrite fold_add_map_new; [reflexivity|]. cbn [app]. rewrite map_map. cbn [fst].
      rewrite <- (map_map snd g_suffix), combine_snd; assumption.
  Qed.

  (* the same_subtree and isolate tests read the same providers on both sides *)
  Lemma subtree_same us : check_same_subtree d us = true -> subtree_ok d us = true.
  Proof.
    unfold check_same_subtree, subtree_ok, ancestor_or_self. destruct us as [|u [|w us']]; try (intro H; exact H).
    intros _. cbn [existsb forallb]. assert (E : memZ u (ancestors (length (rps d)) d u) = true).
    { apply memZ_In. destruct (length (rps d)); cbn [ancestors]; left; reflexivity. }
    rewrite E. reflexivity.
  Qed.

  (* ---------------------------------------------------------------- the merge *)
  Lemma merge_combos_inv rw cands combo : In combo (merge_combos d rw cands) ->
    exists a combo', combo = map snd combo' /\
      Forall2 (fun gc gl => fst gc = fst gl /\ In (snd gc) (snd gl) /\ cr_anchor (snd gc) = a) combo' cands /\
      satisfies_group_policy (rw_policy rw) (lenZ (filter (fun gl => use_same_provider (fst gl)) cands)) combo' = true /\
      satisfies_same_subtree d (rw_same_subtrees rw) combo = true.
  Proof.
    unfold merge_combos. intro H. apply in_flat_map in H. destruct H as [a [_ H]].
    destruct (existsb is_nil _); [destruct H|]. apply in_map_iff in H. destruct H as [combo' [<- H]].
    apply filter_In in H. destruct H as [H Hf]. apply andb_true_iff in Hf. destruct Hf as [Hp Hs].
    exists a, combo'. split; [reflexivity|]. split; [|split; assumption].
    apply in_product in H. apply (proj1 (Forall2_map_r _ (fun gl => map (pair (fst gl)) (filter (fun c => cr_anchor c =? a) (snd gl))) _ _)) in H.
    eapply Forall2_impl; [|exact H]. cbv beta. intros gc gl Hin. apply in_map_iff in Hin. destruct Hin as [c [<- Hc]].
    apply filter_In in Hc. destruct Hc as [Hc Ea]. apply Z.eqb_eq in Ea. cbn [fst snd]. auto.
  Qed.

  Definition first_mapping (gc : rgroup * creq) : list Z :=
    if use_same_provider (fst gc) then match cr_maps (snd gc) with (_, ps) :: _ => ps | [] => [] end else [].

  Lemma combo_shape' rw a : forall combo' gs,
    Forall2 (fun gc g => fst gc = g /\ use_same_provider g = true /\ group_cand d rw g (snd gc) /\ cr_anchor (snd gc) = a) combo' gs ->
    exists ps, map snd combo' = asg_creqs ps gs /\ flat_map first_mapping combo' = ps /\
      Forall2 (fun p g => ex d p /\ suffixed_ok d g p = true /\ in_filtered_anchors rw (root_of d p) = true /\ root_of d p = a) ps gs.
  Proof.
    intros combo' gs H. induction H as [|[g' c] g combo' gs [Eg [Hu [[p [Hex [Hok [Hfa Ec]]]] Ha]]] _ [ps [E1 [E2 HF]]]].
    - exists []. repeat split; constructor.
    - cbn [fst snd] in *. subst g' c. exists (p :: ps). repeat split.
      + cbn [map snd]. rewrite E1. reflexivity.
      + cbn [flat_map]. rewrite E2. unfold first_mapping. cbn [fst snd group_creq cr_maps]. rewrite Hu. reflexivity.
      + constructor; [|assumption]. cbn [group_creq cr_anchor] in Ha. auto.
  Qed.

  Lemma subtree_lists sfx (L : list (Z * rgroup)) :
    flat_map (fun c => flat_map (fun kv : Z * list Z => if memZ (fst kv) sfx then snd kv else []) (cr_maps c))
             (map (fun pg => group_creq d (snd pg) (fst pg)) L) =
    flat_map (fun pg => if memZ (g_suffix (snd pg)) sfx then [fst pg] else []) L.
  Proof.
    induction L as [|pg L IH]; cbn [map flat_map]; [reflexivity|]. rewrite IH. cbn [group_creq cr_maps flat_map fst snd].
    rewrite app_nil_r. reflexivity.
  Qed.
End Fragment.

(* ================================================================ the theorem *)
Lemma candidates_inv v q d a s : candidates v q d = COk a s ->
  query_wf v q = true /\
  (a = [] \/ exists anchors cands st,
     process_anchor_traits d q = RVal anchors /\
     groups_loop d (mkRwCtx (has_provider_trees d) (29 <=? v) anchors (qy_policy q) (qy_same_subtree q))
                 (mkRwState (get_sharing_providers d) []) (qy_groups q) [] = RVal (cands, st) /\
     finish_requests d v q (mkRwCtx (has_provider_trees d) (29 <=? v) anchors (qy_policy q) (qy_same_subtree q))
                     (st_built st) cands = COk a s).
Proof.
  unfold candidates, candidates_gen. destruct (v <? 10); [discriminate|].
  destruct (query_wf v q); [|discriminate]. cbn [negb]. intro H. split; [reflexivity|].
  unfold get_by_requests_gen in H. destruct (process_anchor_traits d q) as [anchors| | |]; try discriminate.
  2:{ injection H as <- _. left. reflexivity. }
  destruct (groups_loop d _ _ (qy_groups q) []) as [[cands st]| | |] eqn:E; try discriminate.
  2:{ injection H as <- _. left. reflexivity. }
  right. exists anchors, cands, st. split; [reflexivity|]. split; [exact E|].
  cbn [orb] in H. destruct (negb _); [exact H|].
  destruct (finish_requests d v q _ (st_built st) cands) as [| | |ua us] eqn:Eu; try discriminate.
  destruct (result_same _ _); [exact H|discriminate].
Qed.

Lemma same_creq_view v x y : same_creq x y = true -> same_creq (creq_view v x) (creq_view v y) = true.
Proof.
  unfold same_creq, creq_view. cbn [cr_rrs cr_maps]. intro H. apply andb_true_iff in H. destruct H as [H1 H2].
  rewrite H1. destruct (34 <=? v); [exact H2|reflexivity].
Qed.

Lemma lenZ_eq {A B} (l : list A) (l' : list B) : lenZ l = lenZ l' -> length l = length l'.
Proof. unfold lenZ. lia. Qed.

Lemma NoDup_dedup' l : NoDup (dedup l).
Proof.
  unfold dedup. induction l as [|x l IH]; cbn [fold_right]; [constructor|].
  destruct (memZ x (fold_right _ [] l)) eqn:E; [assumption|]. constructor; [|assumption].
  intro H. apply memZ_In in H. congruence.
Qed.
Lemma dedup_length_nodup_map (l : list Z) : lenZ l = lenZ (dedup l) -> NoDup l.
Proof.
  intro H. unfold lenZ in H.
  assert (Hd : forall l0, (length (dedup l0) <= length l0)%nat).
  { unfold dedup. induction l0 as [|x l0 IH]; cbn [fold_right length]; [lia|]. destruct (memZ x _); cbn [length]; lia. }
  induction l as [|x l IH]; [constructor|].
  assert (E : dedup (x :: l) = if memZ x (dedup l) then dedup l else x :: dedup l) by reflexivity.
  rewrite E in H. pose proof (Hd l). destruct (memZ x (dedup l)) eqn:M; cbn [length] in H; [lia|].
  constructor; [|apply IH; lia]. intro Hin. apply (proj2 (dedup_In x l)) in Hin. apply memZ_In in Hin. congruence.
Qed.

Lemma query_wf_facts v q : query_wf v q = true ->
  qy_groups q <> [] /\ lenZ (dedup (map g_suffix (qy_groups q))) = lenZ (map g_suffix (qy_groups q)).
Proof.
  unfold query_wf. cbv zeta. intro H.
  repeat match type of H with (_ && _ = true) => let H' := fresh "W" in apply andb_true_iff in H; destruct H as [H H'] end.
  split.
  - destruct (qy_groups q); [discriminate|discriminate].
  - match goal with X : (lenZ (dedup _) =? lenZ _) = true |- _ => apply Z.eqb_eq in X; exact X end.
Qed.

Theorem c03_suffixed_only_sound : forall v q d a s,
  rps_wf d -> no_sharing d -> parentless_root d -> caps_nonneg d ->
  (forall g, In g (qy_groups q) -> use_same_provider g = true) ->
  candidates v q d = COk a s ->
  forall c, In c a -> exists c', In c' (map (creq_view v) (spec_candidates v q d)) /\ same_creq c c' = true.
Proof.
  intros v q d a s Hwf Hns Hpr Hcap Hsuf Hcand c Hc.
  destruct (candidates_inv v q d a s Hcand) as [Hqwf [->|[anchors [cands [st [Hanch [Hloop Hfin]]]]]]]; [destruct Hc|].
  set (rw := mkRwCtx (has_provider_trees d) (29 <=? v) anchors (qy_policy q) (qy_same_subtree q)) in *.
  set (gs := qy_groups q) in *.
  (* the query: no unsuffixed group, distinct suffixes *)
  assert (Hsg : suffixed_groups q = gs) by (unfold suffixed_groups; apply filter_all'; exact Hsuf).
  assert (Hun : unsuffixed_group q = None).
  { unfold unsuffixed_group. apply find_none_all. intros g Hg. specialize (Hsuf g Hg). unfold use_same_provider in Hsuf.
    apply negb_true_iff in Hsuf. exact Hsuf. }
  assert (Hsfx : NoDup (map g_suffix gs)).
  { apply dedup_length_nodup. apply lenZ_eq. apply (query_wf_facts v q Hqwf). }
  (* the per-group candidate lists *)
  destruct (groups_loop_sound d Hwf Hns rw gs _ [] cands st Hsuf Hloop) as [l2 [Ecands HF]]. cbn [rev app] in Ecands. subst l2.
  (* the candidate c *)
  unfold finish_requests, transform in Hfin.
  set (mc := merge_candidates d (st_built st) (merge_combos d rw cands)) in *.
  assert (Hmc : forall c1, In c1 (fst mc) -> exists combo, In combo (merge_combos d rw cands) /\
                  c1 = consolidate_allocation_requests combo /\ exceeds_capacity d c1 = false).
  { intros c1 H1. unfold mc, merge_candidates in H1.
    set (l := dedup_by same_creq _) in H1.
    assert (H1' : In c1 l) by (destruct l; [destruct H1|exact H1]).
    unfold l in H1'. apply dedup_by_In in H1'. apply filter_In in H1'. destruct H1' as [H1' Hx].
    apply in_map_iff in H1'. destruct H1' as [combo [<- Hcombo]]. exists combo. repeat split; try assumption.
    apply negb_true_iff. exact Hx. }
  injection Hfin as <- _. apply in_map_iff in Hc. destruct Hc as [c1 [<- Hc1]].
  (* c1 survives exclude_nested_providers *)
  assert (Hkept : In c1 (fst mc) /\
            ((29 <=? v) || negb (has_provider_trees d) = true \/
             lenZ (dedup (map rr_rp (cr_rrs c1))) = lenZ (dedup (map (root_of d) (dedup (map rr_rp (cr_rrs c1))))))).
  { unfold exclude_nested_providers in Hc1. cbn [rw_nested_aware rw_has_trees rw] in Hc1.
    destruct ((29 <=? v) || negb (has_provider_trees d)) eqn:E.
    - destruct mc. split; [exact Hc1|left; reflexivity].
    - cbn [fst] in Hc1. apply filter_In in Hc1. destruct Hc1 as [H1 H2]. split; [exact H1|right]. apply Z.eqb_eq. exact H2. }
  destruct Hkept as [Hin1 Hkept]. destruct (Hmc c1 Hin1) as [combo [Hcombo [Ec1 Hexc]]].
  destruct (merge_combos_inv d rw cands combo Hcombo) as [an [combo' [Ecombo [HF' [Hpol Hsst]]]]].
  (* combine with the per-group characterisation *)
  assert (HF2 : Forall2 (fun gc g => fst gc = g /\ use_same_provider g = true /\ group_cand d rw g (snd gc) /\ cr_anchor (snd gc) = an) combo' gs).
  { pose proof (Forall2_compose _ _ _ _ _ HF' HF) as H. cbv beta in H.
    assert (Hgs : forall g, In g gs -> use_same_provider g = true) by exact Hsuf.
    clear - H Hgs. induction H as [|gc g l l' [gl [[E1 [Hi Ha]] [E2 Hg]]] _ IH]; constructor.
    - repeat split; try congruence; [apply Hgs; left; reflexivity|apply Hg; assumption].
    - apply IH. intros g' Hg'. apply Hgs. right. assumption. }
  destruct (combo_shape' d rw an combo' gs HF2) as [ps [Esnd [Efirst HFp]]].
  assert (Hlen : length ps = length gs) by (eapply Forall2_length; exact HFp).
  set (asg := mkAsg an [] ps).
  destruct (consolidate_asg d q an ps Hun) as [Err Emaps]; [rewrite Hsg; exact Hsfx|rewrite Hsg; exact Hlen|].
  rewrite Hsg in Err, Emaps. rewrite <- Esnd, <- Ecombo, <- Ec1 in Err, Emaps. fold asg in Err, Emaps.
  (* the assignment is admissible *)
  assert (Hadm : admissible v q d asg).
  { unfold admissible. cbn [as_anchor as_un as_suff asg]. rewrite Hun, Hsg.
    assert (Hps_ex : forall p, In p ps -> ex d p /\ root_of d p = an).
    { intros p Hp. destruct (Forall2_In_l _ _ _ _ HFp Hp) as [g [_ H]]. tauto. }
    split; [|split; [reflexivity|split]].
    - (* the anchor is a root *)
      destruct gs as [|g0 gs'] eqn:Egs.
      { exfalso. apply (proj1 (query_wf_facts v q Hqwf)). exact Egs. }
      inversion HFp as [|p0 g0' ps' gs'' [Hex0 [_ [_ Er0]]] _]; subst.
      unfold ex in Hex0. apply in_map_iff in Hex0. destruct Hex0 as [r0 [Eu0 Hr0]].
      pose proof (proj2 Hwf r0 Hr0) as Hroot. unfold is_root in Hroot.
      assert (Erow : root_of d p0 = rp_root r0) by (rewrite <- Eu0; apply (root_of_row d Hwf); assumption).
      rewrite Erow. destruct (find_rp d (rp_root r0)) as [rr|] eqn:Frr; [|discriminate].
      pose proof (find_rp_l_Some _ _ _ Frr) as [Hrr Eurr]. unfold tree_roots. apply in_map_iff. exists rr. split; [exact Eurr|].
      apply filter_In. split; [exact Hrr|]. rewrite Eurr. exact Hroot.
    - eapply Forall2_impl; [|exact HFp]. cbv beta. intros p g [Hex [Hok [_ Er]]]. split; [|exact Hok].
      split; [exact Hex|]. unfold avail. rewrite Er, Z.eqb_refl. reflexivity.
    - (* the conditions between the slots *)
      assert (Hg0 : exists g0, In g0 gs).
      { pose proof (proj1 (query_wf_facts v q Hqwf)) as Hne. unfold gs.
        destruct (qy_groups q) as [|g0 l0] eqn:E; [exfalso; apply Hne; reflexivity|exists g0; left; reflexivity]. }
      destruct Hg0 as [g0 Hg0].
      assert (Hfa : in_filtered_anchors rw an = true).
      { destruct (Forall2_In_r _ _ _ _ HFp Hg0) as [p0 [_ [_ [_ [Hf Er]]]]]. rewrite <- Er. exact Hf. }
      assert (Hrrs : cr_rrs c1 = summed q asg) by (rewrite Err; reflexivity).
      assert (Hprov : forall x, In x (summed q asg) -> In (rr_rp x) ps).
      { intros x Hx. destruct (creq_of_providers q asg (rr_rp x)) as [H|H]; [|destruct H|exact H].
        unfold creq_providers. apply in_app_iff. left. apply in_map. exact Hx. }
      unfold asg_ok. cbn [as_anchor as_un as_suff asg]. rewrite Hun, Hsg. rewrite !andb_true_iff. repeat split.
      + (* root_required *)
        unfold process_anchor_traits in Hanch. destruct (is_nil (qy_root_required q) && is_nil (qy_root_forbidden q)) eqn:En.
        * apply andb_true_iff in En. destruct En as [En _]. destruct (qy_root_required q); [reflexivity|discriminate].
        * destruct (negb _); [discriminate|]. destruct (get_roots_with_traits d _ _) as [|z zs] eqn:Eg; [discriminate|].
          injection Hanch as <-. unfold in_filtered_anchors in Hfa. cbn [rw_anchor_root_ids rw] in Hfa. apply memZ_In in Hfa.
          rewrite <- Eg in Hfa. unfold get_roots_with_traits in Hfa. apply in_map_iff in Hfa. destruct Hfa as [r [<- Hr]].
          apply filter_In in Hr. destruct Hr as [_ Hr]. rewrite !andb_true_iff in Hr. tauto.
      + unfold process_anchor_traits in Hanch. destruct (is_nil (qy_root_required q) && is_nil (qy_root_forbidden q)) eqn:En.
        * apply andb_true_iff in En. destruct En as [_ En]. destruct (qy_root_forbidden q); [reflexivity|discriminate].
        * destruct (negb _); [discriminate|]. destruct (get_roots_with_traits d _ _) as [|z zs] eqn:Eg; [discriminate|].
          injection Hanch as <-. unfold in_filtered_anchors in Hfa. cbn [rw_anchor_root_ids rw] in Hfa. apply memZ_In in Hfa.
          rewrite <- Eg in Hfa. unfold get_roots_with_traits in Hfa. apply in_map_iff in Hfa. destruct Hfa as [r [<- Hr]].
          apply filter_In in Hr. destruct Hr as [_ Hr]. rewrite !andb_true_iff in Hr. tauto.
      + (* group_policy *)
        cbn [rw_policy rw] in Hpol. destruct (qy_policy q); try reflexivity. cbn [satisfies_group_policy] in Hpol.
        change (lenZ (dedup (flat_map first_mapping combo')) =? lenZ (filter (fun gl => use_same_provider (fst gl)) cands) = true) in Hpol.
        rewrite Efirst in Hpol. apply Z.eqb_eq in Hpol. apply NoDup_nodupZ. apply dedup_length_nodup.
        apply lenZ_eq in Hpol. rewrite Hpol, Hlen. rewrite filter_all'.
        * eapply Forall2_length. exact HF.
        * intros gl Hgl. destruct (Forall2_In_l _ _ _ _ HF Hgl) as [g [Hg [E _]]]. rewrite E. apply Hsuf.
          apply in_combine_r in Hg. exact Hg.
      + (* same_subtree *)
        cbn [rw_same_subtrees rw] in Hsst. unfold satisfies_same_subtree in Hsst. rewrite forallb_forall in Hsst.
        apply forallb_forall. intros sfx Hs. specialize (Hsst sfx Hs). rewrite Ecombo, Esnd in Hsst. unfold asg_creqs in Hsst.
        rewrite subtree_lists in Hsst. apply subtree_same. exact Hsst.
      + (* capacity and max_unit of the summed amounts *)
        apply forallb_forall. intros x Hx. unfold exceeds_capacity in Hexc. rewrite Hrrs in Hexc.
        assert (Hfx : match find_inv d (rr_rp x) (rr_rc x) with
                      | Some i => (cap_trunc i <? usage d (rr_rp x) (rr_rc x) + rr_amt x) || (i_max i <? rr_amt x)
                      | None => true end = false).
        { destruct (match find_inv d (rr_rp x) (rr_rc x) with Some i => _ | None => true end) eqn:E; [|reflexivity].
          assert (existsb (fun x0 => match find_inv d (rr_rp x0) (rr_rc x0) with
                     | Some i => (cap_trunc i <? usage d (rr_rp x0) (rr_rc x0) + rr_amt x0) || (i_max i <? rr_amt x0)
                     | None => true end) (summed q asg) = true) by (apply existsb_exists; exists x; auto).
          congruence. }
        destruct (find_inv d (rr_rp x) (rr_rc x)) as [i|] eqn:Fi; [|discriminate].
        apply orb_false_iff in Hfx. destruct Hfx as [H1 H2]. apply Z.ltb_ge in H1, H2.
        apply find_inv_l_Some' in Fi. destruct Fi as [Hi _]. rewrite (cap_trunc_floor i (Hcap i Hi)) in H1.
        apply andb_true_iff. split; apply Z.leb_le; lia.
      + (* before 1.29: one provider per tree *)
        destruct (29 <=? v) eqn:Ev; [reflexivity|]. cbn [orb]. rewrite <- Hrrs.
        cbn [orb] in Hkept. destruct Hkept as [Hk|Hk].
        * (* no nested providers at all: every provider is its own root *)
          apply negb_true_iff in Hk. apply NoDup_nodupZ.
          assert (Hid : map (root_of d) (dedup (map rr_rp (cr_rrs c1))) = dedup (map rr_rp (cr_rrs c1))).
          { rewrite <- (map_id (dedup (map rr_rp (cr_rrs c1)))) at 2. apply map_ext_in. intros u Hu.
            apply (proj1 (dedup_In _ _)) in Hu. apply in_map_iff in Hu. destruct Hu as [x [<- Hx]]. rewrite Hrrs in Hx.
            destruct (Hps_ex (rr_rp x) (Hprov x Hx)) as [Hex _]. unfold ex in Hex. apply in_map_iff in Hex.
            destruct Hex as [r [Eu Hr]]. rewrite <- Eu. rewrite (root_of_row d Hwf r Hr). apply Hpr; [exact Hr|].
            unfold has_provider_trees in Hk. destruct (rp_parent r) eqn:Epar; [|reflexivity]. exfalso.
            assert (existsb (fun r0 => match rp_parent r0 with Some _ => true | None => false end) (rps d) = true).
            { apply existsb_exists. exists r. rewrite Epar. auto. }
            congruence. }
          rewrite Hid. apply NoDup_dedup'.
        * apply NoDup_nodupZ. apply dedup_length_nodup_map. unfold lenZ in *. rewrite map_length. exact Hk. }
  destruct (spec_candidates_complete v q d (creq_of q asg)) as [c'' [Hin Hsame]]; [exists asg; split; [exact Hadm|reflexivity]|].
  exists (creq_view v c''). split; [apply in_map; exact Hin|].
  rewrite Err, Emaps. apply (same_creq_view v (creq_of q asg) c'' Hsame).
Qed.
