(* C03 - soundness of the code model w.r.t. the declarative specification for queries that MAY contain the
   unsuffixed request group (resources spread over the providers of one tree), over a database in which no
   provider carries MISC_SHARES_VIA_AGGREGATE. *)
From PV Require Import Spec.CandSpec Proofs.Defs Proofs.C13 Proofs.C03 Proofs.C02 Proofs.C02m Proofs.C03e Proofs.C03s Proofs.C03c Proofs.C03p.
From Coq Require Import Permutation.

(* ================================================================ small facts *)
Lemma pc_trees_In l R : In R (pc_trees l) <-> exists c, In c l /\ pc_root c = R.
Proof.
  unfold pc_trees. rewrite dedup_In, in_map_iff. split; intros [c H]; exists c; tauto.
Qed.
Lemma pc_rps_In l u : In u (pc_rps l) <-> exists c, In c l /\ pc_rp c = u.
Proof.
  unfold pc_rps. rewrite dedup_In, in_map_iff. split; intros [c H]; exists c; tauto.
Qed.
Lemma rpc_eqb_fields a b : rpc_eqb a b = true -> pc_rp a = pc_rp b /\ pc_root a = pc_root b /\ pc_rc a = pc_rc b.
Proof. unfold rpc_eqb. rewrite !andb_true_iff, !Z.eqb_eq. tauto. Qed.
Lemma rpc_eqb_eq a b : rpc_eqb a b = true -> a = b.
Proof. intro H. apply rpc_eqb_fields in H. destruct a, b. cbn in H. destruct H as [-> [-> ->]]. reflexivity. Qed.
Lemma dedup_rpc_In l c : In c (dedup_by rpc_eqb l) <-> In c l.
Proof.
  split; [apply dedup_by_In|]. intro H. destruct (dedup_by_complete rpc_eqb l c H) as [y [Hy [->|E]]]; [exact Hy|].
  apply rpc_eqb_eq in E. subst y. exact Hy.
Qed.
Lemma is_root_ex d R : is_root d R = true -> ex d R.
Proof.
  unfold is_root. destruct (find_rp d R) as [r|] eqn:F; [|discriminate]. intros _. apply ex_find. eauto.
Qed.

(* ================================================================ the unsuffixed group: the candidate providers *)
(* the part of the slot condition un_slot_ok that get_trees_matching_all establishes (the forbidden traits are
   tested later, per combination, by _check_traits_for_alloc_request) *)
Definition pre_slot_ok (d : db) (g : rgroup) (R : Z) (x : Z * Z) (p : Z) : bool :=
  has_room d p (fst x) (snd x) && member_of_via_root d R p (g_member_of g)
  && negb (agg_via_root d R p (g_forbidden_aggs g)) && in_tree_ok d g p.

Definition rpc_ok (d : db) (rw : rw_ctx) (g : rgroup) (c : rpc) : Prop :=
  ex d (pc_rp c) /\ pc_root c = root_of d (pc_rp c) /\ is_root d (pc_root c) = true /\
  in_filtered_anchors rw (pc_root c) = true /\
  exists amount, In (pc_rc c, amount) (g_resources g) /\ pre_slot_ok d g (pc_root c) (pc_rc c, amount) (pc_rp c) = true.

(* the AllocationRequest of the unsuffixed group g anchored at R: provider ps[i] for the i-th resource *)
Definition un_creq (R : Z) (g : rgroup) (ps m : list Z) : creq :=
  mkCreq R (map (fun px : Z * (Z * Z) => mkRreq (fst px) (fst (snd px)) (snd (snd px))) (combine ps (g_resources g)))
         [(g_suffix g, m)].
(* what the model may produce for the unsuffixed group: every resource on a provider of ONE tree R acceptable
   for it (un_slot_ok), the required traits met collectively, R an accepted anchor *)
Definition un_cand (d : db) (rw : rw_ctx) (g : rgroup) (c : creq) : Prop :=
  exists R ps m,
    Forall2 (fun p x => ex d p /\ root_of d p = R /\ un_slot_ok d g R x p = true) ps (g_resources g) /\
    forallb (fun any => existsb (fun p => has_some_trait d p any) ps) (g_required g) = true /\
    is_root d R = true /\ in_filtered_anchors rw R = true /\ (forall x, In x m <-> In x ps) /\ c = un_creq R g ps m.

Lemma nodup_keys_unique (l : list (Z * Z)) k a b : NoDup (map fst l) -> In (k, a) l -> In (k, b) l -> a = b.
Proof.
  induction l as [|[k0 a0] l IH]; cbn [map fst In]; [intros _ []|]. intros H Ha Hb. inversion H as [|? ? Hn Hl]; subst.
  destruct Ha as [Ha|Ha], Hb as [Hb|Hb].
  - congruence.
  - injection Ha as -> _. exfalso. apply Hn. apply in_map_iff. exists (k, b). auto.
  - injection Hb as -> _. exfalso. apply Hn. apply in_map_iff. exists (k, a). auto.
  - apply IH; assumption.
Qed.
Lemma find_key_nodup (l : list (Z * Z)) x : NoDup (map fst l) -> In x l -> find (fun y => fst y =? fst x) l = Some x.
Proof.
  induction l as [|y l IH]; cbn [map In find]; [intros _ []|]. intros H Hx. inversion H as [|? ? Hn Hl]; subst.
  destruct Hx as [->|Hx]; [rewrite Z.eqb_refl; reflexivity|].
  destruct (fst y =? fst x) eqn:E; [|apply IH; assumption]. apply Z.eqb_eq in E. exfalso. apply Hn. rewrite E.
  apply in_map. exact Hx.
Qed.
Lemma Forall2_map_self {A B} (R : B -> A -> Prop) (f : A -> B) l : (forall x, In x l -> R (f x) x) -> Forall2 R (map f l) l.
Proof.
  induction l as [|x l IH]; intro H; cbn [map]; constructor; [apply H; left; reflexivity|].
  apply IH. intros y Hy. apply H. right. exact Hy.
Qed.

Section Unsuffixed.
  Variable d : db.
  Hypothesis Hwf : rps_wf d.
  Hypothesis Hns : no_sharing d.
  Hypothesis Hpr : parentless_root d.
  Let Hnd : NoDup (map rp_uuid (rps d)) := proj1 Hwf.
  Variables (g : rgroup) (ctx : rg_ctx) (rw : rw_ctx).
  Hypothesis Hctx : mk_rg_ctx d g = RVal ctx.
  (* process_anchor_traits never yields an empty anchor list *)
  Hypothesis Hanch : rw_anchor_root_ids rw <> Some [].

  Let bad := if is_nil (g_forbidden_aggs g) then [] else provider_ids_matching_aggregates d [g_forbidden_aggs g].

  Lemma trees_for_rc_In rc with_inv c :
    In c (trees_for_rc d rw ctx bad [] rc with_inv) ->
    (exists x, In x with_inv /\ c = mkRpc (fst x) (snd x) rc) /\
    in_filtered_anchors rw (pc_root c) = true /\
    (is_nil (g_member_of g) = true \/ In (pc_rp c) (rg_rps_in_aggs ctx) \/ In (pc_root c) (rg_rps_in_aggs ctx)) /\
    (is_nil (g_forbidden_aggs g) = true \/ (~ In (pc_rp c) bad /\ ~ In (pc_root c) bad)).
  Proof.
    destruct (ctx_fields d g ctx Hctx) as [Eg _]. unfold trees_for_rc. cbv zeta. rewrite Eg.
    change (get_rps_with_shared_capacity [] with_inv) with (@nil Z). cbv iota.
    set (p0 := add_rps [] with_inv rc).
    assert (H0 : forall c0, In c0 p0 -> exists x, In x with_inv /\ c0 = mkRpc (fst x) (snd x) rc).
    { intros c0 H. unfold p0, add_rps in H. apply dedup_by_In in H. cbn [app] in H. apply in_map_iff in H.
      destruct H as [x [<- Hx]]. eauto. }
    set (p2 := match rw_anchor_root_ids rw with Some (x :: l) => filter_by_tree p0 (x :: l) | _ => p0 end).
    assert (H2 : forall c0, In c0 p2 -> In c0 p0 /\ in_filtered_anchors rw (pc_root c0) = true).
    { intros c0 H. unfold p2, in_filtered_anchors in *. destruct (rw_anchor_root_ids rw) as [[|a0 al]|].
      - contradiction Hanch; reflexivity.
      - unfold filter_by_tree in H. apply filter_In in H. exact H.
      - auto. }
    set (p3 := if is_nil (g_member_of g) then p2 else filter_by_rp_or_tree p2 (rg_rps_in_aggs ctx)).
    assert (H3 : forall c0, In c0 p3 -> In c0 p2 /\
              (is_nil (g_member_of g) = true \/ In (pc_rp c0) (rg_rps_in_aggs ctx) \/ In (pc_root c0) (rg_rps_in_aggs ctx))).
    { intros c0 H. unfold p3 in H. destruct (is_nil (g_member_of g)); [auto|].
      unfold filter_by_rp_or_tree in H. apply filter_In in H. destruct H as [H Hm]. split; [exact H|right].
      apply orb_true_iff in Hm. rewrite !memZ_In in Hm. exact Hm. }
    intro H.
    assert (H4 : In c p3 /\ (is_nil (g_forbidden_aggs g) = true \/ (~ In (pc_rp c) bad /\ ~ In (pc_root c) bad))).
    { destruct (is_nil (g_forbidden_aggs g)); [auto|]. unfold filter_by_rp_nor_tree in H. apply filter_In in H.
      destruct H as [H Hm]. split; [exact H|right]. apply negb_true_iff, orb_false_iff in Hm. destruct Hm as [M1 M2].
      split; intro Hi; apply memZ_In in Hi; congruence. }
    destruct H4 as [H4 Hf]. destruct (H3 c H4) as [H3' Hm]. destruct (H2 c H3') as [H2' Ha]. auto.
  Qed.

  Lemma trees_for_rc_ok rc amount c : In (rc, amount) (g_resources g) ->
    In c (trees_for_rc d rw ctx bad [] rc (get_providers_with_resource d rc amount (rg_tree_root ctx))) ->
    rpc_ok d rw g c /\ pc_rc c = rc.
  Proof.
    intros Hres H. apply trees_for_rc_In in H. destruct H as [[[p root] [Hx ->]] [Ha [Hm Hf]]]. cbn [fst snd pc_rp pc_root pc_rc] in *.
    split; [|reflexivity]. apply (gpwr_In d) in Hx. destruct Hx as [r [F [-> [Hroom Ht]]]].
    pose proof (find_rp_l_Some _ _ _ F) as [Hr Eu].
    assert (Hex : ex d p) by (apply ex_find; eauto).
    assert (Er : rp_root r = root_of d p) by (unfold root_of; rewrite F; reflexivity).
    assert (Hisr : is_root d (rp_root r) = true) by (apply (proj2 Hwf); exact Hr).
    assert (HexR : ex d (rp_root r)) by (apply is_root_ex; exact Hisr).
    unfold rpc_ok. cbn [pc_rp pc_root pc_rc]. repeat split; try assumption.
    exists amount. split; [exact Hres|]. unfold pre_slot_ok. cbn [fst snd]. rewrite Hroom. cbn [andb].
    destruct (ctx_fields d g ctx Hctx) as [_ [Eaggs _]].
    assert (M : member_of_via_root d (rp_root r) p (g_member_of g) = true).
    { unfold member_of_via_root. rewrite <- Er, Z.eqb_refl. cbn [andb]. rewrite Eaggs in Hm.
      destruct (g_member_of g) as [|m0 ms] eqn:Em; [reflexivity|]. rewrite <- Em in *.
      assert (En : is_nil (g_member_of g) = false) by (rewrite Em; reflexivity). rewrite En in Hm.
      destruct Hm as [Hm|[Hm|Hm]]; [discriminate| |]; apply matching_aggregates_In in Hm; destruct Hm as [_ [_ [_ Hm]]];
        rewrite Hm; [reflexivity|apply orb_true_r]. }
    assert (Fb : agg_via_root d (rp_root r) p (g_forbidden_aggs g) = false).
    { unfold agg_via_root. rewrite <- Er, Z.eqb_refl. cbn [andb].
      assert (Hbad : forall u, ex d u -> (In u bad <-> in_some_agg d u (g_forbidden_aggs g) = true))
        by (intros u Hu; apply bad_aggs_In; exact Hu).
      destruct (is_nil (g_forbidden_aggs g)) eqn:En.
      - assert (E0 : g_forbidden_aggs g = []) by (destruct (g_forbidden_aggs g); [reflexivity|discriminate]).
        rewrite E0, !in_some_agg_nil. reflexivity.
      - destruct Hf as [Hf|[Hf1 Hf2]]; [discriminate|].
        destruct (in_some_agg d p (g_forbidden_aggs g)) eqn:E1; [exfalso; apply Hf1; apply (Hbad p Hex); exact E1|].
        destruct (in_some_agg d (rp_root r) (g_forbidden_aggs g)) eqn:E2; [exfalso; apply Hf2; apply (Hbad _ HexR); exact E2|].
        reflexivity. }
    rewrite M, Fb. cbn [andb negb]. apply (tree_root_ok d g ctx Hctx p r F). exact Ht.
  Qed.

  (* ---------------------------------------------------------------- the loop over the resource classes *)
  (* every tree of acc offers every class of `done` *)
  Definition covers (acc : list rpc) (done : list Z) : Prop :=
    forall c rc, In c acc -> In rc done -> exists c', In c' acc /\ pc_root c' = pc_root c /\ pc_rc c' = rc.

  Lemma merge_step acc p done rc : p <> [] -> (forall c, In c p -> pc_rc c = rc) ->
    covers acc done -> (acc = [] -> done = []) ->
    covers (merge_common_trees acc p) (done ++ [rc]) /\
    (forall c, In c (merge_common_trees acc p) -> In c acc \/ In c p).
  Proof.
    intros Hp Hrc Hcov Hnil. unfold merge_common_trees. destruct acc as [|a0 al]; cbn [is_nil].
    - rewrite (Hnil eq_refl). cbn [app]. split; [|auto]. intros c rc' Hc [<-|[]]. exists c. auto.
    - destruct p as [|b0 bl]; [contradiction Hp; reflexivity|]. cbn [is_nil].
      set (acc := a0 :: al) in *. set (p := b0 :: bl) in *.
      assert (Hin : forall c, In c (filter_by_tree (dedup_by rpc_eqb (acc ++ p)) (interZ (pc_trees acc) (pc_trees p))) <->
                      (In c acc \/ In c p) /\ In (pc_root c) (pc_trees acc) /\ In (pc_root c) (pc_trees p)).
      { intro c. unfold filter_by_tree. rewrite filter_In, dedup_rpc_In, in_app_iff, memZ_In, interZ_In. tauto. }
      split; [|intros c Hc; apply Hin in Hc; tauto].
      intros c rc' Hc Hrc'. apply Hin in Hc. destruct Hc as [_ [Ta Tp]]. apply in_app_iff in Hrc'. destruct Hrc' as [Hd|[<-|[]]].
      + apply pc_trees_In in Ta. destruct Ta as [c0 [Hc0 E0]]. destruct (Hcov c0 rc' Hc0 Hd) as [c' [Hc' [E1 E2]]].
        exists c'. split; [|split; [congruence|exact E2]]. apply Hin. split; [left; exact Hc'|].
        assert (E : pc_root c' = pc_root c) by congruence. rewrite E. split; [apply pc_trees_In; eauto|exact Tp].
      + pose proof Tp as Tp'. apply pc_trees_In in Tp'. destruct Tp' as [c0 [Hc0 E0]].
        exists c0. split; [|split; [exact E0|apply Hrc; exact Hc0]]. apply Hin. split; [right; exact Hc0|].
        rewrite E0. split; [exact Ta|exact Tp].
  Qed.

  Lemma trees_loop_inv : forall res acc done,
    (forall x, In x res -> exists amount, In (fst x, amount) (g_resources g) /\
                                          snd x = get_providers_with_resource d (fst x) amount (rg_tree_root ctx)) ->
    (forall c, In c acc -> rpc_ok d rw g c) -> covers acc done -> (acc = [] -> done = []) ->
    (forall c, In c (trees_loop d rw ctx bad [] acc res) -> rpc_ok d rw g c) /\
    covers (trees_loop d rw ctx bad [] acc res) (done ++ map fst res).
  Proof.
    induction res as [|[rc with_inv] rest IH]; intros acc done Hres Hok Hcov Hnil; cbn [trees_loop map].
    - rewrite app_nil_r. auto.
    - assert (Hempty : (forall c, In c (@nil rpc) -> rpc_ok d rw g c) /\ covers [] (done ++ fst (rc, with_inv) :: map fst rest)).
      { split; [intros c []|intros c rc' []]. }
      destruct (Hres (rc, with_inv) (or_introl eq_refl)) as [amount [Hin Ew]]. cbn [fst snd] in Hin, Ew.
      destruct (trees_for_rc d rw ctx bad [] rc with_inv) as [|b0 bl] eqn:Ep; [exact Hempty|]. rewrite <- Ep in *.
      assert (Hp : forall c, In c (trees_for_rc d rw ctx bad [] rc with_inv) -> rpc_ok d rw g c /\ pc_rc c = rc).
      { intros c Hc. rewrite Ew in Hc. apply (trees_for_rc_ok rc amount c Hin Hc). }
      assert (Hne : trees_for_rc d rw ctx bad [] rc with_inv <> []) by (rewrite Ep; discriminate).
      destruct (merge_step acc _ done rc Hne (fun c Hc => proj2 (Hp c Hc)) Hcov Hnil) as [Hcov' Hsub].
      destruct (merge_common_trees acc (trees_for_rc d rw ctx bad [] rc with_inv)) as [|m0 ml] eqn:Em; [exact Hempty|].
      rewrite <- Em in *. cbn [fst]. replace (done ++ rc :: map fst rest) with ((done ++ [rc]) ++ map fst rest)
        by (rewrite <- app_assoc; reflexivity).
      apply IH.
      + intros x Hx. apply Hres. right. exact Hx.
      + intros c Hc. destruct (Hsub c Hc) as [H|H]; [apply Hok; exact H|apply Hp; exact H].
      + exact Hcov'.
      + rewrite Em. discriminate.
  Qed.

  (* ---------------------------------------------------------------- _get_trees_with_traits keeps whole trees *)
  Definition tree_cond (ids : list Z) (req : list (list Z)) (R : Z) : bool :=
    let good := map (fun u => (u, root_of d u)) ids in
    match req with
    | [] => memZ R (map snd good)
    | _ => forallb (fun any => existsb (fun t => existsb (fun x : Z * Z => (snd x =? R) && has_trait d (fst x) t) good) any) req
    end.
  Lemma gtwt_In ids req u R :
    In (u, R) (get_trees_with_traits d ids req) <-> In u ids /\ R = root_of d u /\ tree_cond ids req R = true.
  Proof.
    unfold get_trees_with_traits, tree_cond. cbv zeta.
    assert (Hor : forall x : Z * Z, In x (map (fun u0 => (u0, root_of d u0)) ids) <-> In (fst x) ids /\ snd x = root_of d (fst x)).
    { intros [a b]. rewrite in_map_iff. cbn [fst snd]. split; [intros [u0 [[= <- <-] H]]; auto|intros [H ->]; eauto]. }
    destruct req as [|r0 rs]; rewrite filter_In, Hor; cbn [fst snd]; tauto.
  Qed.
  Lemma pair_eqb_eq (a b : Z * Z) : pair_eqb a b = true <-> a = b.
  Proof.
    destruct a, b. unfold pair_eqb. cbn [fst snd]. rewrite andb_true_iff, !Z.eqb_eq. split; [intros [-> ->]; reflexivity|intros [= -> ->]; auto].
  Qed.

  Lemma gtma_char :
    (forall c, In c (get_trees_matching_all d rw ctx []) -> rpc_ok d rw g c) /\
    covers (get_trees_matching_all d rw ctx []) (map fst (g_resources g)).
  Proof.
    destruct (ctx_fields d g ctx Hctx) as [Eg [_ [_ Ewr]]]. unfold get_trees_matching_all. cbv zeta. rewrite Eg. fold bad.
    set (provs := trees_loop d rw ctx bad [] [] (rg_with_resource ctx)).
    assert (Hprovs : (forall c, In c provs -> rpc_ok d rw g c) /\ covers provs (map fst (g_resources g))).
    { assert (Emap : map fst (rg_with_resource ctx) = map fst (g_resources g)) by (rewrite Ewr, map_map; reflexivity).
      rewrite <- Emap. change (map fst (rg_with_resource ctx)) with ([] ++ map fst (rg_with_resource ctx)).
      apply trees_loop_inv.
      - intros x Hx. rewrite Ewr in Hx. apply in_map_iff in Hx. destruct Hx as [[rc amount] [<- Hin]]. cbn [fst snd].
        exists amount. auto.
      - intros c [].
      - intros c rc [].
      - reflexivity. }
    destruct Hprovs as [Hok Hcov].
    destruct (is_nil provs); [split; [intros c []|intros c rc []]|].
    cbn [is_nil negb]. rewrite orb_false_r. destruct (is_nil (g_required g) && is_nil (g_forbidden g)); [auto|].
    set (tuples := get_trees_with_traits d (pc_rps provs) (g_required g)).
    assert (Hin : forall c, In c (filter_by_rp provs tuples) <->
                    In c provs /\ tree_cond (pc_rps provs) (g_required g) (pc_root c) = true).
    { intro c. unfold filter_by_rp. rewrite filter_In, existsb_exists. split.
      - intros [Hc [x [Hx E]]]. apply pair_eqb_eq in E. subst x. apply gtwt_In in Hx. tauto.
      - intros [Hc Ht]. split; [exact Hc|]. exists (pc_rp c, pc_root c). split; [|apply pair_eqb_eq; reflexivity].
        apply gtwt_In. split; [apply pc_rps_In; eauto|]. split; [|exact Ht]. apply (Hok c Hc). }
    split.
    - intros c Hc. apply Hin in Hc. apply Hok. tauto.
    - intros c rc Hc Hrc. apply Hin in Hc. destruct Hc as [Hc Ht]. destruct (Hcov c rc Hc Hrc) as [c' [Hc' [E1 E2]]].
      exists c'. split; [|auto]. apply Hin. split; [exact Hc'|]. rewrite E1. exact Ht.
  Qed.

  (* ---------------------------------------------------------------- _alloc_candidates_multiple_providers *)
  Hypothesis Hrcs : NoDup (map fst (g_resources g)).

  Lemma combo_shape_gen (res : list (Z * Z)) (combo : list rreq) :
    Forall2 (fun rr x => rr = mkRreq (rr_rp rr) (fst x) (snd x)) combo res ->
    combo = map (fun px : Z * (Z * Z) => mkRreq (fst px) (fst (snd px)) (snd (snd px))) (combine (map rr_rp combo) res).
  Proof.
    induction 1 as [|rr x combo res E _ IH]; cbn [map combine]; [reflexivity|].
    cbn [fst snd]. rewrite <- E, <- IH. reflexivity.
  Qed.
  Lemma combo_shape_un R (combo : list rreq) :
    Forall2 (fun rr x => rr = mkRreq (rr_rp rr) (fst x) (snd x)) combo (g_resources g) ->
    combo = cr_rrs (un_creq R g (map rr_rp combo) []).
  Proof. intro H. unfold un_creq. cbn [cr_rrs]. apply combo_shape_gen. exact H. Qed.

  Lemma alloc_requests_for_tree_ok cands R c :
    (forall c0, In c0 cands -> rpc_ok d rw g c0) -> covers cands (map fst (g_resources g)) ->
    In R (pc_trees cands) ->
    In c (alloc_requests_for_tree d g cands R) -> un_cand d rw g c.
  Proof.
    intros Hok Hcov HR. unfold alloc_requests_for_tree. cbv zeta.
    set (here := filter (fun c0 => pc_root c0 =? R) cands).
    apply pc_trees_In in HR. destruct HR as [cR [HcR ER]].
    assert (Ercs : filter (fun rc => existsb (fun c0 => pc_rc c0 =? rc) here) (map fst (g_resources g)) = map fst (g_resources g)).
    { apply filter_all'. intros rc Hrc. destruct (Hcov cR rc HcR Hrc) as [c' [Hc' [E1 E2]]]. apply existsb_exists. exists c'.
      split; [|apply Z.eqb_eq; exact E2]. apply filter_In. split; [exact Hc'|]. apply Z.eqb_eq. congruence. }
    rewrite Ercs. intro H. apply in_flat_map in H. destruct H as [combo [Hprod H]].
    destruct (check_traits_for_alloc_request d (map rr_rp combo) (g_required g) (g_forbidden g)) eqn:Hchk; [|destruct H].
    destruct H as [<-|[]].
    apply in_product in Hprod.
    apply (proj1 (Forall2_map_r _ (fun rc => map (fun c0 => mkRreq (pc_rp c0) rc (amount_of g rc))
                                                 (filter (fun c0 => pc_rc c0 =? rc) here)) _ _)) in Hprod.
    apply (proj1 (Forall2_map_r _ fst _ _)) in Hprod.
    (* forbidden traits / required traits of the combination *)
    unfold check_traits_for_alloc_request in Hchk. apply andb_true_iff in Hchk. destruct Hchk as [Hforb Hreq].
    assert (Hforb' : forall u, In u (map rr_rp combo) -> has_some_trait d u (g_forbidden g) = false).
    { intros u Hu. rewrite has_some_trait_existsb. apply negb_true_iff in Hforb.
      destruct (existsb (has_trait d u) (g_forbidden g)) eqn:E; [|reflexivity].
      assert (existsb (fun u0 => existsb (has_trait d u0) (g_forbidden g)) (map rr_rp combo) = true)
        by (apply existsb_exists; eauto). congruence. }
    (* the slots *)
    assert (HF : Forall2 (fun rr x => rr = mkRreq (rr_rp rr) (fst x) (snd x) /\ ex d (rr_rp rr) /\ root_of d (rr_rp rr) = R /\
                                      pre_slot_ok d g R x (rr_rp rr) = true) combo (g_resources g)).
    { eapply Forall2_impl_In; [|exact Hprod]. cbv beta. intros rr x _ Hx Hrr. apply in_map_iff in Hrr.
      destruct Hrr as [c0 [<- Hc0]]. apply filter_In in Hc0. destruct Hc0 as [Hc0 Erc]. apply Z.eqb_eq in Erc.
      apply filter_In in Hc0. destruct Hc0 as [Hc0 Eroot]. apply Z.eqb_eq in Eroot.
      destruct (Hok c0 Hc0) as [Hex [Er [_ [_ [amount [Hin Hpre]]]]]]. cbn [rr_rp].
      assert (Ea : amount_of g (fst x) = snd x) by (unfold amount_of; rewrite (find_key_nodup _ x Hrcs Hx); reflexivity).
      assert (Eam : amount = snd x).
      { apply (nodup_keys_unique (g_resources g) (fst x) amount (snd x) Hrcs); [rewrite <- Erc; exact Hin|destruct x; exact Hx]. }
      rewrite Ea. split; [reflexivity|]. split; [exact Hex|]. split; [congruence|].
      rewrite Eroot, Erc, Eam in Hpre. destruct x; exact Hpre. }
    exists R, (map rr_rp combo), (dedup (map rr_rp combo)). split; [|split; [|split; [|split; [|split]]]].
    - apply Forall2_map_l. eapply Forall2_impl_In; [|exact HF]. cbv beta. intros rr x Hrr _ [_ [Hex [Er Hpre]]].
      split; [exact Hex|]. split; [exact Er|]. unfold pre_slot_ok in Hpre. unfold un_slot_ok.
      rewrite !andb_true_iff in Hpre. destruct Hpre as [[[P1 P2] P3] P4]. rewrite P1, P2, P3, P4.
      rewrite (Hforb' (rr_rp rr) (in_map rr_rp _ _ Hrr)). reflexivity.
    - rewrite forallb_forall in Hreq. apply forallb_forall. intros any Hany. specialize (Hreq any Hany).
      apply existsb_exists in Hreq. destruct Hreq as [t [Ht Hu]]. apply existsb_exists in Hu. destruct Hu as [u [Hu Htr]].
      apply existsb_exists. exists u. split; [exact Hu|]. apply has_some_trait_spec. eauto.
    - destruct (Hok cR HcR) as [_ [_ [H _]]]. rewrite ER in H. exact H.
    - destruct (Hok cR HcR) as [_ [_ [_ [H _]]]]. rewrite ER in H. exact H.
    - intro x. apply dedup_In.
    - unfold un_creq. f_equal. apply (combo_shape_un R). eapply Forall2_impl; [|exact HF]. cbv beta. tauto.
  Qed.

  (* ---------------------------------------------------------------- _get_by_one_request, unsuffixed group *)
  Lemma un_group_sound st l st' : use_same_provider g = false -> st_sharing st = [] ->
    rw_has_trees rw = has_provider_trees d -> g_resources g <> [] ->
    get_by_one_request d rw ctx st = RVal (l, st') ->
    st_sharing st' = [] /\ forall c, In c l -> un_cand d rw g c.
  Proof.
    intros Hu Hsh Htrees Hres. destruct (ctx_fields d g ctx Hctx) as [Eg _]. unfold get_by_one_request. rewrite Eg, Hu, Hsh.
    cbn [negb is_nil andb orb]. destruct (rw_has_trees rw) eqn:Et.
    - (* provider trees: resources spread over one tree *)
      destruct (negb (is_nil (g_required g)) && is_nil (get_provider_ids_having_any_trait d (concat (g_required g)))); [discriminate|].
      assert (Esh : (if is_nil (g_resources g) then [] else narrow_sharing ctx []) = @nil Z).
      { destruct (is_nil (g_resources g)); [reflexivity|]. unfold narrow_sharing. destruct (is_nil (rg_rps_in_aggs ctx)); reflexivity. }
      rewrite Esh. unfold alloc_candidates_multiple_providers.
      set (cands := get_trees_matching_all d rw ctx []). destruct (is_nil cands); [discriminate|].
      destruct (negb (forallb _ cands)); [discriminate|]. intros [= <- <-]. cbn [st_sharing]. split; [reflexivity|].
      intros c Hc. apply in_flat_map in Hc. destruct Hc as [R [HR Hc]]. rewrite Eg in Hc.
      destruct gtma_char as [Hok Hcov]. eapply alloc_requests_for_tree_ok; eassumption.
    - (* no provider trees at all: every resource on one provider *)
      unfold alloc_candidates_single_provider. cbv zeta.
      destruct (is_nil (get_provider_ids_matching d ctx)); [intro H; discriminate H|]. intros [= <- <-]. cbn [st_sharing].
      split; [reflexivity|]. intros c Hc. apply in_flat_map in Hc. destruct Hc as [[p root] [Ht Hc]].
      apply (matching_char d Hnd g ctx Hctx) in Ht. cbn [fst snd] in *. destruct Ht as [Hex [Eroot Hok]].
      rewrite (no_sharing_trait d p Hns Hex), app_nil_r in Hc. rewrite Eg in Hc.
      destruct (in_filtered_anchors rw root) eqn:Ea; [|destruct Hc]. destruct Hc as [<-|[]].
      (* p is its own root *)
      pose proof Hex as Hex'. unfold ex in Hex'. apply in_map_iff in Hex'. destruct Hex' as [r [Eu Hr]].
      assert (Erp : root_of d p = p).
      { rewrite <- Eu, (root_of_row d Hwf r Hr). apply Hpr; [exact Hr|]. unfold has_provider_trees in Htrees.
        destruct (rp_parent r) eqn:Epar; [|reflexivity]. exfalso.
        assert (existsb (fun r0 => match rp_parent r0 with Some _ => true | None => false end) (rps d) = true)
          by (apply existsb_exists; exists r; rewrite Epar; auto). congruence. }
      unfold suffixed_ok in Hok. rewrite !andb_true_iff in Hok. destruct Hok as [[[[[K1 K2] K3] K4] K5] K6].
      exists root, (map (fun _ : Z * Z => p) (g_resources g)), [p]. rewrite Eroot in *.
      assert (Hps : forall x, In x (map (fun _ : Z * Z => p) (g_resources g)) <-> x = p).
      { intro x. rewrite in_map_iff. split; [intros [y [<- _]]; reflexivity|]. intros ->.
        destruct (g_resources g) as [|y l0]; [contradiction Hres; reflexivity|]. exists y. split; [reflexivity|left; reflexivity]. }
      split; [|split; [|split; [|split; [|split]]]].
      + apply Forall2_map_self. intros x Hx. split; [exact Hex|]. split; [reflexivity|]. unfold un_slot_ok.
        rewrite forallb_forall in K1. rewrite (K1 x Hx), K3, K6. cbn [andb].
        unfold member_of_via_root, agg_via_root. rewrite K4, Erp. cbn [orb]. apply negb_true_iff in K5. rewrite K5.
        rewrite andb_false_r. reflexivity.
      + apply forallb_forall. intros any Hany. rewrite forallb_forall in K2. apply existsb_exists. exists p.
        split; [apply Hps; reflexivity|apply K2; exact Hany].
      + rewrite <- Eu, (root_of_row d Hwf r Hr). apply (proj2 Hwf). exact Hr.
      + exact Ea.
      + intro x. rewrite Hps. cbn [In]. split; [intros [<-|[]]; reflexivity|intros ->; left; reflexivity].
      + unfold allocation_request_for_provider, un_creq. f_equal.
        clear. induction (g_resources g) as [|x l0 IH]; cbn [map combine]; [reflexivity|]. rewrite <- IH. reflexivity.
  Qed.

  (* ---------------------------------------------------------------- no KeyError without sharing providers *)
  Lemma un_no_keyerror st : use_same_provider g = false -> st_sharing st = [] ->
    get_by_one_request d rw ctx st <> RKeyError.
  Proof.
    intros Hu Hsh. destruct (ctx_fields d g ctx Hctx) as [Eg _]. unfold get_by_one_request. rewrite Eg, Hu, Hsh.
    cbn [negb is_nil andb orb]. destruct (rw_has_trees rw).
    - destruct (negb (is_nil (g_required g)) && is_nil (get_provider_ids_having_any_trait d (concat (g_required g)))); [discriminate|].
      assert (Esh : (if is_nil (g_resources g) then [] else narrow_sharing ctx []) = @nil Z).
      { destruct (is_nil (g_resources g)); [reflexivity|]. unfold narrow_sharing. destruct (is_nil (rg_rps_in_aggs ctx)); reflexivity. }
      rewrite Esh. unfold alloc_candidates_multiple_providers.
      set (cands := get_trees_matching_all d rw ctx []). destruct (is_nil cands); [discriminate|].
      set (built' := build_provider_summaries d (st_built st) (unionZ (pc_rps cands) (pc_trees cands))).
      assert (Hall : forallb (fun c => memZ (root_of d (pc_rp c)) built') cands = true).
      { apply forallb_forall. intros c Hc. apply memZ_In. destruct (proj1 gtma_char c Hc) as [_ [Er [Hisr _]]].
        rewrite <- Er. apply built_root; [|exact Hisr]. apply unionZ_In. right. apply pc_trees_In. eauto. }
      rewrite Hall. cbn [negb]. discriminate.
    - unfold alloc_candidates_single_provider. cbv zeta.
      destruct (is_nil (get_provider_ids_matching d ctx)); intro H; discriminate H.
  Qed.
End Unsuffixed.

(* ================================================================ the query *)
(* the resource classes of the unsuffixed group are distinct (resources is a dict keyed by class name) *)
Definition un_rcs_nodup (q : query) : Prop := NoDup (map fst (un_resources q)).

Lemma query_wf_un v q g0 : query_wf v q = true -> unsuffixed_group q = Some g0 ->
  g_resources g0 <> [] /\ forall sfx, In sfx (qy_same_subtree q) -> memZ 0 sfx = false.
Proof.
  intros H Hun. apply find_some in Hun. destruct Hun as [Hin Es]. apply Z.eqb_eq in Es.
  unfold query_wf in H. cbv zeta in H.
  repeat match type of H with (_ && _ = true) => let H' := fresh "W" in apply andb_true_iff in H; destruct H as [H H'] end.
  assert (Hsst : memZ 0 (concat (qy_same_subtree q)) = false).
  { match goal with X : negb (memZ 0 _) = true |- _ => apply negb_true_iff in X; exact X end. }
  split.
  - assert (Hr : negb (is_nil (g_resources g0)) = true).
    { destruct (36 <=? v).
      - match goal with X : (_ && _ && _) = true |- _ => apply andb_true_iff in X; destruct X as [X _];
          apply andb_true_iff in X; destruct X as [_ X]; rewrite forallb_forall in X; specialize (X g0 Hin) end.
        match goal with X : (negb (is_nil (g_resources g0)) || _) = true |- _ => rewrite Es, Hsst, orb_false_r in X; exact X end.
      - match goal with X : forallb (fun g => negb (is_nil (g_resources g))) _ = true |- _ =>
          rewrite forallb_forall in X; exact (X g0 Hin) end. }
    intro E. rewrite E in Hr. discriminate.
  - intros sfx Hs. destruct (memZ 0 sfx) eqn:E; [|reflexivity]. apply memZ_In in E.
    assert (In 0 (concat (qy_same_subtree q))) by (apply in_concat; eauto). apply memZ_In in H0. congruence.
Qed.

Lemma groups_split q g0 : NoDup (map g_suffix (qy_groups q)) -> unsuffixed_group q = Some g0 ->
  exists pre post, qy_groups q = pre ++ g0 :: post /\
    (forall g, In g pre -> use_same_provider g = true) /\ (forall g, In g post -> use_same_provider g = true) /\
    suffixed_groups q = pre ++ post /\ g_suffix g0 = 0.
Proof.
  intros Hnd Hun. apply find_some in Hun. destruct Hun as [Hin Es]. apply Z.eqb_eq in Es.
  apply in_split in Hin. destruct Hin as [pre [post E]]. exists pre, post. rewrite E in Hnd.
  rewrite map_app in Hnd. cbn [map] in Hnd. apply NoDup_remove_2 in Hnd. rewrite Es in Hnd.
  assert (Hp : forall g, In g pre \/ In g post -> use_same_provider g = true).
  { intros g Hg. unfold use_same_provider. apply negb_true_iff. destruct (g_suffix g =? 0) eqn:E0; [|reflexivity].
    apply Z.eqb_eq in E0. exfalso. apply Hnd. rewrite <- E0. apply in_app_iff.
    destruct Hg as [Hg|Hg]; [left|right]; apply in_map; exact Hg. }
  split; [exact E|]. split; [intros; apply Hp; auto|]. split; [intros; apply Hp; auto|]. split; [|exact Es].
  unfold suffixed_groups. rewrite E, filter_app. cbn [filter]. unfold use_same_provider at 2. rewrite Es. cbn [Z.eqb negb].
  rewrite !filter_all'; [reflexivity| |]; intros; apply Hp; auto.
Qed.

Lemma anchor_traits_ok d q anchors b1 b2 pol sst R : process_anchor_traits d q = RVal anchors ->
  in_filtered_anchors (mkRwCtx b1 b2 anchors pol sst) R = true ->
  forallb (has_trait d R) (qy_root_required q) = true /\ negb (existsb (has_trait d R) (qy_root_forbidden q)) = true.
Proof.
  intros Hanch Hfa. unfold process_anchor_traits in Hanch.
  destruct (is_nil (qy_root_required q) && is_nil (qy_root_forbidden q)) eqn:En.
  - apply andb_true_iff in En. destruct En as [E1 E2].
    destruct (qy_root_required q); [|discriminate]. destruct (qy_root_forbidden q); [|discriminate]. auto.
  - destruct (negb _); [discriminate|]. destruct (get_roots_with_traits d _ _) as [|z zs] eqn:Eg; [discriminate|].
    injection Hanch as <-. unfold in_filtered_anchors in Hfa. cbn [rw_anchor_root_ids] in Hfa. apply memZ_In in Hfa.
    rewrite <- Eg in Hfa. unfold get_roots_with_traits in Hfa. apply in_map_iff in Hfa. destruct Hfa as [r [<- Hr]].
    apply filter_In in Hr. destruct Hr as [_ Hr]. rewrite !andb_true_iff in Hr. tauto.
Qed.
Lemma anchor_traits_nonempty d q anchors : process_anchor_traits d q = RVal anchors -> anchors <> Some [].
Proof.
  unfold process_anchor_traits. destruct (_ && _); [intros [= <-]; discriminate|]. destruct (negb _); [discriminate|].
  destruct (get_roots_with_traits d _ _); [discriminate|]. intros [= <-]. discriminate.
Qed.

Lemma is_root_tree_roots d R : is_root d R = true -> In R (tree_roots d).
Proof.
  unfold is_root. destruct (find_rp d R) as [r|] eqn:F; [|discriminate]. intro E.
  pose proof (find_rp_l_Some _ _ _ F) as [Hr Eu]. unfold tree_roots. apply in_map_iff. exists r. split; [exact Eu|].
  apply filter_In. split; [exact Hr|]. rewrite Eu. exact E.
Qed.

Lemma filter_count_F2 {A} (P : rgroup -> bool) (R : A -> rgroup -> Prop) (f : A -> rgroup) l gs :
  Forall2 (fun a g => f a = g /\ R a g) l gs -> length (filter (fun a => P (f a)) l) = length (filter P gs).
Proof.
  induction 1 as [|a g l gs [E _] _ IH]; [reflexivity|]. cbn [filter]. rewrite E. destruct (P g); cbn [length]; rewrite IH; reflexivity.
Qed.

Lemma combine_app {A B} (l1 l2 : list A) (m1 m2 : list B) : length l1 = length m1 ->
  combine (l1 ++ l2) (m1 ++ m2) = combine l1 m1 ++ combine l2 m2.
Proof.
  revert m1. induction l1 as [|x l1 IH]; intros [|y m1] E; cbn [length] in E; try discriminate; cbn [app combine]; [reflexivity|].
  rewrite IH; [reflexivity|lia].
Qed.

(* ================================================================ the groups loop *)
Definition cand_of (d : db) (rw : rw_ctx) (g : rgroup) (c : creq) : Prop :=
  if use_same_provider g then group_cand d rw g c else un_cand d rw g c.

Section LoopU.
  Variable d : db.
  Hypothesis Hwf : rps_wf d.
  Hypothesis Hns : no_sharing d.
  Hypothesis Hpr : parentless_root d.
  Variable rw : rw_ctx.
  Hypothesis Hanch : rw_anchor_root_ids rw <> Some [].
  Hypothesis Htrees : rw_has_trees rw = has_provider_trees d.

  Lemma suffixed_keeps_sharing g ctx st l st' : use_same_provider g = true -> rg_group ctx = g ->
    get_by_one_request d rw ctx st = RVal (l, st') -> st_sharing st' = st_sharing st.
  Proof.
    intros Hg Eg. unfold get_by_one_request. rewrite Eg, Hg. cbn [negb andb].
    destruct (alloc_candidates_single_provider d rw ctx (st_built st) (get_provider_ids_matching d ctx)) as [[l0 b]| | |];
      try discriminate. intros [= <- <-]. reflexivity.
  Qed.

  Lemma groups_loop_sound_u : forall gs st acc cands st',
    st_sharing st = [] ->
    (forall g, In g gs -> use_same_provider g = false -> NoDup (map fst (g_resources g)) /\ g_resources g <> []) ->
    groups_loop d rw st gs acc = RVal (cands, st') ->
    exists l2, cands = rev acc ++ l2 /\
               Forall2 (fun gl g => fst gl = g /\ forall c, In c (snd gl) -> cand_of d rw g c) l2 gs.
  Proof.
    induction gs as [|g gs IH]; intros st acc cands st' Hsh Hun; cbn [groups_loop].
    - intros [= <- _]. exists []. rewrite app_nil_r. split; [reflexivity|constructor].
    - destruct (mk_rg_ctx d g) as [ctx| | |] eqn:Ec; try discriminate.
      destruct (get_by_one_request d rw ctx st) as [[l st1]| | |] eqn:E1; try discriminate.
      destruct l as [|c0 l0] eqn:El; [discriminate|]. rewrite <- El in *. intro H.
      assert (Hstep : st_sharing st1 = [] /\ forall c, In c l -> cand_of d rw g c).
      { unfold cand_of. destruct (use_same_provider g) eqn:Hg.
        - split; [|eapply one_group_sound; eassumption].
          rewrite <- Hsh. apply (suffixed_keeps_sharing g ctx st l st1 Hg); [|exact E1].
          apply (mk_rg_ctx_ok d Hwf g ctx Ec).
        - destruct (Hun g (or_introl eq_refl) Hg) as [Hnd Hne].
          apply (un_group_sound d Hwf Hns Hpr g ctx rw Ec Hanch Hnd st l st1 Hg Hsh Htrees Hne E1). }
      destruct Hstep as [Hsh1 Hl].
      destruct (IH st1 ((g, l) :: acc) cands st' Hsh1 (fun g' Hg' => Hun g' (or_intror Hg')) H) as [l2 [-> HF]].
      exists ((g, l) :: l2). split; [cbn [rev]; rewrite <- app_assoc; reflexivity|]. constructor; [|assumption].
      cbn [fst snd]. split; [reflexivity|exact Hl].
  Qed.
End LoopU.

(* ================================================================ consolidation with the unsuffixed group *)
Section MergeU.
  Variable d : db.

  Lemma un_creq_rrs R g ps m :
    cr_rrs (un_creq R g ps m) =
    map to_rr (map (fun px : Z * (Z * Z) => (fst px, fst (snd px), snd (snd px))) (combine ps (g_resources g))).
  Proof. unfold un_creq. cbn [cr_rrs]. rewrite map_map. apply map_ext. intros [p [rc a]]. reflexivity. Qed.

  Lemma consolidate_un q an g0 pre post ps0 m pspre pspost :
    unsuffixed_group q = Some g0 -> suffixed_groups q = pre ++ post -> g_suffix g0 = 0 ->
    NoDup (map g_suffix (pre ++ g0 :: post)) ->
    length pspre = length pre -> length pspost = length post -> (forall x, In x m <-> In x ps0) ->
    let c1 := consolidate_allocation_requests (asg_creqs d pspre pre ++ un_creq an g0 ps0 m :: asg_creqs d pspost post) in
    let asg := mkAsg an ps0 (pspre ++ pspost) in
    (forall y, In y (cr_rrs c1) <-> In y (summed q asg)) /\ same_creq c1 (creq_of q asg) = true.
  Proof.
    intros Hun Hsg Es Hnd L1 L2 Hm c1 asg.
    assert (Hrr : forall y, In y (cr_rrs c1) <-> In y (summed q asg)).
    { unfold c1, consolidate_allocation_requests. cbn [cr_rrs]. rewrite flat_map_app. cbn [flat_map]. unfold asg_creqs.
      rewrite !rrs_of_pairs, un_creq_rrs, <- !map_app, fold_add_rr_sum_into.
      unfold summed, placements, un_resources. rewrite Hun, Hsg. cbn [as_un as_suff asg].
      rewrite (combine_app _ _ _ _ L1), flat_map_app. apply fold_sum_into_perm_In. apply Permutation_app_swap_app. }
    split; [exact Hrr|]. unfold same_creq. apply andb_true_iff. split.
    - apply same_rrs_of_In. exact Hrr.
    - assert (E1 : cr_maps c1 =
                   map (fun pg : Z * rgroup => (g_suffix (snd pg), [fst pg])) (combine pspre pre)
                   ++ (g_suffix g0, m) :: map (fun pg : Z * rgroup => (g_suffix (snd pg), [fst pg])) (combine pspost post)).
      { unfold c1, consolidate_allocation_requests. cbn [cr_maps]. rewrite flat_map_app. cbn [flat_map]. unfold asg_creqs.
        rewrite !maps_of_pairs. cbn [un_creq cr_maps app]. rewrite fold_add_map_new; [reflexivity|]. cbn [app].
        rewrite map_app. cbn [map fst]. rewrite !map_map. cbn [fst].
        rewrite <- !(map_map snd g_suffix), !combine_snd by assumption. rewrite map_app in Hnd. exact Hnd. }
      assert (E2 : cr_maps (creq_of q asg) =
                   (0, dedup ps0) :: map (fun pg : Z * rgroup => (g_suffix (snd pg), [fst pg])) (combine pspre pre)
                   ++ map (fun pg : Z * rgroup => (g_suffix (snd pg), [fst pg])) (combine pspost post)).
      { unfold creq_of. rewrite Hun, Hsg. cbn [cr_maps as_un as_suff asg app]. rewrite (combine_app _ _ _ _ L1), map_app. reflexivity. }
      rewrite E1, E2, Es.
      set (A := map (fun pg : Z * rgroup => (g_suffix (snd pg), [fst pg])) (combine pspre pre)).
      set (B := map (fun pg : Z * rgroup => (g_suffix (snd pg), [fst pg])) (combine pspost post)).
      assert (Hd : forall x, In x m <-> In x (dedup ps0)) by (intro x; rewrite dedup_In; apply Hm).
      unfold same_maps. apply andb_true_iff. split; apply forallb_forall; intros kv Hkv.
      + apply in_app_iff in Hkv. destruct Hkv as [Hkv|[<-|Hkv]].
        * apply map_in_self. right. apply in_app_iff. auto.
        * apply (map_in_seteq _ 0 m (dedup ps0) Hd). left. reflexivity.
        * apply map_in_self. right. apply in_app_iff. auto.
      + destruct Hkv as [<-|Hkv].
        * apply (map_in_seteq _ 0 (dedup ps0) m); [intro x; symmetry; apply Hd|]. apply in_app_iff. right. left. reflexivity.
        * apply map_in_self. apply in_app_iff in Hkv. apply in_app_iff. destruct Hkv; [left|right; right]; assumption.
  Qed.

  Lemma subtree_lists_un sfx an g0 ps0 m pspre pre pspost post :
    g_suffix g0 = 0 -> memZ 0 sfx = false -> length pspre = length pre ->
    flat_map (fun c => flat_map (fun kv : Z * list Z => if memZ (fst kv) sfx then snd kv else []) (cr_maps c))
             (asg_creqs d pspre pre ++ un_creq an g0 ps0 m :: asg_creqs d pspost post) =
    flat_map (fun pg : Z * rgroup => if memZ (g_suffix (snd pg)) sfx then [fst pg] else []) (combine (pspre ++ pspost) (pre ++ post)).
  Proof.
    intros Es H0 L1. rewrite flat_map_app. cbn [flat_map]. unfold asg_creqs. rewrite !subtree_lists.
    cbn [un_creq cr_maps flat_map fst snd]. rewrite Es, H0. cbn [app]. rewrite (combine_app _ _ _ _ L1), flat_map_app. reflexivity.
  Qed.
End MergeU.

(* ================================================================ the theorem *)
Lemma compose_suffixed d rw an (kl : list (rgroup * creq)) (cl : list (rgroup * list creq)) gs :
  (forall g, In g gs -> use_same_provider g = true) ->
  Forall2 (fun gc gl => fst gc = fst gl /\ In (snd gc) (snd gl) /\ cr_anchor (snd gc) = an) kl cl ->
  Forall2 (fun gl g => fst gl = g /\ forall c, In c (snd gl) -> cand_of d rw g c) cl gs ->
  Forall2 (fun gc g => fst gc = g /\ use_same_provider g = true /\ group_cand d rw g (snd gc) /\ cr_anchor (snd gc) = an) kl gs.
Proof.
  intros Hall H1 H2. pose proof (Forall2_compose _ _ _ _ _ H1 H2) as H. eapply Forall2_impl_In; [|exact H]. cbv beta.
  intros gc g _ Hg [gl [[E1 [Hi Ha]] [E2 Hc]]]. specialize (Hc _ Hi). unfold cand_of in Hc. rewrite (Hall g Hg) in Hc.
  repeat split; try congruence; auto.
Qed.

Theorem c03_no_sharing_sound : forall v q d a s,
  rps_wf d -> no_sharing d -> parentless_root d -> caps_nonneg d ->
  un_rcs_nodup q ->
  candidates v q d = COk a s ->
  forall c, In c a -> exists c', In c' (map (creq_view v) (spec_candidates v q d)) /\ same_creq c c' = true.
Proof.
  intros v q d a s Hwf Hns Hpr Hcap Hrcs Hcand c Hc.
  destruct (unsuffixed_group q) as [g0|] eqn:Hun.
  2:{ (* every group is suffixed *)
      apply (c03_suffixed_only_sound v q d a s Hwf Hns Hpr Hcap); try assumption.
      intros g Hg. unfold unsuffixed_group in Hun. pose proof (find_none _ _ Hun g Hg) as H. cbv beta in H.
      unfold use_same_provider. rewrite H. reflexivity. }
  destruct (candidates_inv v q d a s Hcand) as [Hqwf [->|[anchors [cands [st [Hanch [Hloop Hfin]]]]]]]; [destruct Hc|].
  set (rw := mkRwCtx (has_provider_trees d) (29 <=? v) anchors (qy_policy q) (qy_same_subtree q)) in *.
  assert (Hsfx : NoDup (map g_suffix (qy_groups q))).
  { apply dedup_length_nodup. apply lenZ_eq. apply (query_wf_facts v q Hqwf). }
  destruct (groups_split q g0 Hsfx Hun) as [pre [post [Egs [Hpre [Hpost [Hsg Es]]]]]].
  destruct (query_wf_un v q g0 Hqwf Hun) as [Hres0 Hsst0].
  assert (Eres : un_resources q = g_resources g0) by (unfold un_resources; rewrite Hun; reflexivity).
  assert (Hu0 : use_same_provider g0 = false) by (unfold use_same_provider; rewrite Es; reflexivity).
  (* the per-group candidate lists *)
  assert (Hunq : forall g, In g (qy_groups q) -> use_same_provider g = false ->
                           NoDup (map fst (g_resources g)) /\ g_resources g <> []).
  { intros g Hg Hu. assert (g = g0).
    { rewrite Egs in Hg. apply in_app_iff in Hg.
      destruct Hg as [Hg|[Hg|Hg]]; [rewrite (Hpre g Hg) in Hu; discriminate|auto|rewrite (Hpost g Hg) in Hu; discriminate]. }
    subst g. split; [unfold un_rcs_nodup in Hrcs; rewrite Eres in Hrcs; exact Hrcs|exact Hres0]. }
  destruct (groups_loop_sound_u d Hwf Hns Hpr rw (anchor_traits_nonempty d q anchors Hanch) eq_refl
              (qy_groups q) (mkRwState (get_sharing_providers d) []) [] cands st Hns Hunq Hloop) as [l2 [Ecands HF0]].
  cbn [rev app] in Ecands. subst l2.
  pose proof HF0 as HF. rewrite Egs in HF.
  apply Forall2_app_inv_r in HF. destruct HF as [cpre [cmid [HFcpre [HFcmid Ecs]]]].
  inversion HFcmid as [|gl0 g0' cpost post' [Egl0 Hgl0] HFcpost]; subst g0' post' cmid.
  (* the candidate c *)
  unfold finish_requests, transform in Hfin.
  set (mc := merge_candidates d (st_built st) (merge_combos d rw cands)) in *.
  assert (Hmc : forall c1, In c1 (fst mc) -> exists combo, In combo (merge_combos d rw cands) /\
                  c1 = consolidate_allocation_requests combo /\ exceeds_capacity d c1 = false).
  { intros c1 H1. unfold mc, merge_candidates in H1.
    set (l := dedup_by same_creq _) in H1.
    assert (H1' : In c1 l) by (destruct l; [destruct H1|exact H1]).
    unfold l in H1'. apply dedup_by_In in H1'. apply filter_In in H1'. destruct H1' as [H1' Hx].
    apply in_map_iff in H1'. destruct H1' as [combo [<- Hcombo]]. exists combo. repeat split; try assumption.
    apply negb_true_iff. exact Hx. }
  injection Hfin as <- _. apply in_map_iff in Hc. destruct Hc as [c1 [<- Hc1]].
  assert (Hkept : In c1 (fst mc) /\
            ((29 <=? v) || negb (has_provider_trees d) = true \/
             lenZ (dedup (map rr_rp (cr_rrs c1))) = lenZ (dedup (map (root_of d) (dedup (map rr_rp (cr_rrs c1))))))).
  { unfold exclude_nested_providers in Hc1. cbn [rw_nested_aware rw_has_trees rw] in Hc1.
    destruct ((29 <=? v) || negb (has_provider_trees d)) eqn:E.
    - destruct mc. split; [exact Hc1|left; reflexivity].
    - cbn [fst] in Hc1. apply filter_In in Hc1. destruct Hc1 as [H1 H2]. split; [exact H1|right]. apply Z.eqb_eq. exact H2. }
  destruct Hkept as [Hin1 Hkept]. destruct (Hmc c1 Hin1) as [combo [Hcombo [Ec1 Hexc]]].
  destruct (merge_combos_inv d rw cands combo Hcombo) as [an [combo' [Ecombo [HF' [Hpol Hsst]]]]].
  (* the combination, group by group *)
  pose proof HF' as HFk. rewrite Ecs in HFk.
  apply Forall2_app_inv_r in HFk. destruct HFk as [kpre [kmid [HFkpre [HFkmid Eks]]]].
  inversion HFkmid as [|k0 gl0' kpost cpost' [Ek0 [Hk0in Hk0a]] HFkpost]; subst gl0' cpost' kmid.
  pose proof (compose_suffixed d rw an kpre cpre pre Hpre HFkpre HFcpre) as HF2pre.
  pose proof (compose_suffixed d rw an kpost cpost post Hpost HFkpost HFcpost) as HF2post.
  destruct (combo_shape' d rw an kpre pre HF2pre) as [pspre [Esndpre [Efirstpre HFppre]]].
  destruct (combo_shape' d rw an kpost post HF2post) as [pspost [Esndpost [Efirstpost HFppost]]].
  assert (L1 : length pspre = length pre) by (eapply Forall2_length; exact HFppre).
  assert (L2 : length pspost = length post) by (eapply Forall2_length; exact HFppost).
  (* the member of the unsuffixed group *)
  assert (Hk0 : un_cand d rw g0 (snd k0)).
  { specialize (Hgl0 _ Hk0in). unfold cand_of in Hgl0. rewrite Hu0 in Hgl0. exact Hgl0. }
  destruct Hk0 as [R [ps0 [m [HFun [Hreq [HisR [HfaR [Hm Ec0]]]]]]]].
  assert (ER : R = an) by (rewrite Ec0 in Hk0a; exact Hk0a). subst R.
  assert (Ecomb : combo = asg_creqs d pspre pre ++ un_creq an g0 ps0 m :: asg_creqs d pspost post).
  { rewrite Ecombo, Eks, map_app. cbn [map]. rewrite Esndpre, Esndpost, Ec0. reflexivity. }
  assert (Hsfx' : NoDup (map g_suffix (pre ++ g0 :: post))) by (rewrite <- Egs; exact Hsfx).
  set (asg := mkAsg an ps0 (pspre ++ pspost)).
  destruct (consolidate_un d q an g0 pre post ps0 m pspre pspost Hun Hsg Es Hsfx' L1 L2 Hm) as [Hrr Hsame].
  rewrite <- Ecomb, <- Ec1 in Hrr, Hsame. fold asg in Hrr, Hsame.
  assert (HFp : Forall2 (fun p g => ex d p /\ suffixed_ok d g p = true /\ in_filtered_anchors rw (root_of d p) = true /\ root_of d p = an)
                        (pspre ++ pspost) (pre ++ post)) by (apply Forall2_app; assumption).
  assert (Hps_ex : forall p, In p ps0 \/ In p (pspre ++ pspost) -> ex d p /\ root_of d p = an).
  { intros p [Hp|Hp].
    - destruct (Forall2_In_l _ _ _ _ HFun Hp) as [x [_ H]]. tauto.
    - destruct (Forall2_In_l _ _ _ _ HFp Hp) as [g [_ H]]. tauto. }
  assert (Hprov : forall x, In x (summed q asg) -> In (rr_rp x) ps0 \/ In (rr_rp x) (pspre ++ pspost)).
  { intros x Hx. apply (creq_of_providers q asg (rr_rp x)). unfold creq_providers. apply in_app_iff. left. apply in_map. exact Hx. }
  (* the assignment is admissible *)
  assert (Hadm : admissible v q d asg).
  { unfold admissible. cbn [as_anchor as_un as_suff asg]. rewrite Hun, Hsg.
    split; [apply is_root_tree_roots; exact HisR|]. split; [|split].
    - eapply Forall2_impl; [|exact HFun]. cbv beta. intros p x [Hex [Er Hok]]. split; [|exact Hok].
      split; [exact Hex|]. unfold avail. rewrite Er, Z.eqb_refl. reflexivity.
    - eapply Forall2_impl; [|exact HFp]. cbv beta. intros p g [Hex [Hok [_ Er]]]. split; [|exact Hok].
      split; [exact Hex|]. unfold avail. rewrite Er, Z.eqb_refl. reflexivity.
    - unfold asg_ok. cbn [as_anchor as_un as_suff asg]. rewrite Hun, Hsg. rewrite !andb_true_iff.
      destruct (anchor_traits_ok d q anchors _ _ _ _ an Hanch HfaR) as [A1 A2].
      split; [split; [split; [split; [split; [split|]|]|]|]|].
      + exact A1.
      + exact A2.
      + exact Hreq.
      + (* group_policy *)
        cbn [rw_policy rw] in Hpol. destruct (qy_policy q); try reflexivity. cbn [satisfies_group_policy] in Hpol.
        change (lenZ (dedup (flat_map first_mapping combo')) =? lenZ (filter (fun gl => use_same_provider (fst gl)) cands) = true) in Hpol.
        assert (Efm : flat_map first_mapping combo' = pspre ++ pspost).
        { rewrite Eks, flat_map_app. cbn [flat_map]. rewrite Efirstpre, Efirstpost. unfold first_mapping at 1.
          rewrite Ek0, Egl0, Hu0. reflexivity. }
        rewrite Efm in Hpol. apply Z.eqb_eq in Hpol. apply NoDup_nodupZ. apply dedup_length_nodup. apply lenZ_eq in Hpol.
        rewrite Hpol.
        rewrite (filter_count_F2 use_same_provider (fun gl g => forall c0, In c0 (snd gl) -> cand_of d rw g c0) fst cands (qy_groups q) HF0).
        change (filter use_same_provider (qy_groups q)) with (suffixed_groups q). rewrite Hsg, !app_length, L1, L2. reflexivity.
      + (* same_subtree *)
        cbn [rw_same_subtrees rw] in Hsst. unfold satisfies_same_subtree in Hsst. rewrite forallb_forall in Hsst.
        apply forallb_forall. intros sfx Hs. specialize (Hsst sfx Hs). rewrite Ecomb in Hsst.
        rewrite (subtree_lists_un d sfx an g0 ps0 m pspre pre pspost post Es (Hsst0 sfx Hs) L1) in Hsst.
        apply subtree_same. exact Hsst.
      + (* capacity and max_unit of the summed amounts *)
        apply forallb_forall. intros x Hx. unfold exceeds_capacity in Hexc.
        assert (Hfx : match find_inv d (rr_rp x) (rr_rc x) with
                      | Some i => (cap_trunc i <? usage d (rr_rp x) (rr_rc x) + rr_amt x) || (i_max i <? rr_amt x)
                      | None => true end = false).
        { destruct (match find_inv d (rr_rp x) (rr_rc x) with Some i => _ | None => true end) eqn:E; [|reflexivity].
          assert (existsb (fun x0 => match find_inv d (rr_rp x0) (rr_rc x0) with
                     | Some i => (cap_trunc i <? usage d (rr_rp x0) (rr_rc x0) + rr_amt x0) || (i_max i <? rr_amt x0)
                     | None => true end) (cr_rrs c1) = true) by (apply existsb_exists; exists x; split; [apply Hrr; exact Hx|exact E]).
          congruence. }
        destruct (find_inv d (rr_rp x) (rr_rc x)) as [i|] eqn:Fi; [|discriminate].
        apply orb_false_iff in Hfx. destruct Hfx as [H1 H2]. apply Z.ltb_ge in H1, H2.
        apply find_inv_l_Some' in Fi. destruct Fi as [Hi _]. rewrite (cap_trunc_floor i (Hcap i Hi)) in H1.
        apply andb_true_iff. split; apply Z.leb_le; lia.
      + (* before 1.29: one provider per tree *)
        destruct (29 <=? v) eqn:Ev; [reflexivity|]. cbn [orb].
        assert (Hperm : Permutation (dedup (map rr_rp (cr_rrs c1))) (dedup (map rr_rp (summed q asg)))).
        { apply NoDup_Permutation; try apply NoDup_dedup'. intro u. rewrite !dedup_In, !in_map_iff.
          split; intros [x [E Hx]]; exists x; (split; [exact E|apply Hrr; exact Hx]). }
        cbn [orb] in Hkept. destruct Hkept as [Hk|Hk].
        * (* no nested providers at all: every provider is its own root *)
          apply negb_true_iff in Hk. apply NoDup_nodupZ.
          assert (Hid : map (root_of d) (dedup (map rr_rp (summed q asg))) = dedup (map rr_rp (summed q asg))).
          { rewrite <- (map_id (dedup (map rr_rp (summed q asg)))) at 2. apply map_ext_in. intros u Hu.
            apply (proj1 (dedup_In _ _)) in Hu. apply in_map_iff in Hu. destruct Hu as [x [<- Hx]].
            destruct (Hps_ex (rr_rp x) (Hprov x Hx)) as [Hex _]. unfold ex in Hex. apply in_map_iff in Hex.
            destruct Hex as [r [Eu Hr]]. rewrite <- Eu. rewrite (root_of_row d Hwf r Hr). apply Hpr; [exact Hr|].
            unfold has_provider_trees in Hk. destruct (rp_parent r) eqn:Epar; [|reflexivity]. exfalso.
            assert (existsb (fun r0 => match rp_parent r0 with Some _ => true | None => false end) (rps d) = true).
            { apply existsb_exists. exists r. rewrite Epar. auto. }
            congruence. }
          rewrite Hid. apply NoDup_dedup'.
        * apply NoDup_nodupZ. apply (Permutation_NoDup (Permutation_map (root_of d) Hperm)).
          apply dedup_length_nodup_map. unfold lenZ in *. rewrite map_length. exact Hk. }
  destruct (spec_candidates_complete v q d (creq_of q asg)) as [c'' [Hin Hsame']]; [exists asg; split; [exact Hadm|reflexivity]|].
  exists (creq_view v c''). split; [apply in_map; exact Hin|].
  change (same_creq (creq_view v c1) (creq_view v c'') = true). apply same_creq_view.
  apply (same_creq_trans c1 (creq_of q asg) c'' Hsame Hsame').
Qed.

(* ================================================================ the hypotheses are satisfiable *)
(* the reachable database nv_db of Proofs/C03c.v (trees 1 -> {2 -> 3, 4} and 5 -> 6); the query has the unsuffixed
   group BETWEEN two suffixed groups: resources=VCPU:2,MEMORY_MB:5&required=7,!9 (spread over a tree, trait 7
   met collectively), resources1=VCPU:2, required2=7 (resourceless), root_required=5, same_subtree=1,2, with
   group_policy none / isolate, at 1.39; and the unsuffixed group alone at 1.28 (one provider per tree) *)
Definition u_groups : list rgroup :=
  [mkGroup 1 [(0, 2)] [] [] [] [] None;
   mkGroup 0 [(0, 2); (1, 5)] [[7]] [9] [] [] None;
   mkGroup 2 [] [[7]] [] [] [] None].
Definition u_query (pol : gpolicy) : query := mkQuery u_groups pol None [5] [] [[1; 2]].
Definition u_query_128 : query := mkQuery [mkGroup 0 [(0, 2); (1, 5)] [[7]] [9] [] [] None] GPAbsent None [] [] [].
Example c03_no_sharing_nonvacuous :
  rps_wf nv_db /\ no_sharing nv_db /\ parentless_root nv_db /\ caps_nonneg nv_db /\
  (forall pol, pol = GPNone \/ pol = GPIsolate ->
     un_rcs_nodup (u_query pol) /\ unsuffixed_group (u_query pol) <> None /\
     exists a s, candidates 39 (u_query pol) nv_db = COk a s /\
                 lenZ a = (match pol with GPNone => 4 | _ => 2 end) /\
                 spec_check 39 (COk a s) (spec_candidates 39 (u_query pol) nv_db) = 0) /\
  un_rcs_nodup u_query_128 /\
  exists a s, candidates 28 u_query_128 nv_db = COk a s /\ lenZ a = 1.
Proof.
  assert (Hb : fragment_db_b nv_db = true) by (timeout 120 vm_compute; reflexivity).
  destruct (fragment_db_b_ok nv_db Hb) as [H1 [H2 [H3 [H4 H5]]]].
  split; [exact H1|]. split; [exact H2|]. split; [exact H3|]. split; [exact H5|].
  assert (Hnd : NoDup [0; 1]).
  { constructor; [intros [E|[]]; discriminate E|]. constructor; [intros []|constructor]. }
  split; [|split].
  - intros pol Hpol. split; [exact Hnd|]. split; [destruct Hpol as [->| ->]; discriminate|].
    destruct Hpol as [->| ->]; timeout 120 vm_compute; eexists; eexists; (split; [reflexivity|split; reflexivity]).
  - exact Hnd.
  - timeout 120 vm_compute. eexists; eexists. split; reflexivity.
Qed.

(* ================================================================ why un_rcs_nodup is needed *)
(* An abstract query whose unsuffixed group names the class VCPU twice, (VCPU, 2) and (VCPU, 3): no query string
   decodes to it (util.normalize_resources_qs_param builds a dict keyed by class name), and query_wf does not
   exclude it. Every other hypothesis of the theorem holds; the model asks every chosen provider for the FIRST
   amount (amount_of), the specification places 2 and 3: no candidate of the model is one of the specification.
   This bounds the hypotheses; it is not a finding about the code. *)
Definition dup_query : query := mkQuery [mkGroup 0 [(0, 2); (0, 3)] [] [] [] [] None] GPAbsent None [] [] [].
Example c03u_needs_distinct_classes :
  exists v q d,
    rps_wf d /\ no_sharing d /\ parentless_root d /\ caps_nonneg d /\ query_wf v q = true /\ ~ un_rcs_nodup q /\
    exists a s, candidates v q d = COk a s /\ a <> [] /\
      forall c, In c a -> forall c', In c' (map (creq_view v) (spec_candidates v q d)) -> same_creq c c' = false.
Proof.
  exists 39, dup_query, nv_db.
  assert (Hb : fragment_db_b nv_db = true) by (timeout 120 vm_compute; reflexivity).
  destruct (fragment_db_b_ok nv_db Hb) as [H1 [H2 [H3 [H4 H5]]]].
  split; [exact H1|]. split; [exact H2|]. split; [exact H3|]. split; [exact H5|].
  split; [timeout 120 vm_compute; reflexivity|]. split.
  { intro H. inversion H as [|x l Hn _]. apply Hn. left. reflexivity. }
  destruct (candidates 39 dup_query nv_db) as [| | |a s] eqn:E; try (timeout 120 vm_compute in E; discriminate E).
  exists a, s. split; [reflexivity|].
  assert (Hall : negb (is_nil a) &&
                 forallb (fun c => forallb (fun c' => negb (same_creq c c')) (map (creq_view 39) (spec_candidates 39 dup_query nv_db))) a = true).
  { timeout 120 vm_compute in E. injection E as <- _. timeout 120 vm_compute. reflexivity. }
  apply andb_true_iff in Hall. destruct Hall as [Hne Hall]. split; [intro E0; rewrite E0 in Hne; discriminate|].
  intros c Hc c' Hc'. rewrite forallb_forall in Hall. specialize (Hall c Hc). rewrite forallb_forall in Hall.
  apply negb_true_iff. exact (Hall c' Hc').
Qed.

(* ================================================================ the model always answers on the fragment *)
(* without sharing providers neither the KeyError of the multiple-provider path nor an order-dependent answer can
   occur: the answer is an error status or a candidate list - and then, by c03_no_sharing_sound, a list of valid
   combinations *)
Lemma sharing_stays_nil d rw ctx st l st' : st_sharing st = [] ->
  get_by_one_request d rw ctx st = RVal (l, st') -> st_sharing st' = [].
Proof.
  intro Hsh. unfold get_by_one_request. rewrite Hsh.
  destruct (negb (use_same_provider (rg_group ctx)) && (negb (is_nil []) || rw_has_trees rw)).
  - destruct (_ && _); [discriminate|].
    assert (Esh : (if is_nil (g_resources (rg_group ctx)) then [] else narrow_sharing ctx []) = @nil Z).
    { destruct (is_nil _); [reflexivity|]. unfold narrow_sharing. destruct (is_nil (rg_rps_in_aggs ctx)); reflexivity. }
    rewrite Esh. destruct (alloc_candidates_multiple_providers d ctx (st_built st) _) as [[l0 b]| | |]; try discriminate.
    intros [= <- <-]. reflexivity.
  - destruct (alloc_candidates_single_provider d rw ctx (st_built st) _) as [[l0 b]| | |]; try discriminate.
    intros [= <- <-]. reflexivity.
Qed.

Lemma groups_loop_no_keyerror_u d rw : rps_wf d -> rw_anchor_root_ids rw <> Some [] -> forall gs st acc,
  st_sharing st = [] -> groups_loop d rw st gs acc <> RKeyError.
Proof.
  intros Hwf Hanch. induction gs as [|g gs IH]; intros st acc Hsh; cbn [groups_loop]; [discriminate|].
  pose proof (mk_rg_ctx_no_keyerror d g) as Hk.
  destruct (mk_rg_ctx d g) as [ctx| | |] eqn:Ec; try discriminate; [|contradiction].
  assert (H1 : get_by_one_request d rw ctx st <> RKeyError).
  { destruct (use_same_provider g) eqn:Hg.
    - destruct (mk_rg_ctx_ok d Hwf g ctx Ec) as [_ Eg]. unfold get_by_one_request. rewrite Eg, Hg. cbn [negb andb].
      unfold alloc_candidates_single_provider. destruct (is_nil (get_provider_ids_matching d ctx)); discriminate.
    - apply (un_no_keyerror d Hwf g ctx rw Ec Hanch st Hg Hsh). }
  destruct (get_by_one_request d rw ctx st) as [[l st1]| | |] eqn:E1; try discriminate; [|contradiction].
  destruct l as [|c0 l0]; [discriminate|]. apply IH. apply (sharing_stays_nil d rw ctx st _ st1 Hsh E1).
Qed.

Lemma un_creq_providers R g ps m x : In x (cr_rrs (un_creq R g ps m)) -> In (rr_rp x) ps.
Proof.
  unfold un_creq. cbn [cr_rrs]. intro H. apply in_map_iff in H. destruct H as [px [<- Hpx]]. cbn [rr_rp].
  destruct px as [p y]. apply in_combine_l in Hpx. exact Hpx.
Qed.
(* two equal allocation requests of the unsuffixed group lie in the same tree *)
Lemma un_cand_anchor d rw g a b : g_resources g <> [] -> un_cand d rw g a -> un_cand d rw g b ->
  same_creq a b = true -> cr_anchor a = cr_anchor b.
Proof.
  intros Hres [R1 [ps1 [m1 [HF1 [_ [_ [_ [_ ->]]]]]]]] [R2 [ps2 [m2 [HF2 [_ [_ [_ [_ ->]]]]]]]] Hs.
  cbn [cr_anchor]. unfold same_creq in Hs. apply andb_true_iff in Hs. destruct Hs as [Hs _].
  pose proof (same_rrs_In _ _ Hs) as Hin.
  assert (Hx : exists x, In x (cr_rrs (un_creq R1 g ps1 m1))).
  { unfold un_creq. cbn [cr_rrs]. destruct HF1 as [|p y ps res _ _]; [contradiction Hres; reflexivity|].
    cbn [combine map]. eexists. left. reflexivity. }
  destruct Hx as [x Hx]. pose proof (un_creq_providers _ _ _ _ _ Hx) as H1.
  apply Hin in Hx. pose proof (un_creq_providers _ _ _ _ _ Hx) as H2.
  destruct (Forall2_In_l _ _ _ _ HF1 H1) as [y1 [_ [_ [E1 _]]]]. destruct (Forall2_In_l _ _ _ _ HF2 H2) as [y2 [_ [_ [E2 _]]]].
  unfold un_creq. cbn [cr_anchor]. congruence.
Qed.

Theorem c03_no_sharing_answers : forall v q d,
  rps_wf d -> no_sharing d -> parentless_root d -> un_rcs_nodup q ->
  (exists e, candidates v q d = CErr e) \/ (exists a s, candidates v q d = COk a s).
Proof.
  intros v q d Hwf Hns Hpr Hrcs. unfold candidates, candidates_gen. destruct (v <? 10); [left; eauto|].
  destruct (query_wf v q) eqn:Hqwf; [|left; cbn [negb]; eauto]. cbn [negb]. unfold get_by_requests_gen.
  pose proof (anchor_traits_no_keyerror d q) as Ha.
  destruct (process_anchor_traits d q) as [anchors| | |] eqn:Hanch; [|right; eauto|left; eauto|contradiction].
  set (rw := mkRwCtx (has_provider_trees d) (29 <=? v) anchors (qy_policy q) (qy_same_subtree q)).
  pose proof (anchor_traits_nonempty d q anchors Hanch) as Hne.
  pose proof (groups_loop_no_keyerror_u d rw Hwf Hne (qy_groups q) (mkRwState (get_sharing_providers d) []) [] Hns) as Hk.
  destruct (groups_loop d rw (mkRwState (get_sharing_providers d) []) (qy_groups q) []) as [[cands st]| | |] eqn:El;
    [|right; eauto|left; eauto|contradiction].
  (* no group list is anchor-ambiguous *)
  assert (Hunq : forall g, In g (qy_groups q) -> use_same_provider g = false ->
                           NoDup (map fst (g_resources g)) /\ g_resources g <> []).
  { intros g Hg Hu. assert (Hs : g_suffix g = 0).
    { unfold use_same_provider in Hu. apply negb_false_iff in Hu. apply Z.eqb_eq. exact Hu. }
    assert (Hsfx : NoDup (map g_suffix (qy_groups q))).
    { apply dedup_length_nodup. apply lenZ_eq. apply (query_wf_facts v q Hqwf). }
    destruct (unsuffixed_group q) as [g0|] eqn:Hun.
    - assert (g = g0).
      { destruct (groups_split q g0 Hsfx Hun) as [pre [post [Egs [Hpre [Hpost _]]]]]. rewrite Egs in Hg. apply in_app_iff in Hg.
        destruct Hg as [Hg|[Hg|Hg]]; [rewrite (Hpre g Hg) in Hu; discriminate|auto|rewrite (Hpost g Hg) in Hu; discriminate]. }
      subst g0. split; [|apply (query_wf_un v q g Hqwf Hun)].
      unfold un_rcs_nodup, un_resources in Hrcs. rewrite Hun in Hrcs. exact Hrcs.
    - exfalso. unfold unsuffixed_group in Hun. pose proof (find_none _ _ Hun g Hg) as H. cbv beta in H.
      rewrite Hs in H. discriminate. }
  destruct (groups_loop_sound_u d Hwf Hns Hpr rw Hne eq_refl (qy_groups q) (mkRwState (get_sharing_providers d) []) []
              cands st Hns Hunq El) as [l2 [Ec HF]].
  cbn [rev app] in Ec. subst l2.
  assert (Hex : existsb (fun gl : rgroup * list creq => negb (use_same_provider (fst gl)) && anchor_ambiguous (snd gl)) cands = false).
  { apply existsb_false_all. intros gl Hgl. destruct (Forall2_In_l _ _ _ _ HF Hgl) as [g [Hg [E Hc]]].
    apply in_combine_r in Hg. rewrite E. destruct (use_same_provider g) eqn:Hu; [reflexivity|]. cbn [negb andb].
    unfold anchor_ambiguous. apply existsb_false_all. intros a Ha'. apply existsb_false_all. intros b Hb.
    destruct (same_creq a b) eqn:Hs; [|reflexivity]. cbn [andb]. apply negb_false_iff. apply Z.eqb_eq.
    pose proof (Hc a Ha') as Ca. pose proof (Hc b Hb) as Cb. unfold cand_of in Ca, Cb. rewrite Hu in Ca, Cb.
    apply (un_cand_anchor d rw g a b (proj2 (Hunq g Hg Hu)) Ca Cb Hs). }
  rewrite Hex, andb_false_r. cbn [negb orb]. unfold finish_requests, transform. right. eauto.
Qed.

Print Assumptions c03_no_sharing_sound.
Print Assumptions c03_no_sharing_nonvacuous.
Print Assumptions c03_no_sharing_answers.
Print Assumptions c03u_needs_distinct_classes.
