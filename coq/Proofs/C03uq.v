(* C03 - the extra hypothesis un_rcs_nodup of Proofs/C03u.v (distinct resource classes in the unsuffixed group) is
   DERIVED for every accepted query string: util.normalize_resources_qs_param builds a dict keyed by class name,
   so the decoded unsuffixed group names every class once - given a tokenizer that keeps class names apart. *)
From PV Require Import Spec.CandSpec Model.Parse Model.DecodeQ Model.DecodeQC Proofs.C15p Proofs.C15s Proofs.C03q Proofs.C03u.

Definition rcs_distinct (g : sgroup) : Prop := NoDup (map fst (sg_resources g)).

Lemma sg_update_rcs suf f d : Forall rcs_distinct d -> (forall g, rcs_distinct g -> rcs_distinct (f g)) ->
  Forall rcs_distinct (sg_update suf f d).
Proof.
  intros Hd Hf. apply sg_update_Forall; [exact Hd|intros g Hg _; apply Hf; exact Hg|].
  apply Hf. unfold rcs_distinct, sg_new. cbn [sg_resources map]. constructor.
Qed.

Lemma item_step_rcs v all p d d' : Forall rcs_distinct d -> item_step v all p d = Ret d' -> Forall rcs_distinct d'.
Proof.
  intro Hd. unfold item_step. destruct (qs_key_match (33 <=? v) (fst p)) as [[i suf]|]; [|intros [= <-]; exact Hd].
  destruct (i =? 0); [|destruct (i =? 1); [|destruct (i =? 2)]].
  - destruct (normalize_resources_qs_param (snd p)) as [r|] eqn:N; [|discriminate]. cbn [Parse.bind]. intros [= <-].
    apply sg_update_rcs; [exact Hd|]. intros g _. unfold rcs_distinct, set_resources. cbn [sg_resources].
    apply (resources_accepted_wf _ _ N).
  - destruct (normalize_traits_qs_params v _) as [rf|]; [|discriminate]. cbn [Parse.bind]. intros [= <-].
    apply sg_update_rcs; [exact Hd|]. intros g Hg. exact Hg.
  - destruct (normalize_member_of_qs_params v _) as [mf|]; [|discriminate]. cbn [Parse.bind]. intros [= <-].
    apply sg_update_rcs; [exact Hd|]. intros g Hg. exact Hg.
  - destruct (normalize_in_tree_qs_params (snd p)) as [t|]; [|discriminate]. cbn [Parse.bind]. intros [= <-].
    apply sg_update_rcs; [exact Hd|]. intros g Hg. exact Hg.
Qed.

Lemma items_loop_rcs v all : forall l d d', Forall rcs_distinct d -> items_loop v all l d = Ret d' -> Forall rcs_distinct d'.
Proof.
  induction l as [|p l IH]; intros d d' Hd; cbn [items_loop].
  - intros [= <-]. exact Hd.
  - destruct (item_step v all p d) as [d1|] eqn:S; [|discriminate]. cbn [Parse.bind]. intro H.
    apply (IH d1 d' (item_step_rcs v all p d d1 Hd S) H).
Qed.

Theorem c03u_accepted_un_rcs_nodup : forall tok_rp tok_agg tok_trait tok_rc tok_suffix v kv q,
  (forall a b : str, tok_rc a = tok_rc b -> a = b) ->
  decode_candidates tok_rp tok_agg tok_trait tok_rc tok_suffix v kv = POk q -> un_rcs_nodup q.
Proof.
  intros tok_rp tok_agg tok_trait tok_rc tok_suffix v kv q Hinj H.
  apply decode_candidates_ok_inv in H. destruct H as [sq [D ->]]. apply decode_s_inv in D. destruct D as [_ D].
  unfold candidates_query in D.
  destruct (rwp_from_request _ _ _ _) as [[[[l gp] root] sst]|] eqn:RW; [|discriminate]. cbn [Parse.bind] in D. cbv beta iota in D.
  destruct (parse_request_items v kv) as [gs|] eqn:P; [|discriminate]. cbn [Parse.bind] in D.
  destruct (check_groups v sst gs) as [u1|]; [|discriminate]. cbn [Parse.bind] in D.
  destruct (check_forbidden v gs) as [u2|]; [|discriminate]. cbn [Parse.bind] in D.
  destruct (check_policy gp gs) as [u3|]; [|discriminate]. cbn [Parse.bind] in D. injection D as <-.
  assert (Hgs : Forall rcs_distinct gs) by (apply (items_loop_rcs v kv kv [] gs (Forall_nil _) P)).
  unfold un_rcs_nodup, un_resources, unsuffixed_group, tok_query. cbn [sq_rwp sq_groups qy_groups].
  destruct (find (fun g => g_suffix g =? 0) (map (tok_group tok_rp tok_agg tok_trait tok_rc tok_suffix) gs)) as [g|] eqn:F;
    [|constructor].
  apply find_some in F. destruct F as [Hin _]. apply in_map_iff in Hin. destruct Hin as [sg [<- Hsg]].
  unfold tok_group. cbn [g_resources]. rewrite map_map. cbn [fst]. rewrite <- (map_map fst tok_rc).
  apply NoDup_map_inj; [|intros a b _ _; apply Hinj]. rewrite Forall_forall in Hgs. exact (Hgs sg Hsg).
Qed.
Print Assumptions c03u_accepted_un_rcs_nodup.
