(* C03 - COMPLETENESS of the code model w.r.t. the declarative specification for queries that may contain the
   unsuffixed request group, over a database without sharing providers; with Proofs/C03u.v: exactness. *)
From PV Require Import Spec.CandSpec Proofs.Defs Proofs.C13 Proofs.C03 Proofs.C02 Proofs.C02m Proofs.C03e Proofs.C03s Proofs.C03c
                       Proofs.C03p Proofs.C03u.
From Coq Require Import Permutation.

(* ================================================================ list facts *)
Lemma in_combine_r_ex {A B} : forall (l : list A) (l' : list B) y, length l = length l' -> In y l' -> exists x, In (x, y) (combine l l').
Proof.
  induction l as [|a l IH]; intros [|b l'] y E Hy; cbn [length] in E; try discriminate; [destruct Hy|].
  destruct Hy as [<-|Hy]; [exists a; left; reflexivity|]. destruct (IH l' y) as [x Hx]; [lia|exact Hy|]. exists x. right. exact Hx.
Qed.
Lemma Forall2_map_combine {A B C} (Rel : C -> B -> Prop) (f : A * B -> C) : forall (l : list A) (l' : list B),
  length l = length l' -> (forall a b, In (a, b) (combine l l') -> Rel (f (a, b)) b) -> Forall2 Rel (map f (combine l l')) l'.
Proof.
  induction l as [|a l IH]; intros [|b l'] E H; cbn [length] in E; try discriminate; cbn [combine map]; constructor.
  - apply H. left. reflexivity.
  - apply IH; [lia|]. intros a0 b0 H0. apply H. right. exact H0.
Qed.
Lemma combine_map_fst {A B C} (f : A * B -> C) (h : C -> A) : (forall a b, h (f (a, b)) = a) -> forall (l : list A) (l' : list B),
  length l = length l' -> map h (map f (combine l l')) = l.
Proof.
  intro Hh. induction l as [|a l IH]; intros [|b l'] E; cbn [length] in E; try discriminate; cbn [combine map]; [reflexivity|].
  rewrite Hh, IH; [reflexivity|lia].
Qed.
Lemma dedup_const p : forall l, l <> [] -> (forall x, In x l -> x = p) -> dedup l = [p].
Proof.
  induction l as [|x l IH]; intros Hne Hall; [contradiction Hne; reflexivity|].
  assert (x = p) by (apply Hall; left; reflexivity). subst x. rewrite dedup_cons. destruct l as [|y l'].
  - reflexivity.
  - rewrite IH; [|discriminate|intros z Hz; apply Hall; right; exact Hz]. cbn [memZ existsb]. rewrite Z.eqb_refl. reflexivity.
Qed.
Lemma Forall2_const {A} (R : Z) (P : Z -> A -> Prop) : forall ps (res : list A),
  Forall2 (fun p x => p = R /\ P p x) ps res -> ps = map (fun _ => R) res.
Proof. induction 1 as [|p x ps res [-> _] _ IH]; cbn [map]; [reflexivity|]. rewrite IH. reflexivity. Qed.

(* ================================================================ the unsuffixed group: every acceptable choice is found *)
Section CompleteU.
  Variable d : db.
  Hypothesis Hwf : rps_wf d.
  Let Hnd : NoDup (map rp_uuid (rps d)) := proj1 Hwf.
  Variables (g : rgroup) (ctx : rg_ctx) (rw : rw_ctx).
  Hypothesis Hctx : mk_rg_ctx d g = RVal ctx.

  Let bad := if is_nil (g_forbidden_aggs g) then [] else provider_ids_matching_aggregates d [g_forbidden_aggs g].

  Lemma trees_for_rc_complete rc amount p R :
    ex d p -> root_of d p = R -> in_filtered_anchors rw R = true -> pre_slot_ok d g R (rc, amount) p = true ->
    In (mkRpc p R rc) (trees_for_rc d rw ctx bad [] rc (get_providers_with_resource d rc amount (rg_tree_root ctx))).
  Proof.
    intros Hex ER Hfa Hpre. destruct (ctx_fields d g ctx Hctx) as [Eg [Eaggs _]].
    pose proof Hex as Hex'. apply (ex_find d) in Hex'. destruct Hex' as [r F].
    pose proof (find_rp_l_Some _ _ _ F) as [Hr Eu].
    assert (Er : rp_root r = R) by (unfold root_of in ER; rewrite F in ER; exact ER).
    assert (HexR : ex d R) by (rewrite <- Er; apply is_root_ex; apply (proj2 Hwf); exact Hr).
    unfold pre_slot_ok in Hpre. cbn [fst snd] in Hpre. rewrite !andb_true_iff in Hpre. destruct Hpre as [[[P1 P2] P3] P4].
    assert (Hbad : forall u, ex d u -> (In u bad <-> in_some_agg d u (g_forbidden_aggs g) = true))
      by (intros u Hu; apply bad_aggs_In; exact Hu).
    unfold trees_for_rc. cbv zeta. rewrite Eg.
    change (get_rps_with_shared_capacity [] (get_providers_with_resource d rc amount (rg_tree_root ctx))) with (@nil Z). cbv iota.
    set (p0 := add_rps [] (get_providers_with_resource d rc amount (rg_tree_root ctx)) rc).
    assert (H0 : In (mkRpc p R rc) p0).
    { unfold p0, add_rps. apply dedup_rpc_In. cbn [app]. apply in_map_iff. exists (p, R). split; [reflexivity|].
      apply (gpwr_In d). exists r. repeat split; auto. apply (tree_root_ok d g ctx Hctx p r F). exact P4. }
    set (p2 := match rw_anchor_root_ids rw with Some (x :: l) => filter_by_tree p0 (x :: l) | _ => p0 end).
    assert (H2 : In (mkRpc p R rc) p2).
    { unfold p2. unfold in_filtered_anchors in Hfa. destruct (rw_anchor_root_ids rw) as [[|a0 al]|]; try exact H0.
      unfold filter_by_tree. apply filter_In. split; [exact H0|exact Hfa]. }
    set (p3 := if is_nil (g_member_of g) then p2 else filter_by_rp_or_tree p2 (rg_rps_in_aggs ctx)).
    assert (H3 : In (mkRpc p R rc) p3).
    { unfold p3. destruct (is_nil (g_member_of g)) eqn:En; [exact H2|]. unfold filter_by_rp_or_tree. apply filter_In.
      split; [exact H2|]. cbn [pc_rp pc_root]. rewrite Eaggs; try rewrite En; cbv iota. unfold member_of_via_root in P2.
      apply orb_true_iff in P2. apply orb_true_iff. destruct P2 as [P2|P2]; [left|right]; apply memZ_In; apply matching_aggregates_In.
      - exists r. auto.
      - apply andb_true_iff in P2. destruct P2 as [_ P2]. unfold ex in HexR. apply in_map_iff in HexR.
        destruct HexR as [rr [Eur Hrr]]. exists rr. auto. }
    destruct (is_nil (g_forbidden_aggs g)) eqn:Enf; [exact H3|]. unfold filter_by_rp_nor_tree. apply filter_In.
    split; [exact H3|]. cbn [pc_rp pc_root]. apply negb_true_iff in P3. unfold agg_via_root in P3. rewrite ER, Z.eqb_refl in P3.
    cbn [andb] in P3. apply orb_false_iff in P3. destruct P3 as [Q1 Q2]. apply negb_true_iff. apply orb_false_iff.
    split.
    - destruct (memZ p bad) eqn:M; [|reflexivity]. apply memZ_In in M. apply (Hbad p Hex) in M. congruence.
    - destruct (memZ R bad) eqn:M; [|reflexivity]. apply memZ_In in M. apply (Hbad R HexR) in M. congruence.
  Qed.

  (* ---------------------------------------------------------------- the loop over the resource classes *)
  Let T (x : Z * list (Z * Z)) : list rpc := trees_for_rc d rw ctx bad [] (fst x) (snd x).

  Lemma trees_loop_complete R : forall res acc,
    (forall x, In x res -> exists c, In c (T x) /\ pc_root c = R) ->
    (acc = [] \/ exists c, In c acc /\ pc_root c = R) ->
    forall c, pc_root c = R -> (In c acc \/ exists x, In x res /\ In c (T x)) ->
    In c (trees_loop d rw ctx bad [] acc res).
  Proof.
    induction res as [|[rc wi] rest IH]; intros acc Hall Hacc c Hc Hin; cbn [trees_loop].
    - destruct Hin as [H|[x [[] _]]]. exact H.
    - destruct (Hall (rc, wi) (or_introl eq_refl)) as [c0 [Hc0 Ec0]]. unfold T in Hc0. cbn [fst snd] in Hc0.
      assert (Hm : forall c1, pc_root c1 = R -> (In c1 acc \/ In c1 (trees_for_rc d rw ctx bad [] rc wi)) ->
                   In c1 (merge_common_trees acc (trees_for_rc d rw ctx bad [] rc wi))).
      { intros c1 E1 H1. unfold merge_common_trees. destruct acc as [|a0 al]; cbn [is_nil].
        - destruct H1 as [[]|H1]. exact H1.
        - assert (En : is_nil (trees_for_rc d rw ctx bad [] rc wi) = false)
            by (destruct (trees_for_rc d rw ctx bad [] rc wi); [destruct Hc0|reflexivity]).
          rewrite En. unfold filter_by_tree. apply filter_In. split; [apply dedup_rpc_In; apply in_app_iff; exact H1|].
          apply memZ_In. apply interZ_In. rewrite E1. split; apply pc_trees_In.
          + destruct Hacc as [E|H]; [discriminate E|exact H].
          + eauto. }
      destruct (trees_for_rc d rw ctx bad [] rc wi) as [|b0 bl] eqn:Ep; [destruct Hc0|]. rewrite <- Ep in *.
      destruct (merge_common_trees acc (trees_for_rc d rw ctx bad [] rc wi)) as [|m0 ml] eqn:Em.
      { exfalso. apply (Hm c0 Ec0 (or_intror Hc0)). }
      rewrite <- Em in *. apply IH.
      + intros x Hx. apply Hall. right. exact Hx.
      + right. exists c0. split; [apply Hm; auto|exact Ec0].
      + exact Hc.
      + destruct Hin as [H|[x [[<-|Hx] H]]].
        * left. apply Hm; auto.
        * left. apply Hm; auto.
        * right. eauto.
  Qed.

  (* ---------------------------------------------------------------- get_trees_matching_all *)
  Lemma gtma_complete R ps0 :
    Forall2 (fun p x => ex d p /\ root_of d p = R /\ pre_slot_ok d g R x p = true) ps0 (g_resources g) ->
    g_resources g <> [] -> in_filtered_anchors rw R = true ->
    forallb (fun any => existsb (fun p => has_some_trait d p any) ps0) (g_required g) = true ->
    forall p x, In (p, x) (combine ps0 (g_resources g)) -> In (mkRpc p R (fst x)) (get_trees_matching_all d rw ctx []).
  Proof.
    intros HF Hres Hfa Hreq. destruct (ctx_fields d g ctx Hctx) as [Eg [_ [_ Ewr]]].
    unfold get_trees_matching_all. cbv zeta. rewrite Eg. fold bad.
    set (provs := trees_loop d rw ctx bad [] [] (rg_with_resource ctx)).
    (* the chosen providers are candidates *)
    assert (Hsel : forall p x, In (p, x) (combine ps0 (g_resources g)) ->
              In (mkRpc p R (fst x)) (T (fst x, get_providers_with_resource d (fst x) (snd x) (rg_tree_root ctx)))).
    { intros p [rc amount] Hpx. destruct (Forall2_combine _ _ _ HF _ _ Hpx) as [Hex [Er Hpre]]. unfold T. cbn [fst snd].
      apply trees_for_rc_complete; assumption. }
    assert (Hprovs : forall p x, In (p, x) (combine ps0 (g_resources g)) -> In (mkRpc p R (fst x)) provs).
    { intros p x Hpx. unfold provs. apply (trees_loop_complete R).
      - intros y Hy. rewrite Ewr in Hy. apply in_map_iff in Hy. destruct Hy as [x0 [<- Hx0]].
        destruct (Forall2_In_r _ _ _ _ HF Hx0) as [p0 [Hc _]]. exists (mkRpc p0 R (fst x0)). split; [apply Hsel; exact Hc|reflexivity].
      - left. reflexivity.
      - reflexivity.
      - right. exists (fst x, get_providers_with_resource d (fst x) (snd x) (rg_tree_root ctx)). split; [|apply Hsel; exact Hpx].
        rewrite Ewr. apply in_map_iff. exists x. split; [reflexivity|]. apply in_combine_r in Hpx. exact Hpx. }
    intros p x Hpx. pose proof (Hprovs p x Hpx) as Hin.
    destruct (is_nil provs) eqn:En; [destruct provs; [destruct Hin|discriminate En]|].
    cbn [is_nil negb]. rewrite orb_false_r. destruct (is_nil (g_required g) && is_nil (g_forbidden g)); [exact Hin|].
    unfold filter_by_rp. apply filter_In. split; [exact Hin|]. cbn [pc_rp pc_root]. apply existsb_exists.
    exists (p, R). split; [|apply pair_eqb_eq; reflexivity]. apply gtwt_In.
    destruct (Forall2_combine _ _ _ HF _ _ Hpx) as [_ [Er _]].
    assert (Hgood : forall p1 x1, In (p1, x1) (combine ps0 (g_resources g)) ->
              In (p1, R) (map (fun u => (u, root_of d u)) (pc_rps provs))).
    { intros p1 x1 H1. apply in_map_iff. exists p1. destruct (Forall2_combine _ _ _ HF _ _ H1) as [_ [Er1 _]].
      split; [rewrite Er1; reflexivity|]. apply pc_rps_In. exists (mkRpc p1 R (fst x1)). split; [apply Hprovs; exact H1|reflexivity]. }
    split; [apply pc_rps_In; eexists; split; [exact Hin|reflexivity]|]. split; [symmetry; exact Er|].
    unfold tree_cond. cbv zeta. destruct (g_required g) as [|r0 rs] eqn:Ereq.
    - apply memZ_In. apply in_map_iff. exists (p, R). split; [reflexivity|]. apply (Hgood p x Hpx).
    - rewrite <- Ereq in *. rewrite forallb_forall in Hreq. apply forallb_forall. intros any Hany. specialize (Hreq any Hany).
      apply existsb_exists in Hreq. destruct Hreq as [p1 [Hp1 Htr]]. apply has_some_trait_spec in Htr. destruct Htr as [t [Ht Htr]].
      apply existsb_exists. exists t. split; [exact Ht|]. apply existsb_exists. exists (p1, R). cbn [fst snd].
      split; [|rewrite Z.eqb_refl, Htr; reflexivity].
      destruct (Forall2_In_l _ _ _ _ HF Hp1) as [x1 [H1 _]]. apply (Hgood p1 x1 H1).
  Qed.

  (* ---------------------------------------------------------------- the requests of one tree *)
  Hypothesis Hrcs : NoDup (map fst (g_resources g)).

  Lemma alloc_requests_for_tree_complete cands R ps0 :
    length ps0 = length (g_resources g) ->
    (forall p x, In (p, x) (combine ps0 (g_resources g)) -> In (mkRpc p R (fst x)) cands) ->
    (forall p, In p ps0 -> has_some_trait d p (g_forbidden g) = false) ->
    forallb (fun any => existsb (fun p => has_some_trait d p any) ps0) (g_required g) = true ->
    In (un_creq R g ps0 (dedup ps0)) (alloc_requests_for_tree d g cands R).
  Proof.
    intros Hlen Hc Hforb Hreq. unfold alloc_requests_for_tree. cbv zeta.
    set (here := filter (fun c0 => pc_root c0 =? R) cands).
    assert (Hhere : forall p x, In (p, x) (combine ps0 (g_resources g)) -> In (mkRpc p R (fst x)) here).
    { intros p x H. apply filter_In. split; [apply Hc; exact H|]. cbn [pc_root]. apply Z.eqb_refl. }
    assert (Ercs : filter (fun rc => existsb (fun c0 => pc_rc c0 =? rc) here) (map fst (g_resources g)) = map fst (g_resources g)).
    { apply filter_all'. intros rc Hrc. apply in_map_iff in Hrc. destruct Hrc as [x [<- Hx]].
      destruct (in_combine_r_ex ps0 _ x Hlen Hx) as [p Hp]. apply existsb_exists. exists (mkRpc p R (fst x)).
      split; [apply Hhere; exact Hp|]. cbn [pc_rc]. apply Z.eqb_refl. }
    rewrite Ercs.
    set (f := fun px : Z * (Z * Z) => mkRreq (fst px) (fst (snd px)) (snd (snd px))).
    set (combo := map f (combine ps0 (g_resources g))).
    assert (Erp : map rr_rp combo = ps0).
    { unfold combo. apply combine_map_fst; [intros a b; reflexivity|exact Hlen]. }
    apply in_flat_map. exists combo. split.
    - apply in_product.
      apply (proj2 (Forall2_map_r _ (fun rc => map (fun c0 => mkRreq (pc_rp c0) rc (amount_of g rc))
                                                   (filter (fun c0 => pc_rc c0 =? rc) here)) _ _)).
      apply (proj2 (Forall2_map_r _ fst _ _)). unfold combo. apply Forall2_map_combine; [exact Hlen|].
      intros p x Hpx. apply in_map_iff. exists (mkRpc p R (fst x)). split.
      + unfold f. cbn [pc_rp fst snd]. f_equal. unfold amount_of.
        rewrite (find_key_nodup _ x Hrcs (in_combine_r _ _ _ _ Hpx)). reflexivity.
      + apply filter_In. split; [apply Hhere; exact Hpx|]. cbn [pc_rc]. apply Z.eqb_refl.
    - rewrite Erp.
      assert (Hchk : check_traits_for_alloc_request d ps0 (g_required g) (g_forbidden g) = true).
      { unfold check_traits_for_alloc_request. apply andb_true_iff. split.
        - apply negb_true_iff. apply existsb_false_all. intros u Hu. rewrite <- has_some_trait_existsb. apply Hforb. exact Hu.
        - rewrite forallb_forall in Hreq. apply forallb_forall. intros any Hany. specialize (Hreq any Hany).
          apply existsb_exists in Hreq. destruct Hreq as [u [Hu Htr]]. apply has_some_trait_spec in Htr.
          destruct Htr as [t [Ht Htr]]. apply existsb_exists. exists t. split; [exact Ht|]. apply existsb_exists. eauto. }
      rewrite Hchk. left. reflexivity.
  Qed.

  (* ---------------------------------------------------------------- _get_by_one_request, unsuffixed group *)
  Hypothesis Hns : no_sharing d.
  Hypothesis Hpr : parentless_root d.

  Lemma un_group_complete st R ps0 : use_same_provider g = false -> st_sharing st = [] ->
    rw_has_trees rw = has_provider_trees d -> g_resources g <> [] ->
    Forall2 (fun p x => ex d p /\ root_of d p = R /\ un_slot_ok d g R x p = true) ps0 (g_resources g) ->
    forallb (fun any => existsb (fun p => has_some_trait d p any) ps0) (g_required g) = true ->
    in_filtered_anchors rw R = true ->
    match get_by_one_request d rw ctx st with
    | RVal (l, _) => In (un_creq R g ps0 (dedup ps0)) l
    | REmpty => False
    | _ => True
    end.
  Proof.
    intros Hu Hsh Htrees Hres HF Hreq Hfa. destruct (ctx_fields d g ctx Hctx) as [Eg _].
    assert (Hlen : length ps0 = length (g_resources g)) by (eapply Forall2_length; exact HF).
    assert (Hslot : forall p x, In (p, x) (combine ps0 (g_resources g)) ->
              has_room d p (fst x) (snd x) = true /\ has_some_trait d p (g_forbidden g) = false /\
              member_of_via_root d R p (g_member_of g) = true /\ agg_via_root d R p (g_forbidden_aggs g) = false /\
              in_tree_ok d g p = true).
    { intros p x H. destruct (Forall2_combine _ _ _ HF _ _ H) as [_ [_ Hok]]. unfold un_slot_ok in Hok.
      rewrite !andb_true_iff, !negb_true_iff in Hok. tauto. }
    assert (Hne : exists p0 x0, In (p0, x0) (combine ps0 (g_resources g))).
    { destruct HF as [|p0 x0 ps res _ _]; [contradiction Hres; reflexivity|]. exists p0, x0. left. reflexivity. }
    unfold get_by_one_request. rewrite Eg, Hu, Hsh. cbn [negb is_nil andb orb]. destruct (rw_has_trees rw) eqn:Et.
    - (* provider trees *)
      assert (E1 : negb (is_nil (g_required g)) && is_nil (get_provider_ids_having_any_trait d (concat (g_required g))) = false).
      { destruct (g_required g) as [|any rs] eqn:Er; [reflexivity|]. rewrite <- Er in *. cbn [is_nil negb andb].
        assert (Hany : In any (g_required g)) by (rewrite Er; left; reflexivity).
        rewrite forallb_forall in Hreq. specialize (Hreq any Hany). apply existsb_exists in Hreq. destruct Hreq as [u [_ Htr]].
        apply has_some_trait_spec in Htr. destruct Htr as [t [Ht Htr]].
        assert (Hin : In u (get_provider_ids_having_any_trait d (concat (g_required g)))).
        { apply having_any_trait_In. apply has_some_trait_spec. exists t. split; [|exact Htr]. apply in_concat. eauto. }
        rewrite Er in *. cbn [is_nil negb andb]. destruct (get_provider_ids_having_any_trait d (concat (any :: rs))); [destruct Hin|reflexivity]. }
      rewrite E1.
      assert (Esh : (if is_nil (g_resources g) then [] else narrow_sharing ctx []) = @nil Z).
      { destruct (is_nil (g_resources g)); [reflexivity|]. unfold narrow_sharing. destruct (is_nil (rg_rps_in_aggs ctx)); reflexivity. }
      rewrite Esh. unfold alloc_candidates_multiple_providers.
      set (cands := get_trees_matching_all d rw ctx []).
      assert (Hc : forall p x, In (p, x) (combine ps0 (g_resources g)) -> In (mkRpc p R (fst x)) cands).
      { apply (gtma_complete R ps0); try assumption. eapply Forall2_impl; [|exact HF]. cbv beta.
        intros p x [Hex [Er Hok]]. split; [exact Hex|]. split; [exact Er|]. unfold un_slot_ok in Hok.
        rewrite !andb_true_iff in Hok. destruct Hok as [[[[S1 _] S3] S4] S5]. unfold pre_slot_ok. rewrite S1, S3, S4, S5. reflexivity. }
      destruct Hne as [p0 [x0 H0]]. pose proof (Hc p0 x0 H0) as Hin0.
      destruct (is_nil cands) eqn:En; [destruct cands; [destruct Hin0|discriminate En]|].
      destruct (negb (forallb _ cands)); [exact I|].
      apply in_flat_map. exists R. split; [apply pc_trees_In; eexists; split; [exact Hin0|reflexivity]|].
      rewrite Eg. apply alloc_requests_for_tree_complete; try assumption.
      intros p Hp. destruct (Forall2_In_l _ _ _ _ HF Hp) as [x [Hpx _]]. apply (Hslot p x Hpx).
    - (* no provider trees at all: every provider is its own tree *)
      assert (Hself : forall p, ex d p -> root_of d p = p).
      { intros p Hex. unfold ex in Hex. apply in_map_iff in Hex. destruct Hex as [r [Eu Hr]].
        rewrite <- Eu, (root_of_row d Hwf r Hr). apply Hpr; [exact Hr|]. unfold has_provider_trees in Htrees.
        destruct (rp_parent r) eqn:Epar; [|reflexivity]. exfalso.
        assert (existsb (fun r0 => match rp_parent r0 with Some _ => true | None => false end) (rps d) = true)
          by (apply existsb_exists; exists r; rewrite Epar; auto). congruence. }
      assert (HpR : forall p, In p ps0 -> p = R).
      { intros p Hp. destruct (Forall2_In_l _ _ _ _ HF Hp) as [x [_ [Hex [Er _]]]]. rewrite <- Er. symmetry. apply Hself. exact Hex. }
      assert (Eps : ps0 = map (fun _ : Z * Z => R) (g_resources g)).
      { apply (Forall2_const R (fun _ _ => True)). eapply Forall2_impl_In; [|exact HF]. cbv beta. intros p x Hp _ _. auto. }
      destruct Hne as [p0 [x0 H0]]. pose proof (in_combine_l _ _ _ _ H0) as Hp0. pose proof (HpR p0 Hp0) as E0. subst p0.
      assert (HexR : ex d R) by (destruct (Forall2_In_l _ _ _ _ HF Hp0) as [x [_ [Hex _]]]; exact Hex).
      assert (Hall : forall x, In x (g_resources g) -> In (R, x) (combine ps0 (g_resources g))).
      { intros x Hx. destruct (in_combine_r_ex ps0 _ x Hlen Hx) as [p Hp]. rewrite (HpR p (in_combine_l _ _ _ _ Hp)) in Hp. exact Hp. }
      assert (Hok : suffixed_ok d g R = true).
      { destruct (Hslot R x0 H0) as [_ [S2 [S3 [S4 S5]]]]. unfold suffixed_ok. rewrite !andb_true_iff. repeat split.
        - apply forallb_forall. intros x Hx. apply (Hslot R x (Hall x Hx)).
        - rewrite forallb_forall in Hreq. apply forallb_forall. intros any Hany. specialize (Hreq any Hany).
          apply existsb_exists in Hreq. destruct Hreq as [u [Hin_u Htr]]. rewrite (HpR u Hin_u) in Htr. exact Htr.
        - rewrite S2. reflexivity.
        - unfold member_of_via_root in S3. apply orb_true_iff in S3. destruct S3 as [S3|S3]; [exact S3|].
          apply andb_true_iff in S3. tauto.
        - unfold agg_via_root in S4. apply orb_false_iff in S4. destruct S4 as [S4 _]. rewrite S4. reflexivity.
        - exact S5. }
      assert (Ht : In (R, R) (get_provider_ids_matching d ctx)).
      { apply (matching_char d Hnd g ctx Hctx). cbn [fst snd]. split; [exact HexR|]. split; [symmetry; apply Hself; exact HexR|exact Hok]. }
      unfold alloc_candidates_single_provider. cbv zeta.
      destruct (get_provider_ids_matching d ctx) as [|t0 ts] eqn:Em; [destruct Ht|]. cbn [is_nil]. rewrite <- Em in *.
      apply in_flat_map. exists (R, R). split; [exact Ht|]. cbn [fst snd]. rewrite Hfa. apply in_app_iff. left. left.
      unfold allocation_request_for_provider, un_creq. rewrite Eg, (Hself R HexR). f_equal.
      + rewrite Eps. clear. induction (g_resources g) as [|x l0 IH]; cbn [map combine]; [reflexivity|]. rewrite IH. reflexivity.
      + rewrite (dedup_const R ps0); [reflexivity| |exact HpR]. intro E. rewrite E in Hp0. destruct Hp0.
  Qed.
End CompleteU.

(* ================================================================ the search context of the unsuffixed group exists *)
Lemma un_ctx_not_empty d g R ps0 : g_resources g <> [] -> is_root d R = true ->
  Forall2 (fun p x => ex d p /\ root_of d p = R /\ un_slot_ok d g R x p = true) ps0 (g_resources g) ->
  mk_rg_ctx d g <> REmpty.
Proof.
  intros Hres HisR HF.
  assert (Hlen : length ps0 = length (g_resources g)) by (eapply Forall2_length; exact HF).
  assert (Hslot : forall p x, In (p, x) (combine ps0 (g_resources g)) ->
            exists r, find_rp d p = Some r /\ rp_root r = R /\ has_room d p (fst x) (snd x) = true /\
                      member_of_via_root d R p (g_member_of g) = true /\ in_tree_ok d g p = true).
  { intros p x H. destruct (Forall2_combine _ _ _ HF _ _ H) as [Hex [Er Hok]]. unfold un_slot_ok in Hok.
    rewrite !andb_true_iff in Hok. apply (ex_find d) in Hex. destruct Hex as [r F]. exists r.
    unfold root_of in Er. rewrite F in Er. tauto. }
  assert (Hne : exists p0 x0, In (p0, x0) (combine ps0 (g_resources g))).
  { destruct HF as [|p0 x0 ps res _ _]; [contradiction Hres; reflexivity|]. exists p0, x0. left. reflexivity. }
  destruct Hne as [p0 [x0 H0]]. destruct (Hslot p0 x0 H0) as [r0 [F0 [Er0 [_ [Hm0 Ht0]]]]].
  pose proof (find_rp_l_Some _ _ _ F0) as [Hr0 Eu0].
  unfold mk_rg_ctx. destruct (negb (forallb _ (g_resources g))); [discriminate|].
  destruct (negb (is_nil (g_member_of g)) &&
            is_nil (if is_nil (g_member_of g) then [] else provider_ids_matching_aggregates d (g_member_of g))) eqn:Em.
  { exfalso. apply andb_true_iff in Em. destruct Em as [Em1 Em2]. apply negb_true_iff in Em1. rewrite Em1 in Em2.
    assert (Hin : exists u, In u (provider_ids_matching_aggregates d (g_member_of g))).
    { unfold member_of_via_root in Hm0. apply orb_true_iff in Hm0. destruct Hm0 as [Hm0|Hm0].
      - exists p0. apply matching_aggregates_In. exists r0. auto.
      - apply andb_true_iff in Hm0. destruct Hm0 as [_ Hm0]. exists R. apply matching_aggregates_In.
        apply is_root_ex in HisR. unfold ex in HisR. apply in_map_iff in HisR. destruct HisR as [rr [Eur Hrr]]. exists rr. auto. }
    destruct Hin as [u Hin]. destruct (provider_ids_matching_aggregates d (g_member_of g)); [destruct Hin|discriminate]. }
  destruct (negb (forallb (forallb (trait_exists d)) (g_required g) && forallb (trait_exists d) (g_forbidden g))); [discriminate|].
  assert (Ht : exists t, (match g_in_tree g with
                          | None => Some None
                          | Some u => match find_rp d u with Some r1 => Some (Some (rp_root r1)) | None => None end
                          end) = Some t /\ match t with Some t0 => R = t0 | None => True end).
  { unfold in_tree_ok in Ht0. destruct (g_in_tree g) as [u|]; [|exists None; split; [reflexivity|exact I]].
    destruct (find_rp d u) as [tr|]; [|discriminate]. exists (Some (rp_root tr)). split; [reflexivity|].
    apply Z.eqb_eq in Ht0. unfold root_of in Ht0. rewrite F0 in Ht0. congruence. }
  destruct Ht as [t [-> Ht]].
  destruct (rps_with_resource_all d t (g_resources g)) eqn:E; [discriminate|]. exfalso.
  apply (rwra_some d t (g_resources g)); [|exact E]. intros x Hx.
  destruct (in_combine_r_ex ps0 _ x Hlen Hx) as [p Hp]. destruct (Hslot p x Hp) as [r [F [Er [Hroom _]]]].
  assert (Hin : In (p, rp_root r) (get_providers_with_resource d (fst x) (snd x) t)).
  { apply (gpwr_In d). exists r. repeat split; try assumption. destruct t; [congruence|exact I]. }
  intro E0. rewrite E0 in Hin. destruct Hin.
Qed.

(* ================================================================ the groups loop *)
(* the per-group step does not give up on g and returns the allocation request w *)
Definition produces (d : db) (rw : rw_ctx) (w : creq) (g : rgroup) : Prop :=
  mk_rg_ctx d g <> REmpty /\
  forall ctx st, mk_rg_ctx d g = RVal ctx -> st_sharing st = [] ->
    match get_by_one_request d rw ctx st with RVal (l, _) => In w l | REmpty => False | _ => True end.

Lemma groups_loop_complete_gen d rw : forall ws gs, Forall2 (produces d rw) ws gs -> forall st acc, st_sharing st = [] ->
  match groups_loop d rw st gs acc with
  | RVal (cands, _) => exists l2, cands = rev acc ++ l2 /\
      Forall2 (fun wg gl => snd wg = fst gl /\ In (fst wg) (snd gl)) (combine ws gs) l2
  | REmpty => False
  | _ => True
  end.
Proof.
  induction 1 as [|w g ws gs [Hne Hprod] HF IH]; intros st acc Hsh; cbn [groups_loop combine].
  - exists []. rewrite app_nil_r. split; [reflexivity|constructor].
  - destruct (mk_rg_ctx d g) as [ctx| | |] eqn:Ec; try exact I; [|apply Hne; reflexivity].
    pose proof (Hprod ctx st eq_refl Hsh) as H1.
    destruct (get_by_one_request d rw ctx st) as [[l st1]| | |] eqn:E1; try exact I; [|exact H1].
    destruct l as [|c0 l0] eqn:El; [destruct H1|]. rewrite <- El in *.
    specialize (IH st1 ((g, l) :: acc) (sharing_stays_nil d rw ctx st l st1 Hsh E1)).
    destruct (groups_loop d rw st1 gs ((g, l) :: acc)) as [[cands st2]| | |]; try exact I; [|exact IH].
    destruct IH as [l2 [-> HF2]]. exists ((g, l) :: l2). split; [cbn [rev]; rewrite <- app_assoc; reflexivity|].
    constructor; [|exact HF2]. cbn [fst snd]. split; [reflexivity|exact H1].
Qed.

Lemma produces_suffixed d rw R : rps_wf d -> in_filtered_anchors rw R = true -> forall ps gs,
  (forall g, In g gs -> use_same_provider g = true) ->
  Forall2 (fun p g => ex d p /\ root_of d p = R /\ suffixed_ok d g p = true) ps gs ->
  Forall2 (produces d rw) (asg_creqs d ps gs) gs.
Proof.
  intros Hwf Hfa ps gs Hall HF. unfold asg_creqs. induction HF as [|p g ps gs [Hex [Er Hok]] _ IH]; cbn [combine map]; constructor.
  - cbn [fst snd]. split; [apply (mk_rg_ctx_not_empty d g p Hex Hok)|]. intros ctx st Hc _.
    apply (one_group_complete d Hwf rw g ctx st p); try assumption; [apply Hall; left; reflexivity|rewrite Er; exact Hfa].
  - apply IH. intros g' Hg'. apply Hall. right. exact Hg'.
Qed.

Lemma asg_creqs_length d ps gs : length ps = length gs -> length (asg_creqs d ps gs) = length gs.
Proof. intro E. unfold asg_creqs. rewrite map_length, combine_length, E. apply Nat.min_id. Qed.
Lemma swap_combine_asg d : forall ps gs, length ps = length gs ->
  map (fun wg : creq * rgroup => (snd wg, fst wg)) (combine (asg_creqs d ps gs) gs) =
  map (fun pg : Z * rgroup => (snd pg, group_creq d (snd pg) (fst pg))) (combine ps gs).
Proof.
  unfold asg_creqs. induction ps as [|p ps IH]; intros [|g gs] E; cbn [length] in E; try discriminate; cbn [combine map]; [reflexivity|].
  cbn [fst snd]. rewrite IH; [reflexivity|lia].
Qed.
Lemma asg_creqs_anchor d R ps gs : (forall p, In p ps -> root_of d p = R) -> forall w, In w (asg_creqs d ps gs) -> cr_anchor w = R.
Proof.
  intros H w Hw. unfold asg_creqs in Hw. apply in_map_iff in Hw. destruct Hw as [[p g] [<- Hpg]]. cbn [group_creq cr_anchor fst snd].
  apply H. apply in_combine_l in Hpg. exact Hpg.
Qed.
Lemma map_fst_combine {A B} : forall (l : list A) (l' : list B), length l = length l' -> map fst (combine l l') = l.
Proof.
  induction l as [|x l IH]; intros [|y l'] E; cbn [length] in E; try discriminate; cbn [combine map fst]; [reflexivity|].
  rewrite IH; [reflexivity|lia].
Qed.
Lemma filter_fst_length {A B} (P : A -> bool) (l : list (A * B)) :
  length (filter (fun x => P (fst x)) l) = length (filter P (map fst l)).
Proof. induction l as [|x l IH]; cbn [filter map]; [reflexivity|]. destruct (P (fst x)); cbn [length]; rewrite IH; reflexivity. Qed.

(* ================================================================ the theorem *)
Theorem c03_no_sharing_complete : forall v q d a s,
  rps_wf d -> no_sharing d -> parentless_root d -> caps_nonneg d -> un_rcs_nodup q -> anchors_hyp q d ->
  candidates v q d = COk a s ->
  forall c', In c' (map (creq_view v) (spec_candidates v q d)) -> exists c, In c a /\ same_creq c c' = true.
Proof.
  intros v q d a s Hwf Hns Hpr Hcap Hrcs Hah Hcand c' Hc'.
  destruct (unsuffixed_group q) as [g0|] eqn:Hun.
  2:{ apply (c03_suffixed_only_complete v q d a s Hwf Hns Hpr Hcap); try assumption.
      intros g Hg. unfold unsuffixed_group in Hun. pose proof (find_none _ _ Hun g Hg) as H. cbv beta in H.
      unfold use_same_provider. rewrite H. reflexivity. }
  apply in_map_iff in Hc'. destruct Hc' as [s0 [<- Hs0]]. apply spec_candidates_correct in Hs0.
  destruct Hs0 as [asg0 [Hadm ->]].
  destruct (candidates_inv' v q d a s Hcand) as [Hqwf Hinv].
  assert (Hsfx : NoDup (map g_suffix (qy_groups q))).
  { apply dedup_length_nodup. apply lenZ_eq. apply (query_wf_facts v q Hqwf). }
  destruct (groups_split q g0 Hsfx Hun) as [pre [post [Egs [Hpre [Hpost [Hsg Es]]]]]].
  destruct (query_wf_un v q g0 Hqwf Hun) as [Hres0 Hsst0].
  assert (Hrcs0 : NoDup (map fst (g_resources g0))).
  { unfold un_rcs_nodup, un_resources in Hrcs. rewrite Hun in Hrcs. exact Hrcs. }
  assert (Hu0 : use_same_provider g0 = false) by (unfold use_same_provider; rewrite Es; reflexivity).
  (* the admissible assignment *)
  destruct asg0 as [R un ps]. unfold admissible in Hadm. cbn [as_anchor as_un as_suff] in Hadm. rewrite Hun, Hsg in Hadm.
  destruct Hadm as [HR [HFun0 [HFp0 Hok]]].
  apply Forall2_app_inv_r in HFp0. destruct HFp0 as [pspre [pspost [HFpre0 [HFpost0 ->]]]].
  unfold asg_ok in Hok. cbn [as_anchor as_un as_suff] in Hok. rewrite Hun, Hsg in Hok.
  rewrite !andb_true_iff in Hok. destruct Hok as [[[[[[Hreq Hforb] Hunreq] Hpol] Hsst] Hcapok] Hnest].
  assert (L1 : length pspre = length pre) by (eapply Forall2_length; exact HFpre0).
  assert (L2 : length pspost = length post) by (eapply Forall2_length; exact HFpost0).
  assert (HFun : Forall2 (fun p x => ex d p /\ root_of d p = R /\ un_slot_ok d g0 R x p = true) un (g_resources g0)).
  { eapply Forall2_impl; [|exact HFun0]. cbv beta. intros p x [Hu Hs]. destruct (usable_root d Hns R p Hu). auto. }
  assert (HFpre : Forall2 (fun p g => ex d p /\ root_of d p = R /\ suffixed_ok d g p = true) pspre pre).
  { eapply Forall2_impl; [|exact HFpre0]. cbv beta. intros p x [Hu Hs]. destruct (usable_root d Hns R p Hu). auto. }
  assert (HFpost : Forall2 (fun p g => ex d p /\ root_of d p = R /\ suffixed_ok d g p = true) pspost post).
  { eapply Forall2_impl; [|exact HFpost0]. cbv beta. intros p x [Hu Hs]. destruct (usable_root d Hns R p Hu). auto. }
  assert (HisR : is_root d R = true).
  { destruct HFun as [|p0 x0 ps res [Hex [Er _]] _]; [contradiction Hres0; reflexivity|].
    unfold ex in Hex. apply in_map_iff in Hex. destruct Hex as [r [Eu Hr]]. rewrite <- Er, <- Eu, (root_of_row d Hwf r Hr).
    apply (proj2 Hwf). exact Hr. }
  (* the anchor is accepted *)
  pose proof (anchor_complete d q R Hah HR Hreq Hforb) as Hanch. revert Hinv Hanch.
  destruct (process_anchor_traits d q) as [anchors| | |]; intros Hinv Hanch; try contradiction.
  set (rw := mkRwCtx (has_provider_trees d) (29 <=? v) anchors (qy_policy q) (qy_same_subtree q)) in *.
  assert (Hfa : in_filtered_anchors rw R = true) by apply Hanch.
  (* one allocation request per group *)
  set (w0 := un_creq R g0 un (dedup un)).
  set (ws := asg_creqs d pspre pre ++ w0 :: asg_creqs d pspost post).
  assert (Hprod : Forall2 (produces d rw) ws (pre ++ g0 :: post)).
  { unfold ws. apply Forall2_app; [apply (produces_suffixed d rw R); assumption|]. constructor; [|apply (produces_suffixed d rw R); assumption].
    split; [apply (un_ctx_not_empty d g0 R un Hres0 HisR HFun)|]. intros ctx st Hctx Hsh.
    apply (un_group_complete d Hwf g0 ctx rw Hctx Hrcs0 Hpr st R un Hu0 Hsh eq_refl Hres0 HFun Hunreq Hfa). }
  pose proof (groups_loop_complete_gen d rw ws (pre ++ g0 :: post) Hprod (mkRwState (get_sharing_providers d) []) [] Hns) as Hloop.
  rewrite <- Egs in Hloop. revert Hinv Hloop.
  destruct (groups_loop d rw (mkRwState (get_sharing_providers d) []) (qy_groups q) []) as [[cands st]| | |]; intros Hinv Hloop;
    try contradiction.
  destruct Hloop as [l2 [Ec HF2]]. cbn [rev app] in Ec. subst l2. rewrite Egs in HF2.
  assert (Lws : length ws = length (pre ++ g0 :: post)) by (eapply Forall2_length; exact Hprod).
  (* the combination *)
  set (combo' := map (fun wg : creq * rgroup => (snd wg, fst wg)) (combine ws (pre ++ g0 :: post))).
  assert (Hanchor : forall w, In w ws -> cr_anchor w = R).
  { intros w Hw. unfold ws in Hw. apply in_app_iff in Hw. destruct Hw as [Hw|[<-|Hw]].
    - apply (asg_creqs_anchor d R pspre pre); [|exact Hw]. intros p Hp. destruct (Forall2_In_l _ _ _ _ HFpre Hp) as [g [_ H]]. tauto.
    - reflexivity.
    - apply (asg_creqs_anchor d R pspost post); [|exact Hw]. intros p Hp. destruct (Forall2_In_l _ _ _ _ HFpost Hp) as [g [_ H]]. tauto. }
  assert (HFc : Forall2 (fun gc gl => fst gc = fst gl /\ In (snd gc) (snd gl) /\ cr_anchor (snd gc) = R) combo' cands).
  { unfold combo'. apply Forall2_map_l. eapply Forall2_impl_In; [|exact HF2]. cbv beta. intros wg gl Hwg _ [E Hin].
    cbn [fst snd]. repeat split; [exact E|exact Hin|]. apply Hanchor. destruct wg as [w g]. apply in_combine_l in Hwg. exact Hwg. }
  assert (Esnd : map snd combo' = ws).
  { unfold combo'. rewrite map_map. cbn [snd]. apply map_fst_combine. exact Lws. }
  assert (Lpre : length (asg_creqs d pspre pre) = length pre) by (apply asg_creqs_length; exact L1).
  assert (Ecombo' : combo' = map (fun pg : Z * rgroup => (snd pg, group_creq d (snd pg) (fst pg))) (combine pspre pre)
                            ++ (g0, w0) :: map (fun pg : Z * rgroup => (snd pg, group_creq d (snd pg) (fst pg))) (combine pspost post)).
  { unfold combo', ws. rewrite (combine_app _ _ _ _ Lpre), map_app. cbn [combine map fst snd].
    rewrite !swap_combine_asg by assumption. reflexivity. }
  assert (Hcne : cands <> []).
  { intro E. rewrite E in HFc. inversion HFc as [E0|]. rewrite Ecombo' in E0. destruct (map _ (combine pspre pre)); discriminate E0. }
  assert (Efst : map fst cands = pre ++ g0 :: post).
  { rewrite <- (combine_snd ws (pre ++ g0 :: post) Lws). clear - HF2. induction HF2 as [|wg gl l l' [E _] _ IH]; [reflexivity|].
    cbn [map]. rewrite IH, E. reflexivity. }
  assert (Hcount : length (filter (fun gl : rgroup * list creq => use_same_provider (fst gl)) cands) = length (pspre ++ pspost)).
  { rewrite (filter_fst_length use_same_provider cands), Efst, <- Egs. change (filter use_same_provider (qy_groups q)) with (suffixed_groups q).
    rewrite Hsg, !app_length, L1, L2. reflexivity. }
  (* group_policy *)
  assert (Hp : satisfies_group_policy (rw_policy rw) (lenZ (filter (fun gl : rgroup * list creq => use_same_provider (fst gl)) cands))
                                      combo' = true).
  { cbn [rw_policy rw]. destruct (qy_policy q); try reflexivity. cbn [satisfies_group_policy].
    change (lenZ (dedup (flat_map first_mapping combo')) =? lenZ (filter (fun gl : rgroup * list creq => use_same_provider (fst gl)) cands) = true).
    assert (Efm : flat_map first_mapping combo' = pspre ++ pspost).
    { rewrite Ecombo', flat_map_app. cbn [flat_map]. rewrite !(first_mapping_pairs d) by assumption.
      unfold first_mapping at 1. cbn [fst]. rewrite Hu0. reflexivity. }
    rewrite Efm. apply Z.eqb_eq. unfold lenZ. rewrite Hcount, (dedup_NoDup_length _ (nodupZ_NoDup _ Hpol)). reflexivity. }
  (* same_subtree *)
  assert (Hs : satisfies_same_subtree d (rw_same_subtrees rw) (map snd combo') = true).
  { cbn [rw_same_subtrees rw]. rewrite Esnd. unfold satisfies_same_subtree, ws, w0. apply forallb_forall. intros sfx Hin.
    rewrite (subtree_lists_un d sfx R g0 un (dedup un) pspre pre pspost post Es (Hsst0 sfx Hin) L1).
    apply subtree_same_conv. rewrite forallb_forall in Hsst. exact (Hsst sfx Hin). }
  pose proof (merge_combos_intro d rw cands combo' R Hcne HFc Hp Hs) as Hmc. rewrite Esnd in Hmc.
  (* the consolidated request is the candidate of the assignment, and is within capacity *)
  assert (Hsfx' : NoDup (map g_suffix (pre ++ g0 :: post))) by (rewrite <- Egs; exact Hsfx).
  set (asg := mkAsg R un (pspre ++ pspost)) in *.
  destruct (consolidate_un d q R g0 pre post un (dedup un) pspre pspost Hun Hsg Es Hsfx' L1 L2 (fun x => dedup_In x un)) as [Hrr Hsame].
  fold w0 in Hrr, Hsame. fold ws in Hrr, Hsame. fold asg in Hrr, Hsame.
  set (c1 := consolidate_allocation_requests ws) in *.
  assert (Hexc : exceeds_capacity d c1 = false).
  { unfold exceeds_capacity. apply existsb_false_all. intros x Hx. apply Hrr in Hx.
    rewrite forallb_forall in Hcapok. specialize (Hcapok x Hx).
    destruct (find_inv d (rr_rp x) (rr_rc x)) as [i|] eqn:Fi; [|discriminate].
    apply andb_true_iff in Hcapok. destruct Hcapok as [C1 C2]. apply Z.leb_le in C1, C2.
    apply find_inv_l_Some' in Fi. destruct Fi as [Hi _]. rewrite (cap_trunc_floor i (Hcap i Hi)).
    apply orb_false_iff. split; apply Z.ltb_ge; lia. }
  destruct (merge_candidates_complete d (st_built st) _ _ Hmc Hexc) as [y [Hy Hsame_y]]. fold c1 in Hsame_y.
  assert (Hy_asg : same_creq (creq_of q asg) y = true).
  { apply (same_creq_trans _ c1 _); [rewrite same_creq_sym; exact Hsame|exact Hsame_y]. }
  (* it survives exclude_nested_providers and is shown *)
  unfold finish_requests, transform in Hinv. injection Hinv as <- _.
  set (mc := merge_candidates d (st_built st) (merge_combos d rw cands)) in *.
  assert (Hkept : In y (fst (exclude_nested_providers d rw mc))).
  { unfold exclude_nested_providers. cbn [rw_nested_aware rw_has_trees rw].
    destruct ((29 <=? v) || negb (has_provider_trees d)) eqn:E; [exact Hy|]. cbn [fst]. apply filter_In. split; [exact Hy|].
    apply Z.eqb_eq. apply orb_false_iff in E. destruct E as [Ev _]. rewrite Ev in Hnest. cbn [orb] in Hnest.
    apply (nested_test_same d (summed q asg)).
    - unfold same_creq in Hy_asg. apply andb_true_iff in Hy_asg. exact (proj1 Hy_asg).
    - apply nodupZ_NoDup. exact Hnest. }
  exists (creq_view v y). split.
  - change (In (creq_view v y) (map (creq_view v) (fst (exclude_nested_providers d rw mc)))). apply in_map. exact Hkept.
  - apply same_creq_view. rewrite same_creq_sym. exact Hy_asg.
Qed.

(* EXACTNESS: without sharing providers the candidates of the code model and of the specification are the same, up
   to same_creq (mutual inclusion), whether or not the query has the unsuffixed group *)
Theorem c03_no_sharing_exact : forall v q d a s,
  rps_wf d -> no_sharing d -> parentless_root d -> caps_nonneg d -> un_rcs_nodup q -> anchors_hyp q d ->
  candidates v q d = COk a s ->
  (forall c, In c a -> exists c', In c' (map (creq_view v) (spec_candidates v q d)) /\ same_creq c c' = true) /\
  (forall c', In c' (map (creq_view v) (spec_candidates v q d)) -> exists c, In c a /\ same_creq c c' = true).
Proof.
  intros v q d a s Hwf Hns Hpr Hcap Hrcs Hah Hcand. split.
  - exact (c03_no_sharing_sound v q d a s Hwf Hns Hpr Hcap Hrcs Hcand).
  - exact (c03_no_sharing_complete v q d a s Hwf Hns Hpr Hcap Hrcs Hah Hcand).
Qed.

Print Assumptions c03_no_sharing_complete.
Print Assumptions c03_no_sharing_exact.

(* the same, as the three-way comparison used by the harness: the verdict is 0 ("same candidates") *)
Theorem c03_no_sharing_spec_check : forall v q d a s,
  rps_wf d -> no_sharing d -> parentless_root d -> caps_nonneg d -> un_rcs_nodup q -> anchors_hyp q d ->
  candidates v q d = COk a s ->
  spec_check v (candidates v q d) (spec_candidates v q d) = 0.
Proof.
  intros v q d a s Hwf Hns Hpr Hcap Hrcs Hah Hcand.
  destruct (c03_no_sharing_exact v q d a s Hwf Hns Hpr Hcap Hrcs Hah Hcand) as [H1 H2].
  rewrite Hcand. unfold spec_check, subset_by.
  assert (E1 : forallb (fun x => existsb (same_creq x) (map (creq_view v) (spec_candidates v q d))) a = true).
  { apply forallb_forall. intros c Hc. apply existsb_exists. destruct (H1 c Hc) as [c' [Hc' E]]. exists c'. auto. }
  assert (E2 : forallb (fun x => existsb (same_creq x) a) (map (creq_view v) (spec_candidates v q d)) = true).
  { apply forallb_forall. intros c' Hc'. apply existsb_exists. destruct (H2 c' Hc') as [c [Hc E]]. exists c.
    split; [exact Hc|]. rewrite same_creq_sym. exact E. }
  rewrite E1, E2. reflexivity.
Qed.

(* without sharing providers the model answers with an error status, or with exactly the candidates of the
   specification: the verdict of the three-way comparison is never 5 ("they differ") nor 6 ("no list") *)
Theorem c03_no_sharing_verdict : forall v q d,
  rps_wf d -> no_sharing d -> parentless_root d -> caps_nonneg d -> un_rcs_nodup q -> anchors_hyp q d ->
  (exists e, candidates v q d = CErr e) \/ spec_check v (candidates v q d) (spec_candidates v q d) = 0.
Proof.
  intros v q d Hwf Hns Hpr Hcap Hrcs Hah. destruct (c03_no_sharing_answers v q d Hwf Hns Hpr Hrcs) as [H|[a [s H]]].
  - left. exact H.
  - right. exact (c03_no_sharing_spec_check v q d a s Hwf Hns Hpr Hcap Hrcs Hah H).
Qed.

(* ================================================================ the hypotheses are satisfiable *)
(* nv_db and the queries of Proofs/C03u.v (unsuffixed group between two suffixed groups, root_required, same_subtree,
   group_policy none / isolate at 1.39; the unsuffixed group alone at 1.28): every hypothesis of the exactness theorem
   holds - anchors_hyp through roots_parentless, the query does filter the anchors - and the answer is not empty *)
Example c03_no_sharing_exact_nonvacuous :
  rps_wf nv_db /\ no_sharing nv_db /\ parentless_root nv_db /\ caps_nonneg nv_db /\
  (forall pol, pol = GPNone \/ pol = GPIsolate ->
     un_rcs_nodup (u_query pol) /\ anchors_hyp (u_query pol) nv_db /\ qy_root_required (u_query pol) <> [] /\
     exists a s, candidates 39 (u_query pol) nv_db = COk a s /\ lenZ a = (match pol with GPNone => 4 | _ => 2 end) /\
                 lenZ (spec_candidates 39 (u_query pol) nv_db) = lenZ a) /\
  un_rcs_nodup u_query_128 /\ anchors_hyp u_query_128 nv_db /\
  exists a s, candidates 28 u_query_128 nv_db = COk a s /\ lenZ a = 1 /\ lenZ (spec_candidates 28 u_query_128 nv_db) = 1.
Proof.
  assert (Hb : fragment_db_b nv_db = true) by (timeout 120 vm_compute; reflexivity).
  destruct (fragment_db_b_ok nv_db Hb) as [H1 [H2 [H3 [H4 H5]]]].
  split; [exact H1|]. split; [exact H2|]. split; [exact H3|]. split; [exact H5|].
  assert (Hnd : NoDup [0; 1]).
  { constructor; [intros [E|[]]; discriminate E|]. constructor; [intros []|constructor]. }
  split; [|split; [exact Hnd|split; [right; exact H4|]]].
  - intros pol Hpol. split; [exact Hnd|]. split; [right; exact H4|]. split; [discriminate|].
    destruct Hpol as [->| ->]; timeout 120 vm_compute; eexists; eexists; (split; [reflexivity|split; reflexivity]).
  - timeout 120 vm_compute. eexists; eexists. split; [reflexivity|split; reflexivity].
Qed.

(* ================================================================ why anchors_hyp is still needed *)
(* the witness of Proofs/C03c.v with the group made UNSUFFIXED: provider 1 recorded as its own root AND with a parent
   pointer (not a Forest, unreachable); resources=VCPU:1&root_required=!T at 1.39: the specification offers
   {1: VCPU 1}, the code looks for anchors among the parentless providers and finds none *)
Definition np_query_un : query := mkQuery [mkGroup 0 [(0, 1)] [] [] [] [] None] GPAbsent None [] [6] [].
Example c03u_complete_needs_roots_parentless :
  exists v q d,
    rps_wf d /\ no_sharing d /\ parentless_root d /\ caps_nonneg d /\ un_rcs_nodup q /\ unsuffixed_group q <> None /\
    ~ Forest d /\
    candidates v q d = COk [] [] /\
    map (creq_view v) (spec_candidates v q d) = [mkCreq (-1) [mkRreq 1 0 1] [(0, [1])]].
Proof.
  exists 39, np_query_un, np_db. split; [|split; [|split; [|split; [|split; [|split; [|split; [|split]]]]]]].
  - split.
    + apply nodupZ_NoDup. timeout 120 vm_compute. reflexivity.
    + intros r [<-|[]]. timeout 120 vm_compute. reflexivity.
  - timeout 120 vm_compute. reflexivity.
  - intros r [<-|[]]. cbn [rp_parent]. discriminate.
  - intros i [<-|[]]. timeout 120 vm_compute. discriminate.
  - constructor; [intros []|constructor].
  - discriminate.
  - intro HF. pose proof (Forest_roots_parentless _ HF _ (or_introl eq_refl) eq_refl) as H. discriminate H.
  - timeout 120 vm_compute. reflexivity.
  - timeout 120 vm_compute. reflexivity.
Qed.

Print Assumptions c03_no_sharing_spec_check.
Print Assumptions c03_no_sharing_verdict.
Print Assumptions c03_no_sharing_exact_nonvacuous.
Print Assumptions c03u_complete_needs_roots_parentless.
