(* C03 - SOUNDNESS of the code model w.r.t. the declarative specification for ALL tables, sharing providers
   (MISC_SHARES_VIA_AGGREGATE + aggregates) included: whatever the pipeline returns as a candidate list is a list of
   combinations of the specification. *)
From PV Require Import Spec.CandSpec Proofs.Defs Proofs.C13 Proofs.C03 Proofs.C02 Proofs.C02m Proofs.C03e Proofs.C03s Proofs.C03c
                       Proofs.C03p Proofs.C03u Proofs.Reach Proofs.C02c.
From PV Require Proofs.C01 Proofs.C09.
From Coq Require Import Permutation.

(* ================================================================ hypotheses on the database *)
(* every aggregate association names an existing provider (part of the invariant RI of Proofs/Defs.v) *)
Definition aggs_wf (d : db) : Prop := forall x, In x (rp_aggs d) -> ex d (fst x).
Lemma RI_aggs_wf d : RI d -> aggs_wf d.
Proof. intros [_ [_ [_ H]]] x Hx. destruct (H x Hx) as [Hin _]. apply ex_find. exact Hin. Qed.
Lemma reachable_aggs_wf cf d : reachable cf d -> aggs_wf d.
Proof. intros [l [Hwf ->]]. apply RI_aggs_wf. exact (proj1 (run_inv2 cf l db0 ri_db0 consiff_db0 Hwf)). Qed.

(* ================================================================ sharing providers and their anchors *)
Lemma aggs_of_In d p a : In a (aggs_of d p) <-> In (p, a) (rp_aggs d).
Proof.
  unfold aggs_of. rewrite in_map_iff. split.
  - intros [[u a'] [E H]]. cbn [snd] in E. subst a'. apply filter_In in H. destruct H as [H Eu]. cbn [fst] in Eu.
    apply Z.eqb_eq in Eu. subst u. exact H.
  - intro H. exists (p, a). split; [reflexivity|]. apply filter_In. split; [exact H|]. cbn [fst]. apply Z.eqb_refl.
Qed.
Lemma gsp_In d p : In p (get_sharing_providers d) -> ex d p /\ has_trait d p MISC_SHARES_VIA_AGGREGATE = true.
Proof.
  unfold get_sharing_providers. intro H. apply in_map_iff in H. destruct H as [r [<- Hr]]. apply filter_In in Hr.
  destruct Hr as [Hr Ht]. split; [apply in_map; exact Hr|exact Ht].
Qed.
(* the anchors of a sharing provider: the trees of the providers it shares an aggregate with *)
Lemma afsp_In d sps sp A : In (sp, A) (anchors_for_sharing_providers d sps) ->
  In sp sps /\ exists a u, In (sp, a) (rp_aggs d) /\ In (u, a) (rp_aggs d) /\ A = root_of d u.
Proof.
  unfold anchors_for_sharing_providers. intro H. apply dedup_by_In in H. apply in_flat_map in H. destruct H as [sp' [Hsp H]].
  apply in_flat_map in H. destruct H as [a [Ha H]]. apply in_map_iff in H. destruct H as [[u a'] [[= <- <-] Hx]].
  apply filter_In in Hx. destruct Hx as [Hx Ea]. cbn [snd] in Ea. apply Z.eqb_eq in Ea. subst a'. cbn [fst].
  split; [exact Hsp|]. exists a, u. split; [apply aggs_of_In; exact Ha|]. auto.
Qed.
Lemma afsp_shares d sps sp A : has_trait d sp MISC_SHARES_VIA_AGGREGATE = true ->
  In (sp, A) (anchors_for_sharing_providers d sps) -> shares_with_tree d A sp = true.
Proof.
  intros Ht H. apply afsp_In in H. destruct H as [_ [a [u [H1 [H2 ->]]]]]. unfold shares_with_tree. rewrite Ht. cbn [andb].
  apply existsb_exists. exists (sp, a). split; [exact H1|]. cbn [fst snd]. rewrite Z.eqb_refl. cbn [andb].
  apply existsb_exists. exists (u, a). split; [exact H2|]. cbn [fst snd]. rewrite !Z.eqb_refl. reflexivity.
Qed.
Lemma afsp_root d sps sp A : rps_wf d -> aggs_wf d -> In (sp, A) (anchors_for_sharing_providers d sps) -> is_root d A = true.
Proof.
  intros Hwf Hag H. apply afsp_In in H. destruct H as [_ [a [u [_ [H2 ->]]]]]. pose proof (Hag _ H2) as Hex. cbn [fst] in Hex.
  unfold ex in Hex. apply in_map_iff in Hex. destruct Hex as [r [<- Hr]]. rewrite (root_of_row d Hwf r Hr). apply (proj2 Hwf). exact Hr.
Qed.

(* ================================================================ one group on ONE provider, under any anchor *)
Definition group_creq_at (A : Z) (g : rgroup) (p : Z) : creq :=
  mkCreq A (map (fun x => mkRreq p (fst x) (snd x)) (g_resources g)) [(g_suffix g, [p])].
(* provider p is acceptable for the whole group, usable under the accepted anchor A *)
Definition group_cand_sh (d : db) (rw : rw_ctx) (g : rgroup) (c : creq) : Prop :=
  exists p A, ex d p /\ suffixed_ok d g p = true /\ in_filtered_anchors rw A = true /\ avail d A p = true /\
              is_root d A = true /\ c = group_creq_at A g p.

Section SingleProvider.
  Variable d : db.
  Hypothesis Hwf : rps_wf d.
  Hypothesis Hag : aggs_wf d.
  Let Hnd : NoDup (map rp_uuid (rps d)) := proj1 Hwf.

  (* _alloc_candidates_single_provider: the request under the provider's own tree, and - for a sharing provider -
     under every accepted anchor it shares with *)
  Lemma single_provider_cands rw g ctx built l built' : mk_rg_ctx d g = RVal ctx ->
    alloc_candidates_single_provider d rw ctx built (get_provider_ids_matching d ctx) = RVal (l, built') ->
    forall c, In c l -> group_cand_sh d rw g c.
  Proof.
    intros Hctx. destruct (mk_rg_ctx_ok d Hwf g ctx Hctx) as [_ Eg]. unfold alloc_candidates_single_provider. cbv zeta.
    destruct (is_nil (get_provider_ids_matching d ctx)); [intro H; discriminate H|]. intros [= <- _] c Hc.
    apply in_flat_map in Hc. destruct Hc as [[p root] [Ht Hc]].
    apply (matching_char d Hnd g ctx Hctx) in Ht. cbn [fst snd] in *. destruct Ht as [Hex [Eroot Hok]]. rewrite Eg in Hc.
    apply in_app_iff in Hc. destruct Hc as [Hc|Hc].
    - destruct (in_filtered_anchors rw root) eqn:Ea; [|destruct Hc]. destruct Hc as [<-|[]].
      exists p, root. split; [exact Hex|]. split; [exact Hok|]. split; [exact Ea|]. split; [|split].
      + unfold avail. rewrite Eroot, Z.eqb_refl. reflexivity.
      + unfold ex in Hex. apply in_map_iff in Hex. destruct Hex as [r [Eu Hr]]. rewrite Eroot, <- Eu, (root_of_row d Hwf r Hr).
        apply (proj2 Hwf). exact Hr.
      + unfold allocation_request_for_provider, group_creq_at. rewrite Eroot. reflexivity.
    - destruct (has_trait d p MISC_SHARES_VIA_AGGREGATE) eqn:Et; [|destruct Hc].
      apply in_flat_map in Hc. destruct Hc as [[sp A] [Ha Hc]]. cbn [fst snd] in Hc.
      destruct ((A =? root) || negb (in_filtered_anchors rw A)) eqn:E; [destruct Hc|]. destruct Hc as [<-|[]].
      apply orb_false_iff in E. destruct E as [_ E]. apply negb_false_iff in E.
      assert (Esp : sp = p) by (destruct (proj1 (afsp_In d [p] sp A Ha)) as [<-|[]]; reflexivity). subst sp.
      exists p, A. split; [exact Hex|]. split; [exact Hok|]. split; [exact E|]. split; [|split].
      + unfold avail. rewrite (afsp_shares d [p] p A Et Ha). apply orb_true_r.
      + apply (afsp_root d [p] p A Hwf Hag Ha).
      + reflexivity.
  Qed.

  Lemma one_group_sound_sh rw g ctx st l st' : use_same_provider g = true ->
    mk_rg_ctx d g = RVal ctx -> get_by_one_request d rw ctx st = RVal (l, st') ->
    st_sharing st' = st_sharing st /\ forall c, In c l -> group_cand_sh d rw g c.
  Proof.
    intros Hg Hctx. destruct (mk_rg_ctx_ok d Hwf g ctx Hctx) as [_ Eg]. unfold get_by_one_request. rewrite Eg, Hg.
    cbn [negb andb].
    destruct (alloc_candidates_single_provider d rw ctx (st_built st) (get_provider_ids_matching d ctx)) as [[l0 b]| | |] eqn:E;
      try (intro H; discriminate H). intros [= <- <-]. split; [reflexivity|].
    apply (single_provider_cands rw g ctx (st_built st) l0 b Hctx E).
  Qed.
End SingleProvider.

(* ================================================================ the unsuffixed group with sharing providers *)
(* a candidate provider of the unsuffixed group: in its own tree, or a sharing provider under a tree it shares with *)
Definition rpc_ok_sh (d : db) (rw : rw_ctx) (g : rgroup) (S : list Z) (c : rpc) : Prop :=
  ex d (pc_rp c) /\
  (pc_root c = root_of d (pc_rp c) \/ (In (pc_rp c) S /\ shares_with_tree d (pc_root c) (pc_rp c) = true)) /\
  is_root d (pc_root c) = true /\ in_filtered_anchors rw (pc_root c) = true /\
  exists amount, In (pc_rc c, amount) (g_resources g) /\ pre_slot_ok d g (pc_root c) (pc_rc c, amount) (pc_rp c) = true.

Definition un_cand_sh (d : db) (rw : rw_ctx) (g : rgroup) (c : creq) : Prop :=
  exists R ps m,
    Forall2 (fun p x => ex d p /\ avail d R p = true /\ un_slot_ok d g R x p = true) ps (g_resources g) /\
    forallb (fun any => existsb (fun p => has_some_trait d p any) ps) (g_required g) = true /\
    is_root d R = true /\ in_filtered_anchors rw R = true /\ (forall x, In x m <-> In x ps) /\ c = un_creq R g ps m.

Lemma rpc_ok_sh_avail d rw g S c : rpc_ok_sh d rw g S c -> avail d (pc_root c) (pc_rp c) = true.
Proof.
  intros [_ [[E|[_ E]] _]]; unfold avail; [rewrite <- E, Z.eqb_refl; reflexivity|rewrite E; apply orb_true_r].
Qed.

Section UnsuffixedSh.
  Variable d : db.
  Hypothesis Hwf : rps_wf d.
  Hypothesis Hag : aggs_wf d.
  Let Hnd : NoDup (map rp_uuid (rps d)) := proj1 Hwf.
  Variables (g : rgroup) (ctx : rg_ctx) (rw : rw_ctx).
  Hypothesis Hctx : mk_rg_ctx d g = RVal ctx.
  Hypothesis Hanch : rw_anchor_root_ids rw <> Some [].
  (* the (narrowed) set of sharing providers the group works with *)
  Variable S : list Z.
  Hypothesis HS1 : forall sp, In sp S -> ex d sp /\ has_trait d sp MISC_SHARES_VIA_AGGREGATE = true.
  Hypothesis HS2 : is_nil (g_member_of g) = false -> forall sp, In sp S -> In sp (rg_rps_in_aggs ctx).

  Let bad := if is_nil (g_forbidden_aggs g) then [] else provider_ids_matching_aggregates d [g_forbidden_aggs g].

  Lemma trees_for_rc_In_sh rc with_inv c :
    In c (trees_for_rc d rw ctx bad S rc with_inv) ->
    ((exists x, In x with_inv /\ c = mkRpc (fst x) (snd x) rc) \/
     (rg_tree_root ctx = None /\ exists sp A, In sp S /\ In sp (map fst with_inv) /\
        In (sp, A) (anchors_for_sharing_providers d (get_rps_with_shared_capacity S with_inv)) /\ c = mkRpc sp A rc)) /\
    in_filtered_anchors rw (pc_root c) = true /\
    (is_nil (g_forbidden_aggs g) = true \/ (~ In (pc_rp c) bad /\ ~ In (pc_root c) bad)).
  Proof.
    destruct (ctx_fields d g ctx Hctx) as [Eg _]. unfold trees_for_rc. cbv zeta. rewrite Eg.
    set (p0 := add_rps [] with_inv rc). set (sps := get_rps_with_shared_capacity S with_inv).
    assert (H0 : forall c0, In c0 p0 -> exists x, In x with_inv /\ c0 = mkRpc (fst x) (snd x) rc).
    { intros c0 H. unfold p0, add_rps in H. apply dedup_by_In in H. cbn [app] in H. apply in_map_iff in H.
      destruct H as [x [<- Hx]]. eauto. }
    set (p1 := match sps, rg_tree_root ctx with
               | _ :: _, None => add_rps p0 (anchors_for_sharing_providers d sps) rc
               | _, _ => p0
               end).
    assert (H1 : forall c0, In c0 p1 -> In c0 p0 \/
              (rg_tree_root ctx = None /\ exists a, In a (anchors_for_sharing_providers d sps) /\ c0 = mkRpc (fst a) (snd a) rc)).
    { intros c0 H. unfold p1 in H. destruct sps as [|s0 sl] eqn:Es; [left; exact H|]. rewrite <- Es in *.
      destruct (rg_tree_root ctx) as [t|]; [left; exact H|]. unfold add_rps in H. apply dedup_by_In in H.
      apply in_app_iff in H. destruct H as [H|H]; [left; exact H|right]. split; [reflexivity|]. apply in_map_iff in H.
      destruct H as [a [<- Ha]]. eauto. }
    set (p2 := match rw_anchor_root_ids rw with Some (x :: l) => filter_by_tree p1 (x :: l) | _ => p1 end).
    assert (H2 : forall c0, In c0 p2 -> In c0 p1 /\ in_filtered_anchors rw (pc_root c0) = true).
    { intros c0 H. unfold p2, in_filtered_anchors in *. destruct (rw_anchor_root_ids rw) as [[|a0 al]|].
      - contradiction Hanch; reflexivity.
      - unfold filter_by_tree in H. apply filter_In in H. exact H.
      - auto. }
    set (p3 := if is_nil (g_member_of g) then p2 else filter_by_rp_or_tree p2 (rg_rps_in_aggs ctx)).
    assert (H3 : forall c0, In c0 p3 -> In c0 p2).
    { intros c0 H. unfold p3 in H. destruct (is_nil (g_member_of g)); [exact H|].
      unfold filter_by_rp_or_tree in H. apply filter_In in H. tauto. }
    intro H.
    assert (H4 : In c p3 /\ (is_nil (g_forbidden_aggs g) = true \/ (~ In (pc_rp c) bad /\ ~ In (pc_root c) bad))).
    { destruct (is_nil (g_forbidden_aggs g)); [auto|]. unfold filter_by_rp_nor_tree in H. apply filter_In in H.
      destruct H as [H Hm]. split; [exact H|right]. apply negb_true_iff, orb_false_iff in Hm. destruct Hm as [M1 M2].
      split; intro Hi; apply memZ_In in Hi; congruence. }
    destruct H4 as [H4 Hf]. destruct (H2 c (H3 c H4)) as [H1' Ha]. split; [|auto].
    destruct (H1 c H1') as [Hc|[Et [[sp A] [Hin ->]]]]; [left; apply H0; exact Hc|right]. split; [exact Et|]. cbn [fst snd].
    exists sp, A. destruct (afsp_In d sps sp A Hin) as [Hsp _]. unfold sps, get_rps_with_shared_capacity in Hsp.
    apply interZ_In in Hsp. tauto.
  Qed.

  (* the member_of part of the slot condition, also for the entries of p0 (provider or its root in the aggregates) *)
  Lemma trees_for_rc_member rc with_inv c :
    In c (trees_for_rc d rw ctx bad S rc with_inv) ->
    is_nil (g_member_of g) = true \/ In (pc_rp c) (rg_rps_in_aggs ctx) \/ In (pc_root c) (rg_rps_in_aggs ctx).
  Proof.
    destruct (ctx_fields d g ctx Hctx) as [Eg _]. unfold trees_for_rc. cbv zeta. rewrite Eg.
    set (p2 := match rw_anchor_root_ids rw with Some (x :: l) => filter_by_tree _ (x :: l) | _ => _ end).
    set (p3 := if is_nil (g_member_of g) then p2 else filter_by_rp_or_tree p2 (rg_rps_in_aggs ctx)).
    intro H. assert (H4 : In c p3).
    { destruct (is_nil (g_forbidden_aggs g)); [exact H|]. unfold filter_by_rp_nor_tree in H. apply filter_In in H. tauto. }
    unfold p3 in H4. destruct (is_nil (g_member_of g)); [left; reflexivity|right].
    unfold filter_by_rp_or_tree in H4. apply filter_In in H4. destruct H4 as [_ Hm]. apply orb_true_iff in Hm.
    rewrite !memZ_In in Hm. exact Hm.
  Qed.

  Lemma trees_for_rc_ok_sh rc amount c : In (rc, amount) (g_resources g) ->
    In c (trees_for_rc d rw ctx bad S rc (get_providers_with_resource d rc amount (rg_tree_root ctx))) ->
    rpc_ok_sh d rw g S c /\ pc_rc c = rc.
  Proof.
    intros Hres H. pose proof (trees_for_rc_member _ _ _ H) as Hm. apply trees_for_rc_In_sh in H. destruct H as [Hc [Ha Hf]].
    destruct (ctx_fields d g ctx Hctx) as [_ [Eaggs [Etree _]]].
    assert (Hbad : forall u, ex d u -> (In u bad <-> in_some_agg d u (g_forbidden_aggs g) = true))
      by (intros u Hu; apply bad_aggs_In; exact Hu).
    (* forbidden aggregates: neither the provider nor the anchor root is in one *)
    assert (Hforb : forall p R, ex d p -> ex d R -> pc_rp c = p -> pc_root c = R -> agg_via_root d R p (g_forbidden_aggs g) = false).
    { intros p R Hexp HexR E1 E2. unfold agg_via_root. destruct (is_nil (g_forbidden_aggs g)) eqn:En.
      - assert (E0 : g_forbidden_aggs g = []) by (destruct (g_forbidden_aggs g); [reflexivity|discriminate]).
        rewrite E0, !in_some_agg_nil, andb_false_r. reflexivity.
      - destruct Hf as [Hf|[Hf1 Hf2]]; [discriminate|]. rewrite E1 in Hf1. rewrite E2 in Hf2.
        destruct (in_some_agg d p (g_forbidden_aggs g)) eqn:Q1; [exfalso; apply Hf1; apply (Hbad p Hexp); exact Q1|].
        destruct (in_some_agg d R (g_forbidden_aggs g)) eqn:Q2; [exfalso; apply Hf2; apply (Hbad R HexR); exact Q2|].
        rewrite andb_false_r. reflexivity. }
    destruct Hc as [[[p root] [Hx ->]]|[Et [sp [A [HspS [Hspinv [HA ->]]]]]]]; cbn [fst snd pc_rp pc_root pc_rc] in *.
    - (* a provider with inventory, in its own tree *)
      split; [|reflexivity]. apply (gpwr_In d) in Hx. destruct Hx as [r [F [-> [Hroom Ht]]]].
      pose proof (find_rp_l_Some _ _ _ F) as [Hr Eu].
      assert (Hex : ex d p) by (apply ex_find; eauto).
      assert (Er : rp_root r = root_of d p) by (unfold root_of; rewrite F; reflexivity).
      assert (Hisr : is_root d (rp_root r) = true) by (apply (proj2 Hwf); exact Hr).
      assert (HexR : ex d (rp_root r)) by (apply is_root_ex; exact Hisr).
      unfold rpc_ok_sh. cbn [pc_rp pc_root pc_rc]. split; [exact Hex|]. split; [left; exact Er|]. split; [exact Hisr|]. split; [exact Ha|].
      exists amount. split; [exact Hres|]. unfold pre_slot_ok. cbn [fst snd]. rewrite Hroom. cbn [andb].
      assert (M : member_of_via_root d (rp_root r) p (g_member_of g) = true).
      { unfold member_of_via_root. rewrite <- Er, Z.eqb_refl. cbn [andb]. rewrite Eaggs in Hm.
        destruct (g_member_of g) as [|m0 ms] eqn:Em; [reflexivity|]. rewrite <- Em in *.
        assert (En : is_nil (g_member_of g) = false) by (rewrite Em; reflexivity). rewrite En in Hm.
        destruct Hm as [Hm|[Hm|Hm]]; [discriminate| |]; apply matching_aggregates_In in Hm; destruct Hm as [_ [_ [_ Hm]]];
          rewrite Hm; [reflexivity|apply orb_true_r]. }
      rewrite M, (Hforb p (rp_root r) Hex HexR eq_refl eq_refl). cbn [andb negb].
      apply (tree_root_ok d g ctx Hctx p r F). exact Ht.
    - (* a sharing provider with room, under a tree it shares with *)
      split; [|reflexivity]. destruct (HS1 sp HspS) as [Hex Htr].
      assert (Hisr : is_root d A = true) by (apply (afsp_root d _ sp A Hwf Hag HA)).
      assert (HexA : ex d A) by (apply is_root_ex; exact Hisr).
      apply in_map_iff in Hspinv. destruct Hspinv as [[sp' rt] [E Hx]]. cbn [fst] in E. subst sp'.
      apply (gpwr_In d) in Hx. destruct Hx as [r [F [_ [Hroom _]]]].
      unfold rpc_ok_sh. cbn [pc_rp pc_root pc_rc]. split; [exact Hex|]. split; [right; split; [exact HspS|apply (afsp_shares d _ sp A Htr HA)]|].
      split; [exact Hisr|]. split; [exact Ha|]. exists amount. split; [exact Hres|]. unfold pre_slot_ok. cbn [fst snd].
      rewrite Hroom, (Hforb sp A Hex HexA eq_refl eq_refl). cbn [andb negb]. rewrite andb_true_r.
      assert (M : member_of_via_root d A sp (g_member_of g) = true).
      { unfold member_of_via_root. destruct (is_nil (g_member_of g)) eqn:En.
        - assert (E0 : g_member_of g = []) by (destruct (g_member_of g); [reflexivity|discriminate]). rewrite E0. reflexivity.
        - pose proof (HS2 eq_refl sp HspS) as Hin. rewrite Eaggs in Hin. try rewrite En in Hin. cbv iota in Hin. apply matching_aggregates_In in Hin.
          destruct Hin as [_ [_ [_ Hin]]]. rewrite Hin. reflexivity. }
      rewrite M. cbn [andb]. unfold in_tree_ok. destruct (g_in_tree g) as [u|]; [|reflexivity].
      destruct Etree as [tr [_ E]]. rewrite E in Et. discriminate Et.
  Qed.

  (* ---------------------------------------------------------------- the loop over the resource classes *)
  Lemma trees_loop_inv_sh : forall res acc done,
    (forall x, In x res -> exists amount, In (fst x, amount) (g_resources g) /\
                                          snd x = get_providers_with_resource d (fst x) amount (rg_tree_root ctx)) ->
    (forall c, In c acc -> rpc_ok_sh d rw g S c) -> covers acc done -> (acc = [] -> done = []) ->
    (forall c, In c (trees_loop d rw ctx bad S acc res) -> rpc_ok_sh d rw g S c) /\
    covers (trees_loop d rw ctx bad S acc res) (done ++ map fst res).
  Proof.
    induction res as [|[rc with_inv] rest IH]; intros acc done Hres Hok Hcov Hnil; cbn [trees_loop map].
    - rewrite app_nil_r. auto.
    - assert (Hempty : (forall c, In c (@nil rpc) -> rpc_ok_sh d rw g S c) /\ covers [] (done ++ fst (rc, with_inv) :: map fst rest)).
      { split; [intros c []|intros c rc' []]. }
      destruct (Hres (rc, with_inv) (or_introl eq_refl)) as [amount [Hin Ew]]. cbn [fst snd] in Hin, Ew.
      destruct (trees_for_rc d rw ctx bad S rc with_inv) as [|b0 bl] eqn:Ep; [exact Hempty|]. rewrite <- Ep in *.
      assert (Hp : forall c, In c (trees_for_rc d rw ctx bad S rc with_inv) -> rpc_ok_sh d rw g S c /\ pc_rc c = rc).
      { intros c Hc. rewrite Ew in Hc. apply (trees_for_rc_ok_sh rc amount c Hin Hc). }
      assert (Hne : trees_for_rc d rw ctx bad S rc with_inv <> []) by (rewrite Ep; discriminate).
      destruct (merge_step acc _ done rc Hne (fun c Hc => proj2 (Hp c Hc)) Hcov Hnil) as [Hcov' Hsub].
      destruct (merge_common_trees acc (trees_for_rc d rw ctx bad S rc with_inv)) as [|m0 ml] eqn:Em; [exact Hempty|].
      rewrite <- Em in *. cbn [fst]. replace (done ++ rc :: map fst rest) with ((done ++ [rc]) ++ map fst rest)
        by (rewrite <- app_assoc; reflexivity).
      apply IH.
      + intros x Hx. apply Hres. right. exact Hx.
      + intros c Hc. destruct (Hsub c Hc) as [H|H]; [apply Hok; exact H|apply Hp; exact H].
      + exact Hcov'.
      + rewrite Em. discriminate.
  Qed.

  Lemma gtma_char_sh :
    (forall c, In c (get_trees_matching_all d rw ctx S) -> rpc_ok_sh d rw g S c) /\
    covers (get_trees_matching_all d rw ctx S) (map fst (g_resources g)).
  Proof.
    destruct (ctx_fields d g ctx Hctx) as [Eg [_ [_ Ewr]]]. unfold get_trees_matching_all. cbv zeta. rewrite Eg. fold bad.
    set (provs := trees_loop d rw ctx bad S [] (rg_with_resource ctx)).
    assert (Hprovs : (forall c, In c provs -> rpc_ok_sh d rw g S c) /\ covers provs (map fst (g_resources g))).
    { assert (Emap : map fst (rg_with_resource ctx) = map fst (g_resources g)) by (rewrite Ewr, map_map; reflexivity).
      rewrite <- Emap. change (map fst (rg_with_resource ctx)) with ([] ++ map fst (rg_with_resource ctx)).
      apply trees_loop_inv_sh.
      - intros x Hx. rewrite Ewr in Hx. apply in_map_iff in Hx. destruct Hx as [[rc amount] [<- Hin]]. cbn [fst snd].
        exists amount. auto.
      - intros c [].
      - intros c rc [].
      - reflexivity. }
    destruct Hprovs as [Hok Hcov].
    destruct (is_nil provs); [split; [intros c []|intros c rc []]|].
    destruct ((is_nil (g_required g) && is_nil (g_forbidden g)) || negb (is_nil S)) eqn:Eb; [auto|].
    apply orb_false_iff in Eb. destruct Eb as [_ Eb]. apply negb_false_iff in Eb.
    assert (ES : S = []) by (destruct S; [reflexivity|discriminate]).
    set (tuples := get_trees_with_traits d (pc_rps provs) (g_required g)).
    assert (Hin : forall c, In c (filter_by_rp provs tuples) <->
                    In c provs /\ tree_cond d (pc_rps provs) (g_required g) (pc_root c) = true).
    { intro c. unfold filter_by_rp. rewrite filter_In, existsb_exists. split.
      - intros [Hc [x [Hx E]]]. apply pair_eqb_eq in E. subst x. apply gtwt_In in Hx. tauto.
      - intros [Hc Ht]. split; [exact Hc|]. exists (pc_rp c, pc_root c). split; [|apply pair_eqb_eq; reflexivity].
        apply gtwt_In. split; [apply pc_rps_In; eauto|]. split; [|exact Ht].
        destruct (Hok c Hc) as [_ [[E|[HinS _]] _]]; [exact E|]. rewrite ES in HinS. destruct HinS. }
    split.
    - intros c Hc. apply Hin in Hc. apply Hok. tauto.
    - intros c rc Hc Hrc. apply Hin in Hc. destruct Hc as [Hc Ht]. destruct (Hcov c rc Hc Hrc) as [c' [Hc' [E1 E2]]].
      exists c'. split; [|auto]. apply Hin. split; [exact Hc'|]. rewrite E1. exact Ht.
  Qed.

  (* ---------------------------------------------------------------- _alloc_candidates_multiple_providers *)
  Hypothesis Hrcs : NoDup (map fst (g_resources g)).

  Lemma alloc_requests_for_tree_ok_sh cands R c :
    (forall c0, In c0 cands -> rpc_ok_sh d rw g S c0) -> covers cands (map fst (g_resources g)) ->
    In R (pc_trees cands) ->
    In c (alloc_requests_for_tree d g cands R) -> un_cand_sh d rw g c.
  Proof.
    intros Hok Hcov HR. unfold alloc_requests_for_tree. cbv zeta.
    set (here := filter (fun c0 => pc_root c0 =? R) cands).
    apply pc_trees_In in HR. destruct HR as [cR [HcR ER]].
    assert (Ercs : filter (fun rc => existsb (fun c0 => pc_rc c0 =? rc) here) (map fst (g_resources g)) = map fst (g_resources g)).
    { apply filter_all'. intros rc Hrc. destruct (Hcov cR rc HcR Hrc) as [c' [Hc' [E1 E2]]]. apply existsb_exists. exists c'.
      split; [|apply Z.eqb_eq; exact E2]. apply filter_In. split; [exact Hc'|]. apply Z.eqb_eq. congruence. }
    rewrite Ercs. intro H. apply in_flat_map in H. destruct H as [combo [Hprod H]].
    destruct (check_traits_for_alloc_request d (map rr_rp combo) (g_required g) (g_forbidden g)) eqn:Hchk; [|destruct H].
    destruct H as [<-|[]].
    apply in_product in Hprod.
    apply (proj1 (Forall2_map_r _ (fun rc => map (fun c0 => mkRreq (pc_rp c0) rc (amount_of g rc))
                                                 (filter (fun c0 => pc_rc c0 =? rc) here)) _ _)) in Hprod.
    apply (proj1 (Forall2_map_r _ fst _ _)) in Hprod.
    unfold check_traits_for_alloc_request in Hchk. apply andb_true_iff in Hchk. destruct Hchk as [Hforb Hreq].
    assert (Hforb' : forall u, In u (map rr_rp combo) -> has_some_trait d u (g_forbidden g) = false).
    { intros u Hu. rewrite has_some_trait_existsb. apply negb_true_iff in Hforb.
      destruct (existsb (has_trait d u) (g_forbidden g)) eqn:E; [|reflexivity].
      assert (existsb (fun u0 => existsb (has_trait d u0) (g_forbidden g)) (map rr_rp combo) = true)
        by (apply existsb_exists; eauto). congruence. }
    assert (HF : Forall2 (fun rr x => rr = mkRreq (rr_rp rr) (fst x) (snd x) /\ ex d (rr_rp rr) /\ avail d R (rr_rp rr) = true /\
                                      pre_slot_ok d g R x (rr_rp rr) = true) combo (g_resources g)).
    { eapply Forall2_impl_In; [|exact Hprod]. cbv beta. intros rr x _ Hx Hrr. apply in_map_iff in Hrr.
      destruct Hrr as [c0 [<- Hc0]]. apply filter_In in Hc0. destruct Hc0 as [Hc0 Erc]. apply Z.eqb_eq in Erc.
      apply filter_In in Hc0. destruct Hc0 as [Hc0 Eroot]. apply Z.eqb_eq in Eroot.
      pose proof (rpc_ok_sh_avail d rw g S c0 (Hok c0 Hc0)) as Hav.
      destruct (Hok c0 Hc0) as [Hex [_ [_ [_ [amount [Hin Hpre]]]]]]. cbn [rr_rp].
      assert (Ea : amount_of g (fst x) = snd x) by (unfold amount_of; rewrite (find_key_nodup _ x Hrcs Hx); reflexivity).
      assert (Eam : amount = snd x).
      { apply (nodup_keys_unique (g_resources g) (fst x) amount (snd x) Hrcs); [rewrite <- Erc; exact Hin|destruct x; exact Hx]. }
      rewrite Ea. split; [reflexivity|]. split; [exact Hex|]. split; [rewrite <- Eroot; exact Hav|].
      rewrite Eroot, Erc, Eam in Hpre. destruct x; exact Hpre. }
    exists R, (map rr_rp combo), (dedup (map rr_rp combo)). split; [|split; [|split; [|split; [|split]]]].
    - apply Forall2_map_l. eapply Forall2_impl_In; [|exact HF]. cbv beta. intros rr x Hrr _ [_ [Hex [Hav Hpre]]].
      split; [exact Hex|]. split; [exact Hav|]. unfold pre_slot_ok in Hpre. unfold un_slot_ok.
      rewrite !andb_true_iff in Hpre. destruct Hpre as [[[P1 P2] P3] P4]. rewrite P1, P2, P3, P4.
      rewrite (Hforb' (rr_rp rr) (in_map rr_rp _ _ Hrr)). reflexivity.
    - rewrite forallb_forall in Hreq. apply forallb_forall. intros any Hany. specialize (Hreq any Hany).
      apply existsb_exists in Hreq. destruct Hreq as [t [Ht Hu]]. apply existsb_exists in Hu. destruct Hu as [u [Hu Htr]].
      apply existsb_exists. exists u. split; [exact Hu|]. apply has_some_trait_spec. eauto.
    - destruct (Hok cR HcR) as [_ [_ [H _]]]. rewrite ER in H. exact H.
    - destruct (Hok cR HcR) as [_ [_ [_ [H _]]]]. rewrite ER in H. exact H.
    - intro x. apply dedup_In.
    - unfold un_creq. f_equal. apply (combo_shape_gen (g_resources g)). eapply Forall2_impl; [|exact HF]. cbv beta. tauto.
  Qed.
End UnsuffixedSh.

(* ================================================================ _get_by_one_request, unsuffixed group *)
(* the mutable `sharing` set only ever shrinks *)
Definition sharing_ok (d : db) (S : list Z) : Prop := forall sp, In sp S -> In sp (get_sharing_providers d).

Lemma ctx_in_aggs_nonempty d g ctx : mk_rg_ctx d g = RVal ctx -> is_nil (g_member_of g) = false ->
  is_nil (rg_rps_in_aggs ctx) = false.
Proof.
  intros H Hm. destruct (ctx_fields d g ctx H) as [_ [Eaggs _]]. rewrite Eaggs, Hm. unfold mk_rg_ctx in H.
  destruct (negb (forallb _ (g_resources g))); [discriminate H|]. rewrite Hm in H. cbn [negb andb] in H.
  destruct (is_nil (provider_ids_matching_aggregates d (g_member_of g))); [discriminate H|reflexivity].
Qed.

Section GroupU.
  Variable d : db.
  Hypothesis Hwf : rps_wf d.
  Hypothesis Hag : aggs_wf d.
  Hypothesis Hpr : parentless_root d.
  Variable rw : rw_ctx.
  Hypothesis Hanch : rw_anchor_root_ids rw <> Some [].
  Hypothesis Htrees : rw_has_trees rw = has_provider_trees d.

  Lemma un_group_sound_sh g ctx st l st' : mk_rg_ctx d g = RVal ctx -> NoDup (map fst (g_resources g)) ->
    use_same_provider g = false -> sharing_ok d (st_sharing st) -> g_resources g <> [] ->
    get_by_one_request d rw ctx st = RVal (l, st') ->
    sharing_ok d (st_sharing st') /\ forall c, In c l -> un_cand_sh d rw g c.
  Proof.
    intros Hctx Hrcs Hu Hsh Hres. destruct (ctx_fields d g ctx Hctx) as [Eg _]. unfold get_by_one_request. rewrite Eg, Hu.
    cbn [negb andb]. destruct (negb (is_nil (st_sharing st)) || rw_has_trees rw) eqn:Eb.
    - (* resources spread over one tree and its sharing providers *)
      destruct (negb (is_nil (g_required g)) && is_nil (get_provider_ids_having_any_trait d (concat (g_required g)))); [discriminate|].
      assert (Enr : is_nil (g_resources g) = false) by (destruct (g_resources g); [contradiction Hres; reflexivity|reflexivity]).
      rewrite Enr. set (S' := narrow_sharing ctx (st_sharing st)).
      assert (Hsub : forall sp, In sp S' -> In sp (st_sharing st)).
      { intros sp H. unfold S', narrow_sharing in H. destruct (is_nil (rg_rps_in_aggs ctx)); [exact H|]. apply interZ_In in H. tauto. }
      assert (HS1 : forall sp, In sp S' -> ex d sp /\ has_trait d sp MISC_SHARES_VIA_AGGREGATE = true).
      { intros sp H. apply gsp_In. apply Hsh. apply Hsub. exact H. }
      assert (HS2 : is_nil (g_member_of g) = false -> forall sp, In sp S' -> In sp (rg_rps_in_aggs ctx)).
      { intros Hm sp H. unfold S', narrow_sharing in H. rewrite (ctx_in_aggs_nonempty d g ctx Hctx Hm) in H.
        apply interZ_In in H. tauto. }
      unfold alloc_candidates_multiple_providers.
      set (cands := get_trees_matching_all d rw ctx S'). destruct (is_nil cands); [discriminate|].
      destruct (negb (forallb _ cands)); [discriminate|]. intros [= <- <-]. cbn [st_sharing].
      split; [intros sp H; apply Hsh; apply Hsub; exact H|].
      intros c Hc. apply in_flat_map in Hc. destruct Hc as [R [HR Hc]]. rewrite Eg in Hc.
      destruct (gtma_char_sh d Hwf Hag g ctx rw Hctx Hanch S' HS1 HS2) as [Hok Hcov].
      apply (alloc_requests_for_tree_ok_sh d g rw S' Hrcs _ R c Hok Hcov HR Hc).
    - (* neither sharing providers left nor provider trees: every resource on one provider *)
      apply orb_false_iff in Eb. destruct Eb as [_ Et].
      destruct (alloc_candidates_single_provider d rw ctx (st_built st) (get_provider_ids_matching d ctx)) as [[l0 b]| | |] eqn:E;
        try (intro H; discriminate H). intros [= <- <-]. cbn [st_sharing]. split; [exact Hsh|]. intros c Hc.
      destruct (single_provider_cands d Hwf Hag rw g ctx (st_built st) l0 b Hctx E c Hc) as [p [A [Hex [Hok [Hfa [Hav [HisA ->]]]]]]].
      assert (Hself : root_of d p = p).
      { unfold ex in Hex. apply in_map_iff in Hex. destruct Hex as [r [Eu Hr]].
        rewrite <- Eu, (root_of_row d Hwf r Hr). apply Hpr; [exact Hr|]. rewrite Htrees in Et. unfold has_provider_trees in Et.
        destruct (rp_parent r) eqn:Epar; [|reflexivity]. exfalso.
        assert (existsb (fun r0 => match rp_parent r0 with Some _ => true | None => false end) (rps d) = true)
          by (apply existsb_exists; exists r; rewrite Epar; auto). congruence. }
      unfold suffixed_ok in Hok. rewrite !andb_true_iff in Hok. destruct Hok as [[[[[K1 K2] K3] K4] K5] K6].
      exists A, (map (fun _ : Z * Z => p) (g_resources g)), [p].
      assert (Hps : forall x, In x (map (fun _ : Z * Z => p) (g_resources g)) <-> x = p).
      { intro x. rewrite in_map_iff. split; [intros [y [<- _]]; reflexivity|]. intros ->.
        destruct (g_resources g) as [|y l1]; [contradiction Hres; reflexivity|]. exists y. split; [reflexivity|left; reflexivity]. }
      split; [|split; [|split; [|split; [|split]]]].
      + apply Forall2_map_self. intros x Hx. split; [exact Hex|]. split; [exact Hav|]. unfold un_slot_ok.
        rewrite forallb_forall in K1. rewrite (K1 x Hx), K3, K6. cbn [andb].
        unfold member_of_via_root, agg_via_root. rewrite K4, Hself. cbn [orb]. apply negb_true_iff in K5. rewrite K5. cbn [orb andb].
        destruct (p =? A) eqn:EpA; [apply Z.eqb_eq in EpA; subst A; rewrite K5|]; reflexivity.
      + apply forallb_forall. intros any Hany. rewrite forallb_forall in K2. apply existsb_exists. exists p.
        split; [apply Hps; reflexivity|apply K2; exact Hany].
      + exact HisA.
      + exact Hfa.
      + intro x. rewrite Hps. cbn [In]. split; [intros [<-|[]]; reflexivity|intros ->; left; reflexivity].
      + unfold group_creq_at, un_creq. f_equal.
        clear. induction (g_resources g) as [|x l0 IH]; cbn [map combine]; [reflexivity|]. rewrite <- IH. reflexivity.
  Qed.

  (* ---------------------------------------------------------------- the groups loop *)
  Definition cand_of_sh (g : rgroup) (c : creq) : Prop :=
    if use_same_provider g then group_cand_sh d rw g c else un_cand_sh d rw g c.

  Lemma groups_loop_sound_sh : forall gs st acc cands st',
    sharing_ok d (st_sharing st) ->
    (forall g, In g gs -> use_same_provider g = false -> NoDup (map fst (g_resources g)) /\ g_resources g <> []) ->
    groups_loop d rw st gs acc = RVal (cands, st') ->
    exists l2, cands = rev acc ++ l2 /\
               Forall2 (fun gl g => fst gl = g /\ forall c, In c (snd gl) -> cand_of_sh g c) l2 gs.
  Proof.
    induction gs as [|g gs IH]; intros st acc cands st' Hsh Hun; cbn [groups_loop].
    - intros [= <- _]. exists []. rewrite app_nil_r. split; [reflexivity|constructor].
    - destruct (mk_rg_ctx d g) as [ctx| | |] eqn:Ec; try discriminate.
      destruct (get_by_one_request d rw ctx st) as [[l st1]| | |] eqn:E1; try discriminate.
      destruct l as [|c0 l0] eqn:El; [discriminate|]. rewrite <- El in *. intro H.
      assert (Hstep : sharing_ok d (st_sharing st1) /\ forall c, In c l -> cand_of_sh g c).
      { unfold cand_of_sh. destruct (use_same_provider g) eqn:Hg.
        - destruct (one_group_sound_sh d Hwf Hag rw g ctx st l st1 Hg Ec E1) as [Es Hl]. split; [rewrite Es; exact Hsh|exact Hl].
        - destruct (Hun g (or_introl eq_refl) Hg) as [Hnd Hne].
          apply (un_group_sound_sh g ctx st l st1 Ec Hnd Hg Hsh Hne E1). }
      destruct Hstep as [Hsh1 Hl].
      destruct (IH st1 ((g, l) :: acc) cands st' Hsh1 (fun g' Hg' => Hun g' (or_intror Hg')) H) as [l2 [-> HF]].
      exists ((g, l) :: l2). split; [cbn [rev]; rewrite <- app_assoc; reflexivity|]. constructor; [|assumption].
      cbn [fst snd]. split; [reflexivity|exact Hl].
  Qed.
End GroupU.

(* ================================================================ the merge only reads allocations and mappings *)
Definition body (c : creq) : list rreq * list (Z * list Z) := (cr_rrs c, cr_maps c).
Lemma flat_rrs_body l : flat_map cr_rrs l = flat_map fst (map body l).
Proof. induction l as [|c l IH]; cbn [flat_map map body fst]; [reflexivity|]. rewrite IH. reflexivity. Qed.
Lemma flat_maps_body {A} (f : Z * list Z -> list A) l :
  flat_map (fun c => flat_map f (cr_maps c)) l = flat_map (fun b => flat_map f (snd b)) (map body l).
Proof. induction l as [|c l IH]; cbn [flat_map map body snd]; [reflexivity|]. rewrite IH. reflexivity. Qed.
Lemma consolidate_body l l' : map body l = map body l' ->
  cr_rrs (consolidate_allocation_requests l) = cr_rrs (consolidate_allocation_requests l') /\
  cr_maps (consolidate_allocation_requests l) = cr_maps (consolidate_allocation_requests l').
Proof.
  intro H. unfold consolidate_allocation_requests. cbn [cr_rrs cr_maps]. rewrite !flat_rrs_body, H. split; [reflexivity|].
  assert (E : forall l0, flat_map cr_maps l0 = flat_map (fun b => flat_map (fun kv => [kv]) (snd b)) (map body l0)).
  { intro l0. rewrite <- flat_maps_body. induction l0 as [|c l0 IH]; cbn [flat_map]; [reflexivity|]. rewrite IH. f_equal.
    induction (cr_maps c) as [|kv m IHm]; cbn [flat_map app]; [reflexivity|]. f_equal. exact IHm. }
  rewrite !E, H. reflexivity.
Qed.
Lemma subtree_body d ssts l l' : map body l = map body l' ->
  satisfies_same_subtree d ssts l = satisfies_same_subtree d ssts l'.
Proof.
  intro H. unfold satisfies_same_subtree. apply forallb_ext. intro sfx. rewrite !flat_maps_body, H. reflexivity.
Qed.

Lemma combo_shape_sh d rw a : forall combo' gs,
  Forall2 (fun gc g => fst gc = g /\ use_same_provider g = true /\ group_cand_sh d rw g (snd gc) /\ cr_anchor (snd gc) = a) combo' gs ->
  exists ps, map body (map snd combo') = map body (asg_creqs d ps gs) /\ flat_map first_mapping combo' = ps /\
    Forall2 (fun p g => ex d p /\ suffixed_ok d g p = true /\ avail d a p = true) ps gs.
Proof.
  intros combo' gs H. induction H as [|[g' c] g combo' gs [Eg [Hu [[p [A [Hex [Hok [Hfa [Hav [_ Ec]]]]]]] Ha]]] _ [ps [E1 [E2 HF]]]].
  - exists []. repeat split; constructor.
  - cbn [fst snd] in *. subst g' c. cbn [group_creq_at cr_anchor] in Ha. subst A. exists (p :: ps). repeat split.
    + unfold asg_creqs. cbn [map snd combine]. unfold asg_creqs in E1. rewrite E1. reflexivity.
    + cbn [flat_map]. rewrite E2. unfold first_mapping. cbn [fst snd group_creq_at cr_maps]. rewrite Hu. reflexivity.
    + constructor; [|assumption]. auto.
Qed.

Lemma compose_suffixed_sh d rw an (kl : list (rgroup * creq)) (cl : list (rgroup * list creq)) gs :
  (forall g, In g gs -> use_same_provider g = true) ->
  Forall2 (fun gc gl => fst gc = fst gl /\ In (snd gc) (snd gl) /\ cr_anchor (snd gc) = an) kl cl ->
  Forall2 (fun gl g => fst gl = g /\ forall c, In c (snd gl) -> cand_of_sh d rw g c) cl gs ->
  Forall2 (fun gc g => fst gc = g /\ use_same_provider g = true /\ group_cand_sh d rw g (snd gc) /\ cr_anchor (snd gc) = an) kl gs.
Proof.
  intros Hall H1 H2. pose proof (Forall2_compose _ _ _ _ _ H1 H2) as H. eapply Forall2_impl_In; [|exact H]. cbv beta.
  intros gc g _ Hg [gl [[E1 [Hi Ha]] [E2 Hc]]]. specialize (Hc _ Hi). unfold cand_of_sh in Hc. rewrite (Hall g Hg) in Hc.
  repeat split; try congruence; auto.
Qed.

(* ================================================================ int(capacity) against floor(capacity) *)
(* The merge tests the summed amounts against the provider summaries (capacity = int((total - reserved) * ratio)), the
   specification against the real-valued capacity (floor). They agree when the product is not negative (caps_nonneg),
   and also - whatever the inventories - when no usage is negative, because a negative product truncates to <= 0.
   caps_nonneg is NOT an invariant of the service (from 1.26 an inventory with reserved > total and a small
   allocation_ratio is accepted: int(-0.1) = 0 is not < 0); non-negative usage is. *)
Definition cap_ok (d : db) : Prop :=
  forall i amt, In i (invs d) -> 1 <= amt ->
    usage d (i_rp i) (i_rc i) + amt <= cap_trunc i -> usage d (i_rp i) (i_rc i) + amt <= cap_floor i.
Definition usage_nonneg (d : db) : Prop := forall u rc, 0 <= usage d u rc.

Lemma caps_nonneg_cap_ok d : caps_nonneg d -> cap_ok d.
Proof. intros H i amt Hi _ Hle. rewrite <- (cap_trunc_floor i (H i Hi)). exact Hle. Qed.

Lemma pow2_nonneg k : 0 <= 2 ^ k.
Proof. destruct (Z_lt_le_dec k 0) as [H|H]; [rewrite Z.pow_neg_r by exact H; lia|apply Z.pow_nonneg; lia]. Qed.
Lemma div_pow2_nonneg q k : 0 <= q -> 0 <= q / 2 ^ k.
Proof.
  intro Hq. destruct (Z.eq_dec (2 ^ k) 0) as [E|E]; [rewrite E, Zdiv_0_r; lia|].
  apply Z.div_pos; [exact Hq|]. pose proof (pow2_nonneg k). lia.
Qed.
Lemma round53_nonneg N e : 0 <= N -> 0 <= fst (round53 N e).
Proof.
  intro H. unfold round53. cbv zeta. destruct (Z.log2 N + 1 <=? 53); cbn [fst]; [exact H|].
  unfold round_shift. cbv zeta. pose proof (div_pow2_nonneg N (Z.log2 N + 1 - 53) H). destruct (_ || _); lia.
Qed.
Lemma floor_dy_nonneg q e : 0 <= q -> 0 <= floor_dy q e.
Proof.
  intro H. unfold floor_dy. destruct (0 <=? e); [pose proof (pow2_nonneg e); nia|apply div_pow2_nonneg; exact H].
Qed.
(* int() of a negative product is not positive *)
Lemma fprod_trunc_neg n m e : n * m < 0 -> fprod_trunc n m e <= 0.
Proof.
  intro H. unfold fprod_trunc. cbv zeta. destruct (0 <=? n * m) eqn:E; [apply Z.leb_le in E; lia|].
  pose proof (round53_nonneg (- (n * m)) e ltac:(lia)) as Hq. destruct (round53 (- (n * m)) e) as [q e']. cbn [fst] in Hq.
  pose proof (floor_dy_nonneg q e' Hq). lia.
Qed.
Lemma usage_nonneg_cap_ok d : usage_nonneg d -> cap_ok d.
Proof.
  intros H i amt Hi Ha Hle. destruct (Z_lt_le_dec ((i_total i - i_reserved i) * i_rm i) 0) as [Hn|Hp].
  - exfalso. pose proof (fprod_trunc_neg _ _ (i_re i) Hn) as Ht. unfold cap_trunc in Hle.
    specialize (H (i_rp i) (i_rc i)). lia.
  - rewrite <- (cap_trunc_floor i Hp). exact Hle.
Qed.

(* every summed amount of an assignment is positive when the requested amounts are *)
Lemma summed_pos q asg : amounts_pos q -> forall x, In x (summed q asg) -> 1 <= rr_amt x.
Proof.
  intro Hpos. unfold summed. apply fold_sum_pos; [intros ? []|].
  intros pl Hpl. unfold placements in Hpl. apply in_app_iff in Hpl. destruct Hpl as [Hpl|Hpl].
  - apply in_map_iff in Hpl. destruct Hpl as [[p y] [<- Hin]]. cbn [snd]. apply in_combine_r in Hin.
    unfold un_resources in Hin. destruct (unsuffixed_group q) as [g|] eqn:E; [|destruct Hin].
    apply (Hpos g (unsuffixed_in q g E) y Hin).
  - apply in_flat_map in Hpl. destruct Hpl as [[p g] [Hin Hpl]]. apply in_map_iff in Hpl.
    destruct Hpl as [y [<- Hy]]. cbn [snd]. apply in_combine_r in Hin. apply (Hpos g (suffixed_in q g Hin) y Hy).
Qed.
Lemma query_wf_amounts_pos v q : query_wf v q = true -> amounts_pos q.
Proof.
  unfold query_wf. cbv zeta. intro H.
  repeat match type of H with (_ && _ = true) => let H' := fresh "W" in apply andb_true_iff in H; destruct H as [H H'] end.
  intros g Hg x Hx.
  match goal with X : forallb (group_wf v) _ = true |- _ => rewrite forallb_forall in X; specialize (X g Hg); rename X into Hgw end.
  unfold group_wf in Hgw.
  repeat match type of Hgw with (_ && _ = true) => let H' := fresh "G" in apply andb_true_iff in Hgw; destruct Hgw as [Hgw H'] end.
  match goal with X : forallb (fun x0 => 1 <=? snd x0) (g_resources g) = true |- _ => rewrite forallb_forall in X; specialize (X x Hx) end.
  apply Z.leb_le. assumption.
Qed.

(* ================================================================ from an assignment to a candidate of the specification *)
(* the consolidated request c1 has the summed allocations of the assignment asg, whose slots are acceptable and whose
   slots pass the joint conditions: c1 is (up to same_creq) a candidate of the specification *)
Lemma sound_tail v q d asg c1 :
  rps_wf d -> parentless_root d -> cap_ok d -> amounts_pos q ->
  In (as_anchor asg) (tree_roots d) ->
  match unsuffixed_group q with
  | Some g => Forall2 (fun p x => usable d (as_anchor asg) p /\ un_slot_ok d g (as_anchor asg) x p = true) (as_un asg) (g_resources g)
  | None => as_un asg = []
  end ->
  Forall2 (fun p g => usable d (as_anchor asg) p /\ suffixed_ok d g p = true) (as_suff asg) (suffixed_groups q) ->
  forallb (has_trait d (as_anchor asg)) (qy_root_required q) = true ->
  negb (existsb (has_trait d (as_anchor asg)) (qy_root_forbidden q)) = true ->
  match unsuffixed_group q with
  | Some g => forallb (fun any => existsb (fun p => has_some_trait d p any) (as_un asg)) (g_required g)
  | None => true
  end = true ->
  match qy_policy q with GPIsolate => nodupZ (as_suff asg) | _ => true end = true ->
  forallb (fun sfx => subtree_ok d (dedup (flat_map (fun pg : Z * rgroup => if memZ (g_suffix (snd pg)) sfx then [fst pg] else [])
                                                    (combine (as_suff asg) (suffixed_groups q))))) (qy_same_subtree q) = true ->
  (forall y, In y (cr_rrs c1) <-> In y (summed q asg)) -> same_creq c1 (creq_of q asg) = true ->
  exceeds_capacity d c1 = false ->
  ((29 <=? v) || negb (has_provider_trees d) = true \/
   lenZ (dedup (map rr_rp (cr_rrs c1))) = lenZ (dedup (map (root_of d) (dedup (map rr_rp (cr_rrs c1)))))) ->
  exists c', In c' (map (creq_view v) (spec_candidates v q d)) /\ same_creq (creq_view v c1) c' = true.
Proof.
  intros Hwf Hpr Hcap Hpos HR Hun Hsuf A1 A2 Hreq Hpol Hsst Hrr Hsame Hexc Hkept.
  assert (Hps_ex : forall p, In p (as_un asg) \/ In p (as_suff asg) -> ex d p).
  { intros p [Hp|Hp].
    - destruct (unsuffixed_group q) as [g|]; [|rewrite Hun in Hp; destruct Hp].
      destruct (Forall2_In_l _ _ _ _ Hun Hp) as [x [_ [[H _] _]]]. exact H.
    - destruct (Forall2_In_l _ _ _ _ Hsuf Hp) as [g [_ [[H _] _]]]. exact H. }
  assert (Hprov : forall x, In x (summed q asg) -> In (rr_rp x) (as_un asg) \/ In (rr_rp x) (as_suff asg)).
  { intros x Hx. apply (creq_of_providers q asg (rr_rp x)). unfold creq_providers. apply in_app_iff. left. apply in_map. exact Hx. }
  assert (Hadm : admissible v q d asg).
  { unfold admissible. split; [exact HR|]. split; [exact Hun|]. split; [exact Hsuf|].
    unfold asg_ok. cbv zeta. rewrite !andb_true_iff. split; [split; [split; [split; [split; [split|]|]|]|]|]; try assumption.
    - (* capacity and max_unit of the summed amounts *)
      apply forallb_forall. intros x Hx. unfold exceeds_capacity in Hexc.
      assert (Hfx : match find_inv d (rr_rp x) (rr_rc x) with
                    | Some i => (cap_trunc i <? usage d (rr_rp x) (rr_rc x) + rr_amt x) || (i_max i <? rr_amt x)
                    | None => true end = false).
      { destruct (match find_inv d (rr_rp x) (rr_rc x) with Some i => _ | None => true end) eqn:E; [|reflexivity].
        assert (existsb (fun x0 => match find_inv d (rr_rp x0) (rr_rc x0) with
                   | Some i => (cap_trunc i <? usage d (rr_rp x0) (rr_rc x0) + rr_amt x0) || (i_max i <? rr_amt x0)
                   | None => true end) (cr_rrs c1) = true) by (apply existsb_exists; exists x; split; [apply Hrr; exact Hx|exact E]).
        congruence. }
      destruct (find_inv d (rr_rp x) (rr_rc x)) as [i|] eqn:Fi; [|discriminate].
      apply orb_false_iff in Hfx. destruct Hfx as [H1 H2]. apply Z.ltb_ge in H1, H2.
      apply find_inv_l_Some' in Fi. destruct Fi as [Hi [Ep Ec]].
      assert (H1' : usage d (i_rp i) (i_rc i) + rr_amt x <= cap_floor i).
      { apply (Hcap i (rr_amt x) Hi (summed_pos q asg Hpos x Hx)). rewrite Ep, Ec. lia. }
      rewrite Ep, Ec in H1'. apply andb_true_iff. split; apply Z.leb_le; lia.
    - (* before 1.29: one provider per tree *)
      destruct (29 <=? v) eqn:Ev; [reflexivity|]. cbn [orb].
      assert (Hperm : Permutation (dedup (map rr_rp (cr_rrs c1))) (dedup (map rr_rp (summed q asg)))).
      { apply NoDup_Permutation; try apply NoDup_dedup'. intro u. rewrite !dedup_In, !in_map_iff.
        split; intros [x [E Hx]]; exists x; (split; [exact E|apply Hrr; exact Hx]). }
      cbn [orb] in Hkept. destruct Hkept as [Hk|Hk].
      + apply negb_true_iff in Hk. apply NoDup_nodupZ.
        assert (Hid : map (root_of d) (dedup (map rr_rp (summed q asg))) = dedup (map rr_rp (summed q asg))).
        { rewrite <- (map_id (dedup (map rr_rp (summed q asg)))) at 2. apply map_ext_in. intros u Hu.
          apply (proj1 (dedup_In _ _)) in Hu. apply in_map_iff in Hu. destruct Hu as [x [<- Hx]].
          pose proof (Hps_ex (rr_rp x) (Hprov x Hx)) as Hex. unfold ex in Hex. apply in_map_iff in Hex.
          destruct Hex as [r [Eu Hr]]. rewrite <- Eu. rewrite (root_of_row d Hwf r Hr). apply Hpr; [exact Hr|].
          unfold has_provider_trees in Hk. destruct (rp_parent r) eqn:Epar; [|reflexivity]. exfalso.
          assert (existsb (fun r0 => match rp_parent r0 with Some _ => true | None => false end) (rps d) = true).
          { apply existsb_exists. exists r. rewrite Epar. auto. }
          congruence. }
        rewrite Hid. apply NoDup_dedup'.
      + apply NoDup_nodupZ. apply (Permutation_NoDup (Permutation_map (root_of d) Hperm)).
        apply dedup_length_nodup_map. unfold lenZ in *. rewrite map_length. exact Hk. }
  destruct (spec_candidates_complete v q d (creq_of q asg)) as [c'' [Hin Hsame']]; [exists asg; split; [exact Hadm|reflexivity]|].
  exists (creq_view v c''). split; [apply in_map; exact Hin|]. apply same_creq_view.
  apply (same_creq_trans c1 (creq_of q asg) c'' Hsame Hsame').
Qed.

(* ================================================================ the theorem *)
Theorem c03_sound_gen : forall v q d a s,
  rps_wf d -> parentless_root d -> cap_ok d -> aggs_wf d -> un_rcs_nodup q ->
  candidates v q d = COk a s ->
  forall c, In c a -> exists c', In c' (map (creq_view v) (spec_candidates v q d)) /\ same_creq c c' = true.
Proof.
  intros v q d a s Hwf Hpr Hcap Hag Hrcs Hcand c Hc.
  destruct (candidates_inv v q d a s Hcand) as [Hqwf [->|[anchors [cands [st [Hanch [Hloop Hfin]]]]]]]; [destruct Hc|].
  pose proof (query_wf_amounts_pos v q Hqwf) as Hpos.
  set (rw := mkRwCtx (has_provider_trees d) (29 <=? v) anchors (qy_policy q) (qy_same_subtree q)) in *.
  assert (Hsfx : NoDup (map g_suffix (qy_groups q))).
  { apply dedup_length_nodup. apply lenZ_eq. apply (query_wf_facts v q Hqwf). }
  (* the per-group candidate lists *)
  assert (Hunq : forall g, In g (qy_groups q) -> use_same_provider g = false ->
                           NoDup (map fst (g_resources g)) /\ g_resources g <> []).
  { intros g Hg Hu. assert (Hs : g_suffix g = 0).
    { unfold use_same_provider in Hu. apply negb_false_iff in Hu. apply Z.eqb_eq. exact Hu. }
    destruct (unsuffixed_group q) as [g0|] eqn:Hun.
    - assert (g = g0).
      { destruct (groups_split q g0 Hsfx Hun) as [pre [post [Egs [Hpre [Hpost _]]]]]. rewrite Egs in Hg. apply in_app_iff in Hg.
        destruct Hg as [Hg|[Hg|Hg]]; [rewrite (Hpre g Hg) in Hu; discriminate|auto|rewrite (Hpost g Hg) in Hu; discriminate]. }
      subst g0. split; [|apply (query_wf_un v q g Hqwf Hun)].
      unfold un_rcs_nodup, un_resources in Hrcs. rewrite Hun in Hrcs. exact Hrcs.
    - exfalso. unfold unsuffixed_group in Hun. pose proof (find_none _ _ Hun g Hg) as H. cbv beta in H.
      rewrite Hs in H. discriminate. }
  destruct (groups_loop_sound_sh d Hwf Hag Hpr rw (anchor_traits_nonempty d q anchors Hanch) eq_refl
              (qy_groups q) (mkRwState (get_sharing_providers d) []) [] cands st (fun sp H => H) Hunq Hloop) as [l2 [Ecands HF0]].
  cbn [rev app] in Ecands. subst l2.
  (* the candidate c *)
  unfold finish_requests, transform in Hfin.
  set (mc := merge_candidates d (st_built st) (merge_combos d rw cands)) in *.
  assert (Hmc : forall c1, In c1 (fst mc) -> exists combo, In combo (merge_combos d rw cands) /\
                  c1 = consolidate_allocation_requests combo /\ exceeds_capacity d c1 = false).
  { intros c1 H1. unfold mc, merge_candidates in H1.
    set (l := dedup_by same_creq _) in H1.
    assert (H1' : In c1 l) by (destruct l; [destruct H1|exact H1]).
    unfold l in H1'. apply dedup_by_In in H1'. apply filter_In in H1'. destruct H1' as [H1' Hx].
    apply in_map_iff in H1'. destruct H1' as [combo [<- Hcombo]]. exists combo. repeat split; try assumption.
    apply negb_true_iff. exact Hx. }
  injection Hfin as <- _. apply in_map_iff in Hc. destruct Hc as [c1 [<- Hc1]].
  assert (Hkept : In c1 (fst mc) /\
            ((29 <=? v) || negb (has_provider_trees d) = true \/
             lenZ (dedup (map rr_rp (cr_rrs c1))) = lenZ (dedup (map (root_of d) (dedup (map rr_rp (cr_rrs c1))))))).
  { unfold exclude_nested_providers in Hc1. cbn [rw_nested_aware rw_has_trees rw] in Hc1.
    destruct ((29 <=? v) || negb (has_provider_trees d)) eqn:E.
    - destruct mc. split; [exact Hc1|left; reflexivity].
    - cbn [fst] in Hc1. apply filter_In in Hc1. destruct Hc1 as [H1 H2]. split; [exact H1|right]. apply Z.eqb_eq. exact H2. }
  destruct Hkept as [Hin1 Hkept]. destruct (Hmc c1 Hin1) as [combo [Hcombo [Ec1 Hexc]]].
  destruct (merge_combos_inv d rw cands combo Hcombo) as [an [combo' [Ecombo [HF' [Hpol Hsst]]]]].
  change (same_creq (creq_view v c1)) with (same_creq (creq_view v c1)).
  assert (Hcount : length (filter (fun gl : rgroup * list creq => use_same_provider (fst gl)) cands) = length (suffixed_groups q)).
  { apply (filter_count_F2 use_same_provider (fun gl g => forall c0, In c0 (snd gl) -> cand_of_sh d rw g c0) fst cands (qy_groups q) HF0). }
  assert (Hgne : qy_groups q <> []) by apply (proj1 (query_wf_facts v q Hqwf)).
  destruct (unsuffixed_group q) as [g0|] eqn:Hun.
  - (* ---------------- the query has the unsuffixed group *)
    destruct (groups_split q g0 Hsfx Hun) as [pre [post [Egs [Hpre [Hpost [Hsg Es]]]]]].
    destruct (query_wf_un v q g0 Hqwf Hun) as [Hres0 Hsst0].
    assert (Hu0 : use_same_provider g0 = false) by (unfold use_same_provider; rewrite Es; reflexivity).
    pose proof HF0 as HF. rewrite Egs in HF.
    apply Forall2_app_inv_r in HF. destruct HF as [cpre [cmid [HFcpre [HFcmid Ecs]]]].
    inversion HFcmid as [|gl0 g0' cpost post' [Egl0 Hgl0] HFcpost]; subst g0' post' cmid.
    pose proof HF' as HFk. rewrite Ecs in HFk.
    apply Forall2_app_inv_r in HFk. destruct HFk as [kpre [kmid [HFkpre [HFkmid Eks]]]].
    inversion HFkmid as [|k0 gl0' kpost cpost' [Ek0 [Hk0in Hk0a]] HFkpost]; subst gl0' cpost' kmid.
    pose proof (compose_suffixed_sh d rw an kpre cpre pre Hpre HFkpre HFcpre) as HF2pre.
    pose proof (compose_suffixed_sh d rw an kpost cpost post Hpost HFkpost HFcpost) as HF2post.
    destruct (combo_shape_sh d rw an kpre pre HF2pre) as [pspre [Esndpre [Efirstpre HFppre]]].
    destruct (combo_shape_sh d rw an kpost post HF2post) as [pspost [Esndpost [Efirstpost HFppost]]].
    assert (L1 : length pspre = length pre) by (eapply Forall2_length; exact HFppre).
    assert (L2 : length pspost = length post) by (eapply Forall2_length; exact HFppost).
    assert (Hk0 : un_cand_sh d rw g0 (snd k0)).
    { specialize (Hgl0 _ Hk0in). unfold cand_of_sh in Hgl0. rewrite Hu0 in Hgl0. exact Hgl0. }
    destruct Hk0 as [R [ps0 [m [HFun [Hreq [HisR [HfaR [Hm Ec0]]]]]]]].
    assert (ER : R = an) by (rewrite Ec0 in Hk0a; exact Hk0a). subst R.
    set (canon := asg_creqs d pspre pre ++ un_creq an g0 ps0 m :: asg_creqs d pspost post).
    assert (Ebody : map body combo = map body canon).
    { unfold canon. rewrite Ecombo, Eks, !map_app. cbn [map]. rewrite Esndpre, Esndpost, Ec0. reflexivity. }
    destruct (consolidate_body combo canon Ebody) as [Err Emaps].
    assert (Hsfx' : NoDup (map g_suffix (pre ++ g0 :: post))) by (rewrite <- Egs; exact Hsfx).
    set (asg := mkAsg an ps0 (pspre ++ pspost)).
    destruct (consolidate_un d q an g0 pre post ps0 m pspre pspost Hun Hsg Es Hsfx' L1 L2 Hm) as [Hrr Hsame].
    fold canon in Hrr, Hsame. fold asg in Hrr, Hsame.
    assert (Hrr1 : forall y, In y (cr_rrs c1) <-> In y (summed q asg)) by (intro y; rewrite Ec1, Err; apply Hrr).
    assert (Hsame1 : same_creq c1 (creq_of q asg) = true).
    { unfold same_creq in *. rewrite Ec1, Err, Emaps. exact Hsame. }
    destruct (anchor_traits_ok d q anchors _ _ _ _ an Hanch HfaR) as [A1 A2].
    apply (sound_tail v q d asg c1 Hwf Hpr Hcap Hpos); cbn [as_anchor as_un as_suff asg]; try rewrite Hun; try rewrite Hsg; try assumption.
    + apply is_root_tree_roots. exact HisR.
    + eapply Forall2_impl; [|exact HFun]. cbv beta. intros p x [Hex [Hav Hok]]. split; [split|]; assumption.
    + apply Forall2_app; [eapply Forall2_impl; [|exact HFppre]|eapply Forall2_impl; [|exact HFppost]]; cbv beta;
        intros p g [Hex [Hok Hav]]; (split; [split|]; assumption).
    + (* group_policy *)
      cbn [rw_policy rw] in Hpol. destruct (qy_policy q); try reflexivity. cbn [satisfies_group_policy] in Hpol.
      change (lenZ (dedup (flat_map first_mapping combo')) =? lenZ (filter (fun gl => use_same_provider (fst gl)) cands) = true) in Hpol.
      assert (Efm : flat_map first_mapping combo' = pspre ++ pspost).
      { rewrite Eks, flat_map_app. cbn [flat_map]. rewrite Efirstpre, Efirstpost. unfold first_mapping at 1.
        rewrite Ek0, Egl0, Hu0. reflexivity. }
      rewrite Efm in Hpol. apply Z.eqb_eq in Hpol. apply NoDup_nodupZ. apply dedup_length_nodup. apply lenZ_eq in Hpol.
      rewrite Hpol, Hcount, Hsg, !app_length, L1, L2. reflexivity.
    + (* same_subtree *)
      cbn [rw_same_subtrees rw] in Hsst. rewrite (subtree_body d _ combo canon Ebody) in Hsst.
      unfold satisfies_same_subtree in Hsst. rewrite forallb_forall in Hsst.
      apply forallb_forall. intros sfx Hs. specialize (Hsst sfx Hs). unfold canon in Hsst.
      rewrite (subtree_lists_un d sfx an g0 ps0 m pspre pre pspost post Es (Hsst0 sfx Hs) L1) in Hsst.
      apply subtree_same. exact Hsst.
  - (* ---------------- every group is suffixed *)
    assert (Hsuf : forall g, In g (qy_groups q) -> use_same_provider g = true).
    { intros g Hg. unfold unsuffixed_group in Hun. pose proof (find_none _ _ Hun g Hg) as H. cbv beta in H.
      unfold use_same_provider. rewrite H. reflexivity. }
    assert (Hsg : suffixed_groups q = qy_groups q) by (unfold suffixed_groups; apply filter_all'; exact Hsuf).
    pose proof (compose_suffixed_sh d rw an combo' cands (qy_groups q) Hsuf HF' HF0) as HF2.
    destruct (combo_shape_sh d rw an combo' (qy_groups q) HF2) as [ps [Esnd [Efirst HFp]]].
    assert (Hlen : length ps = length (qy_groups q)) by (eapply Forall2_length; exact HFp).
    set (canon := asg_creqs d ps (qy_groups q)).
    assert (Ebody : map body combo = map body canon) by (rewrite Ecombo; exact Esnd).
    destruct (consolidate_body combo canon Ebody) as [Err Emaps].
    set (asg := mkAsg an [] ps).
    destruct (consolidate_asg d q an ps Hun) as [Err' Emaps']; [rewrite Hsg; exact Hsfx|rewrite Hsg; exact Hlen|].
    rewrite Hsg in Err', Emaps'. fold canon in Err', Emaps'. fold asg in Err', Emaps'.
    assert (Hrr1 : forall y, In y (cr_rrs c1) <-> In y (summed q asg)).
    { intro y. rewrite Ec1, Err, Err'. reflexivity. }
    assert (Hsame1 : same_creq c1 (creq_of q asg) = true).
    { unfold same_creq. rewrite Ec1, Err, Emaps, Err', Emaps'. apply same_creq_refl. }
    (* some group gives the anchor *)
    assert (Hg1 : exists g1, In g1 (qy_groups q)).
    { destruct (qy_groups q) as [|g1 gs1]; [contradiction Hgne; reflexivity|exists g1; left; reflexivity]. }
    destruct Hg1 as [g1 Hg1].
    destruct (Forall2_In_r _ _ _ _ HF2 Hg1) as [gc1 [_ [_ [_ [[p1 [A1' [_ [_ [Hfa1 [_ [HisA1 Ec1']]]]]]] Han1]]]]].
    assert (EA : A1' = an) by (rewrite Ec1' in Han1; exact Han1). subst A1'.
    destruct (anchor_traits_ok d q anchors _ _ _ _ an Hanch Hfa1) as [A1 A2].
    apply (sound_tail v q d asg c1 Hwf Hpr Hcap Hpos); cbn [as_anchor as_un as_suff asg]; try rewrite Hun; try rewrite Hsg; try assumption;
      try reflexivity.
    + apply is_root_tree_roots. exact HisA1.
    + eapply Forall2_impl; [|exact HFp]. cbv beta. intros p g [Hex [Hok Hav]]. split; [split|]; assumption.
    + (* group_policy *)
      cbn [rw_policy rw] in Hpol. destruct (qy_policy q); try reflexivity. cbn [satisfies_group_policy] in Hpol.
      change (lenZ (dedup (flat_map first_mapping combo')) =? lenZ (filter (fun gl => use_same_provider (fst gl)) cands) = true) in Hpol.
      rewrite Efirst in Hpol. apply Z.eqb_eq in Hpol. apply NoDup_nodupZ. apply dedup_length_nodup. apply lenZ_eq in Hpol.
      rewrite Hpol, Hcount, Hsg, Hlen. reflexivity.
    + (* same_subtree *)
      cbn [rw_same_subtrees rw] in Hsst. rewrite (subtree_body d _ combo canon Ebody) in Hsst.
      unfold satisfies_same_subtree in Hsst. rewrite forallb_forall in Hsst.
      apply forallb_forall. intros sfx Hs. specialize (Hsst sfx Hs). unfold canon, asg_creqs in Hsst.
      rewrite subtree_lists in Hsst. apply subtree_same. exact Hsst.
Qed.

(* with non-negative capacities (the form proved first) *)
Theorem c03_sound : forall v q d a s,
  rps_wf d -> parentless_root d -> caps_nonneg d -> aggs_wf d -> un_rcs_nodup q ->
  candidates v q d = COk a s ->
  forall c, In c a -> exists c', In c' (map (creq_view v) (spec_candidates v q d)) /\ same_creq c c' = true.
Proof.
  intros v q d a s Hwf Hpr Hcap. apply c03_sound_gen; try assumption. apply caps_nonneg_cap_ok. exact Hcap.
Qed.

(* ================================================================ every reachable state *)
Lemma chain_parentless l u top r : chain l u top -> find_rp_l l u = Some r -> rp_parent r = None -> top = u.
Proof. intros H F P. inversion H as [u0 r0 F0 P0|u0 r0 p top0 F0 P0 _]; subst; [reflexivity|]. rewrite F in F0. injection F0 as <-. congruence. Qed.
Lemma Forest_rps_wf d : Forest d -> rps_wf d.
Proof.
  intros [Hnd HF]. split; [exact Hnd|]. intros r Hr. destruct (chain_top_parentless _ _ _ (HF r Hr)) as [r' [F P]].
  unfold is_root, find_rp. rewrite F. apply Z.eqb_eq. pose proof (find_rp_l_Some _ _ _ F) as [Hr' Eu].
  pose proof (HF r' Hr') as Hc. rewrite Eu in Hc. apply (chain_parentless _ _ _ r' Hc F P).
Qed.
Lemma Forest_parentless_root d : Forest d -> parentless_root d.
Proof.
  intros [Hnd HF] r Hr P. apply (chain_parentless (rps d) (rp_uuid r) (rp_root r) r (HF r Hr)); [|exact P].
  apply find_rp_l_In; assumption.
Qed.
Lemma allocs_pos_usage_nonneg d : allocs_pos d -> usage_nonneg d.
Proof.
  intros H u rc. unfold allocs_pos in H. unfold usage. induction (allocs d) as [|a l IH] in H |- *; cbn [usage_l]; [lia|].
  assert (Ha : 0 < a_used a) by (apply H; left; reflexivity).
  assert (IH' : 0 <= usage_l l u rc) by (apply IH; intros b Hb; apply H; right; exact Hb).
  destruct (_ && _); lia.
Qed.

(* whatever the service model returns in a state reached by well-formed requests is a list of combinations of the
   specification: every database hypothesis of c03_sound_gen is an invariant *)
Theorem c03_sound_reachable : forall cf l v q a s,
  reqs_wf l -> un_rcs_nodup q ->
  candidates v q (run cf db0 l) = COk a s ->
  forall c, In c a -> exists c', In c' (map (creq_view v) (spec_candidates v q (run cf db0 l))) /\ same_creq c c' = true.
Proof.
  intros cf l v q a s Hl Hrcs. pose proof (C09.c09_invariant cf l) as HF.
  apply c03_sound_gen; try assumption.
  - apply Forest_rps_wf. exact HF.
  - apply Forest_parentless_root. exact HF.
  - apply usage_nonneg_cap_ok. apply allocs_pos_usage_nonneg. apply (C01.c01_allocs_pos_reachable cf). exists l. auto.
  - apply (reachable_aggs_wf cf). exists l. auto.
Qed.

Print Assumptions c03_sound.
Print Assumptions c03_sound_gen.
Print Assumptions c03_sound_reachable.

(* ================================================================ the hypotheses, as one executable test *)
Definition sound_db_b (d : db) : bool :=
  nodupZ (map rp_uuid (rps d)) && forallb (fun r => is_root d (rp_root r)) (rps d)
  && forallb (fun r => match rp_parent r with None => rp_root r =? rp_uuid r | Some _ => true end) (rps d)
  && forallb (fun i => 0 <=? (i_total i - i_reserved i) * i_rm i) (invs d)
  && forallb (fun x => memZ (fst x) (map rp_uuid (rps d))) (rp_aggs d).
Lemma sound_db_b_ok d : sound_db_b d = true -> rps_wf d /\ parentless_root d /\ caps_nonneg d /\ aggs_wf d.
Proof.
  unfold sound_db_b. rewrite !andb_true_iff, !forallb_forall. intros [[[[H1 H2] H3] H4] H5].
  split; [split; [apply nodupZ_NoDup; exact H1|exact H2]|]. split.
  { intros r Hr Ep. specialize (H3 r Hr). rewrite Ep in H3. apply Z.eqb_eq. exact H3. }
  split. { intros i Hi. apply Z.leb_le. exact (H4 i Hi). }
  intros x Hx. apply memZ_In. exact (H5 x Hx).
Qed.

(* ================================================================ the hypotheses are satisfiable, with sharing providers in use *)
(* reachable table: the tree 1 -> 4 (VCPU; trait 5 on the root, 7 on the child), the provider 2 (VCPU, DISK_GB) and the
   sharing providers 3 (DISK_GB, aggregate 1 with providers 1 and 2) and 5 (DISK_GB, aggregate 2 with provider 1).
   GET /allocation_candidates?resources1=DISK_GB:1&resources=VCPU:1,DISK_GB:1&required=7&member_of=<agg 1>
       &root_required=5&group_policy=none at 1.39:
   the suffixed group is served by a SHARING provider (3 or 5) under the anchor tree 1; the unsuffixed group takes VCPU
   from the child 4 (trait 7; member_of through the root 1) and DISK_GB from the sharing provider 3 *)
Definition sh_ops : list req :=
  [RpCreate 39 1 1 None; RpCreate 39 2 2 None; RpCreate 39 3 3 None; RpCreate 39 4 4 (Some 1); RpCreate 39 5 5 None;
   InvSet 39 1 0 [mkInvIn 0 8 0 1 8 1 1 0]; InvSet 39 2 0 [mkInvIn 0 8 0 1 8 1 1 0; mkInvIn 2 10 0 1 10 1 1 0];
   InvSet 39 4 0 [mkInvIn 0 4 0 1 4 1 1 0];
   InvSet 39 3 0 [mkInvIn 2 100 0 1 100 1 1 0]; InvSet 39 5 0 [mkInvIn 2 50 0 1 50 1 1 0];
   TraitsSet 39 3 1 [372]; TraitsSet 39 5 1 [372; 7]; TraitsSet 39 1 1 [5]; TraitsSet 39 4 1 [7];
   AggsSet 39 1 2 [1; 2]; AggsSet 39 2 1 [1]; AggsSet 39 3 2 [1]; AggsSet 39 5 2 [2]].
Definition sh_db : db := run (mkCfg 0 0) db0 sh_ops.
Definition sh_query : query :=
  mkQuery [mkGroup 1 [(2, 1)] [] [] [] [] None; mkGroup 0 [(0, 1); (2, 1)] [[7]] [] [[1]] [] None] GPNone None [5] [] [].
Example c03_sound_nonvacuous :
  reachable (mkCfg 0 0) sh_db /\
  rps_wf sh_db /\ parentless_root sh_db /\ caps_nonneg sh_db /\ aggs_wf sh_db /\ un_rcs_nodup sh_query /\
  get_sharing_providers sh_db = [3; 5] /\
  candidates 39 sh_query sh_db =
    COk [mkCreq (-1) [mkRreq 3 2 2; mkRreq 4 0 1] [(1, [3]); (0, [4; 3])];
         mkCreq (-1) [mkRreq 5 2 1; mkRreq 4 0 1; mkRreq 3 2 1] [(1, [5]); (0, [4; 3])]]
        (match candidates 39 sh_query sh_db with COk _ s => s | _ => [] end) /\
  spec_check 39 (candidates 39 sh_query sh_db) (spec_candidates 39 sh_query sh_db) = 0.
Proof.
  split.
  { exists sh_ops. split; [|reflexivity]. unfold reqs_wf, sh_ops. repeat constructor. }
  assert (Hb : sound_db_b sh_db = true) by (timeout 120 vm_compute; reflexivity).
  destruct (sound_db_b_ok sh_db Hb) as [H1 [H2 [H3 H4]]].
  split; [exact H1|]. split; [exact H2|]. split; [exact H3|]. split; [exact H4|]. split.
  { unfold un_rcs_nodup. cbn. constructor; [intros [E|[]]; discriminate E|]. constructor; [intros []|constructor]. }
  split; [timeout 120 vm_compute; reflexivity|]. split; timeout 120 vm_compute; reflexivity.
Qed.

(* ================================================================ why aggs_wf is needed *)
(* An UNREACHABLE table (the invariant RI of Proofs/Defs.v fails): the sharing providers 1 (VCPU) and 2 (DISK_GB) are
   each associated with an aggregate that also names the provider 9 - which does not exist. The code offers every
   sharing provider under the "tree" of 9 (anchors_for_sharing_providers joins on the association rows only), so
   resources1=VCPU:1&resources2=DISK_GB:1&group_policy=none merges {1: VCPU, 2: DISK_GB} under that anchor; the
   specification has no such combination: 1 and 2 share nothing with each other's tree. Every other hypothesis of
   c03_sound holds. This bounds the hypotheses (the service deletes a provider's associations with the provider). *)
Definition dg_db : db :=
  mkDb [mkRp 1 1 0 None 1; mkRp 2 2 0 None 2] [mkInv 1 0 8 0 1 8 1 1 0; mkInv 2 2 100 0 1 100 1 1 0]
       [] [] [] [] [] [] [] [] [(1, 1); (9, 1); (2, 2); (9, 2)] [(1, 372); (2, 372)].
Definition dg_query : query :=
  mkQuery [mkGroup 1 [(0, 1)] [] [] [] [] None; mkGroup 2 [(2, 1)] [] [] [] [] None] GPNone None [] [] [].
Example c03w_needs_aggs_wf :
  exists v q d,
    rps_wf d /\ parentless_root d /\ caps_nonneg d /\ un_rcs_nodup q /\ ~ aggs_wf d /\ ~ RI d /\
    (exists s, candidates v q d = COk [mkCreq (-1) [mkRreq 1 0 1; mkRreq 2 2 1] [(1, [1]); (2, [2])]] s) /\
    spec_candidates v q d = [].
Proof.
  exists 39, dg_query, dg_db.
  assert (Hna : ~ aggs_wf dg_db).
  { intro H. specialize (H (9, 1)). cbn [fst] in H. unfold ex in H.
    assert (Hin : In 9 (map rp_uuid (rps dg_db))) by (apply H; right; left; reflexivity).
    cbn in Hin. destruct Hin as [E|[E|[]]]; discriminate E. }
  split; [|split; [|split; [|split; [|split; [|split; [|split]]]]]].
  - split; [apply nodupZ_NoDup; timeout 120 vm_compute; reflexivity|].
    intros r [<-|[<-|[]]]; timeout 120 vm_compute; reflexivity.
  - intros r [<-|[<-|[]]] _; reflexivity.
  - intros i [<-|[<-|[]]]; timeout 120 vm_compute; discriminate.
  - constructor.
  - exact Hna.
  - intro H. apply Hna. apply RI_aggs_wf. exact H.
  - eexists. timeout 120 vm_compute. reflexivity.
  - timeout 120 vm_compute. reflexivity.
Qed.

Print Assumptions c03_sound_nonvacuous.
Print Assumptions c03w_needs_aggs_wf.
Print Assumptions reachable_aggs_wf.
