(* C03 - COMPLETENESS of the code model WITH sharing providers, under the weakest conditions found that exclude the
   corners where the code omits valid candidates; with Proofs/C03w.v (soundness for all tables): exactness.
   The corners:
   (1) anchor de-duplication (>= 2 groups, the unsuffixed group's request reachable under several anchors): the model
       answers COrderDependent - excluded by the hypothesis `candidates v q d = COk a s` itself;
   (3) a nested sharing provider whose tree cannot satisfy the request: CKeyError - excluded the same way;
   (2) in_tree on the unsuffixed group pins the anchor: a sharing provider inside that tree is not offered under the other
       anchors it shares with - excluded by in_tree_hyp;
   (4) NEW: forbidden aggregates (member_of=!agg) on the unsuffixed group are also tested on the ANCHOR root for a sharing
       provider offered under a foreign anchor (filter_by_rp_nor_tree), although the root supplies nothing to the group -
       excluded by forbidden_aggs_hyp.
   A brute-force comparison (two reachable tables with sharing providers, 13888 queries each) found no omission outside
   (2) and (4) among the answers that are candidate lists. *)
From PV Require Import Spec.CandSpec Proofs.Defs Proofs.C13 Proofs.C03 Proofs.C02 Proofs.C02m Proofs.C03e Proofs.C03s Proofs.C03c
                       Proofs.C03p Proofs.C03u Proofs.C03v Proofs.C03w.
From PV Require Import Proofs.C03r.
From PV Require Proofs.C09.
From Coq Require Import Permutation.

(* ================================================================ floor(capacity) <= int(capacity) *)
Lemma ceil_ge_floor q e : floor_dy q e <= ceil_dy q e.
Proof.
  unfold floor_dy, ceil_dy. destruct (0 <=? e) eqn:E; [lia|]. apply Z.leb_gt in E.
  assert (Hb : 0 < 2 ^ (- e)) by (apply Z.pow_pos_nonneg; lia).
  pose proof (Z.mul_div_le q (2 ^ (- e)) Hb) as H1.
  assert (H2 : (- q) / 2 ^ (- e) <= - (q / 2 ^ (- e))).
  { rewrite <- (Z.div_mul (- (q / 2 ^ (- e))) (2 ^ (- e))) by lia. apply Z.div_le_mono; [exact Hb|]. nia. }
  lia.
Qed.
Lemma cap_floor_le_trunc i : cap_floor i <= cap_trunc i.
Proof.
  unfold cap_floor, cap_trunc, fprod_floor, fprod_trunc. cbv zeta.
  destruct (0 <=? (i_total i - i_reserved i) * i_rm i); [lia|].
  destruct (round53 (- ((i_total i - i_reserved i) * i_rm i)) (i_re i)) as [q e]. pose proof (ceil_ge_floor q e). lia.
Qed.

(* ================================================================ the anchors of a sharing provider, conversely *)
Lemma afsp_intro d sps sp a u : In sp sps -> In (sp, a) (rp_aggs d) -> In (u, a) (rp_aggs d) ->
  In (sp, root_of d u) (anchors_for_sharing_providers d sps).
Proof.
  intros Hsp H1 H2. unfold anchors_for_sharing_providers.
  set (l := flat_map _ sps).
  assert (Hl : In (sp, root_of d u) l).
  { unfold l. apply in_flat_map. exists sp. split; [exact Hsp|]. apply in_flat_map. exists a. split; [apply aggs_of_In; exact H1|].
    apply in_map_iff. exists (u, a). split; [reflexivity|]. apply filter_In. split; [exact H2|]. cbn [snd]. apply Z.eqb_refl. }
  destruct (dedup_by_complete pair_eqb l _ Hl) as [y [Hy [->|E]]]; [exact Hy|]. apply pair_eqb_eq in E. subst y. exact Hy.
Qed.
Lemma shares_afsp d sps sp A : In sp sps -> shares_with_tree d A sp = true -> In (sp, A) (anchors_for_sharing_providers d sps).
Proof.
  intros Hsp H. unfold shares_with_tree in H. apply andb_true_iff in H. destruct H as [_ H]. apply existsb_exists in H.
  destruct H as [[sp' a] [H1 H]]. cbn [fst snd] in H. apply andb_true_iff in H. destruct H as [E H]. apply Z.eqb_eq in E. subst sp'.
  apply existsb_exists in H. destruct H as [[u a'] [H2 H]]. cbn [fst snd] in H. apply andb_true_iff in H. destruct H as [E1 E2].
  apply Z.eqb_eq in E1, E2. subst a' A. apply (afsp_intro d sps sp a u Hsp H1 H2).
Qed.
Lemma shares_sharing d A sp : ex d sp -> shares_with_tree d A sp = true -> In sp (get_sharing_providers d).
Proof.
  intros Hex H. unfold shares_with_tree in H. apply andb_true_iff in H. destruct H as [Ht _].
  unfold ex in Hex. apply in_map_iff in Hex. destruct Hex as [r [<- Hr]]. unfold get_sharing_providers. apply in_map.
  apply filter_In. auto.
Qed.

(* ================================================================ one suffixed group, any usable anchor *)
Lemma one_group_complete_sh d rw g ctx st p R : rps_wf d -> use_same_provider g = true -> mk_rg_ctx d g = RVal ctx ->
  ex d p -> suffixed_ok d g p = true -> avail d R p = true -> in_filtered_anchors rw R = true ->
  match get_by_one_request d rw ctx st with
  | RVal (l, _) => In (group_creq_at R g p) l
  | REmpty => False
  | _ => True
  end.
Proof.
  intros Hwf Hg Hctx Hex Hok Hav Hfa. destruct (mk_rg_ctx_ok d Hwf g ctx Hctx) as [_ Eg].
  assert (Ht : In (p, root_of d p) (get_provider_ids_matching d ctx)).
  { apply (matching_char d (proj1 Hwf) g ctx Hctx). cbn [fst snd]. auto. }
  unfold get_by_one_request. rewrite Eg, Hg. cbn [negb andb]. unfold alloc_candidates_single_provider. cbv zeta.
  destruct (get_provider_ids_matching d ctx) as [|t0 ts] eqn:Et; [destruct Ht|]. cbn [is_nil]. rewrite <- Et in Ht |- *.
  apply in_flat_map. exists (p, root_of d p). split; [exact Ht|]. cbn [fst snd]. rewrite Eg. apply in_app_iff.
  unfold avail in Hav. destruct (root_of d p =? R) eqn:Er.
  - apply Z.eqb_eq in Er. rewrite Er, Hfa. left. left. unfold allocation_request_for_provider, group_creq_at. rewrite Er. reflexivity.
  - cbn [orb] in Hav. right. pose proof Hav as Hsh. unfold shares_with_tree in Hsh. apply andb_true_iff in Hsh. destruct Hsh as [Htr _].
    rewrite Htr. apply in_flat_map. exists (p, R). split; [apply shares_afsp; [left; reflexivity|exact Hav]|]. cbn [fst snd].
    rewrite Hfa. assert (E : (R =? root_of d p) = false) by (rewrite Z.eqb_sym; exact Er). rewrite E. cbn [orb negb]. left. reflexivity.
Qed.

(* ================================================================ the unsuffixed group with sharing providers *)
(* where the code offers provider p for the unsuffixed group under the anchor R: in its own tree, or - a sharing provider
   of the working set S, no in_tree, anchor root in no forbidden aggregate - under a tree it shares with *)
Definition offered (d : db) (g : rgroup) (ctx : rg_ctx) (S : list Z) (R p : Z) : Prop :=
  root_of d p = R \/
  (In p S /\ shares_with_tree d R p = true /\ rg_tree_root ctx = None /\ in_some_agg d R (g_forbidden_aggs g) = false).

Section CompleteSh.
  Variable d : db.
  Hypothesis Hwf : rps_wf d.
  Let Hnd : NoDup (map rp_uuid (rps d)) := proj1 Hwf.
  Variables (g : rgroup) (ctx : rg_ctx) (rw : rw_ctx).
  Hypothesis Hctx : mk_rg_ctx d g = RVal ctx.
  Variable S : list Z.

  Let bad := if is_nil (g_forbidden_aggs g) then [] else provider_ids_matching_aggregates d [g_forbidden_aggs g].

  Lemma trees_for_rc_complete_sh rc amount p R :
    ex d p -> is_root d R = true -> in_filtered_anchors rw R = true -> pre_slot_ok d g R (rc, amount) p = true ->
    offered d g ctx S R p ->
    In (mkRpc p R rc) (trees_for_rc d rw ctx bad S rc (get_providers_with_resource d rc amount (rg_tree_root ctx))).
  Proof.
    intros Hex HisR Hfa Hpre Hoff. destruct (ctx_fields d g ctx Hctx) as [Eg [Eaggs _]].
    pose proof Hex as Hex'. apply (ex_find d) in Hex'. destruct Hex' as [r F].
    pose proof (find_rp_l_Some _ _ _ F) as [Hr Eu].
    assert (HexR : ex d R) by (apply is_root_ex; exact HisR).
    unfold pre_slot_ok in Hpre. cbn [fst snd] in Hpre. rewrite !andb_true_iff in Hpre. destruct Hpre as [[[P1 P2] P3] P4].
    assert (Hbad : forall u, ex d u -> (In u bad <-> in_some_agg d u (g_forbidden_aggs g) = true))
      by (intros u Hu; apply bad_aggs_In; exact Hu).
    unfold trees_for_rc. cbv zeta. rewrite Eg.
    set (with_inv := get_providers_with_resource d rc amount (rg_tree_root ctx)).
    set (p0 := add_rps [] with_inv rc). set (sps := get_rps_with_shared_capacity S with_inv).
    set (p1 := match sps, rg_tree_root ctx with
               | _ :: _, None => add_rps p0 (anchors_for_sharing_providers d sps) rc
               | _, _ => p0
               end).
    assert (Hp01 : forall c, In c p0 -> In c p1).
    { intros c Hc. unfold p1. destruct sps; [exact Hc|]. destruct (rg_tree_root ctx); [exact Hc|].
      unfold add_rps. apply dedup_rpc_In. apply in_app_iff. left. exact Hc. }
    assert (H1 : In (mkRpc p R rc) p1).
    { destruct Hoff as [ER|[HpS [Hsh [Et _]]]].
      - apply Hp01. unfold p0, add_rps. apply dedup_rpc_In. cbn [app]. apply in_map_iff. exists (p, R). split; [reflexivity|].
        apply (gpwr_In d). exists r. unfold root_of in ER. rewrite F in ER. repeat split; auto.
        apply (tree_root_ok d g ctx Hctx p r F). exact P4.
      - assert (Hin : In p sps).
        { unfold sps, get_rps_with_shared_capacity. apply interZ_In. split; [exact HpS|]. apply in_map_iff. exists (p, rp_root r).
          split; [reflexivity|]. unfold with_inv. rewrite Et. apply (gpwr_In d). exists r. auto. }
        unfold p1. destruct sps as [|s0 sl] eqn:Es; [destruct Hin|]. rewrite <- Es in *. rewrite Et.
        unfold add_rps. apply dedup_rpc_In. apply in_app_iff. right. apply in_map_iff. exists (p, R). split; [reflexivity|].
        apply shares_afsp; assumption. }
    set (p2 := match rw_anchor_root_ids rw with Some (x :: l) => filter_by_tree p1 (x :: l) | _ => p1 end).
    assert (H2 : In (mkRpc p R rc) p2).
    { unfold p2. unfold in_filtered_anchors in Hfa. destruct (rw_anchor_root_ids rw) as [[|a0 al]|]; try exact H1.
      unfold filter_by_tree. apply filter_In. split; [exact H1|exact Hfa]. }
    set (p3 := if is_nil (g_member_of g) then p2 else filter_by_rp_or_tree p2 (rg_rps_in_aggs ctx)).
    assert (H3 : In (mkRpc p R rc) p3).
    { unfold p3. destruct (is_nil (g_member_of g)) eqn:En; [exact H2|]. unfold filter_by_rp_or_tree. apply filter_In.
      split; [exact H2|]. cbn [pc_rp pc_root]. rewrite Eaggs; try rewrite En; cbv iota. unfold member_of_via_root in P2.
      apply orb_true_iff in P2. apply orb_true_iff. destruct P2 as [P2|P2]; [left|right]; apply memZ_In; apply matching_aggregates_In.
      - exists r. auto.
      - apply andb_true_iff in P2. destruct P2 as [_ P2]. unfold ex in HexR. apply in_map_iff in HexR.
        destruct HexR as [rr [Eur Hrr]]. exists rr. auto. }
    destruct (is_nil (g_forbidden_aggs g)) eqn:Enf; [exact H3|]. unfold filter_by_rp_nor_tree. apply filter_In.
    split; [exact H3|]. cbn [pc_rp pc_root]. apply negb_true_iff in P3. unfold agg_via_root in P3.
    apply orb_false_iff in P3. destruct P3 as [Q1 Q2]. apply negb_true_iff. apply orb_false_iff.
    assert (QR : in_some_agg d R (g_forbidden_aggs g) = false).
    { destruct Hoff as [ER|[_ [_ [_ H]]]]; [|exact H]. rewrite ER, Z.eqb_refl in Q2. exact Q2. }
    split.
    - destruct (memZ p bad) eqn:M; [|reflexivity]. apply memZ_In in M. apply (Hbad p Hex) in M. congruence.
    - destruct (memZ R bad) eqn:M; [|reflexivity]. apply memZ_In in M. apply (Hbad R HexR) in M. congruence.
  Qed.

  (* ---------------------------------------------------------------- the loop over the resource classes *)
  Let T (x : Z * list (Z * Z)) : list rpc := trees_for_rc d rw ctx bad S (fst x) (snd x).

  Lemma trees_loop_complete_sh R : forall res acc,
    (forall x, In x res -> exists c, In c (T x) /\ pc_root c = R) ->
    (acc = [] \/ exists c, In c acc /\ pc_root c = R) ->
    forall c, pc_root c = R -> (In c acc \/ exists x, In x res /\ In c (T x)) ->
    In c (trees_loop d rw ctx bad S acc res).
  Proof.
    induction res as [|[rc wi] rest IH]; intros acc Hall Hacc c Hc Hin; cbn [trees_loop].
    - destruct Hin as [H|[x [[] _]]]. exact H.
    - destruct (Hall (rc, wi) (or_introl eq_refl)) as [c0 [Hc0 Ec0]]. unfold T in Hc0. cbn [fst snd] in Hc0.
      assert (Hm : forall c1, pc_root c1 = R -> (In c1 acc \/ In c1 (trees_for_rc d rw ctx bad S rc wi)) ->
                   In c1 (merge_common_trees acc (trees_for_rc d rw ctx bad S rc wi))).
      { intros c1 E1 H1. unfold merge_common_trees. destruct acc as [|a0 al]; cbn [is_nil].
        - destruct H1 as [[]|H1]. exact H1.
        - assert (En : is_nil (trees_for_rc d rw ctx bad S rc wi) = false)
            by (destruct (trees_for_rc d rw ctx bad S rc wi); [destruct Hc0|reflexivity]).
          rewrite En. unfold filter_by_tree. apply filter_In. split; [apply dedup_rpc_In; apply in_app_iff; exact H1|].
          apply memZ_In. apply interZ_In. rewrite E1. split; apply pc_trees_In.
          + destruct Hacc as [E|H]; [discriminate E|exact H].
          + eauto. }
      destruct (trees_for_rc d rw ctx bad S rc wi) as [|b0 bl] eqn:Ep; [destruct Hc0|]. rewrite <- Ep in *.
      destruct (merge_common_trees acc (trees_for_rc d rw ctx bad S rc wi)) as [|m0 ml] eqn:Em.
      { exfalso. apply (Hm c0 Ec0 (or_intror Hc0)). }
      rewrite <- Em in *. apply IH.
      + intros x Hx. apply Hall. right. exact Hx.
      + right. exists c0. split; [apply Hm; auto|exact Ec0].
      + exact Hc.
      + destruct Hin as [H|[x [[<-|Hx] H]]].
        * left. apply Hm; auto.
        * left. apply Hm; auto.
        * right. eauto.
  Qed.

  (* ---------------------------------------------------------------- get_trees_matching_all *)
  Lemma gtma_complete_sh R ps0 :
    Forall2 (fun p x => ex d p /\ offered d g ctx S R p /\ pre_slot_ok d g R x p = true) ps0 (g_resources g) ->
    g_resources g <> [] -> is_root d R = true -> in_filtered_anchors rw R = true ->
    forallb (fun any => existsb (fun p => has_some_trait d p any) ps0) (g_required g) = true ->
    forall p x, In (p, x) (combine ps0 (g_resources g)) -> In (mkRpc p R (fst x)) (get_trees_matching_all d rw ctx S).
  Proof.
    intros HF Hres HisR Hfa Hreq. destruct (ctx_fields d g ctx Hctx) as [Eg [_ [_ Ewr]]].
    unfold get_trees_matching_all. cbv zeta. rewrite Eg. fold bad.
    set (provs := trees_loop d rw ctx bad S [] (rg_with_resource ctx)).
    assert (Hsel : forall p x, In (p, x) (combine ps0 (g_resources g)) ->
              In (mkRpc p R (fst x)) (T (fst x, get_providers_with_resource d (fst x) (snd x) (rg_tree_root ctx)))).
    { intros p [rc amount] Hpx. destruct (Forall2_combine _ _ _ HF _ _ Hpx) as [Hex [Hoff Hpre]]. unfold T. cbn [fst snd].
      apply trees_for_rc_complete_sh; assumption. }
    assert (Hprovs : forall p x, In (p, x) (combine ps0 (g_resources g)) -> In (mkRpc p R (fst x)) provs).
    { intros p x Hpx. unfold provs. apply (trees_loop_complete_sh R).
      - intros y Hy. rewrite Ewr in Hy. apply in_map_iff in Hy. destruct Hy as [x0 [<- Hx0]].
        destruct (Forall2_In_r _ _ _ _ HF Hx0) as [p0 [Hc _]]. exists (mkRpc p0 R (fst x0)). split; [apply Hsel; exact Hc|reflexivity].
      - left. reflexivity.
      - reflexivity.
      - right. exists (fst x, get_providers_with_resource d (fst x) (snd x) (rg_tree_root ctx)). split; [|apply Hsel; exact Hpx].
        rewrite Ewr. apply in_map_iff. exists x. split; [reflexivity|]. apply in_combine_r in Hpx. exact Hpx. }
    intros p x Hpx. pose proof (Hprovs p x Hpx) as Hin.
    destruct (is_nil provs) eqn:En; [destruct provs; [destruct Hin|discriminate En]|].
    destruct ((is_nil (g_required g) && is_nil (g_forbidden g)) || negb (is_nil S)) eqn:Eb; [exact Hin|].
    apply orb_false_iff in Eb. destruct Eb as [_ Eb]. apply negb_false_iff in Eb.
    assert (ES : S = []) by (destruct S; [reflexivity|discriminate]).
    assert (Hown : forall p1 x1, In (p1, x1) (combine ps0 (g_resources g)) -> root_of d p1 = R).
    { intros p1 x1 H1. destruct (Forall2_combine _ _ _ HF _ _ H1) as [_ [[E|[HinS _]] _]]; [exact E|]. rewrite ES in HinS. destruct HinS. }
    unfold filter_by_rp. apply filter_In. split; [exact Hin|]. cbn [pc_rp pc_root]. apply existsb_exists.
    exists (p, R). split; [|apply pair_eqb_eq; reflexivity]. apply gtwt_In.
    assert (Hgood : forall p1 x1, In (p1, x1) (combine ps0 (g_resources g)) ->
              In (p1, R) (map (fun u => (u, root_of d u)) (pc_rps provs))).
    { intros p1 x1 H1. apply in_map_iff. exists p1. split; [rewrite (Hown p1 x1 H1); reflexivity|].
      apply pc_rps_In. exists (mkRpc p1 R (fst x1)). split; [apply Hprovs; exact H1|reflexivity]. }
    split; [apply pc_rps_In; eexists; split; [exact Hin|reflexivity]|]. split; [symmetry; apply (Hown p x Hpx)|].
    unfold tree_cond. cbv zeta. destruct (g_required g) as [|r0 rs] eqn:Ereq.
    - apply memZ_In. apply in_map_iff. exists (p, R). split; [reflexivity|]. apply (Hgood p x Hpx).
    - rewrite <- Ereq in *. rewrite forallb_forall in Hreq. apply forallb_forall. intros any Hany. specialize (Hreq any Hany).
      apply existsb_exists in Hreq. destruct Hreq as [p1 [Hp1 Htr]]. apply has_some_trait_spec in Htr. destruct Htr as [t [Ht Htr]].
      apply existsb_exists. exists t. split; [exact Ht|]. apply existsb_exists. exists (p1, R). cbn [fst snd].
      split; [|rewrite Z.eqb_refl, Htr; reflexivity].
      destruct (Forall2_In_l _ _ _ _ HF Hp1) as [x1 [H1 _]]. apply (Hgood p1 x1 H1).
  Qed.
End CompleteSh.

(* ================================================================ _get_by_one_request, unsuffixed group *)
Lemma un_group_complete_sh d g ctx rw st R ps0 : rps_wf d -> parentless_root d -> mk_rg_ctx d g = RVal ctx ->
  NoDup (map fst (g_resources g)) -> use_same_provider g = false -> st_sharing st = get_sharing_providers d ->
  rw_has_trees rw = has_provider_trees d -> g_resources g <> [] ->
  Forall2 (fun p x => ex d p /\ avail d R p = true /\ un_slot_ok d g R x p = true) ps0 (g_resources g) ->
  is_root d R = true ->
  forallb (fun any => existsb (fun p => has_some_trait d p any) ps0) (g_required g) = true ->
  in_filtered_anchors rw R = true ->
  (g_in_tree g <> None -> forall p, In p ps0 -> root_of d p = R) ->
  (forall p, In p ps0 -> root_of d p <> R -> in_some_agg d R (g_forbidden_aggs g) = false) ->
  match get_by_one_request d rw ctx st with
  | RVal (l, _) => In (un_creq R g ps0 (dedup ps0)) l
  | REmpty => False
  | _ => True
  end.
Proof.
  intros Hwf Hpr Hctx Hrcs Hu Hsh Htrees Hres HF HisR Hreq Hfa Hit Hforb.
  destruct (get_sharing_providers d) as [|s0 sl] eqn:Egsp.
  - (* no sharing provider at all *)
    apply (un_group_complete d Hwf g ctx rw Hctx Hrcs Hpr st R ps0 Hu Hsh Htrees Hres); try assumption.
    eapply Forall2_impl; [|exact HF]. cbv beta. intros p x [Hex [Hav Hok]].
    destruct (usable_root d Egsp R p (conj Hex Hav)) as [_ Er]. auto.
  - rewrite <- Egsp in *. destruct (ctx_fields d g ctx Hctx) as [Eg [Eaggs [Etree _]]].
    assert (Hlen : length ps0 = length (g_resources g)) by (eapply Forall2_length; exact HF).
    unfold get_by_one_request. rewrite Eg, Hu, Hsh.
    assert (Enn : negb (is_nil (get_sharing_providers d)) = true) by (rewrite Egsp; reflexivity). rewrite Enn. cbn [negb andb orb].
    assert (E1 : negb (is_nil (g_required g)) && is_nil (get_provider_ids_having_any_trait d (concat (g_required g))) = false).
    { destruct (g_required g) as [|any rs] eqn:Er; [reflexivity|]. rewrite <- Er in *. 
      assert (Hany : In any (g_required g)) by (rewrite Er; left; reflexivity).
      rewrite forallb_forall in Hreq. specialize (Hreq any Hany). apply existsb_exists in Hreq. destruct Hreq as [u [_ Htr]].
      apply has_some_trait_spec in Htr. destruct Htr as [t [Ht Htr]].
      assert (Hin : In u (get_provider_ids_having_any_trait d (concat (g_required g)))).
      { apply having_any_trait_In. apply has_some_trait_spec. exists t. split; [|exact Htr]. apply in_concat. eauto. }
      rewrite Er in *. cbn [is_nil negb andb]. destruct (get_provider_ids_having_any_trait d (concat (any :: rs))); [destruct Hin|reflexivity]. }
    rewrite E1.
    assert (Enr : is_nil (g_resources g) = false) by (destruct (g_resources g); [contradiction Hres; reflexivity|reflexivity]).
    rewrite Enr. set (S' := narrow_sharing ctx (get_sharing_providers d)).
    (* every slot is offered *)
    assert (HF' : Forall2 (fun p x => ex d p /\ offered d g ctx S' R p /\ pre_slot_ok d g R x p = true) ps0 (g_resources g)).
    { eapply Forall2_impl_In; [|exact HF]. cbv beta. intros p x Hp _ [Hex [Hav Hok]]. split; [exact Hex|].
      unfold un_slot_ok in Hok. rewrite !andb_true_iff in Hok. destruct Hok as [[[[S1 _] S3] S4] S5].
      split; [|unfold pre_slot_ok; rewrite S1, S3, S4, S5; reflexivity].
      destruct (Z.eq_dec (root_of d p) R) as [ER|NR]; [left; exact ER|right].
      assert (Hshare : shares_with_tree d R p = true).
      { unfold avail in Hav. apply orb_true_iff in Hav. destruct Hav as [E|E]; [apply Z.eqb_eq in E; contradiction|exact E]. }
      split; [|split; [exact Hshare|split; [|apply (Hforb p Hp NR)]]].
      + unfold S', narrow_sharing. pose proof (shares_sharing d R p Hex Hshare) as Hg.
        destruct (is_nil (rg_rps_in_aggs ctx)) eqn:En; [exact Hg|]. apply interZ_In. split; [exact Hg|].
        rewrite Eaggs in En |- *. destruct (is_nil (g_member_of g)); [discriminate En|].
        apply matching_aggregates_In. unfold ex in Hex. apply in_map_iff in Hex. destruct Hex as [r [Eu Hr]]. exists r.
        split; [exact Hr|]. split; [exact Eu|]. unfold member_of_via_root in S3. apply orb_true_iff in S3.
        destruct S3 as [S3|S3]; [exact S3|]. apply andb_true_iff in S3. destruct S3 as [E _]. apply Z.eqb_eq in E. contradiction.
      + destruct (g_in_tree g) as [u|] eqn:Eit; [|exact Etree]. exfalso. apply NR. apply Hit; [discriminate|exact Hp]. }
    unfold alloc_candidates_multiple_providers.
    set (cands := get_trees_matching_all d rw ctx S').
    assert (Hc : forall p x, In (p, x) (combine ps0 (g_resources g)) -> In (mkRpc p R (fst x)) cands)
      by (apply (gtma_complete_sh d g ctx rw Hctx S' R ps0); assumption).
    assert (Hne : exists p0 x0, In (p0, x0) (combine ps0 (g_resources g))).
    { destruct HF as [|p0 x0 ps res _ _]; [contradiction Hres; reflexivity|]. exists p0, x0. left. reflexivity. }
    destruct Hne as [p0 [x0 H0]]. pose proof (Hc p0 x0 H0) as Hin0.
    destruct (is_nil cands) eqn:En; [destruct cands; [destruct Hin0|discriminate En]|].
    destruct (negb (forallb _ cands)); [exact I|].
    apply in_flat_map. exists R. split; [apply pc_trees_In; eexists; split; [exact Hin0|reflexivity]|].
    rewrite Eg. apply (alloc_requests_for_tree_complete d g Hrcs cands R ps0 Hlen Hc); [|exact Hreq].
    intros p Hp. destruct (Forall2_In_l _ _ _ _ HF Hp) as [x [_ [_ [_ Hok]]]]. unfold un_slot_ok in Hok.
    rewrite !andb_true_iff, !negb_true_iff in Hok. tauto.
Qed.

(* the search context of the unsuffixed group exists *)
Lemma un_ctx_not_empty_sh d g R ps0 : g_resources g <> [] -> is_root d R = true ->
  Forall2 (fun p x => ex d p /\ avail d R p = true /\ un_slot_ok d g R x p = true) ps0 (g_resources g) ->
  mk_rg_ctx d g <> REmpty.
Proof.
  intros Hres HisR HF.
  assert (Hlen : length ps0 = length (g_resources g)) by (eapply Forall2_length; exact HF).
  assert (Hslot : forall p x, In (p, x) (combine ps0 (g_resources g)) ->
            exists r, find_rp d p = Some r /\ has_room d p (fst x) (snd x) = true /\
                      member_of_via_root d R p (g_member_of g) = true /\ in_tree_ok d g p = true).
  { intros p x H. destruct (Forall2_combine _ _ _ HF _ _ H) as [Hex [_ Hok]]. unfold un_slot_ok in Hok.
    rewrite !andb_true_iff in Hok. apply (ex_find d) in Hex. destruct Hex as [r F]. exists r. tauto. }
  assert (Hne : exists p0 x0, In (p0, x0) (combine ps0 (g_resources g))).
  { destruct HF as [|p0 x0 ps res _ _]; [contradiction Hres; reflexivity|]. exists p0, x0. left. reflexivity. }
  destruct Hne as [p0 [x0 H0]]. destruct (Hslot p0 x0 H0) as [r0 [F0 [_ [Hm0 Ht0]]]].
  pose proof (find_rp_l_Some _ _ _ F0) as [Hr0 Eu0].
  unfold mk_rg_ctx. destruct (negb (forallb _ (g_resources g))); [discriminate|].
  destruct (negb (is_nil (g_member_of g)) &&
            is_nil (if is_nil (g_member_of g) then [] else provider_ids_matching_aggregates d (g_member_of g))) eqn:Em.
  { exfalso. apply andb_true_iff in Em. destruct Em as [Em1 Em2]. apply negb_true_iff in Em1. rewrite Em1 in Em2.
    assert (Hin : exists u, In u (provider_ids_matching_aggregates d (g_member_of g))).
    { unfold member_of_via_root in Hm0. apply orb_true_iff in Hm0. destruct Hm0 as [Hm0|Hm0].
      - exists p0. apply matching_aggregates_In. exists r0. auto.
      - apply andb_true_iff in Hm0. destruct Hm0 as [_ Hm0]. exists R. apply matching_aggregates_In.
        apply is_root_ex in HisR. unfold ex in HisR. apply in_map_iff in HisR. destruct HisR as [rr [Eur Hrr]]. exists rr. auto. }
    destruct Hin as [u Hin]. destruct (provider_ids_matching_aggregates d (g_member_of g)); [destruct Hin|discriminate]. }
  destruct (negb (forallb (forallb (trait_exists d)) (g_required g) && forallb (trait_exists d) (g_forbidden g))); [discriminate|].
  assert (Ht : exists t, (match g_in_tree g with
                          | None => Some None
                          | Some u => match find_rp d u with Some r1 => Some (Some (rp_root r1)) | None => None end
                          end) = Some t /\
                         forall p x r, In (p, x) (combine ps0 (g_resources g)) -> find_rp d p = Some r ->
                                       match t with Some t0 => rp_root r = t0 | None => True end).
  { destruct (g_in_tree g) as [u|] eqn:Eit; [|exists None; split; [reflexivity|intros; exact I]].
    unfold in_tree_ok in Ht0. rewrite Eit in Ht0. destruct (find_rp d u) as [tr|] eqn:Fu; [|discriminate].
    exists (Some (rp_root tr)). split; [reflexivity|]. intros p x r Hpx F. destruct (Hslot p x Hpx) as [r' [F' [_ [_ Hit]]]].
    unfold in_tree_ok in Hit. rewrite Eit, Fu in Hit. apply Z.eqb_eq in Hit. unfold root_of in Hit. rewrite F in Hit. exact Hit. }
  destruct Ht as [t [-> Ht]].
  destruct (rps_with_resource_all d t (g_resources g)) eqn:E; [discriminate|]. exfalso.
  apply (rwra_some d t (g_resources g)); [|exact E]. intros x Hx.
  destruct (in_combine_r_ex ps0 _ x Hlen Hx) as [p Hp]. destruct (Hslot p x Hp) as [r [F [Hroom _]]].
  assert (Hin : In (p, rp_root r) (get_providers_with_resource d (fst x) (snd x) t)).
  { apply (gpwr_In d). exists r. repeat split; try assumption. apply (Ht p x r Hp F). }
  intro E0. rewrite E0 in Hin. destruct Hin.
Qed.

(* ================================================================ the groups loop *)
Definition produces_sh (d : db) (rw : rw_ctx) (w : creq) (g : rgroup) : Prop :=
  mk_rg_ctx d g <> REmpty /\
  forall ctx st, mk_rg_ctx d g = RVal ctx -> (use_same_provider g = false -> st_sharing st = get_sharing_providers d) ->
    match get_by_one_request d rw ctx st with RVal (l, _) => In w l | REmpty => False | _ => True end.
(* at most one group is the unsuffixed one *)
Fixpoint one_un (gs : list rgroup) : Prop :=
  match gs with
  | [] => True
  | g :: r => (use_same_provider g = false -> forall g', In g' r -> use_same_provider g' = true) /\ one_un r
  end.

Lemma groups_loop_complete_sh d rw : rps_wf d -> forall ws gs, Forall2 (produces_sh d rw) ws gs -> one_un gs ->
  forall st acc, (forall g, In g gs -> use_same_provider g = false -> st_sharing st = get_sharing_providers d) ->
  match groups_loop d rw st gs acc with
  | RVal (cands, _) => exists l2, cands = rev acc ++ l2 /\
      Forall2 (fun wg gl => snd wg = fst gl /\ In (fst wg) (snd gl)) (combine ws gs) l2
  | REmpty => False
  | _ => True
  end.
Proof.
  intro Hwf. induction 1 as [|w g ws gs [Hne Hprod] HF IH]; intros Hone st acc HJ; cbn [groups_loop combine].
  - exists []. rewrite app_nil_r. split; [reflexivity|constructor].
  - destruct Hone as [Hone1 Hone]. destruct (mk_rg_ctx d g) as [ctx| | |] eqn:Ec; try exact I; [|apply Hne; reflexivity].
    pose proof (Hprod ctx st eq_refl (HJ g (or_introl eq_refl))) as H1.
    destruct (get_by_one_request d rw ctx st) as [[l st1]| | |] eqn:E1; try exact I; [|exact H1].
    destruct l as [|c0 l0] eqn:El; [destruct H1|]. rewrite <- El in *.
    assert (HJ1 : forall g', In g' gs -> use_same_provider g' = false -> st_sharing st1 = get_sharing_providers d).
    { intros g' Hg' Hu'. destruct (use_same_provider g) eqn:Hg.
      - rewrite (suffixed_keeps_sharing d rw g ctx st l st1 Hg (proj2 (mk_rg_ctx_ok d Hwf g ctx Ec)) E1).
        apply (HJ g' (or_intror Hg') Hu').
      - rewrite (Hone1 eq_refl g' Hg') in Hu'. discriminate. }
    specialize (IH Hone st1 ((g, l) :: acc) HJ1).
    destruct (groups_loop d rw st1 gs ((g, l) :: acc)) as [[cands st2]| | |]; try exact I; [|exact IH].
    destruct IH as [l2 [-> HF2]]. exists ((g, l) :: l2). split; [cbn [rev]; rewrite <- app_assoc; reflexivity|].
    constructor; [|exact HF2]. cbn [fst snd]. split; [reflexivity|exact H1].
Qed.

Definition asg_creqs_at (R : Z) (ps : list Z) (gs : list rgroup) : list creq :=
  map (fun pg => group_creq_at R (snd pg) (fst pg)) (combine ps gs).

Lemma produces_suffixed_sh d rw R : rps_wf d -> in_filtered_anchors rw R = true -> forall ps gs,
  (forall g, In g gs -> use_same_provider g = true) ->
  Forall2 (fun p g => ex d p /\ avail d R p = true /\ suffixed_ok d g p = true) ps gs ->
  Forall2 (produces_sh d rw) (asg_creqs_at R ps gs) gs.
Proof.
  intros Hwf Hfa ps gs Hall HF. unfold asg_creqs_at. induction HF as [|p g ps gs [Hex [Hav Hok]] _ IH]; cbn [combine map]; constructor.
  - cbn [fst snd]. split; [apply (mk_rg_ctx_not_empty d g p Hex Hok)|]. intros ctx st Hc _.
    apply (one_group_complete_sh d rw g ctx st p R); try assumption. apply Hall. left. reflexivity.
  - apply IH. intros g' Hg'. apply Hall. right. exact Hg'.
Qed.
Lemma asg_creqs_at_length R ps gs : length ps = length gs -> length (asg_creqs_at R ps gs) = length gs.
Proof. intro E. unfold asg_creqs_at. rewrite map_length, combine_length, E. apply Nat.min_id. Qed.
Lemma swap_combine_at R : forall ps gs, length ps = length gs ->
  map (fun wg : creq * rgroup => (snd wg, fst wg)) (combine (asg_creqs_at R ps gs) gs) =
  map (fun pg : Z * rgroup => (snd pg, group_creq_at R (snd pg) (fst pg))) (combine ps gs).
Proof.
  unfold asg_creqs_at. induction ps as [|p ps IH]; intros [|g gs] E; cbn [length] in E; try discriminate; cbn [combine map]; [reflexivity|].
  cbn [fst snd]. rewrite IH; [reflexivity|lia].
Qed.
Lemma first_mapping_pairs_at R : forall ps gs, (forall g, In g gs -> use_same_provider g = true) -> length ps = length gs ->
  flat_map first_mapping (map (fun pg : Z * rgroup => (snd pg, group_creq_at R (snd pg) (fst pg))) (combine ps gs)) = ps.
Proof.
  induction ps as [|p ps IH]; intros [|g gs] Hall Hlen; cbn [length] in Hlen; try discriminate; [reflexivity|].
  cbn [combine map flat_map]. rewrite IH; [|intros g' Hg'; apply Hall; right; exact Hg'|lia].
  unfold first_mapping. cbn [fst snd group_creq_at cr_maps]. rewrite (Hall g (or_introl eq_refl)). reflexivity.
Qed.
Lemma asg_body d R ps gs : map body (asg_creqs_at R ps gs) = map body (asg_creqs d ps gs).
Proof. unfold asg_creqs_at, asg_creqs. rewrite !map_map. apply map_ext. intros [p g]. reflexivity. Qed.
Lemma tree_roots_is_root d R : NoDup (map rp_uuid (rps d)) -> In R (tree_roots d) -> is_root d R = true.
Proof.
  intros Hnd H. unfold tree_roots in H. apply in_map_iff in H. destruct H as [r [<- Hr]]. apply filter_In in Hr. destruct Hr as [Hr E].
  unfold is_root. assert (F : find_rp d (rp_uuid r) = Some r) by (apply find_rp_iff; auto). rewrite F. exact E.
Qed.
Lemma nodup_one_un gs : NoDup (map g_suffix gs) -> one_un gs.
Proof.
  induction gs as [|g gs IH]; cbn [map one_un]; [auto|]. intro H. inversion H as [|? ? Hn Hl]; subst. split; [|apply IH; exact Hl].
  intros Hu g' Hg'. unfold use_same_provider in *. apply negb_false_iff in Hu. apply Z.eqb_eq in Hu. apply negb_true_iff.
  destruct (g_suffix g' =? 0) eqn:E; [|reflexivity]. apply Z.eqb_eq in E. exfalso. apply Hn. rewrite Hu, <- E. apply in_map. exact Hg'.
Qed.

(* ================================================================ the two conditions *)
(* (2) no sharing provider lying in the tree named by in_tree of the unsuffixed group shares with another tree *)
Definition in_tree_hyp (q : query) (d : db) : bool :=
  match unsuffixed_group q with
  | Some g =>
      match g_in_tree g with
      | None => true
      | Some _ => forallb (fun sp => negb (in_tree_ok d g sp) ||
                                    forallb (fun A => negb (shares_with_tree d A sp) || (root_of d sp =? A)) (tree_roots d))
                          (get_sharing_providers d)
      end
  | None => true
  end.
(* (4) no root of a tree that a sharing provider shares with (other than its own) is in a forbidden aggregate of the
   unsuffixed group *)
Definition forbidden_aggs_hyp (q : query) (d : db) : bool :=
  match unsuffixed_group q with
  | Some g => forallb (fun sp => forallb (fun A => negb (shares_with_tree d A sp) || (root_of d sp =? A) ||
                                                   negb (in_some_agg d A (g_forbidden_aggs g))) (tree_roots d))
                      (get_sharing_providers d)
  | None => true
  end.

(* ================================================================ the theorem *)
Theorem c03_complete_sharing : forall v q d a s,
  rps_wf d -> parentless_root d -> un_rcs_nodup q -> anchors_hyp q d ->
  in_tree_hyp q d = true -> forbidden_aggs_hyp q d = true ->
  candidates v q d = COk a s ->
  forall c', In c' (map (creq_view v) (spec_candidates v q d)) -> exists c, In c a /\ same_creq c c' = true.
Proof.
  intros v q d a s Hwf Hpr Hrcs Hah Hith Hfah Hcand c' Hc'.
  apply in_map_iff in Hc'. destruct Hc' as [s0 [<- Hs0]]. apply spec_candidates_correct in Hs0.
  destruct Hs0 as [asg0 [Hadm ->]].
  destruct (candidates_inv' v q d a s Hcand) as [Hqwf Hinv].
  assert (Hsfx : NoDup (map g_suffix (qy_groups q))).
  { apply dedup_length_nodup. apply lenZ_eq. apply (query_wf_facts v q Hqwf). }
  assert (Hgne : qy_groups q <> []) by apply (proj1 (query_wf_facts v q Hqwf)).
  destruct asg0 as [R un ps]. unfold admissible in Hadm. cbn [as_anchor as_un as_suff] in Hadm.
  destruct Hadm as [HR [HFun0 [HFp0 Hok]]].
  assert (HisR : is_root d R = true) by (apply tree_roots_is_root; [apply Hwf|exact HR]).
  unfold asg_ok in Hok. cbn [as_anchor as_un as_suff] in Hok.
  rewrite !andb_true_iff in Hok. destruct Hok as [[[[[[Hreq Hforb] Hunreq] Hpol] Hsst] Hcapok] Hnest].
  (* the anchor is accepted *)
  pose proof (anchor_complete d q R Hah HR Hreq Hforb) as Hanch. revert Hinv Hanch.
  destruct (process_anchor_traits d q) as [anchors| | |]; intros Hinv Hanch; try contradiction.
  set (rw := mkRwCtx (has_provider_trees d) (29 <=? v) anchors (qy_policy q) (qy_same_subtree q)) in *.
  assert (Hfa : in_filtered_anchors rw R = true) by apply Hanch.
  (* the split of the groups: pre ++ [unsuffixed]? ++ post *)
  assert (Hsplit : exists pre mid post wmid,
            qy_groups q = pre ++ mid ++ post /\ suffixed_groups q = pre ++ post /\
            (forall g, In g pre -> use_same_provider g = true) /\ (forall g, In g post -> use_same_provider g = true) /\
            Forall2 (produces_sh d rw) wmid mid /\ (forall w, In w wmid -> cr_anchor w = R) /\
            (forall gc, In gc (combine wmid mid) -> first_mapping (snd gc, fst gc) = []) /\
            forall pspre pspost, length pspre = length pre -> length pspost = length post -> ps = pspre ++ pspost ->
              let canon := asg_creqs d pspre pre ++ wmid ++ asg_creqs d pspost post in
              (forall y, In y (cr_rrs (consolidate_allocation_requests canon)) <-> In y (summed q (mkAsg R un ps))) /\
              same_creq (consolidate_allocation_requests canon) (creq_of q (mkAsg R un ps)) = true /\
              forall sfx, In sfx (qy_same_subtree q) ->
                flat_map (fun c => flat_map (fun kv : Z * list Z => if memZ (fst kv) sfx then snd kv else []) (cr_maps c)) canon =
                flat_map (fun pg : Z * rgroup => if memZ (g_suffix (snd pg)) sfx then [fst pg] else []) (combine ps (pre ++ post))).
  { destruct (unsuffixed_group q) as [g0|] eqn:Hun.
    - destruct (groups_split q g0 Hsfx Hun) as [pre [post [Egs [Hpre [Hpost [Hsg Es]]]]]].
      destruct (query_wf_un v q g0 Hqwf Hun) as [Hres0 Hsst0].
      assert (Hrcs0 : NoDup (map fst (g_resources g0))).
      { unfold un_rcs_nodup, un_resources in Hrcs. rewrite Hun in Hrcs. exact Hrcs. }
      assert (Hu0 : use_same_provider g0 = false) by (unfold use_same_provider; rewrite Es; reflexivity).
      assert (HFun : Forall2 (fun p x => ex d p /\ avail d R p = true /\ un_slot_ok d g0 R x p = true) un (g_resources g0)).
      { eapply Forall2_impl; [|exact HFun0]. cbv beta. intros p x [[Hex Hav] Hs]. auto. }
      (* the two conditions, for the providers of the assignment *)
      assert (Hforeign : forall p, In p un -> root_of d p <> R ->
                ex d p /\ shares_with_tree d R p = true /\ In p (get_sharing_providers d)).
      { intros p Hp NR. destruct (Forall2_In_l _ _ _ _ HFun Hp) as [x [_ [Hex [Hav _]]]]. unfold avail in Hav.
        apply orb_true_iff in Hav. destruct Hav as [E|E]; [apply Z.eqb_eq in E; contradiction|].
        split; [exact Hex|]. split; [exact E|]. apply (shares_sharing d R p Hex E). }
      assert (Hit : g_in_tree g0 <> None -> forall p, In p un -> root_of d p = R).
      { intros Hn p Hp. destruct (Z.eq_dec (root_of d p) R) as [E|NR]; [exact E|exfalso].
        destruct (Hforeign p Hp NR) as [Hex [Hsh Hg]]. unfold in_tree_hyp in Hith. rewrite Hun in Hith.
        destruct (g_in_tree g0) as [u|] eqn:Eit; [|contradiction Hn; reflexivity]. rewrite forallb_forall in Hith.
        specialize (Hith p Hg). destruct (Forall2_In_l _ _ _ _ HFun Hp) as [x [_ [_ [_ Hok]]]]. unfold un_slot_ok in Hok.
        rewrite !andb_true_iff in Hok. destruct Hok as [_ Hin]. rewrite Hin in Hith. cbn [negb orb] in Hith.
        rewrite forallb_forall in Hith. specialize (Hith R HR). rewrite Hsh in Hith. cbn [negb orb] in Hith.
        apply Z.eqb_eq in Hith. contradiction. }
      assert (Hfaggs : forall p, In p un -> root_of d p <> R -> in_some_agg d R (g_forbidden_aggs g0) = false).
      { intros p Hp NR. destruct (Hforeign p Hp NR) as [Hex [Hsh Hg]]. unfold forbidden_aggs_hyp in Hfah. rewrite Hun in Hfah.
        rewrite forallb_forall in Hfah. specialize (Hfah p Hg). rewrite forallb_forall in Hfah. specialize (Hfah R HR).
        rewrite Hsh in Hfah. cbn [negb orb] in Hfah. apply orb_true_iff in Hfah. destruct Hfah as [E|E]; [apply Z.eqb_eq in E; contradiction|].
        apply negb_true_iff in E. exact E. }
      exists pre, [g0], post, [un_creq R g0 un (dedup un)]. split; [exact Egs|]. split; [exact Hsg|]. split; [exact Hpre|]. split; [exact Hpost|].
      split; [|split; [|split]].
      + constructor; [|constructor]. split; [apply (un_ctx_not_empty_sh d g0 R un Hres0 HisR HFun)|]. intros ctx st Hctx Hsh.
        apply (un_group_complete_sh d g0 ctx rw st R un Hwf Hpr Hctx Hrcs0 Hu0 (Hsh Hu0) eq_refl Hres0 HFun HisR); assumption.
      + intros w [<-|[]]. reflexivity.
      + intros gc [<-|[]]. unfold first_mapping. cbn [fst snd]. rewrite Hu0. reflexivity.
      + intros pspre pspost L1 L2 Eps. cbv zeta. rewrite Eps.
        assert (Hsfx' : NoDup (map g_suffix (pre ++ g0 :: post))) by (rewrite <- Egs; exact Hsfx).
        destruct (consolidate_un d q R g0 pre post un (dedup un) pspre pspost Hun Hsg Es Hsfx' L1 L2 (fun x => dedup_In x un)) as [Hrr Hsame].
        cbn [app]. split; [exact Hrr|]. split; [exact Hsame|]. intros sfx Hs.
        apply (subtree_lists_un d sfx R g0 un (dedup un) pspre pre pspost post Es (Hsst0 sfx Hs) L1).
    - assert (Hsuf : forall g, In g (qy_groups q) -> use_same_provider g = true).
      { intros g Hg. unfold unsuffixed_group in Hun. pose proof (find_none _ _ Hun g Hg) as H. cbv beta in H.
        unfold use_same_provider. rewrite H. reflexivity. }
      assert (Hsg : suffixed_groups q = qy_groups q) by (unfold suffixed_groups; apply filter_all'; exact Hsuf).
      exists (qy_groups q), [], [], []. rewrite !app_nil_r. split; [reflexivity|]. split; [exact Hsg|]. split; [exact Hsuf|].
      split; [intros g []|]. split; [constructor|]. split; [intros w []|]. split; [intros gc []|].
      intros pspre pspost L1 L2 Eps. cbv zeta. destruct pspost as [|p0 pl]; [|discriminate L2].
      rewrite app_nil_r in Eps. subst pspre.
      assert (Ecan : asg_creqs d ps (qy_groups q) ++ [] ++ asg_creqs d [] [] = asg_creqs d ps (qy_groups q)).
      { unfold asg_creqs. cbn [combine map app]. apply app_nil_r. }
      rewrite Ecan. assert (Eun : un = []) by exact HFun0. subst un.
      destruct (consolidate_asg d q R ps Hun) as [Err Emaps]; [rewrite Hsg; exact Hsfx|rewrite Hsg; exact L1|].
      rewrite Hsg in Err, Emaps.
      split; [intro y; rewrite Err; reflexivity|]. split; [unfold same_creq; rewrite Err, Emaps; apply same_creq_refl|].
      intros sfx Hs. unfold asg_creqs. apply subtree_lists. }
  destruct Hsplit as [pre [mid [post [wmid [Egs [Hsg [Hpre [Hpost [Hprodmid [Hanchmid [Hfmmid Hcanon]]]]]]]]]]].
  rewrite Hsg in HFp0, Hsst.
  apply Forall2_app_inv_r in HFp0. destruct HFp0 as [pspre [pspost [HFpre0 [HFpost0 Eps]]]].
  assert (L1 : length pspre = length pre) by (eapply Forall2_length; exact HFpre0).
  assert (L2 : length pspost = length post) by (eapply Forall2_length; exact HFpost0).
  destruct (Hcanon pspre pspost L1 L2 Eps) as [Hrr [Hsame Hsubtree]]. clear Hcanon.
  set (canon := asg_creqs d pspre pre ++ wmid ++ asg_creqs d pspost post) in *.
  assert (HFpre : Forall2 (fun p g => ex d p /\ avail d R p = true /\ suffixed_ok d g p = true) pspre pre).
  { eapply Forall2_impl; [|exact HFpre0]. cbv beta. intros p x [[Hex Hav] Hs]. auto. }
  assert (HFpost : Forall2 (fun p g => ex d p /\ avail d R p = true /\ suffixed_ok d g p = true) pspost post).
  { eapply Forall2_impl; [|exact HFpost0]. cbv beta. intros p x [[Hex Hav] Hs]. auto. }
  (* one allocation request per group *)
  set (ws := asg_creqs_at R pspre pre ++ wmid ++ asg_creqs_at R pspost post).
  assert (Hprod : Forall2 (produces_sh d rw) ws (pre ++ mid ++ post)).
  { unfold ws. apply Forall2_app; [apply (produces_suffixed_sh d rw R); assumption|].
    apply Forall2_app; [exact Hprodmid|apply (produces_suffixed_sh d rw R); assumption]. }
  assert (Hone : one_un (pre ++ mid ++ post)) by (rewrite <- Egs; apply nodup_one_un; exact Hsfx).
  pose proof (groups_loop_complete_sh d rw Hwf ws (pre ++ mid ++ post) Hprod Hone (mkRwState (get_sharing_providers d) []) []
                (fun _ _ _ => eq_refl)) as Hloop.
  rewrite <- Egs in Hloop. revert Hinv Hloop.
  destruct (groups_loop d rw (mkRwState (get_sharing_providers d) []) (qy_groups q) []) as [[cands st]| | |]; intros Hinv Hloop;
    try contradiction.
  destruct Hloop as [l2 [Ec HF2]]. cbn [rev app] in Ec. subst l2. rewrite Egs in HF2.
  assert (Lws : length ws = length (pre ++ mid ++ post)) by (eapply Forall2_length; exact Hprod).
  assert (Lmid : length wmid = length mid) by (eapply Forall2_length; exact Hprodmid).
  (* the combination *)
  set (combo' := map (fun wg : creq * rgroup => (snd wg, fst wg)) (combine ws (pre ++ mid ++ post))).
  assert (Hanchor : forall w, In w ws -> cr_anchor w = R).
  { intros w Hw. unfold ws in Hw. apply in_app_iff in Hw. destruct Hw as [Hw|Hw]; [|apply in_app_iff in Hw; destruct Hw as [Hw|Hw]].
    - unfold asg_creqs_at in Hw. apply in_map_iff in Hw. destruct Hw as [pg [<- _]]. reflexivity.
    - apply Hanchmid. exact Hw.
    - unfold asg_creqs_at in Hw. apply in_map_iff in Hw. destruct Hw as [pg [<- _]]. reflexivity. }
  assert (HFc : Forall2 (fun gc gl => fst gc = fst gl /\ In (snd gc) (snd gl) /\ cr_anchor (snd gc) = R) combo' cands).
  { unfold combo'. apply Forall2_map_l. eapply Forall2_impl_In; [|exact HF2]. cbv beta. intros wg gl Hwg _ [E Hin].
    cbn [fst snd]. repeat split; [exact E|exact Hin|]. apply Hanchor. destruct wg as [w g]. apply in_combine_l in Hwg. exact Hwg. }
  assert (Esnd : map snd combo' = ws).
  { unfold combo'. rewrite map_map. cbn [snd]. apply map_fst_combine. exact Lws. }
  assert (Lpre : length (asg_creqs_at R pspre pre) = length pre) by (apply asg_creqs_at_length; exact L1).
  assert (Ecombo' : combo' = map (fun pg : Z * rgroup => (snd pg, group_creq_at R (snd pg) (fst pg))) (combine pspre pre)
                            ++ map (fun wg : creq * rgroup => (snd wg, fst wg)) (combine wmid mid)
                            ++ map (fun pg : Z * rgroup => (snd pg, group_creq_at R (snd pg) (fst pg))) (combine pspost post)).
  { unfold combo', ws. rewrite (combine_app _ _ _ _ Lpre), map_app, (combine_app _ _ _ _ Lmid), map_app.
    rewrite !swap_combine_at by assumption. reflexivity. }
  assert (Hcne : cands <> []).
  { intro E. rewrite E in HF2. inversion HF2 as [E0|]. symmetry in E0. apply (f_equal (@length _)) in E0.
    rewrite combine_length, Lws, Nat.min_id, <- Egs in E0. destruct (qy_groups q); [contradiction Hgne; reflexivity|discriminate E0]. }
  assert (Efst : map fst cands = pre ++ mid ++ post).
  { rewrite <- (combine_snd ws (pre ++ mid ++ post) Lws). clear - HF2. induction HF2 as [|wg gl l l' [E _] _ IH]; [reflexivity|].
    cbn [map]. rewrite IH, E. reflexivity. }
  assert (Hcount : length (filter (fun gl : rgroup * list creq => use_same_provider (fst gl)) cands) = length (pspre ++ pspost)).
  { rewrite (filter_fst_length use_same_provider cands), Efst, <- Egs. change (filter use_same_provider (qy_groups q)) with (suffixed_groups q).
    rewrite Hsg, !app_length, L1, L2. reflexivity. }
  (* group_policy *)
  assert (Hp : satisfies_group_policy (rw_policy rw) (lenZ (filter (fun gl : rgroup * list creq => use_same_provider (fst gl)) cands))
                                      combo' = true).
  { cbn [rw_policy rw]. destruct (qy_policy q); try reflexivity. cbn [satisfies_group_policy].
    change (lenZ (dedup (flat_map first_mapping combo')) =? lenZ (filter (fun gl : rgroup * list creq => use_same_provider (fst gl)) cands) = true).
    assert (Efm : flat_map first_mapping combo' = pspre ++ pspost).
    { rewrite Ecombo', !flat_map_app. rewrite !(first_mapping_pairs_at R) by assumption.
      assert (Em : flat_map first_mapping (map (fun wg : creq * rgroup => (snd wg, fst wg)) (combine wmid mid)) = []).
      { clear - Hfmmid. induction (combine wmid mid) as [|gc l IH]; [reflexivity|]. cbn [map flat_map].
        rewrite (Hfmmid gc (or_introl eq_refl)), IH; [reflexivity|]. intros gc' H. apply Hfmmid. right. exact H. }
      rewrite Em. reflexivity. }
    rewrite Efm. apply Z.eqb_eq. unfold lenZ. rewrite Hcount. rewrite Eps in Hpol.
    rewrite (dedup_NoDup_length _ (nodupZ_NoDup _ Hpol)). reflexivity. }
  (* the canonical combination has the same allocations and mappings *)
  assert (Ebody : map body ws = map body canon).
  { unfold ws, canon. rewrite !map_app, !(asg_body d). reflexivity. }
  (* same_subtree *)
  assert (Hs : satisfies_same_subtree d (rw_same_subtrees rw) (map snd combo') = true).
  { cbn [rw_same_subtrees rw]. rewrite Esnd, (subtree_body d _ ws canon Ebody). unfold satisfies_same_subtree. apply forallb_forall.
    intros sfx Hin. rewrite (Hsubtree sfx Hin). apply subtree_same_conv. rewrite forallb_forall in Hsst. exact (Hsst sfx Hin). }
  pose proof (merge_combos_intro d rw cands combo' R Hcne HFc Hp Hs) as Hmc. rewrite Esnd in Hmc.
  (* the consolidated request is the candidate of the assignment, and is within capacity *)
  set (asg := mkAsg R un ps) in *.
  destruct (consolidate_body ws canon Ebody) as [Err Emaps].
  set (c1 := consolidate_allocation_requests ws) in *.
  assert (Hrr1 : forall y, In y (cr_rrs c1) <-> In y (summed q asg)) by (intro y; rewrite Err; apply Hrr).
  assert (Hsame1 : same_creq c1 (creq_of q asg) = true) by (unfold same_creq in *; rewrite Err, Emaps; exact Hsame).
  assert (Hexc : exceeds_capacity d c1 = false).
  { unfold exceeds_capacity. apply existsb_false_all. intros x Hx. apply Hrr1 in Hx.
    rewrite forallb_forall in Hcapok. specialize (Hcapok x Hx).
    destruct (find_inv d (rr_rp x) (rr_rc x)) as [i|] eqn:Fi; [|discriminate].
    apply andb_true_iff in Hcapok. destruct Hcapok as [C1 C2]. apply Z.leb_le in C1, C2.
    pose proof (cap_floor_le_trunc i). apply orb_false_iff. split; apply Z.ltb_ge; lia. }
  destruct (merge_candidates_complete d (st_built st) _ _ Hmc Hexc) as [y [Hy Hsame_y]]. fold c1 in Hsame_y.
  assert (Hy_asg : same_creq (creq_of q asg) y = true).
  { apply (same_creq_trans _ c1 _); [rewrite same_creq_sym; exact Hsame1|exact Hsame_y]. }
  (* it survives exclude_nested_providers and is shown *)
  unfold finish_requests, transform in Hinv. injection Hinv as <- _.
  set (mc := merge_candidates d (st_built st) (merge_combos d rw cands)) in *.
  assert (Hkept : In y (fst (exclude_nested_providers d rw mc))).
  { unfold exclude_nested_providers. cbn [rw_nested_aware rw_has_trees rw].
    destruct ((29 <=? v) || negb (has_provider_trees d)) eqn:E; [exact Hy|]. cbn [fst]. apply filter_In. split; [exact Hy|].
    apply Z.eqb_eq. apply orb_false_iff in E. destruct E as [Ev _]. rewrite Ev in Hnest. cbn [orb] in Hnest.
    apply (nested_test_same d (summed q asg)).
    - unfold same_creq in Hy_asg. apply andb_true_iff in Hy_asg. exact (proj1 Hy_asg).
    - apply nodupZ_NoDup. exact Hnest. }
  exists (creq_view v y). split.
  - change (In (creq_view v y) (map (creq_view v) (fst (exclude_nested_providers d rw mc)))). apply in_map. exact Hkept.
  - apply same_creq_view. rewrite same_creq_sym. exact Hy_asg.
Qed.

(* EXACTNESS with sharing providers: whenever the code model answers with a candidate list, and the two conditions hold,
   the list is the specification's (mutual inclusion up to same_creq) *)
Theorem c03_exact_sharing : forall v q d a s,
  rps_wf d -> parentless_root d -> cap_ok d -> aggs_wf d -> un_rcs_nodup q -> anchors_hyp q d ->
  in_tree_hyp q d = true -> forbidden_aggs_hyp q d = true ->
  candidates v q d = COk a s ->
  (forall c, In c a -> exists c', In c' (map (creq_view v) (spec_candidates v q d)) /\ same_creq c c' = true) /\
  (forall c', In c' (map (creq_view v) (spec_candidates v q d)) -> exists c, In c a /\ same_creq c c' = true).
Proof.
  intros v q d a s Hwf Hpr Hcap Hag Hrcs Hah Hit Hfa Hcand. split.
  - exact (c03_sound_gen v q d a s Hwf Hpr Hcap Hag Hrcs Hcand).
  - exact (c03_complete_sharing v q d a s Hwf Hpr Hrcs Hah Hit Hfa Hcand).
Qed.

Theorem c03_exact_sharing_spec_check : forall v q d a s,
  rps_wf d -> parentless_root d -> cap_ok d -> aggs_wf d -> un_rcs_nodup q -> anchors_hyp q d ->
  in_tree_hyp q d = true -> forbidden_aggs_hyp q d = true ->
  candidates v q d = COk a s -> spec_check v (candidates v q d) (spec_candidates v q d) = 0.
Proof.
  intros v q d a s Hwf Hpr Hcap Hag Hrcs Hah Hit Hfa Hcand.
  destruct (c03_exact_sharing v q d a s Hwf Hpr Hcap Hag Hrcs Hah Hit Hfa Hcand) as [H1 H2].
  rewrite Hcand. unfold spec_check, subset_by.
  assert (E1 : forallb (fun x => existsb (same_creq x) (map (creq_view v) (spec_candidates v q d))) a = true).
  { apply forallb_forall. intros c Hc. apply existsb_exists. destruct (H1 c Hc) as [c' [Hc' E]]. exists c'. auto. }
  assert (E2 : forallb (fun x => existsb (same_creq x) a) (map (creq_view v) (spec_candidates v q d)) = true).
  { apply forallb_forall. intros c' Hc'. apply existsb_exists. destruct (H2 c' Hc') as [c [Hc E]]. exists c.
    split; [exact Hc|]. rewrite same_creq_sym. exact E. }
  rewrite E1, E2. reflexivity.
Qed.

(* in every state reached by well-formed requests only the conditions on the query and the sharing providers remain *)
Theorem c03_exact_sharing_reachable : forall cf l v q a s,
  reqs_wf l -> un_rcs_nodup q ->
  in_tree_hyp q (run cf db0 l) = true -> forbidden_aggs_hyp q (run cf db0 l) = true ->
  candidates v q (run cf db0 l) = COk a s ->
  (forall c, In c a -> exists c', In c' (map (creq_view v) (spec_candidates v q (run cf db0 l))) /\ same_creq c c' = true) /\
  (forall c', In c' (map (creq_view v) (spec_candidates v q (run cf db0 l))) -> exists c, In c a /\ same_creq c c' = true).
Proof.
  intros cf l v q a s Hl Hrcs Hit Hfa Hcand. pose proof (C09.c09_invariant cf l) as HF. split.
  - exact (c03_sound_reachable cf l v q a s Hl Hrcs Hcand).
  - apply (c03_complete_sharing v q (run cf db0 l) a s); try assumption.
    + apply Forest_rps_wf. exact HF.
    + apply Forest_parentless_root. exact HF.
    + right. apply Forest_roots_parentless. exact HF.
Qed.

(* ================================================================ the conditions are necessary *)
Definition roots_parentless_b (d : db) : bool :=
  forallb (fun r => negb (rp_root r =? rp_uuid r) || match rp_parent r with None => true | Some _ => false end) (rps d).
Lemma roots_parentless_b_ok d : roots_parentless_b d = true -> roots_parentless d.
Proof.
  unfold roots_parentless_b. rewrite forallb_forall. intros H r Hr Er. specialize (H r Hr). apply Z.eqb_eq in Er. rewrite Er in H.
  cbn [negb orb] in H. destruct (rp_parent r); [discriminate|reflexivity].
Qed.
(* every hypothesis on the database, for a concrete table *)
Definition db_hyps (d : db) : Prop :=
  rps_wf d /\ parentless_root d /\ caps_nonneg d /\ aggs_wf d /\ roots_parentless d.
Lemma db_hyps_b d : sound_db_b d && roots_parentless_b d = true -> db_hyps d.
Proof.
  intro H. apply andb_true_iff in H. destruct H as [H1 H2]. destruct (sound_db_b_ok d H1) as [A [B [C D]]].
  repeat split; try assumption; try apply A. apply roots_parentless_b_ok. exact H2.
Qed.

(* (4) forbidden aggregates tested on the anchor root.  Reachable table: cn (1: VCPU, aggregates A1 and A2) and the sharing
   provider ss (2: DISK_GB, MISC_SHARES_VIA_AGGREGATE, aggregate A2).
     GET /allocation_candidates?resources=DISK_GB:1&member_of=!A1&resources1=VCPU:1           (1.39)
   the specification offers {ss: DISK_GB 1, cn: VCPU 1} under the anchor cn: the unsuffixed group is served by ss, which is
   in no forbidden aggregate, and member_of=!A1 says nothing about the group resources1.  The code drops ss under the anchor
   cn because cn - which supplies nothing to the unsuffixed group - is in A1 (filter_by_rp_nor_tree tests the provider OR
   its anchor root), and answers with no candidate.  Also with ONE group:
     GET /allocation_candidates?resources=DISK_GB:1&member_of=!A1&root_required=!MISC_SHARES_VIA_AGGREGATE
   ({ss: DISK_GB 1} under the anchor cn; the anchor ss is excluded by root_required).  in_tree_hyp holds in both. *)
Definition fa_ops : list req :=
  [RpCreate 39 1 1 None; RpCreate 39 2 2 None;
   InvSet 39 1 0 [mkInvIn 0 8 0 1 8 1 1 0]; InvSet 39 2 0 [mkInvIn 2 100 0 1 100 1 1 0];
   TraitsSet 39 2 1 [372]; AggsSet 39 1 1 [1; 2]; AggsSet 39 2 2 [2]].
Definition fa_db : db := run (mkCfg 0 0) db0 fa_ops.
Definition fa_query2 : query :=
  mkQuery [mkGroup 0 [(2, 1)] [] [] [] [1] None; mkGroup 1 [(0, 1)] [] [] [] [] None] GPAbsent None [] [] [].
Definition fa_query1 : query := mkQuery [mkGroup 0 [(2, 1)] [] [] [] [1] None] GPAbsent None [] [372] [].
Example c03x_needs_forbidden_aggs_hyp :
  reachable (mkCfg 0 0) fa_db /\ db_hyps fa_db /\
  (un_rcs_nodup fa_query2 /\ anchors_hyp fa_query2 fa_db /\ in_tree_hyp fa_query2 fa_db = true /\
   forbidden_aggs_hyp fa_query2 fa_db = false /\
   candidates 39 fa_query2 fa_db = COk [] [] /\
   spec_candidates 39 fa_query2 fa_db = [mkCreq (-1) [mkRreq 2 2 1; mkRreq 1 0 1] [(0, [2]); (1, [1])]]) /\
  (un_rcs_nodup fa_query1 /\ anchors_hyp fa_query1 fa_db /\ in_tree_hyp fa_query1 fa_db = true /\
   forbidden_aggs_hyp fa_query1 fa_db = false /\
   candidates 39 fa_query1 fa_db = COk [] [] /\
   spec_candidates 39 fa_query1 fa_db = [mkCreq (-1) [mkRreq 2 2 1] [(0, [2])]]).
Proof.
  split; [exists fa_ops; split; [unfold reqs_wf, fa_ops; repeat constructor|reflexivity]|].
  assert (Hd : db_hyps fa_db) by (apply db_hyps_b; timeout 120 vm_compute; reflexivity).
  split; [exact Hd|]. destruct Hd as [_ [_ [_ [_ Hrp]]]].
  assert (Hn : NoDup [2]) by (constructor; [intros []|constructor]).
  split; (split; [exact Hn|]); (split; [first [left; timeout 120 vm_compute; reflexivity|right; exact Hrp]|]);
    repeat split; timeout 120 vm_compute; reflexivity.
Qed.

(* (2) the in_tree pin (the witness of Proofs/C03r.v): forbidden_aggs_hyp holds, in_tree_hyp does not *)
Example c03x_needs_in_tree_hyp :
  let d := run cf0 db0 it_ops in
  db_hyps d /\ un_rcs_nodup it_query /\ anchors_hyp it_query d /\
  in_tree_hyp it_query d = false /\ forbidden_aggs_hyp it_query d = true /\
  candidates 39 it_query d = COk [] [] /\
  spec_candidates 39 it_query d = [mkCreq (-1) [mkRreq 2 2 1; mkRreq 1 0 1] [(0, [2]); (1, [1])]].
Proof.
  cbv zeta. split; [apply db_hyps_b; timeout 120 vm_compute; reflexivity|].
  split; [constructor; [intros []|constructor]|]. split; [left; timeout 120 vm_compute; reflexivity|].
  repeat split; timeout 120 vm_compute; reflexivity.
Qed.

(* (1) and (3) are excluded by `candidates v q d = COk a s` itself: both conditions hold on the recorded witnesses, the model
   answers COrderDependent (anchor de-duplication, Proofs/C03r.v) resp. CKeyError (a nested sharing provider whose own tree
   cannot satisfy the request: cn 1 with VCPU; the provider 3 with DISK_GB and MISC_SHARES_VIA_AGGREGATE is a child of the
   empty provider 2 and shares an aggregate with cn; resources=VCPU:1,DISK_GB:1) - the specification has candidates *)
Definition ke_ops : list req :=
  [RpCreate 39 1 1 None; RpCreate 39 2 2 None; RpCreate 39 3 3 (Some 2);
   InvSet 39 1 0 [mkInvIn 0 8 0 1 8 1 1 0]; InvSet 39 3 0 [mkInvIn 2 100 0 1 100 1 1 0];
   TraitsSet 39 3 1 [372]; AggsSet 39 1 1 [1]; AggsSet 39 3 2 [1]].
Definition ke_query : query := mkQuery [mkGroup 0 [(0, 1); (2, 1)] [] [] [] [] None] GPAbsent None [] [] [].
Example c03x_corners_excluded_by_answer :
  (let d := run cf0 db0 ad_ops in
   db_hyps d /\ in_tree_hyp ad_query d = true /\ forbidden_aggs_hyp ad_query d = true /\
   candidates 39 ad_query d = COrderDependent 1 /\ lenZ (spec_candidates 39 ad_query d) = 2) /\
  (let d := run cf0 db0 ke_ops in
   db_hyps d /\ in_tree_hyp ke_query d = true /\ forbidden_aggs_hyp ke_query d = true /\
   candidates 39 ke_query d = CKeyError /\
   spec_candidates 39 ke_query d = [mkCreq (-1) [mkRreq 1 0 1; mkRreq 3 2 1] [(0, [1; 3])]]).
Proof.
  cbv zeta. split; (split; [apply db_hyps_b; timeout 120 vm_compute; reflexivity|]); repeat split; timeout 120 vm_compute; reflexivity.
Qed.

(* ================================================================ the hypotheses are satisfiable, sharing providers in use *)
Example c03_exact_sharing_nonvacuous :
  db_hyps sh_db /\ un_rcs_nodup sh_query /\ anchors_hyp sh_query sh_db /\
  in_tree_hyp sh_query sh_db = true /\ forbidden_aggs_hyp sh_query sh_db = true /\
  get_sharing_providers sh_db = [3; 5] /\
  (exists a s, candidates 39 sh_query sh_db = COk a s /\ lenZ a = 2 /\ lenZ (spec_candidates 39 sh_query sh_db) = 2).
Proof.
  assert (Hd : db_hyps sh_db) by (apply db_hyps_b; timeout 120 vm_compute; reflexivity).
  split; [exact Hd|]. destruct Hd as [_ [_ [_ [_ Hrp]]]].
  split; [exact (proj1 (proj2 (proj2 (proj2 (proj2 (proj2 c03_sound_nonvacuous))))))|]. split; [right; exact Hrp|].
  split; [timeout 120 vm_compute; reflexivity|]. split; [timeout 120 vm_compute; reflexivity|].
  split; [timeout 120 vm_compute; reflexivity|].
  timeout 120 vm_compute. eexists. eexists. split; [reflexivity|split; reflexivity].
Qed.

Print Assumptions c03_complete_sharing.
Print Assumptions c03_exact_sharing.
Print Assumptions c03_exact_sharing_spec_check.
Print Assumptions c03_exact_sharing_reachable.
Print Assumptions c03x_needs_forbidden_aggs_hyp.
Print Assumptions c03x_needs_in_tree_hyp.
Print Assumptions c03x_corners_excluded_by_answer.
Print Assumptions c03_exact_sharing_nonvacuous.
