(* End-to-end corollaries: from the query string a client sends and the history of well-formed requests that produced the
   state, to the guarantees about the answer - no hypothesis on the database, none on the parsed query.
   Each proof is a composition of theorems proved elsewhere:
     Proofs/C03uq.v  (the decoded unsuffixed group names every class once)      Proofs/C03w.v  (soundness, all tables)
     Proofs/C03x.v   (completeness with sharing providers)                       Proofs/C02s.v  (claimability, every version)
     Proofs/C20c.v   (limit)                 Proofs/C02m.v (summaries)           Proofs/C03q.v  (accepted query strings)
   What does NOT compose away:
     - tok_rc must keep resource class names apart (un_rcs_nodup); the other tokenizer conditions (suffixes, trait names)
       are needed only to know that the handler does not answer 400 for query_wf - which `= COk` already says;
     - completeness keeps the two conditions in_tree_hyp / forbidden_aggs_hyp: they depend on the sharing providers of the
       state and on in_tree / member_of=!agg of the unsuffixed group, and are FALSE for some reachable states and accepted
       queries (the recorded findings);
     - the claim needs a consumer that does not exist yet (find_cons = None): an existing consumer needs its generation. *)
From PV Require Import Spec.CandSpec Proofs.Defs Model.Parse Model.DecodeQ Model.DecodeQC.
From PV Require Import Proofs.C02 Proofs.C02m Proofs.C02c Proofs.C03s Proofs.C03c Proofs.C03q Proofs.C03u Proofs.C03uq Proofs.C03w
                       Proofs.C03x Proofs.C02s Proofs.C20c Proofs.C13q.
From PV Require Proofs.C09 Proofs.C13.

Theorem c03_end_to_end : forall cf l (tok_rp tok_agg tok_trait tok_rc tok_suffix : str -> Z) v kv q a s,
  reqs_wf l ->
  (forall x y : str, tok_rc x = tok_rc y -> x = y) ->
  decode_candidates tok_rp tok_agg tok_trait tok_rc tok_suffix v kv = POk q ->
  let d := run cf db0 l in
  candidates v q d = COk a s ->
  (* (1) soundness *)
  (forall c, In c a -> exists c', In c' (map (creq_view v) (spec_candidates v q d)) /\ same_creq c c' = true) /\
  (* (2) completeness, away from the two recorded corners *)
  (in_tree_hyp q d = true -> forbidden_aggs_hyp q d = true ->
   forall c', In c' (map (creq_view v) (spec_candidates v q d)) -> exists c, In c a /\ same_creq c c' = true) /\
  (* (3) every returned candidate can be claimed as returned, by a client of any microversion, for a new consumer;
         the claim is a legal request, so the state after it is reachable again *)
  (forall c k proj user ty v', In c a -> find_cons d k = None ->
     status (snd (step cf d (AllocPut v' (cons_in_at v' c k proj user ty)))) = 204 /\
     reqs_wf (l ++ [AllocPut v' (cons_in_at v' c k proj user ty)])) /\
  (* (4) limit=n: the first min(n, |a|) requests, with covering summaries taken from s *)
  (forall n, qy_limit q = Some n ->
     16 <= v /\ 1 <= n /\
     exists kept sums', candidates_limited v q d = COk kept sums' /\
       kept = firstn (Z.to_nat n) a /\ lenZ kept = Z.min n (lenZ a) /\ incl kept a /\
       (forall c x, In c kept -> In x (cr_rrs c) ->
          exists r, find_rp d (rr_rp x) = Some r /\ In (psum_view v q (summary_of d r)) sums') /\
       incl sums' s) /\
  (qy_limit q = None -> candidates_limited v q d = COk a s) /\
  (* (5) every provider named exists and has its summary; one allocation per (provider, class); the requests are pairwise
         distinct as requests with mappings, and as shown from 1.34; the query is well formed for the version *)
  (forall c x, In c a -> In x (cr_rrs c) -> exists r, find_rp d (rr_rp x) = Some r /\ In (psum_view v q (summary_of d r)) s) /\
  (forall c, In c a -> NoDup (rr_keys (cr_rrs c))) /\
  (34 <= v -> distinct a) /\
  query_wf v q = true /\ 10 <= v.
Proof.
  intros cf l tok_rp tok_agg tok_trait tok_rc tok_suffix v kv q a s Hl Hinj Hdec d Hcand.
  pose proof (c03u_accepted_un_rcs_nodup tok_rp tok_agg tok_trait tok_rc tok_suffix v kv q Hinj Hdec) as Hrcs.
  pose proof (C09.c09_invariant cf l) as HF. pose proof (Forest_rps_wf _ HF) as Hwf. fold d in Hwf.
  split; [exact (c03_sound_reachable cf l v q a s Hl Hrcs Hcand)|].
  split; [intros Hit Hfa; exact (proj2 (c03_exact_sharing_reachable cf l v q a s Hl Hrcs Hit Hfa Hcand))|].
  split.
  { intros c k proj user ty v' Hc Hnew.
    destruct (c02_code_claimable_reachable_all_versions cf l v q a s c k proj user ty v' Hl Hrcs Hcand Hc Hnew) as [H1 [_ H3]].
    split; [exact H1|]. unfold reqs_wf. apply Forall_app. split; [exact Hl|]. constructor; [exact H3|constructor]. }
  split.
  { intros n Hn. destruct (c20_code_limit v q d a s n Hwf Hcand Hn) as [Hv [H1 [kept [sums' [E1 [E2 [E3 [E4 [_ [_ [E7 E8]]]]]]]]]]].
    split; [exact Hv|]. split; [exact H1|]. exists kept, sums'. auto 10. }
  split.
  { intro Hn. apply c20_code_unlimited; [exact Hcand|]. rewrite Hn. exact I. }
  split; [intros c x Hc Hx; exact (c02_summaries false v q d a s Hwf Hcand c x Hc Hx)|].
  split; [intros c Hc; exact (code_cand_keys_nodup v q d a s c Hcand Hc)|].
  split; [exact (proj2 (c20_code_distinct v q d a s Hcand))|].
  destruct (candidates_inv v q d a s Hcand) as [Hq _]. split; [exact Hq|].
  unfold candidates, candidates_gen in Hcand. destruct (v <? 10) eqn:E; [discriminate Hcand|]. apply Z.ltb_ge in E. exact E.
Qed.

(* the claim, alone (C02): query string + well-formed history + a consumer that does not exist yet *)
Corollary c02_end_to_end : forall cf l (tok_rp tok_agg tok_trait tok_rc tok_suffix : str -> Z) v kv q a s c k proj user ty v',
  reqs_wf l -> (forall x y : str, tok_rc x = tok_rc y -> x = y) ->
  decode_candidates tok_rp tok_agg tok_trait tok_rc tok_suffix v kv = POk q ->
  candidates v q (run cf db0 l) = COk a s -> In c a -> find_cons (run cf db0 l) k = None ->
  status (snd (step cf (run cf db0 l) (AllocPut v' (cons_in_at v' c k proj user ty)))) = 204 /\
  reqs_wf (l ++ [AllocPut v' (cons_in_at v' c k proj user ty)]).
Proof.
  intros cf l tok_rp tok_agg tok_trait tok_rc tok_suffix v kv q a s c k proj user ty v' Hl Hinj Hdec Hcand Hc Hnew.
  destruct (c03_end_to_end cf l tok_rp tok_agg tok_trait tok_rc tok_suffix v kv q a s Hl Hinj Hdec Hcand) as [_ [_ [H _]]].
  exact (H c k proj user ty v' Hc Hnew).
Qed.

(* the limit, alone (C20): no hypothesis but the answer itself *)
Corollary c20_end_to_end : forall cf l v q a s n,
  candidates v q (run cf db0 l) = COk a s -> qy_limit q = Some n ->
  16 <= v /\ 1 <= n /\
  exists kept sums', candidates_limited v q (run cf db0 l) = COk kept sums' /\
    kept = firstn (Z.to_nat n) a /\ lenZ kept = Z.min n (lenZ a) /\ incl kept a /\
    (34 <= v -> distinct kept) /\
    (forall c x, In c kept -> In x (cr_rrs c) ->
       exists r, find_rp (run cf db0 l) (rr_rp x) = Some r /\ In (psum_view v q (summary_of (run cf db0 l) r)) sums') /\
    incl sums' s.
Proof.
  intros cf l v q a s n Hcand Hn.
  destruct (c20_code_limit v q (run cf db0 l) a s n (Forest_rps_wf _ (C09.c09_invariant cf l)) Hcand Hn)
    as [Hv [H1 [kept [sums' [E1 [E2 [E3 [E4 [_ [E6 [E7 E8]]]]]]]]]]].
  split; [exact Hv|]. split; [exact H1|]. exists kept, sums'. auto 10.
Qed.

(* the handler model does not refuse an accepted query string for its form: with tokenizers that keep suffixes and trait
   names apart ('' -> 0), from 1.10 the answer is that of the search itself *)
Theorem c03_end_to_end_no_form_error : forall cf l (tok_rp tok_agg tok_trait tok_rc tok_suffix : str -> Z) v kv q,
  10 <= v <= 39 -> tok_suffix [] = 0 ->
  (forall x y : str, tok_suffix x = tok_suffix y -> x = y) -> (forall x y : str, tok_trait x = tok_trait y -> x = y) ->
  decode_candidates tok_rp tok_agg tok_trait tok_rc tok_suffix v kv = POk q ->
  query_wf v q = true /\ candidates v q (run cf db0 l) = get_by_requests (run cf db0 l) v q.
Proof.
  intros cf l tok_rp tok_agg tok_trait tok_rc tok_suffix v kv q Hv T0 Is It Hdec. split.
  - apply (c03q_accepted_wf tok_rp tok_agg tok_trait tok_rc tok_suffix v kv q); try assumption. lia.
  - apply (c03q_candidates_wf_passes tok_rp tok_agg tok_trait tok_rc tok_suffix v kv q); assumption.
Qed.

(* ================================================================ the listing twin: GET /resource_providers *)
(* from the query string to "exactly the providers meeting every supplied filter", in every state reached by any requests;
   what remains is the existence of the named traits and classes - otherwise, and only then, the answer is 400 *)
Theorem c13_end_to_end : forall cf l (tok_rp tok_agg tok_trait tok_rc tok_name : str -> Z) v kv f,
  decode_listing tok_rp tok_agg tok_trait tok_rc tok_name v kv = POk f ->
  let d := run cf db0 l in
  rp_filters_wf v f = true /\
  (list_rps_result v f d = None <-> names_known d f = false) /\
  (filters_known d f ->
   forall u, In u (list_rps v f d) <-> (exists r, find_rp d u = Some r) /\ rp_matches v f d u = true).
Proof.
  intros cf l tok_rp tok_agg tok_trait tok_rc tok_name v kv f Hdec d. split; [|split].
  - exact (c13q_accepted_wf_any tok_rp tok_agg tok_trait tok_rc tok_name v kv f Hdec).
  - exact (c13q_listing_400_iff tok_rp tok_agg tok_trait tok_rc tok_name v kv f d Hdec).
  - intros Hk. apply (c13q_listing_exact tok_rp tok_agg tok_trait tok_rc tok_name v kv f d Hdec Hk).
    exact (proj1 (C09.c09_invariant cf l)).
Qed.

Print Assumptions c03_end_to_end.
Print Assumptions c03_end_to_end_no_form_error.
Print Assumptions c13_end_to_end.
Print Assumptions c02_end_to_end.
Print Assumptions c20_end_to_end.
