(* C04 - proofs: rejected writes leave no trace; multi-entity writes are all-or-nothing. *)
From PV Require Import Proofs.Defs.

(* ================================================================ utilities *)
Lemma memZ_In x l : memZ x l = true <-> In x l.
Proof.
  unfold memZ. rewrite existsb_exists. split.
  - intros [y [H E]]. apply Z.eqb_eq in E. subst. exact H.
  - intro H. exists x. split; [exact H|apply Z.eqb_refl].
Qed.
Lemma memZ_nIn x l : memZ x l = false <-> ~ In x l.
Proof. rewrite <- memZ_In. destruct (memZ x l); split; congruence. Qed.
Lemma negb_memZ_In x l : negb (memZ x l) = true <-> ~ In x l.
Proof. rewrite negb_true_iff. apply memZ_nIn. Qed.

Lemma nodupb_NoDup l : nodupb l = true <-> NoDup l.
Proof.
  induction l as [|x l IH]; cbn [nodupb].
  - split; [constructor|reflexivity].
  - rewrite andb_true_iff, negb_memZ_In, IH. split.
    + intros [H1 H2]. constructor; assumption.
    + intro H. inversion H; subst. split; assumption.
Qed.

Lemma dedup_In a l : In a (dedup l) <-> In a l.
Proof.
  induction l as [|x l IH]; cbn [dedup fold_right]; [tauto|].
  fold (dedup l). destruct (memZ x (dedup l)) eqn:E.
  - apply memZ_In in E. cbn [In]. rewrite IH. split; [auto|]. intros [<-|H]; [apply IH; exact E|exact H].
  - cbn [In]. rewrite IH. tauto.
Qed.

Lemma filter_all_true {A} (f : A -> bool) l : (forall x, In x l -> f x = true) -> filter f l = l.
Proof.
  induction l as [|x l IH]; intro H; cbn [filter]; [reflexivity|].
  rewrite (H x (or_introl eq_refl)). f_equal. apply IH. intros y Hy. apply H. right. exact Hy.
Qed.
Lemma filter_all_false {A} (f : A -> bool) l : (forall x, In x l -> f x = false) -> filter f l = [].
Proof.
  induction l as [|x l IH]; intro H; cbn [filter]; [reflexivity|].
  rewrite (H x (or_introl eq_refl)). apply IH. intros y Hy. apply H. right. exact Hy.
Qed.

Lemma NoDup_app' {A} (l1 l2 : list A) :
  NoDup l1 -> NoDup l2 -> (forall x, In x l1 -> ~ In x l2) -> NoDup (l1 ++ l2).
Proof.
  induction l1 as [|x l1 IH]; intros H1 H2 H; cbn [app]; [exact H2|].
  inversion H1; subst. constructor.
  - rewrite in_app_iff. intros [Hx|Hx]; [contradiction|]. apply (H x); [left; reflexivity|exact Hx].
  - apply IH; [assumption|assumption|]. intros y Hy. apply H. right. exact Hy.
Qed.
Lemma NoDup_map_filter {A B} (f : A -> B) (p : A -> bool) l : NoDup (map f l) -> NoDup (map f (filter p l)).
Proof.
  induction l as [|x l IH]; cbn [map filter]; intro H; [constructor|].
  inversion H; subst. destruct (p x); cbn [map]; [|apply IH; assumption].
  constructor; [|apply IH; assumption].
  intro Hx. apply H2. apply in_map_iff in Hx. destruct Hx as [y [Hy1 Hy2]]. apply filter_In in Hy2.
  apply in_map_iff. exists y. tauto.
Qed.
Lemma NoDup_map_eq {A B} (f : A -> B) l x y :
  NoDup (map f l) -> In x l -> In y l -> f x = f y -> x = y.
Proof.
  induction l as [|z l IH]; cbn [map]; intros H Hx Hy E; [destruct Hx|].
  inversion H; subst. destruct Hx as [->|Hx], Hy as [->|Hy].
  - reflexivity.
  - exfalso. apply H2. rewrite E. apply in_map. exact Hy.
  - exfalso. apply H2. rewrite <- E. apply in_map. exact Hx.
  - apply IH; assumption.
Qed.

(* generic case-splitting on every match of a hypothesis *)
Ltac brk H :=
  repeat match type of H with
  | context [match ?x with _ => _ end] => destruct x eqn:?; try discriminate H
  end.

(* ================================================================ frames: auxiliary name tables *)
Definition aux_same (d d' : db) : Prop :=
  projects d' = projects d /\ users d' = users d /\ ctypes d' = ctypes d.
Definition aux_incl (d d' : db) : Prop :=
  incl (projects d) (projects d') /\ incl (users d) (users d') /\ incl (ctypes d) (ctypes d').

Lemma aux_same_refl d : aux_same d d.
Proof. repeat split. Qed.
Lemma aux_same_trans a b c : aux_same a b -> aux_same b c -> aux_same a c.
Proof. unfold aux_same. intuition congruence. Qed.
Lemma aux_same_incl d d' : aux_same d d' -> aux_incl d d'.
Proof. intros [H1 [H2 H3]]. unfold aux_incl. rewrite H1, H2, H3. repeat split; apply incl_refl. Qed.
Lemma aux_incl_refl d : aux_incl d d.
Proof. repeat split; apply incl_refl. Qed.
Lemma aux_incl_trans a b c : aux_incl a b -> aux_incl b c -> aux_incl a c.
Proof. unfold aux_incl. intros [? [? ?]] [? [? ?]]. repeat split; eapply incl_tran; eassumption. Qed.

(* fr d d': the auxiliary tables, inventories and allocations are untouched *)
Definition fr (d d' : db) : Prop := aux_same d d' /\ invs d' = invs d /\ allocs d' = allocs d.
Lemma fr_refl d : fr d d.
Proof. repeat split. Qed.
Lemma fr_trans a b c : fr a b -> fr b c -> fr a c.
Proof. unfold fr, aux_same. intuition congruence. Qed.

Ltac fr_solve H := brk H; injection H as <-; repeat split; reflexivity.

Lemma incr_rp_gen_fr d u g d' : incr_rp_gen d u g = Ok d' -> fr d d' /\ consumers d' = consumers d.
Proof. unfold incr_rp_gen. intro H. fr_solve H. Qed.
Lemma incr_cons_gen_fr d u g d' : incr_cons_gen d u g = Ok d' -> fr d d'.
Proof. unfold incr_cons_gen. intro H. fr_solve H. Qed.
Lemma cas_rps_fr : forall l d d', cas_rps d l = Ok d' -> fr d d'.
Proof.
  induction l as [|[u g] l IH]; intros d d' H; cbn [cas_rps] in H.
  - injection H as <-. apply fr_refl.
  - unfold bind in H. destruct (incr_rp_gen d u g) eqn:E; [|discriminate].
    apply incr_rp_gen_fr in E. destruct E as [E _]. eapply fr_trans; [exact E|]. apply IH. exact H.
Qed.
Lemma cas_conss_fr : forall l d d', cas_conss d l = Ok d' -> fr d d'.
Proof.
  induction l as [|[u g] l IH]; intros d d' H; cbn [cas_conss] in H.
  - injection H as <-. apply fr_refl.
  - unfold bind in H. destruct (incr_cons_gen d u g) eqn:E; [|discriminate].
    apply incr_cons_gen_fr in E. eapply fr_trans; [exact E|]. apply IH. exact H.
Qed.

Lemma rp_create_fr d u n p d' : rp_create d u n p = Ok d' -> fr d d'.
Proof. unfold rp_create, bind. intro H. fr_solve H. Qed.
Lemma rp_update_fr d me n p b d' : rp_update d me n p b = Ok d' -> fr d d'.
Proof. unfold rp_update, bind. intro H. fr_solve H. Qed.
Lemma rp_delete_aux d u d' : rp_delete d u = Ok d' -> aux_same d d'.
Proof. unfold rp_delete. intro H. fr_solve H. Qed.
Lemma rc_create_fr d n d' : rc_create d n = Ok d' -> fr d d'.
Proof. unfold rc_create. intro H. fr_solve H. Qed.
Lemma rc_destroy_fr d n d' : rc_destroy d n = Ok d' -> fr d d'.
Proof. unfold rc_destroy. intro H. fr_solve H. Qed.
Lemma rc_rename_fr d o n d' : rc_rename d o n = Ok d' -> fr d d'.
Proof. unfold rc_rename. intro H. fr_solve H. Qed.
Lemma trait_create_fr d t d' : trait_create d t = Ok d' -> fr d d'.
Proof. unfold trait_create. intro H. fr_solve H. Qed.
Lemma trait_destroy_fr d t d' : trait_destroy d t = Ok d' -> fr d d'.
Proof. unfold trait_destroy. intro H. fr_solve H. Qed.

Lemma set_traits_txn_fr d u g w d' : set_traits_txn d u g w = Ok d' -> fr d d'.
Proof.
  unfold set_traits_txn. intro H.
  brk H; try (injection H as <-; apply fr_refl);
    apply incr_rp_gen_fr in H; destruct H as [H _]; exact H.
Qed.
Lemma set_aggregates_txn_fr d u g w b d' : set_aggregates_txn d u g w b = Ok d' -> fr d d'.
Proof.
  unfold set_aggregates_txn. intro H. destruct b.
  - apply incr_rp_gen_fr in H. destruct H as [H _]. exact H.
  - injection H as <-. repeat split.
Qed.

Lemma update_consumer_fr d k : fr d (update_consumer d k) /\ rps (update_consumer d k) = rps d.
Proof. unfold update_consumer, consumer_update. destruct (_ || _); repeat split. Qed.
Lemma fold_update_consumer_fr : forall ks d,
  fr d (fold_left update_consumer ks d) /\ rps (fold_left update_consumer ks d) = rps d.
Proof.
  induction ks as [|k ks IH]; intro d; cbn [fold_left]; [split; [apply fr_refl|reflexivity]|].
  destruct (IH (update_consumer d k)) as [H1 H2]. destruct (update_consumer_fr d k) as [H3 H4].
  split; [eapply fr_trans; eassumption|]. etransitivity; [exact H2|exact H4].
Qed.
Lemma delete_created_fr d ks : fr d (delete_created d ks).
Proof. repeat split. Qed.

Lemma delete_inventory_from_provider_aux d u l d' :
  delete_inventory_from_provider d u l = Ok d' -> aux_same d d' /\ allocs d' = allocs d.
Proof. unfold delete_inventory_from_provider. intro H. fr_solve H. Qed.
Lemma update_inventory_for_provider_aux u : forall l d d',
  update_inventory_for_provider d u l = Ok d' -> aux_same d d' /\ allocs d' = allocs d.
Proof.
  induction l as [|x l IH]; intros d d' H; cbn [update_inventory_for_provider] in H.
  - injection H as <-. repeat split.
  - destruct (find_inv d u (ii_rc x)); [|discriminate]. apply IH in H. exact H.
Qed.
Lemma set_inventory_aux d u g l d' : set_inventory d u g l = Ok d' -> aux_same d d' /\ allocs d' = allocs d.
Proof.
  unfold set_inventory, bind. intro H.
  destruct (negb _); [discriminate|].
  destruct (delete_inventory_from_provider _ _ _) as [d1|] eqn:E1; [|discriminate].
  destruct (update_inventory_for_provider _ _ _) as [d3|] eqn:E3; [|discriminate].
  apply delete_inventory_from_provider_aux in E1. apply update_inventory_for_provider_aux in E3.
  apply incr_rp_gen_fr in H. destruct H as [[H [_ Ha]] _].
  unfold aux_same in *. cbn in E3. intuition congruence.
Qed.
Lemma add_inventory_aux d u g x d' : add_inventory d u g x = Ok d' -> aux_same d d'.
Proof.
  unfold add_inventory. intro H. brk H. apply incr_rp_gen_fr in H. destruct H as [[H _] _]. exact H.
Qed.
Lemma update_inventory_aux d u g x d' : update_inventory d u g x = Ok d' -> aux_same d d'.
Proof.
  unfold update_inventory, bind. intro H. destruct (negb _); [discriminate|].
  destruct (update_inventory_for_provider _ _ _) eqn:E; [|discriminate].
  apply update_inventory_for_provider_aux in E. apply incr_rp_gen_fr in H. destruct H as [[H _] _].
  eapply aux_same_trans; [apply E|exact H].
Qed.
Lemma delete_inventory_aux d u g rc d' : delete_inventory d u g rc = Ok d' -> aux_same d d'.
Proof.
  unfold delete_inventory, bind. intro H. destruct (negb _); [discriminate|].
  destruct (delete_inventory_from_provider _ _ _) eqn:E; [|discriminate].
  destruct (find_inv d u rc); [|discriminate].
  apply delete_inventory_from_provider_aux in E. apply incr_rp_gen_fr in H. destruct H as [[H _] _].
  eapply aux_same_trans; [apply E|exact H].
Qed.

(* _set_allocations: complete description of the allocations table afterwards *)
Lemma set_allocations_spec d l d' : set_allocations d l = Ok d' ->
  aux_same d d' /\ invs d' = invs d /\
  allocs d' = filter (fun a => negb (memZ (a_cons a) (map q_cons l))) (allocs d)
              ++ map (fun a => mkAlloc (q_cons a) (q_rp a) (q_rc a) (q_amt a))
                     (filter (fun a => negb (q_amt a =? 0)) l).
Proof.
  unfold set_allocations, bind. intro H.
  destruct (check_capacity _ _); [|discriminate].
  destruct (cas_rps _ _) as [d3|] eqn:E3; [|discriminate].
  destruct (cas_conss _ _) as [d4|] eqn:E4; [|discriminate].
  injection H as <-. apply cas_rps_fr in E3. apply cas_conss_fr in E4.
  pose proof (fr_trans _ _ _ E3 E4) as [Ha [Hi Hl]]. cbn in Ha, Hi, Hl.
  unfold delete_consumers_if_no_allocations. cbn. repeat split; try apply Ha; assumption.
Qed.

(* ================================================================ consumers *)
Lemma find_cons_l_Some l u k : find_cons_l l u = Some k -> In k l /\ c_uuid k = u.
Proof.
  induction l as [|c l IH]; cbn [find_cons_l]; [discriminate|].
  destruct (c_uuid c =? u) eqn:E.
  - intros [= <-]. apply Z.eqb_eq in E. split; [left; reflexivity|exact E].
  - intro H. destruct (IH H). split; [right|]; assumption.
Qed.
Lemma find_cons_l_None l u : find_cons_l l u = None -> forall k, In k l -> c_uuid k <> u.
Proof.
  induction l as [|c l IH]; cbn [find_cons_l]; intros H k Hk; [destruct Hk|].
  destruct (c_uuid c =? u) eqn:E; [discriminate|]. apply Z.eqb_neq in E.
  destruct Hk as [<-|Hk]; [exact E|apply IH; assumption].
Qed.
Lemma find_cons_l_app l r u k : find_cons_l l u = Some k -> find_cons_l (l ++ r) u = Some k.
Proof.
  induction l as [|c l IH]; cbn [find_cons_l app]; [discriminate|].
  destruct (c_uuid c =? u); [auto|exact IH].
Qed.
Lemma find_cons_l_last l row u : c_uuid row = u -> exists k, find_cons_l (l ++ [row]) u = Some k.
Proof.
  intro E. induction l as [|c l IH]; cbn [find_cons_l app].
  - rewrite E, Z.eqb_refl. eexists; reflexivity.
  - destruct (c_uuid c =? u); [eexists; reflexivity|exact IH].
Qed.

(* every table except consumers and the auxiliary name tables *)
Definition core_nc (d d' : db) : Prop :=
  rps d' = rps d /\ invs d' = invs d /\ allocs d' = allocs d /\ rcs d' = rcs d /\ traits d' = traits d /\
  aggs d' = aggs d /\ rp_aggs d' = rp_aggs d /\ rp_traits d' = rp_traits d.
Lemma core_nc_refl d : core_nc d d.
Proof. repeat split. Qed.
Lemma core_nc_trans a b c : core_nc a b -> core_nc b c -> core_nc a c.
Proof. unfold core_nc. intuition congruence. Qed.

Lemma get_or_create_incl l x : incl l (get_or_create l x).
Proof. unfold get_or_create. destruct (memZ x l); [apply incl_refl|apply incl_appl, incl_refl]. Qed.

Lemma ensure_consumer_spec cf v d c d' o :
  ensure_consumer cf v d c = (d', o) ->
  core_nc d d' /\ aux_incl d d' /\
  match o with
  | None => consumers d' = consumers d
  | Some k => co_uuid k = ci_uuid c /\
      if co_created k
      then find_cons d (ci_uuid c) = None /\
           exists row, consumers d' = consumers d ++ [row] /\ c_uuid row = ci_uuid c
      else consumers d' = consumers d /\ exists k0, find_cons d (ci_uuid c) = Some k0
  end.
Proof.
  unfold ensure_consumer, find_cons. cbn [consumers set_users set_projects]. intro H.
  destruct (find_cons_l (consumers d) (ci_uuid c)) as [k0|] eqn:F;
    destruct (_ && _); destruct (38 <=? v); injection H as <- <-;
    unfold aux_incl; cbn; repeat split;
    try apply get_or_create_incl; try apply incl_refl;
    try (apply find_cons_l_Some in F; tauto); try (eexists; reflexivity).
  all: eexists; split; reflexivity.
Qed.

(* uuids of the consumers a request created *)
Definition created (ks : list cobj) : list Z := map co_uuid (filter co_created ks).
Lemma created_rev ks u : In u (created (rev ks)) <-> In u (created ks).
Proof.
  unfold created. rewrite !in_map_iff. split; intros [k [E H]]; exists k; (split; [exact E|]);
    apply filter_In in H; apply filter_In; destruct H as [H1 H2]; (split; [|exact H2]).
  - apply in_rev. exact H1.
  - apply in_rev in H1. exact H1.
Qed.

(* d1 = d0 plus consumer rows whose uuids are all in us and were absent from d0 *)
Definition CInv (d0 d1 : db) (us : list Z) : Prop :=
  core_nc d0 d1 /\ exists rows, consumers d1 = consumers d0 ++ rows /\
     (forall r, In r rows -> In (c_uuid r) us) /\ (forall c, In c (consumers d0) -> ~ In (c_uuid c) us).

Lemma CInv_ext d0 d1 us us' : (forall u, In u us <-> In u us') -> CInv d0 d1 us -> CInv d0 d1 us'.
Proof.
  intros E [Hn [rows [Hr [H1 H2]]]]. split; [exact Hn|]. exists rows. split; [exact Hr|]. split.
  - intros r Hin. apply E. apply H1. exact Hin.
  - intros c Hin Hc. apply (H2 c Hin). apply E. exact Hc.
Qed.
Lemma CInv_init d : CInv d d (created []).
Proof.
  split; [apply core_nc_refl|]. exists []. rewrite app_nil_r. split; [reflexivity|]. split; intros ? ? ; auto.
Qed.

Lemma CInv_step cf v d0 d1 ks c d2 o :
  ensure_consumer cf v d1 c = (d2, o) -> CInv d0 d1 (created ks) ->
  match o with None => CInv d0 d2 (created ks) | Some k => CInv d0 d2 (created (k :: ks)) end.
Proof.
  intros H [Hn [rows [Hr [H1 H2]]]]. apply ensure_consumer_spec in H. destruct H as [Hc [_ Ho]].
  destruct o as [k|].
  - destruct Ho as [Eu Ho]. unfold created. cbn [filter]. destruct (co_created k); cbn [map]; fold (created ks).
    + destruct Ho as [Fn [row [Ec Er]]]. split; [eapply core_nc_trans; eassumption|].
      exists (rows ++ [row]). split; [rewrite Ec, Hr, app_assoc; reflexivity|]. split.
      * intros r Hin. apply in_app_iff in Hin. destruct Hin as [Hin|[<-|[]]].
        -- right. apply H1. exact Hin.
        -- left. congruence.
      * intros c0 Hin [Hc0|Hc0]; [|exact (H2 c0 Hin Hc0)].
        unfold find_cons in Fn. apply (find_cons_l_None _ _ Fn c0); [|congruence].
        rewrite Hr. apply in_app_iff. left. exact Hin.
    + destruct Ho as [Ec _]. split; [eapply core_nc_trans; eassumption|].
      exists rows. split; [congruence|]. split; assumption.
  - split; [eapply core_nc_trans; eassumption|]. exists rows. split; [congruence|]. split; assumption.
Qed.

Lemma CInv_delete d0 d1 ks : CInv d0 d1 (created ks) -> core_eq d0 (delete_created d1 ks).
Proof.
  intros [Hn [rows [Hr [H1 H2]]]]. unfold core_nc in Hn. unfold core_eq, delete_created. cbn.
  fold (created ks). rewrite Hr, filter_app.
  rewrite (filter_all_true _ (consumers d0)), (filter_all_false _ rows).
  - rewrite app_nil_r. intuition congruence.
  - intros r Hin. apply negb_false_iff, memZ_In. apply H1. exact Hin.
  - intros c Hin. apply negb_memZ_In. apply H2. exact Hin.
Qed.

Lemma CInv_core d0 d1 us : CInv d0 d1 us -> core_nc d0 d1.
Proof. intros [H _]. exact H. Qed.

Lemma inspect_CInv cf v d0 : forall l d1 acc d2 o,
  inspect_consumers cf v d1 acc l = (d2, o) -> CInv d0 d1 (created acc) ->
  match o with None => core_eq d0 d2 | Some ks => CInv d0 d2 (created ks) end.
Proof.
  induction l as [|c l IH]; intros d1 acc d2 o H HI; cbn [inspect_consumers] in H.
  - injection H as <- <-. eapply CInv_ext; [|exact HI]. intro u. symmetry. apply created_rev.
  - destruct (ensure_consumer cf v d1 c) as [dx [k|]] eqn:E.
    + apply (IH _ _ _ _ H). exact (CInv_step _ _ _ _ _ _ _ _ E HI).
    + injection H as <- <-. apply CInv_delete. exact (CInv_step _ _ _ _ _ _ _ _ E HI).
Qed.

(* ================================================================ rejected writes leave no trace *)
Lemma core_eq_refl d : core_eq d d.
Proof. repeat split. Qed.
Lemma core_nc_cons_eq d d' : core_nc d d' -> consumers d' = consumers d -> core_eq d d'.
Proof. unfold core_nc, core_eq. intuition congruence. Qed.

Ltac simple_rej H :=
  brk H; injection H as <- <-; try (intros _; apply core_eq_refl);
  unfold is_error; cbn; intro; exfalso; lia.

Lemma c04_rejected_no_trace :
  forall cf d r d' rs, req_wf r = true -> step cf d r = (d', rs) -> is_error rs -> core_eq d d'.
Proof.
  intros cf d r d' rs _ H He. revert He. destruct r; cbn [step] in H.
  all: try (unfold h_rp_create, h_rp_update, h_rp_delete, h_inv_set, h_inv_post, h_inv_put, h_inv_delete,
              h_inv_delete_all, h_traits_set, h_traits_delete, h_aggs_set, h_alloc_delete,
              h_rc_rename, h_rc_create, h_rc_put, h_rc_delete, h_trait_put, h_trait_delete in H;
            simple_rej H).
  - (* PUT /allocations/{c} *)
    unfold h_alloc_put in H. destruct (ensure_consumer cf v d c) as [d1 [k|]] eqn:E.
    + pose proof (CInv_step _ _ _ _ [] _ _ _ E (CInv_init d)) as HI.
      destruct (alloc_objs d1 k (ci_allocs c)); [destruct (set_allocations _ _)|]; injection H as <- <-; intro He.
      * exfalso. unfold is_error in He. cbn in He. lia.
      * apply CInv_delete. exact HI.
      * apply CInv_delete. exact HI.
    + injection H as <- <-. intros _. apply ensure_consumer_spec in E. destruct E as [Hc [_ Ho]].
      apply core_nc_cons_eq; assumption.
  - (* POST /allocations *)
    unfold h_alloc_post in H. destruct (v <? 13); [injection H as <- <-; intros _; apply core_eq_refl|].
    destruct (inspect_consumers cf v d [] l) as [d1 [ks|]] eqn:E;
      pose proof (inspect_CInv cf v d _ _ _ _ _ E (CInv_init d)) as HI.
    + destruct (alloc_list d1 ks l); [destruct (set_allocations _ _)|]; injection H as <- <-; intro He.
      * exfalso. unfold is_error in He. cbn in He. lia.
      * apply CInv_delete. exact HI.
      * apply CInv_delete. exact HI.
    + injection H as <- <-. intros _. exact HI.
  - (* POST /reshaper *)
    unfold h_reshape in H. destruct (v <? 30); [injection H as <- <-; intros _; apply core_eq_refl|].
    destruct (reshape_precheck d ri); [injection H as <- <-; intros _; apply core_eq_refl|].
    destruct (inspect_consumers cf v d [] al) as [d1 [ks|]] eqn:E;
      pose proof (inspect_CInv cf v d _ _ _ _ _ E (CInv_init d)) as HI.
    + destruct (alloc_list d1 ks al); [destruct (reshape_txn _ _ _)|]; injection H as <- <-; intro He.
      * exfalso. unfold is_error in He. cbn in He. lia.
      * apply CInv_delete. exact HI.
      * apply CInv_delete. exact HI.
    + injection H as <- <-. intros _. exact HI.
Qed.

(* ================================================================ traits / aggregates replacement *)
Lemma In_pairs_of (l : list (Z * Z)) u t : In t (map snd (filter (fun x => fst x =? u) l)) <-> In (u, t) l.
Proof.
  rewrite in_map_iff. split.
  - intros [[a b] [E H]]. apply filter_In in H. cbn [fst snd] in *. destruct H as [H1 H2].
    apply Z.eqb_eq in H2. subst. exact H1.
  - intro H. exists (u, t). split; [reflexivity|]. apply filter_In. split; [exact H|]. cbn [fst]. apply Z.eqb_refl.
Qed.

Ltac not_success := unfold is_success; cbn; intro; exfalso; lia.

Lemma incr_rp_gen_tables d u g d' : incr_rp_gen d u g = Ok d' ->
  rp_traits d' = rp_traits d /\ rp_aggs d' = rp_aggs d.
Proof. unfold incr_rp_gen. intro H. brk H. injection H as <-. split; reflexivity. Qed.

Lemma set_traits_txn_cases d u g ts d' :
  set_traits_txn d u g ts = Ok d' ->
  let existing := traits_of d u in
  let to_add := filter (fun t => negb (memZ t existing)) ts in
  let to_del := filter (fun t => negb (memZ t ts)) existing in
  (to_add = [] /\ to_del = [] /\ d' = d) \/
  rp_traits d' = filter (fun x => negb ((fst x =? u) && memZ (snd x) to_del)) (rp_traits d)
                 ++ map (fun t => (u, t)) to_add.
Proof.
  unfold set_traits_txn. cbv zeta.
  destruct (filter (fun t => negb (memZ t (traits_of d u))) ts) eqn:Ea;
    destruct (filter (fun t => negb (memZ t ts)) (traits_of d u)) eqn:Ed; intro H.
  1: left; injection H as <-; auto.
  all: right; apply incr_rp_gen_tables in H; destruct H as [H _]; exact H.
Qed.

Lemma c04_traits_complete :
  forall cf d v u g ts d' rs t,
    step cf d (TraitsSet v u g ts) = (d', rs) -> is_success rs ->
    (In (u, t) (rp_traits d') <-> In t ts).
Proof.
  intros cf d v u g ts d' rs t H Hs. revert Hs. cbn [step] in H. unfold h_traits_set in H.
  destruct (v <? 6); [injection H as <- <-; not_success|].
  destruct (find_rp d u) as [me|]; [|injection H as <- <-; not_success].
  destruct (negb (g =? rp_gen me)); [injection H as <- <-; not_success|].
  destruct (negb (forallb _ _)); [injection H as <- <-; not_success|].
  destruct (set_traits_txn d u (rp_gen me) ts) as [dx|] eqn:E; injection H as <- <-; [|not_success].
  intros _. apply set_traits_txn_cases in E. cbv zeta in E.
  assert (Hex : forall t, In t (traits_of d u) <-> In (u, t) (rp_traits d)) by (intro; apply In_pairs_of).
  destruct E as [[Ea [Ed ->]]|E].
  - split; intro Ht.
    + apply Hex in Ht. destruct (memZ t ts) eqn:M; [apply memZ_In; exact M|].
      exfalso. assert (Hin : In t []); [|destruct Hin]. rewrite <- Ed. apply filter_In. split; [exact Ht|].
      rewrite M. reflexivity.
    + apply Hex. destruct (memZ t (traits_of d u)) eqn:M; [apply memZ_In; exact M|].
      exfalso. assert (Hin : In t []); [|destruct Hin]. rewrite <- Ea. apply filter_In. split; [exact Ht|].
      rewrite M. reflexivity.
  - rewrite E, in_app_iff, filter_In, in_map_iff. cbn [fst snd]. rewrite Z.eqb_refl, andb_true_l. split.
    + intros [[Hin Hk]|[t' [Et Ht']]].
      * apply Hex in Hin. apply negb_memZ_In in Hk.
        destruct (memZ t ts) eqn:M; [apply memZ_In; exact M|]. exfalso. apply Hk. apply filter_In.
        split; [exact Hin|]. rewrite M. reflexivity.
      * injection Et as ->. apply filter_In in Ht'. tauto.
    + intro Ht. destruct (memZ t (traits_of d u)) eqn:M.
      * left. split; [apply Hex, memZ_In; exact M|]. apply negb_memZ_In. intro Hd.
        apply filter_In in Hd. destruct Hd as [_ Hd]. apply negb_memZ_In in Hd. contradiction.
      * right. exists t. split; [reflexivity|]. apply filter_In. split; [exact Ht|]. rewrite M. reflexivity.
Qed.

Lemma c04_aggregates_complete :
  forall cf d v u g l d' rs a,
    step cf d (AggsSet v u g l) = (d', rs) -> is_success rs ->
    (In (u, a) (rp_aggs d') <-> In a l).
Proof.
  intros cf d v u g l d' rs a H Hs. revert Hs. cbn [step] in H. unfold h_aggs_set in H.
  destruct (v <? 1); [injection H as <- <-; not_success|].
  destruct (find_rp d u) as [me|]; [|injection H as <- <-; not_success].
  destruct ((19 <=? v) && negb (g =? rp_gen me)); [injection H as <- <-; not_success|].
  destruct (set_aggregates_txn d u (rp_gen me) (dedup l) (19 <=? v)) as [dx|] eqn:E;
    injection H as <- <-; [|not_success].
  intros _. rewrite <- dedup_In.
  assert (Hex : forall t, In t (aggs_of d u) <-> In (u, t) (rp_aggs d)) by (intro; apply In_pairs_of).
  assert (E' : rp_aggs dx =
     filter (fun x => negb ((fst x =? u) && negb (memZ (snd x) (dedup l)))) (rp_aggs d)
     ++ map (fun a => (u, a)) (filter (fun a => negb (memZ a (aggs_of d u))) (dedup l))).
  { unfold set_aggregates_txn in E. destruct (19 <=? v).
    - apply incr_rp_gen_tables in E. destruct E as [_ E]. exact E.
    - injection E as <-. reflexivity. }
  rewrite E', in_app_iff, filter_In, in_map_iff. cbn [fst snd]. rewrite Z.eqb_refl, andb_true_l, negb_involutive.
  split.
  - intros [[_ Hk]|[t' [Et Ht']]]; [apply memZ_In; exact Hk|].
    injection Et as ->. apply filter_In in Ht'. tauto.
  - intro Ht. destruct (memZ a (aggs_of d u)) eqn:M.
    + left. split; [apply Hex, memZ_In; exact M|apply memZ_In; exact Ht].
    + right. exists a. split; [reflexivity|]. apply filter_In. split; [exact Ht|]. rewrite M. reflexivity.
Qed.

(* ================================================================ POST /allocations: structure *)
Lemma ensure_consumer_found cf v d c d' k :
  ensure_consumer cf v d c = (d', Some k) ->
  co_uuid k = ci_uuid c /\
  (forall u, (exists k0, find_cons d u = Some k0) -> exists k1, find_cons d' u = Some k1) /\
  (exists k1, find_cons d' (ci_uuid c) = Some k1).
Proof.
  intro H. apply ensure_consumer_spec in H. destruct H as [_ [_ [Eu Ho]]]. split; [exact Eu|].
  unfold find_cons in *. destruct (co_created k).
  - destruct Ho as [_ [row [Ec Er]]]. rewrite Ec. split.
    + intros u [k0 Hk0]. exists k0. apply find_cons_l_app. exact Hk0.
    + apply find_cons_l_last. exact Er.
  - destruct Ho as [Ec Hk]. rewrite Ec. split; [auto|exact Hk].
Qed.

Lemma inspect_spec cf v : forall l d acc d1 ks,
  inspect_consumers cf v d acc l = (d1, Some ks) ->
  exists ks', ks = rev acc ++ ks' /\ Forall2 (fun k c => co_uuid k = ci_uuid c) ks' l /\
    core_nc d d1 /\ aux_incl d d1 /\
    (forall u, (exists k0, find_cons d u = Some k0) -> exists k1, find_cons d1 u = Some k1) /\
    (forall c, In c l -> exists k1, find_cons d1 (ci_uuid c) = Some k1).
Proof.
  induction l as [|c l IH]; intros d acc d1 ks H; cbn [inspect_consumers] in H.
  - injection H as <- <-. exists []. rewrite app_nil_r. split; [reflexivity|]. split; [constructor|].
    split; [apply core_nc_refl|]. split; [apply aux_incl_refl|]. split; [auto|]. intros c [].
  - destruct (ensure_consumer cf v d c) as [dx [k|]] eqn:E; [|discriminate].
    pose proof (ensure_consumer_found _ _ _ _ _ _ E) as [Eu [Hm Hc]].
    apply ensure_consumer_spec in E. destruct E as [Hn [Ha _]].
    apply IH in H. destruct H as [ks' [Ek [HF [Hn' [Ha' [Hm' Hl]]]]]].
    exists (k :: ks'). split; [rewrite Ek; cbn [rev]; rewrite <- app_assoc; reflexivity|].
    split; [constructor; assumption|]. split; [eapply core_nc_trans; eassumption|].
    split; [eapply aux_incl_trans; eassumption|]. split; [auto|].
    intros c0 [<-|Hin]; [apply Hm'; exact Hc|apply Hl; exact Hin].
Qed.

Lemma F2_combine {A B} (R : A -> B -> Prop) : forall ks l k c,
  Forall2 R ks l -> In (k, c) (combine ks l) -> R k c /\ In c l.
Proof.
  intros ks l k c HF. induction HF as [|k0 c0 ks l HR HF IH]; cbn [combine]; intro Hin; [destruct Hin|].
  destruct Hin as [[= -> ->]|Hin]; [split; [exact HR|left; reflexivity]|].
  destruct (IH Hin). split; [assumption|right; assumption].
Qed.
Lemma F2_In_r {A B} (R : A -> B -> Prop) : forall ks l c,
  Forall2 R ks l -> In c l -> exists k, In (k, c) (combine ks l).
Proof.
  intros ks l c HF. induction HF as [|k0 c0 ks l HR HF IH]; intro Hin; [destruct Hin|].
  destruct Hin as [<-|Hin]; [exists k0; left; reflexivity|].
  destruct (IH Hin) as [k Hk]. exists k. right. exact Hk.
Qed.

Lemma alloc_list_In d : forall ks l objs, alloc_list d ks l = Some objs ->
  forall q, In q objs <->
    exists k c seg, In (k, c) (combine ks l) /\ alloc_objs d k (ci_allocs c) = Some seg /\ In q seg.
Proof.
  induction ks as [|k ks IH]; intros l objs H q.
  - cbn in H. injection H as <-. cbn. split; [intros []|intros [? [? [? [[] _]]]]].
  - destruct l as [|c l]; [cbn in H; injection H as <-; cbn; split; [intros []|intros [? [? [? [[] _]]]]]|].
    cbn [alloc_list] in H. destruct (alloc_objs d k (ci_allocs c)) as [a|] eqn:Ea; [|discriminate].
    destruct (alloc_list d ks l) as [b|] eqn:Eb; [|discriminate]. injection H as <-.
    rewrite in_app_iff, (IH l b Eb q). cbn [combine]. split.
    + intros [Hq|[k' [c' [seg [Hin Hs]]]]].
      * exists k, c, a. split; [left; reflexivity|split; assumption].
      * exists k', c', seg. split; [right; exact Hin|exact Hs].
    + intros [k' [c' [seg [[[= <- <-]|Hin] [Hs Hq]]]]].
      * left. congruence.
      * right. exists k', c', seg. auto.
Qed.
Lemma alloc_list_seg d : forall ks l objs, alloc_list d ks l = Some objs ->
  forall k c, In (k, c) (combine ks l) -> exists seg, alloc_objs d k (ci_allocs c) = Some seg.
Proof.
  induction ks as [|k ks IH]; intros l objs H k0 c0 Hin; [destruct Hin|].
  destruct l as [|c l]; [destruct Hin|]. cbn [alloc_list] in H.
  destruct (alloc_objs d k (ci_allocs c)) as [a|] eqn:Ea; [|discriminate].
  destruct (alloc_list d ks l) as [b|] eqn:Eb; [|discriminate].
  destruct Hin as [[= <- <-]|Hin]; [exists a; exact Ea|]. exact (IH l b Eb k0 c0 Hin).
Qed.

Lemma new_allocs_In d k : forall l seg, new_allocs d k l = Some seg -> forall q, In q seg ->
  exists a x, In a l /\ In x (ai_res a) /\ q_cons q = co_uuid k /\ q_rp q = ai_rp a /\
              q_rc q = fst x /\ q_amt q = snd x.
Proof.
  induction l as [|a l IH]; intros seg H q Hq; cbn [new_allocs] in H.
  - injection H as <-. destruct Hq.
  - destruct (find_rp d (ai_rp a)) as [r|]; [|discriminate].
    destruct (new_allocs d k l) as [rest|]; [|discriminate]. injection H as <-.
    apply in_app_iff in Hq. destruct Hq as [Hq|Hq].
    + apply in_map_iff in Hq. destruct Hq as [x [<- Hx]]. exists a, x. cbn. repeat split; auto.
    + destruct (IH rest eq_refl q Hq) as [a' [x [Ha R]]]. exists a', x. split; [right; exact Ha|exact R].
Qed.
Lemma new_allocs_complete d k : forall l seg, new_allocs d k l = Some seg ->
  forall a x, In a l -> In x (ai_res a) ->
  exists q, In q seg /\ q_cons q = co_uuid k /\ q_rp q = ai_rp a /\ q_rc q = fst x /\ q_amt q = snd x.
Proof.
  induction l as [|a0 l IH]; intros seg H a x Ha Hx; [destruct Ha|]. cbn [new_allocs] in H.
  destruct (find_rp d (ai_rp a0)) as [r|]; [|discriminate].
  destruct (new_allocs d k l) as [rest|]; [|discriminate]. injection H as <-.
  destruct Ha as [->|Ha].
  - eexists. split; [apply in_app_iff; left; apply in_map; exact Hx|]. cbn. auto.
  - destruct (IH rest eq_refl a x Ha Hx) as [q [Hq R]]. exists q. split; [apply in_app_iff; right; exact Hq|exact R].
Qed.
Lemma wipe_list_In d u q : In q (wipe_list d u) -> q_cons q = u /\ q_amt q = 0.
Proof.
  unfold wipe_list. destruct (find_cons d u) as [k|]; [|intros []]. intro H.
  apply in_flat_map in H. destruct H as [a [_ Ha]].
  destruct (a_cons a =? u); [|destruct Ha]. destruct (find_rp d (a_rp a)); [|destruct Ha].
  destruct Ha as [<-|[]]. cbn. auto.
Qed.
Lemma wipe_list_complete d u a :
  (exists k, find_cons d u = Some k) -> In a (allocs d) -> a_cons a = u ->
  (exists r, find_rp d (a_rp a) = Some r) -> In u (map q_cons (wipe_list d u)).
Proof.
  intros [k Hk] Ha Eu [r Hr]. unfold wipe_list. rewrite Hk. apply in_map_iff.
  exists (mkAreq u (c_gen k) (a_rp a) (rp_gen r) (a_rc a) 0). split; [reflexivity|].
  apply in_flat_map. exists a. split; [exact Ha|]. rewrite Eu, Z.eqb_refl, Hr. left. reflexivity.
Qed.
Lemma alloc_objs_cons d k l seg q : alloc_objs d k l = Some seg -> In q seg -> q_cons q = co_uuid k.
Proof.
  unfold alloc_objs. destruct l as [|a l].
  - intros [= <-] Hq. apply wipe_list_In in Hq. tauto.
  - intros H Hq. destruct (new_allocs_In _ _ _ _ H q Hq) as [? [? ?]]. tauto.
Qed.

Definition mk_alloc (a : areq) : alloc := mkAlloc (q_cons a) (q_rp a) (q_rc a) (q_amt a).

Lemma post_success cf d v l d' rs :
  step cf d (AllocPost v l) = (d', rs) -> is_success rs ->
  exists d1 ks objs,
    Forall2 (fun k c => co_uuid k = ci_uuid c) ks l /\ core_nc d d1 /\
    (forall c, In c l -> exists k1, find_cons d1 (ci_uuid c) = Some k1) /\
    alloc_list d1 ks l = Some objs /\
    allocs d' = filter (fun a => negb (memZ (a_cons a) (map q_cons objs))) (allocs d)
                ++ map mk_alloc (filter (fun a => negb (q_amt a =? 0)) objs).
Proof.
  intros H Hs. revert Hs. cbn [step] in H. unfold h_alloc_post in H.
  destruct (v <? 13); [injection H as <- <-; not_success|].
  destruct (inspect_consumers cf v d [] l) as [d1 [ks|]] eqn:E; [|injection H as <- <-; not_success].
  destruct (alloc_list d1 ks l) as [objs|] eqn:Ea; [|injection H as <- <-; not_success].
  destruct (set_allocations _ objs) as [d2|] eqn:Es; injection H as <- <-;
    [|destruct e; not_success].
  intros _. apply inspect_spec in E. destruct E as [ks' [Ek [HF [Hn [_ [_ Hl]]]]]]. cbn [rev app] in Ek. subst ks'.
  exists d1, ks, objs. repeat split; try assumption; try apply Hn.
  apply set_allocations_spec in Es. destruct Es as [_ [_ Es]].
  destruct (fold_update_consumer_fr ks d1) as [[_ [_ Hal]] _].
  cbn [allocs delete_created set_consumers]. rewrite Es, Hal.
  destruct Hn as [_ [_ [Hal' _]]]. rewrite Hal'. reflexivity.
Qed.

Lemma objs_cons_in d1 ks l objs q :
  Forall2 (fun k c => co_uuid k = ci_uuid c) ks l -> alloc_list d1 ks l = Some objs ->
  In q objs -> In (q_cons q) (map ci_uuid l).
Proof.
  intros HF Ha Hq. apply (alloc_list_In _ _ _ _ Ha) in Hq. destruct Hq as [k [c [seg [Hin [Hs Hq]]]]].
  destruct (F2_combine _ _ _ _ _ HF Hin) as [Eu Hc]. rewrite (alloc_objs_cons _ _ _ _ _ Hs Hq), Eu.
  apply in_map. exact Hc.
Qed.

Lemma c04_allocs_frame :
  forall cf d v l d' rs a,
    step cf d (AllocPost v l) = (d', rs) -> is_success rs -> ~ In (a_cons a) (map ci_uuid l) ->
    (In a (allocs d') <-> In a (allocs d)).
Proof.
  intros cf d v l d' rs a H Hs Hn. destruct (post_success _ _ _ _ _ _ H Hs) as [d1 [ks [objs [HF [_ [_ [Ha ->]]]]]]].
  rewrite in_app_iff, filter_In, in_map_iff. split.
  - intros [[Hin _]|[q [Eq Hq]]]; [exact Hin|]. exfalso. apply Hn. subst a. cbn [a_cons mk_alloc].
    apply filter_In in Hq. destruct Hq as [Hq _]. eapply objs_cons_in; eassumption.
  - intro Hin. left. split; [exact Hin|]. apply negb_memZ_In. intro Hm. apply Hn.
    apply in_map_iff in Hm. destruct Hm as [q [<- Hq]]. eapply objs_cons_in; eassumption.
Qed.

Lemma alloc_in_wf_spec a : alloc_in_wf a = true ->
  (forall x, In x (ai_res a) -> 1 <= snd x) /\ ai_res a <> [].
Proof.
  unfold alloc_in_wf. rewrite !andb_true_iff. intros [[H1 _] H3]. split.
  - intros x Hx. rewrite forallb_forall in H1. apply Z.leb_le. apply H1. exact Hx.
  - destruct (ai_res a); [discriminate|congruence].
Qed.

Lemma c04_allocs_complete :
  forall cf d v l d' rs c u rc amt,
    RI d -> req_wf (AllocPost v l) = true -> step cf d (AllocPost v l) = (d', rs) -> is_success rs ->
    In c l ->
    (In (mkAlloc (ci_uuid c) u rc amt) (allocs d') <->
     exists a, In a (ci_allocs c) /\ ai_rp a = u /\ In (rc, amt) (ai_res a)).
Proof.
  intros cf d v l d' rs c u rc amt HRI Hwf H Hs Hc.
  destruct (post_success _ _ _ _ _ _ H Hs) as [d1 [ks [objs [HF [Hn [Hl [Ha ->]]]]]]].
  cbn [req_wf] in Hwf. unfold cons_list_wf in Hwf. apply andb_true_iff in Hwf. destruct Hwf as [Hcw Hnd].
  apply nodupb_NoDup in Hnd. rewrite forallb_forall in Hcw. specialize (Hcw c Hc).
  unfold cons_in_wf in Hcw. apply andb_true_iff in Hcw. destruct Hcw as [Hcw _].
  rewrite forallb_forall in Hcw.
  destruct (F2_In_r _ _ _ _ HF Hc) as [k Hk].
  destruct (F2_combine _ _ _ _ _ HF Hk) as [Eku _].
  destruct (alloc_list_seg _ _ _ _ Ha _ _ Hk) as [seg Hs'].
  assert (Hseg : forall q, In q seg -> In q objs).
  { intros q Hq. apply (alloc_list_In _ _ _ _ Ha). exists k, c, seg. auto. }
  rewrite in_app_iff, filter_In, in_map_iff. split.
  - intros [[Hin Hf]|[q [Eq Hq]]].
    + exfalso. apply negb_memZ_In in Hf. apply Hf. cbn [a_cons]. clear Hf.
      destruct (ci_allocs c) as [|a0 rest] eqn:Eca.
      * cbn [alloc_objs] in Hs'. injection Hs' as <-. rewrite Eku in Hseg.
        destruct HRI as [HRI _]. destruct (HRI _ Hin) as [[r Hr] _]. cbn [a_rp a_cons] in Hr.
        assert (Hw : In (ci_uuid c) (map q_cons (wipe_list d1 (ci_uuid c)))).
        { apply (wipe_list_complete d1 (ci_uuid c) (mkAlloc (ci_uuid c) u rc amt)).
          - apply Hl. exact Hc.
          - destruct Hn as [_ [_ [Hal _]]]. rewrite Hal. exact Hin.
          - reflexivity.
          - exists r. unfold find_rp in *. destruct Hn as [Hrp _]. rewrite Hrp. exact Hr. }
        apply in_map_iff in Hw. destruct Hw as [q [Eq Hq]]. apply in_map_iff. exists q. split; [exact Eq|].
        apply Hseg. exact Hq.
      * destruct (alloc_in_wf_spec a0 (Hcw a0 (or_introl eq_refl))) as [_ Hne].
        destruct (ai_res a0) as [|x xs] eqn:Ex; [congruence|].
        cbn [alloc_objs] in Hs'.
        destruct (new_allocs_complete _ _ _ _ Hs' a0 x (or_introl eq_refl)) as [q [Hq [Eq _]]];
          [rewrite Ex; left; reflexivity|].
        apply in_map_iff. exists q. split; [congruence|apply Hseg; exact Hq].
    + apply filter_In in Hq. destruct Hq as [Hq Hnz].
      apply (alloc_list_In _ _ _ _ Ha) in Hq. destruct Hq as [k' [c' [seg' [Hin' [Hs'' Hq]]]]].
      destruct (F2_combine _ _ _ _ _ HF Hin') as [Eku' Hc'].
      pose proof (alloc_objs_cons _ _ _ _ _ Hs'' Hq) as Eqc.
      unfold mk_alloc in Eq. injection Eq as E1 E2 E3 E4.
      assert (c' = c) by (apply (NoDup_map_eq ci_uuid l); [assumption..|congruence]). subst c'.
      destruct (ci_allocs c) as [|a0 rest] eqn:Eca.
      * cbn [alloc_objs] in Hs''. injection Hs'' as <-. apply wipe_list_In in Hq. destruct Hq as [_ Hq].
        rewrite Hq in Hnz. discriminate.
      * cbn [alloc_objs] in Hs''. destruct (new_allocs_In _ _ _ _ Hs'' q Hq) as [a [x [Hain [Hx [_ [Er [Erc Eam]]]]]]].
        exists a. split; [exact Hain|]. split; [congruence|]. destruct x as [x1 x2]. cbn [fst snd] in *.
        subst. exact Hx.
  - intros [a [Hain [Eu Hx]]]. right.
    destruct (ci_allocs c) as [|a0 rest] eqn:Eca; [destruct Hain|]. cbn [alloc_objs] in Hs'.
    destruct (new_allocs_complete _ _ _ _ Hs' a (rc, amt) Hain Hx) as [q [Hq [Eqc [Er [Erc Eam]]]]].
    cbn [fst snd] in *. exists q. split.
    + unfold mk_alloc. congruence.
    + apply filter_In. split; [apply Hseg; exact Hq|].
      destruct (alloc_in_wf_spec a (Hcw a Hain)) as [Hpos _]. specialize (Hpos _ Hx). cbn [snd] in Hpos.
      apply negb_true_iff, Z.eqb_neq. lia.
Qed.

(* ================================================================ inventories *)
Definition ikey (i : inv) : Z * Z := (i_rp i, i_rc i).

Lemma keyb_iff i u rc : (i_rp i =? u) && (i_rc i =? rc) = true <-> ikey i = (u, rc).
Proof.
  unfold ikey. rewrite andb_true_iff, !Z.eqb_eq. split; [intros [-> ->]; reflexivity|intros [= -> ->]; auto].
Qed.
Lemma find_inv_l_Some l u rc i : find_inv_l l u rc = Some i -> In (u, rc) (map ikey l).
Proof.
  induction l as [|j l IH]; cbn [find_inv_l map In]; [discriminate|].
  destruct ((i_rp j =? u) && (i_rc j =? rc)) eqn:E; [|intro H; right; exact (IH H)].
  intros _. left. apply keyb_iff. exact E.
Qed.
Lemma find_inv_l_None l u rc : find_inv_l l u rc = None -> ~ In (u, rc) (map ikey l).
Proof.
  induction l as [|j l IH]; cbn [find_inv_l map In]; [tauto|].
  destruct ((i_rp j =? u) && (i_rc j =? rc)) eqn:E; [discriminate|].
  intros H [Hk|Hin]; [|exact (IH H Hin)]. apply keyb_iff in Hk. congruence.
Qed.

Lemma replace_inv_keys l n : map ikey (replace_inv l n) = map ikey l.
Proof.
  induction l as [|i l IH]; cbn [replace_inv map]; [reflexivity|].
  destruct ((i_rp i =? i_rp n) && (i_rc i =? i_rc n)) eqn:E; cbn [map].
  - apply keyb_iff in E. f_equal. symmetry. exact E.
  - f_equal. exact IH.
Qed.

Lemma replace_inv_In l n y : NoDup (map ikey l) ->
  (In y (replace_inv l n) <-> (y = n /\ In (ikey n) (map ikey l)) \/ (In y l /\ ikey y <> ikey n)).
Proof.
  induction l as [|i l IH]; intro ND; cbn [replace_inv map].
  - split; [intros []|intros [[_ []]|[[] _]]].
  - inversion ND as [|? ? Hni ND']; subst.
    destruct ((i_rp i =? i_rp n) && (i_rc i =? i_rc n)) eqn:E.
    + apply keyb_iff in E. change (ikey i = ikey n) in E. cbn [In]. split.
      * intros [<-|Hy]; [left; split; [reflexivity|left; exact E]|].
        right. split; [right; exact Hy|]. intro Ek. apply Hni. rewrite E, <- Ek. apply in_map. exact Hy.
      * intros [[-> _]|[[<-|Hy] Hk]]; [left; reflexivity|contradiction (Hk E)|right; exact Hy].
    + assert (E' : ikey i <> ikey n).
      { intro Ek. change (ikey i = (i_rp n, i_rc n)) in Ek. apply keyb_iff in Ek. congruence. }
      cbn [In]. rewrite (IH ND'). split.
      * intros [<-|[[-> Hin]|[Hy Hk]]].
        -- right. split; [left; reflexivity|exact E'].
        -- left. split; [reflexivity|right; exact Hin].
        -- right. split; [right; exact Hy|exact Hk].
      * intros [[-> [Ek|Hin]]|[[<-|Hy] Hk]].
        -- contradiction (E' Ek).
        -- right. left. split; [reflexivity|exact Hin].
        -- left. reflexivity.
        -- right. right. split; assumption.
Qed.

Lemma upd_keys u : forall us d d',
  update_inventory_for_provider d u us = Ok d' -> map ikey (invs d') = map ikey (invs d).
Proof.
  induction us as [|x us IH]; intros d d' H; cbn [update_inventory_for_provider] in H.
  - injection H as <-. reflexivity.
  - destruct (find_inv d u (ii_rc x)); [|discriminate]. apply IH in H. cbn [invs set_invs] in H.
    rewrite H. apply replace_inv_keys.
Qed.

Lemma upd_In u : forall us d d',
  update_inventory_for_provider d u us = Ok d' -> NoDup (map ikey (invs d)) -> NoDup (map ii_rc us) ->
  forall y, In y (invs d') <->
    (exists x, In x us /\ y = to_inv u x) \/
    (In y (invs d) /\ ~ (i_rp y = u /\ In (i_rc y) (map ii_rc us))).
Proof.
  induction us as [|x us IH]; intros d d' H ND NDu y; cbn [update_inventory_for_provider] in H.
  - injection H as <-. cbn [map In]. split.
    + intro Hy. right. split; [exact Hy|tauto].
    + intros [[? [[] _]]|[Hy _]]. exact Hy.
  - destruct (find_inv d u (ii_rc x)) as [i0|] eqn:F; [|discriminate].
    unfold find_inv in F. apply find_inv_l_Some in F.
    inversion NDu as [|? ? Hnx NDu']; subst.
    assert (NDm : NoDup (map ikey (invs (set_invs d (replace_inv (invs d) (to_inv u x)))))).
    { cbn [invs set_invs]. rewrite replace_inv_keys. exact ND. }
    rewrite (IH _ d' H NDm NDu' y). cbn [invs set_invs]. rewrite (replace_inv_In _ _ y ND).
    change (ikey (to_inv u x)) with (u, ii_rc x). cbn [map In]. split.
    + intros [[x' [Hx' ->]]|[[[-> _]|[Hy Hk]] Hnot]].
      * left. exists x'. split; [right; exact Hx'|reflexivity].
      * left. exists x. split; [left; reflexivity|reflexivity].
      * right. split; [exact Hy|]. intros [Eu [Erc|Hrc]].
        -- apply Hk. unfold ikey. congruence.
        -- apply Hnot. split; assumption.
    + intros [[x' [[<-|Hx'] ->]]|[Hy Hnot]].
      * right. split; [left; split; [reflexivity|exact F]|]. intros [_ Hin]. cbn [i_rc to_inv] in Hin.
        apply Hnx. exact Hin.
      * left. exists x'. auto.
      * right. split.
        -- right. split; [exact Hy|]. intro Ek. apply Hnot. unfold ikey in Ek. injection Ek as E1 E2.
           split; [exact E1|left; symmetry; exact E2].
        -- intros [Eu Hin]. apply Hnot. split; [exact Eu|right; exact Hin].
Qed.

Lemma NoDup_map_pair {A} (f : A -> Z) (u : Z) l : NoDup (map f l) -> NoDup (map (fun x => (u, f x)) l).
Proof.
  induction l as [|x l IH]; cbn [map]; intro H; [constructor|]. inversion H; subst.
  constructor; [|apply IH; assumption]. intro Hin. apply in_map_iff in Hin. destruct Hin as [y [[= E] Hy]].
  apply H2. rewrite <- E. apply in_map. exact Hy.
Qed.

(* the list manipulation of _set_inventory *)
Lemma set_inv_core (I : list inv) u l :
  let existing := map i_rc (filter (fun i => i_rp i =? u) I) in
  let these := map ii_rc l in
  let to_add := filter (fun x => negb (memZ (ii_rc x) existing)) l in
  let to_del := filter (fun rc => negb (memZ rc these)) existing in
  let to_upd := filter (fun x => memZ (ii_rc x) existing) l in
  let I1 := filter (fun i => negb ((i_rp i =? u) && memZ (i_rc i) to_del)) I in
  let I2 := I1 ++ map (to_inv u) to_add in
  NoDup (map ikey I) -> NoDup (map ii_rc l) ->
  NoDup (map ikey I2) /\
  (forall I3,
     (forall y, In y I3 <-> (exists x, In x to_upd /\ y = to_inv u x) \/
                            (In y I2 /\ ~ (i_rp y = u /\ In (i_rc y) (map ii_rc to_upd)))) ->
     forall y, In y I3 <-> In y (map (to_inv u) l) \/ (In y I /\ i_rp y <> u)).
Proof.
  intros existing these to_add to_del to_upd I1 I2 ND NDl.
  assert (Hex : forall y, In y I -> i_rp y = u -> In (i_rc y) existing).
  { intros y Hy Eu. unfold existing. apply in_map. apply filter_In. split; [exact Hy|]. apply Z.eqb_eq. exact Eu. }
  split.
  - unfold I2. rewrite map_app. apply NoDup_app'.
    + unfold I1. apply NoDup_map_filter. exact ND.
    + rewrite map_map. change (fun x => ikey (to_inv u x)) with (fun x => (u, ii_rc x)).
      apply NoDup_map_pair. unfold to_add. apply NoDup_map_filter. exact NDl.
    + intros k Hk1 Hk2. apply in_map_iff in Hk1. destruct Hk1 as [i [<- Hi]].
      rewrite map_map in Hk2. apply in_map_iff in Hk2. destruct Hk2 as [x [Ex Hx]].
      unfold ikey in Ex. cbn [to_inv i_rp i_rc] in Ex. injection Ex as E1 E2.
      unfold I1 in Hi. apply filter_In in Hi. destruct Hi as [Hi _].
      unfold to_add in Hx. apply filter_In in Hx. destruct Hx as [_ Hx]. apply negb_memZ_In in Hx.
      apply Hx. replace (ii_rc x) with (i_rc i) by congruence. apply Hex; [exact Hi|congruence].
  - intros I3 H3 y. rewrite H3. unfold I2. rewrite in_app_iff. unfold I1. rewrite filter_In, !in_map_iff. split.
    + intros [[x [Hx ->]]|[[[Hy Hk]|[x [<- Hx]]] Hnot]].
      * left. exists x. split; [reflexivity|]. apply filter_In in Hx. tauto.
      * destruct (Z.eq_dec (i_rp y) u) as [Eu|Ne]; [|right; split; assumption].
        exfalso. apply Hnot. split; [exact Eu|].
        pose proof (Hex y Hy Eu) as Hin. apply Z.eqb_eq in Eu. rewrite Eu, andb_true_l in Hk.
        apply negb_memZ_In in Hk.
        destruct (memZ (i_rc y) these) eqn:M.
        -- apply memZ_In in M. unfold these in M. apply in_map_iff in M. destruct M as [x [Ex Hx]].
           exists x. split; [exact Ex|]. apply filter_In. split; [exact Hx|].
           apply memZ_In. rewrite Ex. exact Hin.
        -- exfalso. apply Hk. apply filter_In. split; [exact Hin|]. rewrite M. reflexivity.
      * left. exists x. split; [reflexivity|]. apply filter_In in Hx. tauto.
    + intros [[x [<- Hx]]|[Hy Ne]].
      * destruct (memZ (ii_rc x) existing) eqn:M.
        -- left. exists x. split; [|reflexivity]. apply filter_In. split; assumption.
        -- right. split.
           ++ right. exists x. split; [reflexivity|]. apply filter_In. split; [exact Hx|]. rewrite M. reflexivity.
           ++ intros [_ Hin]. destruct Hin as [x' [Ex' Hx']]. cbn [i_rc to_inv] in Ex'.
              apply filter_In in Hx'. destruct Hx' as [_ Hx']. rewrite Ex' in Hx'. congruence.
      * right. split.
        -- left. split; [exact Hy|]. destruct (i_rp y =? u) eqn:E; [|reflexivity].
           apply Z.eqb_eq in E. contradiction.
        -- intros [Eu _]. contradiction.
Qed.

Lemma set_inventory_spec d u g l d' :
  set_inventory d u g l = Ok d' -> NoDup (map ikey (invs d)) -> NoDup (map ii_rc l) ->
  NoDup (map ikey (invs d')) /\
  forall y, In y (invs d') <-> In y (map (to_inv u) l) \/ (In y (invs d) /\ i_rp y <> u).
Proof.
  unfold set_inventory, bind. cbv zeta. intros H ND NDl.
  destruct (negb _); [discriminate|].
  destruct (delete_inventory_from_provider _ _ _) as [d1|] eqn:E1; [|discriminate].
  unfold delete_inventory_from_provider in E1. destruct (existsb _ _); [discriminate|]. injection E1 as <-.
  destruct (update_inventory_for_provider _ _ _) as [d3|] eqn:E3; [|discriminate].
  apply incr_rp_gen_fr in H. destruct H as [[_ [Hi _]] _]. rewrite Hi.
  destruct (set_inv_core (invs d) u l ND NDl) as [C1 C2].
  pose proof (upd_keys _ _ _ _ E3) as K3.
  split.
  - rewrite K3. exact C1.
  - apply C2. apply (upd_In _ _ _ _ E3).
    + exact C1.
    + apply NoDup_map_filter. exact NDl.
Qed.

Lemma c04_inventory_complete :
  forall cf d v u g l d' rs x,
    inv_keys_nodup d -> req_wf (InvSet v u g l) = true -> step cf d (InvSet v u g l) = (d', rs) -> is_success rs ->
    (In x (invs d') <-> (In x (map (to_inv u) l) \/ (In x (invs d) /\ i_rp x <> u))).
Proof.
  intros cf d v u g l d' rs x ND Hwf H Hs. revert Hs. cbn [step] in H. unfold h_inv_set in H.
  destruct (find_rp d u) as [me|]; [|injection H as <- <-; not_success].
  destruct (negb (g =? rp_gen me)); [injection H as <- <-; not_success|].
  destruct (existsb (bad_capacity v) l); [injection H as <- <-; not_success|].
  destruct (set_inventory d u (rp_gen me) l) as [dx|e] eqn:E; [|destruct e; injection H as <- <-; not_success].
  injection H as <- <-. intros _. cbn [req_wf] in Hwf. unfold inv_list_wf in Hwf. apply andb_true_iff in Hwf. destruct Hwf as [_ Hnd].
  apply nodupb_NoDup in Hnd. apply set_inventory_spec in E; [|exact ND|exact Hnd]. apply E.
Qed.

(* ================================================================ the unique key of inventories *)
Definition IK (d : db) : Prop := NoDup (map ikey (invs d)).

Lemma fr_keys d d' : fr d d' -> IK d -> IK d'.
Proof. intros [_ [H _]]. unfold IK. rewrite H. auto. Qed.
Lemma fr_aux d d' : fr d d' -> aux_same d d'.
Proof. intros [H _]. exact H. Qed.

Lemma set_inventory_keys d u g l d' :
  set_inventory d u g l = Ok d' -> NoDup (map ii_rc l) -> IK d -> IK d'.
Proof. intros H Hl Hk. apply (set_inventory_spec _ _ _ _ _ H Hk Hl). Qed.
Lemma add_inventory_keys d u g x d' : add_inventory d u g x = Ok d' -> IK d -> IK d'.
Proof.
  unfold add_inventory. intros H Hk. destruct (negb _); [discriminate|].
  destruct (find_inv d u (ii_rc x)) eqn:F; [discriminate|].
  apply incr_rp_gen_fr in H. destruct H as [[_ [Hi _]] _]. unfold IK. rewrite Hi.
  cbn [invs add_inventory_to_provider set_invs map]. rewrite map_app. apply NoDup_app'.
  - exact Hk.
  - cbn [map]. constructor; [intros []|constructor].
  - intros k Hin [<-|[]]. unfold find_inv in F. apply find_inv_l_None in F. apply F. exact Hin.
Qed.
Lemma update_inventory_keys d u g x d' : update_inventory d u g x = Ok d' -> IK d -> IK d'.
Proof.
  unfold update_inventory, bind. intros H Hk. destruct (negb _); [discriminate|].
  destruct (update_inventory_for_provider _ _ _) as [d1|] eqn:E; [|discriminate].
  apply incr_rp_gen_fr in H. destruct H as [[_ [Hi _]] _]. unfold IK. rewrite Hi, (upd_keys _ _ _ _ E). exact Hk.
Qed.
Lemma delete_inventory_keys d u g rc d' : delete_inventory d u g rc = Ok d' -> IK d -> IK d'.
Proof.
  unfold delete_inventory, bind, delete_inventory_from_provider. intros H Hk. destruct (negb _); [discriminate|].
  destruct (existsb _ _); [discriminate|]. destruct (find_inv d u rc); [|discriminate].
  apply incr_rp_gen_fr in H. destruct H as [[_ [Hi _]] _]. unfold IK. rewrite Hi.
  cbn [invs set_invs]. apply NoDup_map_filter. exact Hk.
Qed.
Lemma rp_delete_keys d u d' : rp_delete d u = Ok d' -> IK d -> IK d'.
Proof.
  unfold rp_delete. intros H Hk. brk H. injection H as <-. unfold IK. cbn. apply NoDup_map_filter. exact Hk.
Qed.

Lemma NoDup_rc_of_keys I u : NoDup (map ikey I) -> NoDup (map i_rc (filter (fun i => i_rp i =? u) I)).
Proof.
  induction I as [|i I IH]; cbn [map filter]; intro H; [constructor|]. inversion H; subst.
  destruct (i_rp i =? u) eqn:E; [|apply IH; assumption]. cbn [map]. constructor; [|apply IH; assumption].
  intro Hin. apply in_map_iff in Hin. destruct Hin as [j [Ej Hj]]. apply filter_In in Hj. destruct Hj as [Hj Eu].
  apply H2. apply in_map_iff. exists j. split; [|exact Hj]. unfold ikey. apply Z.eqb_eq in E, Eu. congruence.
Qed.

Lemma interim_nodup d u new : IK d -> NoDup (map ii_rc new) -> NoDup (map ii_rc (interim_inv d u new)).
Proof.
  intros Hk Hn. unfold interim_inv. cbv zeta. rewrite map_app, map_map.
  rewrite (map_ext _ ii_rc).
  - rewrite !map_map. cbn [ii_rc inv_to_in]. apply NoDup_app'.
    + apply NoDup_rc_of_keys. exact Hk.
    + apply NoDup_map_filter. exact Hn.
    + intros rc H1 H2. apply in_map_iff in H2. destruct H2 as [n [<- Hn']]. apply filter_In in Hn'.
      destruct Hn' as [_ Hn']. apply negb_memZ_In in Hn'. apply Hn'. exact H1.
  - intro e. destruct (find _ new) eqn:Ff; [|reflexivity]. apply find_some in Ff. destruct Ff as [_ Ff].
    apply Z.eqb_eq. exact Ff.
Qed.

(* a db predicate preserved by the steps of reshape() is preserved by reshape() *)
Section ReshapeP.
  Variable P : db -> Prop.
  Variable W : rinv_in -> Prop.
  Hypothesis Hinterim : forall d r g d', P d -> W r ->
    set_inventory d (ri_rp r) g (interim_inv d (ri_rp r) (ri_invs r)) = Ok d' -> P d'.
  Hypothesis Hfinal : forall d r g d', P d -> W r -> set_inventory d (ri_rp r) g (ri_invs r) = Ok d' -> P d'.
  Hypothesis Halloc : forall d l d', P d -> set_allocations d l = Ok d' -> P d'.

  Lemma reshape_interim_P : forall l d x, Forall W l -> P d -> reshape_interim d l = Ok x -> P (fst x).
  Proof.
    induction l as [|r l IH]; intros d x HW HP H; cbn [reshape_interim] in H.
    - injection H as <-. exact HP.
    - inversion HW; subst. unfold bind in H. destruct (ri_invs r) eqn:Er.
      + destruct (reshape_interim d l) as [y|] eqn:E; [|discriminate]. injection H as <-. cbn [fst].
        eapply IH; eassumption.
      + rewrite <- Er in H. destruct (set_inventory _ _ _ _) as [d1|] eqn:E1; [|discriminate].
        destruct (reshape_interim d1 l) as [y|] eqn:E; [|discriminate]. injection H as <-. cbn [fst].
        eapply IH; [eassumption| |eassumption]. eapply Hinterim; eassumption.
  Qed.
  Lemma reshape_final_P : forall l d gens d', Forall W l -> P d -> reshape_final d l gens = Ok d' -> P d'.
  Proof.
    induction l as [|r l IH]; intros d gens d' HW HP H; cbn [reshape_final] in H.
    - injection H as <-. exact HP.
    - inversion HW; subst. destruct gens as [|[u g] gens]; [injection H as <-; exact HP|].
      unfold bind in H. destruct (set_inventory _ _ _ _) as [d1|] eqn:E1; [|discriminate].
      eapply IH; [eassumption| |eassumption]. eapply Hfinal; eassumption.
  Qed.
  Lemma reshape_txn_P d ri objs d' : Forall W ri -> P d -> reshape_txn d ri objs = Ok d' -> P d'.
  Proof.
    intros HW HP H. unfold reshape_txn, bind in H.
    destruct (reshape_interim d ri) as [[d1 gens]|] eqn:E1; [|discriminate].
    destruct (set_allocations d1 _) as [d2|] eqn:E2; [|discriminate].
    apply (reshape_interim_P _ _ _ HW HP) in E1. cbn [fst] in E1.
    eapply reshape_final_P; [eassumption| |eassumption]. eapply Halloc; eassumption.
  Qed.
End ReshapeP.

Lemma reshape_txn_aux d ri objs d' : reshape_txn d ri objs = Ok d' -> aux_same d d'.
Proof.
  apply (reshape_txn_P (aux_same d) (fun _ => True)).
  - intros d0 r g d1 HP _ H. apply set_inventory_aux in H. eapply aux_same_trans; [exact HP|apply H].
  - intros d0 r g d1 HP _ H. apply set_inventory_aux in H. eapply aux_same_trans; [exact HP|apply H].
  - intros d0 l d1 HP H. apply set_allocations_spec in H. eapply aux_same_trans; [exact HP|apply H].
  - apply Forall_forall. auto.
  - apply aux_same_refl.
Qed.
Lemma reshape_txn_keys d ri objs d' :
  Forall (fun r => NoDup (map ii_rc (ri_invs r))) ri -> IK d -> reshape_txn d ri objs = Ok d' -> IK d'.
Proof.
  apply (reshape_txn_P IK).
  - intros d0 r g d1 HP HW H. eapply set_inventory_keys; [exact H| |exact HP]. apply interim_nodup; assumption.
  - intros d0 r g d1 HP HW H. eapply set_inventory_keys; eassumption.
  - intros d0 l d1 HP H. apply set_allocations_spec in H. destruct H as [_ [H _]]. unfold IK. rewrite H. exact HP.
Qed.

(* ================================================================ residue: names are only added *)
Lemma set_inventory_aux1 d u g l d' : set_inventory d u g l = Ok d' -> aux_same d d'.
Proof. intro H. apply set_inventory_aux in H. apply H. Qed.

Lemma inspect_incl cf v : forall l d acc d1 o,
  inspect_consumers cf v d acc l = (d1, o) -> aux_incl d d1 /\ invs d1 = invs d.
Proof.
  induction l as [|c l IH]; intros d acc d1 o H; cbn [inspect_consumers] in H.
  - injection H as <- <-. split; [apply aux_incl_refl|reflexivity].
  - destruct (ensure_consumer cf v d c) as [dx [k|]] eqn:E;
      apply ensure_consumer_spec in E; destruct E as [[_ [Hi _]] [Ha _]].
    + apply IH in H. destruct H as [H1 H2]. split; [eapply aux_incl_trans; eassumption|congruence].
    + injection H as <- <-. split; [exact Ha|exact Hi].
Qed.

Lemma aux_incl_same a b c : aux_incl a b -> aux_same b c -> aux_incl a c.
Proof. intros H1 H2. eapply aux_incl_trans; [exact H1|apply aux_same_incl; exact H2]. Qed.

Lemma c04_residue :
  forall cf d r d' rs, step cf d r = (d', rs) ->
    incl (projects d) (projects d') /\ incl (users d) (users d') /\ incl (ctypes d) (ctypes d').
Proof.
  intros cf d r d' rs H. change (aux_incl d d'). destruct r; cbn [step] in H.
  all: try (unfold h_rp_create, h_rp_update, h_rp_delete, h_inv_set, h_inv_post, h_inv_put, h_inv_delete,
              h_inv_delete_all, h_traits_set, h_traits_delete, h_aggs_set, h_alloc_delete,
              h_rc_rename, h_rc_create, h_rc_put, h_rc_delete, h_trait_put, h_trait_delete in H;
            brk H; injection H as <- <-;
            first [ apply aux_incl_refl
                  | apply aux_same_incl;
                    solve [eauto using fr_aux, rp_create_fr, rp_update_fr, rc_create_fr, rc_destroy_fr, rc_rename_fr,
                      trait_create_fr, trait_destroy_fr, set_traits_txn_fr, set_aggregates_txn_fr,
                      rp_delete_aux, add_inventory_aux, update_inventory_aux, delete_inventory_aux,
                      set_inventory_aux1]
                  | unfold aux_incl; cbn; repeat split; apply incl_refl ]).
  - (* PUT /allocations/{c} *)
    unfold h_alloc_put in H. destruct (ensure_consumer cf v d c) as [d1 [k|]] eqn:E;
      apply ensure_consumer_spec in E; destruct E as [_ [Ha _]].
    + destruct (alloc_objs d1 k (ci_allocs c)); [destruct (set_allocations _ _) as [d2|] eqn:Es|];
        injection H as <- <-; try exact Ha.
      change (aux_incl d d2). apply set_allocations_spec in Es. destruct Es as [Es _].
      eapply aux_incl_same; [|exact Es]. eapply aux_incl_same; [exact Ha|]. apply fr_aux, update_consumer_fr.
    + injection H as <- <-. exact Ha.
  - (* POST /allocations *)
    unfold h_alloc_post in H. destruct (v <? 13); [injection H as <- <-; apply aux_incl_refl|].
    destruct (inspect_consumers cf v d [] l) as [d1 [ks|]] eqn:E; apply inspect_incl in E; destruct E as [Ha _].
    + destruct (alloc_list d1 ks l); [destruct (set_allocations _ _) as [d2|] eqn:Es|];
        injection H as <- <-; try exact Ha.
      change (aux_incl d d2). apply set_allocations_spec in Es. destruct Es as [Es _].
      eapply aux_incl_same; [|exact Es]. eapply aux_incl_same; [exact Ha|]. apply fr_aux, fold_update_consumer_fr.
    + injection H as <- <-. exact Ha.
  - (* POST /reshaper *)
    unfold h_reshape in H. destruct (v <? 30); [injection H as <- <-; apply aux_incl_refl|].
    destruct (reshape_precheck d ri); [injection H as <- <-; apply aux_incl_refl|].
    destruct (inspect_consumers cf v d [] al) as [d1 [ks|]] eqn:E; apply inspect_incl in E; destruct E as [Ha _].
    + destruct (alloc_list d1 ks al); [destruct (reshape_txn _ _ _) as [d2|] eqn:Es|];
        injection H as <- <-; try exact Ha.
      change (aux_incl d d2). apply reshape_txn_aux in Es.
      eapply aux_incl_same; [|exact Es]. eapply aux_incl_same; [exact Ha|]. apply fr_aux, fold_update_consumer_fr.
    + injection H as <- <-. exact Ha.
Qed.

(* ================================================================ every request keeps inventory keys unique *)
Lemma IK_invs d d' : invs d' = invs d -> IK d -> IK d'.
Proof. unfold IK. intros ->. auto. Qed.

Lemma step_keys cf d r d' rs : req_wf r = true -> step cf d r = (d', rs) -> IK d -> IK d'.
Proof.
  intros Hwf H Hk. destruct r; cbn [step] in H.
  all: try (unfold h_rp_create, h_rp_update, h_rp_delete, h_inv_post, h_inv_put, h_inv_delete,
              h_traits_set, h_traits_delete, h_aggs_set, h_alloc_delete,
              h_rc_rename, h_rc_create, h_rc_put, h_rc_delete, h_trait_put, h_trait_delete in H;
            brk H; injection H as <- <-;
            first [ exact Hk
                  | solve [eapply fr_keys; [|exact Hk];
                           eauto using rp_create_fr, rp_update_fr, rc_create_fr, rc_destroy_fr, rc_rename_fr,
                             trait_create_fr, trait_destroy_fr, set_traits_txn_fr, set_aggregates_txn_fr]
                  | solve [eauto using rp_delete_keys, add_inventory_keys, update_inventory_keys,
                             delete_inventory_keys] ]).
  - (* PUT inventories *)
    cbn [req_wf] in Hwf. unfold inv_list_wf in Hwf. apply andb_true_iff in Hwf. destruct Hwf as [_ Hnd].
    apply nodupb_NoDup in Hnd. unfold h_inv_set in H. brk H; injection H as <- <-; try exact Hk.
    eapply set_inventory_keys; eassumption.
  - (* DELETE inventories *)
    unfold h_inv_delete_all in H. brk H; injection H as <- <-; try exact Hk.
    eapply set_inventory_keys; [eassumption|constructor|exact Hk].
  - (* PUT /allocations/{c} *)
    unfold h_alloc_put in H. destruct (ensure_consumer cf v d c) as [d1 [k|]] eqn:E;
      apply ensure_consumer_spec in E; destruct E as [[_ [Hi _]] _].
    + destruct (alloc_objs d1 k (ci_allocs c)); [destruct (set_allocations _ _) as [d2|] eqn:Es|];
        injection H as <- <-; try exact (IK_invs _ _ Hi Hk).
      apply set_allocations_spec in Es. destruct Es as [_ [Es _]].
      apply (IK_invs d); [|exact Hk]. cbn [invs delete_created set_consumers]. rewrite Es.
      destruct (update_consumer_fr d1 k) as [[_ [Hu _]] _]. congruence.
    + injection H as <- <-. exact (IK_invs _ _ Hi Hk).
  - (* POST /allocations *)
    unfold h_alloc_post in H. destruct (v <? 13); [injection H as <- <-; exact Hk|].
    destruct (inspect_consumers cf v d [] l) as [d1 [ks|]] eqn:E; apply inspect_incl in E; destruct E as [_ Hi].
    + destruct (alloc_list d1 ks l); [destruct (set_allocations _ _) as [d2|] eqn:Es|];
        injection H as <- <-; try exact (IK_invs _ _ Hi Hk).
      apply set_allocations_spec in Es. destruct Es as [_ [Es _]].
      apply (IK_invs d); [|exact Hk]. cbn [invs delete_created set_consumers]. rewrite Es.
      destruct (fold_update_consumer_fr ks d1) as [[_ [Hu _]] _]. congruence.
    + injection H as <- <-. exact (IK_invs _ _ Hi Hk).
  - (* POST /reshaper *)
    cbn [req_wf] in Hwf. rewrite !andb_true_iff in Hwf. destruct Hwf as [[Hri _] _].
    assert (HW : Forall (fun r => NoDup (map ii_rc (ri_invs r))) ri).
    { apply Forall_forall. intros r Hr. rewrite forallb_forall in Hri. specialize (Hri r Hr).
      unfold inv_list_wf in Hri. apply andb_true_iff in Hri. apply nodupb_NoDup. apply Hri. }
    unfold h_reshape in H. destruct (v <? 30); [injection H as <- <-; exact Hk|].
    destruct (reshape_precheck d ri); [injection H as <- <-; exact Hk|].
    destruct (inspect_consumers cf v d [] al) as [d1 [ks|]] eqn:E; apply inspect_incl in E; destruct E as [_ Hi].
    + destruct (alloc_list d1 ks al); [destruct (reshape_txn _ _ _) as [d2|] eqn:Es|];
        injection H as <- <-; try exact (IK_invs _ _ Hi Hk).
      change (IK d2). eapply reshape_txn_keys; [exact HW| |exact Es].
      apply (IK_invs d); [|exact Hk]. destruct (fold_update_consumer_fr ks d1) as [[_ [Hu _]] _]. congruence.
    + injection H as <- <-. exact (IK_invs _ _ Hi Hk).
Qed.

Lemma run_keys cf : forall l d, reqs_wf l -> IK d -> IK (run cf d l).
Proof.
  induction l as [|r l IH]; intros d Hwf Hk; cbn [run]; [exact Hk|].
  inversion Hwf; subst. apply IH; [assumption|].
  destruct (step cf d r) as [d' rs] eqn:E. cbn [fst]. eapply step_keys; eassumption.
Qed.

Lemma c04_inv_keys_reachable : forall cf d, reachable cf d -> inv_keys_nodup d.
Proof.
  intros cf d [l [Hwf ->]]. change (IK (run cf db0 l)). apply run_keys; [exact Hwf|]. constructor.
Qed.
