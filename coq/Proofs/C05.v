(* C05 - a write guarded by a provider generation succeeds only against that generation: proofs.
   Also the generic machinery for executions of Model/Conc.v used by C06: schedule lemmas, monotonicity of
   provider generations along every execution, the retry loop of replace_all, and the invariant of the
   allocation-write state machines (AInv). *)
From PV Require Import Proofs.ConcDefs Proofs.C10.

(* ================================================================== schedules *)
Lemma run_sched_app s1 : forall s2 ts d,
  run_sched (s1 ++ s2) ts d = run_sched s2 (fst (run_sched s1 ts d)) (snd (run_sched s1 ts d)).
Proof.
  induction s1 as [|i s1 IH]; intros s2 ts d; cbn [app run_sched fst snd]; [reflexivity|].
  destruct (step_thread i ts d) as [ts1 d1]. apply IH.
Qed.

Lemma firstn_S_nth {A} (s : list A) : forall k i, nth_error s k = Some i -> firstn (S k) s = firstn k s ++ [i].
Proof.
  induction s as [|a s IH]; intros [|k] i H; cbn in H; try discriminate.
  - injection H as <-. reflexivity.
  - cbn [firstn app]. f_equal. apply IH. assumption.
Qed.

Lemma step_thread_other : forall i ts d ts' d' j, step_thread i ts d = (ts', d') -> j <> i ->
  nth_error ts' j = nth_error ts j.
Proof.
  induction i as [|i IH]; intros [|t ts] d ts' d' j H Hj; cbn [step_thread] in H.
  - inv H. reflexivity.
  - destruct (tstep t d) as [d1 t1]. inv H. destruct j; [congruence|reflexivity].
  - inv H. reflexivity.
  - destruct (step_thread i ts d) as [ts1 d1] eqn:E. inv H. destruct j; [reflexivity|].
    cbn. eapply IH; [eassumption|congruence].
Qed.
Lemma step_thread_self : forall i ts d ts' d' t, step_thread i ts d = (ts', d') -> nth_error ts i = Some t ->
  exists t', tstep t d = (d', t') /\ nth_error ts' i = Some t'.
Proof.
  induction i as [|i IH]; intros [|t0 ts] d ts' d' t H Ht; cbn [step_thread] in H; cbn in Ht; try discriminate.
  - inv Ht. destruct (tstep t d) as [d1 t1]. inv H. exists t1. split; reflexivity.
  - destruct (step_thread i ts d) as [ts1 d1] eqn:E. inv H. cbn. eapply IH; eassumption.
Qed.
Lemma step_thread_none : forall i ts d, nth_error ts i = None -> step_thread i ts d = (ts, d).
Proof.
  induction i as [|i IH]; intros [|t0 ts] d Ht; cbn [step_thread]; cbn in Ht; try discriminate; try reflexivity.
  rewrite (IH _ _ Ht). reflexivity.
Qed.

Section Trace.
Variables (cf : cfg) (reqs : list req) (s : list nat) (d : db).

Definition T (k : nat) : list tstate := fst (at_step cf reqs s d k).
Definition D (k : nat) : db := snd (at_step cf reqs s d k).

Lemma at_step_0 : T 0 = map (tinit cf) reqs /\ D 0 = d.
Proof. split; reflexivity. Qed.

Lemma at_step_S k i : nth_error s k = Some i -> step_thread i (T k) (D k) = (T (S k), D (S k)).
Proof.
  intros H. unfold T, D, at_step, exec. rewrite (firstn_S_nth _ _ _ H), run_sched_app. cbn [run_sched].
  destruct (step_thread i _ _) as [a b]. reflexivity.
Qed.
Lemma at_step_stay k : nth_error s k = None -> at_step cf reqs s d (S k) = at_step cf reqs s d k.
Proof.
  intros H. apply nth_error_None in H. unfold at_step. rewrite !firstn_all2 by lia. reflexivity.
Qed.
Lemma at_step_end ts' d' : exec cf reqs s d = (ts', d') -> T (length s) = ts' /\ D (length s) = d'.
Proof. intros H. unfold T, D, at_step. rewrite firstn_all, H. split; reflexivity. Qed.

(* what one position of the schedule does to thread i and to the database *)
Lemma trace_other k i j : nth_error s k = Some j -> j <> i -> nth_error (T (S k)) i = nth_error (T k) i.
Proof. intros H Hj. apply at_step_S in H. eapply step_thread_other; [eassumption|congruence]. Qed.
Lemma trace_self k i t : nth_error s k = Some i -> nth_error (T k) i = Some t ->
  exists t', tstep t (D k) = (D (S k), t') /\ nth_error (T (S k)) i = Some t'.
Proof. intros H Ht. apply at_step_S in H. eapply step_thread_self; eassumption. Qed.
Lemma trace_db k : D (S k) = D k \/
  exists j t t', nth_error s k = Some j /\ nth_error (T k) j = Some t /\ tstep t (D k) = (D (S k), t').
Proof.
  destruct (nth_error s k) as [j|] eqn:E.
  - destruct (nth_error (T k) j) as [t|] eqn:Et.
    + destruct (trace_self _ _ _ E Et) as (t' & H & _). right. eauto 6.
    + pose proof (at_step_S _ _ E) as H. rewrite (step_thread_none _ _ _ Et) in H. inv H. left. congruence.
  - left. unfold D. rewrite (at_step_stay _ E). reflexivity.
Qed.
Lemma trace_idle k i : nth_error s k <> Some i -> nth_error (T (S k)) i = nth_error (T k) i.
Proof.
  intros H. destruct (nth_error s k) as [j|] eqn:E.
  - eapply trace_other; [eassumption|congruence].
  - unfold T. rewrite (at_step_stay _ E). reflexivity.
Qed.

(* invariants of one thread *)
Lemma thread_inv (P : nat -> tstate -> Prop) i r :
  nth_error reqs i = Some r ->
  P 0%nat (tinit cf r) ->
  (forall k t, P k t -> P (S k) t) ->
  (forall k t t', nth_error s k = Some i -> nth_error (T k) i = Some t -> P k t ->
                  tstep t (D k) = (D (S k), t') -> P (S k) t') ->
  forall k, exists t, nth_error (T k) i = Some t /\ P k t.
Proof.
  intros Hr H0 Hidle Hself. induction k as [|k (t & Ht & HP)].
  - exists (tinit cf r). split; [|assumption]. destruct at_step_0 as [-> _]. rewrite nth_error_map, Hr. reflexivity.
  - destruct (nth_error s k) as [j|] eqn:E.
    + destruct (Nat.eq_dec j i) as [->|Hj].
      * destruct (trace_self _ _ _ E Ht) as (t' & H & Ht'). exists t'. split; [assumption|]. eapply Hself; eassumption.
      * exists t. split; [|auto]. rewrite (trace_other _ _ _ E Hj). assumption.
    + exists t. split; [|auto]. rewrite trace_idle; [assumption|congruence].
Qed.

(* a finished thread keeps its response *)
Lemma done_stable i rs : forall k k', (k <= k')%nat -> nth_error (T k) i = Some (TDone rs) ->
  nth_error (T k') i = Some (TDone rs).
Proof.
  intros k k' Hle H. induction Hle as [|k' Hle IH]; [assumption|].
  destruct (nth_error s k') as [j|] eqn:E.
  - destruct (Nat.eq_dec j i) as [->|Hj].
    + destruct (trace_self _ _ _ E IH) as (t' & Hs & Ht'). cbn in Hs. inv Hs. assumption.
    + rewrite (trace_other _ _ _ E Hj). assumption.
  - rewrite trace_idle; [assumption|congruence].
Qed.

(* the position at which a boolean property of thread i's state becomes true *)
Lemma flip (q : tstate -> bool) i : forall n t0 tn,
  nth_error (T 0) i = Some t0 -> q t0 = false -> nth_error (T n) i = Some tn -> q tn = true ->
  exists k t t', (k < n)%nat /\ nth_error s k = Some i /\ nth_error (T k) i = Some t /\ q t = false /\
                 tstep t (D k) = (D (S k), t') /\ nth_error (T (S k)) i = Some t' /\ q t' = true.
Proof.
  induction n as [|n IH]; intros t0 tn H0 Q0 Hn Qn; [congruence|].
  destruct (nth_error s n) as [j|] eqn:E.
  - destruct (Nat.eq_dec j i) as [->|Hj].
    + destruct (nth_error (T n) i) as [t|] eqn:Et.
      * destruct (trace_self _ _ _ E Et) as (t' & Hs & Ht'). rewrite Hn in Ht'. inv Ht'.
        destruct (q t) eqn:Qt.
        -- destruct (IH _ _ H0 Q0 eq_refl Qt) as (k & a & b & Hk & R). exists k, a, b. split; [lia|exact R].
        -- exists n, t, t'. repeat split; auto.
      * pose proof (at_step_S _ _ E) as H. rewrite (step_thread_none _ _ _ Et) in H.
        assert (T (S n) = T n) by congruence. congruence.
    + rewrite (trace_other _ _ _ E Hj) in Hn. destruct (IH _ _ H0 Q0 Hn Qn) as (k & a & b & Hk & R).
      exists k, a, b. split; [lia|exact R].
  - rewrite trace_idle in Hn by congruence. destruct (IH _ _ H0 Q0 Hn Qn) as (k & a & b & Hk & R).
    exists k, a, b. split; [lia|exact R].
Qed.

End Trace.

(* ================================================================== the retry loop of replace_all *)
Lemma ole_rps d d' : rps d' = rps d -> forall u, ole (gen_of d u) (gen_of d' u).
Proof. intros H u. apply ole_eq. unfold gen_of, find_rp. rewrite H. reflexivity. Qed.

Lemma cas_rps_w_spec : forall l d d' o, cas_rps_w d l = (d', o) ->
  invs d' = invs d /\ allocs d' = allocs d /\ consumers d' = consumers d /\
  (forall u, ole (gen_of d u) (gen_of d' u)) /\
  (o = None -> cas_rps d l = Ok d') /\ (forall e, o = Some e -> e = ERpConcurrent).
Proof.
  induction l as [|[u g] l IH]; intros d d' o H; cbn in H.
  - inv H. repeat split; auto using ole_refl. discriminate.
  - destruct (incr_rp_gen d u g) as [d1|e1] eqn:E.
    + destruct (IH _ _ _ H) as (A & B & C & F & G & K).
      destruct (incr_rp_gen_inv _ _ _ _ E) as (l' & E' & ->). apply cas_rp_l_spec in E'. destruct E' as (E1 & E2 & E3).
      cbn in A, B, C. repeat split; auto.
      * intros x. eapply ole_trans; [|apply F]. destruct (Z.eq_dec x u) as [->|Hx].
        -- intros g0 Hg. rewrite gen_of_gl in Hg. rewrite E1 in Hg. inv Hg. exists (g0 + 1).
           split; [rewrite gen_of_gl; cbn; assumption|lia].
        -- apply ole_eq. rewrite !gen_of_gl. cbn. auto.
      * intros ->. cbn [cas_rps]. rewrite E. cbn [bind]. auto.
    + inv H. repeat split; auto using ole_refl; [discriminate|]. intros e [= <-].
      unfold incr_rp_gen in E. destruct (cas_rp_l (rps d') u g); [discriminate|]. inv E. reflexivity.
Qed.

Lemma cas_conss_w_spec : forall l d d' o, cas_conss_w d l = (d', o) ->
  (o = None -> cas_conss d l = Ok d') /\ (forall e, o = Some e -> e = EConcurrent).
Proof.
  induction l as [|[u g] l IH]; intros d d' o H; cbn in H.
  - inv H. split; [reflexivity|discriminate].
  - destruct (incr_cons_gen d u g) as [d1|e1] eqn:E.
    + destruct (IH _ _ _ H) as (G & K). split; [|assumption]. intros ->. cbn [cas_conss]. rewrite E. cbn [bind]. auto.
    + inv H. split; [discriminate|]. intros e [= <-].
      unfold incr_cons_gen in E. destruct (cas_cons_l (consumers d') u g); [discriminate|]. inv E. reflexivity.
Qed.

Lemma check_loop_err d : forall l seen e, check_loop d seen l = Err e -> e = EInvalidInventory.
Proof.
  induction l as [|a l IH]; intros seen e H; cbn in H; [discriminate|].
  destruct (q_amt a =? 0); [eapply IH; eassumption|].
  destruct (find_inv d (q_rp a) (q_rc a)); [|inv H; reflexivity].
  destruct (_ || _ || _); [inv H; reflexivity|]. destruct (_ || _); [inv H; reflexivity|]. eapply IH; eassumption.
Qed.
Lemma check_capacity_err d l e : check_capacity d l = Err e -> e <> ERpConcurrent.
Proof.
  unfold check_capacity. destruct (negb _); [intros [= <-]; discriminate|].
  destruct (existsb _ l); [intros [= <-]; discriminate|]. intros H. apply check_loop_err in H. subst. discriminate.
Qed.

Lemma saw_spec d l d' o : set_allocations_w d l = (d', o) ->
  (o = None -> set_allocations d l = Ok d') /\
  (o = Some ERpConcurrent -> consumers d' = consumers d /\ forall u, ole (gen_of d u) (gen_of d' u)).
Proof.
  unfold set_allocations_w, set_allocations. cbv zeta. intros H.
  destruct (check_capacity _ l) as [[]|e] eqn:EC; cbn [bind].
  - destruct (cas_rps_w _ _) as [d3 [e|]] eqn:E3.
    + inv H. split; [discriminate|]. intros _. apply cas_rps_w_spec in E3. destruct E3 as (A & B & C & F & _).
      cbn in C. split; [assumption|]. intros u. eapply ole_trans; [|apply F]. apply ole_rps. reflexivity.
    + apply cas_rps_w_spec in E3. destruct E3 as (_ & _ & _ & _ & G & _). rewrite (G eq_refl). cbn [bind].
      destruct (cas_conss_w _ _) as [d4 [e|]] eqn:E4.
      * inv H. apply cas_conss_w_spec in E4. destruct E4 as (_ & K). split; [discriminate|].
        intros [= ->]. specialize (K _ eq_refl). discriminate.
      * inv H. apply cas_conss_w_spec in E4. destruct E4 as (G4 & _). rewrite (G4 eq_refl). cbn [bind].
        split; [reflexivity|discriminate].
  - inv H. split; [discriminate|]. intros [= ->]. apply check_capacity_err in EC. congruence.
Qed.

(* everything of an allocation object but the provider generation it holds *)
Definition strip (a : areq) := (q_cons a, q_cgen a, q_rp a, q_rc a, q_amt a).
Lemma refresh_strip c : forall l l', refresh c l = Some l' -> map strip l' = map strip l.
Proof.
  induction l as [|a l IH]; intros l' H; cbn in H; [inv H; reflexivity|].
  destruct (find_rp c (q_rp a)); [|discriminate]. destruct (refresh c l) as [rest|]; [|discriminate].
  inv H. cbn. f_equal. apply IH. reflexivity.
Qed.
Lemma strip_in l0 l a : map strip l0 = map strip l -> In a l0 -> exists b, In b l /\ strip a = strip b.
Proof.
  intros H Ha. apply (in_map strip) in Ha. rewrite H in Ha. apply in_map_iff in Ha.
  destruct Ha as (b & E & Hb). eauto.
Qed.
Lemma strip_rps l0 l : map strip l0 = map strip l -> map q_rp l0 = map q_rp l.
Proof.
  intros H. assert (E : forall x, map q_rp x = map (fun p => snd (fst (fst p))) (map strip x)).
  { intros x. rewrite map_map. reflexivity. }
  rewrite !E, H. reflexivity.
Qed.
Lemma strip_conss l0 l : map strip l0 = map strip l -> map q_cons l0 = map q_cons l.
Proof.
  intros H. assert (E : forall x, map q_cons x = map (fun p => fst (fst (fst (fst p)))) (map strip x)).
  { intros x. rewrite map_map. reflexivity. }
  rewrite !E, H. reflexivity.
Qed.

Lemma replace_all_spec : forall fuel c w l w', replace_all fuel c w l = Ok w' ->
  exists w0 l0, map strip l0 = map strip l /\ consumers w0 = consumers w /\
                (forall u, ole (gen_of w u) (gen_of w0 u)) /\ set_allocations w0 l0 = Ok w'.
Proof.
  induction fuel as [|f IH]; intros c w l w' H; cbn [replace_all] in H; [discriminate|].
  destruct (set_allocations_w w l) as [w1 [e|]] eqn:E.
  - destruct e; try discriminate. apply saw_spec in E. destruct E as (_ & E). destruct (E eq_refl) as (C & F).
    destruct (refresh c l) as [l1|] eqn:R; [|discriminate].
    destruct (IH _ _ _ _ H) as (w0 & l0 & S0 & C0 & F0 & H0).
    exists w0, l0. split; [rewrite S0; eapply refresh_strip; eassumption|]. split; [congruence|].
    split; [|assumption]. intros u. eapply ole_trans; [apply F|apply F0].
  - inv H. apply saw_spec in E. destruct E as (E & _). exists w, l. repeat split; auto using ole_refl.
Qed.

Lemma replace_all_mono fuel c w l w' : replace_all fuel c w l = Ok w' ->
  (forall u, ole (gen_of w u) (gen_of w' u)) /\
  (forall u, In u (map q_rp l) -> olt (gen_of w u) (gen_of w' u)).
Proof.
  intros H. apply replace_all_spec in H. destruct H as (w0 & l0 & S0 & C0 & F0 & H0).
  apply set_allocations_ok in H0. destruct H0 as (P & G & _). split.
  - intros u. eapply ole_trans; [apply F0|apply pstep_ole; assumption].
  - intros u Hu. eapply ole_olt_trans; [apply F0|]. apply G. rewrite (strip_rps _ _ S0). assumption.
Qed.

(* ================================================================== the reshaper transaction *)
Definition ebit (r : rinv_in) : Z := match ri_invs r with [] => 0 | _ => 1 end.

Lemma reshape_interim_gens : forall l d d1 gens, reshape_interim d l = Ok (d1, gens) ->
  gens = map (fun r => (ri_rp r, ri_gen r + ebit r)) l /\
  forall y, In y l -> ri_invs y <> [] -> olt (gen_of d (ri_rp y)) (gen_of d1 (ri_rp y)).
Proof.
  induction l as [|r l IH]; intros d d1 gens H; cbn [reshape_interim] in H.
  - inv H. split; [reflexivity|]. intros y [].
  - destruct (ri_invs r) as [|i0 il] eqn:Ei.
    + destruct (reshape_interim d l) as [[d2 g2]|] eqn:E; [|discriminate]. cbn in H. inv H.
      destruct (IH _ _ _ E) as (-> & G). split.
      * cbn [map]. f_equal. unfold ebit. rewrite Ei, Z.add_0_r. reflexivity.
      * intros y [<-|Hy] Hne; [congruence|auto].
    + destruct (set_inventory d (ri_rp r) (ri_gen r) _) as [d2|] eqn:E1; [|discriminate]. cbn [bind] in H.
      destruct (reshape_interim d2 l) as [[d3 g3]|] eqn:E; [|discriminate]. cbn in H. inv H.
      destruct (IH _ _ _ E) as (-> & G). apply reshape_interim_spec in E. destruct E as [P _].
      apply set_inventory_bumped in E1. split.
      * cbn [map]. f_equal. unfold ebit. rewrite Ei. reflexivity.
      * intros y [<-|Hy] Hne.
        -- eapply olt_ole_trans; [|apply pstep_ole; exact P]. apply bumped_spec in E1. destruct E1 as (A & B & _).
           intros g0 Hg. rewrite A in Hg. inv Hg. eexists. split; [eassumption|lia].
        -- eapply ole_olt_trans; [eapply pstep_ole, bumped_pstep; eassumption|]. auto.
Qed.

Lemma reshape_final_le (G : rinv_in -> Z) : forall l d d',
  reshape_final d l (map (fun r => (ri_rp r, G r)) l) = Ok d' ->
  forall y, In y l ->
    (forall g0, gen_of d (ri_rp y) = Some g0 -> g0 <= G y) /\ olt (gen_of d (ri_rp y)) (gen_of d' (ri_rp y)).
Proof.
  induction l as [|r l IH]; intros d d' H y Hy; [destruct Hy|]. cbn [map reshape_final] in H.
  destruct (set_inventory d (ri_rp r) (G r) (ri_invs r)) as [d2|] eqn:E1; [|discriminate]. cbn [bind] in H.
  apply set_inventory_bumped in E1. pose proof (bumped_pstep _ _ _ _ E1) as P1.
  apply bumped_spec in E1. destruct E1 as (A & B & _).
  pose proof (reshape_final_spec _ _ _ _ H) as [P2 _].
  destruct Hy as [<-|Hy].
  - split.
    + intros g0 Hg. rewrite A in Hg. inv Hg. lia.
    + eapply olt_ole_trans; [|apply pstep_ole; exact P2].
      intros g0 Hg. rewrite A in Hg. inv Hg. eexists. split; [eassumption|lia].
  - destruct (IH _ _ H y Hy) as (L & O). split.
    + intros g0 Hg. destruct (pstep_ole _ _ (ri_rp y) P1 _ Hg) as (g1 & Hg1 & Le). specialize (L _ Hg1). lia.
    + eapply ole_olt_trans; [apply pstep_ole; exact P1|exact O].
Qed.

Lemma reshape_txn_c_spec c d ri objs d' : reshape_txn_c c d ri objs = Ok d' ->
  (forall u, ole (gen_of d u) (gen_of d' u)) /\
  forall y, In y ri ->
    olt (gen_of d (ri_rp y)) (gen_of d' (ri_rp y)) /\ forall g0, gen_of d (ri_rp y) = Some g0 -> g0 <= ri_gen y.
Proof.
  unfold reshape_txn_c. intros H.
  destruct (reshape_interim d ri) as [[d1 gens]|] eqn:E1; cbn [bind] in H; [|discriminate].
  destruct (replace_all retry_fuel c d1 _) as [d2|] eqn:E2; cbn [bind] in H; [|discriminate].
  destruct (reshape_interim_gens _ _ _ _ E1) as (EG & O1). subst gens. apply reshape_interim_spec in E1. destruct E1 as [P1 _].
  apply replace_all_mono in E2. destruct E2 as (M2 & O2).
  pose proof (reshape_final_spec _ _ _ _ H) as [P3 C3].
  split.
  - intros u. eapply ole_trans; [apply pstep_ole; exact P1|]. eapply ole_trans; [apply M2|apply pstep_ole; exact P3].
  - intros y Hy. rewrite map_map in H. cbn [fst snd] in H.
    match type of H with reshape_final _ _ (map (fun r => (_, @?G r)) _) = _ =>
      pose proof (reshape_final_le G ri d2 d' H y Hy) as (L & O3) end. cbv beta in L.
    split.
    + eapply ole_olt_trans; [apply pstep_ole; exact P1|]. eapply ole_olt_trans; [apply M2|exact O3].
    + intros g0 Hg.
      destruct (pstep_ole _ _ (ri_rp y) P1 _ Hg) as (g1 & Hg1 & Le1).
      destruct (M2 (ri_rp y) _ Hg1) as (g2 & Hg2 & Le2). specialize (L _ Hg2).
      assert (B1 : g0 + ebit y <= g1).
      { unfold ebit. destruct (ri_invs y) as [|i0 il] eqn:Ei; [lia|].
        destruct (O1 y Hy ltac:(congruence) _ Hg) as (g1' & Hg1' & Lt). rewrite Hg1 in Hg1'. inv Hg1'. lia. }
      match type of L with context[memZ ?u ?rl] => destruct (memZ u rl) eqn:M end; [|lia].
      apply memZ_In in M. destruct (O2 _ M _ Hg1) as (g2' & Hg2' & Lt). rewrite Hg2 in Hg2'. inv Hg2'. lia.
Qed.

Lemma strip_lookup gens objs :
  map strip (map (fun a => match lookup_gen gens (q_rp a) with
                           | Some g => mkAreq (q_cons a) (q_cgen a) (q_rp a) g (q_rc a) (q_amt a)
                           | None => a end) objs) = map strip objs.
Proof. rewrite map_map. apply map_ext. intros a. destruct (lookup_gen gens (q_rp a)); reflexivity. Qed.

(* the commit transaction of an allocation write: generations only grow; the consumer rows are those of
   one successful _set_allocations on a state with the consumer generations of the start state *)
Lemma main_txn_spec x ks objs d d' : main_txn x ks objs d = Ok d' ->
  (forall u, ole (gen_of d u) (gen_of d' u)) /\
  exists w0 l0 w1, map strip l0 = map strip objs /\ (forall c, cgl (consumers w0) c = cgl (consumers d) c) /\
                   set_allocations w0 l0 = Ok w1 /\ consumers d' = consumers w1.
Proof.
  unfold main_txn. cbv zeta. intros H.
  destruct (fold_update_spec ks d) as [(R & _) CG].
  assert (G0 : forall u, ole (gen_of d u) (gen_of (fold_left update_consumer ks d) u)) by (apply ole_rps; assumption).
  assert (K : forall w', replace_all retry_fuel d (fold_left update_consumer ks d) objs = Ok w' ->
     (forall u, ole (gen_of d u) (gen_of w' u)) /\
     exists w0 l0 w1, map strip l0 = map strip objs /\ (forall c, cgl (consumers w0) c = cgl (consumers d) c) /\
                      set_allocations w0 l0 = Ok w1 /\ consumers w' = consumers w1).
  { intros w' H'. split.
    - intros u. eapply ole_trans; [apply G0|]. apply replace_all_mono in H'. apply H'.
    - apply replace_all_spec in H'. destruct H' as (w0 & l0 & S0 & C0 & _ & H0). exists w0, l0, w'.
      repeat split; auto. intros c. rewrite C0. apply CG. }
  destruct (x_kind x); [apply K; assumption|apply K; assumption|].
  split.
  - intros u. eapply ole_trans; [apply G0|]. apply reshape_txn_c_spec in H. apply H.
  - unfold reshape_txn_c in H.
    destruct (reshape_interim _ (x_ri x)) as [[d1 gens]|] eqn:E1; cbn [bind] in H; [|discriminate].
    destruct (replace_all retry_fuel d d1 _) as [d2|] eqn:E2; cbn [bind] in H; [|discriminate].
    apply reshape_interim_spec in E1. destruct E1 as [_ C1].
    apply reshape_final_spec in H. destruct H as [_ C3].
    apply replace_all_spec in E2. destruct E2 as (w0 & l0 & S0 & C0 & _ & H0). exists w0, l0, d2.
    split; [rewrite S0; apply strip_lookup|]. split; [|split; assumption].
    intros c. rewrite C0, C1. apply CG.
Qed.

(* ================================================================== provider write transactions *)
Lemma set_traits_c_spec d u g ts d' : set_traits_c d u g ts = Ok d' ->
  gen_of d u = Some g /\
  ((traits_differ d u ts = false /\ d' = d) \/ (traits_differ d u ts = true /\ bumped u g d d')).
Proof.
  unfold set_traits_c, traits_differ, set_traits_txn. cbv zeta. intros H.
  assert (L : forall add del, loc u d (set_rp_traits d
     (filter (fun x => negb ((fst x =? u) && memZ (snd x) del)) (rp_traits d) ++ map (fun t => (u, t)) add))).
  { intros add del. apply traits_loc. intros y Hy. apply Z.eqb_neq in Hy. rewrite Hy. reflexivity. }
  assert (B : forall dm, loc u d dm -> incr_rp_gen dm u g = Ok d' -> gen_of d u = Some g /\ bumped u g d d').
  { intros dm Hl Hi. assert (Hb : bumped u g d d') by (exists dm; auto). split; [|assumption].
    apply bumped_spec in Hb. tauto. }
  destruct (filter (fun t => negb (memZ t (traits_of d u))) ts) as [|a ta];
    destruct (filter (fun t => negb (memZ t ts)) (traits_of d u)) as [|b tb].
  - destruct (find_rp d u) as [r|] eqn:F; [|discriminate]. destruct (rp_gen r =? g) eqn:E; [|discriminate].
    inv H. zb. split; [unfold gen_of; rewrite F; cbn; congruence|left; auto].
  - destruct (B _ (L _ _) H). split; [assumption|right; auto].
  - destruct (B _ (L _ _) H). split; [assumption|right; auto].
  - destruct (B _ (L _ _) H). split; [assumption|right; auto].
Qed.

Ltac pw_split H E :=
  match type of H with (match ?x with Ok _ => _ | Err _ => _ end) = _ => destruct x as [?dd|?e] eqn:E end.
Ltac pw_err H := match goal with e : exn |- _ => destruct e end; inv H.

Lemma prov_write_err r g0 d d' rs : prov_write r g0 d = (d', rs) -> 400 <= status rs -> d' = d.
Proof.
  unfold prov_write. intros H Hs.
  destruct r; try (inv H; reflexivity); pw_split H E; try (pw_err H; reflexivity); inv H; exfalso; revert Hs;
    try match goal with |- context[if ?c then _ else _] => destruct c end; cbn; lia.
Qed.

Definition not_old_aggs (r : req) : Prop := forall v u g l, r = AggsSet v u g l -> 19 <= v.

Lemma prov_write_ok r g0 d d' rs u : prov_write r g0 d = (d', rs) -> status rs < 300 -> prov_target r = Some u ->
  (not_old_aggs r -> gen_of d u = Some g0) /\
  (forall g, carries_rp_gen r u g -> g0 = g ->
     gen_of d u = Some g /\ (match r with TraitsSet _ _ _ _ => rgen rs = g + 1 | _ => True end -> gen_of d' u = Some (g + 1))).
Proof.
  unfold prov_write. intros H Hs Ht.
  assert (BS : forall g, bumped u g d d' -> gen_of d u = Some g /\ gen_of d' u = Some (g + 1)).
  { intros g Hb. apply bumped_spec in Hb. tauto. }
  destruct r; cbn [prov_target] in Ht; inv Ht; pw_split H E;
    try (pw_err H; exfalso; revert Hs; cbn; lia); inv H.
  - apply set_inventory_bumped, BS in E. split; [tauto|]. intros gg _ <-. tauto.
  - apply add_inventory_bumped, BS in E. split; [tauto|]. intros gg [].
  - apply update_inventory_bumped, BS in E. split; [tauto|]. intros gg _ <-. tauto.
  - apply delete_inventory_bumped, BS in E. split; [tauto|]. intros gg [].
  - apply set_inventory_bumped, BS in E. split; [tauto|]. intros gg [].
  - apply set_traits_c_spec in E. destruct E as (G & [(F & ->)|(F & B)]); rewrite F; cbn [rgen okg].
    + split; [auto|]. intros gg _ <-. split; [assumption|]. intros; lia.
    + apply BS in B. split; [tauto|]. intros gg _ <-. tauto.
  - apply set_traits_c_spec in E. destruct E as (G & _). split; [auto|]. intros gg [].
  - destruct (19 <=? v) eqn:V.
    + apply set_aggregates_txn_bumped, BS in E. split; [tauto|]. intros gg _ <-. tauto.
    + split.
      * intros N. specialize (N _ _ _ _ eq_refl). apply Z.leb_gt in V. lia.
      * intros gg (N & _) _. apply Z.leb_gt in V. lia.
Qed.

Lemma prov_write_mono r g0 d d' rs : prov_write r g0 d = (d', rs) -> forall u, ole (gen_of d u) (gen_of d' u).
Proof.
  unfold prov_write. intros H.
  assert (BS : forall u g, bumped u g d d' -> forall x, ole (gen_of d x) (gen_of d' x)).
  { intros u g Hb x. apply pstep_ole. eapply bumped_pstep; eassumption. }
  destruct r; try (inv H; intros; apply ole_refl); pw_split H E;
    try (pw_err H; intros; apply ole_refl); inv H.
  - eapply BS, set_inventory_bumped; eassumption.
  - eapply BS, add_inventory_bumped; eassumption.
  - eapply BS, update_inventory_bumped; eassumption.
  - eapply BS, delete_inventory_bumped; eassumption.
  - eapply BS, set_inventory_bumped; eassumption.
  - apply set_traits_c_spec in E. destruct E as (_ & [(_ & ->)|(_ & B)]); [intros; apply ole_refl|eapply BS; eassumption].
  - apply set_traits_c_spec in E. destruct E as (_ & [(_ & ->)|(_ & B)]); [intros; apply ole_refl|eapply BS; eassumption].
  - destruct (19 <=? v) eqn:V.
    + eapply BS, set_aggregates_txn_bumped; eassumption.
    + apply set_aggregates_txn_false in E. intros x. apply ole_eq. apply psame_gen. assumption.
Qed.

(* ================================================================== every transaction moves generations forward *)
Lemma aux_names_rps cf v d c : rps (aux_names cf v d c) = rps d /\ consumers (aux_names cf v d c) = consumers d /\
  allocs (aux_names cf v d c) = allocs d.
Proof. unfold aux_names. destruct (38 <=? v); repeat split. Qed.

Lemma tstep_mono t d d' t' : tstep t d = (d', t') -> forall u, ole (gen_of d u) (gen_of d' u).
Proof.
  intros H. destruct t; cbn [tstep] in H.
  - inv H. intros; apply ole_refl.
  - repeat bmH H; inv H; intros; apply ole_refl.
  - destruct (prov_write r g d) as [d1 rs] eqn:E. inv H. eapply prov_write_mono; eassumption.
  - repeat bmH H; inv H; intros; apply ole_refl.
  - destruct todo as [|c rest]; [inv H; intros; apply ole_refl|]. cbv zeta in H.
    destruct (rq_attrs _ _ c) as [[proj user] ty].
    assert (forall u, ole (gen_of d u) (gen_of (aux_names (x_cf x) (x_v x) d c) u)) by (apply ole_rps, aux_names_rps).
    destruct (find_cons d (ci_uuid c)); destruct (_ && _); inv H; assumption.
  - destruct (rq_attrs _ _ c) as [[proj user] ty]. destruct (find_cons d (ci_uuid c)); inv H;
      [intros; apply ole_refl|apply ole_rps; reflexivity].
  - destruct (rq_attrs _ _ c) as [[proj user] ty]. repeat bmH H; inv H; intros; apply ole_refl.
  - destruct todo as [|w rest]; [inv H; intros; apply ole_refl|]. cbv zeta in H.
    destruct w; [inv H; intros; apply ole_refl|]. destruct (find_rp d (ai_rp a)); inv H; intros; apply ole_refl.
  - destruct (main_txn x ks objs d) as [d1|e] eqn:E; inv H; [|intros; apply ole_refl].
    apply main_txn_spec in E. apply E.
  - destruct todo; inv H; [intros; apply ole_refl|apply ole_rps; reflexivity].
  - destruct (wipe_list d c); inv H; intros; apply ole_refl.
  - inv H. apply ole_rps. reflexivity.
  - inv H. apply ole_rps. reflexivity.
Qed.

Section Mono.
Variables (cf : cfg) (reqs : list req) (s : list nat) (d : db).
Notation T := (T cf reqs s d).
Notation D := (D cf reqs s d).

Lemma D_mono u : forall k k', (k <= k')%nat -> ole (gen_of (D k) u) (gen_of (D k') u).
Proof.
  intros k k' Hle. induction Hle as [|k' Hle IH]; [apply ole_refl|].
  eapply ole_trans; [exact IH|]. destruct (trace_db cf reqs s d k') as [E|(j & t & t' & _ & _ & E)].
  - rewrite E. apply ole_refl.
  - eapply tstep_mono; eassumption.
Qed.

(* ================================================================== provider writes: read, then write *)
Definition is_succ (t : tstate) : bool := match t with TDone r => status r <? 300 | _ => false end.

Definition read_at (i : nat) (r : req) (u g0 : Z) (k1 : nat) : Prop :=
  nth_error s k1 = Some i /\ nth_error (T k1) i = Some (TProvRead r) /\
  exists me, find_rp (D k1) u = Some me /\ rp_gen me = g0 /\ prov_precheck r me (D k1) = None.

Definition PInv (i : nat) (r : req) (u : Z) (k : nat) (t : tstate) : Prop :=
  match t with
  | TProvRead r' => r' = r
  | TProvWrite r' g0 => r' = r /\ exists k1, (k1 < k)%nat /\ read_at i r u g0 k1
  | TDone _ => True
  | _ => False
  end.

Lemma tinit_prov r u : prov_target r = Some u ->
  tinit cf r = TProvRead r \/ exists e, tinit cf r = TDone e /\ 400 <= status e.
Proof.
  destruct r; cbn; intros H; try discriminate; auto;
    match goal with |- context[if ?c then _ else _] => destruct c end; auto; right; eexists; (split; [reflexivity|cbn; lia]).
Qed.

Lemma precheck_err r me d0 e : prov_precheck r me d0 = Some e -> 400 <= status e.
Proof.
  destruct r; cbn; try discriminate;
    repeat match goal with |- context[if ?c then _ else _] => destruct c end; intros [= <-]; cbn; lia.
Qed.

Lemma PInv_all i r u : nth_error reqs i = Some r -> prov_target r = Some u ->
  forall k, exists t, nth_error (T k) i = Some t /\ PInv i r u k t.
Proof.
  intros Hr Hu. apply (thread_inv cf reqs s d (PInv i r u) i r Hr).
  - destruct (tinit_prov r u Hu) as [->|(e & -> & _)]; cbn; auto.
  - intros k t. destruct t; cbn; auto. intros (-> & k1 & L & R). split; [reflexivity|]. exists k1. split; [lia|assumption].
  - intros k t t' Hk Ht HP Hs. destruct t; cbn in HP; try contradiction.
    + cbn in Hs. inv Hs. exact I.
    + subst r0. cbn [tstep] in Hs. rewrite Hu in Hs.
      destruct (find_rp (D k) u) as [me|] eqn:F; [|inv Hs; exact I].
      destruct (prov_precheck r me (D k)) as [e|] eqn:P; inv Hs; [exact I|].
      cbn. split; [reflexivity|]. exists k. split; [lia|]. repeat split; auto. exists me. auto.
    + destruct HP as (-> & _). cbn [tstep] in Hs. destruct (prov_write r g (D k)). inv Hs. exact I.
Qed.

(* a successful provider write: the read step, the write step, and the response *)
Lemma prov_master i r u n : nth_error reqs i = Some r -> prov_target r = Some u -> succeeded (T n) i ->
  exists k1 k2 g0 rs, (k1 < k2 < n)%nat /\ read_at i r u g0 k1 /\ nth_error s k2 = Some i /\
    nth_error (T k2) i = Some (TProvWrite r g0) /\ prov_write r g0 (D k2) = (D (S k2), rs) /\ status rs < 300 /\
    nth_error (T n) i = Some (TDone rs).
Proof.
  intros Hr Hu (rs & Hn & Hs).
  assert (H0 : nth_error (T 0) i = Some (tinit cf r)).
  { destruct (at_step_0 cf reqs s d) as [E _]. fold T in E. rewrite E, nth_error_map, Hr. reflexivity. }
  assert (Q0 : is_succ (tinit cf r) = false).
  { destruct (tinit_prov r u Hu) as [->|(e & -> & L)]; cbn; [reflexivity|]. apply Z.ltb_ge. lia. }
  assert (Qn : is_succ (TDone rs) = true) by (cbn; apply Z.ltb_lt; assumption).
  destruct (flip cf reqs s d is_succ i n _ _ H0 Q0 Hn Qn) as (k & t & t' & Hk & Hsk & Ht & Qt & Hst & Ht' & Qt').
  destruct (PInv_all i r u Hr Hu k) as (t1 & Ht1 & HP). rewrite Ht in Ht1. inv Ht1.
  destruct t1; cbn in HP; try contradiction.
  - cbn in Hst. inv Hst. congruence.
  - subst r0. cbn [tstep] in Hst. rewrite Hu in Hst.
    destruct (find_rp (D k) u) as [me|]; [|inv Hst; cbn in Qt'; discriminate].
    destruct (prov_precheck r me (D k)) as [e|] eqn:P; inv Hst; cbn in Qt'; [|discriminate].
    apply precheck_err in P. apply Z.ltb_lt in Qt'. lia.
  - destruct HP as (-> & k1 & L & R). cbn [tstep] in Hst. destruct (prov_write r g (D k)) as [d1 rs1] eqn:E. inv Hst.
    cbn in Qt'. apply Z.ltb_lt in Qt'.
    exists k1, k, g, rs1. repeat split; auto; try lia; try apply R.
    assert (Hd : nth_error (T n) i = Some (TDone rs1)) by (eapply done_stable; [|eassumption]; lia).
    assumption.
Qed.

End Mono.

(* ================================================================== allocation writes: the invariant of the state machine *)
Lemma F2_comb {A B} (R : A -> B -> Prop) : forall ks l a b, Forall2 R ks l -> In (a, b) (combine ks l) -> R a b.
Proof.
  intros ks l a b H. induction H as [|x y ks l Hxy H IH]; cbn; [intros []|]. intros [E|E]; [inv E; assumption|auto].
Qed.
Lemma F2_in_l {A B} (R : A -> B -> Prop) : forall ks l a, Forall2 R ks l -> In a ks ->
  exists b, In (a, b) (combine ks l) /\ R a b.
Proof.
  intros ks l a H. induction H as [|x y ks l Hxy H IH]; cbn; [intros []|].
  intros [<-|E]; [exists y; auto|]. destruct (IH E) as (b & Hb & Rb). exists b. auto.
Qed.
Lemma F2_in_r {A B} (R : A -> B -> Prop) : forall ks l b, Forall2 R ks l -> In b l ->
  exists a, In (a, b) (combine ks l) /\ R a b.
Proof.
  intros ks l b H. induction H as [|x y ks l Hxy H IH]; cbn; [intros []|].
  intros [<-|E]; [exists x; auto|]. destruct (IH E) as (a & Ha & Ra). exists a. auto.
Qed.

Lemma F2_impl {A B} (R R' : A -> B -> Prop) ks l : (forall a b, R a b -> R' a b) -> Forall2 R ks l -> Forall2 R' ks l.
Proof. intros H F. induction F; constructor; auto. Qed.

Lemma wi_WRp : forall ks l kobj al, In (WRp kobj al) (work_items ks l) ->
  exists e, In (kobj, e) (combine ks l) /\ In al (ci_allocs e).
Proof.
  induction ks as [|k ks IH]; intros [|c l] kobj al H; cbn [work_items] in H; try destruct H.
  destruct (ci_allocs c) as [|a0 al0] eqn:E.
  - destruct H as [H|H]; [discriminate|]. destruct (IH _ _ _ H) as (e & He & Ha). exists e. split; [right|]; assumption.
  - apply in_app_or in H. destruct H as [H|H].
    + apply in_map_iff in H. destruct H as (a & Ea & Ha). inv Ea. exists c. split; [left; reflexivity|]. rewrite E. assumption.
    + destruct (IH _ _ _ H) as (e & He & Ha). exists e. split; [right|]; assumption.
Qed.
Lemma wi_WWipe : forall ks l kobj, In (WWipe kobj) (work_items ks l) ->
  exists e, In (kobj, e) (combine ks l) /\ ci_allocs e = [].
Proof.
  induction ks as [|k ks IH]; intros [|c l] kobj H; cbn [work_items] in H; try destruct H.
  destruct (ci_allocs c) as [|a0 al0] eqn:E.
  - destruct H as [H|H]; [inv H; exists c; split; [left; reflexivity|assumption]|].
    destruct (IH _ _ H) as (e & He & Ha). exists e. split; [right|]; assumption.
  - apply in_app_or in H. destruct H as [H|H].
    + apply in_map_iff in H. destruct H as (a & Ea & Ha). discriminate.
    + destruct (IH _ _ H) as (e & He & Ha). exists e. split; [right|]; assumption.
Qed.
Lemma wi_complete : forall ks l kobj e, In (kobj, e) (combine ks l) ->
  (forall al, In al (ci_allocs e) -> In (WRp kobj al) (work_items ks l)) /\
  (ci_allocs e = [] -> In (WWipe kobj) (work_items ks l)).
Proof.
  induction ks as [|k ks IH]; intros [|c l] kobj e H; cbn [combine] in H; try destruct H.
  - inv H. cbn [work_items]. destruct (ci_allocs e) as [|a0 al0] eqn:E.
    + split; [intros al []|intros _; left; reflexivity].
    + split; [|discriminate]. intros al Ha. apply in_or_app. left. apply in_map. assumption.
  - destruct (IH _ _ _ H) as (A & B). cbn [work_items]. destruct (ci_allocs c) as [|a0 al0].
    + split; [intros al Ha; right; auto|intros Ee; right; auto].
    + split; [intros al Ha; apply in_or_app; right; auto|intros Ee; apply in_or_app; right; auto].
Qed.

Lemma empty_created_in : forall ks l k, In k (empty_created ks l) -> In k ks.
Proof.
  induction ks as [|k0 ks IH]; intros [|c l] k H; cbn in H; try destruct H.
  destruct (ci_allocs c); [destruct H as [<-|H]; [left; reflexivity|right; eauto]|right; eauto].
Qed.

Section Alloc.
Variables (cf : cfg) (reqs : list req) (s : list nat) (d : db) (i : nat) (x0 : actx).
Notation T := (T cf reqs s d).
Notation D := (D cf reqs s d).

(* this thread created consumer c: it inserted the row when none existed *)
Definition Created (k : nat) (c : Z) : Prop :=
  exists k', (k' < k)%nat /\ nth_error s k' = Some i /\ cgen_of (D k') c = None /\ cgen_of (D (S k')) c = Some 0.
Definition RiOK (k : nat) (l : list rinv_in) : Prop :=
  forall y, In y l -> exists g', gen_of (D k) (ri_rp y) = Some g' /\ ri_gen y <= g'.
Definition CobjOK (k : nat) (kobj : cobj) (e : cons_in) : Prop :=
  co_uuid kobj = ci_uuid e /\ (co_created kobj = true -> Created k (co_uuid kobj)) /\
  (28 <= x_v x0 -> forall g, ci_gen e = Some g -> co_gen kobj = g /\ co_created kobj = false) /\
  (28 <= x_v x0 -> ci_gen e = None -> co_created kobj = true).
Definition WipeRead (k : nat) (c : Z) : Prop := exists k', (k' < k)%nat /\ wipe_list (D k') c = [].
Definition ObjOK (ks : list cobj) (a : areq) : Prop :=
  exists kobj e, In (kobj, e) (combine ks (x_all x0)) /\ q_cons a = co_uuid kobj /\ q_cgen a = co_gen kobj /\
    ((exists al, In al (ci_allocs e) /\ In (q_rc a, q_amt a) (ai_res al)) \/ (ci_allocs e = [] /\ q_amt a = 0)).
Definition ObjsOK (k : nat) (ks : list cobj) (objs : list areq) (wdone : list witem) : Prop :=
  (forall a, In a objs -> ObjOK ks a) /\
  (forall kobj al, In (WRp kobj al) wdone -> ai_res al <> [] -> exists q, In q objs /\ q_cons q = co_uuid kobj) /\
  (forall kobj, In (WWipe kobj) wdone ->
     (exists q, In q objs /\ q_cons q = co_uuid kobj) \/ WipeRead k (co_uuid kobj)).

Definition AInv (k : nat) (t : tstate) : Prop :=
  match t with
  | TDone _ => True
  | TCleanup todo _ => forall u, In u todo -> Created k u
  | TRi x todo => x = x0 /\ exists done, x_ri x0 = done ++ todo /\ RiOK k done
  | TCons x todo acc =>
      x = x0 /\ RiOK k (x_ri x0) /\ exists done, x_all x0 = done ++ todo /\ Forall2 (CobjOK k) (rev acc) done
  | TCreate x e rest acc | TReload x e rest acc =>
      x = x0 /\ RiOK k (x_ri x0) /\ (28 <= x_v x0 -> ci_gen e = None) /\
      exists done, x_all x0 = done ++ e :: rest /\ Forall2 (CobjOK k) (rev acc) done
  | TObjs x ks todo objs =>
      x = x0 /\ RiOK k (x_ri x0) /\ Forall2 (CobjOK k) ks (x_all x0) /\
      exists wdone, work_items ks (x_all x0) = wdone ++ todo /\ ObjsOK k ks objs wdone
  | TMain x ks objs =>
      x = x0 /\ RiOK k (x_ri x0) /\ Forall2 (CobjOK k) ks (x_all x0) /\
      ObjsOK k ks objs (work_items ks (x_all x0))
  | _ => False
  end.

Lemma Created_S k c : Created k c -> Created (S k) c.
Proof. intros (k' & L & R). exists k'. split; [lia|assumption]. Qed.
Lemma RiOK_S k l : RiOK k l -> RiOK (S k) l.
Proof.
  intros H y Hy. destruct (H y Hy) as (g' & G & L).
  destruct (D_mono cf reqs s d (ri_rp y) k (S k) ltac:(lia) _ G) as (g2 & G2 & L2). exists g2. split; [assumption|lia].
Qed.
Lemma CobjOK_S k kobj e : CobjOK k kobj e -> CobjOK (S k) kobj e.
Proof. intros (A & B & C). split; [assumption|]. split; [|assumption]. intros H. apply Created_S; auto. Qed.
Lemma F2Cobj_S k ks l : Forall2 (CobjOK k) ks l -> Forall2 (CobjOK (S k)) ks l.
Proof. apply F2_impl. intros a b. apply CobjOK_S. Qed.
Lemma ObjsOK_S k ks objs w : ObjsOK k ks objs w -> ObjsOK (S k) ks objs w.
Proof.
  intros (A & B & C). split; [assumption|]. split; [assumption|]. intros kobj H.
  destruct (C kobj H) as [E|(k' & L & R)]; [left; assumption|right; exists k'; split; [lia|assumption]].
Qed.

Lemma AInv_S k t : AInv k t -> AInv (S k) t.
Proof.
  destruct t; cbn [AInv]; auto.
  - intros (-> & done & E & R). split; [reflexivity|]. exists done. split; [assumption|apply RiOK_S; assumption].
  - intros (-> & R & done & E & F). split; [reflexivity|]. split; [apply RiOK_S; assumption|].
    exists done. split; [assumption|apply F2Cobj_S; assumption].
  - intros (-> & R & N & done & E & F). split; [reflexivity|]. split; [apply RiOK_S; assumption|]. split; [assumption|].
    exists done. split; [assumption|apply F2Cobj_S; assumption].
  - intros (-> & R & N & done & E & F). split; [reflexivity|]. split; [apply RiOK_S; assumption|]. split; [assumption|].
    exists done. split; [assumption|apply F2Cobj_S; assumption].
  - intros (-> & R & F & w & E & O). split; [reflexivity|]. split; [apply RiOK_S; assumption|].
    split; [apply F2Cobj_S; assumption|]. exists w. split; [assumption|apply ObjsOK_S; assumption].
  - intros (-> & R & F & O). split; [reflexivity|]. split; [apply RiOK_S; assumption|].
    split; [apply F2Cobj_S; assumption|apply ObjsOK_S; assumption].
  - intros H u Hu. apply Created_S. auto.
Qed.

Lemma AInv_cleanup k us rs : (forall u, In u us -> Created k u) -> AInv k (cleanup_or_done us rs).
Proof. intros H. destruct us; cbn; [exact I|exact H]. Qed.

Lemma created_of k ks l : Forall2 (CobjOK k) ks l -> forall u, In u (created_uuids ks) -> Created k u.
Proof.
  intros F u Hu. unfold created_uuids in Hu. apply in_map_iff in Hu. destruct Hu as (kobj & <- & Hk).
  apply filter_In in Hk. destruct Hk as (Hk & Hc). destruct (F2_in_l _ _ _ _ F Hk) as (e & _ & (_ & B & _)). auto.
Qed.
Lemma created_of_rev k acc l : Forall2 (CobjOK k) (rev acc) l -> forall u, In u (created_uuids acc) -> Created k u.
Proof.
  intros F u Hu. eapply created_of; [exact F|]. unfold created_uuids in *. apply in_map_iff in Hu.
  destruct Hu as (kobj & <- & Hk). apply in_map. apply filter_In in Hk. apply filter_In. rewrite <- in_rev. assumption.
Qed.

Lemma enter_objs k ks : RiOK k (x_ri x0) -> Forall2 (CobjOK k) ks (x_all x0) -> AInv k (after_cons x0 ks).
Proof.
  intros R F. unfold after_cons. destruct (work_items ks (x_all x0)) as [|w ws] eqn:E; cbn [AInv].
  - rewrite E. repeat split; auto; intros; try contradiction.
  - repeat split; auto. exists []. split; [exact E|]. repeat split; intros; contradiction.
Qed.
Lemma enter_cons k : RiOK k (x_ri x0) ->
  AInv k (match x_all x0 with [] => after_cons x0 [] | l => TCons x0 l [] end).
Proof.
  intros R. destruct (x_all x0) as [|c l] eqn:E.
  - apply enter_objs; [assumption|]. rewrite E. constructor.
  - cbn [AInv]. repeat split; auto. exists []. split; [exact E|constructor].
Qed.
Lemma cons_next k rest acc' done' : RiOK k (x_ri x0) -> x_all x0 = done' ++ rest ->
  Forall2 (CobjOK k) (rev acc') done' ->
  AInv k (match rest with [] => after_cons x0 (rev acc') | _ => TCons x0 rest acc' end).
Proof.
  intros R E F. destruct rest.
  - apply enter_objs; [assumption|]. rewrite E, app_nil_r. assumption.
  - cbn [AInv]. repeat split; auto. exists done'. auto.
Qed.
Lemma objs_next k ks rest objs' wdone' : RiOK k (x_ri x0) -> Forall2 (CobjOK k) ks (x_all x0) ->
  work_items ks (x_all x0) = wdone' ++ rest -> ObjsOK k ks objs' wdone' ->
  AInv k (match rest with [] => TMain x0 ks objs' | _ => TObjs x0 ks rest objs' end).
Proof.
  intros R F E O. destruct rest; cbn [AInv].
  - rewrite E, app_nil_r. auto.
  - repeat split; auto. exists wdone'. auto.
Qed.

Lemma cobj_found k kc c proj user ty :
  find_cons (D k) (ci_uuid c) = Some kc ->
  (28 <=? x_v x0) && negb (oeqb (Some (c_gen kc)) (ci_gen c)) = false ->
  CobjOK (S k) (mkCobj (c_uuid kc) (c_gen kc) (c_proj kc) (c_user kc) (c_type kc) false proj user ty) c.
Proof.
  intros F E. apply find_cons_l_uuid in F. destruct F as (U & _).
  split; [exact U|]. split; [cbn; discriminate|]. cbn [co_gen co_created]. split.
  - intros V g G. rewrite G in E. apply Z.leb_le in V. rewrite V in E. cbn in E.
    apply negb_false_iff in E. zb. auto.
  - intros V G. rewrite G in E. apply Z.leb_le in V. rewrite V in E. cbn in E. discriminate.
Qed.

Ltac use_cons_next k rest dn :=
  match goal with |- AInv _ (match _ with [] => _ | _ :: _ => TCons _ _ ?a end) => apply (cons_next k rest a dn) end.

Lemma AInv_step k t t' : nth_error s k = Some i -> AInv k t -> tstep t (D k) = (D (S k), t') -> AInv (S k) t'.
Proof.
  intros Hk HP Hs. destruct t; cbn [AInv] in HP; try contradiction.
  - (* TDone *) cbn in Hs. inv Hs. exact I.
  - (* TRi *) destruct HP as (-> & done & E & R). cbn [tstep] in Hs. destruct todo as [|r rest].
    + inv Hs. apply enter_cons. apply RiOK_S. rewrite E, app_nil_r. assumption.
    + destruct (find_rp (D k) (ri_rp r)) as [me|] eqn:F; [|inv Hs; exact I].
      destruct (negb (ri_gen r =? rp_gen me)) eqn:G; [inv Hs; exact I|]. apply negb_false_iff in G. zb.
      assert (R' : RiOK (S k) (done ++ [r])).
      { intros y Hy. apply in_app_or in Hy. destruct Hy as [Hy|[<-|[]]]; [exact (RiOK_S k done R y Hy)|].
        refine (RiOK_S k [r] _ r (or_introl eq_refl)). intros y [<-|[]]. exists (rp_gen me).
        split; [unfold gen_of; rewrite F; reflexivity|lia]. }
      assert (E' : x_ri x0 = (done ++ [r]) ++ rest) by (rewrite <- app_assoc; exact E).
      inv Hs. destruct rest.
      * apply enter_cons. rewrite E', app_nil_r. assumption.
      * cbn [AInv]. split; [reflexivity|]. exists (done ++ [r]). auto.
  - (* TCons *) destruct HP as (-> & R & done & E & F). apply RiOK_S in R. apply F2Cobj_S in F.
    cbn [tstep] in Hs. destruct todo as [|c rest].
    + inv Hs. apply enter_objs; [assumption|]. rewrite E, app_nil_r. assumption.
    + cbv zeta in Hs. destruct (rq_attrs (x_cf x0) (x_v x0) c) as [[proj user] ty].
      assert (E' : x_all x0 = (done ++ [c]) ++ rest) by (rewrite <- app_assoc; exact E).
      destruct (find_cons (D k) (ci_uuid c)) as [kc|] eqn:FC.
      * destruct ((28 <=? x_v x0) && negb (oeqb (Some (c_gen kc)) (ci_gen c))) eqn:G; inv Hs.
        -- apply AInv_cleanup. eapply created_of_rev; eassumption.
        -- use_cons_next (S k) rest (done ++ [c]); auto. cbn [rev]. apply Forall2_app; [assumption|].
           constructor; [|constructor]. apply cobj_found; assumption.
      * destruct ((28 <=? x_v x0) && match ci_gen c with Some _ => true | None => false end) eqn:G; inv Hs.
        -- apply AInv_cleanup. eapply created_of_rev; eassumption.
        -- cbn [AInv]. repeat split; auto; [|exists done; auto].
           intros V. apply Z.leb_le in V. rewrite V in G. cbn in G. destruct (ci_gen c); [discriminate|reflexivity].
  - (* TCreate *) destruct HP as (-> & R & N & done & E & F). apply RiOK_S in R. apply F2Cobj_S in F.
    cbn [tstep] in Hs. destruct (rq_attrs (x_cf x0) (x_v x0) c) as [[proj user] ty].
    assert (E' : x_all x0 = (done ++ [c]) ++ todo) by (rewrite <- app_assoc; exact E).
    destruct (find_cons (D k) (ci_uuid c)) as [kc|] eqn:FC.
    + inv Hs. cbn [AInv]. repeat split; auto. exists done. auto.
    + injection Hs as Hd Ht. subst t'. use_cons_next (S k) todo (done ++ [c]); auto. cbn [rev].
      apply Forall2_app; [assumption|]. constructor; [|constructor].
      split; [reflexivity|]. cbn [co_uuid co_created co_gen]. split; [|split].
      * intros _. exists k. split; [lia|]. split; [assumption|]. unfold cgen_of. rewrite FC. split; [reflexivity|].
        rewrite <- Hd. unfold find_cons in *. cbn [consumers set_consumers].
        change (cgl (consumers (D k) ++ [mkCons (ci_uuid c) proj user ty 0]) (ci_uuid c) = Some 0).
        rewrite cgl_app1. unfold cgl. rewrite FC. cbn. rewrite Z.eqb_refl. reflexivity.
      * intros V g G. rewrite (N V) in G. discriminate.
      * auto.
  - (* TReload *) destruct HP as (-> & R & N & done & E & F). apply RiOK_S in R. apply F2Cobj_S in F.
    cbn [tstep] in Hs. destruct (rq_attrs (x_cf x0) (x_v x0) c) as [[proj user] ty].
    assert (E' : x_all x0 = (done ++ [c]) ++ todo) by (rewrite <- app_assoc; exact E).
    destruct (find_cons (D k) (ci_uuid c)) as [kc|] eqn:FC.
    + destruct (28 <=? x_v x0) eqn:V; inv Hs.
      * apply AInv_cleanup. eapply created_of_rev; eassumption.
      * use_cons_next (S k) todo (done ++ [c]); auto. cbn [rev]. apply Forall2_app; [assumption|].
        constructor; [|constructor]. apply cobj_found; [assumption|]. rewrite V. reflexivity.
    + inv Hs. apply AInv_cleanup. eapply created_of_rev; eassumption.
  - (* TObjs *) destruct HP as (-> & R & F & wdone & E & O). apply RiOK_S in R. apply F2Cobj_S in F.
    cbn [tstep] in Hs. destruct todo as [|w rest].
    + inv Hs. cbn [AInv]. rewrite app_nil_r in E. rewrite E. split; [reflexivity|]. split; [assumption|]. split; [assumption|]. apply ObjsOK_S. assumption.
    + cbv zeta in Hs.
      assert (E' : work_items ks (x_all x0) = (wdone ++ [w]) ++ rest) by (rewrite <- app_assoc; exact E).
      assert (Hw : In w (work_items ks (x_all x0))) by (rewrite E; apply in_or_app; right; left; reflexivity).
      destruct O as (O1 & O2 & O3).
      destruct w as [kobj|kobj al].
      * injection Hs as Hd Ht. subst t'. apply objs_next with (wdone' := wdone ++ [WWipe kobj]); auto.
        destruct (wi_WWipe _ _ _ Hw) as (e & He & Ee). split; [|split].
        -- intros a Ha. apply in_app_or in Ha. destruct Ha as [Ha|Ha]; [auto|].
           apply in_map_iff in Ha. destruct Ha as (q & <- & Hq). exists kobj, e. cbn [q_cons q_cgen q_rc q_amt].
           unfold wipe_list in Hq. destruct (find_cons (D k) (co_uuid kobj)); [|destruct Hq].
           apply in_flat_map in Hq. destruct Hq as (b & _ & Hq). destruct (a_cons b =? co_uuid kobj); [|destruct Hq].
           destruct (find_rp (D k) (a_rp b)); [|destruct Hq]. destruct Hq as [<-|[]]. cbn. repeat split; auto.
        -- intros kb al Hin Hne. apply in_app_or in Hin. destruct Hin as [Hin|[Hin|[]]]; [|discriminate].
           destruct (O2 _ _ Hin Hne) as (q & Hq & Eq). exists q. split; [apply in_or_app; left|]; assumption.
        -- intros kb Hin. apply in_app_or in Hin. destruct Hin as [Hin|[Hin|[]]].
           ++ destruct (O3 _ Hin) as [(q & Hq & Eq)|(k' & L & W)].
              ** left. exists q. split; [apply in_or_app; left|]; assumption.
              ** right. exists k'. split; [lia|assumption].
           ++ inv Hin. destruct (wipe_list (D k) (co_uuid kb)) as [|q0 ql] eqn:W.
              ** right. exists k. split; [lia|assumption].
              ** left. eexists. split; [apply in_or_app; right; left; reflexivity|]. cbn [q_cons].
                 assert (Hq : In q0 (wipe_list (D k) (co_uuid kb))) by (rewrite W; left; reflexivity).
                 unfold wipe_list in Hq. destruct (find_cons (D k) (co_uuid kb)); [|destruct Hq].
                 apply in_flat_map in Hq. destruct Hq as (b & _ & Hq). destruct (a_cons b =? co_uuid kb); [|destruct Hq].
                 destruct (find_rp (D k) (a_rp b)); [|destruct Hq]. destruct Hq as [<-|[]]. reflexivity.
      * destruct (find_rp (D k) (ai_rp al)) as [rr|] eqn:FR.
        -- injection Hs as Hd Ht. subst t'. apply objs_next with (wdone' := wdone ++ [WRp kobj al]); auto.
           destruct (wi_WRp _ _ _ _ Hw) as (e & He & Ee). split; [|split].
           ++ intros a Ha. apply in_app_or in Ha. destruct Ha as [Ha|Ha]; [auto|].
              apply in_map_iff in Ha. destruct Ha as (y & <- & Hy). exists kobj, e. cbn [q_cons q_cgen q_rc q_amt].
              repeat split; auto. left. exists al. split; [assumption|]. destruct y; assumption.
           ++ intros kb al' Hin Hne. apply in_app_or in Hin. destruct Hin as [Hin|[Hin|[]]].
              ** destruct (O2 _ _ Hin Hne) as (q & Hq & Eq). exists q. split; [apply in_or_app; left|]; assumption.
              ** inv Hin. destruct (ai_res al') as [|y yl] eqn:Ey; [congruence|].
                 eexists. split; [apply in_or_app; right; left; reflexivity|reflexivity].
           ++ intros kb Hin. apply in_app_or in Hin. destruct Hin as [Hin|[Hin|[]]]; [|discriminate].
              destruct (O3 _ Hin) as [(q & Hq & Eq)|(k' & L & W)].
              ** left. exists q. split; [apply in_or_app; left|]; assumption.
              ** right. exists k'. split; [lia|assumption].
        -- inv Hs. apply AInv_cleanup. eapply created_of; eassumption.
  - (* TMain *) destruct HP as (-> & R & F & O). apply F2Cobj_S in F. cbn [tstep] in Hs.
    destruct (main_txn x0 ks objs (D k)) as [d1|e]; inv Hs; apply AInv_cleanup.
    + intros u Hu. unfold created_uuids in Hu. apply in_map_iff in Hu. destruct Hu as (kobj & <- & Hin).
      apply filter_In in Hin. destruct Hin as (Hin & Hc). apply empty_created_in in Hin.
      destruct (F2_in_l _ _ _ _ F Hin) as (e & _ & (_ & B & _)). auto.
    + eapply created_of; eassumption.
  - (* TCleanup *) cbn [tstep] in Hs. destruct todo as [|u rest]; [inv Hs; exact I|]. inv Hs.
    destruct rest; cbn [AInv]; [exact I|]. intros u' Hu'. apply Created_S. apply HP. right. assumption.
Qed.

End Alloc.

(* ================================================================== the commit step of an allocation write *)
Definition ctx_of (cf : cfg) (r : req) : option actx :=
  match r with
  | AllocPut v c => Some (mkActx cf v KPut [] [c])
  | AllocPost v l => Some (mkActx cf v KPost [] l)
  | Reshape v ri al => Some (mkActx cf v KReshape ri al)
  | _ => None
  end.

Definition post_succ (t : tstate) : bool :=
  match t with TDone r | TCleanup _ r => status r <? 300 | _ => false end.
Lemma post_succ_cleanup us rs : post_succ (cleanup_or_done us rs) = (status rs <? 300).
Proof. destruct us; reflexivity. Qed.
Lemma post_succ_after x ks : post_succ (after_cons x ks) = false.
Proof. unfold after_cons. destruct (work_items ks (x_all x)); reflexivity. Qed.
Lemma main_err_status x e : (status (main_err x e) <? 300) = false.
Proof.
  apply Z.ltb_ge. unfold main_err. destruct (x_kind x);
    [pose proof (alloc_err_is_error e)|pose proof (alloc_err_is_error e)|pose proof (reshape_err_is_error e)];
    unfold is_error in *; lia.
Qed.

Lemma no_flip t d d' t' : post_succ t = false -> tstep t d = (d', t') -> post_succ t' = true ->
  (exists x ks objs, t = TMain x ks objs /\ main_txn x ks objs d = Ok d') \/
  (exists r g, t = TProvWrite r g) \/ (exists c, t = TDelCons c).
Proof.
  intros Q Hs Q'. destruct t; cbn [tstep] in Hs.
  - inv Hs. congruence.
  - exfalso. destruct (prov_target r); [|inv Hs; discriminate]. destruct (find_rp d z); [|inv Hs; discriminate].
    destruct (prov_precheck r r0 d) eqn:P; inv Hs; [|discriminate]. apply precheck_err in P. cbn in Q'.
    apply Z.ltb_lt in Q'. lia.
  - right. left. eauto.
  - exfalso. destruct todo as [|r rest].
    + inv Hs. destruct (x_all x); [rewrite post_succ_after in Q'|]; discriminate.
    + destruct (find_rp d (ri_rp r)); [|inv Hs; discriminate]. destruct (negb _); inv Hs; [discriminate|].
      destruct rest; [|discriminate]. destruct (x_all x); [rewrite post_succ_after in Q'|]; discriminate.
  - exfalso. destruct todo as [|c rest]; [inv Hs; rewrite post_succ_after in Q'; discriminate|].
    cbv zeta in Hs. destruct (rq_attrs _ _ c) as [[proj user] ty].
    destruct (find_cons d (ci_uuid c)); destruct (_ && _); inv Hs;
      rewrite ?post_succ_cleanup in Q'; try discriminate.
    destruct rest; [rewrite post_succ_after in Q'|]; discriminate.
  - exfalso. destruct (rq_attrs _ _ c) as [[proj user] ty]. destruct (find_cons d (ci_uuid c)); inv Hs; [discriminate|].
    destruct todo; [rewrite post_succ_after in Q'|]; discriminate.
  - exfalso. destruct (rq_attrs _ _ c) as [[proj user] ty].
    destruct (find_cons d (ci_uuid c)); [destruct (28 <=? x_v x)|]; inv Hs; rewrite ?post_succ_cleanup in Q'; try discriminate.
    destruct todo; [rewrite post_succ_after in Q'|]; discriminate.
  - exfalso. destruct todo as [|w rest]; [inv Hs; discriminate|]. cbv zeta in Hs. destruct w.
    + inv Hs. destruct rest; discriminate.
    + destruct (find_rp d (ai_rp a)); inv Hs; [destruct rest; discriminate|].
      rewrite post_succ_cleanup in Q'. discriminate.
  - destruct (main_txn x ks objs d) as [d1|e] eqn:E; inv Hs.
    + left. eauto 6.
    + exfalso. rewrite post_succ_cleanup, main_err_status in Q'. discriminate.
  - exfalso. destruct todo as [|u rest]; inv Hs; [cbn in *; congruence|]. destruct rest; cbn in *; congruence.
  - exfalso. destruct (wipe_list d c); inv Hs; discriminate.
  - exfalso. inv Hs. discriminate.
  - right. right. eauto.
Qed.

Section Commit.
Variables (cf : cfg) (reqs : list req) (s : list nat) (d : db).
Notation T := (T cf reqs s d).
Notation D := (D cf reqs s d).

Lemma AInv_all i r x0 : nth_error reqs i = Some r -> ctx_of cf r = Some x0 ->
  forall k, exists t, nth_error (T k) i = Some t /\ AInv cf reqs s d i x0 k t.
Proof.
  intros Hr Hx. apply (thread_inv cf reqs s d (AInv cf reqs s d i x0) i r Hr).
  - destruct r; cbn in Hx; inv Hx; cbn [tinit].
    + cbn [AInv]. split; [reflexivity|]. split; [intros y []|]. exists []. split; [reflexivity|constructor].
    + destruct (v <? 13); [exact I|]. cbn [AInv]. split; [reflexivity|]. split; [intros y []|].
      exists []. split; [reflexivity|constructor].
    + destruct (v <? 30); [exact I|]. cbn [AInv]. split; [reflexivity|]. exists []. split; [reflexivity|intros y []].
  - apply AInv_S.
  - intros k t t' Hk _ HP Hs. eapply AInv_step; eassumption.
Qed.

Lemma tinit_alloc r x0 : ctx_of cf r = Some x0 -> post_succ (tinit cf r) = false.
Proof.
  destruct r; cbn; intros H; inv H; try reflexivity;
    match goal with |- context[if ?c then _ else _] => destruct c end; reflexivity.
Qed.

Lemma alloc_master i r x0 n : nth_error reqs i = Some r -> ctx_of cf r = Some x0 -> succeeded (T n) i ->
  exists k ks objs, (k < n)%nat /\ nth_error s k = Some i /\ nth_error (T k) i = Some (TMain x0 ks objs) /\
    AInv cf reqs s d i x0 k (TMain x0 ks objs) /\ main_txn x0 ks objs (D k) = Ok (D (S k)).
Proof.
  intros Hr Hx (rs & Hn & Hs).
  assert (H0 : nth_error (T 0) i = Some (tinit cf r)).
  { destruct (at_step_0 cf reqs s d) as [E _]. rewrite E, nth_error_map, Hr. reflexivity. }
  assert (Qn : post_succ (TDone rs) = true) by (cbn; apply Z.ltb_lt; assumption).
  destruct (flip cf reqs s d post_succ i n _ _ H0 (tinit_alloc _ _ Hx) Hn Qn)
    as (k & t & t' & Hk & Hsk & Ht & Qt & Hst & Ht' & Qt').
  destruct (AInv_all i r x0 Hr Hx k) as (t1 & Ht1 & HP). rewrite Ht in Ht1. inv Ht1.
  destruct (no_flip _ _ _ _ Qt Hst Qt') as [(x & ks & objs & -> & Hm)|[(r' & g & ->)|(c & ->)]];
    try (cbn in HP; contradiction).
  assert (x = x0) by (cbn in HP; tauto). subst x. exists k, ks, objs. auto.
Qed.

End Commit.

(* ================================================================== C05: the statements *)
Definition rep_change (r : req) (g : Z) (t : tstate) : Prop :=
  match r, t with
  | TraitsSet _ _ _ _, TDone rs => rgen rs = g + 1
  | _, _ => True
  end.

Lemma precheck_carries r me d0 u g : prov_precheck r me d0 = None -> carries_rp_gen r u g ->
  prov_target r = Some u -> rp_gen me = g.
Proof.
  destruct r; cbn; try contradiction; try discriminate.
  - destruct (negb (g0 =? rp_gen me)) eqn:E; [discriminate|]. apply negb_false_iff in E. zb. intros _ (-> & <-). auto.
  - destruct (negb (g0 =? rp_gen me)) eqn:E; [discriminate|]. apply negb_false_iff in E. zb. intros _ (-> & <-). auto.
  - destruct (negb (g0 =? rp_gen me)) eqn:E; [discriminate|]. apply negb_false_iff in E. zb. intros _ (-> & <-). auto.
  - intros H (V & -> & <-). apply Z.leb_le in V. rewrite V in H. cbn in H.
    destruct (negb (g0 =? rp_gen me)) eqn:E; [discriminate|]. apply negb_false_iff in E. zb. auto.
Qed.

Lemma carries_target r u g : carries_rp_gen r u g ->
  prov_target r = Some u \/ exists v ri al, r = Reshape v ri al.
Proof.
  destruct r; cbn; try contradiction; try (intros (-> & _); auto); try (intros (_ & -> & _); auto).
  intros _. right. eauto.
Qed.

Lemma c05_commit_detail cf reqs s d i r u g ts' d' :
  exec cf reqs s d = (ts', d') -> nth_error reqs i = Some r -> carries_rp_gen r u g -> succeeded ts' i ->
  exists k, commits_at cf reqs s d i k /\ gen_of (D cf reqs s d k) u = Some g /\
    (forall ti, nth_error ts' i = Some ti -> rep_change r g ti ->
       olt (gen_of (D cf reqs s d k) u) (gen_of (D cf reqs s d (S k)) u)).
Proof.
  intros He Hr Hc Hs. destruct (at_step_end _ _ _ _ _ _ He) as [ET ED]. rewrite <- ET in Hs.
  destruct (carries_target _ _ _ Hc) as [Hu|(v & ri & al & ->)].
  - destruct (prov_master cf reqs s d i r u _ Hr Hu Hs) as (k1 & k2 & g0 & rs & L & RA & Hk2 & Ht2 & Hw & Hst & Hn).
    destruct RA as (_ & _ & me & _ & Eg & Pc). pose proof (precheck_carries _ _ _ _ _ Pc Hc Hu) as Eg'. subst g0. subst g.
    destruct (prov_write_ok _ _ _ _ _ _ Hw Hst Hu) as (_ & K). destruct (K _ Hc eq_refl) as (G1 & G2).
    exists k2. split; [|split; [assumption|]].
    + split; [assumption|]. exists (TProvWrite r (rp_gen me)). split; [assumption|exact I].
    + intros ti Hti Hrep. rewrite ET, Hti in Hn. inv Hn. intros g1 Hg1. rewrite G1 in Hg1. inv Hg1.
      exists (rp_gen me + 1). split; [|lia]. apply G2. destruct r; auto.
  - set (x0 := mkActx cf v KReshape ri al).
    destruct (alloc_master cf reqs s d i _ x0 _ Hr eq_refl Hs) as (k & ks & objs & L & Hk & Ht & HP & Hm).
    cbn [AInv] in HP. destruct HP as (_ & R & _). destruct Hc as (y & Hy & <- & <-).
    unfold main_txn in Hm. cbn [x_kind x0 x_ri] in Hm. apply reshape_txn_c_spec in Hm. destruct Hm as (_ & Hm).
    destruct (Hm y Hy) as (O & Le). destruct (R y Hy) as (g' & G' & Le').
    destruct (fold_update_spec ks (D cf reqs s d k)) as [(RR & _) _].
    assert (EG : forall z, gen_of (fold_left update_consumer ks (D cf reqs s d k)) z = gen_of (D cf reqs s d k) z).
    { intros z. unfold gen_of, find_rp. rewrite RR. reflexivity. }
    rewrite EG in O, Le. specialize (Le _ G'). assert (g' = ri_gen y) by lia. subst g'.
    exists k. split; [|split; [assumption|intros; assumption]].
    split; [assumption|]. exists (TMain x0 ks objs). split; [assumption|exact I].
Qed.

Lemma c05_commit_generation :
  forall cf reqs s d i r u g ts' d',
    exec cf reqs s d = (ts', d') -> nth_error reqs i = Some r -> carries_rp_gen r u g -> succeeded ts' i ->
    exists k, commits_at cf reqs s d i k /\ gen_of (snd (at_step cf reqs s d k)) u = Some g.
Proof.
  intros cf reqs s d i r u g ts' d' He Hr Hc Hs.
  destruct (c05_commit_detail _ _ _ _ _ _ _ _ _ _ He Hr Hc Hs) as (k & A & B & _). exists k. split; assumption.
Qed.

Lemma c05_at_most_one :
  forall cf reqs s d i j ri rj u g ts' d' ti tj,
    exec cf reqs s d = (ts', d') -> i <> j ->
    nth_error reqs i = Some ri -> nth_error reqs j = Some rj ->
    carries_rp_gen ri u g -> carries_rp_gen rj u g ->
    succeeded ts' i -> succeeded ts' j ->
    nth_error ts' i = Some ti -> nth_error ts' j = Some tj ->
    rep_change ri g ti -> rep_change rj g tj -> False.
Proof.
  intros cf reqs s d i j ri rj u g ts' d' ti tj He Hij Hri Hrj Hci Hcj Hsi Hsj Hti Htj Hpi Hpj.
  destruct (c05_commit_detail _ _ _ _ _ _ _ _ _ _ He Hri Hci Hsi) as (ki & (Ski & _) & Gi & Oi).
  destruct (c05_commit_detail _ _ _ _ _ _ _ _ _ _ He Hrj Hcj Hsj) as (kj & (Skj & _) & Gj & Oj).
  specialize (Oi _ Hti Hpi _ Gi). specialize (Oj _ Htj Hpj _ Gj).
  destruct Oi as (gi & Gi' & Li). destruct Oj as (gj & Gj' & Lj).
  assert (ki <> kj) by congruence.
  destruct (Nat.lt_ge_cases ki kj) as [Hlt|Hge].
  - destruct (D_mono cf reqs s d u (S ki) kj ltac:(lia) _ Gi') as (g2 & G2 & L2). rewrite Gj in G2. inv G2. lia.
  - destruct (D_mono cf reqs s d u (S kj) ki ltac:(lia) _ Gj') as (g2 & G2 & L2). rewrite Gi in G2. inv G2. lia.
Qed.

Lemma c05_rejected_no_effect :
  forall cf reqs s d i r u ts' d' rs,
    exec cf reqs s d = (ts', d') -> nth_error reqs i = Some r -> prov_target r = Some u ->
    nth_error ts' i = Some (TDone rs) -> 400 <= status rs ->
    forall k, nth_error s k = Some i ->
      snd (at_step cf reqs s d (S k)) = snd (at_step cf reqs s d k).
Proof.
  intros cf reqs s d i r u ts' d' rs He Hr Hu Hn Hst k Hk.
  destruct (at_step_end _ _ _ _ _ _ He) as [ET ED]. rewrite <- ET in Hn.
  destruct (PInv_all cf reqs s d i r u Hr Hu k) as (t & Ht & HP).
  destruct (trace_self cf reqs s d k i t Hk Ht) as (t' & Hs & Ht').
  change (D cf reqs s d (S k) = D cf reqs s d k).
  destruct t; cbn in HP; try contradiction.
  - cbn in Hs. inv Hs. congruence.
  - subst r0. cbn [tstep] in Hs. rewrite Hu in Hs. repeat bmH Hs; inv Hs; congruence.
  - destruct HP as (-> & _). cbn [tstep] in Hs. destruct (prov_write r g (D cf reqs s d k)) as [d1 rs1] eqn:E. inv Hs.
    assert (Hl : (S k <= length s)%nat) by (apply Nat.le_succ_l, nth_error_Some; congruence).
    pose proof (done_stable cf reqs s d i rs1 _ _ Hl Ht') as Hd. rewrite Hn in Hd. inv Hd.
    eapply prov_write_err; eassumption.
Qed.

Lemma c05_self_derived :
  forall cf reqs s d i r u ts' d',
    exec cf reqs s d = (ts', d') -> nth_error reqs i = Some r -> prov_target r = Some u ->
    (forall v u' g l, r = AggsSet v u' g l -> 19 <= v) ->
    succeeded ts' i ->
    exists k1 k2 g, (k1 < k2)%nat /\ nth_error s k1 = Some i /\ commits_at cf reqs s d i k2 /\
      gen_of (snd (at_step cf reqs s d k1)) u = Some g /\ gen_of (snd (at_step cf reqs s d k2)) u = Some g.
Proof.
  intros cf reqs s d i r u ts' d' He Hr Hu Hna Hs.
  destruct (at_step_end _ _ _ _ _ _ He) as [ET ED]. rewrite <- ET in Hs.
  destruct (prov_master cf reqs s d i r u _ Hr Hu Hs) as (k1 & k2 & g0 & rs & L & RA & Hk2 & Ht2 & Hw & Hst & Hn).
  destruct RA as (Hk1 & _ & me & F & Eg & _).
  destruct (prov_write_ok _ _ _ _ _ _ Hw Hst Hu) as (K & _).
  exists k1, k2, g0. split; [lia|]. split; [assumption|]. split; [|split].
  - split; [assumption|]. exists (TProvWrite r g0). split; [assumption|exact I].
  - change (gen_of (D cf reqs s d k1) u = Some g0). unfold gen_of. rewrite F. cbn. congruence.
  - apply K. exact Hna.
Qed.

(* the premise on PUT aggregates is needed: below 1.19 the write is not generation-guarded *)
Lemma c05_self_derived_old_aggs_refuted :
  exists cf reqs s d i r u,
    nth_error reqs i = Some r /\ prov_target r = Some u /\ succeeded (fst (exec cf reqs s d)) i /\
    ~ exists k1 k2 g, (k1 < k2)%nat /\ nth_error s k1 = Some i /\ commits_at cf reqs s d i k2 /\
        gen_of (snd (at_step cf reqs s d k1)) u = Some g /\ gen_of (snd (at_step cf reqs s d k2)) u = Some g.
Proof.
  exists (mkCfg 900 901), [AggsSet 1 1 0 []; InvPost 1 1 (mkInvIn 0 10 0 1 10 1 1 0)], [0; 1; 1; 0]%nat,
         (mkDb [mkRp 1 1 0 None 1] [] [] [] [] [] [] [] [] [] [] []), 0%nat, (AggsSet 1 1 0 []), 1.
  split; [reflexivity|]. split; [reflexivity|]. split.
  - eexists. split; [vm_compute; reflexivity|vm_compute; reflexivity].
  - intros (k1 & k2 & g & L & H1 & (H2 & t & Ht & Hc) & G1 & G2).
    destruct k2 as [|[|[|[|k2]]]]; vm_compute in H2; try discriminate.
    + lia.
    + destruct k1 as [|[|[|k1]]]; vm_compute in H1; try discriminate; try lia.
      vm_compute in G1. vm_compute in G2. congruence.
    + destruct k2; discriminate.
Qed.
